(* C07 — simulations compose in time.  Model: Model/Scan.v.  Statements only. *)
From Coq Require Import List Arith.
From JV Require Import Scan ScanFacts.
Import ListNotations.

(* n1+n2 steps in one call = n1 steps, then n2 steps from the returned state with the
   remaining inputs (recordings: drop the duplicated initial column) — for ALL splits *)
Theorem C07_integrate_split :
  forall (St X Y : Type) (step : St -> X -> St) (rec : St -> Y) (zero : X) s0 in1 in2,
    fst (integrate step rec zero s0 (in1 ++ in2) None) =
      fst (integrate step rec zero s0 in1 None)
      ++ tl (fst (integrate step rec zero (snd (integrate step rec zero s0 in1 None)) in2 None)).
Proof. exact @integrate_split. Qed.
Theorem C07_integrate_split_state :
  forall (St X Y : Type) (step : St -> X -> St) (rec : St -> Y) (zero : X) s0 in1 in2,
    snd (integrate step rec zero s0 (in1 ++ in2) None) =
    snd (integrate step rec zero (snd (integrate step rec zero s0 in1 None)) in2 None).
Proof. exact @integrate_split_state. Qed.

(* stepping manually with step_fn gives the same recordings and the same final state *)
Theorem C07_manual_stepping :
  forall (St X Y : Type) (step : St -> X -> St) (rec : St -> Y) (zero : X) s0 inputs,
    fst (integrate step rec zero s0 inputs None) = rec s0 :: map rec (states_after step s0 inputs)
    /\ snd (integrate step rec zero s0 inputs None) = fold_left step inputs s0.
Proof. exact @manual_stepping. Qed.

(* column k of the recordings is the state after k steps (column 0: the initial state) *)
Theorem C07_column_k :
  forall (St X Y : Type) (step : St -> X -> St) (rec : St -> Y) (zero : X) s0 inputs cl k d,
    lens_of (length inputs) cl <> [] -> length inputs <= prod (lens_of (length inputs) cl) ->
    k <= length inputs ->
    nth k (fst (integrate step rec zero s0 inputs cl)) d = rec (run step s0 (firstn k inputs)).
Proof. exact @column_k. Qed.

(* the returned states are the state at the last returned time point when
   prod(checkpoint_lengths) = number of steps ... *)
Theorem C07_returned_state_holds_when_exact :
  forall (St X Y : Type) (step : St -> X -> St) (rec : St -> Y) (zero : X) s0 inputs cl,
    lens_of (length inputs) cl <> [] -> prod (lens_of (length inputs) cl) = length inputs ->
    snd (integrate step rec zero s0 inputs cl) = run step s0 inputs.
Proof. exact @returned_state_exact. Qed.
(* ... and NOT otherwise (known finding F6): 5 steps, checkpoint_lengths [2;4] *)
Theorem C07_returned_state_refuted :
  exists (inputs : list nat) (cl : list nat),
    length inputs <= prod cl /\
    snd (integrate (fun s (_ : nat) => S s) (fun s => s) 0 0 inputs (Some cl))
      <> run (fun s (_ : nat) => S s) 0 inputs.
Proof. exact returned_state_refuted. Qed.

Example C07_nonvacuous :
  fst (integrate (fun s x => s + x) (fun s => s) 0 0 ([1; 2] ++ [3]) None) = [0; 1; 3; 6].
Proof. reflexivity. Qed.
