(* C12 — assembly preserves constituents; uncoupled parts simulate independently.
   Statements only. *)
From Coq Require Import Reals List Permutation Arith.
From Coq Require Import Lia.
From JV Require Import TreeSolve TreeSolveFacts TreePerm ChannelOrder ChannelOrderFacts.
From JV Require Import HinesArr HinesCheck HinesIdx HinesIdxF AsmStruct AssembleM AsmIdx AssembleGraph AsmIdxF GraphIndep ForestIndep ForestCells.
Import ListNotations.

(* concatenating the node tables of the constituents keeps every row, under contiguous
   indices: row (offset of constituent c) + j of the assembled table is row j of c *)
Theorem C12_assembly_preserves_rows : forall (A : Type) (parts : list (list A)) c j d,
  c < length parts -> j < length (nth c parts []) ->
  nth (fold_right plus 0 (map (@length A) (firstn c parts)) + j) (concat parts) d = nth j (nth c parts []) d.
Proof. exact @nth_concat_offset. Qed.
Theorem C12_indices_contiguous : forall (A : Type) (parts : list (list A)),
  length (concat parts) = fold_right plus 0 (map (@length A) parts).
Proof. exact @concat_length_sum. Qed.

Local Open Scope R_scope.
(* listing sibling subtrees (branches below one branch point) in a different order leaves
   the parent's pivot and right-hand side unchanged ... *)
Theorem C12_sibling_order_parent : forall d u l b (cs cs' : list (tree R)),
  Permutation cs cs' ->
  reduce R Rminus Rmult Rdiv (Node d u l b cs) = reduce R Rminus Rmult Rdiv (Node d u l b cs').
Proof. exact reduce_sibling_order. Qed.
(* ... and permutes the results, changing nothing else *)
Theorem C12_sibling_order_solution : forall d u l b (cs cs' : list (tree R)) xp,
  Permutation cs cs' ->
  Permutation (flatten (backsub R Rminus Rmult Rdiv (Node d u l b cs) xp))
              (flatten (backsub R Rminus Rmult Rdiv (Node d u l b cs') xp)).
Proof. exact flatten_sibling_order. Qed.

Example C12_nonvacuous : nth (2 + 1) (concat [[10; 11]; [20; 21; 22]; [30]]) 0 = 21.
Proof. reflexivity. Qed.

(* ---- the update order of the channels (Model/ChannelOrder.v; known finding F38) ----
   _step_channels_state updates the channels one after the other, each seeing what the earlier ones wrote.  If no
   channel writes a state another channel reads or writes - the channel_states of all built-in channels are pairwise
   disjoint, which the harness checks on the classes - any order of the channel list gives the same states, so
   the listing order of constituents (which determines that order) cannot matter ... *)
Theorem C12_update_order_irrelevant_for_independent_channels : forall (cs cs' : list chan),
  Permutation.Permutation cs cs' -> Forall local cs -> NoDup cs -> pairwise_indep cs ->
  forall s n, run_chans cs s n = run_chans cs' s n.
Proof. exact order_irrelevant. Qed.

(* ... and if one channel reads what another writes, it does (F38) *)
Theorem C12_update_order_matters_for_shared_states :
  (run_chans [pump; nernst] (fun _ => 0) 1%nat = 100 /\ run_chans [nernst; pump] (fun _ => 0) 1%nat = 0 /\
   local pump /\ local nernst /\ ~ indep pump nernst)%R.
Proof. exact order_matters_for_shared_states. Qed.

(* ---- uncoupled parts simulate independently, at the array level, for EVERY network ----
   Model/HinesIdxF.v + Model/AsmIdxF.v are the index structure and the edge table of a network (compared exactly with
   the code by the C01 harness).  Two assignments of conductances, voltages and membrane terms to the same network
   that agree on cell k - on its compartments and on the edges that end in its nodes - give the same voltages in
   cell k after an implicit step, whatever differs in the other cells (no edge of the table joins two cells). *)
Theorem C12_cells_of_every_network_independent :
  forall (ps ns : list nat) (rs : list bool) (es es' : list (edge R)) (v vt ct v' vt' ct' : nat -> R) (dt : R) (k : nat),
  (1 <= length ps)%nat -> (forall b, (b < length ps)%nat -> is_root rs b = false -> (nth b ps 0%nat < b)%nat) ->
  (forall b, (b < length ps)%nat -> (1 <= nth b ns 0%nat)%nat) ->
  (forall b, (b < length ps)%nat -> is_root rs b = false -> cell_ofF rs (nth b ps 0%nat) = cell_ofF rs b) ->
  map strip es = triples_ofF ps ns rs -> map strip es' = triples_ofF ps ns rs ->
  (0 < dt)%R -> (forall e, In e es -> (0 < e_g R e)%R) -> (forall e, In e es' -> (0 < e_g R e)%R) ->
  (forall i, (i < total ps ns)%nat -> (0 <= vt i)%R) -> (forall i, (i < total ps ns)%nat -> (0 <= vt' i)%R) ->
  (forall idx, (idx < length es)%nat -> node_cell ps ns rs (e_sink R (nth idx es e0)) = k -> e_g R (nth idx es e0) = e_g R (nth idx es' e0)) ->
  (forall b r, (b < length ps)%nat -> (r < ncomp_of ns b)%nat -> cell_ofF rs b = k ->
     let c := (tcs ns b + r)%nat in v c = v' c /\ vt c = vt' c /\ ct c = ct' c) ->
  let ly := layout_ofF ps ns rs in let ops := ops_of_forest ps ns rs in
  let mask := nthD (mask_ofF ps ns rs) in let n := total ps ns in
  let s0 := assemble R Rplus Rminus Rmult 0%R 1%R mask n es v vt ct dt (group_ofF ps rs) (child_inds_ofF ps rs) (par_inds_ofF ps rs) in
  let s0' := assemble R Rplus Rminus Rmult 0%R 1%R mask n es' v' vt' ct' dt (group_ofF ps rs) (child_inds_ofF ps rs) (par_inds_ofF ps rs) in
  forall b r, (b < length ps)%nat -> (r < ncomp_of ns b)%nat -> cell_ofF rs b = k ->
  sv (run R Rplus Rminus Rmult Rdiv 0%R 1%R ly ops s0) (cs_ofF ps ns rs b + r)%nat
  = sv (run R Rplus Rminus Rmult Rdiv 0%R 1%R ly ops s0') (cs_ofF ps ns rs b + r)%nat.
Proof. exact network_cells_independent. Qed.

(* the general statement: any edge-closed set of nodes of any structure on which the graph system has a unique solution *)
Theorem C12_edge_closed_parts_independent :
  forall (ly : layout) (tp : topo) (mask : nat -> nat) (ncomp : nat) (es es' : list (edge R)) (v vt ct v' vt' ct' : nat -> R) (dt : R) (inS : nat -> bool),
  (forall c c', (c < ncomp)%nat -> (c' < ncomp)%nat -> mask c = mask c' -> c = c') ->
  Forall2 (fun e e' => strip e = strip e' /\ inS (e_source R e) = inS (e_sink R e) /\ (inS (e_sink R e) = true -> e_g R e = e_g R e')) es es' ->
  (forall c, (c < ncomp)%nat -> inS c = true -> v c = v' c /\ vt c = vt' c /\ ct c = ct' c) ->
  forall x y x' y' : nat -> R,
  graph_eq ly tp mask ncomp es v vt ct dt x y -> graph_eq ly tp mask ncomp es' v' vt' ct' dt x' y' ->
  (forall c, (c < ncomp)%nat -> exists b r, (b < nb tp)%nat /\ (r < pl ly b)%nat /\ mask c = (cs ly b + r)%nat) ->
  (forall x1 y1 x2 y2, graph_eq ly tp mask ncomp es v vt ct dt x1 y1 -> graph_eq ly tp mask ncomp es v vt ct dt x2 y2 ->
     forall b k, (b < nb tp)%nat -> (k < pl ly b)%nat -> x1 (cs ly b + k)%nat = x2 (cs ly b + k)%nat) ->
  forall c, (c < ncomp)%nat -> inS c = true -> x (mask c) = x' (mask c).
Proof. exact parts_independent. Qed.

(* non-vacuity of the same-cell hypothesis: the example network of Props/C01.v *)
Example C12_network_example :
  let ps := [0; 0; 0; 1; 0; 4; 0]%nat in let rs := [true; false; false; false; true; false; true] in
  (forall b, (b < length ps)%nat -> is_root rs b = false -> cell_ofF rs (nth b ps 0%nat) = cell_ofF rs b) /\
  map (cell_ofF rs) (seq 0 7) = [1; 1; 1; 1; 2; 2; 3]%nat.
Proof.
  cbv zeta. split; [|vm_compute; reflexivity].
  intros b Hb. do 7 (destruct b as [|b]; [vm_compute; intros; try discriminate; reflexivity|]). cbn in Hb. lia.
Qed.
