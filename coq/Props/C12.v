(* C12 — assembly preserves constituents; uncoupled parts simulate independently.
   Statements only. *)
From Coq Require Import Reals List Permutation Arith.
From JV Require Import TreeSolve TreeSolveFacts TreePerm ChannelOrder ChannelOrderFacts.
Import ListNotations.

(* concatenating the node tables of the constituents keeps every row, under contiguous
   indices: row (offset of constituent c) + j of the assembled table is row j of c *)
Theorem C12_assembly_preserves_rows : forall (A : Type) (parts : list (list A)) c j d,
  c < length parts -> j < length (nth c parts []) ->
  nth (fold_right plus 0 (map (@length A) (firstn c parts)) + j) (concat parts) d = nth j (nth c parts []) d.
Proof. exact @nth_concat_offset. Qed.
Theorem C12_indices_contiguous : forall (A : Type) (parts : list (list A)),
  length (concat parts) = fold_right plus 0 (map (@length A) parts).
Proof. exact @concat_length_sum. Qed.

Local Open Scope R_scope.
(* listing sibling subtrees (branches below one branch point) in a different order leaves
   the parent's pivot and right-hand side unchanged ... *)
Theorem C12_sibling_order_parent : forall d u l b (cs cs' : list (tree R)),
  Permutation cs cs' ->
  reduce R Rminus Rmult Rdiv (Node d u l b cs) = reduce R Rminus Rmult Rdiv (Node d u l b cs').
Proof. exact reduce_sibling_order. Qed.
(* ... and permutes the results, changing nothing else *)
Theorem C12_sibling_order_solution : forall d u l b (cs cs' : list (tree R)) xp,
  Permutation cs cs' ->
  Permutation (flatten (backsub R Rminus Rmult Rdiv (Node d u l b cs) xp))
              (flatten (backsub R Rminus Rmult Rdiv (Node d u l b cs') xp)).
Proof. exact flatten_sibling_order. Qed.

Example C12_nonvacuous : nth (2 + 1) (concat [[10; 11]; [20; 21; 22]; [30]]) 0 = 21.
Proof. reflexivity. Qed.

(* ---- the update order of the channels (Model/ChannelOrder.v; known finding F38) ----
   _step_channels_state updates the channels one after the other, each seeing what the earlier ones wrote.  If no
   channel writes a state another channel reads or writes - the channel_states of all built-in channels are pairwise
   disjoint, which the harness checks on the classes - any order of the channel list gives the same states, so
   the listing order of constituents (which determines that order) cannot matter ... *)
Theorem C12_update_order_irrelevant_for_independent_channels : forall (cs cs' : list chan),
  Permutation.Permutation cs cs' -> Forall local cs -> NoDup cs -> pairwise_indep cs ->
  forall s n, run_chans cs s n = run_chans cs' s n.
Proof. exact order_irrelevant. Qed.

(* ... and if one channel reads what another writes, it does (F38) *)
Theorem C12_update_order_matters_for_shared_states :
  (run_chans [pump; nernst] (fun _ => 0) 1%nat = 100 /\ run_chans [nernst; pump] (fun _ => 0) 1%nat = 0 /\
   local pump /\ local nernst /\ ~ indep pump nernst)%R.
Proof. exact order_matters_for_shared_states. Qed.
