(* C03 — gates stay finite and in [0,1] and follow the exact exponential update.
   Statements only.  `ab_gate_ok` / `it_gate_ok` (Spec/GateSpec.v) say, for ALL real
   voltages v, ALL dt > 0, ALL x in [0,1] and ALL values of the other arguments:
     - the rate constants are positive (resp. 0 < x_inf < 1, 0 < tau),
     - every division executed by update_states is defined (finite value),
     - update = x_inf + (x - x_inf) * exp(-dt/tau)   (closed-form ODE solution; the
       clip of save_exp is provably inactive),
     - 0 <= update <= 1,   min(x, x_inf) <= update <= max(x, x_inf)  (toward, never past),
     - the steady state is a fixed point.
   The G*.X definitions are regenerated from /repo on every run. *)
From Coq Require Import Reals.
From JV Require Import RLemmas GChannels GSynapses GateSpec OdeFacts ChannelFacts.
From Coq Require Import ZArith Lia.
From Flocq Require Import Core.
From JV Require Import GSolverGate GateFloat.
Local Open Scope R_scope.

Section C03.
  Variables (m h n q r gNa gK gLeak eNa eK eLeak vt gKm taumax gCaL eCa gCaT vx gS e_syn k_minus gC v_post dt0 : R).

  Theorem C03_HH_m : ab_gate_ok HH_m_gate__a HH_m_gate__b
      (fun v => HH_init__m m h n v gNa gK gLeak eNa eK eLeak dt0)
      (fun v => HH_init__m_dom m h n v gNa gK gLeak eNa eK eLeak dt0)
      (fun x dt v => HH_update__m x h n dt v gNa gK gLeak eNa eK eLeak)
      (fun x dt v => HH_update__m_dom x h n dt v gNa gK gLeak eNa eK eLeak).
  Proof. exact (HH_m_ok m h n gNa gK gLeak eNa eK eLeak dt0). Qed.
  Theorem C03_HH_h : ab_gate_ok HH_h_gate__a HH_h_gate__b
      (fun v => HH_init__h m h n v gNa gK gLeak eNa eK eLeak dt0)
      (fun v => HH_init__h_dom m h n v gNa gK gLeak eNa eK eLeak dt0)
      (fun x dt v => HH_update__h m x n dt v gNa gK gLeak eNa eK eLeak)
      (fun x dt v => HH_update__h_dom m x n dt v gNa gK gLeak eNa eK eLeak).
  Proof. exact (HH_h_ok m h n gNa gK gLeak eNa eK eLeak dt0). Qed.
  Theorem C03_HH_n : ab_gate_ok HH_n_gate__a HH_n_gate__b
      (fun v => HH_init__n m h n v gNa gK gLeak eNa eK eLeak dt0)
      (fun v => HH_init__n_dom m h n v gNa gK gLeak eNa eK eLeak dt0)
      (fun x dt v => HH_update__n m h x dt v gNa gK gLeak eNa eK eLeak)
      (fun x dt v => HH_update__n_dom m h x dt v gNa gK gLeak eNa eK eLeak).
  Proof. exact (HH_n_ok m h n gNa gK gLeak eNa eK eLeak dt0). Qed.
  Theorem C03_Na_m : ab_gate_ok (fun v => Na_m_gate__a v vt) (fun v => Na_m_gate__b v vt)
      (fun v => Na_init__m m h v gNa eNa vt dt0) (fun v => Na_init__m_dom m h v gNa eNa vt dt0)
      (fun x dt v => Na_update__m x h dt v gNa eNa vt)
      (fun x dt v => Na_update__m_dom x h dt v gNa eNa vt).
  Proof. exact (Na_m_ok m h gNa eNa vt dt0). Qed.
  Theorem C03_Na_h : ab_gate_ok (fun v => Na_h_gate__a v vt) (fun v => Na_h_gate__b v vt)
      (fun v => Na_init__h m h v gNa eNa vt dt0) (fun v => Na_init__h_dom m h v gNa eNa vt dt0)
      (fun x dt v => Na_update__h m x dt v gNa eNa vt)
      (fun x dt v => Na_update__h_dom m x dt v gNa eNa vt).
  Proof. exact (Na_h_ok m h gNa eNa vt dt0). Qed.
  Theorem C03_K_n : ab_gate_ok (fun v => K_n_gate__a v vt) (fun v => K_n_gate__b v vt)
      (fun v => K_init__n n v gK eK vt dt0) (fun v => K_init__n_dom n v gK eK vt dt0)
      (fun x dt v => K_update__n x dt v gK eK vt)
      (fun x dt v => K_update__n_dom x dt v gK eK vt).
  Proof. exact (K_n_ok n gK eK vt dt0). Qed.
  Theorem C03_CaL_q : ab_gate_ok CaL_q_gate__a CaL_q_gate__b
      (fun v => CaL_init__q q r v gCaL eCa dt0) (fun v => CaL_init__q_dom q r v gCaL eCa dt0)
      (fun x dt v => CaL_update__q x r dt v gCaL eCa)
      (fun x dt v => CaL_update__q_dom x r dt v gCaL eCa).
  Proof. exact (CaL_q_ok q r gCaL eCa dt0). Qed.
  Theorem C03_CaL_r : ab_gate_ok CaL_r_gate__a CaL_r_gate__b
      (fun v => CaL_init__r q r v gCaL eCa dt0) (fun v => CaL_init__r_dom q r v gCaL eCa dt0)
      (fun x dt v => CaL_update__r q x dt v gCaL eCa)
      (fun x dt v => CaL_update__r_dom q x dt v gCaL eCa).
  Proof. exact (CaL_r_ok q r gCaL eCa dt0). Qed.
  Theorem C03_Km_p : 0 < taumax ->
    it_gate_ok (fun v => Km_p_gate__a v taumax) (fun v => Km_p_gate__b v taumax)
      (fun v => Km_init__p m v gKm taumax eK dt0) (fun v => Km_init__p_dom m v gKm taumax eK dt0)
      (fun x dt v => Km_update__p x dt v gKm taumax eK)
      (fun x dt v => Km_update__p_dom x dt v gKm taumax eK).
  Proof. intro H; exact (Km_p_ok m gKm taumax eK dt0 H). Qed.
  Theorem C03_CaT_u : it_gate_ok (fun v => CaT_u_gate__a v vx) (fun v => CaT_u_gate__b v vx)
      (fun v => CaT_init__u m v gCaT vx eCa dt0) (fun v => CaT_init__u_dom m v gCaT vx eCa dt0)
      (fun x dt v => CaT_update__u x dt v gCaT vx eCa)
      (fun x dt v => CaT_update__u_dom x dt v gCaT vx eCa).
  Proof. exact (CaT_u_ok m gCaT vx eCa dt0). Qed.
  (* synapses: the gate is driven by the PRE-synaptic voltage; k_minus > 0 *)
  Theorem C03_Ionotropic_s : 0 < k_minus ->
    it_gate_ok iono_sinf (iono_tau k_minus) iono_sinf (fun _ => True)
      (fun x dt v_pre => IonotropicSynapse_update__s x dt v_pre v_post gS e_syn k_minus)
      (fun x dt v_pre => IonotropicSynapse_update__s_dom x dt v_pre v_post gS e_syn k_minus).
  Proof. intro H; exact (Iono_s_ok gS e_syn k_minus v_post H). Qed.
  Theorem C03_TestSynapse_c :
    it_gate_ok iono_sinf test_tau iono_sinf (fun _ => True)
      (fun x dt v_pre => TestSynapse_update__c x dt v_pre v_post gC)
      (fun x dt v_pre => TestSynapse_update__c_dom x dt v_pre v_post gC).
  Proof. exact (Test_c_ok gC v_post). Qed.
End C03.

(* the closed form is the solution of the gate's linear ODE:  d/dt x = (xinf - x)/tau *)
Theorem C03_closed_form_solves_ode : forall x0 xinf tau t, tau <> 0 ->
  is_derive_ode x0 xinf tau t.
Proof. exact ode_solution_is_solution. Qed.

(* non-vacuity: a state, a step and a voltage satisfying the hypotheses *)
Example C03_nonvacuous : 0 < 1 / 40 /\ 0 <= 1 / 5 <= 1 /\ 0 < 1 / 40.
Proof. exact c03_example. Qed.

(* ---- floating point ----
   the traced updates ARE  x * E + x_inf * (1 - E)  with E = save_exp(-dt/tau) (by conversion: the operation order of
   the jaxpr), and that expression, evaluated in binary64 or binary32 with round-to-nearest-even - every operation
   rounded, or the first product fused into the addition - stays in [0, 1] for floats x, x_inf, E in [0, 1].
   (Trusted: XLA's +, -, * are IEEE operations and its exp of a non-positive float lies in [0, 1]; both are sampled by the
   float corner sweep of the harness.) *)
Theorem C03_update_shape : forall x dt xinf tau,
  exponential_euler__r x dt xinf tau = x * save_exp__r (- dt / tau) + xinf * (1 - save_exp__r (- dt / tau)) /\
  solve_inf_gate_exponential__r x dt xinf tau = x * save_exp__r (-1 / tau * dt) + xinf * (1 - save_exp__r (-1 / tau * dt)).
Proof. intros. split; reflexivity. Qed.

Theorem C03_update_in_unit_interval_binary64 : forall x xinf e,
  generic_format radix2 (FLT_exp (-1074) 53) x -> generic_format radix2 (FLT_exp (-1074) 53) xinf -> generic_format radix2 (FLT_exp (-1074) 53) e ->
  0 <= x <= 1 -> 0 <= xinf <= 1 -> 0 <= e <= 1 ->
  0 <= rn64 (rn64 (x * e) + rn64 (xinf * rn64 (1 - e))) <= 1 /\ 0 <= rn64 (x * e + rn64 (xinf * rn64 (1 - e))) <= 1.
Proof. exact gate_update_binary64. Qed.

Theorem C03_update_in_unit_interval_binary32 : forall x xinf e,
  generic_format radix2 (FLT_exp (-149) 24) x -> generic_format radix2 (FLT_exp (-149) 24) xinf -> generic_format radix2 (FLT_exp (-149) 24) e ->
  0 <= x <= 1 -> 0 <= xinf <= 1 -> 0 <= e <= 1 ->
  0 <= rn32 (rn32 (x * e) + rn32 (xinf * rn32 (1 - e))) <= 1 /\ 0 <= rn32 (x * e + rn32 (xinf * rn32 (1 - e))) <= 1.
Proof. exact gate_update_binary32. Qed.

(* non-vacuity: 1, 0 and 1/2 are binary64 numbers in [0, 1] *)
Example C03_float_nonvacuous :
  generic_format radix2 (FLT_exp (-1074) 53) 1 /\ generic_format radix2 (FLT_exp (-1074) 53) 0 /\ generic_format radix2 (FLT_exp (-1074) 53) (/ 2).
Proof.
  split; [|split].
  - change 1 with (bpow radix2 0). apply generic_format_bpow. unfold FLT_exp. lia.
  - apply generic_format_0.
  - change (/ 2) with (bpow radix2 (-1)). apply generic_format_bpow. unfold FLT_exp. lia.
Qed.
