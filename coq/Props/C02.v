(* C02 — axial coupling conserves charge, is reciprocal and never overshoots.
   Statements only.  Generic theorems are about arbitrary tree-structured systems
   (Proofs/TreeAnalysis.v); the cable instantiations hold for EVERY sorted tree, every
   compartment-count vector, all positive parameters and every dt > 0. *)
From Coq Require Import Reals List.
From JV Require Import Prim TreeSolve TreeSolveFacts TreeAnalysis Cable GCellUtils CableFacts CableConservation.
From JV Require Import HinesArr HinesCheck HinesArrFacts HinesIdx AsmStruct AssembleM AsmIdx AssembleGraph GraphMax GraphRest HinesIdxF AsmIdxF GraphRestF EdgeCond EdgeCondFacts ForestPhysical SparseDense ChargeBalance ChargeBalanceF.
Import ListNotations.
Local Open Scope R_scope.

(* no overshoot (backward Euler, ANY dt > 0): every new voltage of a passive, unstimulated
   cell — Kirchhoff branch points included — lies between the extremes of the previous
   voltages and the reversal potentials *)
Theorem C02_max_principle :
  forall dt parents (branches : list (list (comp R))) m M,
    0 < dt -> well_formed branches -> length parents = length branches -> sorted parents ->
    (0 < length branches)%nat ->
    Forall (Forall (passive_le M)) branches -> Forall (Forall (passive_ge m)) branches ->
    Forall (fun x => m <= x <= M)
           (flatten (backsub R Rminus Rmult Rdiv (root_tree R Rplus Rminus Rmult Rdiv IZR parents branches dt) 0)).
Proof. intros; apply cable_max_principle; assumption. Qed.

(* a spatially uniform, unstimulated passive model stays uniform (m = M = V) *)
Corollary C02_uniform_stays_uniform :
  forall dt parents (branches : list (list (comp R))) V,
    0 < dt -> well_formed branches -> length parents = length branches -> sorted parents ->
    (0 < length branches)%nat ->
    Forall (Forall (fun c => c_v R c = V /\ c_ct R c = c_vt R c * V)) branches ->
    Forall (fun x => x = V)
           (flatten (backsub R Rminus Rmult Rdiv (root_tree R Rplus Rminus Rmult Rdiv IZR parents branches dt) 0)).
Proof. exact uniform_stays_uniform. Qed.

(* the assembled system of every cell is symmetrisable: weights cm*r*l (capacitance up to
   2 pi) per compartment and one constant per branch point turn it into a symmetric one *)
Theorem C02_cable_symmetrisable :
  forall dt parents (branches : list (list (comp R))),
    well_formed branches -> length parents = length branches -> sorted parents ->
    (0 < length branches)%nat ->
    exists w, symw (root_tree R Rplus Rminus Rmult Rdiv IZR parents branches dt) w /\
              shape (root_tree R Rplus Rminus Rmult Rdiv IZR parents branches dt) w.
Proof. intros; apply cable_symmetrisable; assumption. Qed.

(* for every symmetrisable tree system: reciprocity of the solutions for two right-hand
   sides f (in t1) and g (in t2):  sum_i w_i x2_i f_i = sum_i w_i x1_i g_i.  With f, g unit
   injections at i and j scaled by 1/capacitance this is: the response at j to a current
   at i equals the response at i to the same current at j *)
Theorem C02_reciprocity : forall (t1 t2 : tree R) (w x1 x2 : sol R),
  same_op t1 t2 -> t_u t1 = 0 -> symw t1 w -> shape t1 w -> shape t1 x1 -> shape t1 x2 ->
  shape t2 w -> shape t2 x1 ->
  satisfies t1 0 x1 -> satisfies t2 0 x2 ->
  wyb t1 w x2 = wyb t2 w x1.
Proof. exact reciprocity. Qed.

(* ... and charge balance: sum_i w_i b_i = sum_i w_i x_i sigma_i (all axial terms cancel);
   for the cable, sigma = 1 + dt*g/cm on compartments and 0 on branch points, b = v + dt*c *)
Theorem C02_charge_balance : forall (t : tree R) (w x : sol R),
  t_u t = 0 -> symw t w -> shape t w -> shape t x -> satisfies t 0 x ->
  wyb t w (ones t) = wsig t w x.
Proof. exact charge_balance. Qed.

(* code-level facts behind the symmetry, about the formulas traced from /repo *)
Theorem C02_traced_conductances_reciprocal : forall r1 r2 ra1 ra2 l1 l2,
  0 < r1 -> 0 < r2 -> 0 < ra1 -> 0 < ra2 -> 0 < l1 -> 0 < l2 ->
  coupling_cond__g r1 r2 ra1 ra2 l1 l2 * (r1 * l1) = coupling_cond__g r2 r1 ra2 ra1 l2 l1 * (r2 * l2).
Proof. exact coupling_cond_reciprocal. Qed.
Theorem C02_branchpoint_weights_proportional : forall r ra l, 0 < r -> 0 < ra -> 0 < l ->
  coupling_cond_branchpoint__g r ra l * (r * l) = 10 ^ 7 * impact_on_node__g r ra l.
Proof. exact branchpoint_weights_proportional. Qed.
(* a stimulus of I nA deposits exactly the same charge whatever the target's geometry *)
Theorem C02_stimulus_charge : forall I r l, 0 < r -> 0 < l ->
  point_to_distributed__i I r l * (2 * pi_f * r * l) = 100000 * I.
Proof. exact stimulus_charge. Qed.

Example C02_nonvacuous :
  let c := mkcomp R 1 10 5000 1 (-70) (1/10) (-7) in
  passive_le (-70) c /\ passive_ge (-70) c.
Proof. exact c02_example. Qed.

(* ---- the same two statements at the ARRAY level, i.e. about the model of solver_voltage.py that is compared
   with the running code (Model/HinesArr.v), for EVERY cell (sorted parent vector, counts >= 1), all positive
   conductances on the code's edge table, all non-negative membrane conductances vt and every dt > 0 ---- *)

(* no overshoot: if every previous voltage lies in [lo, hi] and every membrane term pulls into [lo, hi]
   (vt lo <= ct <= vt hi, e.g. ct = vt * e with lo <= e <= hi), every new compartment voltage lies in [lo, hi] *)
Theorem C02_array_level_no_overshoot : forall (ps ns : list nat) (es : list (edge R)) (v vt ct : nat -> R) (dt lo hi : R),
  (1 <= length ps)%nat -> (forall b, (1 <= b)%nat -> (b < length ps)%nat -> (nth b ps 0 < b)%nat) ->
  (forall b, (b < length ps)%nat -> (1 <= nth b ns 0)%nat) ->
  map strip es = triples_of ps ns ->
  0 < dt -> (forall e, In e es -> 0 < e_g R e) -> (forall i, (i < total ps ns)%nat -> 0 <= vt i) ->
  (forall c, (c < total ps ns)%nat -> lo <= v c <= hi /\ vt c * lo <= ct c <= vt c * hi) ->
  let ly := layout_of ps ns in
  let s0 := assemble R Rplus Rminus Rmult 0 1 (nthD (mask_of ps ns)) (total ps ns) es v vt ct dt (group_of ps) (child_inds_of ps) (par_inds_of ps) in
  let out := sv (run R Rplus Rminus Rmult Rdiv 0 1 ly (ops_of_tree ps ns) s0) in
  forall b k, (b < length ps)%nat -> (k < ncomp_of ns b)%nat -> lo <= out (cs_of ps ns b + k)%nat <= hi.
Proof. exact cell_no_overshoot. Qed.

(* a cell at rest stays at rest (uniform voltage, all membrane terms pulling to it) *)
Theorem C02_array_level_rest_is_preserved : forall (ps ns : list nat),
  (1 <= length ps)%nat -> (forall b, (1 <= b)%nat -> (b < length ps)%nat -> (nth b ps 0 < b)%nat) ->
  (forall b, (b < length ps)%nat -> (1 <= nth b ns 0)%nat) ->
  forall (es : list (edge R)), map strip es = triples_of ps ns ->
  forall (v vt ct : nat -> R) (dt V : R),
  0 < dt -> (forall e, In e es -> 0 < e_g R e) -> (forall i, (i < total ps ns)%nat -> 0 <= vt i) ->
  (forall c, (c < total ps ns)%nat -> v c = V) -> (forall c, (c < total ps ns)%nat -> ct c = vt c * V) ->
  let s0 := assemble R Rplus Rminus Rmult 0 1 (nthD (mask_of ps ns)) (total ps ns) es v vt ct dt (group_of ps) (child_inds_of ps) (par_inds_of ps) in
  let out := sv (run R Rplus Rminus Rmult Rdiv 0 1 (layout_of ps ns) (ops_of_tree ps ns) s0) in
  forall b k, (b < length ps)%nat -> (k < ncomp_of ns b)%nat -> out (cs_of ps ns b + k)%nat = V.
Proof. exact cell_at_rest_stays_at_rest. Qed.

(* the maximum principle of the graph system itself (any structure meeting the decidable conditions, e.g. a network) *)
Theorem C02_graph_maximum_principle : forall (ly : layout) (tp : topo), wf ly tp ->
  forall (mask : nat -> nat) (ncomp : nat) (es : list (edge R)) (v vt ct : nat -> R) (dt : R) (group child_inds par_inds : list nat),
  graph_struct ly tp mask ncomp es group child_inds par_inds -> graph_struct_bp ly mask ncomp es group child_inds par_inds ->
  forall (x y : nat -> R) (lo hi : R),
  (1 <= ncomp)%nat -> 0 < dt -> (forall e, In e es -> 0 < e_g R e) -> (forall c, (c < ncomp)%nat -> 0 <= vt c) ->
  graph_eq ly tp mask ncomp es v vt ct dt x y ->
  (forall c, (c < ncomp)%nat -> lo <= v c <= hi /\ vt c * lo <= ct c <= vt c * hi) ->
  forall c, (c < ncomp)%nat -> lo <= x (mask c) <= hi.
Proof. exact graph_bounds. Qed.

(* ---- the same for NETWORKS (every forest of cells; Model/HinesIdxF.v, Model/AsmIdxF.v) ---- *)
Theorem C02_array_level_network_no_overshoot :
  forall (ps ns : list nat) (rs : list bool) (es : list (edge R)) (v vt ct : nat -> R) (dt lo hi : R),
  (1 <= length ps)%nat -> (forall b, (b < length ps)%nat -> is_root rs b = false -> (nth b ps 0 < b)%nat) ->
  (forall b, (b < length ps)%nat -> (1 <= nth b ns 0)%nat) ->
  map strip es = triples_ofF ps ns rs ->
  0 < dt -> (forall e, In e es -> 0 < e_g R e) -> (forall i, (i < total ps ns)%nat -> 0 <= vt i) ->
  (forall c, (c < total ps ns)%nat -> lo <= v c <= hi /\ vt c * lo <= ct c <= vt c * hi) ->
  let ly := layout_ofF ps ns rs in
  let s0 := assemble R Rplus Rminus Rmult 0 1 (nthD (mask_ofF ps ns rs)) (total ps ns) es v vt ct dt (group_ofF ps rs) (child_inds_ofF ps rs) (par_inds_ofF ps rs) in
  let out := sv (run R Rplus Rminus Rmult Rdiv 0 1 ly (ops_of_forest ps ns rs) s0) in
  forall b k, (b < length ps)%nat -> (k < ncomp_of ns b)%nat -> lo <= out (cs_ofF ps ns rs b + k)%nat <= hi.
Proof. exact network_no_overshoot. Qed.

Theorem C02_array_level_network_rest_is_preserved : forall (ps ns : list nat) (rs : list bool),
  (1 <= length ps)%nat -> (forall b, (b < length ps)%nat -> is_root rs b = false -> (nth b ps 0 < b)%nat) ->
  (forall b, (b < length ps)%nat -> (1 <= nth b ns 0)%nat) ->
  forall (es : list (edge R)), map strip es = triples_ofF ps ns rs ->
  forall (v vt ct : nat -> R) (dt V : R),
  0 < dt -> (forall e, In e es -> 0 < e_g R e) -> (forall i, (i < total ps ns)%nat -> 0 <= vt i) ->
  (forall c, (c < total ps ns)%nat -> v c = V) -> (forall c, (c < total ps ns)%nat -> ct c = vt c * V) ->
  let s0 := assemble R Rplus Rminus Rmult 0 1 (nthD (mask_ofF ps ns rs)) (total ps ns) es v vt ct dt (group_ofF ps rs) (child_inds_ofF ps rs) (par_inds_ofF ps rs) in
  let out := sv (run R Rplus Rminus Rmult Rdiv 0 1 (layout_ofF ps ns rs) (ops_of_forest ps ns rs) s0) in
  forall b k, (b < length ps)%nat -> (k < ncomp_of ns b)%nat -> out (cs_ofF ps ns rs b + k)%nat = V.
Proof. exact network_at_rest_stays_at_rest. Qed.

(* ---- charge conservation at the array level, for EVERY cell, in physical parameters ----
   W_c = cm_c * (membrane area of c) is the absolute capacitance of compartment c.  Over one implicit step the capacitive
   plus membrane charge sums to zero over the cell: the axial coupling neither creates nor loses charge (the two directed
   edges between neighbours carry one absolute conductance; at a branch point the conductance into a compartment times W
   is 2 pi 1e4 times that compartment's weight in the Kirchhoff equation, which balances). *)
Theorem C02_array_level_charge_balance_of_every_cell :
  forall (ps ns : list nat) (rad len ra cm v vt ct : nat -> R) (dt : R),
  (1 <= length ps)%nat -> (forall b, (1 <= b)%nat -> (b < length ps)%nat -> (nth b ps 0 < b)%nat) ->
  (forall b, (b < length ps)%nat -> (1 <= nth b ns 0)%nat) ->
  (forall c, 0 < rad c /\ 0 < len c /\ 0 < ra c /\ 0 < cm c) ->
  0 < dt -> (forall i, (i < total ps ns)%nat -> 0 <= vt i) ->
  let es := cell_edges ps ns rad len ra cm in
  let mask := nthD (mask_of ps ns) in let n := total ps ns in
  let s0 := assemble R Rplus Rminus Rmult 0 1 mask n es v vt ct dt (group_of ps) (child_inds_of ps) (par_inds_of ps) in
  let out := sv (run R Rplus Rminus Rmult Rdiv 0 1 (layout_of ps ns) (ops_of_tree ps ns) s0) in
  rsum (fun c => Wc rad len cm c * ((out (mask c) - v c) + dt * (vt c * out (mask c) - ct c))) n = 0.
Proof. exact cell_step_conserves_charge. Qed.

(* ... and for EVERY network (forest of cells; the per-cell order of the network's edge table does not matter) *)
Theorem C02_array_level_charge_balance_of_every_network :
  forall (ps ns : list nat) (rs : list bool) (rad len ra cm v vt ct : nat -> R) (dt : R),
  (1 <= length ps)%nat -> (forall b, (b < length ps)%nat -> is_root rs b = false -> (nth b ps 0 < b)%nat) ->
  (forall b, (b < length ps)%nat -> (1 <= nth b ns 0)%nat) ->
  (forall c, 0 < rad c /\ 0 < len c /\ 0 < ra c /\ 0 < cm c) ->
  0 < dt -> (forall i, (i < total ps ns)%nat -> 0 <= vt i) ->
  let es := forest_edges ps ns rs rad len ra cm in
  let mask := nthD (mask_ofF ps ns rs) in let n := total ps ns in
  let s0 := assemble R Rplus Rminus Rmult 0 1 mask n es v vt ct dt (group_ofF ps rs) (child_inds_ofF ps rs) (par_inds_ofF ps rs) in
  let out := sv (run R Rplus Rminus Rmult Rdiv 0 1 (layout_ofF ps ns rs) (ops_of_forest ps ns rs) s0) in
  rsum (fun c => Wc rad len cm c * ((out (mask c) - v c) + dt * (vt c * out (mask c) - ct c))) n = 0.
Proof. exact network_step_conserves_charge. Qed.

(* the reason, stated on its own: the two directed edges between neighbours cancel in the weighted sum, and the
   branch-point edges into compartments are kappa = 2 pi 1e4 times the Kirchhoff terms *)
Theorem C02_weighted_edge_pairs_cancel : forall (rad len ra cm : nat -> R),
  (forall c, 0 < rad c /\ 0 < len c /\ 0 < ra c /\ 0 < cm c) -> forall (Z : nat -> R),
  (forall a b, Vt rad len ra cm Z (b, a, 0%nat) + Vt rad len ra cm Z (a, b, 0%nat) = 0) /\
  (forall a b ty k, (ty = 1 \/ ty = 2)%nat -> (k = 3 \/ k = 4)%nat -> Vt rad len ra cm Z (a, b, ty) = kappa * Bt rad len ra cm Z (b, a, k)).
Proof. intros rad len ra cm Pos Z. split; [apply pair_cancels | apply V_of_flip]; exact Pos. Qed.
