(* C04 — built-in mechanisms implement their published kinetics and currents.
   Statements only.  `Pub.X` is the transcription in Spec/Published.v; the other side
   of each equation is regenerated from /repo on every run.
   Hypotheses of the Pospischil x/(exp x - 1) terms: at least 1e-6 away (in the scaled
   argument) from the removable singularity, where the code deliberately uses the
   first-order expansion, and below the clip of save_exp (argument <= 20); the bound
   next to the singularity is C04_efun_near_singularity. *)
From Coq Require Import Reals.
From JV Require Import Prim RLemmas GChannels GSynapses GateGeneric ChannelFacts Published PublishedFacts PublishedRefuted ClipTails.
Local Open Scope R_scope.

Theorem C04_HH_rates : forall v, -150 <= v <= 100 ->
  HH_m_gate__a v = Pub.HH_alpha_m v /\ HH_m_gate__b v = Pub.HH_beta_m v /\
  HH_h_gate__a v = Pub.HH_alpha_h v /\ HH_h_gate__b v = Pub.HH_beta_h v /\
  HH_n_gate__a v = Pub.HH_alpha_n v /\ HH_n_gate__b v = Pub.HH_beta_n v.
Proof. exact HH_rates_pub. Qed.
Theorem C04_HH_current : forall m h n v gNa gK gL eNa eK eL,
  HH_current__i m h n v gNa gK gL eNa eK eL = Pub.HH_current m h n v gNa gK gL eNa eK eL.
Proof. exact HH_current_pub. Qed.
Theorem C04_HH_defaults :
  HH_default__gNa = Pub.HH_gNa /\ HH_default__gK = Pub.HH_gK /\ HH_default__gLeak = Pub.HH_gL /\
  HH_default__eNa = Pub.HH_eNa /\ HH_default__eK = Pub.HH_eK /\ HH_default__eLeak = Pub.HH_eL /\
  HH_n_params = 6%nat /\ HH_n_states = 3%nat.
Proof. exact HH_defaults_pub. Qed.

Theorem C04_Na_alpha_m : forall v vt,
  1 / 1000000 <= Rabs (- (1 / 4) * (v - vt - 13)) -> - (1 / 4) * (v - vt - 13) <= 20 ->
  Na_m_gate__a v vt = Pub.Na_alpha_m v vt.
Proof. exact Na_alpha_m_pub. Qed.
Theorem C04_Na_beta_m : forall v vt,
  1 / 1000000 <= Rabs (1 / 5 * (v - vt - 40)) -> 1 / 5 * (v - vt - 40) <= 20 ->
  Na_m_gate__b v vt = Pub.Na_beta_m v vt.
Proof. exact Na_beta_m_pub. Qed.
Theorem C04_Na_alpha_h : forall v vt, - (v - vt - 17) / 18 <= 20 -> Na_h_gate__a v vt = Pub.Na_alpha_h v vt.
Proof. exact Na_alpha_h_pub. Qed.
Theorem C04_Na_beta_h : forall v vt, - (v - vt - 40) / 5 <= 20 -> Na_h_gate__b v vt = Pub.Na_beta_h v vt.
Proof. exact Na_beta_h_pub. Qed.
Theorem C04_Na_current : forall m h v gNa eNa vt, Na_current__i m h v gNa eNa vt = Pub.Na_current m h v gNa eNa.
Proof. exact Na_current_pub. Qed.
Theorem C04_K_alpha_n : forall v vt,
  1 / 1000000 <= Rabs (- (1 / 5) * (v - vt - 15)) -> - (1 / 5) * (v - vt - 15) <= 20 ->
  K_n_gate__a v vt = Pub.K_alpha_n v vt.
Proof. exact K_alpha_n_pub. Qed.
Theorem C04_K_beta_n : forall v vt, - (v - vt - 10) / 40 <= 20 -> K_n_gate__b v vt = Pub.K_beta_n v vt.
Proof. exact K_beta_n_pub. Qed.
Theorem C04_K_current : forall n v gK eK vt, K_current__i n v gK eK vt = Pub.K_current n v gK eK.
Proof. exact K_current_pub. Qed.
Theorem C04_Km : forall v taumax, -150 <= v <= 100 ->
  Km_p_gate__a v taumax = Pub.Km_p_inf v /\ Km_p_gate__b v taumax = Pub.Km_tau_p v taumax.
Proof. intros v t H; split; [apply Km_p_inf_pub | apply Km_tau_p_pub]; exact H. Qed.
Theorem C04_Km_current : forall p v gKm taumax eK, Km_current__i p v gKm taumax eK = Pub.Km_current p v gKm eK.
Proof. exact Km_current_pub. Qed.
Theorem C04_CaL_alpha_q : forall v,
  1 / 1000000 <= Rabs ((- v - 27) / (19 / 5)) -> (- v - 27) / (19 / 5) <= 20 ->
  CaL_q_gate__a v = Pub.CaL_alpha_q v.
Proof. exact CaL_alpha_q_pub. Qed.
Theorem C04_CaL_rest : forall v, -150 <= v <= 100 ->
  CaL_q_gate__b v = Pub.CaL_beta_q v /\ CaL_r_gate__a v = Pub.CaL_alpha_r v /\ CaL_r_gate__b v = Pub.CaL_beta_r v.
Proof. intros v H; repeat split; [apply CaL_beta_q_pub | apply CaL_alpha_r_pub | apply CaL_beta_r_pub]; exact H. Qed.
Theorem C04_CaL_current : forall q r v gCaL eCa, CaL_current__i q r v gCaL eCa = Pub.CaL_current q r v gCaL eCa.
Proof. exact CaL_current_pub. Qed.
Theorem C04_CaT_u_inf : forall v vx, v + vx <= -1 -> CaT_u_gate__a v vx = Pub.CaT_u_inf v vx.
Proof. exact CaT_u_inf_pub. Qed.
(* known finding F15: holds on the unclipped region only ... *)
Theorem C04_CaT_tau_u_holds_when : forall v vx, v + vx <= -20 -> CaT_u_gate__b v vx = Pub.CaT_tau_u v vx.
Proof. exact CaT_tau_u_pub. Qed.
(* ... and is refuted beyond it (witness v = 0, vx = 2: off by more than 0.2 ms) *)
Theorem C04_CaT_tau_u_refuted :
  exists v vx, -150 <= v <= 100 /\ Rabs (CaT_u_gate__b v vx - Pub.CaT_tau_u v vx) > 1 / 5.
Proof. exact CaT_tau_u_refuted. Qed.
(* F15 bounded: beyond the clip both values lie in (30.8, 31.08] ms; the deviation is at most
   0.28 ms (0.9 %) *)
Theorem C04_CaT_tau_u_bounded : forall v vx, -20 <= v + vx ->
  Rabs (CaT_u_gate__b v vx - Pub.CaT_tau_u v vx) <= 28 / 100 /\
  154 / 5 < CaT_u_gate__b v vx <= 154 / 5 + 28 / 100 /\ 154 / 5 < Pub.CaT_tau_u v vx <= 154 / 5 + 28 / 100.
Proof. exact CaT_tau_u_tail. Qed.

(* the clipped tails: where the hypothesis "exponent <= 20" of an equality theorem above fails
   (exponents between 20 and 100, i.e. far beyond [-150, 100] mV for the default shifts), the
   rate is within 1e-6 /ms (sigmoid-type rates: 1e-8) of the published value *)
Theorem C04_clipped_tails : forall v vt vx,
  (20 <= - (1 / 4) * (v - vt - 13) <= 100 -> Rabs (Na_m_gate__a v vt - Pub.Na_alpha_m v vt) <= 1 / 1000000) /\
  (20 <= 1 / 5 * (v - vt - 40) <= 100 -> Rabs (Na_m_gate__b v vt - Pub.Na_beta_m v vt) <= 1 / 1000000) /\
  (20 <= - (v - vt - 40) / 5 -> Rabs (Na_h_gate__b v vt - Pub.Na_beta_h v vt) <= 1 / 100000000) /\
  (20 <= - (1 / 5) * (v - vt - 15) <= 100 -> Rabs (K_n_gate__a v vt - Pub.K_alpha_n v vt) <= 1 / 1000000) /\
  (20 <= (- v - 27) / (19 / 5) <= 100 -> Rabs (CaL_q_gate__a v - Pub.CaL_alpha_q v) <= 1 / 1000000) /\
  (-1 <= v + vx -> Rabs (CaT_u_gate__a v vx - Pub.CaT_u_inf v vx) <= 1 / 100000000).
Proof.
  intros v vt vx. repeat split.
  - apply Na_alpha_m_tail. - apply Na_beta_m_tail. - apply Na_beta_h_tail.
  - apply K_alpha_n_tail. - apply CaL_alpha_q_tail. - apply CaT_u_inf_tail.
Qed.

Theorem C04_CaT_current : forall u v gCaT vx eCa, -181 <= v + vx ->
  CaT_current__i u v gCaT vx eCa = Pub.CaT_current u v gCaT vx eCa.
Proof. exact CaT_current_pub. Qed.
Theorem C04_Leak_current : forall v gLeak eLeak, Leak_current__i v gLeak eLeak = Pub.Leak_current v gLeak eLeak.
Proof. exact Leak_current_pub. Qed.
Theorem C04_Synapse : forall k v, -235 <= v ->
  iono_sinf v = Pub.Syn_s_inf v /\ iono_tau k v = Pub.Syn_tau_s v k.
Proof. intros k v H; split; [apply iono_sinf_pub | apply iono_tau_pub]; exact H. Qed.
Theorem C04_Synapse_current : forall s v_pre v_post gS e_syn k_minus,
  IonotropicSynapse_current__i s v_pre v_post gS e_syn k_minus = Pub.Syn_current s v_post gS e_syn.
Proof. exact Iono_current_pub. Qed.
(* next to a removable singularity the code is within 1e-6 (relative) of the limit 1 *)
Theorem C04_efun_near_singularity : forall x, Rabs x < 1 / 1000000 -> Rabs (efun__r x - 1) <= 1 / 1000000.
Proof. exact efun_gen_near. Qed.
(* renaming changes names only: the traced functions of a renamed mechanism are the same *)
Theorem C04_rename_invariant :
  HHr_update__m = HH_update__m /\ HHr_update__h = HH_update__h /\ HHr_update__n = HH_update__n /\
  HHr_current__i = HH_current__i /\ Leakr_current__i = Leak_current__i /\
  Nar_update__m = Na_update__m /\ Nar_update__h = Na_update__h /\ Nar_current__i = Na_current__i /\
  Kr_update__n = K_update__n /\ Kr_current__i = K_current__i /\
  Kmr_update__p = Km_update__p /\ Kmr_current__i = Km_current__i /\
  CaLr_update__q = CaL_update__q /\ CaLr_update__r = CaL_update__r /\ CaLr_current__i = CaL_current__i /\
  CaTr_update__u = CaT_update__u /\ CaTr_current__i = CaT_current__i /\
  IonotropicSynapser_update__s = IonotropicSynapse_update__s /\
  IonotropicSynapser_current__i = IonotropicSynapse_current__i /\
  TestSynapser_update__c = TestSynapse_update__c /\ TestSynapser_current__i = TestSynapse_current__i /\
  TanhRateSynapser_current__i = TanhRateSynapse_current__i.
Proof. exact rename_invariant. Qed.
(* non-vacuity: v = -30, vt = -60 satisfies the hypotheses of C04_Na_alpha_m *)
Example C04_nonvacuous :
  1 / 1000000 <= Rabs (- (1 / 4) * (-30 - -60 - 13)) /\ - (1 / 4) * (-30 - -60 - 13) <= 20.
Proof. exact c04_example. Qed.
