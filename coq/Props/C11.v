(* C11 — views select exactly the described compartments, in local or global scope.
   Model: Model/Views.v (executable; compared with the implementation on enumerated
   selection chains on every run).  Statements only. *)
From Coq Require Import List Arith Bool.
From JV Require Import Views ViewFacts.
Import ListNotations.

(* one selection keeps exactly the rows of the current view whose index — local (dense
   rank within the parent, relative to the CURRENT view) or global — is requested *)
Theorem C11_selection_exact : forall t v s lv l r,
  In r (at_nodes t v s lv (Some l)) <-> In r v /\ In (index_of t v s lv r) l.
Proof. exact at_nodes_exact. Qed.
Theorem C11_all_keeps_view : forall t v s lv, at_nodes t v s lv None = v.
Proof. exact at_nodes_all. Qed.
Theorem C11_no_duplicates : forall t v s lv ids, NoDup v -> NoDup (at_nodes t v s lv ids).
Proof. exact at_nodes_keeps_order. Qed.

(* a chain of selections (any depth, any index forms, scope switches) only narrows the view *)
Theorem C11_chain_narrows : forall t sh c v v', chain t sh v c = Some v' -> forall r, In r v' -> In r v.
Proof. exact chain_narrows. Qed.

(* synapses among the selected compartments: in view iff both ends are in view *)
Theorem C11_edges_iff_both_ends : forall edges ev v e,
  In e (edges_in_view edges ev v) <->
  In e ev /\ In (fst (nth e edges (0, 0))) v /\ In (snd (nth e edges (0, 0))) v.
Proof. exact edges_in_view_iff. Qed.

(* local indices are the DENSE ranks within each parent: strictly increasing with the global
   index and below the number of distinct siblings in view, hence exactly 0 .. k-1; on a full
   module they coincide with the global ones *)
Theorem C11_local_indices_dense : forall xs x y,
  In x xs -> (x < y -> dense_rank xs x < dense_rank xs y) /\ dense_rank xs x < count_distinct xs.
Proof. intros xs x y H; split; [apply dense_rank_mono; exact H | apply dense_rank_bound; exact H]. Qed.
Theorem C11_local_eq_global_on_full_module : forall n x, x < n -> dense_rank (seq 0 n) x = x.
Proof. exact dense_rank_full. Qed.

(* boolean masks with one entry per cell / branch / compartment in view select BY POSITION
   among them, identically in local and global scope; the all-True mask selects the view *)
Theorem C11_mask_is_positional : forall t sh v s lv m,
  length m = length (np_unique (map (global_index t lv) v)) ->
  select_step t sh v s lv (IMask m)
  = Some (filter (fun r => mem (global_index t lv r) (mask_select m (np_unique (map (global_index t lv) v)))) v) /\
  select_step t sh v Local lv (IMask m) = select_step t sh v Global lv (IMask m).
Proof. intros; split; [now apply mask_step_exact | now apply mask_step_scope_independent]. Qed.
Theorem C11_all_true_mask_selects_the_view : forall t sh v s lv,
  select_step t sh v s lv (IMask (repeat true (length (np_unique (map (global_index t lv) v))))) = Some v.
Proof. intros. apply mask_all_true_selects_everything. intros r Hr. apply np_unique_In. now apply in_map. Qed.

(* non-vacuity: cells with (2, 1) branches and (2,1 | 3) compartments; local cell 1, local
   branch 0, local comps [0; 2] are rows 3 and 5 *)
Example C11_nonvacuous :
  let t := [(0, 0); (0, 0); (0, 1); (1, 2); (1, 2); (1, 2)] in
  chain t (shape_of t 0 0) (seq 0 6) [(Local, Cell, IInt 1); (Local, Branch, IInt 0); (Local, Comp, IList [0; 2])]
  = Some [3; 5].
Proof. reflexivity. Qed.
