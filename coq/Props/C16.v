(* C16 — SWC import preserves the traced morphology.  Statements only.
   A checker for the OUTPUT of the reader is proved sound here and is run (vm_compute) on what
   read_swc produced for every generated file.  The sectioning loop of the reader itself is
   modelled line by line (Model/SwcRead.v, compared exactly with the code on every generated
   file) and proved to pass the checker for EVERY well-formed file. *)
From Coq Require Import List Arith Bool Reals.
From JV Require Import Swc SwcFacts SetNcompFacts SwcRead SwcReadFacts SwcSplit SwcSplitFacts.
Import ListNotations.

(* if the checker accepts a sectioning, every section is a parent-child path of one type
   without a branch point or type change inside, cannot be extended at its end, and every
   traced point belongs to exactly one section *)
Theorem C16_checker_sound_sections : forall t secs,
  check_sections t secs = true ->
  Forall (fun sr => good_section t (fst sr) (snd sr)) secs /\ partition_points t secs.
Proof. exact check_sections_sound. Qed.
(* ... and the branch connectivity is the file's parent-child connectivity: the parent of a
   section is the section that ends in the point it hangs on; parentless sections start at
   the root *)
Theorem C16_checker_sound_parents : forall secs parents,
  check_parents secs parents = true ->
  length secs = length parents /\
  forall i, i < length parents ->
    match nth i parents None with
    | Some j => j <> i /\ last (nth j secs []) 0 = hd 0 (nth i secs [])
    | None => hd 0 (nth i secs []) = 1
    end.
Proof. exact check_parents_sound. Qed.

(* radii: linear interpolation is exact at the traced points and stays between the two
   neighbouring traced radii; compartment centres lie strictly inside the branch *)
Theorem C16_interpolation : forall a b ra rb x, (a < b)%R ->
  (lerp a b ra rb a = ra /\ lerp a b ra rb b = rb) /\
  ((a <= x <= b)%R -> (Rmin ra rb <= lerp a b ra rb x <= Rmax ra rb)%R).
Proof. intros; split; [apply lerp_ends | intros; apply lerp_between]; assumption. Qed.
Theorem C16_centres_inside : forall k n : nat, (k < n)%nat -> (0 < (INR k + 1 / 2) / INR n < 1)%R.
Proof. exact centre_inside. Qed.
(* total length does not depend on the number of compartments *)
Theorem C16_length_independent_of_ncomp : forall (L : R) (n : nat), (0 < n)%nat -> (INR n * (L / INR n) = L)%R.
Proof. exact total_length_preserved. Qed.


(* the reader's own loop (_split_into_branches): for EVERY well-formed file — ids 1..n in file
   order, a single root, every parent before its children, every only-child directly after its
   parent (as in depth-first order) — and the single-point-soma flag the reader computes, the
   sections it produces pass the checker above: they are exactly the maximal unbranched
   same-type paths, every traced point in exactly one of them *)
Theorem C16_sectioning_loop_correct : forall (rows : list srow) (sps : bool),
  wf_rows rows -> (sps = true -> 2 <= length rows /\ r_ty (row rows 2) <> r_ty (row rows 1)) ->
  check_sections (to_swc rows) (map (fun b => (b, rooted_of rows b)) (fst (split_into_branches rows sps))) = true.
Proof. exact split_into_branches_ok. Qed.

(* ... and the type it records for every section (the lists that become the type groups) is the
   SWC type of that section's own points, for every well-formed file that starts with a soma point
   (the defect F24 lived in this bookkeeping) *)
Theorem C16_section_types_correct : forall (rows : list srow) (sps : bool),
  wf_rows rows -> r_ty (row rows 1) = 1 ->
  (sps = true <-> (2 <= length rows /\ r_ty (row rows 2) <> 1)) ->
  snd (split_into_branches rows sps) = map (stype rows) (fst (split_into_branches rows sps)).
Proof. exact split_types_ok. Qed.

(* ... and the parent structure _build_parents derives from the SORTED sections passes the verified
   checker: every section either starts at the root point or hangs on the last point of another
   section (never on itself), for every well-formed file that starts with a soma point *)
Theorem C16_section_parents_correct : forall (rows : list srow) (sps : bool),
  wf_rows rows -> r_ty (row rows 1) = 1 ->
  (sps = true <-> (2 <= length rows /\ r_ty (row rows 2) <> 1)) ->
  check_parents (fst (read_sections rows sps)) (snd (snd (read_sections rows sps))) = true.
Proof. exact read_sections_parents_ok. Qed.

(* ---- max_branch_len: the splitting of a section into pieces (Model/SwcSplit.v, compared exactly with
   _split_branch_equally).  For EVERY section and every requested number of pieces: the pieces chain (each starts at
   the last point of the previous one) and together are the section, there are max 1 (min n segments) of them, and
   every piece keeps at least two traced points; a section that starts at a single-point soma keeps the soma point
   (whose segment has no length) in front of a first piece of at least three points. *)
Theorem C16_split_pieces_cover_the_section : forall (A : Type) (l : list A) (n : nat), 1 <= length l ->
  match split_equally l n with
  | first :: rest => first ++ flat_map (@tl A) rest = l
  | [] => False
  end.
Proof. exact @split_covers. Qed.

Theorem C16_split_pieces_have_two_points : forall (A : Type) (l : list A) (n : nat) (p : list A),
  2 <= length l -> In p (split_equally l n) -> 2 <= length p.
Proof. exact @split_pieces_have_two_points. Qed.

Theorem C16_split_count : forall (A : Type) (l : list A) (n : nat), length (split_equally l n) = Nat.max 1 (Nat.min n (length l - 1)).
Proof. exact @split_count. Qed.

Theorem C16_split_from_a_single_point_soma : forall (A : Type) (soma : A) (rest : list A) (n : nat), 1 <= length rest ->
  match split_from_soma (soma :: rest) n with
  | first :: others => first ++ flat_map (@tl A) others = soma :: rest /\ 3 <= length first \/ length rest < 2
  | [] => False
  end.
Proof. exact @split_from_soma_covers. Qed.

(* the splitting before the repairs of F25 / F63 cut by NUMBER of points with a first piece of len / n points: a single
   point, or [soma, first neurite point] (machine-checked counterexamples, kept as regression witnesses) *)
Theorem C16_old_split_degenerates :
  (forall (A : Type) (l : list A) (n : nat), 1 <= n -> length (hd [] (split_equally_old l n)) = length l / n) /\
  hd [] (split_equally_old [1; 2; 3; 4; 5; 6] 3) = [1; 2] /\ hd [] (split_equally_old [1; 2; 3] 2) = [1] /\
  split_equally [1; 2; 3; 4; 5; 6] 3 = [[1; 2]; [2; 3; 4]; [4; 5; 6]] /\ split_equally [1; 2; 3] 2 = [[1; 2]; [2; 3]] /\
  split_from_soma [1; 2; 3; 4; 5; 6] 3 = [[1; 2; 3]; [3; 4]; [4; 5; 6]].
Proof.
  split; [exact @old_first_piece_length|]. split; [exact old_stem_of_six_points_in_three_pieces|]. split; [exact old_three_points_in_two_pieces|].
  repeat split; reflexivity.
Qed.

(* non-vacuity of the loop theorem: the model on the example file *)
Example C16_loop_example :
  read_sections [(1, 1, 0); (2, 3, 1); (3, 3, 2); (4, 2, 1)] true
  = ([[1]; [1; 2; 3]; [1; 4]], ([1; 3; 2], [None; Some 0; Some 0])).
Proof. vm_compute. reflexivity. Qed.

(* non-vacuity: soma 1 with neurites 2-3 (type 3) and 4 (type 2) *)
Example C16_nonvacuous :
  check_sections [(1, 0); (3, 1); (3, 2); (2, 1)] [([1], true); ([1; 2; 3], false); ([1; 4], false)] = true /\
  check_parents [[1]; [1; 2; 3]; [1; 4]] [None; Some 0; Some 0] = true.
Proof. split; reflexivity. Qed.
