(* C16 — SWC import preserves the traced morphology.  Statements only.
   The sectioning loop of the reader is not modelled line by line; instead a checker for
   its OUTPUT is proved sound here and is run (vm_compute) on what read_swc produced for
   every generated file. *)
From Coq Require Import List Arith Bool Reals.
From JV Require Import Swc SwcFacts SetNcompFacts.
Import ListNotations.

(* if the checker accepts a sectioning, every section is a parent-child path of one type
   without a branch point or type change inside, cannot be extended at its end, and every
   traced point belongs to exactly one section *)
Theorem C16_checker_sound_sections : forall t secs,
  check_sections t secs = true ->
  Forall (fun sr => good_section t (fst sr) (snd sr)) secs /\ partition_points t secs.
Proof. exact check_sections_sound. Qed.
(* ... and the branch connectivity is the file's parent-child connectivity: the parent of a
   section is the section that ends in the point it hangs on; parentless sections start at
   the root *)
Theorem C16_checker_sound_parents : forall secs parents,
  check_parents secs parents = true ->
  length secs = length parents /\
  forall i, i < length parents ->
    match nth i parents None with
    | Some j => j <> i /\ last (nth j secs []) 0 = hd 0 (nth i secs [])
    | None => hd 0 (nth i secs []) = 1
    end.
Proof. exact check_parents_sound. Qed.

(* radii: linear interpolation is exact at the traced points and stays between the two
   neighbouring traced radii; compartment centres lie strictly inside the branch *)
Theorem C16_interpolation : forall a b ra rb x, (a < b)%R ->
  (lerp a b ra rb a = ra /\ lerp a b ra rb b = rb) /\
  ((a <= x <= b)%R -> (Rmin ra rb <= lerp a b ra rb x <= Rmax ra rb)%R).
Proof. intros; split; [apply lerp_ends | intros; apply lerp_between]; assumption. Qed.
Theorem C16_centres_inside : forall k n : nat, (k < n)%nat -> (0 < (INR k + 1 / 2) / INR n < 1)%R.
Proof. exact centre_inside. Qed.
(* total length does not depend on the number of compartments *)
Theorem C16_length_independent_of_ncomp : forall (L : R) (n : nat), (0 < n)%nat -> (INR n * (L / INR n) = L)%R.
Proof. exact total_length_preserved. Qed.

(* non-vacuity: soma 1 with neurites 2-3 (type 3) and 4 (type 2) *)
Example C16_nonvacuous :
  check_sections [(1, 0); (3, 1); (3, 2); (2, 1)] [([1], true); ([1; 2; 3], false); ([1; 4], false)] = true /\
  check_parents [[1]; [1; 2; 3]; [1; 4]] [None; Some 0; Some 0] = true.
Proof. split; reflexivity. Qed.
