(* C06 — results do not depend on how the simulation is executed (partial: the
   checkpointing / padding logic is proved; jit and vmap preserving the semantics of a
   pure traced function is trusted and tested, purity of integrate is tested).
   Model: Model/Scan.v.  Statements only. *)
From Coq Require Import List Arith.
From JV Require Import Scan ScanFacts.
Import ListNotations.

(* nested_checkpoint_scan with ANY nesting depth and ANY lengths whose product is the
   number of scanned rows computes exactly lax.scan *)
Theorem C06_nested_scan_eq_flat :
  forall (St X Y : Type) (f : St -> X -> St * Y) (lengths : list nat),
    lengths <> [] -> forall s xs, length xs = prod lengths -> nested_scan f lengths s xs = scan f s xs.
Proof. exact @nested_scan_eq_flat. Qed.

(* integrate's recordings are the same for every checkpoint_lengths whose product covers
   the run (zero padding never reaches the returned prefix) as for the un-checkpointed call *)
Theorem C06_recordings_independent_of_layout :
  forall (St X Y : Type) (step : St -> X -> St) (rec : St -> Y) (zero : X) s0 inputs cl,
    lens_of (length inputs) cl <> [] -> length inputs <= prod (lens_of (length inputs) cl) ->
    fst (integrate step rec zero s0 inputs cl) = fst (integrate step rec zero s0 inputs None).
Proof. exact @recordings_independent_of_layout. Qed.

(* what integrate returns, in closed form *)
Theorem C06_integrate_spec :
  forall (St X Y : Type) (step : St -> X -> St) (rec : St -> Y) (zero : X) s0 inputs cl,
    lens_of (length inputs) cl <> [] -> length inputs <= prod (lens_of (length inputs) cl) ->
    integrate step rec zero s0 inputs cl =
      (rec s0 :: map rec (states_after step s0 inputs),
       run step s0 (inputs ++ repeat zero (prod (lens_of (length inputs) cl) - length inputs))).
Proof. exact @integrate_spec. Qed.

(* non-vacuity: 5 steps under checkpoint_lengths [2;4] (product 8 >= 5) *)
Example C06_nonvacuous :
  fst (integrate (fun s x => s + x) (fun s => 2 * s) 0 100 [1; 2; 3; 4; 5] (Some [2; 4]))
  = [200; 202; 206; 212; 220; 230].
Proof. reflexivity. Qed.
