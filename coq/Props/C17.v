(* C17 — parameter transforms are bounded, monotone bijections.  Statements only;
   for ALL real x (no bound), all lower < upper.  The G* definitions are regenerated
   from /repo on every run; `_dom` = every log argument positive, every divisor nonzero. *)
From Coq Require Import Reals List.
From JV Require Import Prim RLemmas GTransforms TransformFacts.
Local Open Scope R_scope.

Theorem C17_sigmoid : forall lo up, lo < up ->
  (forall x, lo < sigmoid_forward__y x lo up < up) /\
  (forall x1 x2, x1 < x2 -> sigmoid_forward__y x1 lo up < sigmoid_forward__y x2 lo up) /\
  (forall x, sigmoid_inverse__x_dom (sigmoid_forward__y x lo up) lo up /\
             sigmoid_inverse__x (sigmoid_forward__y x lo up) lo up = x) /\
  (forall y, lo < y < up -> sigmoid_inverse__x_dom y lo up /\
             sigmoid_forward__y (sigmoid_inverse__x y lo up) lo up = y).
Proof. exact sigmoid_facts. Qed.

Theorem C17_softplus : forall lo,
  (forall x, softplus_forward__y_dom x lo /\ lo < softplus_forward__y x lo) /\
  (forall x1 x2, x1 < x2 -> softplus_forward__y x1 lo < softplus_forward__y x2 lo) /\
  (forall x, softplus_inverse__x_dom (softplus_forward__y x lo) lo /\
             softplus_inverse__x (softplus_forward__y x lo) lo = x) /\
  (forall y, lo < y -> softplus_inverse__x_dom y lo /\
             softplus_forward__y (softplus_inverse__x y lo) lo = y).
Proof. exact softplus_facts. Qed.

Theorem C17_negsoftplus : forall up,
  (forall x, negsoftplus_forward__y_dom x up /\ negsoftplus_forward__y x up < up) /\
  (forall x1 x2, x1 < x2 -> negsoftplus_forward__y x1 up < negsoftplus_forward__y x2 up) /\
  (forall x, negsoftplus_inverse__x_dom (negsoftplus_forward__y x up) up /\
             negsoftplus_inverse__x (negsoftplus_forward__y x up) up = x) /\
  (forall y, y < up -> negsoftplus_inverse__x_dom y up /\
             negsoftplus_forward__y (negsoftplus_inverse__x y up) up = y).
Proof. exact negsoftplus_facts. Qed.

Theorem C17_affine : forall a b, a <> 0 ->
  (forall x, affine_inverse__x_dom (affine_forward__y x a b) a b /\
             affine_inverse__x (affine_forward__y x a b) a b = x) /\
  (forall y, affine_forward__y (affine_inverse__x y a b) a b = y) /\
  (0 < a -> forall x1 x2, x1 < x2 -> affine_forward__y x1 a b < affine_forward__y x2 a b) /\
  (a < 0 -> forall x1 x2, x1 < x2 -> affine_forward__y x2 a b < affine_forward__y x1 a b).
Proof. exact affine_facts. Qed.

(* masked: the transform where the mask is set, the identity elsewhere *)
Theorem C17_masked : forall x mask a b,
  masked_affine_forward__y x mask a b = (if mask then affine_forward__y x a b else x) /\
  masked_affine_inverse__x x mask a b = (if mask then affine_inverse__x x a b else x).
Proof. exact masked_facts. Qed.

(* the traced ChainTransform([Sigmoid, Softplus]) is the composition, round-trips and is monotone *)
Theorem C17_chain_traced : forall lo up lo2, lo < up ->
  (forall x, chain_sig_soft_inverse__x (chain_sig_soft_forward__y x lo up lo2) lo up lo2 = x) /\
  (forall x1 x2, x1 < x2 ->
     chain_sig_soft_forward__y x1 lo up lo2 < chain_sig_soft_forward__y x2 lo up lo2).
Proof. exact chain_facts. Qed.

(* chains of any length *)
Theorem C17_chain_any_length : forall ts : list tf,
  Forall (fun t : tf => forall x, snd t (fst t x) = x) ts ->
  forall x, chain_inv ts (chain_fwd ts x) = x.
Proof. exact chain_roundtrip. Qed.
Theorem C17_chain_monotone : forall ts : list tf,
  Forall (fun t : tf => forall x y, x < y -> fst t x < fst t y) ts ->
  forall x y, x < y -> chain_fwd ts x < chain_fwd ts y.
Proof. exact chain_monotone. Qed.

(* ParamTransform: entry k of the result is transform k applied to entry k, nothing else *)
Theorem C17_param_transform_own_entry : forall (tfs : list (R -> R)) (ps : list R) k,
  (k < length ps)%nat -> length ps = length tfs ->
  nth k (map2 (fun p f => f p) ps tfs) 0 = (nth k tfs (fun x => x)) (nth k ps 0) /\
  length (map2 (fun p f => f p) ps tfs) = length ps.
Proof.
  intros tfs ps k Hk Hl. split.
  - exact (map2_nth (fun p f => f p) ps tfs k 0 (fun x => x) 0 Hk Hl).
  - exact (map2_length (fun p f => f p) ps tfs Hl).
Qed.

Example C17_nonvacuous : (-2 < 2) /\ (1 <> 0).
Proof. split; [apply Rlt_trans with 0; [apply Ropp_lt_gt_0_contravar, Rlt_gt, Rlt_0_2 | apply Rlt_0_2] | apply R1_neq_R0]. Qed.
