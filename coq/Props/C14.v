(* C14 — init_states puts every mechanism at its voltage-dependent steady state.
   Statements only; proofs are in Proofs/.  The definitions named G*.X are
   regenerated from /repo on every run. *)
From Coq Require Import Reals.
From Coq Require Import Lra.
From JV Require Import RLemmas GChannels GateSpec GateIntro ChannelFacts.
Local Open Scope R_scope.

(* For every gate g of every built-in channel: for ALL voltages v, ALL time steps
   dt > 0, ALL values of the other states and of the parameters (taumax > 0 for Km),
   init_state is defined and  update_states(init_state(v), dt, v) = init_state(v). *)
Section C14.
  Variables (m h n q r p u gNa gK gLeak eNa eK eLeak vt gKm taumax gCaL eCa gCaT vx dt0 : R).

  Theorem C14_HH_m : fixed_point (fun v => HH_init__m m h n v gNa gK gLeak eNa eK eLeak dt0)
      (fun v => HH_init__m_dom m h n v gNa gK gLeak eNa eK eLeak dt0)
      (fun x dt v => HH_update__m x h n dt v gNa gK gLeak eNa eK eLeak).
  Proof. exact (ab_fixed _ _ _ _ _ _ (HH_m_ok m h n gNa gK gLeak eNa eK eLeak dt0)). Qed.
  Theorem C14_HH_h : fixed_point (fun v => HH_init__h m h n v gNa gK gLeak eNa eK eLeak dt0)
      (fun v => HH_init__h_dom m h n v gNa gK gLeak eNa eK eLeak dt0)
      (fun x dt v => HH_update__h m x n dt v gNa gK gLeak eNa eK eLeak).
  Proof. exact (ab_fixed _ _ _ _ _ _ (HH_h_ok m h n gNa gK gLeak eNa eK eLeak dt0)). Qed.
  Theorem C14_HH_n : fixed_point (fun v => HH_init__n m h n v gNa gK gLeak eNa eK eLeak dt0)
      (fun v => HH_init__n_dom m h n v gNa gK gLeak eNa eK eLeak dt0)
      (fun x dt v => HH_update__n m h x dt v gNa gK gLeak eNa eK eLeak).
  Proof. exact (ab_fixed _ _ _ _ _ _ (HH_n_ok m h n gNa gK gLeak eNa eK eLeak dt0)). Qed.
  Theorem C14_Na_m : fixed_point (fun v => Na_init__m m h v gNa eNa vt dt0)
      (fun v => Na_init__m_dom m h v gNa eNa vt dt0)
      (fun x dt v => Na_update__m x h dt v gNa eNa vt).
  Proof. exact (ab_fixed _ _ _ _ _ _ (Na_m_ok m h gNa eNa vt dt0)). Qed.
  Theorem C14_Na_h : fixed_point (fun v => Na_init__h m h v gNa eNa vt dt0)
      (fun v => Na_init__h_dom m h v gNa eNa vt dt0)
      (fun x dt v => Na_update__h m x dt v gNa eNa vt).
  Proof. exact (ab_fixed _ _ _ _ _ _ (Na_h_ok m h gNa eNa vt dt0)). Qed.
  Theorem C14_K_n : fixed_point (fun v => K_init__n n v gK eK vt dt0)
      (fun v => K_init__n_dom n v gK eK vt dt0)
      (fun x dt v => K_update__n x dt v gK eK vt).
  Proof. exact (ab_fixed _ _ _ _ _ _ (K_n_ok n gK eK vt dt0)). Qed.
  Theorem C14_CaL_q : fixed_point (fun v => CaL_init__q q r v gCaL eCa dt0)
      (fun v => CaL_init__q_dom q r v gCaL eCa dt0)
      (fun x dt v => CaL_update__q x r dt v gCaL eCa).
  Proof. exact (ab_fixed _ _ _ _ _ _ (CaL_q_ok q r gCaL eCa dt0)). Qed.
  Theorem C14_CaL_r : fixed_point (fun v => CaL_init__r q r v gCaL eCa dt0)
      (fun v => CaL_init__r_dom q r v gCaL eCa dt0)
      (fun x dt v => CaL_update__r q x dt v gCaL eCa).
  Proof. exact (ab_fixed _ _ _ _ _ _ (CaL_r_ok q r gCaL eCa dt0)). Qed.
  Theorem C14_Km_p : 0 < taumax ->
    fixed_point (fun v => Km_init__p p v gKm taumax eK dt0)
      (fun v => Km_init__p_dom p v gKm taumax eK dt0)
      (fun x dt v => Km_update__p x dt v gKm taumax eK).
  Proof. intro H; exact (it_fixed _ _ _ _ _ _ (Km_p_ok p gKm taumax eK dt0 H)). Qed.
  Theorem C14_CaT_u : fixed_point (fun v => CaT_init__u u v gCaT vx eCa dt0)
      (fun v => CaT_init__u_dom u v gCaT vx eCa dt0)
      (fun x dt v => CaT_update__u x dt v gCaT vx eCa).
  Proof. exact (it_fixed _ _ _ _ _ _ (CaT_u_ok u gCaT vx eCa dt0)). Qed.
End C14.

(* renaming a channel leaves init_state and update_states untouched *)
Theorem C14_renamed_same :
  HHr_init__m = HH_init__m /\ HHr_init__h = HH_init__h /\ HHr_init__n = HH_init__n /\
  HHr_update__m = HH_update__m /\ HHr_update__h = HH_update__h /\ HHr_update__n = HH_update__n /\
  Nar_init__m = Na_init__m /\ Nar_init__h = Na_init__h /\
  Nar_update__m = Na_update__m /\ Nar_update__h = Na_update__h /\
  Kr_init__n = K_init__n /\ Kr_update__n = K_update__n /\
  Kmr_init__p = Km_init__p /\ Kmr_update__p = Km_update__p /\
  CaLr_init__q = CaL_init__q /\ CaLr_init__r = CaL_init__r /\
  CaLr_update__q = CaL_update__q /\ CaLr_update__r = CaL_update__r /\
  CaTr_init__u = CaT_init__u /\ CaTr_update__u = CaT_update__u.
Proof. repeat split; reflexivity. Qed.

(* non-vacuity: the hypotheses are inhabited (dt = 1/40 ms, taumax = 4000 ms) *)
Example C14_nonvacuous : 0 < 1 / 40 /\ 0 < 4000.
Proof. split; lra. Qed.

Print Assumptions C14_HH_m.
Print Assumptions C14_HH_h.
Print Assumptions C14_HH_n.
Print Assumptions C14_Na_m.
Print Assumptions C14_Na_h.
Print Assumptions C14_K_n.
Print Assumptions C14_CaL_q.
Print Assumptions C14_CaL_r.
Print Assumptions C14_Km_p.
Print Assumptions C14_CaT_u.
Print Assumptions C14_renamed_same.
