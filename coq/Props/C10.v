(* C10 — all ways of setting a parameter are equivalent and touch only what was selected.
   Model: Model/Index.v (JAX .at[].set semantics, trainable groups).  Statements only. *)
From Coq Require Import List ZArith Bool Arith.
From JV Require Import Index IndexFacts.
Import ListNotations.

(* set() writes the selected table rows; data_set()/trainables scatter into the array
   built from the table: both give "the value on exactly the selected rows" *)
Theorem C10_set_equals_scatter : forall (A : Type) (arr : list A) (rows : list Z) (x : A) j d,
  Forall (in_range (length arr)) rows ->
  nth j (set_group arr rows x) d = if in_group j rows then x else nth j arr d.
Proof. intros. apply nth_set_group. assumption. Qed.

(* a trainable shared by a group reaches ALL and ONLY the rows of that group, for any
   number of groups of any (equal or unequal) sizes; rows outside every group keep their
   value *)
Theorem C10_group_sharing_exact :
  forall (A : Type) (groups : list (list Z)) (vals : list A) (arr : list A) j d,
    length groups = length vals ->
    Forall (Forall (in_range (length arr))) groups ->
    (forall g1 g2 a b, a <> b -> nth_error groups a = Some g1 -> nth_error groups b = Some g2 ->
                       in_group j g1 = true -> in_group j g2 = true -> False) ->
    nth j (apply_trainable arr groups vals) d =
      match find (fun gv => in_group j (fst gv)) (combine groups vals) with
      | Some gv => snd gv
      | None => nth j arr d
      end.
Proof. exact @group_sharing_exact. Qed.

(* padding the shorter groups with an index of the same group keeps the set of rows *)
Theorem C10_padding_keeps_group : forall maxlen g j, g <> [] -> in_group j (pad_new maxlen g) = in_group j g.
Proof. exact pad_new_same_rows. Qed.

(* the repaired defect stays refuted in the model of the OLD padding (-1 addresses the last row) *)
Theorem C10_minus_one_hits_last_row : forall (A : Type) (arr : list A) x d,
  arr <> [] -> nth (length arr - 1) (set_at arr (-1)%Z x) d = x.
Proof. exact @set_at_minus_one. Qed.
Theorem C10_old_padding_refuted :
  nth 6 (apply_trainable [1; 1; 1; 1; 1; 1; 1] (map (pad_old 3) [[0; 1]; [2; 3; 4]]%Z) [2; 3]) 0 = 2.
Proof. exact pad_old_refuted. Qed.
Example C10_nonvacuous :
  apply_trainable [1; 1; 1; 1; 1; 1; 1] (map (pad_new 3) [[0; 1]; [2; 3; 4]]%Z) [2; 3] = [2; 2; 3; 3; 3; 1; 1].
Proof. exact pad_new_ok. Qed.
