(* C08 — recordings and inputs land on the right row, compartment and time step.
   Models: Model/Index.v, Model/Scan.v.  Statements only. *)
From Coq Require Import List ZArith Bool Arith.
From JV Require Import Index IndexFacts Scan ScanFacts StepCurrent StepCurrentFacts.
Import ListNotations.

(* rows: existing recordings keep their place (order of the record() calls), new ones are
   appended, nothing twice, exactly the requested (index, state) pairs *)
Theorem C08_record_keeps_order : forall recs new, exists extra, record recs new = recs ++ extra.
Proof. exact record_prefix. Qed.
Theorem C08_record_exact : forall recs new r, In r (record recs new) <-> In r recs \/ In r new.
Proof. exact record_in. Qed.
Theorem C08_record_no_duplicates : forall recs new, NoDup recs -> NoDup (record recs new).
Proof. exact record_nodup. Qed.

(* a recording / clamp of a synaptic state given by its GLOBAL edge index reads / writes
   exactly that synapse's entry of the per-type array, for any interleaving of types *)
Theorem C08_edge_index_reaches_requested_synapse :
  forall (A : Type) (types : list nat) (col : list A) e d,
    length types = length col -> e < length types ->
    nth (rank_in_type types e) (per_type types col (nth e types 0)) d = nth e col d.
Proof. exact @per_type_rank. Qed.
(* the repaired defect stays refuted: indexing with the global index reads another synapse *)
Theorem C08_global_index_refuted :
  nth 1 (per_type [0; 1; 1] [7; 1; 9] 1) 0 = 9 /\
  nth (rank_in_type [0; 1; 1] 1) (per_type [0; 1; 1] [7; 1; 9] 1) 0 = 1.
Proof. exact global_index_refuted. Qed.

(* columns: column 0 is the initial state, column k the state after k steps, and input
   sample k is consumed by step k+1 (run consumes the first k samples for column k) *)
Theorem C08_column_k :
  forall (St X Y : Type) (step : St -> X -> St) (rec : St -> Y) (zero : X) s0 inputs cl k d,
    lens_of (length inputs) cl <> [] -> length inputs <= prod (lens_of (length inputs) cl) ->
    k <= length inputs ->
    nth k (fst (integrate step rec zero s0 inputs cl)) d = rec (run step s0 (firstn k inputs)).
Proof. exact @column_k. Qed.

(* several stimuli on one compartment add; a stimulus reaches exactly its target row *)
Theorem C08_stimuli_add : forall (arr : list Z) inds vals c,
  Forall (fun i => i < length arr) inds ->
  nth c (scatter_add Z Z.add arr inds vals) 0%Z = (nth c arr 0 + contrib c inds vals)%Z.
Proof. exact scatter_add_sums. Qed.

(* t_max pads a stimulus with zeros or truncates it *)
Theorem C08_tmax : forall (A : Type) n (zero : A) xs k d, k < n ->
  length (pad_or_truncate n zero xs) = n /\
  nth k (pad_or_truncate n zero xs) d = if k <? length xs then nth k xs d else zero.
Proof. intros; split; [apply pad_or_truncate_length | apply pad_or_truncate_nth; assumption]. Qed.

Example C08_nonvacuous : record [(0, 1); (1, 1)] [(1, 1); (2, 1); (0, 2)] = [(0, 1); (1, 1); (2, 1); (0, 2)].
Proof. reflexivity. Qed.

(* ---- step currents (stimulus.py, repair F42; Model/StepCurrent.v compared with the code) ----
   a step that is specified on the time grid - delay = k0 dt, duration = kd dt for integers k0, kd and any dt > 0 -
   carries its amplitude on exactly the samples k0 .. k0 + kd - 1 *)
Theorem C08_step_current_window_on_the_grid : forall (k0 kd : BinNums.Z) (dt : QArith_base.Q),
  QArith_base.Qlt (QArith_base.inject_Z 0) dt ->
  step_window (QArith_base.Qmult (QArith_base.inject_Z k0) dt) (QArith_base.Qmult (QArith_base.inject_Z kd) dt) dt = (k0, BinInt.Z.add k0 kd).
Proof. intros k0 kd dt H. apply window_on_grid. exact H. Qed.
