(* C13 — changing the number of compartments preserves the branch and its surroundings.
   Model: Model/SetNcomp.v.  Statements only. *)
From Coq Require Import List Arith Reals.
From JV Require Import SetNcomp SetNcompFacts.
Import ListNotations.

(* every other branch is untouched: rows before the branch keep their place and content,
   rows behind it keep their content and move by (new - old); the new rows sit in place *)
Theorem C13_rows_before_untouched : forall (A : Type) (l : list A) s old new k d,
  k < s -> s <= length l -> nth k (replace_rows l s old new) d = nth k l d.
Proof. exact @rows_before_untouched. Qed.
Theorem C13_rows_behind_shifted : forall (A : Type) (l : list A) s old new k d,
  s + old <= length l -> nth (s + length new + k) (replace_rows l s old new) d = nth (s + old + k) l d.
Proof. exact @rows_behind_shifted. Qed.
Theorem C13_new_rows_in_place : forall (A : Type) (l : list A) s old new k d,
  s <= length l -> k < length new -> nth (s + k) (replace_rows l s old new) d = nth k new d.
Proof. exact @new_rows_in_place. Qed.
Theorem C13_row_count : forall (A : Type) (l : list A) s old new,
  s + old <= length l -> length (replace_rows l s old new) = length l - old + length new.
Proof. exact @replace_rows_length. Qed.

(* named groups keep their branch membership *)
Theorem C13_groups_keep_other_rows : forall g s old new r r',
  move_row s old new r = Some r' -> (In r' (remap_group g s old new) <-> In r g).
Proof. exact remap_group_kept. Qed.
Theorem C13_groups_keep_modified_branch : forall g s old new k, k < new ->
  (In (s + k) (remap_group g s old new) <-> exists r, In r g /\ s <= r < s + old).
Proof. exact remap_group_branch. Qed.
Theorem C13_stale_groups_refuted :
  remap_group_old [4; 5] 0 2 4 = [4; 5] /\ remap_group [4; 5] 0 2 4 = [6; 7].
Proof. exact remap_group_old_refuted. Qed.

(* the total length of the branch is preserved *)
Theorem C13_total_length_preserved : forall (L : R) (n : nat), (0 < n)%nat -> (INR n * (L / INR n) = L)%R.
Proof. exact total_length_preserved. Qed.

Example C13_nonvacuous : replace_rows [10; 11; 20; 21; 30; 31] 2 2 [7; 7; 7] = [10; 11; 7; 7; 7; 30; 31].
Proof. reflexivity. Qed.
