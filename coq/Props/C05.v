(* C05 — gradients obtained by differentiating through a simulation are correct (PARTIAL).
   What is proved: the building blocks the traced simulation is made of are differentiable
   where the library claims, the guards of the removable singularities keep every division
   of BOTH branches defined (what reverse-mode AD needs), trainables enter through an exact
   selection, and checkpointing does not change the differentiated function.  JAX's AD of
   each primitive and their composition is trusted; the end-to-end claim is decided by the
   comparison of jax.grad with converged central finite differences. *)
From Coq Require Import Reals List ZArith.
From Coquelicot Require Import Coquelicot.
From JV Require Import Prim RLemmas GSolverGate GChannels GCellUtils GateGeneric GradFacts GuardDerive
  Index IndexFacts Scan ScanFacts.
Import ListNotations.
Local Open Scope R_scope.

(* both branches of the singularity guards are defined for every input: no NaN can enter
   the gradient through the unused branch of a `where` *)
Theorem C05_guards_gradient_safe :
  (forall x y, 0 < y -> vtrap__r_gdom x y) /\ (forall x, efun__r_gdom x).
Proof. split; [exact vtrap_gdom | exact efun_gen_gdom]. Qed.

(* ... and inside the guard the helpers have the DERIVATIVE of the function they replace (x/(exp x - 1) has slope
   -1/2 at 0): a guard returning the constant limit passes every value test and gives a zero gradient exactly at
   the singular voltage *)
Theorem C05_guards_have_the_right_derivative :
  (forall x, Rabs x < 1 / 1000000 -> is_derive efun__r x (- (1 / 2))) /\
  (forall x y, 0 < y -> Rabs (x / y) < 1 / 1000000 -> is_derive (fun t => vtrap__r t y) x (- (1 / 2))).
Proof. split; [exact efun_derive_in_guard | exact vtrap_derive_in_guard]. Qed.

(* gate updates are affine in the state with slope exp(-dt/tau) *)
Theorem C05_update_derivative_in_state :
  (forall x dt xinf tau, 0 < dt -> 0 < tau ->
     is_derive (fun x => exponential_euler__r x dt xinf tau) x (exp (- dt / tau))) /\
  (forall x dt a b, 0 < dt -> 0 < a -> 0 < b ->
     is_derive (fun x => solve_gate_exponential__r x dt a b) x (exp (- (dt * (a + b))))).
Proof. split; [exact ee_derive_state | exact sge_derive_state]. Qed.

(* the clipped exponential has derivative exp x below the clip and 0 above it *)
Theorem C05_save_exp_derivative :
  (forall x, x < 20 -> is_derive save_exp__r x (exp x)) /\ (forall x, 20 < x -> is_derive save_exp__r x 0).
Proof. split; [exact save_exp_derive_below | exact save_exp_derive_above]. Qed.

(* axial conductances are differentiable in radius, axial resistivity and length on the open
   set of positive parameters *)
Theorem C05_conductance_differentiable : forall r1 r2 ra1 ra2 l1 l2,
  0 < r1 -> 0 < r2 -> 0 < ra1 -> 0 < ra2 -> 0 < l1 -> 0 < l2 ->
  ex_derive (fun t => coupling_cond__g t r2 ra1 ra2 l1 l2) r1 /\
  ex_derive (fun t => coupling_cond__g r1 t ra1 ra2 l1 l2) r2 /\
  ex_derive (fun t => coupling_cond__g r1 r2 t ra2 l1 l2) ra1 /\
  ex_derive (fun t => coupling_cond__g r1 r2 ra1 ra2 t l2) l1.
Proof. exact coupling_cond_differentiable. Qed.

(* a trainable enters the parameter arrays as an exact selection (each row of each group
   receives that group's value, every other row is untouched): a linear map of the values *)
Theorem C05_trainables_enter_linearly :
  forall (A : Type) (groups : list (list Z)) (vals : list A) (arr : list A) j d,
    length groups = length vals ->
    List.Forall (List.Forall (in_range (length arr))) groups ->
    (forall g1 g2 a b, a <> b -> nth_error groups a = Some g1 -> nth_error groups b = Some g2 ->
                       in_group j g1 = true -> in_group j g2 = true -> False) ->
    nth j (apply_trainable arr groups vals) d =
      match find (fun gv => in_group j (fst gv)) (combine groups vals) with
      | Some gv => snd gv
      | None => nth j arr d
      end.
Proof. exact @group_sharing_exact. Qed.

(* checkpointing does not change the function that is differentiated *)
Theorem C05_checkpointing_same_function :
  forall (St X Y : Type) (f : St -> X -> St * Y) (lengths : list nat),
    lengths <> [] -> forall s xs, length xs = prod lengths -> nested_scan f lengths s xs = scan f s xs.
Proof. exact @nested_scan_eq_flat. Qed.

Example C05_nonvacuous : vtrap__r_gdom 0 10.
Proof. exact c05_example. Qed.
