(* C20 — connectivity builders create exactly the requested connections.
   Statements only; the model is Model/Connect.v (axiom-free, executable, compared with
   jaxley.connect on every run). *)
From Coq Require Import List Arith.
From JV Require Import Connect ConnectFacts.
Import ListNotations.

(* fully_connect: for ALL population sizes (n_pre <> n_post included) the (pre site, post
   cell) pairs are exactly pre x post, each exactly once, in row-major order — under the
   only assumption made about the random sampling: a compartment sampled for a cell lies
   in that cell. *)
Theorem C20_fully_connect_is_product :
  forall (A B : Type) (dA : A) (dB : B) (cellof : B -> nat)
         (pre : list A) (post_cells : list nat) (samples : list B),
    0 < length pre -> 0 < length post_cells ->
    length samples = length post_cells * length pre ->
    (forall i, i < length samples -> cellof (nth i samples dB) = nth (i / length pre) post_cells 0) ->
    exists edges,
      fully_connect dB pre (length post_cells) samples = Some edges /\
      map (fun e => (fst e, cellof (snd e))) edges = list_prod pre post_cells.
Proof. exact @fully_connect_is_product. Qed.

(* sparse_connect: succeeds for EVERY outcome of the sampling (any number of drawn
   connections, zero and one included), and connection k joins draw k's pre site to draw
   k's post compartment *)
Theorem C20_sparse_connect_total :
  forall (A B : Type) (pre : list A) (post : list B),
    length pre = length post -> sparse_connect pre post = Some (combine pre post).
Proof. exact @sparse_connect_total. Qed.

(* connectivity_matrix_connect: one synapse for exactly the True entries, none twice *)
Theorem C20_matrix_connect_is_support : forall m i j,
  In (i, j) (where_true m) <-> nth j (nth i m []) false = true /\ i < length m /\ j < length (nth i m []).
Proof. exact in_where_true. Qed.
Theorem C20_matrix_connect_no_duplicates : forall m, NoDup (where_true m).
Proof. exact NoDup_where_true. Qed.

(* the presynaptic site (cumulative compartment count) is the first compartment of its cell *)
Theorem C20_pre_site_is_first_comp : forall ncomps c,
  Forall (fun n => 0 < n) ncomps -> c < length ncomps -> cell_of ncomps (first_comp ncomps c) = c.
Proof. exact cell_of_first_comp. Qed.

(* the two defects repaired in /repo stay refuted in the model of the OLD code *)
Theorem C20_old_layout_refuted :
  exists (pre : list nat) (post_cells : list nat) (samples : list nat),
    length samples = length post_cells * length pre /\
    (forall i, i < length samples -> (fun b => b / 10) (nth i samples 0) = nth (i / length pre) post_cells 0) /\
    exists edges, fully_connect_old 0 pre (length post_cells) samples = Some edges /\
      map (fun e => (fst e, snd e / 10)) edges <> list_prod pre post_cells.
Proof. exact fully_connect_old_refuted. Qed.
Theorem C20_old_single_draw_refuted : sparse_connect_old [7] [9] = None.
Proof. exact sparse_connect_old_refuted. Qed.

(* non-vacuity: 2 pre cells, 3 post cells, samples from the right cells *)
Example C20_nonvacuous :
  fully_connect 0 [0; 1] 3 [20; 21; 30; 31; 40; 41]
  = Some [(0, 20); (0, 30); (0, 40); (1, 21); (1, 31); (1, 41)].
Proof. reflexivity. Qed.
