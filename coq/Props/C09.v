(* C09 — synaptic current flows from the listed pre- to the listed post-compartment.
   Models: Model/Index.v; traced synapse functions (Layer G).  Statements only. *)
From Coq Require Import List ZArith Bool Arith Reals Permutation.
From JV Require Import Index IndexFacts Prim GSynapses GCellUtils SynapseFacts CableConservation Secant SecantFacts.
Import ListNotations.

(* per-type arrays: the parameters/states of edge e sit at its rank within its type *)
Theorem C09_edge_parameters_reach_their_synapse :
  forall (A : Type) (types : list nat) (col : list A) e d,
    length types = length col -> e < length types ->
    nth (rank_in_type types e) (per_type types col (nth e types 0)) d = nth e col d.
Proof. exact @per_type_rank. Qed.

(* gather_synapes: the current into compartment c is the SUM over the synapses whose post
   index is c — and nothing else *)
Theorem C09_currents_add_on_post : forall (arr : list Z) post_inds currents c,
  Forall (fun i => i < length arr) post_inds ->
  nth c (scatter_add Z Z.add arr post_inds currents) 0%Z = (nth c arr 0 + contrib c post_inds currents)%Z.
Proof. exact scatter_add_sums. Qed.

(* any creation order (permutation of the (post index, current) pairs) gives the same sums *)
Theorem C09_creation_order_irrelevant : forall c inds vals inds' vals',
  length inds = length vals -> length inds' = length vals' ->
  Permutation (combine inds vals) (combine inds' vals') ->
  contrib c inds vals = contrib c inds' vals'.
Proof. exact contrib_perm. Qed.

Local Open Scope R_scope.
(* traced synapse functions: zero conductance => zero current; the state reads the pre
   voltage only; currents are affine in the post voltage (so the secant linearisation of
   the step is exact) *)
Theorem C09_zero_conductance_no_current :
  (forall s vpre vpost e k, IonotropicSynapse_current__i s vpre vpost 0 e k = 0) /\
  (forall c vpre vpost, TestSynapse_current__i c vpre vpost 0 = 0) /\
  (forall vpre vpost x sl, TanhRateSynapse_current__i vpre vpost 0 x sl = 0).
Proof. exact zero_conductance_no_current. Qed.
Theorem C09_current_dependencies :
  (forall s vpre vpre' vpost g e k,
     IonotropicSynapse_current__i s vpre vpost g e k = IonotropicSynapse_current__i s vpre' vpost g e k) /\
  (forall s vpre v1 v2 g e k,
     IonotropicSynapse_current__i s vpre v2 g e k - IonotropicSynapse_current__i s vpre v1 g e k = g * s * (v2 - v1)) /\
  (forall vpre vpost vpost' g x sl,
     TanhRateSynapse_current__i vpre vpost g x sl = TanhRateSynapse_current__i vpre vpost' g x sl).
Proof. exact current_dependencies. Qed.
Theorem C09_state_reads_pre_only : forall s dt vpre vpost vpost' g e k,
  IonotropicSynapse_update__s s dt vpre vpost g e k = IonotropicSynapse_update__s s dt vpre vpost' g e k.
Proof. exact state_reads_pre_only. Qed.
(* nA -> uA/cm2 uses the area of the compartment it is given (the POST compartment) *)
Theorem C09_area_conversion : forall I r l, 0 < r -> 0 < l ->
  point_to_distributed__i I r l * (2 * pi_f * r * l) = 100000 * I.
Proof. exact stimulus_charge. Qed.

Example C09_nonvacuous : contrib 1%nat [1; 0; 1]%nat [5; 7; 11]%Z = 16%Z.
Proof. reflexivity. Qed.

(* ---- the secant linearisation of Network._synapse_currents (Model/Secant.v, compared with the code) ----
   for every network of built-in synapses, every voltage vector and every nonzero perturbation: the
   linearised synaptic input of compartment c, evaluated at ANY new voltage of c, is the sum of the true
   currents (converted with c's area factor) of exactly the synapses whose post compartment is c, each
   reading the present voltage of its own pre compartment *)
Theorem C09_linearised_synaptic_input_is_exact : forall (v : nat -> R) (d : R) (syns : list (syn R)) (c : nat),
  d <> 0 -> Forall builtin syns ->
  forall vnew,
    fst (accumulate R Rplus Rminus Rmult Rdiv 0 v d syns c) * vnew - snd (accumulate R Rplus Rminus Rmult Rdiv 0 v d syns c)
    = fold_right (fun s acc => (if Nat.eqb (s_post R s) c then dist_current R Rmult s (v (s_pre R s)) vnew else 0) + acc) 0 syns.
Proof. exact builtin_network_exact. Qed.

(* ... for any synapse whose current is affine in the post voltage *)
Theorem C09_secant_exact_for_affine_currents : forall (s : syn R) (v : nat -> R) (d : R),
  d <> 0 -> affine_in_post s ->
  forall vnew, fst (terms R Rplus Rminus Rmult Rdiv v d s) * vnew + snd (terms R Rplus Rminus Rmult Rdiv v d s)
               = dist_current R Rmult s (v (s_pre R s)) vnew.
Proof. exact terms_exact. Qed.

(* a compartment no synapse ends on receives nothing *)
Theorem C09_other_compartments_receive_nothing : forall (v : nat -> R) (d : R) (syns : list (syn R)) (c : nat),
  (forall s, In s syns -> s_post R s <> c) -> accumulate R Rplus Rminus Rmult Rdiv 0 v d syns c = (0, 0).
Proof. exact accumulate_untouched. Qed.

(* the TanhRateSynapse (reads only v_pre) puts no coefficient on the post voltage ... *)
Theorem C09_tanhrate_no_post_coefficient : forall (v : nat -> R) (d : R) pre post g x sl conv, d <> 0 ->
  fst (terms R Rplus Rminus Rmult Rdiv v d (mksyn R pre post (fun vpre vpost => TanhRateSynapse_current__i vpre vpost g x sl) conv)) = 0.
Proof. exact tanhrate_no_post_coefficient. Qed.

(* ... whereas the scheme the code used before the repair F46 (pre voltage perturbed too) is wrong for a
   synapse that reads only the pre voltage *)
Theorem C09_perturbing_the_pre_voltage_refuted :
  exists (s : syn R) (v : nat -> R) (d vnew : R),
    d <> 0 /\ (forall vpre v1 v2, s_cur R s vpre v1 = s_cur R s vpre v2) /\ s_pre R s <> s_post R s /\
    fst (terms_both R Rplus Rminus Rmult Rdiv v d s) * vnew + snd (terms_both R Rplus Rminus Rmult Rdiv v d s)
    <> dist_current R Rmult s (v (s_pre R s)) vnew.
Proof. exact terms_both_refuted. Qed.
