(* C18 — modules survive pickling and deep copies unchanged and independent (PARTIAL).
   The theorems are about the aliasing discipline only (Model/Heap.v): a copy is an
   isomorphic, disjoint object graph, so editing it cannot alter the original.  CPython's
   pickle protocol, pandas / JAX serialisation and __getattr__ dispatch are not modelled:
   the decisive evidence is the round trip performed on real modules by the check. *)
From Coq Require Import List Arith Bool.
From JV Require Import Heap HeapFacts.
Import ListNotations.

Theorem C18_copy_isomorphic : forall h k i,
  lookup (copy_at k h) (i + k) = option_map (shift_obj k) (lookup h i).
Proof. exact copy_isomorphic. Qed.
Theorem C18_copy_disjoint : forall h i, In i (ids (deepcopy h)) -> ~ In i (ids h).
Proof. exact copy_disjoint. Qed.
Theorem C18_copy_does_not_point_into_original : forall h i o f,
  lookup (deepcopy h) i = Some o -> In f (snd o) -> bound h <= f.
Proof. exact copy_fields_fresh. Qed.
Theorem C18_edit_copy_preserves_original : forall h i j o,
  In i (ids h) -> In j (ids (deepcopy h)) ->
  lookup (update (h ++ deepcopy h) j o) i = lookup (h ++ deepcopy h) i.
Proof. exact edit_copy_preserves_original. Qed.
Theorem C18_copy_keeps_kinds : forall h k, all_picklable (copy_at k h) = all_picklable h.
Proof. exact copy_keeps_kinds. Qed.

Example C18_nonvacuous :
  deepcopy [(0, (1, [1; 2])); (1, (2, [])); (2, (3, [1]))] = [(3, (1, [4; 5])); (4, (2, [])); (5, (3, [4]))].
Proof. reflexivity. Qed.
