(* C19 — any editing history leaves a consistent module.  Model: Model/History.v.
   Statements only. *)
From Coq Require Import List Arith Bool.
From JV Require Import SetNcomp History HistoryFacts HistoryRefs HistoryRefsFacts.
Import ListNotations.

(* for EVERY accepted sequence of insert / delete_channel / set / set_ncomp / add_to_group /
   record / delete_recordings / stimulate / clamp / delete_stimuli / delete_clamps /
   make_trainable / delete_trainables / init_states operations on arbitrary row sets
   (any channel-to-column ownership, shared columns included) the tables stay consistent:
   recordings, inputs, groups, trainables and channel flags refer to existing rows, and every parameter
   column is defined exactly on the rows of the channels that own it *)
Theorem C19_every_history_is_consistent :
  forall (owns : nat -> list nat) (nchan : nat) (h : list op) (s : st),
    Inv owns nchan s -> all_valid owns nchan s h -> Inv owns nchan (run owns nchan s h).
Proof. exact inv_history. Qed.
Theorem C19_initial_module_is_consistent : forall owns nchan n, Inv owns nchan (init n).
Proof. exact inv_init. Qed.

(* deleting a channel does not damage other mechanisms: shared columns stay where another
   channel uses them (and the old behaviour is refuted: insert Na; insert K; delete Na) *)
Theorem C19_delete_keeps_shared_columns :
  let s := run owns_ex 2 (init 2) [Insert 0 [0; 1]; Insert 1 [0; 1]; Delete 0 [0; 1]] in
  chan s 1 = [0; 1] /\ col s 0 = [0; 1] /\ col s 1 = [].
Proof. exact delete_new_ok. Qed.
Theorem C19_old_delete_refuted :
  let s := run owns_ex 2 (init 2) [Insert 0 [0; 1]; Insert 1 [0; 1]; DeleteOld 0 [0; 1]] in
  chan s 1 = [0; 1] /\ col s 0 = [].
Proof. exact delete_old_refuted. Qed.

(* deleting the trainables of a view removes exactly the rows of the view from every group of
   every trainable, leaves no empty group or trainable behind and touches nothing else (and
   the old behaviour, which kept trainables of geometric keys, is refuted) *)
Theorem C19_delete_trainables_exact : forall owns nchan s rows r,
  (exists tr g, In tr (trains (step owns nchan s (DeleteTrainables rows))) /\ In g tr /\ In r g) <->
  (~ In r rows /\ exists tr g, In tr (trains s) /\ In g tr /\ In r g).
Proof. exact delete_trainables_exact. Qed.
Theorem C19_delete_trainables_leaves_nothing_empty : forall owns nchan s rows,
  Forall (fun tr => tr <> [] /\ Forall (fun g => g <> []) tr) (trains (step owns nchan s (DeleteTrainables rows))).
Proof. exact delete_trainables_no_empty. Qed.
Theorem C19_old_delete_trainables_refuted :
  let h del := [MakeTrainable [[0; 1]]; MakeTrainable [[0]; [1]; [2]]; del] in
  trains (run owns_ex 2 (init 3) (h (DeleteTrainablesOld [0; 1]))) = [[[0; 1]]; [[0]; [1]; [2]]] /\
  trains (run owns_ex 2 (init 3) (h (DeleteTrainables [0; 1]))) = [[[2]]].
Proof. exact delete_trainables_old_refuted. Qed.

Example C19_nonvacuous :
  all_valid owns_ex 2 (init 3) [Insert 0 [0; 2]; AddToGroup 0 [1; 2]; SetNcomp 0 1 2; Record_ [3]].
Proof. exact c19_example. Qed.

(* ---- references to channel states and parameters (Model/HistoryRefs.v, compared with the code on the acceptance
   of every call and on the final recordings) ----
   delete_channel refuses to leave a reference dangling (repairs F65, F69).  For EVERY history of insert,
   delete_channel, record / clamp / make_trainable and their deletion through arbitrary views - any ownership of
   columns by channels, shared columns and shared currents included - every reference names a column that some
   channel still present in the module owns. *)
Theorem C19_references_stay_known : forall (owns : nat -> list nat) (nchan : nat) (ops : list rop) (s : rst),
  Forall safe ops -> refs_known owns nchan s = true -> refs_known owns nchan (rrun owns nchan s ops) = true.
Proof. exact history_keeps_refs_known. Qed.

(* the tree as given (no refusal) and the first repair (references on the cleared rows only) are refuted *)
Theorem C19_delete_channel_without_refusal_refuted :
  refs_known ow2 2 (rrun ow2 2 rinit [RInsert 0 [0; 1]; RRef 0 [0]; RDeleteOld 0 [0; 1]]) = false.
Proof. exact old_delete_refuted. Qed.
Theorem C19_first_repair_refuted :
  refs_known ow2 2 (rrun ow2 2 rinit [RInsert 0 [0; 1]; RRef 0 [0; 1; 2; 3]; RUnref [0; 1]; RDeleteF65 0 [0; 1]]) = false /\
  accepted ow2 2 rinit [RInsert 0 [0; 1]; RRef 0 [0; 1; 2; 3]; RUnref [0; 1]; RDelete 0 [0; 1]] = [true; true; true; false].
Proof. exact first_repair_refuted. Qed.
