(* C15 — simulations converge to cable theory at the expected order (PARTIAL).
   Proved: the units (steady state and time constant of a single compartment, from the
   traced Leak current and stimulus conversion), the exact amplification factors of the
   backward-Euler and Crank-Nicolson steps, and explicit global error bounds of first order
   (backward Euler, all x = dt/tau >= 0) and second order (Crank-Nicolson, 1e-3 <= dt/tau <= 1)
   against exp(-t/tau); the spatial CONSISTENCY of the axial term of a uniform cable (second
   order, with the coupling conductance traced from the code and kappa = 1e7 r / (2 r_a)).  The
   second-order CONVERGENCE of the solutions in compartment length is TESTED on refinement
   ladders against the analytic input / transfer resistance of a sealed cable. *)
From Coq Require Import Reals.
From Coquelicot Require Import Coquelicot.
From Coq Require Import List Lia.
Import ListNotations.
From JV Require Import Prim RLemmas GCellUtils GChannels CableConservation ConvergenceFacts SpatialConsistency.
From JV Require Import HinesArr HinesCheck HinesArrFacts HinesIdx HinesIdxF AsmStruct AssembleM AsmIdx AssembleGraph AsmIdxF GraphStability GraphResidual StabilityInst.
Local Open Scope R_scope.

(* one implicit step of a passive compartment contracts the distance to
   v_inf = E + 100 I / (g * 2 pi r l)  by  1/(1 + dt/tau),  tau = cm/(1000 g):
   this fixes mV, nA, S/cm2, um, uF/cm2, ms *)
Theorem C15_units_single_compartment : forall v dt g E cm I r l,
  0 < dt -> 0 < g -> 0 < cm -> 0 < r -> 0 < l ->
  rc_step v dt g E cm I r l - rc_vinf g E I r l = (v - rc_vinf g E I r l) / (1 + dt / rc_tau g cm) /\
  rc_step (rc_vinf g E I r l) dt g E cm I r l = rc_vinf g E I r l.
Proof. intros; split; [apply rc_step_contracts | apply rc_steady_state]; assumption. Qed.

(* backward Euler: after n steps of size x = dt/tau the relaxation factor differs from the
   exact exp(-n x) by at most n x^2  (= T dt / tau^2 at time T: first order) *)
Theorem C15_bwd_euler_first_order : forall x n, 0 <= x ->
  Rabs ((/ (1 + x)) ^ n - exp (- (INR n * x))) <= INR n * x ^ 2.
Proof. exact bwd_first_order. Qed.

(* Crank-Nicolson (2 * implicit half step - v) has amplification (1 - x/2)/(1 + x/2) and
   differs from exp(-n x) by at most n x^3 / 6  (= T dt^2 / (6 tau^3): second order) *)
Theorem C15_crank_nicolson_amplification : forall x, 0 <= x ->
  2 * (/ (1 + x / 2)) - 1 = (1 - x / 2) / (1 + x / 2).
Proof. exact cn_amplification. Qed.
Theorem C15_crank_nicolson_second_order : forall x n, 1 / 1000 <= x <= 1 ->
  Rabs (((1 - x / 2) / (1 + x / 2)) ^ n - exp (- (INR n * x))) <= INR n * (x ^ 3 / 6).
Proof. exact cn_second_order. Qed.

(* spatial consistency: for equal compartments of length h the traced coupling conductance is
   kappa / h^2, and the axial term of the code applied to the samples of any four times
   differentiable V whose fourth derivative is bounded by M differs from kappa * V2 (V2 = second
   derivative) by at most kappa * M * h^2 / 12 *)
Theorem C15_uniform_coupling : forall r ra h, 0 < r -> 0 < ra -> 0 < h ->
  coupling_cond__g r r ra ra h h = kappa r ra / h ^ 2.
Proof. exact uniform_coupling. Qed.
Theorem C15_axial_term_second_order_consistent : forall f x r ra h M,
  0 < r -> 0 < ra -> 0 < h -> smooth4 f -> (forall t, Rabs (Derive_n f 4 t) <= M) ->
  Rabs (coupling_cond__g r r ra ra h h * (f (x + h) - f x) + coupling_cond__g r r ra ra h h * (f (x - h) - f x)
        - kappa r ra * Derive_n f 2 x) <= kappa r ra * (M * h ^ 2 / 12).
Proof. exact axial_term_consistent. Qed.

Example C15_nonvacuous : 1 / 1000 <= 1 / 40 <= 1.
Proof. exact c15_example. Qed.

(* ================= stability, and convergence from consistency (array level, every morphology) =================
   The implicit step does not amplify in the maximum norm: |x_c| <= max_c |v_c + dt ct_c| whenever vt >= 0, for any
   structure on which the graph system is defined, any positive conductances and any dt > 0. *)
Theorem C15_implicit_step_does_not_amplify :
  forall (ly : layout) (tp : topo), wf ly tp ->
  forall (mask : nat -> nat) (ncomp : nat) (es : list (edge R)) (dt : R) (group child_inds par_inds : list nat),
  graph_struct ly tp mask ncomp es group child_inds par_inds -> graph_struct_bp ly mask ncomp es group child_inds par_inds ->
  (1 <= ncomp)%nat -> 0 < dt -> (forall e, In e es -> 0 < e_g R e) ->
  forall (v vt ct x y : nat -> R) (K : R),
  (forall c, (c < ncomp)%nat -> 0 <= vt c) -> graph_eq ly tp mask ncomp es v vt ct dt x y ->
  0 <= K -> (forall c, (c < ncomp)%nat -> Rabs (v c + dt * ct c) <= K) ->
  forall c, (c < ncomp)%nat -> Rabs (x (mask c)) <= K.
Proof. exact graph_stability. Qed.

(* Lax: stability + consistency => convergence.  For EVERY cell, any time-dependent non-negative membrane conductances
   vt^n and terms ct^n: if a reference trajectory U^n (e.g. the exact cable solution at the compartment centres)
   satisfies the scheme up to residuals |tau^n_c| <= eps (its local truncation error; C15_axial_term_second_order_consistent bounds
   it by C h^2 on the uniform cable), the simulated voltages obey |V^n_c - U^n_c| <= E0 + n dt eps for all n. *)
Theorem C15_error_accumulates_for_every_cell :
  forall (ps ns : list nat) (es : list (edge R)) (dt : R) (V U vtn ctn taun : nat -> nat -> R) (E0 eps : R),
  (1 <= length ps)%nat -> (forall b, (1 <= b)%nat -> (b < length ps)%nat -> (nth b ps 0 < b)%nat) ->
  (forall b, (b < length ps)%nat -> (1 <= nth b ns 0)%nat) ->
  map strip es = triples_of ps ns ->
  0 < dt -> (forall e, In e es -> 0 < e_g R e) -> (forall n i, (i < total ps ns)%nat -> 0 <= vtn n i) ->
  let ly := layout_of ps ns in let tp := topo_of ps in let mask := nthD (mask_of ps ns) in let N := total ps ns in
  (forall n c, (c < N)%nat ->
     V (S n) c = sv (run R Rplus Rminus Rmult Rdiv 0 1 ly (ops_of_tree ps ns)
                       (assemble R Rplus Rminus Rmult 0 1 mask N es (V n) (vtn n) (ctn n) dt (group_of ps) (child_inds_of ps) (par_inds_of ps))) (mask c)) ->
  (forall n, exists x y, graph_eq ly tp mask N es (U n) (vtn n) (fun c => ctn n c + taun n c) dt x y /\ forall c, (c < N)%nat -> U (S n) c = x (mask c)) ->
  0 <= E0 -> 0 <= eps ->
  (forall c, (c < N)%nat -> Rabs (V 0%nat c - U 0%nat c) <= E0) -> (forall n c, (c < N)%nat -> Rabs (taun n c) <= eps) ->
  forall n c, (c < N)%nat -> Rabs (V n c - U n c) <= E0 + INR n * (dt * eps).
Proof. exact cell_simulation_error. Qed.

Theorem C15_error_accumulates_for_every_network :
  forall (ps ns : list nat) (rs : list bool) (es : list (edge R)) (dt : R) (V U vtn ctn taun : nat -> nat -> R) (E0 eps : R),
  (1 <= length ps)%nat -> (forall b, (b < length ps)%nat -> is_root rs b = false -> (nth b ps 0 < b)%nat) ->
  (forall b, (b < length ps)%nat -> (1 <= nth b ns 0)%nat) ->
  map strip es = triples_ofF ps ns rs ->
  0 < dt -> (forall e, In e es -> 0 < e_g R e) -> (forall n i, (i < total ps ns)%nat -> 0 <= vtn n i) ->
  let ly := layout_ofF ps ns rs in let tp := topo_ofF ps rs in let mask := nthD (mask_ofF ps ns rs) in let N := total ps ns in
  (forall n c, (c < N)%nat ->
     V (S n) c = sv (run R Rplus Rminus Rmult Rdiv 0 1 ly (ops_of_forest ps ns rs)
                       (assemble R Rplus Rminus Rmult 0 1 mask N es (V n) (vtn n) (ctn n) dt (group_ofF ps rs) (child_inds_ofF ps rs) (par_inds_ofF ps rs))) (mask c)) ->
  (forall n, exists x y, graph_eq ly tp mask N es (U n) (vtn n) (fun c => ctn n c + taun n c) dt x y /\ forall c, (c < N)%nat -> U (S n) c = x (mask c)) ->
  0 <= E0 -> 0 <= eps ->
  (forall c, (c < N)%nat -> Rabs (V 0%nat c - U 0%nat c) <= E0) -> (forall n c, (c < N)%nat -> Rabs (taun n c) <= eps) ->
  forall n c, (c < N)%nat -> Rabs (V n c - U n c) <= E0 + INR n * (dt * eps).
Proof. exact network_simulation_error. Qed.

(* ... and against ANY reference sequence U^n, with its explicit local truncation error: complete U at the branch
   points by Kirchhoff balance; residual^n_c = [U^{n+1}_c (1 + dt vt_c) + dt sum_{e into c} g_e (U^{n+1}_c - value at
   source e) - U^n_c] / dt - ct_c.  Global error <= initial error + n dt max |residual|. *)
Theorem C15_error_against_any_reference_for_every_cell :
  forall (ps ns : list nat) (es : list (edge R)) (dt : R) (V U vtn ctn : nat -> nat -> R) (E0 eps : R),
  (1 <= length ps)%nat -> (forall b, (1 <= b)%nat -> (b < length ps)%nat -> (nth b ps 0 < b)%nat) ->
  (forall b, (b < length ps)%nat -> (1 <= nth b ns 0)%nat) ->
  map strip es = triples_of ps ns ->
  0 < dt -> (forall e, In e es -> 0 < e_g R e) -> (forall n i, (i < total ps ns)%nat -> 0 <= vtn n i) ->
  let ly := layout_of ps ns in let mask := nthD (mask_of ps ns) in let N := total ps ns in
  (forall n c, (c < N)%nat ->
     V (S n) c = sv (run R Rplus Rminus Rmult Rdiv 0 1 ly (ops_of_tree ps ns)
                       (assemble R Rplus Rminus Rmult 0 1 mask N es (V n) (vtn n) (ctn n) dt (group_of ps) (child_inds_of ps) (par_inds_of ps))) (mask c)) ->
  0 <= E0 -> 0 <= eps ->
  (forall c, (c < N)%nat -> Rabs (V 0%nat c - U 0%nat c) <= E0) ->
  (forall n c, (c < N)%nat -> Rabs (residual N es dt (U n) (U (S n)) (vtn n) (ctn n) c) <= eps) ->
  forall n c, (c < N)%nat -> Rabs (V n c - U n c) <= E0 + INR n * (dt * eps).
Proof. exact cell_error_against_any_reference. Qed.

Theorem C15_error_against_any_reference_for_every_network :
  forall (ps ns : list nat) (rs : list bool) (es : list (edge R)) (dt : R) (V U vtn ctn : nat -> nat -> R) (E0 eps : R),
  (1 <= length ps)%nat -> (forall b, (b < length ps)%nat -> is_root rs b = false -> (nth b ps 0 < b)%nat) ->
  (forall b, (b < length ps)%nat -> (1 <= nth b ns 0)%nat) ->
  map strip es = triples_ofF ps ns rs ->
  0 < dt -> (forall e, In e es -> 0 < e_g R e) -> (forall n i, (i < total ps ns)%nat -> 0 <= vtn n i) ->
  let ly := layout_ofF ps ns rs in let mask := nthD (mask_ofF ps ns rs) in let N := total ps ns in
  (forall n c, (c < N)%nat ->
     V (S n) c = sv (run R Rplus Rminus Rmult Rdiv 0 1 ly (ops_of_forest ps ns rs)
                       (assemble R Rplus Rminus Rmult 0 1 mask N es (V n) (vtn n) (ctn n) dt (group_ofF ps rs) (child_inds_ofF ps rs) (par_inds_ofF ps rs))) (mask c)) ->
  0 <= E0 -> 0 <= eps ->
  (forall c, (c < N)%nat -> Rabs (V 0%nat c - U 0%nat c) <= E0) ->
  (forall n c, (c < N)%nat -> Rabs (residual N es dt (U n) (U (S n)) (vtn n) (ctn n) c) <= eps) ->
  forall n c, (c < N)%nat -> Rabs (V n c - U n c) <= E0 + INR n * (dt * eps).
Proof. exact network_error_against_any_reference. Qed.

(* non-vacuity: a one-compartment cell; the trivial reference U = V has residual-free steps only if it IS the
   simulation - here the hypotheses on the structure: parents [-1], one compartment, no edges *)
Example C15_stability_nonvacuous :
  (1 <= length [0%nat])%nat /\ (forall b, (b < length [0%nat])%nat -> (1 <= nth b [1%nat] 0%nat)%nat) /\
  triples_of [0%nat] [1%nat] = [] /\ total [0%nat] [1%nat] = 1%nat.
Proof. split; [cbn; lia|]. split; [intros b Hb; cbn in Hb; assert (b = 0%nat) by lia; subst; cbn; lia|]. split; vm_compute; reflexivity. Qed.
