(* C15 — simulations converge to cable theory at the expected order (PARTIAL).
   Proved: the units (steady state and time constant of a single compartment, from the
   traced Leak current and stimulus conversion), the exact amplification factors of the
   backward-Euler and Crank-Nicolson steps, and explicit global error bounds of first order
   (backward Euler, all x = dt/tau >= 0) and second order (Crank-Nicolson, 1e-3 <= dt/tau <= 1)
   against exp(-t/tau).  The second-order convergence in compartment length is TESTED on
   refinement ladders against the analytic input resistance of a sealed cable. *)
From Coq Require Import Reals.
From JV Require Import Prim RLemmas GCellUtils GChannels CableConservation ConvergenceFacts.
Local Open Scope R_scope.

(* one implicit step of a passive compartment contracts the distance to
   v_inf = E + 100 I / (g * 2 pi r l)  by  1/(1 + dt/tau),  tau = cm/(1000 g):
   this fixes mV, nA, S/cm2, um, uF/cm2, ms *)
Theorem C15_units_single_compartment : forall v dt g E cm I r l,
  0 < dt -> 0 < g -> 0 < cm -> 0 < r -> 0 < l ->
  rc_step v dt g E cm I r l - rc_vinf g E I r l = (v - rc_vinf g E I r l) / (1 + dt / rc_tau g cm) /\
  rc_step (rc_vinf g E I r l) dt g E cm I r l = rc_vinf g E I r l.
Proof. intros; split; [apply rc_step_contracts | apply rc_steady_state]; assumption. Qed.

(* backward Euler: after n steps of size x = dt/tau the relaxation factor differs from the
   exact exp(-n x) by at most n x^2  (= T dt / tau^2 at time T: first order) *)
Theorem C15_bwd_euler_first_order : forall x n, 0 <= x ->
  Rabs ((/ (1 + x)) ^ n - exp (- (INR n * x))) <= INR n * x ^ 2.
Proof. exact bwd_first_order. Qed.

(* Crank-Nicolson (2 * implicit half step - v) has amplification (1 - x/2)/(1 + x/2) and
   differs from exp(-n x) by at most n x^3 / 6  (= T dt^2 / (6 tau^3): second order) *)
Theorem C15_crank_nicolson_amplification : forall x, 0 <= x ->
  2 * (/ (1 + x / 2)) - 1 = (1 - x / 2) / (1 + x / 2).
Proof. exact cn_amplification. Qed.
Theorem C15_crank_nicolson_second_order : forall x n, 1 / 1000 <= x <= 1 ->
  Rabs (((1 - x / 2) / (1 + x / 2)) ^ n - exp (- (INR n * x))) <= INR n * (x ^ 3 / 6).
Proof. exact cn_second_order. Qed.

Example C15_nonvacuous : 1 / 1000 <= 1 / 40 <= 1.
Proof. exact c15_example. Qed.
