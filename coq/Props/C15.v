(* C15 — simulations converge to cable theory at the expected order (PARTIAL).
   Proved: the units (steady state and time constant of a single compartment, from the
   traced Leak current and stimulus conversion), the exact amplification factors of the
   backward-Euler and Crank-Nicolson steps, and explicit global error bounds of first order
   (backward Euler, all x = dt/tau >= 0) and second order (Crank-Nicolson, 1e-3 <= dt/tau <= 1)
   against exp(-t/tau); the spatial CONSISTENCY of the axial term of a uniform cable (second
   order, with the coupling conductance traced from the code and kappa = 1e7 r / (2 r_a)).  The
   second-order CONVERGENCE of the solutions in compartment length is TESTED on refinement
   ladders against the analytic input / transfer resistance of a sealed cable. *)
From Coq Require Import Reals.
From Coquelicot Require Import Coquelicot.
From JV Require Import Prim RLemmas GCellUtils GChannels CableConservation ConvergenceFacts SpatialConsistency.
Local Open Scope R_scope.

(* one implicit step of a passive compartment contracts the distance to
   v_inf = E + 100 I / (g * 2 pi r l)  by  1/(1 + dt/tau),  tau = cm/(1000 g):
   this fixes mV, nA, S/cm2, um, uF/cm2, ms *)
Theorem C15_units_single_compartment : forall v dt g E cm I r l,
  0 < dt -> 0 < g -> 0 < cm -> 0 < r -> 0 < l ->
  rc_step v dt g E cm I r l - rc_vinf g E I r l = (v - rc_vinf g E I r l) / (1 + dt / rc_tau g cm) /\
  rc_step (rc_vinf g E I r l) dt g E cm I r l = rc_vinf g E I r l.
Proof. intros; split; [apply rc_step_contracts | apply rc_steady_state]; assumption. Qed.

(* backward Euler: after n steps of size x = dt/tau the relaxation factor differs from the
   exact exp(-n x) by at most n x^2  (= T dt / tau^2 at time T: first order) *)
Theorem C15_bwd_euler_first_order : forall x n, 0 <= x ->
  Rabs ((/ (1 + x)) ^ n - exp (- (INR n * x))) <= INR n * x ^ 2.
Proof. exact bwd_first_order. Qed.

(* Crank-Nicolson (2 * implicit half step - v) has amplification (1 - x/2)/(1 + x/2) and
   differs from exp(-n x) by at most n x^3 / 6  (= T dt^2 / (6 tau^3): second order) *)
Theorem C15_crank_nicolson_amplification : forall x, 0 <= x ->
  2 * (/ (1 + x / 2)) - 1 = (1 - x / 2) / (1 + x / 2).
Proof. exact cn_amplification. Qed.
Theorem C15_crank_nicolson_second_order : forall x n, 1 / 1000 <= x <= 1 ->
  Rabs (((1 - x / 2) / (1 + x / 2)) ^ n - exp (- (INR n * x))) <= INR n * (x ^ 3 / 6).
Proof. exact cn_second_order. Qed.

(* spatial consistency: for equal compartments of length h the traced coupling conductance is
   kappa / h^2, and the axial term of the code applied to the samples of any four times
   differentiable V whose fourth derivative is bounded by M differs from kappa * V2 (V2 = second
   derivative) by at most kappa * M * h^2 / 12 *)
Theorem C15_uniform_coupling : forall r ra h, 0 < r -> 0 < ra -> 0 < h ->
  coupling_cond__g r r ra ra h h = kappa r ra / h ^ 2.
Proof. exact uniform_coupling. Qed.
Theorem C15_axial_term_second_order_consistent : forall f x r ra h M,
  0 < r -> 0 < ra -> 0 < h -> smooth4 f -> (forall t, Rabs (Derive_n f 4 t) <= M) ->
  Rabs (coupling_cond__g r r ra ra h h * (f (x + h) - f x) + coupling_cond__g r r ra ra h h * (f (x - h) - f x)
        - kappa r ra * Derive_n f 2 x) <= kappa r ra * (M * h ^ 2 / 12).
Proof. exact axial_term_consistent. Qed.

Example C15_nonvacuous : 1 / 1000 <= 1 / 40 <= 1.
Proof. exact c15_example. Qed.
