(* C01 — every voltage step is the exact solution of the discretised cable equation.
   Statements only.  Model: Model/TreeSolve.v (Hines elimination by recursion on the tree),
   Model/Cable.v (assembly of the cable system of a cell; schemes).  The conductance
   formulas G*.X are regenerated from /repo on every run. *)
From Coq Require Import Reals List Lia Lra.
From JV Require Import Prim TreeSolve TreeSolveFacts Cable GCellUtils CableFacts HinesArr HinesCheck HinesArrFacts HinesIdx HinesTreeFacts HinesIdxFacts HinesArrPositive AsmStruct AssembleM AssembleTotal AsmIdx AsmIdxFacts AssembleGraph AsmGraphFacts EdgeCond EdgeCondFacts GraphStruct GraphStructFacts HinesForestFacts HinesIdxF HinesIdxFFacts AsmIdxF AsmIdxFFacts AsmGraphFFacts ForestPhysical GraphCN CNFacts GraphMax SparseAsm SparseFacts SparseInst SparseDense SparseDenseInst.
Import ListNotations.
Local Open Scope R_scope.

(* the elimination is sound: whenever no pivot is zero, the back-substituted vector
   satisfies EVERY equation of the tree-structured system (any tree, any size) *)
Theorem C01_tree_solve_sound : forall (t : tree R) (xp : R),
  pivots_nonzero t -> satisfies t xp (backsub R Rminus Rmult Rdiv t xp).
Proof. exact backsub_sound. Qed.

(* ... and complete: any vector satisfying every equation is the computed one *)
Theorem C01_tree_solve_complete : forall (t : tree R) (xp : R) (s : sol R),
  pivots_nonzero t -> satisfies t xp s -> s = backsub R Rminus Rmult Rdiv t xp.
Proof. exact backsub_complete. Qed.

(* for rows with non-positive off-diagonals and (weak) diagonal dominance every pivot is
   strictly positive *)
Theorem C01_pivots_positive : forall t : tree R, dominant t ->
  t_d t + lsum (t_children t) <= fst (reduce R Rminus Rmult Rdiv t) /\
  Forall (fun p => 0 < p) (pivots R Rminus Rmult Rdiv t).
Proof. exact pivots_positive. Qed.

(* the headline: for EVERY sorted parent vector, EVERY compartment-count vector >= 1,
   ALL positive radius / length / axial resistivity / capacitance, non-negative membrane
   conductance and EVERY dt > 0, the assembled backward-Euler system of the cell is
   dominant, the implicit step meets no zero pivot, its result satisfies every equation
   (compartments and Kirchhoff branch points) and is the ONLY vector that does *)
Theorem C01_cable_step_is_the_unique_solution :
  forall dt parents (branches : list (list (comp R))),
    0 < dt -> well_formed branches -> length parents = length branches -> sorted parents ->
    (0 < length branches)%nat ->
    let t := root_tree R Rplus Rminus Rmult Rdiv IZR parents branches dt in
    dominant t /\
    satisfies t 0 (backsub R Rminus Rmult Rdiv t 0) /\
    (forall s, satisfies t 0 s -> s = backsub R Rminus Rmult Rdiv t 0).
Proof. exact cable_unique_solution. Qed.

(* the coefficients of the model are the conductance formulas traced from the code *)
Theorem C01_model_uses_traced_conductances : forall snk src c : comp R,
  c2c snk src = coupling_cond__g (c_r R snk) (c_r R src) (c_ra R snk) (c_ra R src) (c_l R snk) (c_l R src) / c_cm R snk /\
  bp2c c = coupling_cond_branchpoint__g (c_r R c) (c_ra R c) (c_l R c) / c_cm R c /\
  wbp c = impact_on_node__g (c_r R c) (c_ra R c) (c_l R c) * 1000.
Proof. intros; split; [apply c2c_is_traced | split; [apply bp2c_is_traced | apply wbp_is_traced]]. Qed.

(* ... and those are the physical ones: absolute axial conductance between compartment
   centres per membrane area (x 1e7 for the units), Kirchhoff weights proportional to the
   absolute conductances with one common factor *)
Theorem C01_conductances_are_physical : forall r1 r2 ra1 ra2 l1 l2,
  0 < r1 -> 0 < r2 -> 0 < ra1 -> 0 < ra2 -> 0 < l1 -> 0 < l2 ->
  coupling_cond__g r1 r2 ra1 ra2 l1 l2 * area r1 l1 = 10 ^ 7 * (1 / (half_res r1 ra1 l1 + half_res r2 ra2 l2)) /\
  coupling_cond_branchpoint__g r1 ra1 l1 * area r1 l1 = 10 ^ 7 * (1 / half_res r1 ra1 l1) /\
  impact_on_node__g r1 ra1 l1 = (1 / (2 * PI)) * (1 / half_res r1 ra1 l1).
Proof.
  intros. split; [apply coupling_cond_physical; assumption|].
  split; [apply coupling_cond_branchpoint_physical | apply impact_on_node_physical]; assumption.
Qed.

(* non-vacuity: the 5-branch tree [-1,0,0,1,1] with counts [2,1,3,2,2] and unit-ish
   parameters satisfies every hypothesis of the headline theorem *)
Example C01_nonvacuous :
  let c := mkcomp R 1 10 5000 1 (-70) (1/10) (-7) in
  let branches := [[c; c]; [c]; [c; c; c]; [c; c]; [c; c]] in
  well_formed branches /\ sorted [0; 0; 0; 1; 1]%nat /\ length [0; 0; 0; 1; 1]%nat = length branches.
Proof. exact c01_example. Qed.

(* ---- the array level: jaxley/solver_voltage.py as written (flat padded arrays, levels,
   tridiax' normalising Thomas variant), Model/HinesArr.v.  If the verified checker accepts
   the schedule that an index structure induces and no operation divides by zero, then for
   ALL contents of the arrays the solves array after triangulation and back-substitution
   is a solution of the linear system the arrays represented before, and every solution
   of that system coincides with it on every (real or padded) compartment slot.  The
   checker is evaluated on the index structure of every sampled module in every run. *)
Theorem C01_array_solver_correct : forall (ly : layout) (tp : topo) (ops : list op) (s0 : store R),
  check_schedule ly tp ops = true ->
  Forall (fun d => d <> 0) (divisors R Rplus Rminus Rmult Rdiv 0 1 ly ops s0) ->
  (forall j, (j < nbp tp)%nat -> bd (run R Rplus Rminus Rmult Rdiv 0 1 ly ops s0) j <> 0) ->
  let out := sv (run R Rplus Rminus Rmult Rdiv 0 1 ly ops s0) in
  (exists y, sat ly tp s0 out y) /\
  (forall x y, sat ly tp s0 x y ->
     forall b k, (b < nb tp)%nat -> (k < pl ly b)%nat -> x (cs ly b + k)%nat = out (cs ly b + k)%nat).
Proof. exact arr_solve_correct. Qed.

(* non-vacuity: the checker accepts the index structure jaxley builds for the cell
   parents [-1,0,0,1], compartments [2,1,3,2] (branch 1 is padded from 1 to 3 slots) ... *)
Example C01_array_checker_accepts :
  check_idx 4 2 [None; Some 0; Some 0; Some 1]%nat [Some 0; Some 1; None; None]%nat [[1; 2]; [3]]%nat [0; 1]%nat
            [0; 2; 5; 8]%nat [2; 3; 3; 2]%nat [2; 1; 3; 2]%nat
            [([(1, 0); (2, 0)], [(0, 0)]); ([(3, 1)], [(1, 1)])]%nat [0]%nat = true.
Proof. vm_compute. reflexivity. Qed.

(* ... and it is not trivial: the same structure with the levels processed in the wrong
   order, or with a branch point that is never eliminated from its parent's last row, is
   rejected *)
Example C01_array_checker_rejects :
  check_idx 4 2 [None; Some 0; Some 0; Some 1]%nat [Some 0; Some 1; None; None]%nat [[1; 2]; [3]]%nat [0; 1]%nat
            [0; 2; 5; 8]%nat [2; 3; 3; 2]%nat [2; 1; 3; 2]%nat
            [([(3, 1)], [(1, 1)]); ([(1, 0); (2, 0)], [(0, 0)])]%nat [0]%nat = false /\
  check_idx 4 2 [None; Some 0; Some 0; Some 1]%nat [Some 0; Some 1; None; None]%nat [[1; 2]; [3]]%nat [0; 1]%nat
            [0; 2; 5; 8]%nat [2; 3; 3; 2]%nat [2; 1; 3; 2]%nat
            [([(1, 0); (2, 0)], [(0, 0)]); ([(3, 1)], [])]%nat [0]%nat = false.
Proof. vm_compute. split; reflexivity. Qed.

(* ---- every cell.  Model/HinesIdx.v computes, from a parent vector and the compartment counts,
   the index structure jaxley builds (levels, children / parents per level, per-level padding,
   padded cumulative counts, branch-point numbering); it is compared EXACTLY with the running
   code's JaxleySolveIndexer on every sampled cell.  For EVERY sorted parent vector and all
   counts >= 1 the schedule checker accepts it (axiom-free, by induction over the levels) ... *)
Theorem C01_checker_accepts_every_cell : forall ps ns : list nat,
  (1 <= length ps)%nat -> (forall b, (1 <= b)%nat -> (b < length ps)%nat -> (nth b ps 0 < b)%nat) ->
  (forall b, (b < length ps)%nat -> (1 <= nth b ns 0)%nat) ->
  check_schedule (layout_of ps ns) (topo_of ps) (ops_of_tree ps ns) = true.
Proof. exact tree_accepted. Qed.

(* ... hence, for EVERY cell and ALL contents of the arrays, the level-ordered, padded
   triangulation and back-substitution of solver_voltage.py returns the unique solution of
   the system the arrays represent (no per-instance check left; the only hypotheses are that
   no operation divides by zero) *)
Theorem C01_array_solver_correct_for_every_cell : forall (ps ns : list nat) (s0 : store R),
  (1 <= length ps)%nat -> (forall b, (1 <= b)%nat -> (b < length ps)%nat -> (nth b ps 0 < b)%nat) ->
  (forall b, (b < length ps)%nat -> (1 <= nth b ns 0)%nat) ->
  let ly := layout_of ps ns in let tp := topo_of ps in let ops := ops_of_tree ps ns in
  Forall (fun d => d <> 0) (divisors R Rplus Rminus Rmult Rdiv 0 1 ly ops s0) ->
  (forall j, (j < nbp tp)%nat -> bd (run R Rplus Rminus Rmult Rdiv 0 1 ly ops s0) j <> 0) ->
  let out := sv (run R Rplus Rminus Rmult Rdiv 0 1 ly ops s0) in
  (exists y, sat ly tp s0 out y) /\
  (forall x y, sat ly tp s0 x y ->
     forall b k, (b < length ps)%nat -> (k < pl ly b)%nat -> x (cs ly b + k)%nat = out (cs ly b + k)%nat).
Proof.
  intros ps ns s0 H1 H2 H3 ly tp ops D B. apply (arr_solve_correct ly tp ops s0); [apply tree_accepted; assumption | exact D | exact B].
Qed.

(* ... and those hypotheses follow from the sign structure of the system: if in every
   compartment row the off-diagonal entries are <= 0 and the diagonal exceeds their total
   magnitude, and in every (negated) branch-point row the weights are >= 0, sum to at most
   -diagonal and the parent's weight is strictly below -diagonal (what the assembly produces
   for positive conductances; evaluated on every sampled store), then no operation divides by
   zero.  For EVERY cell and EVERY such store the solver returns THE solution. *)
Theorem C01_array_solver_total : forall (ps ns : list nat) (s0 : store R),
  (1 <= length ps)%nat -> (forall b, (1 <= b)%nat -> (b < length ps)%nat -> (nth b ps 0 < b)%nat) ->
  (forall b, (b < length ps)%nat -> (1 <= nth b ns 0)%nat) ->
  let ly := layout_of ps ns in let tp := topo_of ps in let ops := ops_of_tree ps ns in
  Mstore ly tp s0 ->
  let out := sv (run R Rplus Rminus Rmult Rdiv 0 1 ly ops s0) in
  (exists y, sat ly tp s0 out y) /\
  (forall x y, sat ly tp s0 x y ->
     forall b k, (b < length ps)%nat -> (k < pl ly b)%nat -> x (cs ly b + k)%nat = out (cs ly b + k)%nat).
Proof.
  intros ps ns s0 H1 H2 H3 ly tp ops M.
  pose proof (tree_accepted ps ns H1 H2 H3) as A.
  destruct (no_zero_divisor ly tp (idx_wf ps ns H1 H2 H3) ops s0 A M) as [D B].
  apply (arr_solve_correct ly tp ops s0 A D B).
Qed.

(* ... and the ASSEMBLY (first half of step_voltage_implicit_with_jaxley_spsolve, Model/HinesArr.assemble) does
   produce such a store: if the index lists the code hands to it are consistent with layout and topology
   (asm_struct_b: a decidable condition on integers only, evaluated on the code's own arrays for every sampled
   module) then for ALL positive conductances, all non-negative membrane terms and every dt > 0 the assembled
   store is M-matrix-like. *)
Theorem C01_assembly_is_M_matrix_like : forall (ly : layout) (tp : topo) (mask : nat -> nat) (ncomp : nat)
    (es : list (edge R)) (v vt ct : nat -> R) (dt : R) (group child_inds par_inds : list nat),
  wf ly tp -> asm_struct_b ly tp mask (map strip es) group child_inds par_inds = true ->
  0 < dt -> (forall e, In e es -> 0 < e_g R e) -> (forall i, (i < ncomp)%nat -> 0 <= vt i) ->
  Mstore ly tp (assemble R Rplus Rminus Rmult 0 1 mask ncomp es v vt ct dt group child_inds par_inds).
Proof.
  intros ly tp mask ncomp es v vt ct dt group child_inds par_inds W A Hdt Hg Hvt.
  exact (assembled_Mstore ly tp W mask ncomp es v vt ct dt group child_inds par_inds (asm_struct_b_sound _ _ _ _ _ _ _ A) Hdt Hg Hvt).
Qed.

(* The whole implicit step of an accepted structure, with NO numeric side condition: for all positive
   conductances, non-negative membrane terms, all voltages and every dt > 0, no divisor vanishes and the
   output is THE solution of the assembled system. *)
Theorem C01_implicit_step_total : forall (ly : layout) (tp : topo) (ops : list op)
    (mask : nat -> nat) (ncomp : nat) (es : list (edge R)) (v vt ct : nat -> R) (dt : R)
    (group child_inds par_inds : list nat),
  check_schedule ly tp ops = true ->
  asm_struct_b ly tp mask (map strip es) group child_inds par_inds = true ->
  0 < dt -> (forall e, In e es -> 0 < e_g R e) -> (forall i, (i < ncomp)%nat -> 0 <= vt i) ->
  let s0 := assemble R Rplus Rminus Rmult 0 1 mask ncomp es v vt ct dt group child_inds par_inds in
  let out := sv (run R Rplus Rminus Rmult Rdiv 0 1 ly ops s0) in
  Forall (fun d => d <> 0) (divisors R Rplus Rminus Rmult Rdiv 0 1 ly ops s0) /\
  (exists y, sat ly tp s0 out y) /\
  (forall x y, sat ly tp s0 x y -> forall b k, (b < nb tp)%nat -> (k < pl ly b)%nat -> x (cs ly b + k)%nat = out (cs ly b + k)%nat).
Proof. exact assembled_step_total. Qed.

(* ... and for a CELL the index lists are functions of the parent vector and the counts (Model/AsmIdx.v, compared
   exactly with the code's comp_edges / branchpoint groups / child_inds / par_inds / slot remapping on every sampled
   cell) and satisfy the consistency conditions for EVERY cell (Proofs/AsmIdxFacts.v).  Hence, with no side
   condition left: for every sorted parent vector, all compartment counts >= 1, all positive conductances, all
   non-negative membrane terms, all voltages and constant terms and every dt > 0, the level-ordered padded
   elimination of the assembled arrays divides by nothing that vanishes and returns THE solution of the assembled
   system. *)
Theorem C01_implicit_step_of_every_cell_total : forall (ps ns : list nat) (es : list (edge R)) (v vt ct : nat -> R) (dt : R),
  (1 <= length ps)%nat -> (forall b, (1 <= b)%nat -> (b < length ps)%nat -> (nth b ps 0 < b)%nat) ->
  (forall b, (b < length ps)%nat -> (1 <= nth b ns 0)%nat) ->
  map strip es = triples_of ps ns ->
  0 < dt -> (forall e, In e es -> 0 < e_g R e) -> (forall i, (i < total ps ns)%nat -> 0 <= vt i) ->
  let ly := layout_of ps ns in let tp := topo_of ps in let ops := ops_of_tree ps ns in
  let s0 := assemble R Rplus Rminus Rmult 0 1 (nthD (mask_of ps ns)) (total ps ns) es v vt ct dt
                     (group_of ps) (child_inds_of ps) (par_inds_of ps) in
  let out := sv (run R Rplus Rminus Rmult Rdiv 0 1 ly ops s0) in
  Forall (fun d => d <> 0) (divisors R Rplus Rminus Rmult Rdiv 0 1 ly ops s0) /\
  (exists y, sat ly tp s0 out y) /\
  (forall x y, sat ly tp s0 x y -> forall b k, (b < length ps)%nat -> (k < pl ly b)%nat -> x (cs ly b + k)%nat = out (cs ly b + k)%nat).
Proof. exact cell_step_total. Qed.

(* ... and WHICH system that is: the backward-Euler equations of the conductance graph of the cell.  With
   z = out on the slots of the compartments and y on the branch points (graph_eq, Proofs/AssembleGraph.v):
     compartment c :  z_c (1 + dt vt_c) + dt * sum_{e into c, type <= 2} g_e (z_c - z_{source e}) = v_c + dt ct_c
     branch point j:  sum_{e into j, type 3 or 4} g_e (z_{source e} - y_j) = 0
     padded slots  :  0
   For EVERY cell, all positive conductances, non-negative membrane terms, all voltages and every dt > 0 the output
   of the implicit step satisfies these equations and every solution of them coincides with it.  (The edge table is
   the code's comp_edges, compared exactly; the conductances g_e are what compute_axial_conductances puts on the
   edges - Layer G identifies them with the physical coupling conductances; vt and ct are the linearised membrane
   terms divided by the capacitance.) *)
Theorem C01_every_cell_step_solves_the_cable_graph_equations :
  forall (ps ns : list nat) (es : list (edge R)) (v vt ct : nat -> R) (dt : R),
  (1 <= length ps)%nat -> (forall b, (1 <= b)%nat -> (b < length ps)%nat -> (nth b ps 0 < b)%nat) ->
  (forall b, (b < length ps)%nat -> (1 <= nth b ns 0)%nat) ->
  map strip es = triples_of ps ns ->
  0 < dt -> (forall e, In e es -> 0 < e_g R e) -> (forall i, (i < total ps ns)%nat -> 0 <= vt i) ->
  let ly := layout_of ps ns in let tp := topo_of ps in let ops := ops_of_tree ps ns in
  let mask := nthD (mask_of ps ns) in let n := total ps ns in
  let s0 := assemble R Rplus Rminus Rmult 0 1 mask n es v vt ct dt (group_of ps) (child_inds_of ps) (par_inds_of ps) in
  let out := sv (run R Rplus Rminus Rmult Rdiv 0 1 ly ops s0) in
  (exists y, graph_eq ly tp mask n es v vt ct dt out y) /\
  (forall x y, graph_eq ly tp mask n es v vt ct dt x y ->
     forall b k, (b < length ps)%nat -> (k < pl ly b)%nat -> x (cs ly b + k)%nat = out (cs ly b + k)%nat).
Proof. exact cell_step_solves_the_graph_equations. Qed.

(* ... in the physical parameters: Model/EdgeCond.v is compute_axial_conductances (compared with the code on every
   sampled module); its conductances are the traced Layer-G formulas of the right pair of compartments
   (C01_edge_conductances_are_the_traced_formulas), positive for positive parameters, and the coupling of two
   neighbouring compartments is ONE physical conductance seen from either side.  For EVERY cell, all positive radii,
   lengths, axial resistivities and capacitances, non-negative membrane conductances and every dt > 0: *)
Theorem C01_every_cell_step_in_physical_parameters :
  forall (ps ns : list nat) (rad len ra cm v vt ct : nat -> R) (dt : R),
  (1 <= length ps)%nat -> (forall b, (1 <= b)%nat -> (b < length ps)%nat -> (nth b ps 0 < b)%nat) ->
  (forall b, (b < length ps)%nat -> (1 <= nth b ns 0)%nat) ->
  (forall c, 0 < rad c /\ 0 < len c /\ 0 < ra c /\ 0 < cm c) ->
  0 < dt -> (forall i, (i < total ps ns)%nat -> 0 <= vt i) ->
  let es := cell_edges ps ns rad len ra cm in
  let ly := layout_of ps ns in let tp := topo_of ps in
  let mask := nthD (mask_of ps ns) in let n := total ps ns in
  let s0 := assemble R Rplus Rminus Rmult 0 1 mask n es v vt ct dt (group_of ps) (child_inds_of ps) (par_inds_of ps) in
  let out := sv (run R Rplus Rminus Rmult Rdiv 0 1 ly (ops_of_tree ps ns) s0) in
  (exists y, graph_eq ly tp mask n es v vt ct dt out y) /\
  (forall x y, graph_eq ly tp mask n es v vt ct dt x y ->
     forall b k, (b < length ps)%nat -> (k < pl ly b)%nat -> x (cs ly b + k)%nat = out (cs ly b + k)%nat).
Proof. exact cell_step_physical. Qed.

Theorem C01_edge_conductances_are_the_traced_formulas : forall (rad len ra cm : nat -> R) (snk src : nat),
  cond0 R Rplus Rmult Rdiv 10000000 rad len ra cm snk src
    = coupling_cond__g (rad snk) (rad src) (ra snk) (ra src) (len snk) (len src) / cm snk /\
  cond12 R Rmult Rdiv 10000000 rad len ra cm snk = coupling_cond_branchpoint__g (rad snk) (ra snk) (len snk) / cm snk /\
  cond34 R Rmult Rdiv 1000 rad len ra src = impact_on_node__g (rad src) (ra src) (len src) * 1000.
Proof. intros. split; [apply cond0_is_traced | split; [apply cond12_is_traced | apply cond34_is_traced]]. Qed.

Theorem C01_coupling_is_reciprocal : forall (rad len ra cm : nat -> R),
  (forall c, 0 < rad c /\ 0 < len c /\ 0 < ra c /\ 0 < cm c) -> forall a b,
  cond0 R Rplus Rmult Rdiv 10000000 rad len ra cm a b * (cm a * area (rad a) (len a))
  = cond0 R Rplus Rmult Rdiv 10000000 rad len ra cm b a * (cm b * area (rad b) (len b)).
Proof. exact cond0_reciprocal. Qed.

(* the same identification for any structure that passes the (decidable) consistency conditions, e.g. a network:
   the system represented by the assembled arrays IS the graph system *)
Theorem C01_assembled_system_is_the_graph_system :
  forall (ly : layout) (tp : topo), wf ly tp ->
  forall (mask : nat -> nat) (ncomp : nat) (es : list (edge R)) (v vt ct : nat -> R) (dt : R) (group child_inds par_inds : list nat),
  graph_struct ly tp mask ncomp es group child_inds par_inds ->
  graph_struct_bp ly mask ncomp es group child_inds par_inds ->
  (forall c, (c < ncomp)%nat -> exists b r, (b < nb tp)%nat /\ (r < nc ly b)%nat /\ mask c = (cs ly b + r)%nat) ->
  (forall b r, (b < nb tp)%nat -> (r < nc ly b)%nat -> exists c, (c < ncomp)%nat /\ mask c = (cs ly b + r)%nat) ->
  forall x y, sat ly tp (assemble R Rplus Rminus Rmult 0 1 mask ncomp es v vt ct dt group child_inds par_inds) x y
              <-> graph_eq ly tp mask ncomp es v vt ct dt x y.
Proof. exact sat_iff_graph. Qed.

(* ... and for any structure - e.g. a NETWORK - whose integer arrays pass the verified schedule checker and the two
   decidable consistency checks (all three evaluated by the harness on the arrays the code built): for all positive
   conductances, non-negative membrane terms and every dt > 0 the step returns the unique solution of the graph
   equations.  (For cells the three checks are theorems; for networks they are evaluated per sampled structure.) *)
Theorem C01_accepted_structure_step_solves_the_graph_equations :
  forall (ly : layout) (tp : topo) (ops : list op) (mask : nat -> nat) (ncomp : nat) (es : list (edge R))
         (v vt ct : nat -> R) (dt : R) (group child_inds par_inds : list nat),
  check_schedule ly tp ops = true ->
  asm_struct_b ly tp mask (map strip es) group child_inds par_inds = true ->
  graph_struct_b ly tp mask ncomp (map strip es) group child_inds par_inds = true ->
  0 < dt -> (forall e, In e es -> 0 < e_g R e) -> (forall i, (i < ncomp)%nat -> 0 <= vt i) ->
  let s0 := assemble R Rplus Rminus Rmult 0 1 mask ncomp es v vt ct dt group child_inds par_inds in
  let out := sv (run R Rplus Rminus Rmult Rdiv 0 1 ly ops s0) in
  (exists y, graph_eq ly tp mask ncomp es v vt ct dt out y) /\
  (forall x y, graph_eq ly tp mask ncomp es v vt ct dt x y ->
     forall b k, (b < nb tp)%nat -> (k < pl ly b)%nat -> x (cs ly b + k)%nat = out (cs ly b + k)%nat).
Proof. exact accepted_structure_step_solves_the_graph_equations. Qed.

(* non-vacuity of its hypotheses: the edge table of the example cell with unit conductances *)
Example C01_cell_edges_example :
  let es := map (fun t : trip => mkedge (fst (fst t)) (snd (fst t)) (snd t) 1) (triples_of [0; 0; 0; 1]%nat [2; 1; 3; 2]%nat) in
  map strip es = triples_of [0; 0; 0; 1]%nat [2; 1; 3; 2]%nat /\ length es = 18%nat /\ (forall e, In e es -> 0 < e_g R e).
Proof.
  cbv zeta. split; [|split].
  - rewrite map_map. rewrite <- (map_id (triples_of _ _)) at 2. apply map_ext. intros [[a b] c]. reflexivity.
  - rewrite map_length. vm_compute. reflexivity.
  - intros e He. apply in_map_iff in He. destruct He as (t & <- & _). cbn. lra.
Qed.

(* non-vacuity: the index structure of the cell parents [-1,0,0,1], compartments [2,1,3,2] *)
Example C01_idx_example :
  idx_summary [0; 0; 0; 1]%nat [2; 1; 3; 2]%nat
  = ([0; 2; 5; 8; 10]%nat, ([2; 3; 3; 2]%nat, [([(1, 0); (2, 0)], [(0, 0)]); ([(3, 1)], [(1, 1)])]%nat)).
Proof. vm_compute. reflexivity. Qed.

(* non-vacuity of the sign hypothesis: a one-compartment cell with diagonal 1 *)
Example C01_mstore_example :
  let z := fun _ : nat => 0 in
  Mstore (layout_of [0]%nat [1]%nat) (topo_of [0]%nat) (mkstore (fun _ => 1) z z z z z z z z z).
Proof.
  split.
  - intros b k Hb Hk. cbn in Hb, Hk. assert (b = 0%nat) by lia. assert (k = 0%nat) by (subst; cbn in Hk; lia). subst.
    unfold rowdom, lo_c, up_c, cc_c, cp_c. cbn. repeat split; lra.
  - intros j Hj. cbn in Hj. lia.
Qed.

(* ================= NETWORKS (forests of cells) =================
   Model/HinesIdxF.v and Model/AsmIdxF.v give, as functions of the global parent vector, the root flags and the
   compartment counts, everything Network._init_morph_jaxley_spsolve / _init_morph_jax_spsolve build: per-cell
   padding, merged levels, root list, per-cell ordered edge table, branch-point groups, slot remapping.  The
   harness compares them EXACTLY with the running code on every sampled network. *)

(* the verified schedule checker accepts the merged schedule of EVERY network *)
Theorem C01_checker_accepts_every_network : forall (ps ns : list nat) (rs : list bool),
  (1 <= length ps)%nat -> (forall b, (b < length ps)%nat -> is_root rs b = false -> (nth b ps 0 < b)%nat) ->
  (forall b, (b < length ps)%nat -> (1 <= nth b ns 0)%nat) ->
  check_schedule (layout_ofF ps ns rs) (topo_ofF ps rs) (ops_of_forest ps ns rs) = true.
Proof. exact forest_accepted. Qed.

(* for EVERY network, every edge list whose integer part is the network's edge table, positive conductances,
   non-negative membrane terms, dt > 0: no zero divisor, and the output is THE solution of the backward-Euler
   equations of the network's conductance graph *)
Theorem C01_every_network_step_solves_the_cable_graph_equations :
  forall (ps ns : list nat) (rs : list bool) (es : list (edge R)) (v vt ct : nat -> R) (dt : R),
  (1 <= length ps)%nat -> (forall b, (b < length ps)%nat -> is_root rs b = false -> (nth b ps 0 < b)%nat) ->
  (forall b, (b < length ps)%nat -> (1 <= nth b ns 0)%nat) ->
  map strip es = triples_ofF ps ns rs ->
  0 < dt -> (forall e, In e es -> 0 < e_g R e) -> (forall i, (i < total ps ns)%nat -> 0 <= vt i) ->
  let ly := layout_ofF ps ns rs in let tp := topo_ofF ps rs in let ops := ops_of_forest ps ns rs in
  let mask := nthD (mask_ofF ps ns rs) in let n := total ps ns in
  let s0 := assemble R Rplus Rminus Rmult 0 1 mask n es v vt ct dt (group_ofF ps rs) (child_inds_ofF ps rs) (par_inds_ofF ps rs) in
  let out := sv (run R Rplus Rminus Rmult Rdiv 0 1 ly ops s0) in
  (exists y, graph_eq ly tp mask n es v vt ct dt out y) /\
  (forall x y, graph_eq ly tp mask n es v vt ct dt x y ->
     forall b k, (b < length ps)%nat -> (k < pl ly b)%nat -> x (cs ly b + k)%nat = out (cs ly b + k)%nat).
Proof. exact forest_step_solves_the_graph_equations. Qed.

Theorem C01_implicit_step_of_every_network_total :
  forall (ps ns : list nat) (rs : list bool) (es : list (edge R)) (v vt ct : nat -> R) (dt : R),
  (1 <= length ps)%nat -> (forall b, (b < length ps)%nat -> is_root rs b = false -> (nth b ps 0 < b)%nat) ->
  (forall b, (b < length ps)%nat -> (1 <= nth b ns 0)%nat) ->
  map strip es = triples_ofF ps ns rs ->
  0 < dt -> (forall e, In e es -> 0 < e_g R e) -> (forall i, (i < total ps ns)%nat -> 0 <= vt i) ->
  let ly := layout_ofF ps ns rs in let tp := topo_ofF ps rs in let ops := ops_of_forest ps ns rs in
  let s0 := assemble R Rplus Rminus Rmult 0 1 (nthD (mask_ofF ps ns rs)) (total ps ns) es v vt ct dt
                     (group_ofF ps rs) (child_inds_ofF ps rs) (par_inds_ofF ps rs) in
  let out := sv (run R Rplus Rminus Rmult Rdiv 0 1 ly ops s0) in
  Forall (fun d => d <> 0) (divisors R Rplus Rminus Rmult Rdiv 0 1 ly ops s0) /\
  (exists y, sat ly tp s0 out y) /\
  (forall x y, sat ly tp s0 x y -> forall b k, (b < length ps)%nat -> (k < pl ly b)%nat -> x (cs ly b + k)%nat = out (cs ly b + k)%nat).
Proof. exact forest_step_total. Qed.

(* ... and in the physical parameters (conductances of compute_axial_conductances on the network's edge table) *)
Theorem C01_every_network_step_in_physical_parameters :
  forall (ps ns : list nat) (rs : list bool) (rad len ra cm v vt ct : nat -> R) (dt : R),
  (1 <= length ps)%nat -> (forall b, (b < length ps)%nat -> is_root rs b = false -> (nth b ps 0 < b)%nat) ->
  (forall b, (b < length ps)%nat -> (1 <= nth b ns 0)%nat) ->
  (forall c, 0 < rad c /\ 0 < len c /\ 0 < ra c /\ 0 < cm c) ->
  0 < dt -> (forall i, (i < total ps ns)%nat -> 0 <= vt i) ->
  let es := forest_edges ps ns rs rad len ra cm in
  let ly := layout_ofF ps ns rs in let tp := topo_ofF ps rs in
  let mask := nthD (mask_ofF ps ns rs) in let n := total ps ns in
  let s0 := assemble R Rplus Rminus Rmult 0 1 mask n es v vt ct dt (group_ofF ps rs) (child_inds_ofF ps rs) (par_inds_ofF ps rs) in
  let out := sv (run R Rplus Rminus Rmult Rdiv 0 1 ly (ops_of_forest ps ns rs) s0) in
  (exists y, graph_eq ly tp mask n es v vt ct dt out y) /\
  (forall x y, graph_eq ly tp mask n es v vt ct dt x y ->
     forall b k, (b < length ps)%nat -> (k < pl ly b)%nat -> x (cs ly b + k)%nat = out (cs ly b + k)%nat).
Proof. exact forest_step_physical. Qed.

(* non-vacuity: the network of the cells parents [-1,0,0,1] / [-1,0] / [-1] with compartments [2,1,2,1] / [2,1] / [2]
   meets the hypotheses; its index structure (per-cell padding, merged levels, roots) and the size of its edge table *)
Example C01_network_example :
  let ps := [0; 0; 0; 1; 0; 4; 0]%nat in let ns := [2; 1; 2; 1; 2; 1; 2]%nat in
  let rs := [true; false; false; false; true; false; true] in
  (1 <= length ps)%nat /\ (forall b, (b < length ps)%nat -> is_root rs b = false -> (nth b ps 0 < b)%nat) /\
  (forall b, (b < length ps)%nat -> (1 <= nth b ns 0)%nat) /\
  idx_summaryF ps ns rs = ([0; 2; 4; 6; 7; 9; 10; 12]%nat, ([2; 2; 2; 1; 2; 1; 2]%nat,
     ([([(1, 0); (2, 0); (5, 2)], [(0, 0); (4, 2)]); ([(3, 1)], [(1, 1)])]%nat, [0; 4; 6]%nat))) /\
  length (triples_ofF ps ns rs) = 22%nat.
Proof.
  cbv zeta. split; [cbn; lia|]. split; [|split; [|split; vm_compute; reflexivity]].
  - intros b Hb. do 7 (destruct b as [|b]; [cbn; intros; try discriminate; lia|]). cbn in Hb. lia.
  - intros b Hb. do 7 (destruct b as [|b]; [cbn; lia|]). cbn in Hb. lia.
Qed.

(* ================= Crank-Nicolson at the array level =================
   Module.step returns 2 * (implicit step with dt/2) - V.  outflow x y c = vt_c x_c + sum_{e into c} g_e (x_c - value at
   source(e)) - ct_c is the current leaving compartment c in state (x, y). *)

(* for EVERY cell / EVERY network that vector is the implicit-midpoint update of the conductance graph *)
Theorem C01_crank_nicolson_step_of_every_cell :
  forall (ps ns : list nat) (es : list (edge R)) (v vt ct : nat -> R) (dt : R),
  (1 <= length ps)%nat -> (forall b, (1 <= b)%nat -> (b < length ps)%nat -> (nth b ps 0 < b)%nat) ->
  (forall b, (b < length ps)%nat -> (1 <= nth b ns 0)%nat) ->
  map strip es = triples_of ps ns ->
  0 < dt -> (forall e, In e es -> 0 < e_g R e) -> (forall i, (i < total ps ns)%nat -> 0 <= vt i) ->
  let ly := layout_of ps ns in let tp := topo_of ps in let mask := nthD (mask_of ps ns) in let n := total ps ns in
  let s0 := assemble R Rplus Rminus Rmult 0 1 mask n es v vt ct (dt / 2) (group_of ps) (child_inds_of ps) (par_inds_of ps) in
  let half := sv (run R Rplus Rminus Rmult Rdiv 0 1 ly (ops_of_tree ps ns) s0) in
  let z := fun c => 2 * half (mask c) - v c in
  exists y, (forall c, (c < n)%nat -> z c - v c + dt * outflow mask n es vt ct half y c = 0 /\ half (mask c) = (z c + v c) / 2) /\
            (forall j, (j < nbp tp)%nat -> bp_graph mask n es half y j = 0).
Proof. exact cell_cn_step. Qed.

Theorem C01_crank_nicolson_step_of_every_network :
  forall (ps ns : list nat) (rs : list bool) (es : list (edge R)) (v vt ct : nat -> R) (dt : R),
  (1 <= length ps)%nat -> (forall b, (b < length ps)%nat -> is_root rs b = false -> (nth b ps 0 < b)%nat) ->
  (forall b, (b < length ps)%nat -> (1 <= nth b ns 0)%nat) ->
  map strip es = triples_ofF ps ns rs ->
  0 < dt -> (forall e, In e es -> 0 < e_g R e) -> (forall i, (i < total ps ns)%nat -> 0 <= vt i) ->
  let ly := layout_ofF ps ns rs in let tp := topo_ofF ps rs in let mask := nthD (mask_ofF ps ns rs) in let n := total ps ns in
  let s0 := assemble R Rplus Rminus Rmult 0 1 mask n es v vt ct (dt / 2) (group_ofF ps rs) (child_inds_ofF ps rs) (par_inds_ofF ps rs) in
  let half := sv (run R Rplus Rminus Rmult Rdiv 0 1 ly (ops_of_forest ps ns rs) s0) in
  let z := fun c => 2 * half (mask c) - v c in
  exists y, (forall c, (c < n)%nat -> z c - v c + dt * outflow mask n es vt ct half y c = 0 /\ half (mask c) = (z c + v c) / 2) /\
            (forall j, (j < nbp tp)%nat -> bp_graph mask n es half y j = 0).
Proof. exact network_cn_step. Qed.

(* ... and the midpoint update is the trapezoidal (Crank-Nicolson) update: with branch-point values yv in Kirchhoff
   balance with the old voltages, (z - v) + dt/2 (outflow(z, 2y - yv) + outflow(v, yv)) = 0 and 2y - yv balances z *)
Theorem C01_crank_nicolson_is_trapezoidal :
  forall (ly : layout) (tp : topo) (mask : nat -> nat) (ncomp : nat) (es : list (edge R)) (v vt ct : nat -> R) (dt : R) (h y vs yv : nat -> R),
  graph_eq ly tp mask ncomp es v vt ct (dt / 2) h y ->
  (forall c, (c < ncomp)%nat -> vs (mask c) = v c) ->
  (forall j, (j < nbp tp)%nat -> bp_graph mask ncomp es vs yv j = 0) ->
  (forall c, (c < ncomp)%nat -> zcn h vs (mask c) - v c + dt / 2 * (outflow mask ncomp es vt ct (zcn h vs) (ycn y yv) c + outflow mask ncomp es vt ct vs yv c) = 0) /\
  (forall j, (j < nbp tp)%nat -> bp_graph mask ncomp es (zcn h vs) (ycn y yv) j = 0).
Proof. intros ly tp mask ncomp es v vt ct dt h y vs yv H1 H2 H3. exact (cn_is_trapezoidal ly tp mask ncomp es v vt ct dt h y H1 vs H2 yv H3). Qed.

(* ================= the jax.sparse backend =================
   Model/SparseAsm.v is the linear system step_voltage_implicit_with_jax_spsolve hands to spsolve (node space; the
   harness intercepts the call and compares the matrix entry by entry, exact rationals vs floats).  It is equivalent
   to the backward-Euler equations of the conductance graph, so for EVERY cell and EVERY network it has exactly one
   solution on the compartments, and that solution is the output of the level-ordered elimination of the jaxley
   backends: the backends cannot return different voltages in exact arithmetic. *)
Theorem C01_sparse_backend_same_solution_for_every_cell :
  forall (ps ns : list nat) (es : list (edge R)) (v vt ct : nat -> R) (dt : R),
  (1 <= length ps)%nat -> (forall b, (1 <= b)%nat -> (b < length ps)%nat -> (nth b ps 0 < b)%nat) ->
  (forall b, (b < length ps)%nat -> (1 <= nth b ns 0)%nat) ->
  map strip es = triples_of ps ns ->
  0 < dt -> (forall e, In e es -> 0 < e_g R e) -> (forall i, (i < total ps ns)%nat -> 0 <= vt i) ->
  let ly := layout_of ps ns in let tp := topo_of ps in let mask := nthD (mask_of ps ns) in let n := total ps ns in
  let s0 := assemble R Rplus Rminus Rmult 0 1 mask n es v vt ct dt (group_of ps) (child_inds_of ps) (par_inds_of ps) in
  let out := sv (run R Rplus Rminus Rmult Rdiv 0 1 ly (ops_of_tree ps ns) s0) in
  (exists z, sparse_eq tp n es v vt ct dt z /\ forall c, (c < n)%nat -> z c = out (mask c)) /\
  (forall z, sparse_eq tp n es v vt ct dt z -> forall c, (c < n)%nat -> z c = out (mask c)).
Proof. exact cell_sparse_backend_same_solution. Qed.

Theorem C01_sparse_backend_same_solution_for_every_network :
  forall (ps ns : list nat) (rs : list bool) (es : list (edge R)) (v vt ct : nat -> R) (dt : R),
  (1 <= length ps)%nat -> (forall b, (b < length ps)%nat -> is_root rs b = false -> (nth b ps 0 < b)%nat) ->
  (forall b, (b < length ps)%nat -> (1 <= nth b ns 0)%nat) ->
  map strip es = triples_ofF ps ns rs ->
  0 < dt -> (forall e, In e es -> 0 < e_g R e) -> (forall i, (i < total ps ns)%nat -> 0 <= vt i) ->
  let ly := layout_ofF ps ns rs in let tp := topo_ofF ps rs in let mask := nthD (mask_ofF ps ns rs) in let n := total ps ns in
  let s0 := assemble R Rplus Rminus Rmult 0 1 mask n es v vt ct dt (group_ofF ps rs) (child_inds_ofF ps rs) (par_inds_ofF ps rs) in
  let out := sv (run R Rplus Rminus Rmult Rdiv 0 1 ly (ops_of_forest ps ns rs) s0) in
  (exists z, sparse_eq tp n es v vt ct dt z /\ forall c, (c < n)%nat -> z c = out (mask c)) /\
  (forall z, sparse_eq tp n es v vt ct dt z -> forall c, (c < n)%nat -> z c = out (mask c)).
Proof. exact network_sparse_backend_same_solution. Qed.

(* the rows of the sparse system ARE the graph equations in node space *)
Theorem C01_sparse_system_is_the_graph_system :
  forall (ly : layout) (tp : topo) (mask : nat -> nat) (ncomp : nat) (es : list (edge R)) (v vt ct : nat -> R) (dt : R) (group child_inds par_inds : list nat),
  graph_struct ly tp mask ncomp es group child_inds par_inds -> graph_struct_bp ly mask ncomp es group child_inds par_inds ->
  (forall e, In e es -> (e_type R e <= 4)%nat) -> dt <> 0 ->
  forall z, sparse_eq tp ncomp es v vt ct dt z <-> node_eq tp ncomp es v vt ct dt z.
Proof. exact sparse_iff_node. Qed.

(* non-vacuity / the transposition convention: the edge 0 -> 1 with conductance 3 puts -dt*3 in ROW 1 (its sink) *)
Example C01_sparse_entry_example :
  let es := [mkedge 0%nat 1%nat 0%nat 3; mkedge 1%nat 0%nat 0%nat 5] in
  sp_entry R Rplus Rminus Rmult 0 1 2 es (fun _ => 0) 2 1 0 = 0 - 2 * 3 /\
  sp_entry R Rplus Rminus Rmult 0 1 2 es (fun _ => 0) 2 0 1 = 0 - 2 * 5.
Proof. cbv zeta. unfold sp_entry, sp_off, sp_sum. cbn. split; lra. Qed.

(* the dense matrix that the harness compares with the code, applied to a vector, is the row form used above *)
Theorem C01_sparse_dense_rows :
  forall (ncomp n_nodes : nat) (es : list (edge R)) (vt : nat -> R) (dt : R) (z : nat -> R),
  (forall e, In e es -> e_source R e <> e_sink R e) -> (forall e, In e es -> (e_source R e < n_nodes)%nat) ->
  forall i, (i < n_nodes)%nat ->
  rsum (fun j => sp_entry R Rplus Rminus Rmult 0 1 ncomp es vt dt i j * z j) n_nodes = sp_row R Rplus Rminus Rmult 0 1 ncomp es vt dt z i.
Proof. exact dense_row_is_sp_row. Qed.

(* ... and its hypotheses hold for every structure meeting the decidable conditions (every cell, every network): the
   dense matrix applied to z is the left-hand side of the graph equations, row by row *)
Theorem C01_sparse_dense_rows_of_every_structure :
  forall (ly : layout) (tp : topo), wf ly tp ->
  forall (mask : nat -> nat) (ncomp : nat) (es : list (edge R)) (group child_inds par_inds : list nat),
  graph_struct ly tp mask ncomp es group child_inds par_inds -> graph_struct_bp ly mask ncomp es group child_inds par_inds ->
  (forall e, In e es -> (e_type R e <= 4)%nat) ->
  forall (vt : nat -> R) (dt : R) (z : nat -> R) (i : nat), (i < ncomp + nbp tp)%nat ->
  rsum (fun j => sp_entry R Rplus Rminus Rmult 0 1 ncomp es vt dt i j * z j) (ncomp + nbp tp) = sp_row R Rplus Rminus Rmult 0 1 ncomp es vt dt z i.
Proof. exact dense_rows_of_the_structure. Qed.
