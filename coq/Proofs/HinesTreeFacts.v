(* The schedule checker accepts the index structure of EVERY cell: any sorted parent vector,
   any compartment counts >= 1 (with the per-level padding).  Part 1: one branch at a time,
   at its offset in the padded arrays. *)
From Coq Require Import List Arith Bool Lia.
From JV Require Import HinesArr HinesCheck HinesArrFacts.
Import ListNotations.

Section Branch.
  Variables (ly : layout) (tp : topo).
  Hypothesis W : wf ly tp.

  Notation chk := (check_op ly tp).
  Notation upd := (aupd ly).
  Notation chks := (check_ops ly tp).

  Lemma bupd_same f i v : bupd f i v i = v.
  Proof. unfold bupd. now rewrite Nat.eqb_refl. Qed.
  Lemma bupd_other f i v j : j <> i -> bupd f i v j = f j.
  Proof. intros H. unfold bupd. apply Nat.eqb_neq in H. now rewrite H. Qed.

  Lemma check_ops_app fl a b : chks fl (a ++ b) = match chks fl a with Some fl' => chks fl' b | None => None end.
  Proof. revert fl. induction a as [|o a IH]; intros fl; cbn [app check_ops]; [reflexivity|]. destruct (chk fl o); [apply IH | reflexivity]. Qed.

  (* flags outside the slots of branch b, and all per-branch flags, are untouched *)
  Definition in_branch (b i : nat) : Prop := cs ly b <= i < cs ly b + pl ly b.
  Definition frame (b : nat) (fl fl' : flags) : Prop :=
    (forall i, ~ in_branch b i -> fN fl' i = fN fl i /\ fU fl' i = fU fl i /\ fL fl' i = fL fl i) /\
    (forall c, fCC fl' c = fCC fl c /\ fCP fl' c = fCP fl c /\ fWC fl' c = fWC fl c /\ fWP fl' c = fWP fl c).

  Lemma frame_refl b fl : frame b fl fl.
  Proof. split; intros; auto. Qed.
  Lemma frame_trans b f1 f2 f3 : frame b f1 f2 -> frame b f2 f3 -> frame b f1 f3.
  Proof.
    intros [A1 B1] [A2 B2]. split.
    - intros i Hi. destruct (A1 i Hi) as (a & b1 & c). destruct (A2 i Hi) as (a' & b' & c'). repeat split; congruence.
    - intros c. destruct (B1 c) as (a & b1 & c1 & d). destruct (B2 c) as (a' & b' & c' & d'). repeat split; congruence.
  Qed.

  (* side conditions that depend on per-branch flags only *)
  Definition cp_ok (fl : flags) (b : nat) : Prop := forall j, cbp tp b = Some j -> fCP fl b = true.
  Definition cc_ok (fl : flags) (b : nat) : Prop := forall j, pbp tp b = Some j -> fCC fl b = true.

  Lemma cpz_of fl b k : cp_ok fl b -> cpzb ly tp fl b k = true.
  Proof. intros H. unfold cpzb. destruct (cbp tp b) as [j|] eqn:E; [rewrite (H j E)|]; apply orb_true_r. Qed.
  Lemma ccz_of fl b k : cc_ok fl b -> cczb tp fl b k = true.
  Proof. intros H. unfold cczb. destruct (pbp tp b) as [j|] eqn:E; [rewrite (H j E)|]; apply orb_true_r. Qed.
  Lemma ccz_pos fl b k : 1 <= k -> cczb tp fl b k = true.
  Proof. intros H. unfold cczb. destruct (Nat.eqb_spec k 0); [lia|]. reflexivity. Qed.

  (* rows k .. pl-1 of branch b are triangulated *)
  Definition tri (fl : flags) (b k : nat) : Prop :=
    (forall i, k <= i -> i < pl ly b -> 1 <= i -> fN fl (cs ly b + i) = true) /\
    (forall i, k <= i -> S i < pl ly b -> fU fl (cs ly b + i) = true).

  Lemma uz_of_tri fl b k j : tri fl b k -> k <= j -> uzb ly fl b j = true.
  Proof.
    intros [_ HU] Hk. unfold uzb. destruct (Nat.ltb_spec (S j) (pl ly b)); cbn [negb orb]; [|reflexivity].
    apply HU; assumption.
  Qed.

  Lemma in_branch_slot b i : i < pl ly b -> in_branch b (cs ly b + i).
  Proof. unfold in_branch. lia. Qed.

  Ltac tt := repeat match goal with |- context [?a <? ?b] => replace (a <? b) with true by (symmetry; apply Nat.ltb_lt; lia)
                                  | |- context [?a <=? ?b] => replace (a <=? b) with true by (symmetry; apply Nat.leb_le; lia) end.

  Lemma sweep_step fl b k : b < nb tp -> cp_ok fl b -> tri fl b (S k) -> 1 <= k -> S k < pl ly b ->
    exists fl', chks fl [ElimUp b k; Norm b k] = Some fl' /\ tri fl' b k /\ frame b fl fl'.
  Proof.
    intros Hb HC T Hk Hlt. pose proof T as [HN HU].
    assert (C1 : chk fl (ElimUp b k) = true).
    { cbn [check_op]. rewrite (uz_of_tri fl b (S k) (S k) T) by lia. rewrite (cpz_of fl b _ HC).
      replace (S (cs ly b + k)) with (cs ly b + S k) by lia. rewrite (HN (S k)) by lia. tt. reflexivity. }
    set (fl1 := upd fl (ElimUp b k)).
    assert (HC1 : cp_ok fl1 b) by (intros j Hj; unfold fl1; cbn [aupd fCP]; eauto).
    assert (C2 : chk fl1 (Norm b k) = true).
    { cbn [check_op]. rewrite (cpz_of fl1 b _ HC1). tt.
      unfold uzb. tt. unfold fl1. cbn [aupd fU negb orb]. rewrite bupd_same. reflexivity. }
    exists (upd fl1 (Norm b k)). split; [|split].
    - cbn [check_ops]. rewrite C1. fold fl1. rewrite C2. reflexivity.
    - unfold fl1. split; intros i Hi1 Hi2; cbn [aupd fN fU].
      + intros Hi3. destruct (Nat.eq_dec i k) as [->|Hne]; [apply bupd_same|]. rewrite !bupd_other by lia. apply HN; lia.
      + destruct (Nat.eq_dec i k) as [->|Hne]; [apply bupd_same|]. rewrite bupd_other by lia. apply HU; lia.
    - unfold fl1. split.
      + intros i Hi. cbn [aupd fN fU fL]. assert (i <> cs ly b + k) by (intros ->; apply Hi, in_branch_slot; lia).
        rewrite !bupd_other by assumption. auto.
      + intros c. cbn [aupd fCC fCP fWC fWP]. auto.
  Qed.

  Lemma sweep b : b < nb tp -> forall m fl, cp_ok fl b -> tri fl b (S m) -> S m < pl ly b \/ m = 0 ->
    exists fl', chks fl (flat_map (fun k => [ElimUp b k; Norm b k]) (rev (seq 1 m))) = Some fl' /\ tri fl' b 1 /\ frame b fl fl'.
  Proof.
    intros Hb m. induction m as [|m IH]; intros fl0 HC T H1.
    - exists fl0. cbn. split; [reflexivity|]. split; [exact T | apply frame_refl].
    - rewrite seq_S, rev_app_distr. cbn [rev app flat_map Nat.add].
      destruct (sweep_step fl0 b (S m) Hb HC T ltac:(lia) ltac:(lia)) as (fl1 & E1 & T1 & F1).
      assert (HC1 : cp_ok fl1 b) by (intros j Hj; destruct F1 as [_ F]; destruct (F b) as (_ & -> & _); eauto).
      destruct (IH fl1 HC1 T1 ltac:(lia)) as (fl2 & E2 & T2 & F2).
      exists fl2. split; [|split; [exact T2 | eapply frame_trans; eauto]].
      change (ElimUp b (S m) :: Norm b (S m) :: ?r) with ([ElimUp b (S m); Norm b (S m)] ++ r).
      rewrite check_ops_app, E1. exact E2.
  Qed.

  Definition upper_free (fl : flags) (b : nat) : Prop := forall i, S i < pl ly b -> fU fl (cs ly b + i) = true.

  Lemma cp_ok_frame b c fl fl' : frame c fl fl' -> cp_ok fl b -> cp_ok fl' b.
  Proof. intros [_ F] H j Hj. destruct (F b) as (_ & -> & _). eauto. Qed.
  Lemma cc_ok_frame b c fl fl' : frame c fl fl' -> cc_ok fl b -> cc_ok fl' b.
  Proof. intros [_ F] H j Hj. destruct (F b) as (-> & _). eauto. Qed.

  (* thomas_triang_upper on the padded slice of branch b *)
  Lemma triang_ok fl b : b < nb tp -> cp_ok fl b ->
    exists fl', chks fl (triang_branch ly b) = Some fl' /\ tri fl' b 1 /\ upper_free fl' b /\ frame b fl fl'.
  Proof.
    intros Hb HC. unfold triang_branch.
    destruct (Nat.leb_spec (pl ly b) 1) as [Hle|Hgt].
    - exists fl. cbn. split; [reflexivity|]. split; [split; intros; lia|]. split; [intros i Hi; lia | apply frame_refl].
    - assert (C0 : chk fl (Norm b (pl ly b - 1)) = true).
      { cbn [check_op]. rewrite (cpz_of fl b _ HC). tt.
        unfold uzb. replace (S (pl ly b - 1) <? pl ly b) with false by (symmetry; apply Nat.ltb_ge; lia). reflexivity. }
      set (fl0 := upd fl (Norm b (pl ly b - 1))).
      assert (F0 : frame b fl fl0).
      { unfold fl0. split.
        - intros i Hi. cbn [aupd fN fU fL]. assert (i <> cs ly b + (pl ly b - 1)) by (intros ->; apply Hi, in_branch_slot; lia).
          rewrite bupd_other by assumption. auto.
        - intros c. cbn [aupd fCC fCP fWC fWP]. auto. }
      assert (T0 : tri fl0 b (S (pl ly b - 2))).
      { unfold fl0. split; intros i H1 H2; cbn [aupd fN fU].
        - intros _. replace i with (pl ly b - 1) by lia. apply bupd_same.
        - lia. }
      destruct (sweep b Hb (pl ly b - 2) fl0 (cp_ok_frame b b _ _ F0 HC) T0 ltac:(lia)) as (fl1 & E1 & T1 & F1).
      assert (HC1 : cp_ok fl1 b) by (eapply cp_ok_frame; eauto; eapply cp_ok_frame; eauto).
      assert (C2 : chk fl1 (ElimUp b 0) = true).
      { cbn [check_op]. rewrite (uz_of_tri fl1 b 1 1 T1) by lia. rewrite (cpz_of fl1 b _ HC1).
        destruct T1 as [HN _]. replace (S (cs ly b + 0)) with (cs ly b + 1) by lia. rewrite (HN 1) by lia. tt. reflexivity. }
      exists (upd fl1 (ElimUp b 0)). split; [|split; [|split]].
      + cbn [check_ops]. rewrite C0. fold fl0. rewrite check_ops_app, E1. cbn [check_ops]. rewrite C2. reflexivity.
      + destruct T1 as [HN HU]. split; intros i H1 H2; cbn [aupd fN fU].
        * intros H3. rewrite bupd_other by lia. apply HN; lia.
        * rewrite bupd_other by lia. apply HU; lia.
      + intros i Hi. cbn [aupd fU]. destruct (Nat.eq_dec i 0) as [->|Hne]; [apply bupd_same|].
        rewrite bupd_other by lia. destruct T1 as [_ HU]. apply HU; lia.
      + eapply frame_trans; [exact F0|]. eapply frame_trans; [exact F1|]. split.
        * intros i Hi. cbn [aupd fN fU fL]. assert (i <> cs ly b + 0) by (intros ->; apply Hi, in_branch_slot; lia).
          rewrite !bupd_other by assumption. auto.
        * intros c. cbn [aupd fCC fCP fWC fWP]. auto.
  Qed.

  (* rows of branch b solved up to k *)
  Definition solved (fl : flags) (b k : nat) : Prop :=
    (forall i, i < pl ly b -> (1 <= i \/ 1 <= k) -> fN fl (cs ly b + i) = true) /\ upper_free fl b /\
    (forall i, 1 <= i -> i < k -> i < pl ly b -> fL fl (cs ly b + i) = true).

  Lemma back_step fl b k : b < nb tp -> cp_ok fl b -> cc_ok fl b -> solved fl b k -> 1 <= k -> k < pl ly b ->
    chk fl (SubLower b k) = true /\ solved (upd fl (SubLower b k)) b (S k) /\ frame b fl (upd fl (SubLower b k)).
  Proof.
    intros Hb HCP HCC (HN & HU & HL) Hk Hlt. split; [|split].
    - cbn [check_op]. rewrite (cpz_of fl b _ HCP), (ccz_of fl b _ HCC). tt.
      replace (cs ly b + k - 1) with (cs ly b + (k - 1)) by lia. rewrite (HN (k - 1)) by lia.
      assert (E1 : lzb ly fl b (k - 1) = true).
      { unfold lzb. destruct (Nat.eqb_spec (k - 1) 0); [reflexivity|]. cbn [orb]. apply HL; lia. }
      assert (E2 : uzb ly fl b (k - 1) = true).
      { unfold uzb. rewrite (HU (k - 1)) by lia. apply orb_true_r. }
      rewrite E1, E2. reflexivity.
    - repeat split; cbn [aupd fN fU fL].
      + intros i H1 H2. apply HN; lia.
      + exact HU.
      + intros i H1 H2 H3. destruct (Nat.eq_dec i k) as [->|Hne]; [apply bupd_same|]. rewrite bupd_other by lia. apply HL; lia.
    - split.
      + intros i Hi. cbn [aupd fN fU fL]. assert (i <> cs ly b + k) by (intros ->; apply Hi, in_branch_slot; lia).
        rewrite bupd_other by assumption. auto.
      + intros c. cbn [aupd fCC fCP fWC fWP]. auto.
  Qed.

  Lemma back_sweep b : b < nb tp -> forall m fl k, cp_ok fl b -> cc_ok fl b -> solved fl b k -> 1 <= k -> k + m <= pl ly b ->
    exists fl', chks fl (map (SubLower b) (seq k m)) = Some fl' /\ solved fl' b (k + m) /\ frame b fl fl'.
  Proof.
    intros Hb. induction m as [|m IH]; intros fl k HCP HCC S Hk Hle.
    - exists fl. cbn. rewrite Nat.add_0_r. split; [reflexivity|]. split; [exact S | apply frame_refl].
    - cbn [seq map check_ops]. destruct (back_step fl b k Hb HCP HCC S Hk ltac:(lia)) as (C & S' & F').
      rewrite C. destruct (IH _ (Datatypes.S k) (cp_ok_frame b b _ _ F' HCP) (cc_ok_frame b b _ _ F' HCC) S' ltac:(lia) ltac:(lia)) as (fl' & E & S'' & F'').
      exists fl'. split; [exact E|]. replace (k + Datatypes.S m) with (Datatypes.S k + m) by lia.
      split; [exact S'' | eapply frame_trans; eauto].
  Qed.

  (* thomas_backsub_lower on the padded slice of branch b *)
  Lemma backsub_ok fl b : b < nb tp -> cp_ok fl b -> cc_ok fl b -> tri fl b 1 -> upper_free fl b ->
    exists fl', chks fl (backsub_branch ly b) = Some fl' /\ solved fl' b (pl ly b) /\ frame b fl fl'.
  Proof.
    intros Hb HCP HCC [HN _] HU. pose proof (wf_nc _ _ W b Hb) as Hnc. unfold backsub_branch. cbn [check_ops].
    assert (C : chk fl (DivFirst b) = true).
    { cbn [check_op]. rewrite (cpz_of fl b _ HCP), (ccz_of fl b _ HCC). tt.
      unfold uzb. destruct (Nat.ltb_spec 1 (pl ly b)); cbn [negb orb]; [|reflexivity]. rewrite (HU 0) by lia. reflexivity. }
    rewrite C. set (fl1 := upd fl (DivFirst b)).
    assert (F1 : frame b fl fl1).
    { unfold fl1. split.
      - intros i Hi. cbn [aupd fN fU fL]. unfold first. assert (i <> cs ly b) by (intros ->; apply Hi; unfold in_branch; lia).
        rewrite bupd_other by assumption. auto.
      - intros c. cbn [aupd fCC fCP fWC fWP]. auto. }
    assert (S1 : solved fl1 b 1).
    { unfold fl1. repeat split; cbn [aupd fN fU fL]; unfold first.
      - intros i H1 H2. destruct (Nat.eq_dec i 0) as [->|Hne]; [rewrite Nat.add_0_r; apply bupd_same|].
        rewrite bupd_other by lia. apply HN; lia.
      - exact HU.
      - intros; lia. }
    destruct (back_sweep b Hb (pl ly b - 1) fl1 1 (cp_ok_frame b b _ _ F1 HCP) (cc_ok_frame b b _ _ F1 HCC) S1 ltac:(lia) ltac:(lia)) as (fl2 & E2 & S2 & F2).
    exists fl2. split; [exact E2|]. replace (1 + (pl ly b - 1)) with (pl ly b) in S2 by lia.
    split; [exact S2 | eapply frame_trans; eauto].
  Qed.
End Branch.

(* Part 2: lists of branches (one level) *)
Section Lists.
  Variables (ly : layout) (tp : topo).
  Hypothesis W : wf ly tp.

  Notation chk := (check_op ly tp).
  Notation upd := (aupd ly).
  Notation chks := (check_ops ly tp).
  Notation in_branch := (in_branch ly).
  Notation frame := (frame ly).
  Notation tri := (tri ly).
  Notation upper_free := (upper_free ly).
  Notation solved := (solved ly).
  Notation cp_ok := (cp_ok tp).
  Notation cc_ok := (cc_ok tp).

  Lemma disjoint b b' i : b < nb tp -> b' < nb tp -> b <> b' -> in_branch b i -> ~ in_branch b' i.
  Proof.
    intros Hb Hb' Hne H H'. unfold HinesTreeFacts.in_branch in H, H'.
    destruct (lt_eq_lt_dec b b') as [[Hlt|Heq]|Hgt]; [| contradiction |].
    - pose proof (mono_lt _ _ W b b' Hlt Hb') as M. destruct H as [H1 H2]; destruct H' as [H3 H4]. apply (Nat.lt_irrefl i). eapply Nat.lt_le_trans; [exact H2|]. eapply Nat.le_trans; [exact M | exact H3].
    - pose proof (mono_lt _ _ W b' b Hgt Hb) as M. destruct H as [H1 H2]; destruct H' as [H3 H4]. apply (Nat.lt_irrefl i). eapply Nat.lt_le_trans; [exact H4|]. eapply Nat.le_trans; [exact M | exact H1].
  Qed.

  (* flags outside the slots of the branches in bs, and all per-branch flags, are untouched *)
  Definition frames (bs : list nat) (fl fl' : flags) : Prop :=
    (forall i, (forall b, In b bs -> ~ in_branch b i) -> fN fl' i = fN fl i /\ fU fl' i = fU fl i /\ fL fl' i = fL fl i) /\
    (forall c, fCC fl' c = fCC fl c /\ fCP fl' c = fCP fl c /\ fWC fl' c = fWC fl c /\ fWP fl' c = fWP fl c).

  Lemma tri_frame b c fl fl' k : b < nb tp -> c < nb tp -> b <> c -> frame c fl fl' -> tri fl b k -> tri fl' b k.
  Proof.
    intros Hb Hc Hne [F _] [HN HU]. split; intros i H1 H2.
    - intros H3. destruct (F (cs ly b + i)) as (-> & _); [|apply HN; auto].
      apply (disjoint b c); auto. unfold HinesTreeFacts.in_branch. lia.
    - destruct (F (cs ly b + i)) as (_ & -> & _); [|apply HU; auto].
      apply (disjoint b c); auto. unfold HinesTreeFacts.in_branch. lia.
  Qed.
  Lemma upper_free_frame b c fl fl' : b < nb tp -> c < nb tp -> b <> c -> frame c fl fl' -> upper_free fl b -> upper_free fl' b.
  Proof.
    intros Hb Hc Hne [F _] HU i Hi. destruct (F (cs ly b + i)) as (_ & -> & _); [|apply HU; auto].
    apply (disjoint b c); auto. unfold HinesTreeFacts.in_branch. lia.
  Qed.
  Lemma solved_frame b c fl fl' k : b < nb tp -> c < nb tp -> b <> c -> frame c fl fl' -> solved fl b k -> solved fl' b k.
  Proof.
    intros Hb Hc Hne Fr (HN & HU & HL). pose proof Fr as [F _]. split; [|split].
    - intros i H1 H2. destruct (F (cs ly b + i)) as (-> & _); [|apply HN; auto].
      apply (disjoint b c); auto. unfold HinesTreeFacts.in_branch. lia.
    - eapply upper_free_frame; eauto.
    - intros i H1 H2 H3. destruct (F (cs ly b + i)) as (_ & _ & ->); [|apply HL; auto].
      apply (disjoint b c); auto. unfold HinesTreeFacts.in_branch. lia.
  Qed.

  (* A: triangulate all branches of a list *)
  Lemma triang_list : forall bs fl, (forall b, In b bs -> b < nb tp /\ cp_ok fl b) ->
    exists fl', chks fl (flat_map (triang_branch ly) bs) = Some fl' /\
      (forall b, In b bs -> tri fl' b 1 /\ upper_free fl' b) /\
      (forall c k, c < nb tp -> ~ In c bs -> tri fl c k -> tri fl' c k) /\
      (forall c, c < nb tp -> ~ In c bs -> upper_free fl c -> upper_free fl' c) /\
      (forall c k, c < nb tp -> ~ In c bs -> solved fl c k -> solved fl' c k) /\
      (forall c, fCC fl' c = fCC fl c /\ fCP fl' c = fCP fl c /\ fWC fl' c = fWC fl c /\ fWP fl' c = fWP fl c).
  Proof.
    induction bs as [|b bs IH]; intros fl H.
    - exists fl. cbn [flat_map check_ops]. split; [reflexivity|]. split; [intros b []|].
      split; [intros; assumption|]. split; [intros; assumption|]. split; [intros; assumption|]. intros c. repeat split.
    - destruct (H b (or_introl eq_refl)) as [Hb HC].
      destruct (triang_ok ly tp fl b Hb HC) as (fl1 & E1 & T1 & U1 & F1).
      destruct (IH fl1) as (fl2 & E2 & A2 & TR2 & UF2 & SO2 & BR2).
      { intros c Hc. destruct (H c (or_intror Hc)) as [Hc1 Hc2]. split; [exact Hc1 | eapply cp_ok_frame; eauto]. }
      exists fl2. split; [|split; [|split; [|split; [|split]]]].
      + cbn [flat_map]. rewrite (check_ops_app ly tp), E1. exact E2.
      + intros c [<-|Hc]; [|apply A2; exact Hc].
        destruct (in_dec Nat.eq_dec b bs) as [Hin|Hout]; [apply A2; exact Hin|].
        split; [apply TR2; auto | apply UF2; auto].
      + intros c k Hc Hnot T. apply TR2; auto; [intros Hin; apply Hnot; now right|].
        apply (tri_frame c b fl fl1 k Hc Hb); [intros E; subst; apply Hnot; now left | exact F1 | exact T].
      + intros c Hc Hnot T. apply UF2; auto; [intros Hin; apply Hnot; now right|].
        apply (upper_free_frame c b fl fl1 Hc Hb); [intros E; subst; apply Hnot; now left | exact F1 | exact T].
      + intros c k Hc Hnot T. apply SO2; auto; [intros Hin; apply Hnot; now right|].
        apply (solved_frame c b fl fl1 k Hc Hb); [intros E; subst; apply Hnot; now left | exact F1 | exact T].
      + intros c. destruct (BR2 c) as (a1 & a2 & a3 & a4). destruct F1 as [_ F1]. destruct (F1 c) as (b1 & b2 & b3 & b4).
        repeat split; congruence.
  Qed.

  Ltac tt := repeat match goal with |- context [?a <? ?b] => replace (a <? b) with true by (symmetry; apply Nat.ltb_lt; lia)
                                  | |- context [?a <=? ?b] => replace (a <=? b) with true by (symmetry; apply Nat.leb_le; lia) end.

  Lemma uz0_of fl b : upper_free fl b -> uzb ly fl b 0 = true.
  Proof. intros HU. unfold uzb. destruct (Nat.ltb_spec 1 (pl ly b)); cbn [negb orb]; [|reflexivity]. apply HU. lia. Qed.

  (* same slot flags *)
  Definition same_slots (fl fl' : flags) : Prop := forall i, fN fl' i = fN fl i /\ fU fl' i = fU fl i /\ fL fl' i = fL fl i.
  Lemma same_slots_refl fl : same_slots fl fl. Proof. intros i; auto. Qed.
  Lemma same_slots_trans f1 f2 f3 : same_slots f1 f2 -> same_slots f2 f3 -> same_slots f1 f3.
  Proof. intros A B i. destruct (A i) as (a & b & c), (B i) as (a' & b' & c'). repeat split; congruence. Qed.
  Lemma tri_same fl fl' b k : same_slots fl fl' -> tri fl b k -> tri fl' b k.
  Proof. intros S [HN HU]. split; intros i H1 H2; [intros H3; destruct (S (cs ly b + i)) as (-> & _); auto | destruct (S (cs ly b + i)) as (_ & -> & _); auto]. Qed.
  Lemma upper_free_same fl fl' b : same_slots fl fl' -> upper_free fl b -> upper_free fl' b.
  Proof. intros S HU i Hi. destruct (S (cs ly b + i)) as (_ & -> & _); auto. Qed.
  Lemma solved_same fl fl' b k : same_slots fl fl' -> solved fl b k -> solved fl' b k.
  Proof.
    intros S (HN & HU & HL). split; [|split].
    - intros i H1 H2. destruct (S (cs ly b + i)) as (-> & _); auto.
    - eapply upper_free_same; eauto.
    - intros i H1 H2 H3. destruct (S (cs ly b + i)) as (_ & _ & ->); auto.
  Qed.

  (* B: eliminate the first compartments of the children of a level from their branch-point rows *)
  Lemma childlower_list : forall cl fl,
    (forall b j, In (b, j) cl -> b < nb tp /\ pbp tp b = Some j /\ upper_free fl b /\ cp_ok fl b) ->
    exists fl', chks fl (map (fun c => ChildLower (fst c) (snd c)) cl) = Some fl' /\
      (forall b j, In (b, j) cl -> fWC fl' b = true) /\ same_slots fl fl' /\
      (forall c, fCC fl' c = fCC fl c /\ fCP fl' c = fCP fl c /\ fWP fl' c = fWP fl c /\ (fWC fl c = true -> fWC fl' c = true)).
  Proof.
    induction cl as [|[b j] cl IH]; intros fl H.
    - exists fl. cbn [map check_ops]. split; [reflexivity|]. split; [intros b j []|]. split; [apply same_slots_refl|]. intros c; auto.
    - destruct (H b j (or_introl eq_refl)) as (Hb & Hp & HU & HC).
      assert (C : chk fl (ChildLower b j) = true).
      { cbn [check_op]. rewrite Hp. cbn [opt_eqb]. rewrite Nat.eqb_refl, (uz0_of fl b HU), (cpz_of ly tp fl b 0 HC). tt. reflexivity. }
      set (fl1 := upd fl (ChildLower b j)).
      destruct (IH fl1) as (fl2 & E2 & A2 & S2 & B2).
      { intros b' j' Hin. destruct (H b' j' (or_intror Hin)) as (h1 & h2 & h3 & h4). repeat split; auto. }
      exists fl2. split; [|split; [|split]].
      + cbn [map check_ops fst snd]. rewrite C. exact E2.
      + intros b' j' [E|Hin]; [|eapply A2; eauto]. inversion E; subst. destruct (B2 b') as (_ & _ & _ & M). apply M.
        unfold fl1. cbn [aupd fWC]. apply bupd_same.
      + intros i. destruct (S2 i) as (a1 & a2 & a3). unfold fl1 in *. cbn [aupd fN fU fL] in *. auto.
      + intros c. destruct (B2 c) as (a1 & a2 & a3 & a4). unfold fl1 in *. cbn [aupd fCC fCP fWP fWC] in *. repeat split; auto.
        intros Hc. apply a4. unfold bupd. destruct (c =? b); auto.
  Qed.

  (* C: eliminate the branch points of a level from the last rows of their parents *)
  Lemma parentupper_list : forall pl_ fl,
    (forall p j, In (p, j) pl_ -> p < nb tp /\ cbp tp p = Some j /\ (forall c, In c (kids tp j) -> fWC fl c = true)) ->
    exists fl', chks fl (map (fun c => ParentUpper (fst c) (snd c)) pl_) = Some fl' /\
      (forall p j, In (p, j) pl_ -> fCP fl' p = true) /\
      (forall i, fU fl' i = fU fl i /\ fL fl' i = fL fl i /\ ((forall p j, In (p, j) pl_ -> i <> last ly p) -> fN fl' i = fN fl i)) /\
      (forall c, fCC fl' c = fCC fl c /\ fWC fl' c = fWC fl c /\ fWP fl' c = fWP fl c /\ (fCP fl c = true -> fCP fl' c = true)).
  Proof.
    induction pl_ as [|[p j] pl_ IH]; intros fl H.
    - exists fl. cbn [map check_ops]. split; [reflexivity|]. split; [intros p j []|]. split; intros; auto.
    - destruct (H p j (or_introl eq_refl)) as (Hp & Hc & HK).
      assert (C : chk fl (ParentUpper p j) = true).
      { cbn [check_op]. rewrite Hc. cbn [opt_eqb]. rewrite Nat.eqb_refl. tt.
        unfold kidsb. replace (forallb (fWC fl) (kids tp j)) with true; [reflexivity|]. symmetry. apply forallb_forall. exact HK. }
      set (fl1 := upd fl (ParentUpper p j)).
      destruct (IH fl1) as (fl2 & E2 & A2 & S2 & B2).
      { intros p' j' Hin. destruct (H p' j' (or_intror Hin)) as (h1 & h2 & h3). repeat split; auto. }
      exists fl2. split; [|split; [|split]].
      + cbn [map check_ops fst snd]. rewrite C. exact E2.
      + intros p' j' [E|Hin]; [|eapply A2; eauto]. inversion E; subst. destruct (B2 p') as (_ & _ & _ & M). apply M.
        unfold fl1. cbn [aupd fCP]. apply bupd_same.
      + intros i. destruct (S2 i) as (a1 & a2 & a3). unfold fl1 in *. cbn [aupd fN fU fL] in *. repeat split; auto.
        intros Hi. rewrite a3 by (intros p' j' Hin; apply (Hi p' j'); now right).
        apply bupd_other. apply (Hi p j). now left.
      + intros c. destruct (B2 c) as (a1 & a2 & a3 & a4). unfold fl1 in *. cbn [aupd fCC fCP fWP fWC] in *. repeat split; auto.
        intros Hc'. apply a4. unfold bupd. destruct (c =? p); auto.
  Qed.

  (* D: eliminate the last compartments of the parents of a level from their branch-point rows *)
  Lemma parentlower_list : forall pl_ fl,
    (forall p j, In (p, j) pl_ -> p < nb tp /\ cbp tp p = Some j /\ solved fl p (pl ly p) /\ cc_ok fl p /\ cp_ok fl p) ->
    exists fl', chks fl (map (fun c => ParentLower (fst c) (snd c)) pl_) = Some fl' /\
      (forall p j, In (p, j) pl_ -> fWP fl' p = true) /\ same_slots fl fl' /\
      (forall c, fCC fl' c = fCC fl c /\ fCP fl' c = fCP fl c /\ fWC fl' c = fWC fl c /\ (fWP fl c = true -> fWP fl' c = true)).
  Proof.
    induction pl_ as [|[p j] pl_ IH]; intros fl H.
    - exists fl. cbn [map check_ops]. split; [reflexivity|]. split; [intros p j []|]. split; [apply same_slots_refl|]. intros c; auto.
    - destruct (H p j (or_introl eq_refl)) as (Hp & Hc & (HN & HU & HL) & HCC & HCP).
      pose proof (wf_nc _ _ W p Hp) as Hnc.
      assert (C : chk fl (ParentLower p j) = true).
      { cbn [check_op]. rewrite Hc. cbn [opt_eqb]. rewrite Nat.eqb_refl, (cpz_of ly tp fl p _ HCP). tt.
        assert (E1 : lzb ly fl p (nc ly p - 1) = true).
        { unfold lzb. destruct (Nat.eqb_spec (nc ly p - 1) 0); [reflexivity|]. cbn [orb]. apply HL; lia. }
        assert (E2 : uzb ly fl p (nc ly p - 1) = true).
        { unfold uzb. destruct (Nat.ltb_spec (S (nc ly p - 1)) (pl ly p)); cbn [negb orb]; [|reflexivity]. apply HU. lia. }
        assert (E3 : cczb tp fl p (nc ly p - 1) = true) by (apply ccz_of; exact HCC).
        rewrite E1, E2, E3. reflexivity. }
      set (fl1 := upd fl (ParentLower p j)).
      assert (S1 : same_slots fl fl1) by (intros i; unfold fl1; cbn [aupd fN fU fL]; auto).
      destruct (IH fl1) as (fl2 & E2 & A2 & S2 & B2).
      { intros p' j' Hin. destruct (H p' j' (or_intror Hin)) as (h1 & h2 & h3 & h4 & h5).
        split; [exact h1|]. split; [exact h2|]. split; [eapply solved_same; eauto|]. split.
        - intros j0 Hj0. unfold fl1. cbn [aupd fCC]. eauto.
        - intros j0 Hj0. unfold fl1. cbn [aupd fCP]. eauto. }
      exists fl2. split; [|split; [|split]].
      + cbn [map check_ops fst snd]. rewrite C. exact E2.
      + intros p' j' [E|Hin]; [|eapply A2; eauto]. inversion E; subst. destruct (B2 p') as (_ & _ & _ & M). apply M.
        unfold fl1. cbn [aupd fWP]. apply bupd_same.
      + exact (same_slots_trans _ _ _ S1 S2).
      + intros c. destruct (B2 c) as (a1 & a2 & a3 & a4). unfold fl1 in *. cbn [aupd fCC fCP fWP fWC] in *. repeat split; auto.
        intros Hc'. apply a4. unfold bupd. destruct (c =? p); auto.
  Qed.

  (* E: eliminate the branch points from the first rows of the children of a level *)
  Lemma childupper_list : forall cl fl,
    (forall b j, In (b, j) cl -> b < nb tp /\ pbp tp b = Some j /\ (forall c, In c (kids tp j) -> fWC fl c = true) /\ fWP fl (par tp j) = true) ->
    exists fl', chks fl (map (fun c => ChildUpper (fst c) (snd c)) cl) = Some fl' /\
      (forall b j, In (b, j) cl -> fCC fl' b = true) /\ same_slots fl fl' /\
      (forall c, fCP fl' c = fCP fl c /\ fWC fl' c = fWC fl c /\ fWP fl' c = fWP fl c /\ (fCC fl c = true -> fCC fl' c = true)).
  Proof.
    induction cl as [|[b j] cl IH]; intros fl H.
    - exists fl. cbn [map check_ops]. split; [reflexivity|]. split; [intros b j []|]. split; [apply same_slots_refl|]. intros c; auto.
    - destruct (H b j (or_introl eq_refl)) as (Hb & Hp & HK & HWP).
      assert (C : chk fl (ChildUpper b j) = true).
      { cbn [check_op]. rewrite Hp. cbn [opt_eqb]. rewrite Nat.eqb_refl, HWP. tt.
        unfold kidsb. replace (forallb (fWC fl) (kids tp j)) with true; [reflexivity|]. symmetry. apply forallb_forall. exact HK. }
      set (fl1 := upd fl (ChildUpper b j)).
      assert (S1 : same_slots fl fl1) by (intros i; unfold fl1; cbn [aupd fN fU fL]; auto).
      destruct (IH fl1) as (fl2 & E2 & A2 & S2 & B2).
      { intros b' j' Hin. destruct (H b' j' (or_intror Hin)) as (h1 & h2 & h3 & h4). repeat split; auto. }
      exists fl2. split; [|split; [|split]].
      + cbn [map check_ops fst snd]. rewrite C. exact E2.
      + intros b' j' [E|Hin]; [|eapply A2; eauto]. inversion E; subst. destruct (B2 b') as (_ & _ & _ & M). apply M.
        unfold fl1. cbn [aupd fCC]. apply bupd_same.
      + exact (same_slots_trans _ _ _ S1 S2).
      + intros c. destruct (B2 c) as (a1 & a2 & a3 & a4). unfold fl1 in *. cbn [aupd fCC fCP fWP fWC] in *. repeat split; auto.
        intros Hc'. apply a4. unfold bupd. destruct (c =? b); auto.
  Qed.

  (* F: back-substitute all branches of a list *)
  Lemma backsub_list : forall bs fl,
    (forall b, In b bs -> b < nb tp /\ cp_ok fl b /\ cc_ok fl b /\ tri fl b 1 /\ upper_free fl b) -> NoDup bs ->
    exists fl', chks fl (flat_map (backsub_branch ly) bs) = Some fl' /\
      (forall b, In b bs -> solved fl' b (pl ly b)) /\
      (forall c k, c < nb tp -> ~ In c bs -> tri fl c k -> tri fl' c k) /\
      (forall c, c < nb tp -> ~ In c bs -> upper_free fl c -> upper_free fl' c) /\
      (forall c k, c < nb tp -> ~ In c bs -> solved fl c k -> solved fl' c k) /\
      (forall c, fCC fl' c = fCC fl c /\ fCP fl' c = fCP fl c /\ fWC fl' c = fWC fl c /\ fWP fl' c = fWP fl c).
  Proof.
    induction bs as [|b bs IH]; intros fl H ND.
    - exists fl. cbn [flat_map check_ops]. split; [reflexivity|]. split; [intros b []|].
      split; [intros; assumption|]. split; [intros; assumption|]. split; [intros; assumption|]. intros c. repeat split.
    - inversion ND as [|? ? Hnotin ND']; subst.
      destruct (H b (or_introl eq_refl)) as (Hb & HCP & HCC & T & U).
      destruct (backsub_ok ly tp W fl b Hb HCP HCC T U) as (fl1 & E1 & S1 & F1).
      destruct (IH fl1) as (fl2 & E2 & A2 & TR2 & UF2 & SO2 & BR2); [|exact ND'|].
      { intros c Hc. destruct (H c (or_intror Hc)) as (h1 & h2 & h3 & h4 & h5).
        assert (c <> b) by (intros ->; contradiction).
        split; [exact h1|]. split; [eapply cp_ok_frame; eauto|]. split; [eapply cc_ok_frame; eauto|].
        split; [apply (tri_frame c b fl fl1 1 h1 Hb); auto | apply (upper_free_frame c b fl fl1 h1 Hb); auto]. }
      exists fl2. split; [|split; [|split; [|split; [|split]]]].
      + cbn [flat_map]. rewrite (check_ops_app ly tp), E1. exact E2.
      + intros c [<-|Hc]; [apply SO2; auto | apply A2; exact Hc].
      + intros c k Hc Hnot T'. apply TR2; auto; [intros Hin; apply Hnot; now right|].
        apply (tri_frame c b fl fl1 k Hc Hb); [intros E; subst; apply Hnot; now left | exact F1 | exact T'].
      + intros c Hc Hnot T'. apply UF2; auto; [intros Hin; apply Hnot; now right|].
        apply (upper_free_frame c b fl fl1 Hc Hb); [intros E; subst; apply Hnot; now left | exact F1 | exact T'].
      + intros c k Hc Hnot T'. apply SO2; auto; [intros Hin; apply Hnot; now right|].
        apply (solved_frame c b fl fl1 k Hc Hb); [intros E; subst; apply Hnot; now left | exact F1 | exact T'].
      + intros c. destruct (BR2 c) as (a1 & a2 & a3 & a4). destruct F1 as [_ F1]. destruct (F1 c) as (b1 & b2 & b3 & b4).
        repeat split; congruence.
  Qed.
End Lists.

(* Part 3: the levels *)
Lemma firstn_S_nth_gen {A} (d : A) : forall (l : list A) m, m < length l -> firstn (S m) l = firstn m l ++ [nth m l d].
Proof.
  induction l as [|x l IH]; intros m Hm; cbn in Hm; [lia|].
  destruct m as [|m]; [reflexivity|]. cbn [firstn nth app]. f_equal. apply IH. lia.
Qed.
Lemma skipn_nth_gen {A} (d : A) : forall (l : list A) m, m < length l -> skipn m l = nth m l d :: skipn (S m) l.
Proof.
  induction l as [|x l IH]; intros m Hm; cbn in Hm; [lia|].
  destruct m as [|m]; [reflexivity|]. cbn [skipn nth]. apply IH. lia.
Qed.
Lemma flat_map_fst {A} (f : nat -> list A) (l : list (nat * nat)) :
  flat_map (fun c => f (fst c)) l = flat_map f (map fst l).
Proof. induction l as [|x l IH]; cbn; [reflexivity | now rewrite IH]. Qed.

Record leveled (ly : layout) (tp : topo) (lv : nat -> nat) (levels : list level) : Prop := mkleveled {
  lv_C : forall k b j, k < length levels ->
         (In (b, j) (fst (nth k levels ([], []))) <-> b < nb tp /\ lv b = S k /\ pbp tp b = Some j);
  lv_C_nodup : forall k, k < length levels -> NoDup (map fst (fst (nth k levels ([], []))));
  lv_P : forall k p j, k < length levels ->
         (In (p, j) (snd (nth k levels ([], []))) <-> p < nb tp /\ lv p = k /\ cbp tp p = Some j);
  lv_kid : forall j c, j < nbp tp -> In c (kids tp j) -> lv c = S (lv (par tp j));
  lv_root : 0 < nb tp /\ lv 0 = 0 /\ pbp tp 0 = None /\ forall b, b < nb tp -> pbp tp b = None -> b = 0;
  lv_max : forall b, b < nb tp -> lv b <= length levels;
  lv_kids_ne : forall j, j < nbp tp -> kids tp j <> []
}.

Section Levels.
  Variables (ly : layout) (tp : topo) (lv : nat -> nat) (levels : list level).
  Hypothesis W : wf ly tp.
  Hypothesis LV : leveled ly tp lv levels.

  Notation chks := (check_ops ly tp).
  Notation tri := (tri ly).
  Notation upper_free := (upper_free ly).
  Notation solved := (solved ly).
  Notation cp_ok := (cp_ok tp).
  Notation cc_ok := (cc_ok tp).
  Notation L := (length levels).
  Notation C k := (fst (nth k levels ([], []))).
  Notation P k := (snd (nth k levels ([], []))).

  Lemma lv_of_child b j : b < nb tp -> pbp tp b = Some j -> j < nbp tp /\ lv b = S (lv (par tp j)).
  Proof. intros Hb Hp. destruct (wf_pbp_kids _ _ W b j Hb Hp) as [Hj Hin]. split; [exact Hj | eapply lv_kid; eauto]. Qed.
  Lemma lv_of_parent p j : p < nb tp -> cbp tp p = Some j -> j < nbp tp /\ par tp j = p /\ S (lv p) <= L.
  Proof.
    intros Hp Hc. destruct (wf_cbp _ _ W p j Hp Hc) as [Hj Hpar]. split; [exact Hj|]. split; [exact Hpar|].
    destruct (kids tp j) as [|c r] eqn:E; [exfalso; eapply lv_kids_ne; eauto|].
    assert (Hin : In c (kids tp j)) by (rewrite E; now left).
    destruct (wf_kids_pbp _ _ W j c Hj Hin) as [Hc' _].
    pose proof (lv_kid _ _ _ _ LV j c Hj Hin) as E2. rewrite Hpar in E2. rewrite <- E2. eapply lv_max; eauto.
  Qed.
  Lemma lv_pos_has_parent b : b < nb tp -> 1 <= lv b -> exists j, pbp tp b = Some j.
  Proof.
    intros Hb Hl. destruct (pbp tp b) as [j|] eqn:E; [eauto|].
    destruct (lv_root _ _ _ _ LV) as (_ & H0 & _ & Hr). rewrite (Hr b Hb E) in Hl. lia.
  Qed.

  Lemma last_in_branch p : p < nb tp -> in_branch ly p (last ly p).
  Proof. intros Hp. pose proof (wf_nc _ _ W p Hp). unfold in_branch, last. lia. Qed.

  Lemma tri_except fl fl' b k : (forall i, fU fl' i = fU fl i) -> (forall i, in_branch ly b i -> fN fl' i = fN fl i) ->
    tri fl b k -> tri fl' b k.
  Proof.
    intros HU HN [TN TU]. split; intros i H1 H2.
    - intros H3. rewrite HN by (unfold in_branch; lia). auto.
    - rewrite HU. auto.
  Qed.
  Lemma upper_free_except fl fl' b : (forall i, fU fl' i = fU fl i) -> upper_free fl b -> upper_free fl' b.
  Proof. intros HU H i Hi. rewrite HU. auto. Qed.

  (* ---- triangulation ---- *)
  Definition TI (fl : flags) (k : nat) : Prop :=
    (forall b, b < nb tp -> k < lv b -> tri fl b 1 /\ upper_free fl b /\ fWC fl b = true) /\
    (forall p, p < nb tp -> k <= lv p -> cp_ok fl p).

  Lemma triang_level_step k fl : k < L -> TI fl (S k) ->
    exists fl', chks fl (triang_level ly (nth k levels ([], []))) = Some fl' /\ TI fl' k.
  Proof.
    intros Hk [T1 T2]. unfold triang_level.
    (* A *)
    destruct (triang_list ly tp W (map fst (C k)) fl) as (fl1 & E1 & A1 & TR1 & UF1 & _ & BR1).
    { intros b Hb. apply in_map_iff in Hb. destruct Hb as ([b' j] & <- & Hin). cbn [fst].
      apply (lv_C _ _ _ _ LV k b' j Hk) in Hin. destruct Hin as (Hb & Hl & _). split; [exact Hb | apply T2; [exact Hb | lia]]. }
    (* B *)
    destruct (childlower_list ly tp (C k) fl1) as (fl2 & E2 & A2 & S2 & BR2).
    { intros b j Hin. pose proof Hin as Hin'. apply (lv_C _ _ _ _ LV k b j Hk) in Hin. destruct Hin as (Hb & Hl & Hp).
      split; [exact Hb|]. split; [exact Hp|]. split.
      - apply A1. apply in_map_iff. exists (b, j). auto.
      - intros j' Hj'. destruct (BR1 b) as (_ & -> & _). apply (T2 b Hb ltac:(lia) j' Hj'). }
    (* C *)
    destruct (parentupper_list ly tp (P k) fl2) as (fl3 & E3 & A3 & S3 & BR3).
    { intros p j Hin. apply (lv_P _ _ _ _ LV k p j Hk) in Hin. destruct Hin as (Hp & Hl & Hc).
      split; [exact Hp|]. split; [exact Hc|]. intros c Hc'.
      destruct (lv_of_parent p j Hp Hc) as (Hj & Hpar & _).
      destruct (wf_kids_pbp _ _ W j c Hj Hc') as [Hcb Hcp].
      apply (A2 c j). apply (lv_C _ _ _ _ LV k c j Hk). split; [exact Hcb|]. split; [|exact Hcp].
      rewrite (lv_kid _ _ _ _ LV j c Hj Hc'), Hpar, Hl. reflexivity. }
    exists fl3. split.
    { rewrite flat_map_fst, (check_ops_app ly tp), E1, (check_ops_app ly tp), E2. exact E3. }
    assert (NotLast : forall b p j i, b < nb tp -> In (p, j) (P k) -> k < lv b -> in_branch ly b i -> i <> last ly p).
    { intros b p j i Hb Hin Hl Hi ->. apply (lv_P _ _ _ _ LV k p j Hk) in Hin. destruct Hin as (Hp & Hlp & _).
      apply (disjoint ly tp W b p (last ly p) Hb Hp); [intros ->; lia | exact Hi | apply last_in_branch; exact Hp]. }
    split.
    - intros b Hb Hl.
      assert (Keep : forall fla, tri fla b 1 /\ upper_free fla b -> same_slots fla fl2 \/ True -> True) by auto.
      assert (Step3 : tri fl2 b 1 /\ upper_free fl2 b -> tri fl3 b 1 /\ upper_free fl3 b).
      { intros [Ta Ua]. split.
        - apply (tri_except fl2 fl3 b 1); auto; [intros i; apply S3 | intros i Hi; apply S3; intros p j Hin; eapply NotLast; eauto].
        - apply (upper_free_except fl2 fl3 b); auto. intros i; apply S3. }
      destruct (Nat.eq_dec (lv b) (S k)) as [El|Hne].
      + destruct (lv_pos_has_parent b Hb ltac:(lia)) as [j Hp].
        assert (Hin : In (b, j) (C k)) by (apply (lv_C _ _ _ _ LV k b j Hk); auto).
        assert (Hin' : In b (map fst (C k))) by (apply in_map_iff; exists (b, j); auto).
        destruct (A1 b Hin') as [Ta Ua].
        destruct Step3 as [T3 U3]; [split; [eapply tri_same; eauto | eapply upper_free_same; eauto]|].
        split; [exact T3|]. split; [exact U3|]. destruct (BR3 b) as (_ & -> & _). eapply A2; eauto.
      + destruct (T1 b Hb ltac:(lia)) as (Ta & Ua & Wa).
        assert (Hnot : ~ In b (map fst (C k))).
        { intros Hin. apply in_map_iff in Hin. destruct Hin as ([b' j] & E & Hin). cbn [fst] in E. subst b'.
          apply (lv_C _ _ _ _ LV k b j Hk) in Hin. lia. }
        destruct Step3 as [T3 U3].
        { split; [eapply tri_same; [exact S2|]; apply TR1; auto | eapply upper_free_same; [exact S2|]; apply UF1; auto]. }
        split; [exact T3|]. split; [exact U3|]. destruct (BR3 b) as (_ & -> & _). destruct (BR2 b) as (_ & _ & _ & M). apply M.
        destruct (BR1 b) as (_ & _ & -> & _). exact Wa.
    - intros p Hp Hl j Hc.
      destruct (Nat.eq_dec (lv p) k) as [El|Hne].
      + apply (A3 p j). apply (lv_P _ _ _ _ LV k p j Hk). auto.
      + destruct (BR3 p) as (_ & _ & _ & M). apply M. destruct (BR2 p) as (_ & -> & _). destruct (BR1 p) as (_ & -> & _).
        apply (T2 p Hp ltac:(lia) j Hc).
  Qed.

  Lemma firstn_S_nth m : m < L -> firstn (S m) levels = firstn m levels ++ [nth m levels ([], [])].
  Proof. apply firstn_S_nth_gen. Qed.

  Lemma triang_phase : forall m fl, m <= L -> TI fl m ->
    exists fl', chks fl (flat_map (triang_level ly) (rev (firstn m levels))) = Some fl' /\ TI fl' 0.
  Proof.
    induction m as [|m IH]; intros fl Hm T.
    - exists fl. cbn. auto.
    - rewrite firstn_S_nth by lia. rewrite rev_app_distr. cbn [rev app flat_map].
      destruct (triang_level_step m fl ltac:(lia) T) as (fl1 & E1 & T1).
      destruct (IH fl1 ltac:(lia) T1) as (fl2 & E2 & T2).
      exists fl2. split; [|exact T2]. rewrite (check_ops_app ly tp), E1. exact E2.
  Qed.

  Lemma TI_init : TI flags0 L.
  Proof.
    split.
    - intros b Hb Hl. pose proof (lv_max _ _ _ _ LV b Hb). lia.
    - intros p Hp Hl j Hc. destruct (lv_of_parent p j Hp Hc) as (_ & _ & H). lia.
  Qed.

  (* ---- back-substitution ---- *)
  Definition BI (fl : flags) (k : nat) : Prop :=
    (forall b, b < nb tp -> lv b <= k -> solved fl b (pl ly b) /\ cc_ok fl b) /\
    (forall b, b < nb tp -> k < lv b -> tri fl b 1 /\ upper_free fl b) /\
    (forall b, b < nb tp -> cp_ok fl b /\ (forall j, pbp tp b = Some j -> fWC fl b = true)) /\
    (forall p, p < nb tp -> lv p < k -> forall j, cbp tp p = Some j -> fWP fl p = true).

  Lemma skipn_nth m : m < L -> skipn m levels = nth m levels ([], []) :: skipn (S m) levels.
  Proof. apply skipn_nth_gen. Qed.

  Lemma backsub_level_step k fl : k < L -> BI fl k ->
    exists fl', chks fl (backsub_level ly (nth k levels ([], []))) = Some fl' /\ BI fl' (S k).
  Proof.
    intros Hk (B1 & B2 & B3 & B4). unfold backsub_level.
    (* D *)
    destruct (parentlower_list ly tp W (P k) fl) as (fl1 & E1 & A1 & S1 & BR1).
    { intros p j Hin. apply (lv_P _ _ _ _ LV k p j Hk) in Hin. destruct Hin as (Hp & Hl & Hc).
      destruct (B1 p Hp ltac:(lia)) as [So Cc]. destruct (B3 p Hp) as [Cp _]. auto. }
    (* E *)
    destruct (childupper_list ly tp (C k) fl1) as (fl2 & E2 & A2 & S2 & BR2).
    { intros b j Hin. apply (lv_C _ _ _ _ LV k b j Hk) in Hin. destruct Hin as (Hb & Hl & Hp).
      destruct (lv_of_child b j Hb Hp) as [Hj Hlv].
      split; [exact Hb|]. split; [exact Hp|]. split.
      - intros c Hc. destruct (wf_kids_pbp _ _ W j c Hj Hc) as [Hcb Hcp].
        destruct (BR1 c) as (_ & _ & -> & _). destruct (B3 c Hcb) as [_ M]. eapply M; eauto.
      - destruct (wf_par _ _ W j Hj) as [Hpb Hpc].
        apply (A1 (par tp j) j). apply (lv_P _ _ _ _ LV k (par tp j) j Hk). split; [exact Hpb|]. split; [lia | exact Hpc]. }
    (* F *)
    destruct (backsub_list ly tp W (map fst (C k)) fl2) as (fl3 & E3 & A3 & TR3 & UF3 & SO3 & BR3).
    { intros b Hb. apply in_map_iff in Hb. destruct Hb as ([b' j] & <- & Hin). cbn [fst].
      pose proof Hin as Hin'. apply (lv_C _ _ _ _ LV k b' j Hk) in Hin. destruct Hin as (Hb & Hl & Hp).
      destruct (B2 b' Hb ltac:(lia)) as [T U]. destruct (B3 b' Hb) as [Cp _].
      split; [exact Hb|]. split; [|split; [|split]].
      - intros j' Hj'. destruct (BR2 b') as (-> & _). destruct (BR1 b') as (_ & -> & _). eauto.
      - intros j' Hj'. rewrite Hp in Hj'. inversion Hj'; subst. eapply A2; eauto.
      - eapply tri_same; [exact S2|]. eapply tri_same; [exact S1|]. exact T.
      - eapply upper_free_same; [exact S2|]. eapply upper_free_same; [exact S1|]. exact U. }
    { apply (lv_C_nodup _ _ _ _ LV k Hk). }
    exists fl3. split.
    { rewrite (check_ops_app ly tp), E1, (check_ops_app ly tp), E2, flat_map_fst. exact E3. }
    assert (InC : forall b, b < nb tp -> lv b = S k -> In b (map fst (C k))).
    { intros b Hb Hl. destruct (lv_pos_has_parent b Hb ltac:(lia)) as [j Hp]. apply in_map_iff. exists (b, j). split; [reflexivity|].
      apply (lv_C _ _ _ _ LV k b j Hk). auto. }
    assert (NotC : forall b, b < nb tp -> lv b <> S k -> ~ In b (map fst (C k))).
    { intros b Hb Hl Hin. apply in_map_iff in Hin. destruct Hin as ([b' j] & E & Hin). cbn [fst] in E. subst b'.
      apply (lv_C _ _ _ _ LV k b j Hk) in Hin. lia. }
    split; [|split; [|split]].
    - intros b Hb Hl. destruct (Nat.eq_dec (lv b) (S k)) as [El|Hne].
      + split; [apply A3; apply InC; auto|].
        intros j Hp. destruct (BR3 b) as (-> & _). apply (A2 b j). apply (lv_C _ _ _ _ LV k b j Hk). auto.
      + destruct (B1 b Hb ltac:(lia)) as [So Cc]. split.
        * apply SO3; auto. eapply solved_same; [exact S2|]. eapply solved_same; [exact S1|]. exact So.
        * intros j Hp. destruct (BR3 b) as (-> & _). destruct (BR2 b) as (_ & _ & _ & M). apply M.
          destruct (BR1 b) as (-> & _). eauto.
    - intros b Hb Hl. destruct (B2 b Hb ltac:(lia)) as [T U]. split.
      + apply TR3; auto; [apply NotC; auto; lia|]. eapply tri_same; [exact S2|]. eapply tri_same; [exact S1|]. exact T.
      + apply UF3; auto; [apply NotC; auto; lia|]. eapply upper_free_same; [exact S2|]. eapply upper_free_same; [exact S1|]. exact U.
    - intros b Hb. destruct (B3 b Hb) as [Cp Wc]. split.
      + intros j Hc. destruct (BR3 b) as (_ & -> & _). destruct (BR2 b) as (-> & _). destruct (BR1 b) as (_ & -> & _). eauto.
      + intros j Hp. destruct (BR3 b) as (_ & _ & -> & _). destruct (BR2 b) as (_ & -> & _). destruct (BR1 b) as (_ & _ & -> & _). eauto.
    - intros p Hp Hl j Hc. destruct (BR3 p) as (_ & _ & _ & ->). destruct (BR2 p) as (_ & _ & -> & _).
      destruct (Nat.eq_dec (lv p) k) as [El|Hne].
      + apply (A1 p j). apply (lv_P _ _ _ _ LV k p j Hk). auto.
      + destruct (BR1 p) as (_ & _ & _ & M). apply M. apply (B4 p Hp ltac:(lia) j Hc).
  Qed.

  Lemma backsub_phase : forall d m fl, m + d = L -> BI fl m ->
    exists fl', chks fl (flat_map (backsub_level ly) (skipn m levels)) = Some fl' /\ BI fl' L.
  Proof.
    induction d as [|d IH]; intros m fl Hm B.
    - replace m with L by lia. rewrite skipn_all. exists fl. cbn. replace L with m by lia. auto.
    - rewrite skipn_nth by lia. cbn [flat_map].
      destruct (backsub_level_step m fl ltac:(lia) B) as (fl1 & E1 & B1).
      destruct (IH (S m) fl1 ltac:(lia) B1) as (fl2 & E2 & B2).
      exists fl2. split; [|exact B2]. rewrite (check_ops_app ly tp), E1. exact E2.
  Qed.

  Lemma lv0_is_root b : b < nb tp -> lv b = 0 -> b = 0.
  Proof.
    intros Hb Hl. destruct (pbp tp b) as [j|] eqn:E.
    - destruct (lv_of_child b j Hb E) as [_ H]. lia.
    - destruct (lv_root _ _ _ _ LV) as (_ & _ & _ & Hr). auto.
  Qed.

  Theorem tree_schedule_ok :
    exists fl, chks flags0 (ops_of_idx ly levels [0]) = Some fl /\ final_ok ly tp fl = true.
  Proof.
    destruct (lv_root _ _ _ _ LV) as (H0 & Hl0 & Hp0 & Hr).
    unfold ops_of_idx. cbn [flat_map]. rewrite !app_nil_r.
    destruct (triang_phase L flags0 (le_n _) TI_init) as (fl1 & E1 & [T1 T2]). rewrite firstn_all in E1.
    destruct (triang_ok ly tp fl1 0 H0 (T2 0 H0 ltac:(lia))) as (fl2 & E2 & Tr2 & U2 & F2).
    assert (CC2 : cc_ok fl2 0) by (intros j Hj; congruence).
    assert (CP2 : cp_ok fl2 0) by (eapply cp_ok_frame; [exact F2|]; apply T2; [exact H0 | lia]).
    destruct (backsub_ok ly tp W fl2 0 H0 CP2 CC2 Tr2 U2) as (fl3 & E3 & S3 & F3).
    assert (F13 : frame ly 0 fl1 fl3) by (eapply frame_trans; eauto).
    assert (B0 : BI fl3 0).
    { split; [|split; [|split]].
      - intros b Hb Hl. assert (b = 0) by (apply lv0_is_root; [exact Hb | lia]). subst b. split; [exact S3|].
        intros j Hj. congruence.
      - intros b Hb Hl. assert (b <> 0) by (intros ->; lia). destruct (T1 b Hb Hl) as (Ta & Ua & _). split.
        + apply (tri_frame ly tp W b 0 fl1 fl3 1 Hb H0); auto.
        + apply (upper_free_frame ly tp W b 0 fl1 fl3 Hb H0); auto.
      - intros b Hb. split.
        + eapply cp_ok_frame; [exact F13|]. apply T2; [exact Hb | lia].
        + intros j Hp. destruct (lv_of_child b j Hb Hp) as [_ Hlv]. destruct (T1 b Hb ltac:(lia)) as (_ & _ & Wc).
          destruct F13 as [_ F]. destruct (F b) as (_ & _ & -> & _). exact Wc.
      - intros p Hp Hl. lia. }
    destruct (backsub_phase L 0 fl3 ltac:(lia) B0) as (fl4 & E4 & (B1 & B2 & B3 & B4)). cbn [skipn] in E4.
    exists fl4. split.
    { rewrite (check_ops_app ly tp), E1, (check_ops_app ly tp), E2, (check_ops_app ly tp), E3. exact E4. }
    unfold final_ok. apply andb_true_iff. split.
    - apply forallb_forall. intros b Hb. apply in_seq in Hb. apply forallb_forall. intros k Hk. apply in_seq in Hk.
      assert (Hb' : b < nb tp) by lia.
      destruct (B1 b Hb' (lv_max _ _ _ _ LV b Hb')) as [(HN & HU & HL) Cc]. destruct (B3 b Hb') as [Cp _].
      unfold row_final. rewrite (HN k) by lia. rewrite (cpz_of ly tp fl4 b k Cp), (ccz_of tp fl4 b k Cc).
      assert (E5 : lzb ly fl4 b k = true).
      { unfold lzb. destruct (Nat.eqb_spec k 0); [reflexivity|]. cbn [orb]. apply HL; lia. }
      assert (E6 : uzb ly fl4 b k = true).
      { unfold uzb. destruct (Nat.ltb_spec (S k) (pl ly b)); cbn [negb orb]; [|reflexivity]. apply HU. lia. }
      rewrite E5, E6. reflexivity.
    - apply forallb_forall. intros j Hj. apply in_seq in Hj. assert (Hj' : j < nbp tp) by lia.
      destruct (wf_par _ _ W j Hj') as [Hpb Hpc]. destruct (lv_of_parent (par tp j) j Hpb Hpc) as (_ & _ & Hlt).
      apply andb_true_iff. split.
      + unfold kidsb. apply forallb_forall. intros c Hc. destruct (wf_kids_pbp _ _ W j c Hj' Hc) as [Hcb Hcp].
        destruct (B3 c Hcb) as [_ M]. eapply M; eauto.
      + apply (B4 (par tp j) Hpb ltac:(lia) j Hpc).
  Qed.
End Levels.
