From Coq Require Import List Arith Bool Lia.
From JV Require Import Heap.
Import ListNotations.

Lemma fold_max_ge l x : In x l -> x <= fold_right Nat.max 0 l.
Proof. induction l as [|a l IH]; cbn; [intros []|]. intros [->|H]; [lia | specialize (IH H); lia]. Qed.

Lemma ids_below_bound h i : In i (ids h) -> i < bound h.
Proof. intros H. unfold bound. assert (i <= fold_right Nat.max 0 (ids h ++ flat_map (fun e => snd (snd e)) h)); [|lia].
  apply fold_max_ge. apply in_or_app. left. exact H. Qed.

Lemma lookup_in h i o : lookup h i = Some o -> In i (ids h).
Proof.
  induction h as [|[j o'] h IH]; cbn; [discriminate|].
  destruct (Nat.eqb_spec j i); [intros _; left; assumption | intros H; right; apply IH; exact H].
Qed.
Lemma lookup_not_in h i : ~ In i (ids h) -> lookup h i = None.
Proof.
  induction h as [|[j o'] h IH]; cbn; [reflexivity|]. intros H.
  destruct (Nat.eqb_spec j i); [exfalso; apply H; left; assumption | apply IH; intros Hin; apply H; right; exact Hin].
Qed.

(* the copy is isomorphic to the original through i |-> i + k *)
Theorem copy_isomorphic h k i :
  lookup (copy_at k h) (i + k) = option_map (shift_obj k) (lookup h i).
Proof.
  induction h as [|[j o] h IH]; cbn; [reflexivity|].
  destruct (Nat.eqb_spec j i) as [->|Hne].
  - rewrite Nat.eqb_refl. reflexivity.
  - destruct (Nat.eqb_spec (j + k) (i + k)); [lia | exact IH].
Qed.

(* ... and disjoint from it: no object of the copy is an object of the original *)
Theorem copy_disjoint h i : In i (ids (deepcopy h)) -> ~ In i (ids h).
Proof.
  unfold deepcopy, copy_at, ids. rewrite map_map. intros Hin Hin2.
  apply in_map_iff in Hin. destruct Hin as ([j o] & E & Hj). cbn in E.
  apply ids_below_bound in Hin2. subst i. lia.
Qed.

(* no field of the copy points back into the original *)
Theorem copy_fields_fresh h i o f :
  lookup (deepcopy h) i = Some o -> In f (snd o) -> bound h <= f.
Proof.
  unfold deepcopy, copy_at. induction h as [|[j o'] h' IH] in |- *; cbn; [discriminate|].
  generalize (bound ((j, o') :: h')) as k. intros k.
  assert (G : forall hh, lookup (map (fun e => (fst e + k, shift_obj k (snd e))) hh) i = Some o -> In f (snd o) -> k <= f).
  { induction hh as [|[a b] hh IHh]; cbn; [discriminate|].
    destruct (Nat.eqb_spec (a + k) i).
    - intros E Hf. inversion E; subst. cbn in Hf. apply in_map_iff in Hf. destruct Hf as (x & <- & _). lia.
    - exact IHh. }
  intros H1 H2. exact (G ((j, o') :: h') H1 H2).
Qed.

(* editing the copy does not alter the original: in the heap that holds both, every object
   of the original is unchanged after any update of an object of the copy *)
Lemma lookup_update_other h i j o : i <> j -> lookup (update h j o) i = lookup h i.
Proof.
  intros Hne. induction h as [|[a b] h IH]; cbn; [reflexivity|].
  destruct (Nat.eqb_spec a j) as [->|Ha]; cbn.
  - destruct (Nat.eqb_spec j i); [congruence | reflexivity].
  - destruct (Nat.eqb_spec a i); [reflexivity | exact IH].
Qed.
Theorem edit_copy_preserves_original h i j o :
  In i (ids h) -> In j (ids (deepcopy h)) ->
  lookup (update (h ++ deepcopy h) j o) i = lookup (h ++ deepcopy h) i.
Proof.
  intros Hi Hj. apply lookup_update_other. intros E. subst j. apply copy_disjoint in Hj. contradiction.
Qed.

(* copies of a picklable graph are picklable (kinds are preserved) *)
Theorem copy_keeps_kinds h k : all_picklable (copy_at k h) = all_picklable h.
Proof. unfold all_picklable, copy_at. induction h as [|[j [kd fs]] h IH]; cbn; [reflexivity|]. rewrite IH. reflexivity. Qed.
