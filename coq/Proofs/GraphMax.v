(* C02 at the array level: the discrete maximum principle of the graph system.  If (x, y) solves the
   backward-Euler equations of the conductance graph (AssembleGraph.graph_eq) with positive conductances,
   vt >= 0, dt > 0, and for every compartment  v_c <= hi  and  ct_c <= vt_c * hi  (every membrane term pulls
   to at most hi), then every compartment value is <= hi; symmetrically from below.  With
   cell_step_solves_the_graph_equations: for EVERY cell the voltages after an implicit step stay between the
   extremes of the previous voltages and the reversal potentials. *)
From Coq Require Import Reals List Arith Bool Lia Lra.
From JV Require Import HinesArr HinesCheck HinesArrFacts HinesArrPositive AsmStruct AssembleM AssembleGraph.
Import ListNotations.
Local Open Scope R_scope.

Lemma wsum_val_le {A} (f h : A -> R) p l : (forall e, In e l -> p e = true -> f e <= h e) -> wsum f p l <= wsum h p l.
Proof.
  induction l as [|e l IH]; intros H; cbn [wsum fold_right]; [lra|]. fold (wsum f p l) (wsum h p l).
  assert (wsum f p l <= wsum h p l) by (apply IH; intros; apply H; auto; now right).
  destruct (p e) eqn:E; [pose proof (H e (or_introl eq_refl) E)|]; lra.
Qed.

Lemma wsum0 {A} (p : A -> bool) l : wsum (fun _ : A => 0) p l = 0.
Proof. induction l as [|e l IH]; cbn [wsum fold_right]; [reflexivity|]. fold (wsum (fun _ : A => 0) p l). rewrite IH. destruct (p e); lra. Qed.

Lemma argmax (f : nat -> R) : forall n, (1 <= n)%nat -> exists c, (c < n)%nat /\ forall c', (c' < n)%nat -> f c' <= f c.
Proof.
  induction n as [|n IH]; intros Hn; [lia|]. destruct n as [|n].
  - exists 0%nat. split; [lia|]. intros c' Hc'. replace c' with 0%nat by lia. lra.
  - destruct (IH ltac:(lia)) as (c & Hc & Hmax). destruct (Rle_dec (f (S n)) (f c)) as [Hle|Hgt].
    + exists c. split; [lia|]. intros c' Hc'. destruct (Nat.eq_dec c' (S n)) as [->|]; [exact Hle | apply Hmax; lia].
    + exists (S n). split; [lia|]. intros c' Hc'. destruct (Nat.eq_dec c' (S n)) as [->|]; [lra|]. pose proof (Hmax c' ltac:(lia)). lra.
Qed.

Section Max.
  Variables (ly : layout) (tp : topo).
  Hypothesis W : wf ly tp.
  Variables (mask : nat -> nat) (ncomp : nat) (es : list (edge R)) (v vt ct : nat -> R) (dt : R)
            (group child_inds par_inds : list nat).
  Hypothesis G : graph_struct ly tp mask ncomp es group child_inds par_inds.
  Hypothesis B : graph_struct_bp ly mask ncomp es group child_inds par_inds.
  Hypothesis Hn : (1 <= ncomp)%nat.
  Hypothesis Hdt : 0 < dt.
  Hypothesis Hg : forall e, In e es -> 0 < e_g R e.
  Hypothesis Hvt : forall c, (c < ncomp)%nat -> 0 <= vt c.
  Let St := gs_asm _ _ _ _ _ _ _ _ G.
  Notation g := (e_g R).
  Notation src := (e_source R).
  Notation snk := (e_sink R).
  Notation n3 := (length par_inds).
  Variables (x y : nat -> R).
  Notation zz := (zz mask ncomp x y).

  (* ---- what the sources of the edges are ---- *)
  Lemma in_of_type t e : In e es -> e_type R e = t -> exists idx, (idx < length (of_type R t es))%nat /\ nth idx (of_type R t es) e0 = e.
  Proof.
    intros He Ht. assert (Hin : In e (of_type R t es)) by (unfold of_type; apply filter_In; split; [exact He | rewrite Ht; apply Nat.eqb_refl]).
    apply (In_nth _ _ e0 Hin).
  Qed.

  Lemma bp_edge_source j e : In e es -> bp_into ncomp j e = true -> (src e < ncomp)%nat.
  Proof.
    intros He Hp. unfold bp_into in Hp. apply andb_true_iff in Hp. destruct Hp as [Ht _]. apply orb_true_iff in Ht. unfold is_type in Ht.
    destruct Ht as [Ht|Ht]; apply Nat.eqb_eq in Ht.
    - destruct (in_of_type 3 e He Ht) as (idx & Hi & <-). rewrite (as_len3 _ _ _ _ _ _ _ St) in Hi. apply (gb_src3 _ _ _ _ _ _ _ B idx Hi).
    - destruct (in_of_type 4 e He Ht) as (idx & Hi & <-). rewrite (as_len4 _ _ _ _ _ _ _ St) in Hi. apply (gb_src4 _ _ _ _ _ _ _ B idx Hi).
  Qed.

  Lemma comp_edge_source c e : In e es -> into c e = true -> (src e < ncomp)%nat \/ exists j, (j < nbp tp)%nat /\ src e = (ncomp + j)%nat.
  Proof.
    intros He Hp. unfold into in Hp. apply andb_true_iff in Hp. destruct Hp as [Ht _]. apply Nat.leb_le in Ht.
    destruct (Nat.eq_dec (e_type R e) 0) as [E0|N0]; [left; apply (gs_src0 _ _ _ _ _ _ _ _ G e He E0)|]. right.
    destruct (Nat.eq_dec (e_type R e) 1) as [E1|N1].
    - destruct (in_of_type 1 e He E1) as (idx & Hi & <-). rewrite (as_len1 _ _ _ _ _ _ _ St) in Hi.
      exists (nth idx group 0%nat). split; [|apply (gs_src1 _ _ _ _ _ _ _ _ G idx Hi)].
      pose proof (as_g3 _ _ _ _ _ _ _ St idx Hi) as G3. apply (wf_cbp _ _ W _ _ (gs_par_lt _ _ _ _ _ _ _ _ G idx Hi) G3).
    - assert (E2 : e_type R e = 2%nat) by lia. destruct (in_of_type 2 e He E2) as (idx & Hi & <-). rewrite (as_len2 _ _ _ _ _ _ _ St) in Hi.
      exists (nth (n3 + idx) group 0%nat). split; [|apply (gs_src2 _ _ _ _ _ _ _ _ G idx Hi)].
      pose proof (as_g4 _ _ _ _ _ _ _ St idx Hi) as G4. apply (wf_pbp_kids _ _ W _ _ (gs_child_lt _ _ _ _ _ _ _ _ G idx Hi) G4).
  Qed.

  (* some edge with positive conductance ends in every branch point *)
  Lemma bp_total_pos j : (j < nbp tp)%nat -> 0 < wsum g (bp_into ncomp j) es.
  Proof.
    intros Hj. destruct (wf_par _ _ W j Hj) as [Hpb Hcb].
    pose proof (gs_par_in _ _ _ _ _ _ _ _ G (par tp j) j Hpb Hcb) as Hin. destruct (In_nth _ _ 0%nat Hin) as (idx0 & H0 & E0').
    assert (Hl : (idx0 < length (of_type R 3 es))%nat) by (rewrite (as_len3 _ _ _ _ _ _ _ St); exact H0).
    set (e := nth idx0 (of_type R 3 es) e0) in *.
    assert (He : In e (of_type R 3 es)) by (apply nth_In; exact Hl). unfold of_type in He. apply filter_In in He. destruct He as [He Ht].
    assert (Hp : bp_into ncomp j e = true).
    { unfold bp_into, is_type. rewrite Ht. cbn [orb andb]. apply Nat.eqb_eq. unfold e. rewrite (gb_snk3 _ _ _ _ _ _ _ B idx0 H0).
      pose proof (as_g3 _ _ _ _ _ _ _ St idx0 H0) as G3. rewrite E0', Hcb in G3. inversion G3. reflexivity. }
    pose proof (wsum_ge_elem g (bp_into ncomp j) es e (fun x Hx => Rlt_le _ _ (Hg x Hx)) He Hp). pose proof (Hg e He). lra.
  Qed.

  (* ---- upper bound ---- *)
  Hypothesis Sol : graph_eq ly tp mask ncomp es v vt ct dt x y.

  Lemma bp_below M j : (j < nbp tp)%nat -> (forall c, (c < ncomp)%nat -> x (mask c) <= M) -> y j <= M.
  Proof.
    intros Hj HM. destruct Sol as (_ & HB & _). pose proof (HB j Hj) as Eq. unfold bp_graph in Eq.
    assert (Hle : wsum (fun e => g e * (zz (src e) - y j)) (bp_into ncomp j) es <= wsum (fun e => g e * (M - y j)) (bp_into ncomp j) es).
    { apply wsum_val_le. intros e He Hp. pose proof (bp_edge_source j e He Hp) as Hs. pose proof (Hg e He).
      assert (zz (src e) <= M) by (unfold AssembleGraph.zz; destruct (Nat.ltb_spec (src e) ncomp); [apply HM; assumption | lia]). nra. }
    rewrite wsum_mul_const in Hle. pose proof (bp_total_pos j Hj). nra.
  Qed.

  Theorem graph_upper_bound hi : (forall c, (c < ncomp)%nat -> v c <= hi /\ ct c <= vt c * hi) ->
    forall c, (c < ncomp)%nat -> x (mask c) <= hi.
  Proof.
    intros Hb. destruct (argmax (fun c => x (mask c)) ncomp Hn) as (cm & Hcm & Hmax). set (M := x (mask cm)) in *.
    assert (HM : M <= hi).
    { destruct Sol as (HC & _ & _). pose proof (HC cm Hcm) as Eq. unfold comp_lhs, comp_rhs in Eq. fold M in Eq.
      assert (Hs : 0 <= wsum (fun e => g e * (M - zz (src e))) (into cm) es).
      { replace 0 with (wsum (fun _ : edge R => 0) (into cm) es) by (apply wsum0).
        apply wsum_val_le. intros e He Hp. pose proof (Hg e He).
        assert (zz (src e) <= M); [|nra].
        destruct (comp_edge_source cm e He Hp) as [Hs|(j & Hj & Es)].
        - unfold AssembleGraph.zz. destruct (Nat.ltb_spec (src e) ncomp); [apply (Hmax _ Hs) | lia].
        - unfold AssembleGraph.zz. rewrite Es. destruct (Nat.ltb_spec (ncomp + j) ncomp); [lia|].
          replace (ncomp + j - ncomp)%nat with j by lia. apply (bp_below M j Hj). intros c Hc. apply (Hmax c Hc). }
      destruct (Hb cm Hcm) as [B1 B2]. pose proof (Hvt cm Hcm) as Hv0.
      set (S := wsum (fun e => g e * (M - zz (src e))) (into cm) es) in *.
      assert (P1 : 0 <= dt * S) by (apply Rmult_le_pos; lra).
      assert (P2 : dt * ct cm <= dt * (vt cm * hi)) by (apply Rmult_le_compat_l; lra).
      assert (P3 : 0 < 1 + dt * vt cm) by (assert (0 <= dt * vt cm) by (apply Rmult_le_pos; lra); lra).
      assert (P4 : (M - hi) * (1 + dt * vt cm) <= 0) by lra.
      destruct (Rle_dec M hi) as [|Hn']; [assumption|]. exfalso. assert (0 < (M - hi) * (1 + dt * vt cm)) by (apply Rmult_lt_0_compat; lra). lra. }
    intros c Hc. pose proof (Hmax c Hc). cbv beta in H. fold M in H. lra.
  Qed.
End Max.

(* ---- lower bound, by the symmetry (x, y, v, ct) -> (-x, -y, -v, -ct) ---- *)
Lemma wsum_opp {A} (f : A -> R) p l : wsum (fun e => - f e) p l = - wsum f p l.
Proof. induction l as [|e l IH]; cbn [wsum fold_right]; [lra|]. fold (wsum (fun e => - f e) p l) (wsum f p l). rewrite IH. destruct (p e); lra. Qed.

Lemma zz_opp mask ncomp x y n : zz mask ncomp (fun i => - x i) (fun j => - y j) n = - zz mask ncomp x y n.
Proof. unfold zz. destruct (n <? ncomp)%nat; reflexivity. Qed.

Lemma graph_eq_opp ly tp mask ncomp es v vt ct dt x y :
  graph_eq ly tp mask ncomp es v vt ct dt x y ->
  graph_eq ly tp mask ncomp es (fun c => - v c) vt (fun c => - ct c) dt (fun i => - x i) (fun j => - y j).
Proof.
  intros (HC & HB & HP). split; [|split].
  - intros c Hc. pose proof (HC c Hc) as Eq. unfold comp_lhs, comp_rhs in *.
    rewrite (wsum_val_ext (fun e => e_g R e * (- x (mask c) - zz mask ncomp (fun i => - x i) (fun j => - y j) (e_source R e)))
                          (fun e => - (e_g R e * (x (mask c) - zz mask ncomp x y (e_source R e))))) by (intros; rewrite zz_opp; lra).
    rewrite wsum_opp. lra.
  - intros j Hj. pose proof (HB j Hj) as Eq. unfold bp_graph in *.
    rewrite (wsum_val_ext (fun e => e_g R e * (zz mask ncomp (fun i => - x i) (fun j0 => - y j0) (e_source R e) - - y j))
                          (fun e => - (e_g R e * (zz mask ncomp x y (e_source R e) - y j)))) by (intros; rewrite zz_opp; lra).
    rewrite wsum_opp. lra.
  - intros b k Hb Hk. rewrite (HP b k Hb Hk). lra.
Qed.

Theorem graph_bounds (ly : layout) (tp : topo) (W : wf ly tp)
        (mask : nat -> nat) (ncomp : nat) (es : list (edge R)) (v vt ct : nat -> R) (dt : R) (group child_inds par_inds : list nat)
        (G : graph_struct ly tp mask ncomp es group child_inds par_inds)
        (B : graph_struct_bp ly mask ncomp es group child_inds par_inds) (x y : nat -> R) (lo hi : R) :
  (1 <= ncomp)%nat -> 0 < dt -> (forall e, In e es -> 0 < e_g R e) -> (forall c, (c < ncomp)%nat -> 0 <= vt c) ->
  graph_eq ly tp mask ncomp es v vt ct dt x y ->
  (forall c, (c < ncomp)%nat -> lo <= v c <= hi /\ vt c * lo <= ct c <= vt c * hi) ->
  forall c, (c < ncomp)%nat -> lo <= x (mask c) <= hi.
Proof.
  intros Hn Hdt Hg Hvt Sol Hb c Hc. split.
  - pose proof (graph_upper_bound ly tp W mask ncomp es (fun c => - v c) vt (fun c => - ct c) dt group child_inds par_inds G B Hn Hdt Hg Hvt
                  (fun i => - x i) (fun j => - y j) (graph_eq_opp _ _ _ _ _ _ _ _ _ _ _ Sol) (- lo)) as U.
    assert (forall c, (c < ncomp)%nat -> - v c <= - lo /\ - ct c <= vt c * - lo) by (intros c' Hc'; destruct (Hb c' Hc') as [[? ?] [? ?]]; split; lra).
    pose proof (U H c Hc). cbv beta in H0. lra.
  - apply (graph_upper_bound ly tp W mask ncomp es v vt ct dt group child_inds par_inds G B Hn Hdt Hg Hvt x y Sol hi); [|exact Hc].
    intros c' Hc'. destruct (Hb c' Hc') as [[? ?] [? ?]]. split; lra.
Qed.
