(* Generic consequences for tree-structured systems (used by C02):
   - maximum principle for dominant trees,
   - self-adjointness with respect to symmetrising weights (=> charge balance and
     reciprocity). *)
From Coq Require Import Reals Lra List.
From JV Require Import TreeSolve TreeSolveFacts.
Import ListNotations.
Local Open Scope R_scope.

(* ---------------------------------------------------------------- maximum principle *)
(* every right-hand side is at most (row sum) * M *)
Fixpoint rhs_le (M : R) (t : treeR) : Prop :=
  match t with
  | Node d u l b cs =>
      b <= (d + u + lsum cs) * M /\
      (fix all (cs : list treeR) : Prop := match cs with [] => True | c :: cs' => rhs_le M c /\ all cs' end) cs
  end.
Fixpoint all_rhs_le (M : R) (cs : list treeR) : Prop :=
  match cs with [] => True | c :: cs' => rhs_le M c /\ all_rhs_le M cs' end.
Lemma rhs_le_unfold M d u l b cs :
  rhs_le M (Node d u l b cs) <-> (b <= (d + u + lsum cs) * M /\ all_rhs_le M cs).
Proof.
  cbn [rhs_le].
  assert (E : forall cs0, (fix all (cs : list treeR) : Prop := match cs with [] => True | c :: cs' => rhs_le M c /\ all cs' end) cs0 <-> all_rhs_le M cs0).
  { induction cs0; cbn; tauto. }
  rewrite E. tauto.
Qed.

(* bottom-up invariant of the triangulation *)
Lemma reduced_rhs_le M : forall t, dominant t -> rhs_le M t ->
  snd (reduceR t) <= (fst (reduceR t) + t_u t) * M.
Proof.
  induction t as [d u l b cs IH] using tree_ind'. intros Hd Hb.
  destruct (proj1 (dominant_unfold d u l b cs) Hd) as (Hu & Hl & Hs & Hpos & Hall).
  destruct (proj1 (rhs_le_unfold M d u l b cs) Hb) as (Hb0 & Hball).
  rewrite reduce_node. cbn [fst snd t_u].
  assert (Hch : forall cs0, Forall (fun t => dominant t -> rhs_le M t ->
                   snd (reduceR t) <= (fst (reduceR t) + t_u t) * M) cs0 ->
            all_dom cs0 -> all_rhs_le M cs0 ->
            - S2 cs0 <= (- lsum cs0 - S1 cs0) * M).
  { induction cs0 as [|c cs0 IHc]; intros HF HA HB; cbn in HA, HB.
    - unfold S1, S2, lsum; cbn. lra.
    - inversion HF as [|? ? Hc HF']; subst. destruct HA as [HA1 HA2]. destruct HB as [HB1 HB2].
      specialize (IHc HF' HA2 HB2). specialize (Hc HA1 HB1).
      destruct (pivots_positive c HA1) as [P1 P2].
      destruct c as [dc uc lc bc ccs].
      destruct (proj1 (dominant_unfold dc uc lc bc ccs) HA1) as (Huc & Hlc & Hsc & Hposc & _).
      cbn [t_d t_children t_u] in *.
      unfold S1, S2, lsum in *. cbn [fold_right t_l t_u].
      set (dc' := fst (reduceR (Node dc uc lc bc ccs))) in *.
      set (bc' := snd (reduceR (Node dc uc lc bc ccs))) in *.
      assert (Hdc : 0 < dc') by lra.
      (* (-lc/dc') * bc' <= (-lc/dc') * (dc' + uc) * M = (-lc - lc*uc/dc') * M *)
      assert (K : 0 <= - lc / dc') by (apply Rle_mult_inv_pos; lra).
      assert (T : - lc / dc' * bc' <= - lc / dc' * ((dc' + uc) * M)) by (apply Rmult_le_compat_l; assumption).
      replace (- lc / dc' * ((dc' + uc) * M)) with ((- lc - lc / dc' * uc) * M) in T by (field; lra).
      replace (lc / dc' * bc') with (- (- lc / dc' * bc')) by (field; lra). lra. }
  specialize (Hch cs IH Hall Hball). lra.
Qed.

(* top-down: every computed unknown is at most M (given the parent's is, or at the root) *)
Theorem max_principle_sub M : forall t xp, dominant t -> rhs_le M t ->
  (xp <= M \/ t_u t = 0) ->
  Forall (fun x => x <= M) (flatten (backsubR t xp)).
Proof.
  induction t as [d u l b cs IH] using tree_ind'. intros xp Hd Hb Hxp.
  pose proof (reduced_rhs_le M _ Hd Hb) as Hred.
  destruct (pivots_positive _ Hd) as [P1 P2].
  destruct (proj1 (dominant_unfold d u l b cs) Hd) as (Hu & Hl & Hs & Hpos & Hall).
  destruct (proj1 (rhs_le_unfold M d u l b cs) Hb) as (Hb0 & Hball).
  rewrite backsub_node. cbv zeta. rewrite reduce_node in Hred, P1. cbn [fst snd t_u t_d t_children] in *.
  set (d' := d - S1 cs) in *. set (b' := b - S2 cs) in *.
  assert (Hd' : 0 < d') by lra.
  set (x := (b' - u * xp) / d').
  assert (Hx : x <= M).
  { unfold x. apply Rmult_le_reg_r with d'; [exact Hd'|].
    replace ((b' - u * xp) / d' * d') with (b' - u * xp) by (field; lra).
    destruct Hxp as [Hxp|Hu0].
    - nra.
    - cbn in Hu0. subst u. lra. }
  cbn [flatten]. constructor; [exact Hx|].
  assert (G : forall x0 cs0, x0 <= M ->
     Forall (fun t => forall xp, dominant t -> rhs_le M t -> xp <= M \/ t_u t = 0 ->
                      Forall (fun x => x <= M) (flatten (backsubR t xp))) cs0 ->
     all_dom cs0 -> all_rhs_le M cs0 ->
     Forall (fun x => x <= M) (flat_map flatten (map (fun c => backsubR c x0) cs0))).
  { intros x0 cs0 Hx0. induction cs0 as [|c cs0 IHc]; intros HF HA HB; cbn [map flat_map]; [constructor|].
    inversion HF as [|? ? Hc HF']; subst. cbn in HA, HB.
    destruct HA as [A1 A2]. destruct HB as [B1 B2].
    apply Forall_app. split; [apply Hc; auto | apply IHc; assumption]. }
  apply G; assumption.
Qed.

(* lower bound: the same for the negated system *)
Fixpoint rhs_ge (m : R) (t : treeR) : Prop :=
  match t with
  | Node d u l b cs =>
      (d + u + lsum cs) * m <= b /\
      (fix all (cs : list treeR) : Prop := match cs with [] => True | c :: cs' => rhs_ge m c /\ all cs' end) cs
  end.
Fixpoint all_rhs_ge (m : R) (cs : list treeR) : Prop :=
  match cs with [] => True | c :: cs' => rhs_ge m c /\ all_rhs_ge m cs' end.
Lemma rhs_ge_unfold m d u l b cs :
  rhs_ge m (Node d u l b cs) <-> ((d + u + lsum cs) * m <= b /\ all_rhs_ge m cs).
Proof.
  cbn [rhs_ge].
  assert (E : forall cs0, (fix all (cs : list treeR) : Prop := match cs with [] => True | c :: cs' => rhs_ge m c /\ all cs' end) cs0 <-> all_rhs_ge m cs0).
  { induction cs0; cbn; tauto. }
  rewrite E. tauto.
Qed.

Lemma reduced_rhs_ge m : forall t, dominant t -> rhs_ge m t ->
  (fst (reduceR t) + t_u t) * m <= snd (reduceR t).
Proof.
  induction t as [d u l b cs IH] using tree_ind'. intros Hd Hb.
  destruct (proj1 (dominant_unfold d u l b cs) Hd) as (Hu & Hl & Hs & Hpos & Hall).
  destruct (proj1 (rhs_ge_unfold m d u l b cs) Hb) as (Hb0 & Hball).
  rewrite reduce_node. cbn [fst snd t_u].
  assert (Hch : forall cs0, Forall (fun t => dominant t -> rhs_ge m t ->
                   (fst (reduceR t) + t_u t) * m <= snd (reduceR t)) cs0 ->
            all_dom cs0 -> all_rhs_ge m cs0 ->
            (- lsum cs0 - S1 cs0) * m <= - S2 cs0).
  { induction cs0 as [|c cs0 IHc]; intros HF HA HB; cbn in HA, HB.
    - unfold S1, S2, lsum; cbn. lra.
    - inversion HF as [|? ? Hc HF']; subst. destruct HA as [HA1 HA2]. destruct HB as [HB1 HB2].
      specialize (IHc HF' HA2 HB2). specialize (Hc HA1 HB1).
      destruct (pivots_positive c HA1) as [P1 P2].
      destruct c as [dc uc lc bc ccs].
      destruct (proj1 (dominant_unfold dc uc lc bc ccs) HA1) as (Huc & Hlc & Hsc & Hposc & _).
      cbn [t_d t_children t_u] in *.
      unfold S1, S2, lsum in *. cbn [fold_right t_l t_u].
      set (dc' := fst (reduceR (Node dc uc lc bc ccs))) in *.
      set (bc' := snd (reduceR (Node dc uc lc bc ccs))) in *.
      assert (Hdc : 0 < dc') by lra.
      assert (K : 0 <= - lc / dc') by (apply Rle_mult_inv_pos; lra).
      assert (T : - lc / dc' * ((dc' + uc) * m) <= - lc / dc' * bc') by (apply Rmult_le_compat_l; assumption).
      replace (- lc / dc' * ((dc' + uc) * m)) with ((- lc - lc / dc' * uc) * m) in T by (field; lra).
      replace (lc / dc' * bc') with (- (- lc / dc' * bc')) by (field; lra). lra. }
  specialize (Hch cs IH Hall Hball). lra.
Qed.

Theorem min_principle_sub m : forall t xp, dominant t -> rhs_ge m t ->
  (m <= xp \/ t_u t = 0) ->
  Forall (fun x => m <= x) (flatten (backsubR t xp)).
Proof.
  induction t as [d u l b cs IH] using tree_ind'. intros xp Hd Hb Hxp.
  pose proof (reduced_rhs_ge m _ Hd Hb) as Hred.
  destruct (pivots_positive _ Hd) as [P1 P2].
  destruct (proj1 (dominant_unfold d u l b cs) Hd) as (Hu & Hl & Hs & Hpos & Hall).
  destruct (proj1 (rhs_ge_unfold m d u l b cs) Hb) as (Hb0 & Hball).
  rewrite backsub_node. cbv zeta. rewrite reduce_node in Hred, P1. cbn [fst snd t_u t_d t_children] in *.
  set (d' := d - S1 cs) in *. set (b' := b - S2 cs) in *.
  assert (Hd' : 0 < d') by lra.
  set (x := (b' - u * xp) / d').
  assert (Hx : m <= x).
  { unfold x. apply Rmult_le_reg_r with d'; [exact Hd'|].
    replace ((b' - u * xp) / d' * d') with (b' - u * xp) by (field; lra).
    destruct Hxp as [Hxp|Hu0].
    - nra.
    - cbn in Hu0. subst u. lra. }
  cbn [flatten]. constructor; [exact Hx|].
  assert (G : forall x0 cs0, m <= x0 ->
     Forall (fun t => forall xp, dominant t -> rhs_ge m t -> m <= xp \/ t_u t = 0 ->
                      Forall (fun x => m <= x) (flatten (backsubR t xp))) cs0 ->
     all_dom cs0 -> all_rhs_ge m cs0 ->
     Forall (fun x => m <= x) (flat_map flatten (map (fun c => backsubR c x0) cs0))).
  { intros x0 cs0 Hx0. induction cs0 as [|c cs0 IHc]; intros HF HA HB; cbn [map flat_map]; [constructor|].
    inversion HF as [|? ? Hc HF']; subst. cbn in HA, HB.
    destruct HA as [A1 A2]. destruct HB as [B1 B2].
    apply Forall_app. split; [apply Hc; auto | apply IHc; assumption]. }
  apply G; assumption.
Qed.

(* ---------------------------------------------------------------- self-adjointness *)
(* vectors and weights are sol-shaped; `shape t s`: s has the shape of t *)
Fixpoint shape (t : treeR) (s : solR) : Prop :=
  match t, s with
  | Node _ _ _ _ cs, SNode _ subs =>
      (fix all (cs : list treeR) (ss : list solR) : Prop :=
         match cs, ss with
         | [], [] => True
         | c :: cs', s' :: ss' => shape c s' /\ all cs' ss'
         | _, _ => False
         end) cs subs
  end.
Fixpoint shapes (cs : list treeR) (ss : list solR) : Prop :=
  match cs, ss with
  | [], [] => True
  | c :: cs', s' :: ss' => shape c s' /\ shapes cs' ss'
  | _, _ => False
  end.
Lemma shape_unfold d u l b cs x subs : shape (Node d u l b cs) (SNode x subs) <-> shapes cs subs.
Proof.
  cbn [shape]. revert subs. induction cs as [|c cs IH]; intros [|s ss]; cbn; try tauto; try (rewrite IH; tauto).
Qed.

(* the symmetrising weights: w_parent * l_child = w_child * u_child along every edge *)
Fixpoint symw (t : treeR) (w : solR) : Prop :=
  match t, w with
  | Node _ _ _ _ cs, SNode wi ws =>
      (fix all (cs : list treeR) (ws : list solR) : Prop :=
         match cs, ws with
         | [], [] => True
         | c :: cs', w' :: ws' => wi * t_l c = s_x w' * t_u c /\ symw c w' /\ all cs' ws'
         | _, _ => False
         end) cs ws
  end.
Fixpoint symws (wi : R) (cs : list treeR) (ws : list solR) : Prop :=
  match cs, ws with
  | [], [] => True
  | c :: cs', w' :: ws' => wi * t_l c = s_x w' * t_u c /\ symw c w' /\ symws wi cs' ws'
  | _, _ => False
  end.
Lemma symw_unfold d u l b cs wi ws : symw (Node d u l b cs) (SNode wi ws) <-> symws wi cs ws.
Proof.
  cbn [symw]. revert ws. induction cs as [|c cs IH]; intros [|w' ws]; cbn; try tauto; try (rewrite IH; tauto).
Qed.

(* sum over all nodes i of  w_i * y_i * (A x)_i ,  (A x)_i = d x_i + u x_parent + sum_c l_c x_c *)
Fixpoint form (t : treeR) (w y x : solR) (xp : R) {struct t} : R :=
  match t, w, y, x with
  | Node d u l b cs, SNode wi ws, SNode yi ys, SNode xi xs =>
      wi * yi * (d * xi + u * xp + row_sum cs xs)
      + (fix go (cs : list treeR) (ws ys xs : list solR) : R :=
           match cs, ws, ys, xs with
           | c :: cs', w' :: ws', y' :: ys', x' :: xs' => form c w' y' x' xi + go cs' ws' ys' xs'
           | _, _, _, _ => 0
           end) cs ws ys xs
  end.
Fixpoint forms (cs : list treeR) (ws ys xs : list solR) (xi : R) : R :=
  match cs, ws, ys, xs with
  | c :: cs', w' :: ws', y' :: ys', x' :: xs' => form c w' y' x' xi + forms cs' ws' ys' xs' xi
  | _, _, _, _ => 0
  end.
Lemma form_unfold d u l b cs wi ws yi ys xi xs xp :
  form (Node d u l b cs) (SNode wi ws) (SNode yi ys) (SNode xi xs) xp
  = wi * yi * (d * xi + u * xp + row_sum cs xs) + forms cs ws ys xs xi.
Proof.
  cbn [form]. f_equal. revert ws ys xs. induction cs as [|c cs IH]; intros [|w' ws] [|y' ys] [|x' xs]; cbn; try reflexivity; try (rewrite IH; reflexivity).
Qed.

(* sum over all nodes of  w_i * y_i * b_i *)
Fixpoint wyb (t : treeR) (w y : solR) {struct t} : R :=
  match t, w, y with
  | Node d u l b cs, SNode wi ws, SNode yi ys =>
      wi * yi * b
      + (fix go (cs : list treeR) (ws ys : list solR) : R :=
           match cs, ws, ys with
           | c :: cs', w' :: ws', y' :: ys' => wyb c w' y' + go cs' ws' ys'
           | _, _, _ => 0
           end) cs ws ys
  end.
Fixpoint wybs (cs : list treeR) (ws ys : list solR) : R :=
  match cs, ws, ys with
  | c :: cs', w' :: ws', y' :: ys' => wyb c w' y' + wybs cs' ws' ys'
  | _, _, _ => 0
  end.
Lemma wyb_unfold d u l b cs wi ws yi ys :
  wyb (Node d u l b cs) (SNode wi ws) (SNode yi ys) = wi * yi * b + wybs cs ws ys.
Proof.
  cbn [wyb]. f_equal.
  all: try (revert ws ys; induction cs as [|c cs IH]; intros [|w' ws] [|y' ys]; cbn; try reflexivity; try (rewrite IH; reflexivity)).
Qed.

(* if x satisfies the system, (A x)_i = b_i in every row *)
Lemma form_of_solution : forall t w y x xp,
  shape t w -> shape t y -> satisfies t xp x -> form t w y x xp = wyb t w y.
Proof.
  induction t as [d u l b cs IH] using tree_ind'. intros [wi ws] [yi ys] [xi xs] xp Hw Hy Hs.
  apply shape_unfold in Hw. apply shape_unfold in Hy. apply satisfies_unfold in Hs.
  destruct Hs as [Hrow Hall]. rewrite form_unfold, wyb_unfold, Hrow. f_equal.
  clear Hrow. revert ws ys xs Hw Hy Hall.
  induction cs as [|c cs IHc]; intros [|w' ws] [|y' ys] [|x' xs] Hw Hy Hall; cbn in *; try tauto; try reflexivity.
  inversion IH as [|? ? Hc IH']; subst.
  destruct Hw as [W1 W2]. destruct Hy as [Y1 Y2]. destruct Hall as [A1 A2].
  rewrite (Hc w' y' x' xi W1 Y1 A1). rewrite (IHc IH' ws ys xs W2 Y2 A2). reflexivity.
Qed.

(* the bilinear form is symmetric up to the coupling with the parent *)
Theorem form_symmetric : forall t w y x xpx xpy,
  symw t w -> shape t w -> shape t y -> shape t x ->
  form t w y x xpx - form t w x y xpy
  = s_x w * t_u t * (s_x y * xpx - s_x x * xpy).
Proof.
  induction t as [d u l b cs IH] using tree_ind'. intros [wi ws] [yi ys] [xi xs] xpx xpy Hsym Hw Hy Hx.
  apply symw_unfold in Hsym. apply shape_unfold in Hw. apply shape_unfold in Hy. apply shape_unfold in Hx.
  rewrite !form_unfold. cbn [s_x t_u].
  assert (G : forall cs0 ws ys xs,
     Forall (fun t => forall w y x xpx xpy, symw t w -> shape t w -> shape t y -> shape t x ->
               form t w y x xpx - form t w x y xpy = s_x w * t_u t * (s_x y * xpx - s_x x * xpy)) cs0 ->
     symws wi cs0 ws -> shapes cs0 ws -> shapes cs0 ys -> shapes cs0 xs ->
     forms cs0 ws ys xs xi - forms cs0 ws xs ys yi
     = - wi * (yi * row_sum cs0 xs - xi * row_sum cs0 ys)).
  { induction cs0 as [|c cs0 IHc]; intros [|w' ws0] [|y' ys0] [|x' xs0] HF HS HW HY HX; cbn in *; try tauto; try ring.
    inversion HF as [|? ? Hc HF']; subst.
    destruct HS as (S1 & S2 & S3). destruct HW as [W1 W2]. destruct HY as [Y1 Y2]. destruct HX as [X1 X2].
    specialize (IHc ws0 ys0 xs0 HF' S3 W2 Y2 X2).
    specialize (Hc w' y' x' xi yi S2 W1 Y1 X1).
    replace (form c w' y' x' xi + forms cs0 ws0 ys0 xs0 xi - (form c w' x' y' yi + forms cs0 ws0 xs0 ys0 yi))
      with ((form c w' y' x' xi - form c w' x' y' yi) + (forms cs0 ws0 ys0 xs0 xi - forms cs0 ws0 xs0 ys0 yi)) by ring.
    rewrite Hc, IHc. 
    replace (s_x w' * t_u c) with (wi * t_l c) by exact S1. ring. }
  specialize (G cs ws ys xs IH Hsym Hw Hy Hx).
  replace (wi * yi * (d * xi + u * xpx + row_sum cs xs) + forms cs ws ys xs xi
           - (wi * xi * (d * yi + u * xpy + row_sum cs ys) + forms cs ws xs ys yi))
    with (wi * yi * (d * xi + u * xpx + row_sum cs xs) - wi * xi * (d * yi + u * xpy + row_sum cs ys)
          + (forms cs ws ys xs xi - forms cs ws xs ys yi)) by ring.
  rewrite G. ring.
Qed.

(* two systems with the same operator (d, u, l) and possibly different right-hand sides *)
Fixpoint same_op (t1 t2 : treeR) : Prop :=
  match t1, t2 with
  | Node d1 u1 l1 _ cs1, Node d2 u2 l2 _ cs2 =>
      d1 = d2 /\ u1 = u2 /\ l1 = l2 /\
      (fix all (a b : list treeR) : Prop :=
         match a, b with
         | [], [] => True
         | x :: a', y :: b' => same_op x y /\ all a' b'
         | _, _ => False
         end) cs1 cs2
  end.
Fixpoint same_ops (a b : list treeR) : Prop :=
  match a, b with
  | [], [] => True
  | x :: a', y :: b' => same_op x y /\ same_ops a' b'
  | _, _ => False
  end.
Lemma same_op_unfold d1 u1 l1 b1 cs1 d2 u2 l2 b2 cs2 :
  same_op (Node d1 u1 l1 b1 cs1) (Node d2 u2 l2 b2 cs2) <-> (d1 = d2 /\ u1 = u2 /\ l1 = l2 /\ same_ops cs1 cs2).
Proof.
  cbn [same_op].
  assert (E : forall a b, (fix all (a b : list treeR) : Prop :=
         match a, b with
         | [], [] => True
         | x :: a', y :: b' => same_op x y /\ all a' b'
         | _, _ => False
         end) a b <-> same_ops a b).
  { induction a as [|x a IH]; intros [|y b]; cbn; try tauto; try (rewrite IH; tauto). }
  rewrite E. tauto.
Qed.

Lemma row_sum_same cs1 cs2 xs : same_ops cs1 cs2 -> row_sum cs1 xs = row_sum cs2 xs.
Proof.
  revert cs2 xs. induction cs1 as [|c1 cs1 IH]; intros [|c2 cs2] [|x xs] H; cbn in *; try tauto; try reflexivity.
  destruct H as [H1 H2]. destruct c1 as [d1 u1 l1 b1 k1], c2 as [d2 u2 l2 b2 k2].
  destruct (proj1 (same_op_unfold d1 u1 l1 b1 k1 d2 u2 l2 b2 k2) H1) as (_ & _ & E & _). cbn [t_l].
  rewrite E. rewrite (IH cs2 xs H2). reflexivity.
Qed.

Lemma form_same_op : forall t1 t2 w y x xp, same_op t1 t2 -> form t1 w y x xp = form t2 w y x xp.
Proof.
  induction t1 as [d1 u1 l1 b1 cs1 IH] using tree_ind'. intros [d2 u2 l2 b2 cs2] [wi ws] [yi ys] [xi xs] xp H.
  destruct (proj1 (same_op_unfold d1 u1 l1 b1 cs1 d2 u2 l2 b2 cs2) H) as (-> & -> & -> & Hc). rewrite !form_unfold.
  rewrite (row_sum_same cs1 cs2 xs Hc). f_equal.
  clear H. revert cs2 ws ys xs Hc. induction cs1 as [|c1 cs1 IHc]; intros [|c2 cs2] [|w' ws] [|y' ys] [|x' xs] Hc; cbn in *; try tauto; try reflexivity.
  inversion IH as [|? ? H1 IH']; subst. destruct Hc as [C1 C2].
  rewrite (H1 c2 w' y' x' xi C1). rewrite (IHc IH' cs2 ws ys xs C2). reflexivity.
Qed.

(* RECIPROCITY: for two right-hand sides f (in t1) and g (in t2) of the same operator with
   symmetrising weights, and their solutions x1, x2 (root: u = 0):
      sum_i w_i x2_i f_i  =  sum_i w_i x1_i g_i *)
Theorem reciprocity : forall t1 t2 w x1 x2,
  same_op t1 t2 -> t_u t1 = 0 -> symw t1 w -> shape t1 w -> shape t1 x1 -> shape t1 x2 ->
  shape t2 w -> shape t2 x1 ->
  satisfies t1 0 x1 -> satisfies t2 0 x2 ->
  wyb t1 w x2 = wyb t2 w x1.
Proof.
  intros t1 t2 w x1 x2 Hop Hu Hsym Hw Hx1 Hx2 Hw2 Hx12 Hs1 Hs2.
  rewrite <- (form_of_solution t1 w x2 x1 0 Hw Hx2 Hs1).
  rewrite <- (form_of_solution t2 w x1 x2 0 Hw2 Hx12 Hs2).
  rewrite <- (form_same_op t1 t2 w x1 x2 0 Hop).
  pose proof (form_symmetric t1 w x2 x1 0 0 Hsym Hw Hx2 Hx1) as E.
  rewrite Hu in E. lra.
Qed.

(* ---------------------------------------------------------------- charge balance *)
Fixpoint ones (t : treeR) : solR :=
  match t with Node _ _ _ _ cs => SNode 1 (map ones cs) end.

Lemma shape_ones : forall t, shape t (ones t).
Proof.
  induction t as [d u l b cs IH] using tree_ind'. cbn [ones]. apply shape_unfold.
  induction cs as [|c cs IHc]; cbn; [exact I|]. inversion IH; subst. split; auto.
Qed.

Lemma row_sum_ones cs : row_sum cs (map ones cs) = lsum cs.
Proof.
  unfold lsum. induction cs as [|c cs IH]; cbn; [reflexivity|]. rewrite IH. destruct c; cbn. ring.
Qed.

(* sum over nodes of  w_i * x_i * (row sum of row i) *)
Fixpoint wsig (t : treeR) (w x : solR) {struct t} : R :=
  match t, w, x with
  | Node d u l b cs, SNode wi ws, SNode xi xs =>
      wi * xi * (d + u + lsum cs)
      + (fix go (cs : list treeR) (ws xs : list solR) : R :=
           match cs, ws, xs with
           | c :: cs', w' :: ws', x' :: xs' => wsig c w' x' + go cs' ws' xs'
           | _, _, _ => 0
           end) cs ws xs
  end.
Fixpoint wsigs (cs : list treeR) (ws xs : list solR) : R :=
  match cs, ws, xs with
  | c :: cs', w' :: ws', x' :: xs' => wsig c w' x' + wsigs cs' ws' xs'
  | _, _, _ => 0
  end.
Lemma wsig_unfold d u l b cs wi ws xi xs :
  wsig (Node d u l b cs) (SNode wi ws) (SNode xi xs) = wi * xi * (d + u + lsum cs) + wsigs cs ws xs.
Proof.
  cbn [wsig]. f_equal.
  all: try (revert ws xs; induction cs as [|c cs IH]; intros [|w' ws] [|x' xs]; cbn; try reflexivity; try (rewrite IH; reflexivity)).
Qed.

Lemma form_ones : forall t w x, shape t w -> shape t x -> form t w x (ones t) 1 = wsig t w x.
Proof.
  induction t as [d u l b cs IH] using tree_ind'. intros [wi ws] [xi xs] Hw Hx.
  apply shape_unfold in Hw. apply shape_unfold in Hx.
  cbn [ones]. rewrite form_unfold, wsig_unfold, row_sum_ones. f_equal; [ring|].
  revert ws xs Hw Hx. induction cs as [|c cs IHc]; intros [|w' ws] [|x' xs] Hw Hx; cbn in *; try tauto; try reflexivity.
  inversion IH as [|? ? Hc IH']; subst. destruct Hw as [W1 W2]. destruct Hx as [X1 X2].
  rewrite (Hc w' x' W1 X1). rewrite (IHc IH' ws xs W2 X2). reflexivity.
Qed.

(* CHARGE BALANCE: the weighted sum of the right-hand sides equals the weighted sum of the
   unknowns times their row sums (all coupling terms cancel) *)
Theorem charge_balance : forall t w x,
  t_u t = 0 -> symw t w -> shape t w -> shape t x -> satisfies t 0 x ->
  wyb t w (ones t) = wsig t w x.
Proof.
  intros t w x Hu Hsym Hw Hx Hs.
  rewrite <- (form_of_solution t w (ones t) x 0 Hw (shape_ones t) Hs).
  rewrite <- (form_ones t w x Hw Hx).
  pose proof (form_symmetric t w (ones t) x 0 1 Hsym Hw (shape_ones t) Hx) as E.
  rewrite Hu in E. lra.
Qed.
