(* Every built-in gate satisfies the gate specification (used by C03 and C14). *)
From Coq Require Import Reals Lra Bool.
From JV Require Import Prim RLemmas GSolverGate GChannels GSynapses GateGeneric GateSpec GateIntro.
Local Open Scope R_scope.

Ltac pos' := repeat (first [ apply vtrap_pos | apply efun_gen_pos | pos_step ]).

(* ================================================================== HH *)
Section HH.
  Variables (m0 h0 n0 gNa gK gLeak eNa eK eLeak dt0 : R).
  Notation P := (gNa) (only parsing).

  Lemma HH_m_rates v : 0 < HH_m_gate__a v /\ 0 < HH_m_gate__b v.
  Proof.
    change (HH_m_gate__a v) with (1 / 10 * vtrap__r (- (v + 40)) 10).
    change (HH_m_gate__b v) with (4 * sexp (- (v + 65) / 18)). split; pos'.
  Qed.
  Lemma HH_h_rates v : 0 < HH_h_gate__a v /\ 0 < HH_h_gate__b v.
  Proof.
    change (HH_h_gate__a v) with (7 / 100 * sexp (- (v + 65) / 20)).
    change (HH_h_gate__b v) with (1 / (sexp (- (v + 35) / 10) + 1)). split; pos'.
  Qed.
  Lemma HH_n_rates v : 0 < HH_n_gate__a v /\ 0 < HH_n_gate__b v.
  Proof.
    change (HH_n_gate__a v) with (1 / 100 * vtrap__r (- (v + 55)) 10).
    change (HH_n_gate__b v) with (1 / 8 * sexp (- (v + 65) / 80)). split; pos'.
  Qed.

  Theorem HH_m_ok :
    ab_gate_ok HH_m_gate__a HH_m_gate__b
      (fun v => HH_init__m m0 h0 n0 v gNa gK gLeak eNa eK eLeak dt0)
      (fun v => HH_init__m_dom m0 h0 n0 v gNa gK gLeak eNa eK eLeak dt0)
      (fun x dt v => HH_update__m x h0 n0 dt v gNa gK gLeak eNa eK eLeak)
      (fun x dt v => HH_update__m_dom x h0 n0 dt v gNa gK gLeak eNa eK eLeak).
  Proof.
    apply ab_gate_intro.
    - exact HH_m_rates.
    - intros v. pose proof (HH_m_rates v) as Hr.
      unfold HH_init__m_dom. unfold HH_m_gate__a, HH_m_gate__b in Hr. cbv zeta in *.
      ab_dom_close Hr.
    - reflexivity.
    - reflexivity.
    - intros x dt v. pose proof (HH_m_rates v) as Hr.
      unfold HH_update__m_dom. unfold HH_m_gate__a, HH_m_gate__b in Hr. cbv zeta in *.
      ab_dom_close Hr.
  Qed.

  Theorem HH_h_ok :
    ab_gate_ok HH_h_gate__a HH_h_gate__b
      (fun v => HH_init__h m0 h0 n0 v gNa gK gLeak eNa eK eLeak dt0)
      (fun v => HH_init__h_dom m0 h0 n0 v gNa gK gLeak eNa eK eLeak dt0)
      (fun x dt v => HH_update__h m0 x n0 dt v gNa gK gLeak eNa eK eLeak)
      (fun x dt v => HH_update__h_dom m0 x n0 dt v gNa gK gLeak eNa eK eLeak).
  Proof.
    apply ab_gate_intro.
    - exact HH_h_rates.
    - intros v. pose proof (HH_h_rates v) as Hr.
      unfold HH_init__h_dom. unfold HH_h_gate__a, HH_h_gate__b in Hr. cbv zeta in *.
      assert (exp (Rmin (- (v + 35) / 10) 20) + 1 <> 0) by nz.
      ab_dom_close Hr.
    - reflexivity.
    - reflexivity.
    - intros x dt v. pose proof (HH_h_rates v) as Hr.
      unfold HH_update__h_dom. unfold HH_h_gate__a, HH_h_gate__b in Hr. cbv zeta in *.
      assert (exp (Rmin (- (v + 35) / 10) 20) + 1 <> 0) by nz.
      ab_dom_close Hr.
  Qed.

  Theorem HH_n_ok :
    ab_gate_ok HH_n_gate__a HH_n_gate__b
      (fun v => HH_init__n m0 h0 n0 v gNa gK gLeak eNa eK eLeak dt0)
      (fun v => HH_init__n_dom m0 h0 n0 v gNa gK gLeak eNa eK eLeak dt0)
      (fun x dt v => HH_update__n m0 h0 x dt v gNa gK gLeak eNa eK eLeak)
      (fun x dt v => HH_update__n_dom m0 h0 x dt v gNa gK gLeak eNa eK eLeak).
  Proof.
    apply ab_gate_intro.
    - exact HH_n_rates.
    - intros v. pose proof (HH_n_rates v) as Hr.
      unfold HH_init__n_dom. unfold HH_n_gate__a, HH_n_gate__b in Hr. cbv zeta in *.
      ab_dom_close Hr.
    - reflexivity.
    - reflexivity.
    - intros x dt v. pose proof (HH_n_rates v) as Hr.
      unfold HH_update__n_dom. unfold HH_n_gate__a, HH_n_gate__b in Hr. cbv zeta in *.
      ab_dom_close Hr.
  Qed.
End HH.

(* ================================================================== Na *)
Section Na.
  Variables (m0 h0 gNa eNa vt dt0 : R).

  Lemma Na_m_rates v : 0 < Na_m_gate__a v vt /\ 0 < Na_m_gate__b v vt.
  Proof.
    change (Na_m_gate__a v vt) with (8 / 25 * efun__r (- (1 / 4) * (v - vt - 13)) / (1 / 4)).
    change (Na_m_gate__b v vt) with (7 / 25 * efun__r (1 / 5 * (v - vt - 40)) / (1 / 5)).
    split; pos'.
  Qed.
  Lemma Na_h_rates v : 0 < Na_h_gate__a v vt /\ 0 < Na_h_gate__b v vt.
  Proof.
    change (Na_h_gate__a v vt) with (16 / 125 * sexp (- (v - vt - 17) / 18)).
    change (Na_h_gate__b v vt) with (4 / (sexp (- (v - vt - 40) / 5) + 1)).
    split; pos'.
  Qed.

  Theorem Na_m_ok :
    ab_gate_ok (fun v => Na_m_gate__a v vt) (fun v => Na_m_gate__b v vt)
      (fun v => Na_init__m m0 h0 v gNa eNa vt dt0)
      (fun v => Na_init__m_dom m0 h0 v gNa eNa vt dt0)
      (fun x dt v => Na_update__m x h0 dt v gNa eNa vt)
      (fun x dt v => Na_update__m_dom x h0 dt v gNa eNa vt).
  Proof.
    apply ab_gate_intro.
    - exact Na_m_rates.
    - intros v. pose proof (Na_m_rates v) as Hr.
      unfold Na_init__m_dom. unfold Na_m_gate__a, Na_m_gate__b in Hr. cbv zeta in *.
      ab_dom_close Hr.
    - reflexivity.
    - reflexivity.
    - intros x dt v. pose proof (Na_m_rates v) as Hr.
      unfold Na_update__m_dom. unfold Na_m_gate__a, Na_m_gate__b in Hr. cbv zeta in *.
      ab_dom_close Hr.
  Qed.

  Theorem Na_h_ok :
    ab_gate_ok (fun v => Na_h_gate__a v vt) (fun v => Na_h_gate__b v vt)
      (fun v => Na_init__h m0 h0 v gNa eNa vt dt0)
      (fun v => Na_init__h_dom m0 h0 v gNa eNa vt dt0)
      (fun x dt v => Na_update__h m0 x dt v gNa eNa vt)
      (fun x dt v => Na_update__h_dom m0 x dt v gNa eNa vt).
  Proof.
    apply ab_gate_intro.
    - exact Na_h_rates.
    - intros v. pose proof (Na_h_rates v) as Hr.
      unfold Na_init__h_dom. unfold Na_h_gate__a, Na_h_gate__b in Hr. cbv zeta in *.
      assert (exp (Rmin (- (v - vt - 40) / 5) 20) + 1 <> 0) by nz.
      ab_dom_close Hr.
    - reflexivity.
    - reflexivity.
    - intros x dt v. pose proof (Na_h_rates v) as Hr.
      unfold Na_update__h_dom. unfold Na_h_gate__a, Na_h_gate__b in Hr. cbv zeta in *.
      assert (exp (Rmin (- (v - vt - 40) / 5) 20) + 1 <> 0) by nz.
      ab_dom_close Hr.
  Qed.
End Na.

(* ================================================================== K *)
Section K.
  Variables (n0 gK eK vt dt0 : R).

  Lemma K_n_rates v : 0 < K_n_gate__a v vt /\ 0 < K_n_gate__b v vt.
  Proof.
    change (K_n_gate__a v vt) with (4 / 125 * efun__r (- (1 / 5) * (v - vt - 15)) / (1 / 5)).
    change (K_n_gate__b v vt) with (1 / 2 * sexp (- (v - vt - 10) / 40)).
    split; pos'.
  Qed.

  Theorem K_n_ok :
    ab_gate_ok (fun v => K_n_gate__a v vt) (fun v => K_n_gate__b v vt)
      (fun v => K_init__n n0 v gK eK vt dt0)
      (fun v => K_init__n_dom n0 v gK eK vt dt0)
      (fun x dt v => K_update__n x dt v gK eK vt)
      (fun x dt v => K_update__n_dom x dt v gK eK vt).
  Proof.
    apply ab_gate_intro.
    - exact K_n_rates.
    - intros v. pose proof (K_n_rates v) as Hr.
      unfold K_init__n_dom. unfold K_n_gate__a, K_n_gate__b in Hr. cbv zeta in *.
      ab_dom_close Hr.
    - reflexivity.
    - reflexivity.
    - intros x dt v. pose proof (K_n_rates v) as Hr.
      unfold K_update__n_dom. unfold K_n_gate__a, K_n_gate__b in Hr. cbv zeta in *.
      ab_dom_close Hr.
  Qed.
End K.

(* ================================================================== CaL *)
Section CaL.
  Variables (q0 r0 gCaL eCa dt0 : R).

  Lemma CaL_q_rates v : 0 < CaL_q_gate__a v /\ 0 < CaL_q_gate__b v.
  Proof.
    change (CaL_q_gate__a v) with (11 / 200 * efun__r ((- v - 27) / (19 / 5)) * (19 / 5)).
    change (CaL_q_gate__b v) with (47 / 50 * sexp ((- v - 75) / 17)).
    split; pos'.
  Qed.
  Lemma CaL_r_rates v : 0 < CaL_r_gate__a v /\ 0 < CaL_r_gate__b v.
  Proof.
    change (CaL_r_gate__a v) with (457 / 1000000 * sexp ((- v - 13) / 50)).
    change (CaL_r_gate__b v) with (13 / 2000 / (sexp ((- v - 15) / 28) + 1)).
    split; pos'.
  Qed.

  Theorem CaL_q_ok :
    ab_gate_ok CaL_q_gate__a CaL_q_gate__b
      (fun v => CaL_init__q q0 r0 v gCaL eCa dt0)
      (fun v => CaL_init__q_dom q0 r0 v gCaL eCa dt0)
      (fun x dt v => CaL_update__q x r0 dt v gCaL eCa)
      (fun x dt v => CaL_update__q_dom x r0 dt v gCaL eCa).
  Proof.
    apply ab_gate_intro.
    - exact CaL_q_rates.
    - intros v. pose proof (CaL_q_rates v) as Hr.
      unfold CaL_init__q_dom. unfold CaL_q_gate__a, CaL_q_gate__b in Hr. cbv zeta in *.
      ab_dom_close Hr.
    - reflexivity.
    - reflexivity.
    - intros x dt v. pose proof (CaL_q_rates v) as Hr.
      unfold CaL_update__q_dom. unfold CaL_q_gate__a, CaL_q_gate__b in Hr. cbv zeta in *.
      ab_dom_close Hr.
  Qed.

  Theorem CaL_r_ok :
    ab_gate_ok CaL_r_gate__a CaL_r_gate__b
      (fun v => CaL_init__r q0 r0 v gCaL eCa dt0)
      (fun v => CaL_init__r_dom q0 r0 v gCaL eCa dt0)
      (fun x dt v => CaL_update__r q0 x dt v gCaL eCa)
      (fun x dt v => CaL_update__r_dom q0 x dt v gCaL eCa).
  Proof.
    apply ab_gate_intro.
    - exact CaL_r_rates.
    - intros v. pose proof (CaL_r_rates v) as Hr.
      unfold CaL_init__r_dom. unfold CaL_r_gate__a, CaL_r_gate__b in Hr. cbv zeta in *.
      assert (exp (Rmin ((- v - 15) / 28) 20) + 1 <> 0) by nz.
      ab_dom_close Hr.
    - reflexivity.
    - reflexivity.
    - intros x dt v. pose proof (CaL_r_rates v) as Hr.
      unfold CaL_update__r_dom. unfold CaL_r_gate__a, CaL_r_gate__b in Hr. cbv zeta in *.
      assert (exp (Rmin ((- v - 15) / 28) 20) + 1 <> 0) by nz.
      ab_dom_close Hr.
  Qed.
End CaL.

(* ================================================================== Km *)
Ltac splits := repeat match goal with |- _ /\ _ => split end.

Section Km.
  Variables (p0 gKm taumax eK dt0 : R).
  Hypothesis taumax_pos : 0 < taumax.

  Lemma Km_p_rates v : 0 < Km_p_gate__a v taumax < 1 /\ 0 < Km_p_gate__b v taumax.
  Proof.
    change (Km_p_gate__a v taumax) with (1 / (1 + sexp (- (1 / 10) * (v + 35)))).
    change (Km_p_gate__b v taumax)
      with (taumax / (33 / 10 * sexp (1 / 20 * (v + 35)) + sexp (- (1 / 20) * (v + 35)))).
    split; [apply inv1p_unit; apply sexp_pos | pos].
  Qed.

  Theorem Km_p_ok :
    it_gate_ok (fun v => Km_p_gate__a v taumax) (fun v => Km_p_gate__b v taumax)
      (fun v => Km_init__p p0 v gKm taumax eK dt0)
      (fun v => Km_init__p_dom p0 v gKm taumax eK dt0)
      (fun x dt v => Km_update__p x dt v gKm taumax eK)
      (fun x dt v => Km_update__p_dom x dt v gKm taumax eK).
  Proof.
    apply it_gate_intro.
    - exact Km_p_rates.
    - intros v. unfold Km_init__p_dom. cbv zeta. splits; try exact I; nz.
    - reflexivity.
    - reflexivity.
    - intros x dt v. unfold Km_update__p_dom. cbv zeta. splits; try exact I; nz.
  Qed.
End Km.

(* ================================================================== CaT *)
Section CaT.
  Variables (u0 gCaT vx eCa dt0 : R).

  Lemma CaT_u_rates v : 0 < CaT_u_gate__a v vx < 1 /\ 0 < CaT_u_gate__b v vx.
  Proof.
    change (CaT_u_gate__a v vx) with (1 / (1 + sexp ((v + vx + 81) / 4))).
    change (CaT_u_gate__b v vx)
      with (154 / 5 + (1057 / 5 + sexp ((v + vx + 566 / 5) / 5))
            / (37 / 10 * (1 + sexp ((v + vx + 84) / (16 / 5))))).
    split; [apply inv1p_unit; apply sexp_pos | pos].
  Qed.

  Theorem CaT_u_ok :
    it_gate_ok (fun v => CaT_u_gate__a v vx) (fun v => CaT_u_gate__b v vx)
      (fun v => CaT_init__u u0 v gCaT vx eCa dt0)
      (fun v => CaT_init__u_dom u0 v gCaT vx eCa dt0)
      (fun x dt v => CaT_update__u x dt v gCaT vx eCa)
      (fun x dt v => CaT_update__u_dom x dt v gCaT vx eCa).
  Proof.
    apply it_gate_intro.
    - exact CaT_u_rates.
    - intros v. unfold CaT_init__u_dom. cbv zeta. splits; try exact I; nz.
    - reflexivity.
    - reflexivity.
    - intros x dt v. unfold CaT_update__u_dom. cbv zeta. splits; try exact I; nz.
  Qed.
End CaT.

(* ================================================================== synapses *)
Section Iono.
  Variables (gS e_syn k_minus v_post : R).
  Hypothesis k_minus_pos : 0 < k_minus.

  Definition iono_sinf (v_pre : R) : R := 1 / (1 + sexp ((- 35 - v_pre) / 10)).
  Definition iono_tau (v_pre : R) : R := (1 - iono_sinf v_pre) / k_minus.

  Lemma iono_rates v : 0 < iono_sinf v < 1 /\ 0 < iono_tau v.
  Proof.
    assert (0 < iono_sinf v < 1) by (apply inv1p_unit; apply sexp_pos).
    split; [assumption|]. unfold iono_tau. apply Rdiv_lt_0_compat; lra.
  Qed.

  Theorem Iono_s_ok :
    it_gate_ok iono_sinf iono_tau iono_sinf (fun _ => True)
      (fun x dt v => IonotropicSynapse_update__s x dt v v_post gS e_syn k_minus)
      (fun x dt v => IonotropicSynapse_update__s_dom x dt v v_post gS e_syn k_minus).
  Proof.
    apply it_gate_intro.
    - exact iono_rates.
    - intros; exact I.
    - reflexivity.
    - reflexivity.
    - intros x dt v. pose proof (iono_rates v) as [H1 H2].
      unfold IonotropicSynapse_update__s_dom. unfold iono_tau, iono_sinf, sexp in H1, H2.
      cbv zeta.
      assert (1 + exp (Rmin ((- 35 - v) / 10) 20) <> 0) by nz.
      assert (k_minus <> 0) by lra.
      splits; try exact I; try assumption; apply Rgt_not_eq; exact H2.
  Qed.
End Iono.

Section TestSyn.
  Variables (gC v_post : R).

  Definition test_tau (v_pre : R) : R := (1 - iono_sinf v_pre) / (1 / 40).

  Lemma test_rates v : 0 < iono_sinf v < 1 /\ 0 < test_tau v.
  Proof.
    assert (0 < iono_sinf v < 1) by (apply inv1p_unit; apply sexp_pos).
    split; [assumption|]. unfold test_tau. apply Rdiv_lt_0_compat; lra.
  Qed.

  Theorem Test_c_ok :
    it_gate_ok iono_sinf test_tau iono_sinf (fun _ => True)
      (fun x dt v => TestSynapse_update__c x dt v v_post gC)
      (fun x dt v => TestSynapse_update__c_dom x dt v v_post gC).
  Proof.
    apply it_gate_intro.
    - exact test_rates.
    - intros; exact I.
    - reflexivity.
    - reflexivity.
    - intros x dt v. pose proof (test_rates v) as [H1 H2].
      unfold TestSynapse_update__c_dom. unfold test_tau, iono_sinf, sexp in H1, H2.
      cbv zeta.
      assert (1 + exp (Rmin ((- 35 - v) / 10) 20) <> 0) by nz.
      splits; try exact I; try assumption; apply Rgt_not_eq; exact H2.
  Qed.
End TestSyn.
