From Coq Require Import Reals Lra.
From Coquelicot Require Import Coquelicot.
From JV Require Import RLemmas GateSpec.
Local Open Scope R_scope.

Lemma ode_solution_is_solution x0 xinf tau t : tau <> 0 -> is_derive_ode x0 xinf tau t.
Proof.
  intros Ht. unfold is_derive_ode, ode_solution. split.
  - replace (- 0 / tau) with 0 by (field; auto). rewrite exp_0. ring.
  - auto_derive; [auto|]. unfold Rdiv. ring.
Qed.

Lemma c03_example : 0 < 1 / 40 /\ 0 <= 1 / 5 <= 1 /\ 0 < 1 / 40.
Proof. lra. Qed.
