(* The schedule checker accepts leveled FORESTS (several root branches: a network of cells), C01.  Same invariants as
   Proofs/HinesTreeFacts.v (Section Levels, copied with the single-root hypothesis replaced); the root phase runs
   over the list of roots. *)
From Coq Require Import List Arith Bool Lia.
From JV Require Import HinesArr HinesCheck HinesArrFacts HinesTreeFacts.
Import ListNotations.

Record leveledF (ly : layout) (tp : topo) (lv : nat -> nat) (levels : list level) (roots : list nat) : Prop := mkleveledF {
  lf_C : forall k b j, k < length levels ->
         (In (b, j) (fst (nth k levels ([], []))) <-> b < nb tp /\ lv b = S k /\ pbp tp b = Some j);
  lf_C_nodup : forall k, k < length levels -> NoDup (map fst (fst (nth k levels ([], []))));
  lf_P : forall k p j, k < length levels ->
         (In (p, j) (snd (nth k levels ([], []))) <-> p < nb tp /\ lv p = k /\ cbp tp p = Some j);
  lf_kid : forall j c, j < nbp tp -> In c (kids tp j) -> lv c = S (lv (par tp j));
  lf_rootlv : forall b, b < nb tp -> pbp tp b = None -> lv b = 0;
  lf_roots : NoDup roots /\ forall b, In b roots <-> b < nb tp /\ pbp tp b = None;
  lf_max : forall b, b < nb tp -> lv b <= length levels;
  lf_kids_ne : forall j, j < nbp tp -> kids tp j <> []
}.

Section LevelsF.
  Variables (ly : layout) (tp : topo) (lv : nat -> nat) (levels : list level).
  Hypothesis W : wf ly tp.
  Variable roots : list nat.
  Hypothesis LV : leveledF ly tp lv levels roots.

  Notation chks := (check_ops ly tp).
  Notation tri := (tri ly).
  Notation upper_free := (upper_free ly).
  Notation solved := (solved ly).
  Notation cp_ok := (cp_ok tp).
  Notation cc_ok := (cc_ok tp).
  Notation L := (length levels).
  Notation C k := (fst (nth k levels ([], []))).
  Notation P k := (snd (nth k levels ([], []))).

  Lemma lv_of_child b j : b < nb tp -> pbp tp b = Some j -> j < nbp tp /\ lv b = S (lv (par tp j)).
  Proof. intros Hb Hp. destruct (wf_pbp_kids _ _ W b j Hb Hp) as [Hj Hin]. split; [exact Hj | eapply lf_kid; eauto]. Qed.
  Lemma lv_of_parent p j : p < nb tp -> cbp tp p = Some j -> j < nbp tp /\ par tp j = p /\ S (lv p) <= L.
  Proof.
    intros Hp Hc. destruct (wf_cbp _ _ W p j Hp Hc) as [Hj Hpar]. split; [exact Hj|]. split; [exact Hpar|].
    destruct (kids tp j) as [|c r] eqn:E; [exfalso; eapply lf_kids_ne; eauto|].
    assert (Hin : In c (kids tp j)) by (rewrite E; now left).
    destruct (wf_kids_pbp _ _ W j c Hj Hin) as [Hc' _].
    pose proof (lf_kid _ _ _ _ _ LV j c Hj Hin) as E2. rewrite Hpar in E2. rewrite <- E2. eapply lf_max; eauto.
  Qed.
  Lemma lv_pos_has_parent b : b < nb tp -> 1 <= lv b -> exists j, pbp tp b = Some j.
  Proof.
    intros Hb Hl. destruct (pbp tp b) as [j|] eqn:E; [eauto|].
    rewrite (lf_rootlv _ _ _ _ _ LV b Hb E) in Hl. lia.
  Qed.

  Lemma last_in_branch p : p < nb tp -> in_branch ly p (last ly p).
  Proof. intros Hp. pose proof (wf_nc _ _ W p Hp). unfold in_branch, last. lia. Qed.

  Lemma tri_except fl fl' b k : (forall i, fU fl' i = fU fl i) -> (forall i, in_branch ly b i -> fN fl' i = fN fl i) ->
    tri fl b k -> tri fl' b k.
  Proof.
    intros HU HN [TN TU]. split; intros i H1 H2.
    - intros H3. rewrite HN by (unfold in_branch; lia). auto.
    - rewrite HU. auto.
  Qed.
  Lemma upper_free_except fl fl' b : (forall i, fU fl' i = fU fl i) -> upper_free fl b -> upper_free fl' b.
  Proof. intros HU H i Hi. rewrite HU. auto. Qed.

  (* ---- triangulation ---- *)
  Definition TI (fl : flags) (k : nat) : Prop :=
    (forall b, b < nb tp -> k < lv b -> tri fl b 1 /\ upper_free fl b /\ fWC fl b = true) /\
    (forall p, p < nb tp -> k <= lv p -> cp_ok fl p).

  Lemma triang_level_step k fl : k < L -> TI fl (S k) ->
    exists fl', chks fl (triang_level ly (nth k levels ([], []))) = Some fl' /\ TI fl' k.
  Proof.
    intros Hk [T1 T2]. unfold triang_level.
    (* A *)
    destruct (triang_list ly tp W (map fst (C k)) fl) as (fl1 & E1 & A1 & TR1 & UF1 & _ & BR1).
    { intros b Hb. apply in_map_iff in Hb. destruct Hb as ([b' j] & <- & Hin). cbn [fst].
      apply (lf_C _ _ _ _ _ LV k b' j Hk) in Hin. destruct Hin as (Hb & Hl & _). split; [exact Hb | apply T2; [exact Hb | lia]]. }
    (* B *)
    destruct (childlower_list ly tp (C k) fl1) as (fl2 & E2 & A2 & S2 & BR2).
    { intros b j Hin. pose proof Hin as Hin'. apply (lf_C _ _ _ _ _ LV k b j Hk) in Hin. destruct Hin as (Hb & Hl & Hp).
      split; [exact Hb|]. split; [exact Hp|]. split.
      - apply A1. apply in_map_iff. exists (b, j). auto.
      - intros j' Hj'. destruct (BR1 b) as (_ & -> & _). apply (T2 b Hb ltac:(lia) j' Hj'). }
    (* C *)
    destruct (parentupper_list ly tp (P k) fl2) as (fl3 & E3 & A3 & S3 & BR3).
    { intros p j Hin. apply (lf_P _ _ _ _ _ LV k p j Hk) in Hin. destruct Hin as (Hp & Hl & Hc).
      split; [exact Hp|]. split; [exact Hc|]. intros c Hc'.
      destruct (lv_of_parent p j Hp Hc) as (Hj & Hpar & _).
      destruct (wf_kids_pbp _ _ W j c Hj Hc') as [Hcb Hcp].
      apply (A2 c j). apply (lf_C _ _ _ _ _ LV k c j Hk). split; [exact Hcb|]. split; [|exact Hcp].
      rewrite (lf_kid _ _ _ _ _ LV j c Hj Hc'), Hpar, Hl. reflexivity. }
    exists fl3. split.
    { rewrite flat_map_fst, (check_ops_app ly tp), E1, (check_ops_app ly tp), E2. exact E3. }
    assert (NotLast : forall b p j i, b < nb tp -> In (p, j) (P k) -> k < lv b -> in_branch ly b i -> i <> last ly p).
    { intros b p j i Hb Hin Hl Hi ->. apply (lf_P _ _ _ _ _ LV k p j Hk) in Hin. destruct Hin as (Hp & Hlp & _).
      apply (disjoint ly tp W b p (last ly p) Hb Hp); [intros ->; lia | exact Hi | apply last_in_branch; exact Hp]. }
    split.
    - intros b Hb Hl.
      assert (Keep : forall fla, tri fla b 1 /\ upper_free fla b -> same_slots fla fl2 \/ True -> True) by auto.
      assert (Step3 : tri fl2 b 1 /\ upper_free fl2 b -> tri fl3 b 1 /\ upper_free fl3 b).
      { intros [Ta Ua]. split.
        - apply (tri_except fl2 fl3 b 1); auto; [intros i; apply S3 | intros i Hi; apply S3; intros p j Hin; eapply NotLast; eauto].
        - apply (upper_free_except fl2 fl3 b); auto. intros i; apply S3. }
      destruct (Nat.eq_dec (lv b) (S k)) as [El|Hne].
      + destruct (lv_pos_has_parent b Hb ltac:(lia)) as [j Hp].
        assert (Hin : In (b, j) (C k)) by (apply (lf_C _ _ _ _ _ LV k b j Hk); auto).
        assert (Hin' : In b (map fst (C k))) by (apply in_map_iff; exists (b, j); auto).
        destruct (A1 b Hin') as [Ta Ua].
        destruct Step3 as [T3 U3]; [split; [eapply tri_same; eauto | eapply upper_free_same; eauto]|].
        split; [exact T3|]. split; [exact U3|]. destruct (BR3 b) as (_ & -> & _). eapply A2; eauto.
      + destruct (T1 b Hb ltac:(lia)) as (Ta & Ua & Wa).
        assert (Hnot : ~ In b (map fst (C k))).
        { intros Hin. apply in_map_iff in Hin. destruct Hin as ([b' j] & E & Hin). cbn [fst] in E. subst b'.
          apply (lf_C _ _ _ _ _ LV k b j Hk) in Hin. lia. }
        destruct Step3 as [T3 U3].
        { split; [eapply tri_same; [exact S2|]; apply TR1; auto | eapply upper_free_same; [exact S2|]; apply UF1; auto]. }
        split; [exact T3|]. split; [exact U3|]. destruct (BR3 b) as (_ & -> & _). destruct (BR2 b) as (_ & _ & _ & M). apply M.
        destruct (BR1 b) as (_ & _ & -> & _). exact Wa.
    - intros p Hp Hl j Hc.
      destruct (Nat.eq_dec (lv p) k) as [El|Hne].
      + apply (A3 p j). apply (lf_P _ _ _ _ _ LV k p j Hk). auto.
      + destruct (BR3 p) as (_ & _ & _ & M). apply M. destruct (BR2 p) as (_ & -> & _). destruct (BR1 p) as (_ & -> & _).
        apply (T2 p Hp ltac:(lia) j Hc).
  Qed.

  Lemma firstn_S_nth m : m < L -> firstn (S m) levels = firstn m levels ++ [nth m levels ([], [])].
  Proof. apply firstn_S_nth_gen. Qed.

  Lemma triang_phase : forall m fl, m <= L -> TI fl m ->
    exists fl', chks fl (flat_map (triang_level ly) (rev (firstn m levels))) = Some fl' /\ TI fl' 0.
  Proof.
    induction m as [|m IH]; intros fl Hm T.
    - exists fl. cbn. auto.
    - rewrite firstn_S_nth by lia. rewrite rev_app_distr. cbn [rev app flat_map].
      destruct (triang_level_step m fl ltac:(lia) T) as (fl1 & E1 & T1).
      destruct (IH fl1 ltac:(lia) T1) as (fl2 & E2 & T2).
      exists fl2. split; [|exact T2]. rewrite (check_ops_app ly tp), E1. exact E2.
  Qed.

  Lemma TI_init : TI flags0 L.
  Proof.
    split.
    - intros b Hb Hl. pose proof (lf_max _ _ _ _ _ LV b Hb). lia.
    - intros p Hp Hl j Hc. destruct (lv_of_parent p j Hp Hc) as (_ & _ & H). lia.
  Qed.

  (* ---- back-substitution ---- *)
  Definition BI (fl : flags) (k : nat) : Prop :=
    (forall b, b < nb tp -> lv b <= k -> solved fl b (pl ly b) /\ cc_ok fl b) /\
    (forall b, b < nb tp -> k < lv b -> tri fl b 1 /\ upper_free fl b) /\
    (forall b, b < nb tp -> cp_ok fl b /\ (forall j, pbp tp b = Some j -> fWC fl b = true)) /\
    (forall p, p < nb tp -> lv p < k -> forall j, cbp tp p = Some j -> fWP fl p = true).

  Lemma skipn_nth m : m < L -> skipn m levels = nth m levels ([], []) :: skipn (S m) levels.
  Proof. apply skipn_nth_gen. Qed.

  Lemma backsub_level_step k fl : k < L -> BI fl k ->
    exists fl', chks fl (backsub_level ly (nth k levels ([], []))) = Some fl' /\ BI fl' (S k).
  Proof.
    intros Hk (B1 & B2 & B3 & B4). unfold backsub_level.
    (* D *)
    destruct (parentlower_list ly tp W (P k) fl) as (fl1 & E1 & A1 & S1 & BR1).
    { intros p j Hin. apply (lf_P _ _ _ _ _ LV k p j Hk) in Hin. destruct Hin as (Hp & Hl & Hc).
      destruct (B1 p Hp ltac:(lia)) as [So Cc]. destruct (B3 p Hp) as [Cp _]. auto. }
    (* E *)
    destruct (childupper_list ly tp (C k) fl1) as (fl2 & E2 & A2 & S2 & BR2).
    { intros b j Hin. apply (lf_C _ _ _ _ _ LV k b j Hk) in Hin. destruct Hin as (Hb & Hl & Hp).
      destruct (lv_of_child b j Hb Hp) as [Hj Hlv].
      split; [exact Hb|]. split; [exact Hp|]. split.
      - intros c Hc. destruct (wf_kids_pbp _ _ W j c Hj Hc) as [Hcb Hcp].
        destruct (BR1 c) as (_ & _ & -> & _). destruct (B3 c Hcb) as [_ M]. eapply M; eauto.
      - destruct (wf_par _ _ W j Hj) as [Hpb Hpc].
        apply (A1 (par tp j) j). apply (lf_P _ _ _ _ _ LV k (par tp j) j Hk). split; [exact Hpb|]. split; [lia | exact Hpc]. }
    (* F *)
    destruct (backsub_list ly tp W (map fst (C k)) fl2) as (fl3 & E3 & A3 & TR3 & UF3 & SO3 & BR3).
    { intros b Hb. apply in_map_iff in Hb. destruct Hb as ([b' j] & <- & Hin). cbn [fst].
      pose proof Hin as Hin'. apply (lf_C _ _ _ _ _ LV k b' j Hk) in Hin. destruct Hin as (Hb & Hl & Hp).
      destruct (B2 b' Hb ltac:(lia)) as [T U]. destruct (B3 b' Hb) as [Cp _].
      split; [exact Hb|]. split; [|split; [|split]].
      - intros j' Hj'. destruct (BR2 b') as (-> & _). destruct (BR1 b') as (_ & -> & _). eauto.
      - intros j' Hj'. rewrite Hp in Hj'. inversion Hj'; subst. eapply A2; eauto.
      - eapply tri_same; [exact S2|]. eapply tri_same; [exact S1|]. exact T.
      - eapply upper_free_same; [exact S2|]. eapply upper_free_same; [exact S1|]. exact U. }
    { apply (lf_C_nodup _ _ _ _ _ LV k Hk). }
    exists fl3. split.
    { rewrite (check_ops_app ly tp), E1, (check_ops_app ly tp), E2, flat_map_fst. exact E3. }
    assert (InC : forall b, b < nb tp -> lv b = S k -> In b (map fst (C k))).
    { intros b Hb Hl. destruct (lv_pos_has_parent b Hb ltac:(lia)) as [j Hp]. apply in_map_iff. exists (b, j). split; [reflexivity|].
      apply (lf_C _ _ _ _ _ LV k b j Hk). auto. }
    assert (NotC : forall b, b < nb tp -> lv b <> S k -> ~ In b (map fst (C k))).
    { intros b Hb Hl Hin. apply in_map_iff in Hin. destruct Hin as ([b' j] & E & Hin). cbn [fst] in E. subst b'.
      apply (lf_C _ _ _ _ _ LV k b j Hk) in Hin. lia. }
    split; [|split; [|split]].
    - intros b Hb Hl. destruct (Nat.eq_dec (lv b) (S k)) as [El|Hne].
      + split; [apply A3; apply InC; auto|].
        intros j Hp. destruct (BR3 b) as (-> & _). apply (A2 b j). apply (lf_C _ _ _ _ _ LV k b j Hk). auto.
      + destruct (B1 b Hb ltac:(lia)) as [So Cc]. split.
        * apply SO3; auto. eapply solved_same; [exact S2|]. eapply solved_same; [exact S1|]. exact So.
        * intros j Hp. destruct (BR3 b) as (-> & _). destruct (BR2 b) as (_ & _ & _ & M). apply M.
          destruct (BR1 b) as (-> & _). eauto.
    - intros b Hb Hl. destruct (B2 b Hb ltac:(lia)) as [T U]. split.
      + apply TR3; auto; [apply NotC; auto; lia|]. eapply tri_same; [exact S2|]. eapply tri_same; [exact S1|]. exact T.
      + apply UF3; auto; [apply NotC; auto; lia|]. eapply upper_free_same; [exact S2|]. eapply upper_free_same; [exact S1|]. exact U.
    - intros b Hb. destruct (B3 b Hb) as [Cp Wc]. split.
      + intros j Hc. destruct (BR3 b) as (_ & -> & _). destruct (BR2 b) as (-> & _). destruct (BR1 b) as (_ & -> & _). eauto.
      + intros j Hp. destruct (BR3 b) as (_ & _ & -> & _). destruct (BR2 b) as (_ & -> & _). destruct (BR1 b) as (_ & _ & -> & _). eauto.
    - intros p Hp Hl j Hc. destruct (BR3 p) as (_ & _ & _ & ->). destruct (BR2 p) as (_ & _ & -> & _).
      destruct (Nat.eq_dec (lv p) k) as [El|Hne].
      + apply (A1 p j). apply (lf_P _ _ _ _ _ LV k p j Hk). auto.
      + destruct (BR1 p) as (_ & _ & _ & M). apply M. apply (B4 p Hp ltac:(lia) j Hc).
  Qed.

  Lemma backsub_phase : forall d m fl, m + d = L -> BI fl m ->
    exists fl', chks fl (flat_map (backsub_level ly) (skipn m levels)) = Some fl' /\ BI fl' L.
  Proof.
    induction d as [|d IH]; intros m fl Hm B.
    - replace m with L by lia. rewrite skipn_all. exists fl. cbn. replace L with m by lia. auto.
    - rewrite skipn_nth by lia. cbn [flat_map].
      destruct (backsub_level_step m fl ltac:(lia) B) as (fl1 & E1 & B1).
      destruct (IH (S m) fl1 ltac:(lia) B1) as (fl2 & E2 & B2).
      exists fl2. split; [|exact B2]. rewrite (check_ops_app ly tp), E1. exact E2.
  Qed.

  Lemma lv0_is_rootF b : b < nb tp -> lv b = 0 -> In b roots.
  Proof.
    intros Hb Hl. destruct (lf_roots _ _ _ _ _ LV) as [_ R]. apply R. split; [exact Hb|].
    destruct (pbp tp b) as [j|] eqn:E; [|reflexivity]. destruct (lv_of_child b j Hb E) as [_ H]. lia.
  Qed.

  Theorem forest_schedule_ok :
    exists fl, chks flags0 (ops_of_idx ly levels roots) = Some fl /\ final_ok ly tp fl = true.
  Proof.
    destruct (lf_roots _ _ _ _ _ LV) as [RND R].
    unfold ops_of_idx.
    destruct (triang_phase L flags0 (le_n _) TI_init) as (fl1 & E1 & [T1 T2]). rewrite firstn_all in E1.
    (* the roots: triangulate, then back-substitute *)
    destruct (triang_list ly tp W roots fl1) as (fl2 & E2 & A2 & TR2 & UF2 & _ & BR2).
    { intros b Hb. apply R in Hb. destruct Hb as [Hb _]. split; [exact Hb | apply T2; [exact Hb | lia]]. }
    destruct (backsub_list ly tp W roots fl2) as (fl3 & E3 & A3 & TR3 & UF3 & SO3 & BR3); [|exact RND|].
    { intros b Hb. pose proof Hb as Hb0. apply R in Hb. destruct Hb as [Hb Hp]. split; [exact Hb|].
      split; [intros j Hj; destruct (BR2 b) as (_ & -> & _); apply (T2 b Hb ltac:(lia) j Hj)|].
      split; [intros j Hj; congruence|]. apply A2. exact Hb0. }
    assert (B0 : BI fl3 0).
    { split; [|split; [|split]].
      - intros b Hb Hl. assert (Hr : In b roots) by (apply lv0_is_rootF; [exact Hb | lia]). split; [apply A3; exact Hr|].
        intros j Hj. apply R in Hr. destruct Hr as [_ Hn]. congruence.
      - intros b Hb Hl. assert (Hnr : ~ In b roots).
        { intros Hr. apply R in Hr. destruct Hr as [_ Hn]. rewrite (lf_rootlv _ _ _ _ _ LV b Hb Hn) in Hl. lia. }
        destruct (T1 b Hb Hl) as (Ta & Ua & _). split.
        + apply TR3; [exact Hb | exact Hnr | apply TR2; [exact Hb | exact Hnr | exact Ta]].
        + apply UF3; [exact Hb | exact Hnr | apply UF2; [exact Hb | exact Hnr | exact Ua]].
      - intros b Hb. split.
        + intros j Hc. destruct (BR3 b) as (_ & -> & _). destruct (BR2 b) as (_ & -> & _). apply (T2 b Hb ltac:(lia) j Hc).
        + intros j Hp. destruct (lv_of_child b j Hb Hp) as [_ Hlv]. destruct (T1 b Hb ltac:(lia)) as (_ & _ & Wc).
          destruct (BR3 b) as (_ & _ & -> & _). destruct (BR2 b) as (_ & _ & -> & _). exact Wc.
      - intros p Hp Hl. lia. }
    destruct (backsub_phase L 0 fl3 ltac:(lia) B0) as (fl4 & E4 & (B1 & B2 & B3 & B4)). cbn [skipn] in E4.
    exists fl4. split.
    { rewrite (check_ops_app ly tp), E1, (check_ops_app ly tp), E2, (check_ops_app ly tp), E3. exact E4. }
    unfold final_ok. apply andb_true_iff. split.
    - apply forallb_forall. intros b Hb. apply in_seq in Hb. apply forallb_forall. intros k Hk. apply in_seq in Hk.
      assert (Hb' : b < nb tp) by lia.
      destruct (B1 b Hb' (lf_max _ _ _ _ _ LV b Hb')) as [(HN & HU & HL) Cc]. destruct (B3 b Hb') as [Cp _].
      unfold row_final. rewrite (HN k) by lia. rewrite (cpz_of ly tp fl4 b k Cp), (ccz_of tp fl4 b k Cc).
      assert (E5 : lzb ly fl4 b k = true).
      { unfold lzb. destruct (Nat.eqb_spec k 0); [reflexivity|]. cbn [orb]. apply HL; lia. }
      assert (E6 : uzb ly fl4 b k = true).
      { unfold uzb. destruct (Nat.ltb_spec (S k) (pl ly b)); cbn [negb orb]; [|reflexivity]. apply HU. lia. }
      rewrite E5, E6. reflexivity.
    - apply forallb_forall. intros j Hj. apply in_seq in Hj. assert (Hj' : j < nbp tp) by lia.
      destruct (wf_par _ _ W j Hj') as [Hpb Hpc]. destruct (lv_of_parent (par tp j) j Hpb Hpc) as (_ & _ & Hlt).
      apply andb_true_iff. split.
      + unfold kidsb. apply forallb_forall. intros c Hc. destruct (wf_kids_pbp _ _ W j c Hj' Hc) as [Hcb Hcp].
        destruct (B3 c Hcb) as [_ M]. eapply M; eauto.
      + apply (B4 (par tp j) Hpb ltac:(lia) j Hpc).
  Qed.
End LevelsF.
