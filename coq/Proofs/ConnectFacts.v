From Coq Require Import List Arith Lia PeanoNat Bool.
From JV Require Import Connect.
Import ListNotations.

Lemma nth_map_lt {A B} (f : A -> B) l k d d' : k < length l -> nth k (map f l) d' = f (nth k l d).
Proof.
  intros H. rewrite (nth_indep _ d' (f d)) by (rewrite map_length; exact H). apply map_nth.
Qed.

Lemma nth_repeat_rows {A} (d : A) nq (pre : list A) k :
  0 < nq -> k < length pre * nq -> nth k (repeat_rows nq pre) d = nth (k / nq) pre d.
Proof.
  intros Hq. revert k. induction pre as [|a pre IH]; intros k Hk; cbn in *; [lia|].
  unfold repeat_rows in *. cbn [flat_map].
  destruct (Nat.lt_ge_cases k nq) as [H|H].
  - rewrite app_nth1 by (rewrite repeat_length; lia).
    rewrite Nat.div_small by lia.
    clear -H. revert k H. induction nq; intros k H; [lia|]. destruct k; cbn; auto. apply IHnq; lia.
  - rewrite app_nth2 by (rewrite repeat_length; lia). rewrite repeat_length.
    rewrite IH by lia.
    replace k with ((k - nq) + 1 * nq) at 2 by lia. rewrite Nat.div_add by lia.
    replace ((k - nq) / nq + 1) with (S ((k - nq) / nq)) by lia. reflexivity.
Qed.

Lemma repeat_rows_length {A} nq (pre : list A) : length (repeat_rows nq pre) = length pre * nq.
Proof.
  unfold repeat_rows. induction pre; cbn; auto. rewrite app_length, repeat_length, IHpre. lia.
Qed.

Lemma nth_list_prod {A B} (dA : A) (dB : B) (l : list A) (l' : list B) k :
  k < length l * length l' ->
  nth k (list_prod l l') (dA, dB) = (nth (k / length l') l dA, nth (k mod length l') l' dB).
Proof.
  revert k. induction l as [|a l IH]; intros k Hk; cbn in *; [lia|].
  assert (length l' <> 0) by (destruct l'; cbn in *; lia).
  destruct (Nat.lt_ge_cases k (length l')) as [H1|H1].
  - rewrite app_nth1 by (rewrite map_length; lia).
    rewrite Nat.div_small, Nat.mod_small by lia.
    rewrite (nth_map_lt _ _ _ dB) by lia. reflexivity.
  - rewrite app_nth2 by (rewrite map_length; lia). rewrite map_length.
    rewrite IH by lia.
    replace k with ((k - length l') + 1 * length l') at 3 4 by lia.
    rewrite Nat.div_add, Nat.mod_add by lia.
    replace ((k - length l') / length l' + 1) with (S ((k - length l') / length l')) by lia.
    reflexivity.
Qed.

(* fully_connect: the (pre site, post CELL) pairs are exactly pre x post_cells, each once,
   for ANY population sizes, provided every sampled compartment lies in the cell it was
   sampled for. *)
Section Fully.
  Context {A B : Type} (dA : A) (dB : B).
  Variable cellof : B -> nat.

  Theorem fully_connect_is_product (pre : list A) (post_cells : list nat) (samples : list B) :
    0 < length pre -> 0 < length post_cells ->
    length samples = length post_cells * length pre ->
    (forall i, i < length samples ->
               cellof (nth i samples dB) = nth (i / length pre) post_cells 0) ->
    exists edges,
      fully_connect dB pre (length post_cells) samples = Some edges /\
      map (fun e => (fst e, cellof (snd e))) edges = list_prod pre post_cells.
  Proof.
    intros Hp Hq Hlen Hs. set (np := length pre) in *. set (nq := length post_cells) in *.
    unfold fully_connect, append_synapses.
    rewrite repeat_rows_length. unfold reshape_ravelF at 1. rewrite map_length, seq_length.
    fold np. rewrite Nat.eqb_refl. eexists; split; [reflexivity|].
    apply nth_ext with (d := (dA, 0)) (d' := (dA, 0)).
    - rewrite map_length, combine_length, repeat_rows_length, prod_length.
      unfold reshape_ravelF. rewrite map_length, seq_length. fold np nq. lia.
    - intros k Hk.
      rewrite map_length, combine_length, repeat_rows_length in Hk.
      unfold reshape_ravelF in Hk. rewrite map_length, seq_length in Hk. fold np in Hk.
      assert (Hk' : k < np * nq) by lia.
      rewrite (nth_map_lt _ _ _ (dA, dB)).
      2:{ rewrite combine_length, repeat_rows_length. unfold reshape_ravelF.
          rewrite map_length, seq_length. fold np. lia. }
      rewrite combine_nth.
      2:{ rewrite repeat_rows_length. unfold reshape_ravelF. rewrite map_length, seq_length. reflexivity. }
      cbn [fst snd].
      rewrite nth_repeat_rows by (fold np; lia).
      rewrite nth_list_prod by (fold np nq; lia). fold nq.
      f_equal.
      unfold reshape_ravelF.
      rewrite (nth_map_lt _ _ _ 0) by (rewrite seq_length; lia). rewrite seq_nth by lia. cbn [Nat.add].
      assert (Hb : k mod nq < nq) by (apply Nat.mod_upper_bound; lia).
      assert (Ha : k / nq < np) by (apply Nat.div_lt_upper_bound; lia).
      rewrite Hs by (rewrite Hlen; fold np nq; nia).
      fold np. f_equal.
      rewrite Nat.div_add_l by lia. rewrite (Nat.div_small (k / nq)) by lia. lia.
  Qed.
End Fully.

(* the layout before the fix is refuted for 2 pre x 3 post cells: post cell 0 is never
   reached and (pre 0, post 0) ... the pairs are not the product *)
Lemma fully_connect_old_refuted :
  exists (pre : list nat) (post_cells : list nat) (samples : list nat),
    length samples = length post_cells * length pre /\
    (forall i, i < length samples -> (fun b => b / 10) (nth i samples 0) = nth (i / length pre) post_cells 0) /\
    exists edges, fully_connect_old 0 pre (length post_cells) samples = Some edges /\
      map (fun e => (fst e, snd e / 10)) edges <> list_prod pre post_cells.
Proof.
  exists [0; 1], [2; 3; 4], [20; 21; 30; 31; 40; 41]. split; [reflexivity|]. split.
  - intros i Hi. cbn in Hi. do 6 (destruct i as [|i]; [reflexivity|]). lia.
  - eexists. split; [vm_compute; reflexivity|]. vm_compute. discriminate.
Qed.

(* sparse_connect: succeeds for EVERY number of drawn connections (0 and 1 included) and
   pairs draw k's pre site with draw k's post compartment *)
Theorem sparse_connect_total {A B} (pre : list A) (post : list B) :
  length pre = length post ->
  sparse_connect pre post = Some (combine pre post).
Proof.
  intros H. unfold sparse_connect, sparse_connect_gen, hstack_if. rewrite map_length.
  assert (E : concat (map (fun b : B => [b]) post) = post).
  { clear. induction post; cbn; congruence. }
  destruct pre as [|a pre]; destruct post as [|b post]; cbn in H; try discriminate; [reflexivity|].
  cbn [length]. replace (0 <? S (length post)) with true by reflexivity.
  replace (0 <? S (length pre)) with true by reflexivity.
  rewrite E. unfold append_synapses. cbn [length]. rewrite H, Nat.eqb_refl. reflexivity.
Qed.
Lemma sparse_connect_old_refuted : sparse_connect_old [7] [9] = None.
Proof. reflexivity. Qed.

(* connectivity_matrix_connect: exactly the True entries, each once *)
Lemma in_where_true m i j :
  In (i, j) (where_true m) <-> nth j (nth i m []) false = true /\ i < length m /\ j < length (nth i m []).
Proof.
  unfold where_true. rewrite in_concat. split.
  - intros (l & Hl & Hin). apply in_map_iff in Hl. destruct Hl as ((i', r) & <- & Hir).
    apply in_map_iff in Hin. destruct Hin as ((j', c) & Heq & Hjc).
    cbn in Heq. inversion Heq; subst. apply filter_In in Hjc. destruct Hjc as [Hjc Hc]. cbn in Hc. subst c.
    apply In_nth with (d := (0, [])) in Hir. destruct Hir as (k & Hk & Hnth).
    rewrite combine_length, seq_length, Nat.min_id in Hk.
    rewrite combine_nth in Hnth by (rewrite seq_length; reflexivity).
    rewrite seq_nth in Hnth by lia. cbn in Hnth. inversion Hnth; subst.
    apply In_nth with (d := (0, false)) in Hjc. destruct Hjc as (k' & Hk' & Hnth').
    rewrite combine_length, seq_length, Nat.min_id in Hk'.
    rewrite combine_nth in Hnth' by (rewrite seq_length; reflexivity).
    rewrite seq_nth in Hnth' by lia. cbn in Hnth'. inversion Hnth'; subst. cbn [fst snd] in *.
    repeat split; auto.
  - intros (Ht & Hi & Hj).
    exists (map (fun jc : nat * bool => (i, fst jc))
                (filter (fun jc : nat * bool => snd jc) (combine (seq 0 (length (nth i m []))) (nth i m [])))).
    split.
    + apply in_map_iff. exists (i, nth i m []). split; [reflexivity|].
      replace (i, nth i m []) with (nth i (combine (seq 0 (length m)) m) (0, [])).
      * apply nth_In. rewrite combine_length, seq_length, Nat.min_id. exact Hi.
      * rewrite combine_nth by (rewrite seq_length; reflexivity). rewrite seq_nth by lia. reflexivity.
    + apply in_map_iff. exists (j, true). split; [reflexivity|]. apply filter_In. split; [|reflexivity].
      replace (j, true) with (nth j (combine (seq 0 (length (nth i m []))) (nth i m [])) (0, false)).
      * apply nth_In. rewrite combine_length, seq_length, Nat.min_id. exact Hj.
      * rewrite combine_nth by (rewrite seq_length; reflexivity). rewrite seq_nth by lia. cbn. rewrite Ht. reflexivity.
Qed.

Lemma NoDup_app_intro {A} (l1 l2 : list A) :
  NoDup l1 -> NoDup l2 -> (forall x, In x l1 -> In x l2 -> False) -> NoDup (l1 ++ l2).
Proof.
  intros H1 H2 Hd. induction H1 as [|a l Hn H1 IH]; cbn; [exact H2|].
  constructor.
  - intros Hin. apply in_app_or in Hin. destruct Hin as [Hin|Hin]; [contradiction|].
    apply (Hd a); cbn; auto.
  - apply IH. intros x Hx Hx2. apply (Hd x); cbn; auto.
Qed.

Lemma NoDup_map_inj' {A B} (f : A -> B) l : (forall x y, In x l -> In y l -> f x = f y -> x = y) -> NoDup l -> NoDup (map f l).
Proof.
  intros Hinj Hnd. induction Hnd as [|a l Hn Hnd IH]; cbn; constructor.
  - intros Hin. apply in_map_iff in Hin. destruct Hin as (y & Hy & Hyin).
    assert (y = a) by (apply Hinj; cbn; auto). subst. contradiction.
  - apply IH. intros; apply Hinj; cbn; auto.
Qed.

Lemma NoDup_combine_seq {A} (l : list A) s : NoDup (combine (seq s (length l)) l).
Proof.
  revert s. induction l as [|a l IH]; intros s; cbn; constructor; auto.
  intros Hin. apply in_combine_l in Hin. apply in_seq in Hin. lia.
Qed.

Lemma NoDup_where_true m : NoDup (where_true m).
Proof.
  unfold where_true.
  assert (G : forall s (m : list (list bool)),
     NoDup (concat (map (fun ir : nat * list bool =>
                 map (fun jc : nat * bool => (fst ir, fst jc))
                     (filter (fun jc : nat * bool => snd jc) (combine (seq 0 (length (snd ir))) (snd ir))))
              (combine (seq s (length m)) m))) /\
     (forall i j, In (i, j) (concat (map (fun ir : nat * list bool =>
                 map (fun jc : nat * bool => (fst ir, fst jc))
                     (filter (fun jc : nat * bool => snd jc) (combine (seq 0 (length (snd ir))) (snd ir))))
              (combine (seq s (length m)) m))) -> s <= i)).
  { intros s m0. revert s. induction m0 as [|r m0 IH]; intros s; cbn.
    - split; [constructor | intros ? ? []].
    - destruct (IH (S s)) as [IH1 IH2]. split.
      + apply NoDup_app_intro.
        * apply NoDup_map_inj'.
          -- intros [j1 c1] [j2 c2] H1 H2 Heq. cbn in Heq. inversion Heq; subst.
             apply filter_In in H1, H2. destruct H1 as [H1 C1], H2 as [H2 C2]. cbn in C1, C2. subst. reflexivity.
          -- apply NoDup_filter. apply NoDup_combine_seq.
        * exact IH1.
        * intros [i j] H1 H2. apply in_map_iff in H1. destruct H1 as (jc & Heq & _). cbn in Heq. inversion Heq; subst.
          apply IH2 in H2. lia.
      + intros i j Hin. apply in_app_or in Hin. destruct Hin as [Hin|Hin].
        * apply in_map_iff in Hin. destruct Hin as (jc & Heq & _). cbn in Heq. inversion Heq; subst. lia.
        * apply IH2 in Hin. lia. }
  apply (G 0 m).
Qed.

(* pre-synaptic site: the first compartment of cell c lies in cell c *)
Lemma cell_of_first_comp ncomps c :
  Forall (fun n => 0 < n) ncomps -> c < length ncomps -> cell_of ncomps (first_comp ncomps c) = c.
Proof.
  unfold first_comp. revert c. induction ncomps as [|n rest IH]; intros c Hpos Hc; [cbn in Hc; lia|].
  inversion Hpos as [|? ? Hn Hrest]; subst.
  destruct c as [|c]; cbn [firstn fold_right cell_of].
  - destruct (Nat.ltb_spec 0 n); [reflexivity | lia].
  - destruct (Nat.ltb_spec (n + fold_right Nat.add 0 (firstn c rest)) n); [lia|].
    replace (n + fold_right Nat.add 0 (firstn c rest) - n) with (fold_right Nat.add 0 (firstn c rest)) by lia.
    rewrite IH; [reflexivity | assumption | cbn in Hc; lia].
Qed.
