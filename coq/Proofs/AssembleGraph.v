(* C01, array level: WHAT system the assembled arrays represent.  Under decidable consistency conditions on the
   integer index lists (graph_struct; proved for every cell in Proofs/AsmGraphFacts.v), a pair (x, y) of slot and
   branch-point values satisfies the system represented by the assembled store (HinesArrFacts.sat) iff it
   satisfies the backward-Euler equations of the conductance graph given by the edge list:
     compartment c :  z_c (1 + dt vt_c) + dt * sum_{e : sink e = c, type <= 2} g_e (z_c - z_{source e}) = v_c + dt ct_c
     branch point j:  sum_{e : sink e = n + j, type 3 or 4} g_e (z_{source e} - z_{n+j}) = 0
   (z = x on the slots of the compartments, y on the branch points; padded slots carry 0). *)
From Coq Require Import Reals List Arith Bool Lia Lra.
From JV Require Import HinesArr HinesCheck HinesArrFacts HinesArrPositive AsmStruct AssembleM.
Import ListNotations.
Local Open Scope R_scope.

(* ---- sums in which exactly one / no element qualifies ---- *)
Lemma wsum_none {A} (val : A -> R) p l : (forall e, In e l -> p e = false) -> wsum val p l = 0.
Proof.
  induction l as [|e l IH]; intros H; cbn [wsum fold_right]; [reflexivity|].
  rewrite (H e (or_introl eq_refl)). fold (wsum val p l). rewrite IH by (intros; apply H; now right). lra.
Qed.

Lemma wsum_nth_unique {A} (d : A) (val : A -> R) p : forall l idx,
  (idx < length l)%nat -> p (nth idx l d) = true ->
  (forall k, (k < length l)%nat -> p (nth k l d) = true -> k = idx) ->
  wsum val p l = val (nth idx l d).
Proof.
  induction l as [|e l IH]; intros idx Hi Hp Hu; [cbn in Hi; lia|]. cbn [wsum fold_right]. fold (wsum val p l).
  destruct idx as [|idx].
  - cbn [nth] in *. rewrite Hp. rewrite wsum_none; [lra|].
    intros x Hx. destruct (p x) eqn:E; [|reflexivity]. exfalso.
    destruct (In_nth _ _ d Hx) as (k & Hk & Ek). assert (Datatypes.S k = 0%nat) by (apply Hu; cbn; [lia | rewrite Ek; exact E]). lia.
  - cbn [nth] in Hp. assert (He : p e = false).
    { destruct (p e) eqn:E; [|reflexivity]. exfalso. assert (0%nat = Datatypes.S idx) by (apply Hu; cbn; [lia | exact E]). lia. }
    rewrite He. cbn [nth]. rewrite (IH idx); [lra | cbn in Hi; lia | exact Hp |].
    intros k Hk Hpk. assert (Datatypes.S k = Datatypes.S idx) by (apply Hu; cbn; [lia | exact Hpk]). lia.
Qed.

Lemma wsum_mul_const {A} (val : A -> R) p l c : wsum (fun e => val e * c) p l = wsum val p l * c.
Proof. induction l as [|e l IH]; cbn [wsum fold_right]; [lra|]. fold (wsum (fun e => val e * c) p l) (wsum val p l). rewrite IH. destruct (p e); lra. Qed.

Lemma wsum_plus {A} (f h : A -> R) p l : wsum (fun e => f e + h e) p l = wsum f p l + wsum h p l.
Proof. induction l as [|e l IH]; cbn [wsum fold_right]; [lra|]. fold (wsum (fun e => f e + h e) p l) (wsum f p l) (wsum h p l). rewrite IH. destruct (p e); lra. Qed.

Lemma wsum_val_ext {A} (f h : A -> R) p l : (forall e, In e l -> p e = true -> f e = h e) -> wsum f p l = wsum h p l.
Proof.
  induction l as [|e l IH]; intros H; cbn [wsum fold_right]; [reflexivity|]. fold (wsum f p l) (wsum h p l).
  rewrite IH by (intros; apply H; auto; now right). destruct (p e) eqn:E; [rewrite (H e (or_introl eq_refl) E)|]; reflexivity.
Qed.

(* a sum over the positions of a list: sum_{c < n, mask c = mask c0} f c = f c0 for an injective mask *)
Lemma wsum_seq_inj (f : nat -> R) (mask : nat -> nat) n c0 : (c0 < n)%nat ->
  (forall c c', (c < n)%nat -> (c' < n)%nat -> mask c = mask c' -> c = c') ->
  wsum f (fun c => (mask c =? mask c0)%nat) (seq 0 n) = f c0.
Proof.
  intros Hc Hinj. rewrite (wsum_nth_unique 0%nat f _ (seq 0 n) c0).
  - rewrite seq_nth by exact Hc. reflexivity.
  - rewrite seq_length. exact Hc.
  - rewrite seq_nth by exact Hc. apply Nat.eqb_refl.
  - intros k Hk Hp. rewrite seq_length in Hk. rewrite seq_nth in Hp by exact Hk. apply Nat.eqb_eq in Hp. cbn in Hp. apply Hinj; auto.
Qed.

(* ---- the consistency conditions ---- *)
Record graph_struct (ly : layout) (tp : topo) (mask : nat -> nat) (ncomp : nat) (es : list (edge R))
       (group child_inds par_inds : list nat) : Prop := mkgs {
  gs_asm : asm_struct ly tp mask es group child_inds par_inds;
  gs_par_nodup : NoDup par_inds;
  gs_inj : forall c c', (c < ncomp)%nat -> (c' < ncomp)%nat -> mask c = mask c' -> c = c';
  gs_sink : forall e, In e es -> (e_type R e <= 2)%nat -> (e_sink R e < ncomp)%nat;
  gs_src0 : forall e, In e es -> e_type R e = 0%nat -> (e_source R e < ncomp)%nat /\ e_source R e <> e_sink R e;
  gs_fwd : forall e, In e es -> e_type R e = 0%nat -> (e_source R e < e_sink R e)%nat ->
           (mask (e_source R e) + 1 = mask (e_sink R e))%nat /\ forall b, (b < nb tp)%nat -> mask (e_sink R e) <> cs ly b;
  gs_bwd : forall e, In e es -> e_type R e = 0%nat -> (e_sink R e < e_source R e)%nat ->
           mask (e_source R e) = (mask (e_sink R e) + 1)%nat /\
           forall b, (b < nb tp)%nat -> mask (e_sink R e) <> (cs ly b + (nc ly b - 1))%nat;
  gs_src1 : forall idx, (idx < length par_inds)%nat -> e_source R (nth idx (of_type R 1 es) e0) = (ncomp + nth idx group 0)%nat;
  gs_src2 : forall idx, (idx < length child_inds)%nat ->
            e_source R (nth idx (of_type R 2 es) e0) = (ncomp + nth (length par_inds + idx) group 0)%nat;
  gs_par_in : forall b j, (b < nb tp)%nat -> cbp tp b = Some j -> In b par_inds;
  gs_par_lt : forall idx, (idx < length par_inds)%nat -> (nth idx par_inds 0 < nb tp)%nat;
  gs_child_lt : forall idx, (idx < length child_inds)%nat -> (nth idx child_inds 0 < nb tp)%nat
}.

Section Graph.
  Variables (ly : layout) (tp : topo).
  Hypothesis W : wf ly tp.
  Variables (mask : nat -> nat) (ncomp : nat) (es : list (edge R)) (v vt ct : nat -> R) (dt : R)
            (group child_inds par_inds : list nat).
  Hypothesis G : graph_struct ly tp mask ncomp es group child_inds par_inds.
  Let St := gs_asm _ _ _ _ _ _ _ _ G.
  Let s := assemble R Rplus Rminus Rmult 0 1 mask ncomp es v vt ct dt group child_inds par_inds.
  Notation g := (e_g R).
  Notation src := (e_source R).
  Notation snk := (e_sink R).
  Notation ty := (e_type R).

  Variables (x y : nat -> R).
  (* the value at a node of the graph: compartments first, then branch points *)
  Definition zz (n : nat) : R := if (n <? ncomp)%nat then x (mask n) else y (n - ncomp)%nat.

  Definition into (c : nat) (e : edge R) : bool := (ty e <=? 2)%nat && (snk e =? c)%nat.

  Definition comp_lhs (c : nat) : R :=
    x (mask c) * (1 + dt * vt c) + dt * wsum (fun e => g e * (x (mask c) - zz (src e))) (into c) es.
  Definition comp_rhs (c : nat) : R := v c + dt * ct c.

  Lemma sv_val i : sv s i = wsum (fun c => v c + dt * ct c) (fun c => (mask c =? i)%nat) (seq 0 ncomp).
  Proof. unfold s, assemble. cbn [sv]. rewrite fold_addat_all. lra. Qed.

  (* sums over the edges into compartment c, by slot or by node *)
  Lemma slot_is_node c e : (c < ncomp)%nat -> In e es -> (ty e <= 2)%nat -> (mask (snk e) =? mask c)%nat = (snk e =? c)%nat.
  Proof.
    intros Hc He Ht. pose proof (gs_sink _ _ _ _ _ _ _ _ G e He Ht) as Hs.
    destruct (Nat.eqb_spec (snk e) c) as [->|Hne]; [apply Nat.eqb_refl|].
    apply Nat.eqb_neq. intros E. apply Hne. apply (gs_inj _ _ _ _ _ _ _ _ G); auto.
  Qed.

  (* one edge of a branch-point block ends in compartment c, or none does *)
  Lemma block_unique (t : nat) (inds : list nat) (slot_of : nat -> nat) (F : edge R -> R) c idx0 :
    (t <= 2)%nat -> (c < ncomp)%nat -> length (of_type R t es) = length inds -> NoDup inds ->
    (forall idx, (idx < length inds)%nat -> mask (snk (nth idx (of_type R t es) e0)) = slot_of (nth idx inds 0%nat)) ->
    (forall idx idx', (idx < length inds)%nat -> (idx' < length inds)%nat ->
                      slot_of (nth idx inds 0%nat) = slot_of (nth idx' inds 0%nat) -> nth idx inds 0%nat = nth idx' inds 0%nat) ->
    (idx0 < length inds)%nat -> slot_of (nth idx0 inds 0%nat) = mask c ->
    wsum F (fun e => (snk e =? c)%nat) (of_type R t es) = F (nth idx0 (of_type R t es) e0).
  Proof.
    intros Ht Hc L ND Hs Hinj H0 E0.
    assert (Hin : forall idx, (idx < length inds)%nat -> In (nth idx (of_type R t es) e0) es /\ ty (nth idx (of_type R t es) e0) = t).
    { intros idx Hi. assert (Hl : (idx < length (of_type R t es))%nat) by lia. pose proof (nth_In _ e0 Hl) as H.
      unfold of_type in H. apply filter_In in H. destruct H as [H1 H2]. apply Nat.eqb_eq in H2. auto. }
    apply (wsum_nth_unique e0 F).
    - lia.
    - apply Nat.eqb_eq. destruct (Hin idx0 H0) as [He Hty]. apply (gs_inj _ _ _ _ _ _ _ _ G); auto.
      + apply (gs_sink _ _ _ _ _ _ _ _ G _ He). lia.
      + rewrite (Hs idx0 H0). exact E0.
    - intros k Hk Hp. apply Nat.eqb_eq in Hp. assert (Hk' : (k < length inds)%nat) by lia.
      assert (E : nth k inds 0%nat = nth idx0 inds 0%nat) by (apply Hinj; auto; rewrite <- (Hs k Hk'), Hp, E0; reflexivity).
      apply (proj1 (NoDup_nth inds 0%nat) ND); auto.
  Qed.

  Lemma block_none (t : nat) (inds : list nat) (slot_of : nat -> nat) (F : edge R -> R) c :
    length (of_type R t es) = length inds ->
    (forall idx, (idx < length inds)%nat -> mask (snk (nth idx (of_type R t es) e0)) = slot_of (nth idx inds 0%nat)) ->
    (forall idx, (idx < length inds)%nat -> slot_of (nth idx inds 0%nat) <> mask c) ->
    wsum F (fun e => (snk e =? c)%nat) (of_type R t es) = 0.
  Proof.
    intros L Hs Hn. apply wsum_none. intros e He. destruct (In_nth _ _ e0 He) as (k & Hk & Ek).
    apply Nat.eqb_neq. intros E. apply (Hn k ltac:(lia)). rewrite <- (Hs k ltac:(lia)), Ek, E. reflexivity.
  Qed.

  Definition P (t c : nat) (e : edge R) : bool := is_type t e && (snk e =? c)%nat.
  Definition Z (t c : nat) : R := wsum (fun e => g e * zz (src e)) (P t c) es.

  Lemma into_split c e : into c e = P 0 c e || P 1 c e || P 2 c e.
  Proof.
    unfold into, P, is_type. destruct (snk e =? c)%nat; rewrite ?andb_false_r, ?andb_true_r; [|reflexivity].
    destruct (Nat.leb_spec (ty e) 2); destruct (Nat.eqb_spec (ty e) 0), (Nat.eqb_spec (ty e) 1), (Nat.eqb_spec (ty e) 2); cbn; try reflexivity; lia.
  Qed.

  Lemma P_excl a b c e : a <> b -> P a c e && P b c e = false.
  Proof.
    intros H. unfold P. pose proof (is_type_excl a b e H) as X. destruct (is_type a e), (is_type b e), (snk e =? c)%nat; cbn in *; congruence.
  Qed.

  Lemma Z_split c : wsum (fun e => g e * zz (src e)) (into c) es = Z 0 c + Z 1 c + Z 2 c.
  Proof.
    unfold Z. rewrite (wsum_ext _ (into c) (fun e => P 0 c e || P 1 c e || P 2 c e)) by (intros e _; apply into_split).
    rewrite !wsum_or; [reflexivity | |].
    - intros e _. apply P_excl. lia.
    - intros e _. cbv beta. pose proof (P_excl 0 2 c e ltac:(lia)). pose proof (P_excl 1 2 c e ltac:(lia)).
      destruct (P 0 c e), (P 1 c e), (P 2 c e); cbn in *; congruence.
  Qed.

  Section Row.
    Variables (c b r : nat).
    Hypothesis Hc : (c < ncomp)%nat.
    Hypothesis Hb : (b < nb tp)%nat.
    Hypothesis Hr : (r < nc ly b)%nat.
    Hypothesis Hm : mask c = (cs ly b + r)%nat.

    Lemma nc_le_pl : (nc ly b <= pl ly b)%nat.
    Proof. pose proof (wf_nc _ _ W b Hb). lia. Qed.

    (* ---- type 0: the two neighbours in the branch ---- *)
    Lemma t0_part : lo_term ly s x b r + up_term ly s x b r = - (dt * Z 0 c).
    Proof.
      unfold Z.
      assert (Esplit : forall e, In e es -> P 0 c e = (P 0 c e && (src e <? snk e)%nat) || (P 0 c e && (snk e <? src e)%nat)).
      { intros e He. unfold P, is_type. destruct (Nat.eqb_spec (ty e) 0) as [E0|]; cbn [andb]; [|reflexivity].
        destruct (snk e =? c)%nat; cbn [andb]; [|reflexivity].
        destruct (gs_src0 _ _ _ _ _ _ _ _ G e He E0) as [_ Hne].
        destruct (Nat.ltb_spec (src e) (snk e)), (Nat.ltb_spec (snk e) (src e)); cbn; try reflexivity; lia. }
      rewrite (wsum_ext _ (P 0 c) _ es Esplit). rewrite wsum_or.
      2:{ intros e _. destruct (P 0 c e); cbn [andb]; [|reflexivity].
          destruct (Nat.ltb_spec (src e) (snk e)), (Nat.ltb_spec (snk e) (src e)); cbn; try reflexivity; lia. }
      (* forward edges: source sits in the slot before *)
      assert (Ef : wsum (fun e => g e * zz (src e)) (fun e => P 0 c e && (src e <? snk e)%nat) es
                   = wsum g (fun e => P 0 c e && (src e <? snk e)%nat) es * x (cs ly b + r - 1)%nat).
      { rewrite <- wsum_mul_const. apply wsum_val_ext. intros e He Hp. apply andb_true_iff in Hp. destruct Hp as [Hp Hlt].
        unfold P, is_type in Hp. apply andb_true_iff in Hp. destruct Hp as [Ht Hs]. apply Nat.eqb_eq in Ht, Hs. apply Nat.ltb_lt in Hlt.
        destruct (gs_src0 _ _ _ _ _ _ _ _ G e He Ht) as [Hsrc _]. destruct (gs_fwd _ _ _ _ _ _ _ _ G e He Ht Hlt) as [Hmk _].
        unfold zz. destruct (Nat.ltb_spec (src e) ncomp); [|lia]. f_equal. f_equal. rewrite Hs, Hm in Hmk. lia. }
      assert (Eb : wsum (fun e => g e * zz (src e)) (fun e => P 0 c e && (snk e <? src e)%nat) es
                   = wsum g (fun e => P 0 c e && (snk e <? src e)%nat) es * x (S (cs ly b + r))).
      { rewrite <- wsum_mul_const. apply wsum_val_ext. intros e He Hp. apply andb_true_iff in Hp. destruct Hp as [Hp Hlt].
        unfold P, is_type in Hp. apply andb_true_iff in Hp. destruct Hp as [Ht Hs]. apply Nat.eqb_eq in Ht, Hs. apply Nat.ltb_lt in Hlt.
        destruct (gs_src0 _ _ _ _ _ _ _ _ G e He Ht) as [Hsrc _]. destruct (gs_bwd _ _ _ _ _ _ _ _ G e He Ht Hlt) as [Hmk _].
        unfold zz. destruct (Nat.ltb_spec (src e) ncomp); [|lia]. f_equal. f_equal. rewrite Hs, Hm in Hmk. lia. }
      rewrite Ef, Eb.
      (* the stored lower / upper entries *)
      assert (Elw : lw s (cs ly b + r)%nat = - (dt * wsum g (fun e => P 0 c e && (src e <? snk e)%nat) es)).
      { unfold s. rewrite lw_val. f_equal. f_equal. apply wsum_ext. intros e He. unfold P, atslot.
        destruct (is_type 0 e) eqn:Et; cbn [andb]; [|reflexivity]. unfold is_type in Et. apply Nat.eqb_eq in Et.
        rewrite <- Hm, (slot_is_node c e Hc He ltac:(lia)). apply andb_comm. }
      assert (Eup : up s (cs ly b + r)%nat = - (dt * wsum g (fun e => P 0 c e && (snk e <? src e)%nat) es)).
      { unfold s. rewrite up_val. f_equal. f_equal. apply wsum_ext. intros e He. unfold P, atslot.
        destruct (is_type 0 e) eqn:Et; cbn [andb]; [|reflexivity]. unfold is_type in Et. apply Nat.eqb_eq in Et.
        rewrite <- Hm, (slot_is_node c e Hc He ltac:(lia)). apply andb_comm. }
      unfold lo_term, up_term. rewrite Elw, Eup.
      (* no forward edge ends in a first compartment, no backward edge in a last one *)
      assert (L0 : r = 0%nat -> wsum g (fun e => P 0 c e && (src e <? snk e)%nat) es = 0).
      { intros ->. apply wsum_none. intros e He. destruct (P 0 c e && (src e <? snk e)%nat) eqn:E; [|reflexivity]. exfalso.
        apply andb_true_iff in E. destruct E as [Hp Hlt]. unfold P, is_type in Hp. apply andb_true_iff in Hp. destruct Hp as [Ht Hs].
        apply Nat.eqb_eq in Ht, Hs. apply Nat.ltb_lt in Hlt. destruct (gs_fwd _ _ _ _ _ _ _ _ G e He Ht Hlt) as [_ Hn].
        apply (Hn b Hb). rewrite Hs, Hm. lia. }
      assert (U0 : ~ (S r < pl ly b)%nat -> wsum g (fun e => P 0 c e && (snk e <? src e)%nat) es = 0).
      { intros Hn'. pose proof nc_le_pl. apply wsum_none. intros e He. destruct (P 0 c e && (snk e <? src e)%nat) eqn:E; [|reflexivity]. exfalso.
        apply andb_true_iff in E. destruct E as [Hp Hlt]. unfold P, is_type in Hp. apply andb_true_iff in Hp. destruct Hp as [Ht Hs].
        apply Nat.eqb_eq in Ht, Hs. apply Nat.ltb_lt in Hlt. destruct (gs_bwd _ _ _ _ _ _ _ _ G e He Ht Hlt) as [_ Hn].
        apply (Hn b Hb). rewrite Hs, Hm. lia. }
      destruct (Nat.eqb_spec r 0) as [E0|E0]; destruct (Nat.ltb_spec (S r) (pl ly b)) as [E1|E1].
      - rewrite (L0 E0). lra.
      - rewrite (L0 E0), (U0 ltac:(lia)). lra.
      - lra.
      - rewrite (U0 ltac:(lia)). lra.
    Qed.

    (* ---- type 1: the branch point at the far end of the branch (row of its LAST compartment) ---- *)
    Let slot1 (p : nat) : nat := (cs ly p + (nc ly p - 1))%nat.

    Lemma slot1_inj idx idx' : (idx < length par_inds)%nat -> (idx' < length par_inds)%nat ->
      slot1 (nth idx par_inds 0%nat) = slot1 (nth idx' par_inds 0%nat) -> nth idx par_inds 0%nat = nth idx' par_inds 0%nat.
    Proof.
      intros H1 H2 E. pose proof (gs_par_lt _ _ _ _ _ _ _ _ G idx H1) as P1. pose proof (gs_par_lt _ _ _ _ _ _ _ _ G idx' H2) as P2.
      pose proof (wf_nc _ _ W _ P1). pose proof (wf_nc _ _ W _ P2).
      destruct (slot_inj _ _ W _ (nc ly (nth idx par_inds 0%nat) - 1)%nat _ (nc ly (nth idx' par_inds 0%nat) - 1)%nat P1 ltac:(lia) P2 ltac:(lia) E). assumption.
    Qed.

    Lemma t1_part : cp_term ly tp s y b r = - (dt * Z 1 c).
    Proof.
      unfold Z. change (P 1 c) with (fun e => is_type 1 e && (snk e =? c)%nat). rewrite <- wsum_filter. fold (of_type R 1 es).
      unfold cp_term.
      destruct (Nat.eqb_spec r (nc ly b - 1)) as [Er|Er]; [destruct (cbp tp b) as [j|] eqn:Ec|].
      - (* the edge from branch point j *)
        pose proof (gs_par_in _ _ _ _ _ _ _ _ G b j Hb Ec) as Hin. destruct (In_nth _ _ 0%nat Hin) as (idx0 & H0 & E0).
        rewrite (block_unique 1 par_inds slot1 _ c idx0 ltac:(lia) Hc
                   (as_len1 _ _ _ _ _ _ _ St) (gs_par_nodup _ _ _ _ _ _ _ _ G) (as_t1 _ _ _ _ _ _ _ St) slot1_inj H0)
          by (rewrite E0, Hm, Er; reflexivity).
        rewrite (gs_src1 _ _ _ _ _ _ _ _ G idx0 H0). unfold zz. destruct (Nat.ltb_spec (ncomp + nth idx0 group 0%nat)%nat ncomp); [lia|].
        replace (ncomp + nth idx0 group 0%nat - ncomp)%nat with (nth idx0 group 0%nat) by lia.
        pose proof (as_g3 _ _ _ _ _ _ _ St idx0 H0) as G3. rewrite E0, Ec in G3. inversion G3 as [Ej].
        unfold s. rewrite cp_val. rewrite <- E0.
        rewrite set_all_nodup; [|apply (gs_par_nodup _ _ _ _ _ _ _ _ G) | exact H0 | rewrite map_length, (as_len1 _ _ _ _ _ _ _ St); exact H0].
        rewrite (nth_map_default (fun e => (0 - dt) * g e) _ e0 idx0) by (rewrite (as_len1 _ _ _ _ _ _ _ St); exact H0). lra.
      - rewrite (block_none 1 par_inds slot1 _ c (as_len1 _ _ _ _ _ _ _ St) (as_t1 _ _ _ _ _ _ _ St)); [lra|].
        intros idx Hi E. pose proof (gs_par_lt _ _ _ _ _ _ _ _ G idx Hi) as P1. pose proof (wf_nc _ _ W _ P1). pose proof (wf_nc _ _ W b Hb).
        rewrite Hm in E. destruct (slot_inj _ _ W _ (nc ly (nth idx par_inds 0%nat) - 1)%nat b r P1 ltac:(lia) Hb ltac:(lia) E) as [Eb _].
        pose proof (as_g3 _ _ _ _ _ _ _ St idx Hi) as G3. rewrite Eb, Ec in G3. discriminate.
      - rewrite (block_none 1 par_inds slot1 _ c (as_len1 _ _ _ _ _ _ _ St) (as_t1 _ _ _ _ _ _ _ St)); [lra|].
        intros idx Hi E. pose proof (gs_par_lt _ _ _ _ _ _ _ _ G idx Hi) as P1. pose proof (wf_nc _ _ W _ P1). pose proof (wf_nc _ _ W b Hb).
        rewrite Hm in E. destruct (slot_inj _ _ W _ (nc ly (nth idx par_inds 0%nat) - 1)%nat b r P1 ltac:(lia) Hb ltac:(lia) E) as [Eb Ek].
        subst b. lia.
    Qed.

    (* ---- type 2: the branch point the branch hangs on (row of its FIRST compartment) ---- *)
    Let slot2 (p : nat) : nat := cs ly p.

    Lemma slot2_inj idx idx' : (idx < length child_inds)%nat -> (idx' < length child_inds)%nat ->
      slot2 (nth idx child_inds 0%nat) = slot2 (nth idx' child_inds 0%nat) -> nth idx child_inds 0%nat = nth idx' child_inds 0%nat.
    Proof.
      intros H1 H2 E. pose proof (gs_child_lt _ _ _ _ _ _ _ _ G idx H1) as P1. pose proof (gs_child_lt _ _ _ _ _ _ _ _ G idx' H2) as P2.
      pose proof (wf_nc _ _ W _ P1). pose proof (wf_nc _ _ W _ P2). unfold slot2 in E.
      destruct (slot_inj _ _ W _ 0%nat _ 0%nat P1 ltac:(lia) P2 ltac:(lia) ltac:(lia)). assumption.
    Qed.

    Lemma t2_part : cc_term tp s y b r = - (dt * Z 2 c).
    Proof.
      unfold Z. change (P 2 c) with (fun e => is_type 2 e && (snk e =? c)%nat). rewrite <- wsum_filter. fold (of_type R 2 es).
      unfold cc_term.
      destruct (Nat.eqb_spec r 0) as [Er|Er]; [destruct (pbp tp b) as [j|] eqn:Ec|].
      - pose proof (as_kids_in _ _ _ _ _ _ _ St b j Hb Ec) as Hin. destruct (In_nth _ _ 0%nat Hin) as (idx0 & H0 & E0).
        rewrite (block_unique 2 child_inds slot2 _ c idx0 ltac:(lia) Hc
                   (as_len2 _ _ _ _ _ _ _ St) (as_child_nodup _ _ _ _ _ _ _ St) (as_t2 _ _ _ _ _ _ _ St) slot2_inj H0)
          by (unfold slot2; rewrite E0, Hm, Er; lia).
        rewrite (gs_src2 _ _ _ _ _ _ _ _ G idx0 H0). unfold zz.
        destruct (Nat.ltb_spec (ncomp + nth (length par_inds + idx0) group 0%nat)%nat ncomp); [lia|].
        replace (ncomp + nth (length par_inds + idx0) group 0%nat - ncomp)%nat with (nth (length par_inds + idx0) group 0%nat) by lia.
        pose proof (as_g4 _ _ _ _ _ _ _ St idx0 H0) as G4. rewrite E0, Ec in G4. inversion G4 as [Ej].
        unfold s. rewrite cc_val. rewrite <- E0.
        rewrite set_all_nodup; [|apply (as_child_nodup _ _ _ _ _ _ _ St) | exact H0 | rewrite map_length, (as_len2 _ _ _ _ _ _ _ St); exact H0].
        rewrite (nth_map_default (fun e => (0 - dt) * g e) _ e0 idx0) by (rewrite (as_len2 _ _ _ _ _ _ _ St); exact H0). lra.
      - rewrite (block_none 2 child_inds slot2 _ c (as_len2 _ _ _ _ _ _ _ St) (as_t2 _ _ _ _ _ _ _ St)); [lra|].
        intros idx Hi E. pose proof (gs_child_lt _ _ _ _ _ _ _ _ G idx Hi) as P1. pose proof (wf_nc _ _ W _ P1). pose proof (wf_nc _ _ W b Hb).
        unfold slot2 in E. rewrite Hm in E.
        destruct (slot_inj _ _ W _ 0%nat b r P1 ltac:(lia) Hb ltac:(lia) ltac:(lia)) as [Eb _].
        pose proof (as_g4 _ _ _ _ _ _ _ St idx Hi) as G4. rewrite Eb, Ec in G4. discriminate.
      - rewrite (block_none 2 child_inds slot2 _ c (as_len2 _ _ _ _ _ _ _ St) (as_t2 _ _ _ _ _ _ _ St)); [lra|].
        intros idx Hi E. pose proof (gs_child_lt _ _ _ _ _ _ _ _ G idx Hi) as P1. pose proof (wf_nc _ _ W _ P1). pose proof (wf_nc _ _ W b Hb).
        unfold slot2 in E. rewrite Hm in E.
        destruct (slot_inj _ _ W _ 0%nat b r P1 ltac:(lia) Hb ltac:(lia) ltac:(lia)) as [_ Ek]. lia.
    Qed.

    (* ---- the row of compartment c says what the graph equation of c says ---- *)
    Theorem comp_row : row_lhs ly tp s x y b r - sv s (cs ly b + r)%nat = comp_lhs c - comp_rhs c.
    Proof.
      unfold row_lhs. rewrite t1_part, t2_part.
      replace (dg s (cs ly b + r)%nat * x (cs ly b + r)%nat + lo_term ly s x b r + up_term ly s x b r + - (dt * Z 2 c) + - (dt * Z 1 c))
        with (dg s (cs ly b + r)%nat * x (cs ly b + r)%nat + (lo_term ly s x b r + up_term ly s x b r) - dt * Z 2 c - dt * Z 1 c) by lra.
      rewrite t0_part.
      assert (Esv : sv s (cs ly b + r)%nat = comp_rhs c).
      { rewrite sv_val, <- Hm. unfold comp_rhs. apply (wsum_seq_inj (fun c => v c + dt * ct c) mask ncomp c Hc (gs_inj _ _ _ _ _ _ _ _ G)). }
      assert (Edg : dg s (cs ly b + r)%nat = 1 + dt * wsum g (into c) es + dt * vt c).
      { unfold s. rewrite dg_val, <- Hm.
        rewrite (wsum_seq_inj vt mask ncomp c Hc (gs_inj _ _ _ _ _ _ _ _ G)).
        rewrite (wsum_ext g (fun e => (ty e <=? 2)%nat && atslot mask (mask c) e) (into c) es); [reflexivity|].
        intros e He. unfold into, atslot. destruct (Nat.leb_spec (ty e) 2) as [Ht|Ht]; cbn [andb]; [|reflexivity].
        apply (slot_is_node c e Hc He Ht). }
      rewrite Esv, Edg. unfold comp_lhs. rewrite <- Hm.
      assert (Elin : wsum (fun e => g e * (x (mask c) - zz (src e))) (into c) es
                     = wsum g (into c) es * x (mask c) - wsum (fun e => g e * zz (src e)) (into c) es).
      { rewrite <- wsum_mul_const.
        rewrite (wsum_val_ext (fun e => g e * (x (mask c) - zz (src e))) (fun e => g e * x (mask c) + - (g e * zz (src e))) (into c) es) by (intros; lra).
        rewrite wsum_plus.
        assert (forall l, wsum (fun e => - (g e * zz (src e))) (into c) l = - wsum (fun e => g e * zz (src e)) (into c) l).
        { induction l as [|e l IH]; cbn [wsum fold_right]; [lra|]. fold (wsum (fun e => - (g e * zz (src e))) (into c) l) (wsum (fun e => g e * zz (src e)) (into c) l).
          rewrite IH. destruct (into c e); lra. }
        rewrite H. lra. }
      rewrite Elin, Z_split. lra.
    Qed.
  End Row.
End Graph.

(* ---- branch-point rows: lockstep sums ---- *)
Lemma kids_sum_eq j (X : nat -> R) : forall (inds grp : list nat) (vals : list R) (kids_ : list nat),
  length inds = length vals -> length inds = length grp -> NoDup inds -> NoDup kids_ ->
  (forall c, In c kids_ -> In c inds) ->
  (forall i q, In (i, q) (combine inds grp) -> (In i kids_ <-> q = j)) ->
  sumf (fun c => set_all R (fun _ => 0) inds vals c * X c) kids_
  = wsum (fun t : nat * (nat * R) => snd (snd t) * X (fst t)) (fun t => (fst (snd t) =? j)%nat) (combine inds (combine grp vals)).
Proof.
  induction inds as [|i inds IH]; intros grp vals kids_ L1 L2 ND NDk Hin Hgrp.
  - destruct kids_ as [|c r]; [reflexivity|]. exfalso. apply (Hin c). now left.
  - destruct vals as [|v vals]; [cbn in L1; lia|]. destruct grp as [|q grp]; [cbn in L2; lia|].
    inversion ND as [|? ? Hni ND']; subst. cbn [combine wsum fold_right fst snd].
    fold (wsum (fun t : nat * (nat * R) => snd (snd t) * X (fst t)) (fun t => (fst (snd t) =? j)%nat) (combine inds (combine grp vals))).
    rewrite (sumf_ext _ (fun c => (if (c =? i)%nat then v else set_all R (fun _ => 0) inds vals c) * X c) kids_)
      by (intros c _; rewrite (set_all_cons_notin i inds v vals (fun _ => 0) c Hni); reflexivity).
    destruct (in_dec Nat.eq_dec i kids_) as [Hik|Hnik].
    + assert (q = j) by (apply (Hgrp i q); [now left | exact Hik]). subst q. rewrite Nat.eqb_refl.
      rewrite (sumf_remove _ kids_ i NDk Hik). rewrite Nat.eqb_refl. f_equal.
      rewrite (sumf_ext _ (fun c => set_all R (fun _ => 0) inds vals c * X c) (remove Nat.eq_dec i kids_)).
      * apply IH; cbn in L1, L2; try lia; auto.
        -- apply NoDup_remove_nat, NDk.
        -- intros c Hc. apply in_remove in Hc. destruct Hc as [Hc Hne]. destruct (Hin c Hc) as [E|E]; [congruence | exact E].
        -- intros i' q' Hiq. split.
           ++ intros Hk. apply in_remove in Hk. apply (Hgrp i' q'); [now right | tauto].
           ++ intros Eq. apply in_in_remove.
              ** intros Ei. subst i'. apply Hni. apply in_combine_l in Hiq. exact Hiq.
              ** apply (Hgrp i' q'); [now right | exact Eq].
      * intros c Hc. apply in_remove in Hc. destruct Hc as [_ Hne]. destruct (Nat.eqb_spec c i); [contradiction | reflexivity].
    + assert (Hq : (q =? j)%nat = false).
      { apply Nat.eqb_neq. intros Eq. apply Hnik. apply (Hgrp i q); [now left | exact Eq]. }
      rewrite Hq. rewrite Rplus_0_l.
      rewrite (sumf_ext _ (fun c => set_all R (fun _ => 0) inds vals c * X c) kids_).
      * apply IH; cbn in L1, L2; try lia; auto.
        -- intros c Hc. destruct (Hin c Hc) as [E|E]; [subst; contradiction | exact E].
        -- intros i' q' Hiq. apply (Hgrp i' q'). now right.
      * intros c Hc. destruct (Nat.eqb_spec c i); [subst; contradiction | reflexivity].
Qed.

Lemma wsum_lockstep3 j (X : nat -> R) (F : edge R -> R) (p : edge R -> bool) : forall (E : list (edge R)) (inds grp : list nat),
  length inds = length E -> length grp = length E ->
  (forall k, (k < length E)%nat -> (nth k grp 0%nat =? j)%nat = p (nth k E e0) /\
                                   (p (nth k E e0) = true -> F (nth k E e0) = e_g R (nth k E e0) * X (nth k inds 0%nat))) ->
  wsum (fun t : nat * (nat * R) => snd (snd t) * X (fst t)) (fun t => (fst (snd t) =? j)%nat) (combine inds (combine grp (map (e_g R) E)))
  = wsum F p E.
Proof.
  induction E as [|e E IH]; intros inds grp L1 L2 H.
  - destruct inds; [reflexivity | cbn in L1; lia].
  - destruct inds as [|i inds]; [cbn in L1; lia|]. destruct grp as [|q grp]; [cbn in L2; lia|].
    cbn [map combine wsum fold_right fst snd].
    fold (wsum (fun t : nat * (nat * R) => snd (snd t) * X (fst t)) (fun t => (fst (snd t) =? j)%nat) (combine inds (combine grp (map (e_g R) E)))).
    fold (wsum F p E). destruct (H 0%nat ltac:(cbn; lia)) as [H1 H2]. cbn [nth] in H1, H2. rewrite H1.
    rewrite (IH inds grp); [|cbn in L1; lia | cbn in L2; lia |].
    + destruct (p e) eqn:Ep; [rewrite (H2 eq_refl)|]; reflexivity.
    + intros k Hk. apply (H (Datatypes.S k)). cbn. lia.
Qed.

Lemma wsum_lockstep2 j (F : edge R -> R) (p : edge R -> bool) : forall (E : list (edge R)) (grp : list nat),
  length grp = length E ->
  (forall k, (k < length E)%nat -> (nth k grp 0%nat =? j)%nat = p (nth k E e0) /\ (p (nth k E e0) = true -> F (nth k E e0) = e_g R (nth k E e0))) ->
  wsum snd (fun jw : nat * R => (fst jw =? j)%nat) (combine grp (map (e_g R) E)) = wsum F p E.
Proof.
  induction E as [|e E IH]; intros grp L H.
  - destruct grp; [reflexivity | cbn in L; lia].
  - destruct grp as [|q grp]; [cbn in L; lia|]. cbn [map combine wsum fold_right fst snd].
    fold (wsum (@snd nat R) (fun jw : nat * R => (fst jw =? j)%nat) (combine grp (map (e_g R) E))). fold (wsum F p E).
    destruct (H 0%nat ltac:(cbn; lia)) as [H1 H2]. cbn [nth] in H1, H2. rewrite H1.
    rewrite (IH grp); [|cbn in L; lia|].
    + destruct (p e) eqn:Ep; [rewrite (H2 eq_refl)|]; reflexivity.
    + intros k Hk. apply (H (Datatypes.S k)). cbn. lia.
Qed.

Lemma wsum_minus {A} (a b : A -> R) p l : wsum (fun e => a e - b e) p l = wsum a p l - wsum b p l.
Proof. induction l as [|e l IH]; cbn [wsum fold_right]; [lra|]. fold (wsum (fun e => a e - b e) p l) (wsum a p l) (wsum b p l). rewrite IH. destruct (p e); lra. Qed.

Record graph_struct_bp (ly : layout) (mask : nat -> nat) (ncomp : nat) (es : list (edge R))
       (group child_inds par_inds : list nat) : Prop := mkgb {
  gb_snk3 : forall idx, (idx < length par_inds)%nat -> e_sink R (nth idx (of_type R 3 es) e0) = (ncomp + nth idx group 0)%nat;
  gb_src3 : forall idx, (idx < length par_inds)%nat ->
            (e_source R (nth idx (of_type R 3 es) e0) < ncomp)%nat /\
            mask (e_source R (nth idx (of_type R 3 es) e0)) = last ly (nth idx par_inds 0%nat);
  gb_snk4 : forall idx, (idx < length child_inds)%nat ->
            e_sink R (nth idx (of_type R 4 es) e0) = (ncomp + nth (length par_inds + idx) group 0)%nat;
  gb_src4 : forall idx, (idx < length child_inds)%nat ->
            (e_source R (nth idx (of_type R 4 es) e0) < ncomp)%nat /\
            mask (e_source R (nth idx (of_type R 4 es) e0)) = first ly (nth idx child_inds 0%nat)
}.

Section GraphBp.
  Variables (ly : layout) (tp : topo).
  Hypothesis W : wf ly tp.
  Variables (mask : nat -> nat) (ncomp : nat) (es : list (edge R)) (v vt ct : nat -> R) (dt : R)
            (group child_inds par_inds : list nat).
  Hypothesis G : graph_struct ly tp mask ncomp es group child_inds par_inds.
  Hypothesis B : graph_struct_bp ly mask ncomp es group child_inds par_inds.
  Let St := gs_asm _ _ _ _ _ _ _ _ G.
  Let s := assemble R Rplus Rminus Rmult 0 1 mask ncomp es v vt ct dt group child_inds par_inds.
  Notation g := (e_g R).
  Notation src := (e_source R).
  Notation snk := (e_sink R).
  Notation n3 := (length par_inds).
  Variables (x y : nat -> R).
  Notation zz := (zz mask ncomp x y).

  Definition bp_into (j : nat) (e : edge R) : bool := (is_type 3 e || is_type 4 e) && (snk e =? ncomp + j)%nat.
  Definition bp_graph (j : nat) : R := wsum (fun e => g e * (zz (src e) - y j)) (bp_into j) es.

  Lemma bs_zero j : bs s j = 0.
  Proof. reflexivity. Qed.

  Theorem bp_row j : (j < nbp tp)%nat -> bp_lhs ly tp s x y j = bp_graph j.
  Proof.
    intros Hj. unfold bp_graph, bp_lhs.
    set (pj := fun e : edge R => (snk e =? ncomp + j)%nat).
    (* the graph sum, block by block *)
    assert (Esplit : wsum (fun e => g e * (zz (src e) - y j)) (bp_into j) es
                     = wsum (fun e => g e * (zz (src e) - y j)) pj (of_type R 3 es) + wsum (fun e => g e * (zz (src e) - y j)) pj (of_type R 4 es)).
    { unfold of_type. rewrite !wsum_filter. rewrite <- wsum_or.
      - apply wsum_ext. intros e _. unfold bp_into, pj, is_type. destruct (e_type R e =? 3)%nat, (e_type R e =? 4)%nat, (snk e =? ncomp + j)%nat; reflexivity.
      - intros e _. unfold pj. pose proof (is_type_excl 3 4 e ltac:(lia)) as X. unfold is_type in X.
        destruct (e_type R e =? 3)%nat, (e_type R e =? 4)%nat, (snk e =? ncomp + j)%nat; cbn in *; congruence. }
    rewrite Esplit.
    rewrite !(wsum_val_ext (fun e => g e * (zz (src e) - y j)) (fun e => g e * zz (src e) - g e * y j)) by (intros; lra).
    rewrite !wsum_minus, !wsum_mul_const.
    (* the diagonal of the branch point collects exactly the weights of the edges into it *)
    assert (Ebd : bd s j = - (wsum g pj (of_type R 3 es) + wsum g pj (of_type R 4 es))).
    { unfold s. rewrite bd_val. f_equal. rewrite <- (firstn_skipn n3 group) at 1.
      rewrite combine_app by (rewrite firstn_length, map_length, (as_len3 _ _ _ _ _ _ _ St), (as_group _ _ _ _ _ _ _ St); lia).
      rewrite wsum_app. f_equal.
      - apply (wsum_lockstep2 j g pj).
        + rewrite firstn_length, (as_len3 _ _ _ _ _ _ _ St), (as_group _ _ _ _ _ _ _ St). lia.
        + intros k Hk. rewrite (as_len3 _ _ _ _ _ _ _ St) in Hk. split; [|reflexivity].
          rewrite nth_firstn_lt by exact Hk. unfold pj. rewrite (gb_snk3 _ _ _ _ _ _ _ B k Hk).
          destruct (Nat.eqb_spec (nth k group 0%nat) j), (Nat.eqb_spec (ncomp + nth k group 0%nat) (ncomp + j)); try reflexivity; lia.
      - apply (wsum_lockstep2 j g pj).
        + rewrite skipn_length, (as_len4 _ _ _ _ _ _ _ St), (as_group _ _ _ _ _ _ _ St). lia.
        + intros k Hk. rewrite (as_len4 _ _ _ _ _ _ _ St) in Hk. split; [|reflexivity].
          rewrite nth_skipn_shift. unfold pj. rewrite (gb_snk4 _ _ _ _ _ _ _ B k Hk).
          destruct (Nat.eqb_spec (nth (n3 + k) group 0%nat) j), (Nat.eqb_spec (ncomp + nth (n3 + k) group 0%nat) (ncomp + j)); try reflexivity; lia. }
    (* the children *)
    assert (Ekids : sumf (fun c => wc s c * x (first ly c)) (kids tp j) = wsum (fun e => g e * zz (src e)) pj (of_type R 4 es)).
    { rewrite (sumf_ext _ (fun c => set_all R (fun _ => 0) child_inds (map g (of_type R 4 es)) c * x (first ly c)) (kids tp j))
        by (intros c _; unfold s; rewrite wc_val; reflexivity).
      rewrite (kids_sum_eq j (fun c => x (first ly c)) child_inds (skipn n3 group)).
      - apply (wsum_lockstep3 j (fun c => x (first ly c)) (fun e => g e * zz (src e)) pj).
        + symmetry. apply (as_len4 _ _ _ _ _ _ _ St).
        + rewrite skipn_length, (as_len4 _ _ _ _ _ _ _ St), (as_group _ _ _ _ _ _ _ St). lia.
        + intros k Hk. rewrite (as_len4 _ _ _ _ _ _ _ St) in Hk. split.
          * rewrite nth_skipn_shift. unfold pj. rewrite (gb_snk4 _ _ _ _ _ _ _ B k Hk).
            destruct (Nat.eqb_spec (nth (n3 + k) group 0%nat) j), (Nat.eqb_spec (ncomp + nth (n3 + k) group 0%nat) (ncomp + j)); try reflexivity; lia.
          * intros _. destruct (gb_src4 _ _ _ _ _ _ _ B k Hk) as [H1 H2]. unfold AssembleGraph.zz.
            destruct (Nat.ltb_spec (src (nth k (of_type R 4 es) e0)) ncomp); [|lia]. rewrite H2. reflexivity.
      - rewrite map_length. symmetry. apply (as_len4 _ _ _ _ _ _ _ St).
      - rewrite skipn_length, (as_group _ _ _ _ _ _ _ St). lia.
      - apply (as_child_nodup _ _ _ _ _ _ _ St).
      - apply (wf_kids_nodup _ _ W j Hj).
      - intros c Hc. destruct (wf_kids_pbp _ _ W j c Hj Hc) as [Hcb Hp]. apply (as_kids_in _ _ _ _ _ _ _ St c j Hcb Hp).
      - intros i q Hiq. destruct (In_combine_nth_inv 0%nat 0%nat _ _ _ _ Hiq) as (k & H1 & H2 & H3 & H4).
        rewrite nth_skipn_shift in H4. pose proof (as_g4 _ _ _ _ _ _ _ St k H1) as G4. rewrite H3, H4 in G4.
        pose proof (gs_child_lt _ _ _ _ _ _ _ _ G k H1) as Hlt. rewrite H3 in Hlt. split.
        + intros Hk. destruct (wf_kids_pbp _ _ W j i Hj Hk) as [_ Hp]. congruence.
        + intros ->. apply (wf_pbp_kids _ _ W i j Hlt G4). }
    (* the parent *)
    assert (Epar : wp s (par tp j) * x (last ly (par tp j)) = wsum (fun e => g e * zz (src e)) pj (of_type R 3 es)).
    { destruct (wf_par _ _ W j Hj) as [Hpb Hcb].
      pose proof (gs_par_in _ _ _ _ _ _ _ _ G (par tp j) j Hpb Hcb) as Hin. destruct (In_nth _ _ 0%nat Hin) as (idx0 & H0 & E0).
      assert (Hg0 : nth idx0 group 0%nat = j).
      { pose proof (as_g3 _ _ _ _ _ _ _ St idx0 H0) as G3. rewrite E0, Hcb in G3. congruence. }
      rewrite (wsum_nth_unique e0 (fun e => g e * zz (src e)) pj (of_type R 3 es) idx0).
      - destruct (gb_src3 _ _ _ _ _ _ _ B idx0 H0) as [H1 H2]. unfold AssembleGraph.zz.
        destruct (Nat.ltb_spec (src (nth idx0 (of_type R 3 es) e0)) ncomp); [|lia]. rewrite H2, E0.
        unfold s. rewrite wp_val, <- E0.
        rewrite set_all_nodup; [|apply (gs_par_nodup _ _ _ _ _ _ _ _ G) | exact H0 | rewrite map_length, (as_len3 _ _ _ _ _ _ _ St); exact H0].
        rewrite (nth_map_default g _ e0 idx0) by (rewrite (as_len3 _ _ _ _ _ _ _ St); exact H0). rewrite E0. reflexivity.
      - rewrite (as_len3 _ _ _ _ _ _ _ St). exact H0.
      - unfold pj. rewrite (gb_snk3 _ _ _ _ _ _ _ B idx0 H0), Hg0. apply Nat.eqb_refl.
      - intros k Hk Hp. rewrite (as_len3 _ _ _ _ _ _ _ St) in Hk. unfold pj in Hp. rewrite (gb_snk3 _ _ _ _ _ _ _ B k Hk) in Hp.
        apply Nat.eqb_eq in Hp. assert (Hgk : nth k group 0%nat = j) by lia.
        pose proof (as_g3 _ _ _ _ _ _ _ St k Hk) as G3. rewrite Hgk in G3.
        destruct (wf_cbp _ _ W _ j (gs_par_lt _ _ _ _ _ _ _ _ G k Hk) G3) as [_ Ep].
        apply (proj1 (NoDup_nth par_inds 0%nat) (gs_par_nodup _ _ _ _ _ _ _ _ G)); auto. congruence. }
    rewrite Ebd, Ekids, Epar. lra.
  Qed.
End GraphBp.

(* ---- the represented system IS the backward-Euler system of the conductance graph ---- *)
Section Equiv.
  Variables (ly : layout) (tp : topo).
  Hypothesis W : wf ly tp.
  Variables (mask : nat -> nat) (ncomp : nat) (es : list (edge R)) (v vt ct : nat -> R) (dt : R)
            (group child_inds par_inds : list nat).
  Hypothesis G : graph_struct ly tp mask ncomp es group child_inds par_inds.
  Hypothesis B : graph_struct_bp ly mask ncomp es group child_inds par_inds.
  (* compartments and real slots correspond *)
  Hypothesis Hslot : forall c, (c < ncomp)%nat -> exists b r, (b < nb tp)%nat /\ (r < nc ly b)%nat /\ mask c = (cs ly b + r)%nat.
  Hypothesis Hcomp : forall b r, (b < nb tp)%nat -> (r < nc ly b)%nat -> exists c, (c < ncomp)%nat /\ mask c = (cs ly b + r)%nat.
  Let s := assemble R Rplus Rminus Rmult 0 1 mask ncomp es v vt ct dt group child_inds par_inds.

  Definition graph_eq (x y : nat -> R) : Prop :=
    (forall c, (c < ncomp)%nat -> comp_lhs mask ncomp es vt dt x y c = comp_rhs v ct dt c) /\
    (forall j, (j < nbp tp)%nat -> bp_graph mask ncomp es x y j = 0) /\
    (forall b k, (b < nb tp)%nat -> (nc ly b <= k < pl ly b)%nat -> x (cs ly b + k)%nat = 0).

  (* a padded slot carries the identity row *)
  Lemma padded_row x y b k : (b < nb tp)%nat -> (nc ly b <= k < pl ly b)%nat ->
    (row_eq ly tp s x y b k <-> x (cs ly b + k)%nat = 0).
  Proof.
    intros Hb Hk. set (i := (cs ly b + k)%nat).
    assert (Hno : forall c, (c < ncomp)%nat -> mask c <> i).
    { intros c Hc E. destruct (Hslot c Hc) as (b' & r & Hb' & Hr & Em). pose proof (wf_nc _ _ W b' Hb').
      rewrite Em in E. destruct (slot_inj _ _ W b' r b k Hb' ltac:(lia) Hb ltac:(lia) E). subst. lia. }
    assert (Hedge : forall e, In e es -> (e_type R e <= 2)%nat -> atslot mask i e = false).
    { intros e He Ht. unfold atslot. apply Nat.eqb_neq. apply Hno. apply (gs_sink _ _ _ _ _ _ _ _ G e He Ht). }
    assert (Edg : dg s i = 1).
    { unfold s. rewrite dg_val. rewrite !wsum_none; [lra | |].
      - intros c Hc. apply in_seq in Hc. apply Nat.eqb_neq. apply Hno. lia.
      - intros e He. destruct (Nat.leb_spec (e_type R e) 2) as [Ht|Ht]; cbn [andb]; [apply Hedge; auto | reflexivity]. }
    assert (Esv : sv s i = 0).
    { unfold s, assemble. cbn [sv]. rewrite fold_addat_all. rewrite wsum_none; [lra|].
      intros c Hc. apply in_seq in Hc. apply Nat.eqb_neq. apply Hno. lia. }
    assert (Elw : lw s i = 0).
    { unfold s. rewrite lw_val. rewrite wsum_none; [lra|]. intros e He. unfold is_type.
      destruct (Nat.eqb_spec (e_type R e) 0) as [E0|]; cbn [andb]; [|reflexivity]. rewrite (Hedge e He ltac:(lia)). apply andb_false_r. }
    assert (Eup : up s i = 0).
    { unfold s. rewrite up_val. rewrite wsum_none; [lra|]. intros e He. unfold is_type.
      destruct (Nat.eqb_spec (e_type R e) 0) as [E0|]; cbn [andb]; [|reflexivity]. rewrite (Hedge e He ltac:(lia)). apply andb_false_r. }
    pose proof (wf_nc _ _ W b Hb) as Hnc.
    unfold row_eq, row_lhs, lo_term, up_term, cc_term, cp_term. fold i. rewrite Edg, Esv, Elw, Eup.
    destruct (Nat.eqb_spec k 0); [lia|]. destruct (Nat.eqb_spec k (nc ly b - 1)); [lia|].
    destruct (S k <? pl ly b)%nat; split; intros; lra.
  Qed.

  Theorem sat_iff_graph x y : sat ly tp s x y <-> graph_eq x y.
  Proof.
    unfold sat, graph_eq. split.
    - intros [HR HB]. split; [|split].
      + intros c Hc. destruct (Hslot c Hc) as (b & r & Hb & Hr & Em). pose proof (wf_nc _ _ W b Hb).
        pose proof (comp_row ly tp W mask ncomp es v vt ct dt group child_inds par_inds G x y c b r Hc Hb Hr Em) as E.
        pose proof (HR b r Hb ltac:(lia)) as Rw. unfold row_eq in Rw. fold s in E. lra.
      + intros j Hj. rewrite <- (bp_row ly tp W mask ncomp es v vt ct dt group child_inds par_inds G B x y j Hj).
        pose proof (HB j Hj) as Bw. unfold bp_eq, s in Bw. rewrite Bw. reflexivity.
      + intros b k Hb Hk. apply (padded_row x y b k Hb Hk). apply HR; [exact Hb | lia].
    - intros (HC & HB & HP). split.
      + intros b k Hb Hk. destruct (Nat.lt_ge_cases k (nc ly b)) as [Hr|Hr].
        * destruct (Hcomp b k Hb Hr) as (c & Hc & Em).
          pose proof (comp_row ly tp W mask ncomp es v vt ct dt group child_inds par_inds G x y c b k Hc Hb Hr Em) as E.
          pose proof (HC c Hc). unfold row_eq. fold s in E. lra.
        * apply (padded_row x y b k Hb ltac:(lia)). apply HP; [exact Hb | lia].
      + intros j Hj. unfold bp_eq, s.
        rewrite (bp_row ly tp W mask ncomp es v vt ct dt group child_inds par_inds G B x y j Hj). rewrite (HB j Hj). reflexivity.
  Qed.
End Equiv.
