(* The traced mechanism functions equal the published equations (C04). *)
From Coq Require Import Reals Lra Bool.
From JV Require Import Prim RLemmas GSolverGate GChannels GSynapses GateGeneric GateIntro ChannelFacts Published.
Local Open Scope R_scope.

(* make syntactically different but equal exponents identical *)
Ltac align_exps :=
  repeat match goal with
  | |- context [exp ?A] =>
     match goal with
     | |- context [exp ?B] =>
        lazymatch A with B => fail | _ => idtac end;
        replace B with A by (field; lra)
     end
  end.
Ltac unclip_all := repeat (rewrite Rmin_left by lra).

(* ---------------------------------------------------------------- HH: every v in [-150,100] *)
Lemma vtrap_is_published x y : x / y <= 20 -> vtrap__r x y = Pub.vtrap x y.
Proof.
  intros H. unfold vtrap__r, Pub.vtrap. cbv zeta.
  destruct (rltb (Rabs (x / y)) (1 / 1000000)); [reflexivity|].
  rewrite Rmin_left by lra. reflexivity.
Qed.

Lemma HH_alpha_m_pub v : -150 <= v <= 100 -> HH_m_gate__a v = Pub.HH_alpha_m v.
Proof.
  intros Hv. change (HH_m_gate__a v) with (1 / 10 * vtrap__r (- (v + 40)) 10).
  rewrite vtrap_is_published by lra. reflexivity.
Qed.
Lemma HH_beta_m_pub v : -150 <= v <= 100 -> HH_m_gate__b v = Pub.HH_beta_m v.
Proof. intros Hv. unfold HH_m_gate__b, Pub.HH_beta_m. cbv zeta. unclip_all. reflexivity. Qed.
Lemma HH_alpha_h_pub v : -150 <= v <= 100 -> HH_h_gate__a v = Pub.HH_alpha_h v.
Proof. intros Hv. unfold HH_h_gate__a, Pub.HH_alpha_h. cbv zeta. unclip_all. reflexivity. Qed.
Lemma HH_beta_h_pub v : -150 <= v <= 100 -> HH_h_gate__b v = Pub.HH_beta_h v.
Proof. intros Hv. unfold HH_h_gate__b, Pub.HH_beta_h. cbv zeta. unclip_all. reflexivity. Qed.
Lemma HH_alpha_n_pub v : -150 <= v <= 100 -> HH_n_gate__a v = Pub.HH_alpha_n v.
Proof.
  intros Hv. change (HH_n_gate__a v) with (1 / 100 * vtrap__r (- (v + 55)) 10).
  rewrite vtrap_is_published by lra. reflexivity.
Qed.
Lemma HH_beta_n_pub v : -150 <= v <= 100 -> HH_n_gate__b v = Pub.HH_beta_n v.
Proof. intros Hv. unfold HH_n_gate__b, Pub.HH_beta_n. cbv zeta. unclip_all. reflexivity. Qed.
Lemma HH_current_pub m h n v gNa gK gL eNa eK eL :
  HH_current__i m h n v gNa gK gL eNa eK eL = Pub.HH_current m h n v gNa gK gL eNa eK eL.
Proof. unfold HH_current__i, Pub.HH_current. cbv zeta. ring. Qed.
Lemma HH_defaults_pub :
  HH_default__gNa = Pub.HH_gNa /\ HH_default__gK = Pub.HH_gK /\ HH_default__gLeak = Pub.HH_gL /\
  HH_default__eNa = Pub.HH_eNa /\ HH_default__eK = Pub.HH_eK /\ HH_default__eLeak = Pub.HH_eL /\
  HH_n_params = 6%nat /\ HH_n_states = 3%nat.
Proof.
  unfold HH_default__gNa, HH_default__gK, HH_default__gLeak, HH_default__eNa, HH_default__eK,
    HH_default__eLeak, Pub.HH_gNa, Pub.HH_gK, Pub.HH_gL, Pub.HH_eNa, Pub.HH_eK, Pub.HH_eL.
  repeat split; try reflexivity; lra.
Qed.

(* ---------------------------------------------------------------- Pospischil *)
(* x/(exp x - 1) terms: exact away from the guarded singularity and below the clip *)
Lemma efun_pub x : 1 / 1000000 <= Rabs x -> x <= 20 ->
  efun__r x = x / (exp x - 1) /\ exp x - 1 <> 0.
Proof.
  intros Hs Hx. split; [apply efun_gen_eq; auto|].
  apply exp_minus1_nonzero. intros E. rewrite E, Rabs_R0 in Hs. lra.
Qed.

Lemma Na_alpha_m_pub v vt :
  1 / 1000000 <= Rabs (- (1 / 4) * (v - vt - 13)) -> - (1 / 4) * (v - vt - 13) <= 20 ->
  Na_m_gate__a v vt = Pub.Na_alpha_m v vt.
Proof.
  intros Hs Hx.
  change (Na_m_gate__a v vt) with (8 / 25 * efun__r (- (1 / 4) * (v - vt - 13)) / (1 / 4)).
  destruct (efun_pub _ Hs Hx) as [E N]. rewrite E. unfold Pub.Na_alpha_m.
  align_exps. field. exact N.
Qed.
Lemma Na_beta_m_pub v vt :
  1 / 1000000 <= Rabs (1 / 5 * (v - vt - 40)) -> 1 / 5 * (v - vt - 40) <= 20 ->
  Na_m_gate__b v vt = Pub.Na_beta_m v vt.
Proof.
  intros Hs Hx.
  change (Na_m_gate__b v vt) with (7 / 25 * efun__r (1 / 5 * (v - vt - 40)) / (1 / 5)).
  destruct (efun_pub _ Hs Hx) as [E N]. rewrite E. unfold Pub.Na_beta_m.
  align_exps. field. exact N.
Qed.
Lemma Na_alpha_h_pub v vt : - (v - vt - 17) / 18 <= 20 -> Na_h_gate__a v vt = Pub.Na_alpha_h v vt.
Proof. intros H. unfold Na_h_gate__a, Pub.Na_alpha_h. cbv zeta. unclip_all. field. Qed.
Lemma Na_beta_h_pub v vt : - (v - vt - 40) / 5 <= 20 -> Na_h_gate__b v vt = Pub.Na_beta_h v vt.
Proof.
  intros H. unfold Na_h_gate__b, Pub.Na_beta_h. cbv zeta. unclip_all.
  pose proof (exp_pos (- (v - vt - 40) / 5)). field. lra.
Qed.
Lemma Na_current_pub m h v gNa eNa vt : Na_current__i m h v gNa eNa vt = Pub.Na_current m h v gNa eNa.
Proof. unfold Na_current__i, Pub.Na_current. cbv zeta. ring. Qed.

Lemma K_alpha_n_pub v vt :
  1 / 1000000 <= Rabs (- (1 / 5) * (v - vt - 15)) -> - (1 / 5) * (v - vt - 15) <= 20 ->
  K_n_gate__a v vt = Pub.K_alpha_n v vt.
Proof.
  intros Hs Hx.
  change (K_n_gate__a v vt) with (4 / 125 * efun__r (- (1 / 5) * (v - vt - 15)) / (1 / 5)).
  destruct (efun_pub _ Hs Hx) as [E N]. rewrite E. unfold Pub.K_alpha_n.
  align_exps. field. exact N.
Qed.
Lemma K_beta_n_pub v vt : - (v - vt - 10) / 40 <= 20 -> K_n_gate__b v vt = Pub.K_beta_n v vt.
Proof. intros H. unfold K_n_gate__b, Pub.K_beta_n. cbv zeta. unclip_all. field. Qed.
Lemma K_current_pub n v gK eK vt : K_current__i n v gK eK vt = Pub.K_current n v gK eK.
Proof. unfold K_current__i, Pub.K_current. cbv zeta. ring. Qed.

Lemma Km_p_inf_pub v taumax : -150 <= v <= 100 -> Km_p_gate__a v taumax = Pub.Km_p_inf v.
Proof.
  intros H. unfold Km_p_gate__a, Pub.Km_p_inf. cbv zeta. unclip_all. align_exps. reflexivity.
Qed.
Lemma Km_tau_p_pub v taumax : -150 <= v <= 100 -> Km_p_gate__b v taumax = Pub.Km_tau_p v taumax.
Proof.
  intros H. unfold Km_p_gate__b, Pub.Km_tau_p. cbv zeta. unclip_all. align_exps. reflexivity.
Qed.
Lemma Km_current_pub p v gKm taumax eK : Km_current__i p v gKm taumax eK = Pub.Km_current p v gKm eK.
Proof. unfold Km_current__i, Pub.Km_current. cbv zeta. ring. Qed.

Lemma CaL_alpha_q_pub v :
  1 / 1000000 <= Rabs ((- v - 27) / (19 / 5)) -> (- v - 27) / (19 / 5) <= 20 ->
  CaL_q_gate__a v = Pub.CaL_alpha_q v.
Proof.
  intros Hs Hx.
  change (CaL_q_gate__a v) with (11 / 200 * efun__r ((- v - 27) / (19 / 5)) * (19 / 5)).
  destruct (efun_pub _ Hs Hx) as [E N]. rewrite E. unfold Pub.CaL_alpha_q.
  align_exps. field. exact N.
Qed.
Lemma CaL_beta_q_pub v : -150 <= v <= 100 -> CaL_q_gate__b v = Pub.CaL_beta_q v.
Proof. intros H. unfold CaL_q_gate__b, Pub.CaL_beta_q. cbv zeta. unclip_all. align_exps. field. Qed.
Lemma CaL_alpha_r_pub v : -150 <= v <= 100 -> CaL_r_gate__a v = Pub.CaL_alpha_r v.
Proof. intros H. unfold CaL_r_gate__a, Pub.CaL_alpha_r. cbv zeta. unclip_all. align_exps. field. Qed.
Lemma CaL_beta_r_pub v : -150 <= v <= 100 -> CaL_r_gate__b v = Pub.CaL_beta_r v.
Proof.
  intros H. unfold CaL_r_gate__b, Pub.CaL_beta_r. cbv zeta. unclip_all. align_exps.
  pose proof (exp_pos ((- v - 15) / 28)). field. lra.
Qed.
Lemma CaL_current_pub q r v gCaL eCa : CaL_current__i q r v gCaL eCa = Pub.CaL_current q r v gCaL eCa.
Proof. unfold CaL_current__i, Pub.CaL_current. cbv zeta. ring. Qed.

Lemma CaT_u_inf_pub v vx : v + vx <= -1 -> CaT_u_gate__a v vx = Pub.CaT_u_inf v vx.
Proof.
  intros H. unfold CaT_u_gate__a, Pub.CaT_u_inf. cbv zeta. unclip_all. align_exps.
  match goal with |- context [exp ?A] => pose proof (exp_pos A) end. field. lra.
Qed.
Lemma CaT_tau_u_pub v vx : v + vx <= -20 -> CaT_u_gate__b v vx = Pub.CaT_tau_u v vx.
Proof.
  intros H. unfold CaT_u_gate__b, Pub.CaT_tau_u. cbv zeta. unclip_all. align_exps.
  pose proof (exp_pos ((v + vx + 84) / (16 / 5))). field. lra.
Qed.
Lemma CaT_current_pub u v gCaT vx eCa : -181 <= v + vx ->
  CaT_current__i u v gCaT vx eCa = Pub.CaT_current u v gCaT vx eCa.
Proof.
  intros H. unfold CaT_current__i, Pub.CaT_current, Pub.CaT_s_inf. cbv zeta. unclip_all.
  align_exps. ring.
Qed.
Lemma Leak_current_pub v gLeak eLeak : Leak_current__i v gLeak eLeak = Pub.Leak_current v gLeak eLeak.
Proof. reflexivity. Qed.

(* ---------------------------------------------------------------- synapses *)
Lemma iono_sinf_pub v : -235 <= v -> iono_sinf v = Pub.Syn_s_inf v.
Proof. intros H. unfold iono_sinf, Pub.Syn_s_inf. rewrite sexp_unclipped by lra. reflexivity. Qed.
Lemma iono_tau_pub k v : -235 <= v -> iono_tau k v = Pub.Syn_tau_s v k.
Proof. intros H. unfold iono_tau, Pub.Syn_tau_s. rewrite iono_sinf_pub by lra. reflexivity. Qed.
Lemma Iono_current_pub s v_pre v_post gS e_syn k_minus :
  IonotropicSynapse_current__i s v_pre v_post gS e_syn k_minus = Pub.Syn_current s v_post gS e_syn.
Proof. unfold IonotropicSynapse_current__i, Pub.Syn_current. cbv zeta. ring. Qed.

(* ---------------------------------------------------------------- renaming *)
Lemma rename_invariant :
  HHr_update__m = HH_update__m /\ HHr_update__h = HH_update__h /\ HHr_update__n = HH_update__n /\
  HHr_current__i = HH_current__i /\ Leakr_current__i = Leak_current__i /\
  Nar_update__m = Na_update__m /\ Nar_update__h = Na_update__h /\ Nar_current__i = Na_current__i /\
  Kr_update__n = K_update__n /\ Kr_current__i = K_current__i /\
  Kmr_update__p = Km_update__p /\ Kmr_current__i = Km_current__i /\
  CaLr_update__q = CaL_update__q /\ CaLr_update__r = CaL_update__r /\ CaLr_current__i = CaL_current__i /\
  CaTr_update__u = CaT_update__u /\ CaTr_current__i = CaT_current__i /\
  IonotropicSynapser_update__s = IonotropicSynapse_update__s /\
  IonotropicSynapser_current__i = IonotropicSynapse_current__i /\
  TestSynapser_update__c = TestSynapse_update__c /\ TestSynapser_current__i = TestSynapse_current__i /\
  TanhRateSynapser_current__i = TanhRateSynapse_current__i.
Proof. repeat split; reflexivity. Qed.

Lemma HH_rates_pub v : -150 <= v <= 100 ->
  HH_m_gate__a v = Pub.HH_alpha_m v /\ HH_m_gate__b v = Pub.HH_beta_m v /\
  HH_h_gate__a v = Pub.HH_alpha_h v /\ HH_h_gate__b v = Pub.HH_beta_h v /\
  HH_n_gate__a v = Pub.HH_alpha_n v /\ HH_n_gate__b v = Pub.HH_beta_n v.
Proof.
  intros H. repeat split;
  [apply HH_alpha_m_pub | apply HH_beta_m_pub | apply HH_alpha_h_pub | apply HH_beta_h_pub
   | apply HH_alpha_n_pub | apply HH_beta_n_pub]; exact H.
Qed.
Lemma c04_example :
  1 / 1000000 <= Rabs (- (1 / 4) * (-30 - -60 - 13)) /\ - (1 / 4) * (-30 - -60 - 13) <= 20.
Proof.
  split; [|lra]. replace (- (1 / 4) * (-30 - -60 - 13)) with (- (17 / 4)) by lra.
  rewrite Rabs_left by lra. lra.
Qed.
