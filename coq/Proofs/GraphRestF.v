(* C02 at the array level for NETWORKS: for every forest of cells, all positive conductances, all non-negative
   membrane conductances and every dt > 0: a network at rest stays at rest, and the voltages after an implicit
   step stay between the extremes of the previous voltages and the reversal potentials (no overshoot).
   Corollaries of forest_step_solves_the_graph_equations and the maximum principle of Proofs/GraphMax.v. *)
From Coq Require Import Reals List Arith Bool Lia Lra.
From JV Require Import HinesArr HinesCheck HinesArrFacts HinesArrPositive HinesIdx HinesTreeFacts HinesIdxFacts HinesIdxF HinesIdxFFacts
     AsmStruct AssembleM AssembleTotal AsmIdx AsmIdxFacts AssembleGraph AsmGraphFacts AsmIdxF AsmIdxFFacts AsmGraphFFacts GraphMax GraphRest.
Import ListNotations.
Local Open Scope R_scope.

Section RestF.
  Variables (ps ns : list nat) (rs : list bool).
  Hypothesis nb_pos : (1 <= length ps)%nat.
  Hypothesis sortedF : forall b, (b < length ps)%nat -> is_root rs b = false -> (nth b ps 0 < b)%nat.
  Hypothesis counts : forall b, (b < length ps)%nat -> (1 <= nth b ns 0)%nat.
  Variable es : list (edge R).
  Hypothesis E : map strip es = triples_ofF ps ns rs.
  Variables (v vt ct : nat -> R) (dt V : R).
  Hypothesis Hdt : 0 < dt.
  Hypothesis Hg : forall e, In e es -> 0 < e_g R e.
  Hypothesis Hvt : forall i, (i < total ps ns)%nat -> 0 <= vt i.
  Hypothesis Hv : forall c, (c < total ps ns)%nat -> v c = V.
  Hypothesis Hct : forall c, (c < total ps ns)%nat -> ct c = vt c * V.

  Notation nbL := (length ps).
  Notation ly := (layout_ofF ps ns rs).
  Notation tp := (topo_ofF ps rs).
  Notation mask := (nthD (mask_ofF ps ns rs)).
  Notation tot := (total ps ns).
  Notation csF := (cs_ofF ps ns rs).

  Definition realslotF (i : nat) : bool :=
    existsb (fun b => (csF b <=? i)%nat && (i <? csF b + ncomp_of ns b)%nat) (seq 0 nbL).
  Definition xrF (i : nat) : R := if realslotF i then V else 0.
  Definition yrF (_ : nat) : R := V.

  Lemma WF : wf ly tp.
  Proof. apply idx_wfF; assumption. Qed.

  Lemma real_atF c : (c < tot)%nat -> xrF (mask c) = V.
  Proof.
    intros Hc. destruct (forest_slot ps ns rs nb_pos c Hc) as (b & r & Hb & Hr & Em). cbn [nb topo_ofF nc cs layout_ofF] in *. unfold nbrF in Hb.
    unfold xrF, realslotF. replace (existsb _ _) with true; [reflexivity|]. symmetry. apply existsb_exists. exists b. split; [apply in_seq; lia|].
    rewrite Em. unfold ncomp_ofF in Hr. fold (ncomp_of ns b) in Hr. apply andb_true_iff. split; [apply Nat.leb_le | apply Nat.ltb_lt]; lia.
  Qed.

  Lemma padded_zeroF b k : (b < nb tp)%nat -> (nc ly b <= k < pl ly b)%nat -> xrF (cs ly b + k)%nat = 0.
  Proof.
    intros Hb Hk. cbn [nb topo_ofF nc cs pl layout_ofF] in *. unfold nbrF in Hb. unfold xrF.
    destruct (realslotF (csF b + k)) eqn:Er; [|reflexivity]. exfalso.
    unfold realslotF in Er. apply existsb_exists in Er. destruct Er as (b' & Hb' & H). apply in_seq in Hb'. apply andb_true_iff in H.
    destruct H as [H1 H2]. apply Nat.leb_le in H1. apply Nat.ltb_lt in H2.
    pose proof (pl_geF ps ns rs nb_pos b' ltac:(lia)) as P'. unfold ncomp_ofF in *. unfold ncomp_of in *.
    destruct (slot_inj ly tp WF b k b' (csF b + k - csF b')) as [Eb Ek]; cbn [nb topo_ofF pl cs layout_ofF]; unfold nbrF; try lia.
    subst b'. lia.
  Qed.

  Lemma zz_compF n : (n < tot)%nat -> zz mask tot xrF yrF n = V.
  Proof. intros H. unfold zz. destruct (Nat.ltb_spec n tot); [apply real_atF, H | lia]. Qed.
  Lemma zz_bpF n : (tot <= n)%nat -> zz mask tot xrF yrF n = V.
  Proof. intros H. unfold zz. destruct (Nat.ltb_spec n tot); [lia | reflexivity]. Qed.
  Lemma source_at_restF e : In e es -> zz mask tot xrF yrF (e_source R e) = V.
  Proof. intros He. destruct (Nat.lt_ge_cases (e_source R e) tot) as [H|H]; [apply zz_compF, H | apply zz_bpF, H]. Qed.

  Theorem rest_is_a_solutionF : graph_eq ly tp mask tot es v vt ct dt xrF yrF.
  Proof.
    split; [|split].
    - intros c Hc. unfold comp_lhs, comp_rhs. rewrite (real_atF c Hc), (Hv c Hc), (Hct c Hc).
      rewrite wsum_zero; [lra|]. intros e He _. rewrite (source_at_restF e He). lra.
    - intros j Hj. unfold bp_graph. apply wsum_zero. intros e He _. rewrite (source_at_restF e He). unfold yrF. lra.
    - intros b k Hb Hk. apply padded_zeroF; assumption.
  Qed.

  Theorem network_at_rest_stays_at_rest :
    let s0 := assemble R Rplus Rminus Rmult 0 1 mask tot es v vt ct dt (group_ofF ps rs) (child_inds_ofF ps rs) (par_inds_ofF ps rs) in
    let out := sv (runR ly (ops_of_forest ps ns rs) s0) in
    forall b k, (b < nbL)%nat -> (k < ncomp_of ns b)%nat -> out (csF b + k)%nat = V.
  Proof.
    intros s0 out b k Hb Hk.
    destruct (forest_step_solves_the_graph_equations ps ns rs es v vt ct dt nb_pos sortedF counts E Hdt Hg Hvt) as [_ U].
    pose proof (pl_geF ps ns rs nb_pos b Hb) as P. unfold ncomp_ofF in P. fold (ncomp_of ns b) in P.
    pose proof (U xrF yrF rest_is_a_solutionF b k Hb ltac:(cbn [pl layout_ofF]; lia)) as Eq. cbn [cs layout_ofF] in Eq.
    unfold out, s0. rewrite <- Eq. unfold xrF. replace (realslotF (csF b + k)) with true; [reflexivity|]. symmetry.
    apply existsb_exists. exists b. split; [apply in_seq; lia|]. apply andb_true_iff. split; [apply Nat.leb_le | apply Nat.ltb_lt]; lia.
  Qed.
End RestF.

(* ---- no overshoot, for every network ---- *)
Theorem network_no_overshoot (ps ns : list nat) (rs : list bool) (es : list (edge R)) (v vt ct : nat -> R) (dt lo hi : R) :
  (1 <= length ps)%nat -> (forall b, (b < length ps)%nat -> is_root rs b = false -> (nth b ps 0 < b)%nat) ->
  (forall b, (b < length ps)%nat -> (1 <= nth b ns 0)%nat) ->
  map strip es = triples_ofF ps ns rs ->
  0 < dt -> (forall e, In e es -> 0 < e_g R e) -> (forall i, (i < total ps ns)%nat -> 0 <= vt i) ->
  (forall c, (c < total ps ns)%nat -> lo <= v c <= hi /\ vt c * lo <= ct c <= vt c * hi) ->
  let ly := layout_ofF ps ns rs in
  let s0 := assemble R Rplus Rminus Rmult 0 1 (nthD (mask_ofF ps ns rs)) (total ps ns) es v vt ct dt (group_ofF ps rs) (child_inds_ofF ps rs) (par_inds_ofF ps rs) in
  let out := sv (runR ly (ops_of_forest ps ns rs) s0) in
  forall b k, (b < length ps)%nat -> (k < ncomp_of ns b)%nat -> lo <= out (cs_ofF ps ns rs b + k)%nat <= hi.
Proof.
  intros H1 H2 H3 E Hdt Hg Hvt Hb ly s0 out b k Hbb Hk.
  destruct (forest_step_solves_the_graph_equations ps ns rs es v vt ct dt H1 H2 H3 E Hdt Hg Hvt) as [(y & Sol) _].
  assert (W : wf ly (topo_ofF ps rs)) by (apply idx_wfF; assumption).
  assert (G : graph_struct ly (topo_ofF ps rs) (nthD (mask_ofF ps ns rs)) (total ps ns) es (group_ofF ps rs) (child_inds_ofF ps rs) (par_inds_ofF ps rs)) by (apply forest_graph_struct; assumption).
  assert (B : graph_struct_bp ly (nthD (mask_ofF ps ns rs)) (total ps ns) es (group_ofF ps rs) (child_inds_ofF ps rs) (par_inds_ofF ps rs)) by (apply forest_graph_struct_bp; assumption).
  assert (Hc : (tcs ns b + k < total ps ns)%nat) by (apply (tcs_lt_total ps ns H1); assumption).
  pose proof (graph_bounds ly (topo_ofF ps rs) W _ _ es v vt ct dt _ _ _ G B _ y lo hi ltac:(lia) Hdt Hg Hvt Sol Hb (tcs ns b + k)%nat Hc) as R.
  rewrite (mask_atF ps ns rs b k Hbb Hk) in R. exact R.
Qed.
