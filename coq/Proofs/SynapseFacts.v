(* Layer-G facts about synaptic currents used by C09 *)
From Coq Require Import Reals Lra.
From JV Require Import Prim GSynapses GCellUtils.
Local Open Scope R_scope.

(* a synapse with zero conductance injects nothing, whatever the voltages and state *)
Lemma zero_conductance_no_current :
  (forall s vpre vpost e k, IonotropicSynapse_current__i s vpre vpost 0 e k = 0) /\
  (forall c vpre vpost, TestSynapse_current__i c vpre vpost 0 = 0) /\
  (forall vpre vpost x sl, TanhRateSynapse_current__i vpre vpost 0 x sl = 0).
Proof.
  unfold IonotropicSynapse_current__i, TestSynapse_current__i, TanhRateSynapse_current__i.
  repeat split; intros; cbv zeta; ring.
Qed.

(* the ionotropic and test synapse currents are affine in the POST voltage and do not
   read the pre voltage; the rate synapse reads only the PRE voltage *)
Lemma current_dependencies :
  (forall s vpre vpre' vpost g e k,
     IonotropicSynapse_current__i s vpre vpost g e k = IonotropicSynapse_current__i s vpre' vpost g e k) /\
  (forall s vpre v1 v2 g e k,
     IonotropicSynapse_current__i s vpre v2 g e k - IonotropicSynapse_current__i s vpre v1 g e k = g * s * (v2 - v1)) /\
  (forall vpre vpost vpost' g x sl,
     TanhRateSynapse_current__i vpre vpost g x sl = TanhRateSynapse_current__i vpre vpost' g x sl).
Proof.
  unfold IonotropicSynapse_current__i, TanhRateSynapse_current__i.
  repeat split; intros; cbv zeta; try ring; reflexivity.
Qed.

(* the synaptic state is driven by the PRE voltage only *)
Lemma state_reads_pre_only : forall s dt vpre vpost vpost' g e k,
  IonotropicSynapse_update__s s dt vpre vpost g e k = IonotropicSynapse_update__s s dt vpre vpost' g e k.
Proof. reflexivity. Qed.
