(* Correctness of the sectioning loop of the SWC reader (Model/SwcRead.v) for EVERY well-formed
   file: ids 1..n in order, a single root, parents before children, and every only-child
   directly after its parent (which holds in depth-first order).  Part 1: which points break
   sections (pass 1). *)
From Coq Require Import List Arith Bool Lia.
From JV Require Import Swc SwcRead.
Import ListNotations.

Definition to_swc (rows : list srow) : swc := map (fun r => (r_ty r, r_par r)) rows.

Lemma firstn_S_gen {A} (d : A) : forall (l : list A) k, k < length l -> firstn (S k) l = firstn k l ++ [nth k l d].
Proof.
  induction l as [|x l IH]; intros k Hk; cbn in Hk; [lia|].
  destruct k as [|k]; [reflexivity|]. cbn [firstn nth app]. f_equal. apply IH. lia.
Qed.

Lemma skipn_nth_gen' {A} (d : A) : forall (l : list A) m, m < length l -> skipn m l = nth m l d :: skipn (S m) l.
Proof.
  induction l as [|x l IH]; intros m Hm; cbn in Hm; [lia|].
  destruct m as [|m]; [reflexivity|]. cbn [skipn nth]. apply IH. lia.
Qed.

Section Wf.
  Variable rows : list srow.
  Notation n := (length rows).
  Notation t := (to_swc rows).
  Definition row (i : nat) : srow := nth (i - 1) rows (0, 0, 0).      (* the row of point i (1-based) *)

  Record wf_rows : Prop := mkwfr {
    wr_id : forall i, 1 <= i <= n -> r_id (row i) = i;
    wr_root : 1 <= n /\ r_par (row 1) = 0;
    wr_par : forall i, 2 <= i <= n -> 1 <= r_par (row i) < i;
    wr_only : forall p c, 1 <= p <= n -> children t p = [c] -> c = S p
  }.
  Hypothesis W : wf_rows.

  Lemma ptype_row i : ptype t i = r_ty (row i).
  Proof.
    unfold ptype, to_swc, row. destruct (Nat.lt_ge_cases (i - 1) n) as [H|H].
    - rewrite (nth_indep _ (0, 0) ((fun r => (r_ty r, r_par r)) (0, 0, 0))) by (rewrite map_length; exact H).
      rewrite (map_nth (fun r => (r_ty r, r_par r)) rows (0, 0, 0) (i - 1)). reflexivity.
    - rewrite !nth_overflow by (rewrite ?map_length; lia). reflexivity.
  Qed.
  Lemma pparent_row i : pparent t i = r_par (row i).
  Proof.
    unfold pparent, to_swc, row. destruct (Nat.lt_ge_cases (i - 1) n) as [H|H].
    - rewrite (nth_indep _ (0, 0) ((fun r => (r_ty r, r_par r)) (0, 0, 0))) by (rewrite map_length; exact H).
      rewrite (map_nth (fun r => (r_ty r, r_par r)) rows (0, 0, 0) (i - 1)). reflexivity.
    - rewrite !nth_overflow by (rewrite ?map_length; lia). reflexivity.
  Qed.
  Lemma len_t : length t = n.
  Proof. unfold to_swc. apply map_length. Qed.

  Lemma children_spec p c : In c (children t p) <-> 1 <= c <= n /\ r_par (row c) = p.
  Proof.
    unfold children. rewrite filter_In, in_seq, len_t, Nat.eqb_eq, pparent_row. split; intros [H1 H2]; split; auto; lia.
  Qed.

  (* a non-first row "continues" if its parent is the previous row and has the same type *)
  Definition continues (c : nat) : bool := (r_par (row c) =? c - 1) && (r_ty (row c) =? r_ty (row (c - 1))).

  (* pass 1 on the rows k+1 .. n, the previous row being row k *)
  Lemma binds_from_spec : forall k p, 1 <= k <= n ->
    (In p (branch_inds_from (Some (r_id (row k), r_ty (row k))) (skipn k rows)) <->
     exists c, k < c <= n /\ r_par (row c) = p /\ continues c = false).
  Proof.
    intros k p Hk. remember (n - k) as d eqn:Hd. revert k Hk Hd. induction d as [|d IH]; intros k Hk Hd.
    - rewrite skipn_all2 by lia. cbn. split; [tauto | intros (c & H & _); lia].
    - assert (Hs : skipn k rows = row (S k) :: skipn (S k) rows).
      { unfold row. replace (S k - 1) with k by lia. apply (skipn_nth_gen' ((0, 0, 0) : srow) rows k). lia. }
      rewrite Hs. cbn [branch_inds_from]. rewrite (wr_id W k) by lia.
      rewrite in_app_iff. rewrite (IH (S k)) by lia.
      assert (Ec : (r_par (row (S k)) =? k) && (r_ty (row (S k)) =? r_ty (row k)) = continues (S k)).
      { unfold continues. replace (S k - 1) with k by lia. reflexivity. }
      rewrite Ec. split.
      + intros [H|(c & Hc & Hp & Hn)].
        * destruct (continues (S k)) eqn:E; [destruct H|]. destruct H as [<-|[]]. exists (S k). repeat split; auto; lia.
        * exists c. repeat split; auto; lia.
      + intros (c & Hc & Hp & Hn). destruct (Nat.eq_dec c (S k)) as [->|Hne].
        * left. rewrite Hn. left. exact Hp.
        * right. exists c. repeat split; auto; lia.
  Qed.

  (* ---- which points break sections ---- *)
  Definition breaks : list nat := tl (branch_inds rows).
  Definition is_break (p : nat) : bool := memb p breaks.
  Definition start (c : nat) : bool := (c =? 1) || is_break (r_par (row c)).

  Lemma rows_head : rows = row 1 :: skipn 1 rows.
  Proof.
    destruct (wr_root W) as [Hn _]. unfold row. cbn [Nat.sub]. destruct rows as [|r rs]; [cbn in Hn; lia | reflexivity].
  Qed.

  Lemma breaks_eq : breaks = branch_inds_from (Some (r_id (row 1), r_ty (row 1))) (skipn 1 rows).
  Proof. unfold breaks, branch_inds. rewrite rows_head at 1. cbn [branch_inds_from app tl]. reflexivity. Qed.

  Lemma memb_In x l : memb x l = true <-> In x l.
  Proof.
    unfold memb. rewrite existsb_exists. split.
    - intros (y & Hy & E). apply Nat.eqb_eq in E. subst. exact Hy.
    - intros H. exists x. split; [exact H | apply Nat.eqb_refl].
  Qed.

  Lemma is_break_spec p : is_break p = true <-> exists c, 2 <= c <= n /\ r_par (row c) = p /\ continues c = false.
  Proof.
    unfold is_break. rewrite memb_In, breaks_eq. destruct (wr_root W) as [Hn _].
    rewrite (binds_from_spec 1 p ltac:(lia)). split; intros (c & H1 & H2); exists c; split; auto; lia.
  Qed.

  (* a row that does not start a section continues the previous row, which has no other child *)
  Lemma nostart_continues c : 2 <= c <= n -> start c = false ->
    r_par (row c) = c - 1 /\ r_ty (row c) = r_ty (row (c - 1)).
  Proof.
    intros Hc Hs. unfold start in Hs. apply orb_false_iff in Hs. destruct Hs as [_ Hb].
    destruct (continues c) eqn:E.
    - unfold continues in E. apply andb_true_iff in E. destruct E as [E1 E2]. apply Nat.eqb_eq in E1, E2. auto.
    - assert (is_break (r_par (row c)) = true) by (apply is_break_spec; exists c; auto). congruence.
  Qed.

  Lemma NoDup_singleton (l : list nat) c : NoDup l -> (forall x, In x l <-> x = c) -> l = [c].
  Proof.
    intros ND H. destruct l as [|a [|b r]].
    - exfalso. apply (proj2 (H c) eq_refl).
    - f_equal. apply H. now left.
    - exfalso. assert (a = c) by (apply H; now left). assert (b = c) by (apply H; right; now left). subst.
      inversion ND as [|? ? Hn _]. apply Hn. now left.
  Qed.

  Lemma nostart_only_child c : 2 <= c <= n -> start c = false -> children t (c - 1) = [c].
  Proof.
    intros Hc Hs. destruct (nostart_continues c Hc Hs) as [Hp _].
    apply NoDup_singleton; [unfold children; apply NoDup_filter, seq_NoDup|].
    intros x. rewrite children_spec. split.
    - intros [Hx Hpx]. assert (2 <= x).
      { destruct (Nat.eq_dec x 1) as [->|]; [|lia]. destruct (wr_root W) as [_ R]. rewrite R in Hpx. lia. }
      unfold start in Hs. apply orb_false_iff in Hs. destruct Hs as [_ Hb]. rewrite Hp in Hb.
      destruct (continues x) eqn:E.
      + unfold continues in E. apply andb_true_iff in E. destruct E as [E1 _]. apply Nat.eqb_eq in E1. lia.
      + assert (is_break (c - 1) = true) by (apply is_break_spec; exists x; repeat split; auto; lia). congruence.
    - intros ->. split; [lia | exact Hp].
  Qed.

  (* the parent of a row that starts a section does not have a single child of its own type *)
  Lemma start_breaks c d : 2 <= c <= n -> start c = true -> children t (r_par (row c)) = [d] ->
    r_ty (row d) <> r_ty (row (r_par (row c))).
  Proof.
    intros Hc Hs Hd. unfold start in Hs. apply orb_true_iff in Hs. destruct Hs as [Hs|Hb]; [apply Nat.eqb_eq in Hs; lia|].
    apply is_break_spec in Hb. destruct Hb as (c' & Hc' & Hp' & Hn').
    pose proof (wr_par W c Hc) as Hpar.
    assert (In c' (children t (r_par (row c)))) by (apply children_spec; split; [lia | exact Hp']).
    rewrite Hd in H. destruct H as [<-|[]].
    pose proof (wr_only W (r_par (row c)) d ltac:(lia) Hd) as Ed.
    unfold continues in Hn'. apply andb_false_iff in Hn'. destruct Hn' as [E|E].
    - apply Nat.eqb_neq in E. lia.
    - apply Nat.eqb_neq in E. replace (d - 1) with (r_par (row c)) in E by lia. exact E.
  Qed.

  Lemma last_row_no_child : children t n = [].
  Proof.
    destruct (children t n) as [|x r] eqn:E; [reflexivity|]. exfalso.
    assert (Hin : In x (children t n)) by (rewrite E; now left). apply children_spec in Hin. destruct Hin as [Hx Hp].
    destruct (Nat.eq_dec x 1) as [->|Hne].
    - destruct (wr_root W) as [Hn R]. rewrite R in Hp. lia.
    - pose proof (wr_par W x ltac:(lia)). lia.
  Qed.

  (* ---- one section: anchor (unless it starts at the root) followed by the rows c .. e ---- *)
  Definition sec_of (c e : nat) : list nat := if c =? 1 then seq 1 e else r_par (row c) :: seq c (S e - c).
  Definition nostart (c e : nat) : Prop := forall j, c < j <= e -> start j = false.
  Definition rooted_of (b : list nat) : bool := (hd 0 b =? 1) && ((length b =? 1) || negb (is_break 1)).

  Lemma is_path_seq : forall m c, (forall j, c < j < c + m -> pparent t j = j - 1) -> is_path t (seq c m) = true.
  Proof.
    induction m as [|m IH]; intros c H; [reflexivity|]. destruct m as [|m]; [reflexivity|].
    change (seq c (S (S m))) with (c :: S c :: seq (S (S c)) m).
    assert (E : is_path t (c :: S c :: seq (S (S c)) m) = (pparent t (S c) =? c) && is_path t (S c :: seq (S (S c)) m)) by reflexivity.
    rewrite E, (H (S c)) by lia. replace (S c - 1) with c by lia. rewrite Nat.eqb_refl. cbn [andb].
    change (S c :: seq (S (S c)) m) with (seq (S c) (S m)).
    apply (IH (S c)). intros j Hj. apply H. lia.
  Qed.

  Lemma same_type_seq m c : (forall j, c < j < c + m -> ptype t j = ptype t (j - 1)) -> same_type t (seq c m) = true.
  Proof.
    intros H. destruct m as [|m]; [reflexivity|]. cbn [seq same_type]. apply forallb_forall. intros q Hq. apply in_seq in Hq.
    apply Nat.eqb_eq. assert (G : forall d, S c + d < c + S m -> ptype t (S c + d) = ptype t c).
    { induction d as [|d IHd]; intros Hd.
      - rewrite H by lia. f_equal. lia.
      - rewrite H by lia. replace (S c + S d - 1) with (S c + d) by lia. apply IHd. lia. }
    replace q with (S c + (q - S c)) by lia. apply G. lia.
  Qed.

  Lemma unbranched_cons p q r : unbranched t (p :: q :: r) =
    (match children t p with [c] => (c =? q) && (ptype t c =? ptype t p) | _ => false end) && unbranched t (q :: r).
  Proof. reflexivity. Qed.
  Lemma is_path_cons x y r : is_path t (x :: y :: r) = (pparent t y =? x) && is_path t (y :: r).
  Proof. reflexivity. Qed.

  Lemma unbranched_seq : forall m c, (forall j, c <= j -> S j < c + m -> children t j = [S j] /\ ptype t (S j) = ptype t j) ->
    unbranched t (seq c m) = true.
  Proof.
    induction m as [|m IH]; intros c H; [reflexivity|]. destruct m as [|m]; [reflexivity|].
    change (seq c (S (S m))) with (c :: S c :: seq (S (S c)) m). rewrite unbranched_cons.
    destruct (H c ltac:(lia) ltac:(lia)) as [E1 E2]. rewrite E1, E2, !Nat.eqb_refl. cbn [andb].
    change (S c :: seq (S (S c)) m) with (seq (S c) (S m)).
    apply (IH (S c)). intros j Hj1 Hj2. apply H; lia.
  Qed.

  Lemma rev_seq_last c m : rev (seq c (S m)) = (c + m) :: rev (seq c m).
  Proof. rewrite seq_S, rev_app_distr. reflexivity. Qed.

  (* the points of a section as the checker sees them *)
  Lemma own_of_sec c e : 1 <= c <= e -> e <= n -> start c = true -> nostart c e ->
    own_points (sec_of c e) (rooted_of (sec_of c e)) = seq c (S e - c).
  Proof.
    intros Hc He Hs Hn. unfold sec_of, rooted_of. destruct (Nat.eqb_spec c 1) as [->|Hne].
    - replace (S e - 1) with e by lia. destruct e as [|e]; [lia|]. cbn [seq hd Nat.eqb andb].
      destruct e as [|e]; [reflexivity|].
      assert (Hb : is_break 1 = false).
      { pose proof (Hn 2 ltac:(lia)) as H2. unfold start in H2. apply orb_false_iff in H2. destruct H2 as [_ H2].
        pose proof (wr_par W 2 ltac:(lia)). replace (r_par (row 2)) with 1 in H2 by lia. exact H2. }
      rewrite Hb. cbn [negb orb]. rewrite orb_true_r. reflexivity.
    - cbn [hd length]. pose proof (wr_par W c ltac:(lia)) as Hp.
      assert (Hb : is_break (r_par (row c)) = true).
      { unfold start in Hs. apply orb_true_iff in Hs. destruct Hs as [H|H]; [apply Nat.eqb_eq in H; lia | exact H]. }
      destruct (Nat.eqb_spec (r_par (row c)) 1) as [E|E]; [|reflexivity].
      rewrite E in Hb. rewrite Hb. cbn [negb]. rewrite orb_false_r.
      rewrite seq_length. destruct (Nat.eqb_spec (S (S e - c)) 1); [lia | reflexivity].
  Qed.

  (* a closed section passes the per-section tests of the checker *)
  Lemma sec_ok c e : 1 <= c <= e -> e <= n -> start c = true -> nostart c e -> (e = n \/ start (S e) = true) ->
    let s := sec_of c e in let own := own_points s (rooted_of s) in
    is_path t s && same_type t own && unbranched t own && maximal_end t own
    && negb (match own with [] => true | _ => false end) = true.
  Proof.
    intros Hc He Hs Hn Hend s own. unfold own, s. rewrite (own_of_sec c e Hc He Hs Hn).
    assert (Hcont : forall j, c < j <= e -> pparent t j = j - 1 /\ ptype t j = ptype t (j - 1) /\ children t (j - 1) = [j]).
    { intros j Hj. destruct (nostart_continues j ltac:(lia) (Hn j Hj)) as [A B].
      rewrite pparent_row, !ptype_row. split; [exact A|]. split; [exact B | apply nostart_only_child; [lia | apply Hn; exact Hj]]. }
    assert (P1 : is_path t (sec_of c e) = true).
    { unfold sec_of. destruct (Nat.eqb_spec c 1) as [->|Hne].
      - apply is_path_seq. intros j Hj. apply Hcont. lia.
      - replace (S e - c) with (S (e - c)) by lia. change (seq c (S (e - c))) with (c :: seq (S c) (e - c)).
        rewrite is_path_cons, pparent_row, Nat.eqb_refl. cbn [andb].
        change (c :: seq (S c) (e - c)) with (seq c (S (e - c))). apply is_path_seq. intros j Hj. apply Hcont. lia. }
    assert (P2 : same_type t (seq c (S e - c)) = true) by (apply same_type_seq; intros j Hj; apply Hcont; lia).
    assert (P3 : unbranched t (seq c (S e - c)) = true).
    { apply unbranched_seq. intros j Hj1 Hj2. destruct (Hcont (S j) ltac:(lia)) as (_ & B & C).
      replace (S j - 1) with j in B, C by lia. auto. }
    assert (P4 : maximal_end t (seq c (S e - c)) = true).
    { unfold maximal_end. replace (S e - c) with (S (e - c)) by lia. rewrite rev_seq_last. replace (c + (e - c)) with e by lia.
      destruct (children t e) as [|d [|d' r]] eqn:E; try reflexivity.
      apply negb_true_iff, Nat.eqb_neq. destruct Hend as [->|Hst]; [rewrite last_row_no_child in E; discriminate|].
      assert (Hd : d = S e) by (apply (wr_only W e d); [lia | exact E]). subst d.
      assert (Hin : In (S e) (children t e)) by (rewrite E; now left). apply children_spec in Hin. destruct Hin as [Hle Hp].
      pose proof (start_breaks (S e) (S e) ltac:(lia) Hst) as B. rewrite Hp in B. rewrite !ptype_row. apply B. exact E. }
    rewrite P1, P2, P3, P4. replace (S e - c) with (S (e - c)) by lia. reflexivity.
  Qed.

  (* ---- pass 2 ---- *)
  Variable sps : bool.
  Variable ty2 : nat.
  Definition B0 : list (list nat) := if sps then [[1]] else [].
  Notation stp := (step2 (branch_inds rows) sps ty2).
  Definition state_after (k : nat) : st2 := fold_left stp (firstn k rows) (mk2 [] [] [] 0).

  (* Runs a b L: L are the closed sections of the consecutive runs covering the rows a .. b-1 *)
  Inductive Runs : nat -> nat -> list (list nat) -> Prop :=
  | Runs_nil a : Runs a a []
  | Runs_snoc a c e L : Runs a c L -> 1 <= c -> start c = true -> nostart c e -> c <= e -> S e <= n -> start (S e) = true ->
                        Runs a (S e) (L ++ [sec_of c e]).

  Lemma firstn_S k : k < n -> firstn (S k) rows = firstn k rows ++ [row (S k)].
  Proof. intros Hk. unfold row. replace (S k - 1) with k by lia. apply firstn_S_gen. exact Hk. Qed.

  Lemma state_S k : k < n -> state_after (S k) = stp (state_after k) (row (S k)).
  Proof. intros Hk. unfold state_after. rewrite firstn_S by exact Hk. rewrite fold_left_app. reflexivity. Qed.

  Lemma row_fields c : 1 <= c <= n -> r_id (row c) = c.
  Proof. apply (wr_id W). Qed.

  Lemma state_1 : done_b (state_after 1) = B0 /\ cur (state_after 1) = [1].
  Proof.
    destruct (wr_root W) as [Hn R]. rewrite state_S by lia. unfold state_after. cbn [firstn fold_left].
    unfold step2. cbn [done_b done_t cur cur_ty]. rewrite R. cbn [Nat.eqb].
    assert (Hm : memb 0 (tl (branch_inds rows)) = false).
    { destruct (memb 0 (tl (branch_inds rows))) eqn:E; [|reflexivity]. change (is_break 0 = true) in E.
      apply is_break_spec in E. destruct E as (c & Hc & Hp & _). pose proof (wr_par W c Hc). lia. }
    rewrite Hm. rewrite (row_fields 1) by lia. cbn [Nat.eqb andb]. unfold B0. destruct sps; cbn; auto.
  Qed.

  (* one more row: either it continues the current section or it closes it and opens the next *)
  Lemma step_row lo k c L : 1 <= k -> k < n -> lo <= c -> 1 <= c <= k -> start c = true -> nostart c k ->
    ~ (c = 1 /\ k = 1 /\ start 2 = true) ->
    cur (state_after k) = sec_of c k -> done_b (state_after k) = B0 ++ L -> Runs lo c L ->
    exists c' L', lo <= c' /\ 1 <= c' <= S k /\ start c' = true /\ nostart c' (S k) /\
      cur (state_after (S k)) = sec_of c' (S k) /\ done_b (state_after (S k)) = B0 ++ L' /\ Runs lo c' L'.
  Proof.
    intros Hk1 Hkn Hlo Hc Hs Hn Hex Ecur Edone HR.
    rewrite state_S by exact Hkn. unfold step2.
    pose proof (wr_par W (S k) ltac:(lia)) as Hp.
    assert (Hroot : (r_par (row (S k)) =? 0) = false) by (apply Nat.eqb_neq; lia).
    rewrite Hroot. cbn [andb]. change (memb (r_par (row (S k))) (tl (branch_inds rows))) with (is_break (r_par (row (S k)))).
    rewrite (row_fields (S k)) by lia.
    destruct (is_break (r_par (row (S k)))) eqn:Eb.
    - (* the row starts a new section *)
      assert (Hst : start (S k) = true) by (unfold start; rewrite Eb; apply orb_true_r).
      assert (Hlen : (1 <? length (cur (state_after k))) = true).
      { rewrite Ecur. unfold sec_of. apply Nat.ltb_lt. destruct (Nat.eqb_spec c 1) as [->|Hne].
        - rewrite seq_length. destruct (Nat.eq_dec k 1) as [->|]; [exfalso; apply Hex; auto | lia].
        - cbn [length]. rewrite seq_length. lia. }
      rewrite Hlen. cbn [cur done_b].
      exists (S k), (L ++ [sec_of c k]). split; [lia|]. split; [lia|]. split; [exact Hst|]. split; [intros j Hj; lia|]. split; [|split].
      + unfold sec_of. destruct (Nat.eqb_spec (S k) 1); [lia|]. replace (S (S k) - S k) with 1 by lia. reflexivity.
      + rewrite Edone, Ecur, app_assoc. reflexivity.
      + apply Runs_snoc; auto; lia.
    - (* the row continues the current section *)
      assert (Hst : start (S k) = false) by (unfold start; rewrite Eb; destruct (Nat.eqb_spec (S k) 1); [lia | reflexivity]).
      cbn [cur done_b].
      exists c, L. split; [exact Hlo|]. split; [lia|]. split; [exact Hs|]. split; [|split; [|split; [exact Edone | exact HR]]].
      + intros j Hj. destruct (Nat.eq_dec j (S k)) as [->|]; [exact Hst | apply Hn; lia].
      + rewrite Ecur. unfold sec_of. destruct (Nat.eqb_spec c 1) as [->|Hne].
        * rewrite seq_S. reflexivity.
        * replace (S (S k) - c) with (S (S k - c)) by lia. rewrite seq_S. replace (c + (S k - c)) with (S k) by lia. reflexivity.
  Qed.

  Definition InvP (lo k : nat) : Prop :=
    exists c L, lo <= c /\ 1 <= c <= k /\ start c = true /\ nostart c k /\
      cur (state_after k) = sec_of c k /\ done_b (state_after k) = B0 ++ L /\ Runs lo c L /\ (k = 1 -> start 2 = false).

  Lemma InvP_iter lo : forall d k, k + d = n -> 1 <= k -> InvP lo k -> InvP lo n.
  Proof.
    induction d as [|d IH]; intros k Hd Hk I; [replace n with k by lia; exact I|].
    apply (IH (S k)); [lia | lia |].
    destruct I as (c & L & H1 & H2 & H3 & H4 & H5 & H6 & H7 & H8).
    assert (Hex : ~ (c = 1 /\ k = 1 /\ start 2 = true)) by (intros (A & B & C); rewrite (H8 B) in C; discriminate).
    destruct (step_row lo k c L Hk ltac:(lia) H1 H2 H3 H4 Hex H5 H6 H7) as (c' & L' & G1 & G2 & G3 & G4 & G5 & G6 & G7).
    exists c', L'. repeat split; auto; try lia.
  Qed.

  (* the two ways the first section can begin *)
  Lemma base_A : (n = 1 \/ start 2 = false) -> InvP 1 1.
  Proof.
    intros H. destruct state_1 as [E1 E2]. destruct (wr_root W) as [Hn _].
    exists 1, []. repeat split; auto; try lia.
    - intros j Hj. lia.
    - rewrite app_nil_r. exact E1.
    - constructor.
    - intros _. destruct H as [H|H]; [|exact H]. unfold start. 
      assert (E : is_break (r_par (row 2)) = false).
      { destruct (is_break (r_par (row 2))) eqn:B; [|reflexivity]. apply is_break_spec in B. destruct B as (c & Hc & _). lia. }
      rewrite E. reflexivity.
  Qed.

  Lemma base_B : 2 <= n -> start 2 = true -> InvP 2 2.
  Proof.
    intros Hn Hs. destruct state_1 as [E1 E2].
    pose proof (wr_par W 2 ltac:(lia)) as Hp. assert (Ep : r_par (row 2) = 1) by lia.
    assert (Eb : is_break 1 = true).
    { unfold start in Hs. cbn [Nat.eqb orb] in Hs. rewrite Ep in Hs. exact Hs. }
    exists 2, []. split; [lia|]. split; [lia|]. split; [exact Hs|]. split; [intros j Hj; lia|].
    rewrite state_S by lia. unfold step2. rewrite Ep. cbn [Nat.eqb andb].
    change (memb 1 (tl (branch_inds rows))) with (is_break 1). rewrite Eb, E2. cbn [length Nat.ltb Nat.leb cur done_b].
    rewrite (row_fields 2) by lia. split; [|split; [|split]].
    - unfold sec_of. cbn [Nat.eqb]. rewrite Ep. reflexivity.
    - rewrite app_nil_r. exact E1.
    - constructor.
    - intros E. lia.
  Qed.

  (* points covered by the sections of a run list *)
  Definition own_all (bs : list (list nat)) : list nat := flat_map (fun sr => own_points (fst sr) (snd sr)) (map (fun b => (b, rooted_of b)) bs).

  Lemma own_all_app a b : own_all (a ++ b) = own_all a ++ own_all b.
  Proof. unfold own_all. rewrite map_app, flat_map_app. reflexivity. Qed.

  Lemma Runs_le a b L : Runs a b L -> a <= b.
  Proof. induction 1; lia. Qed.

  Lemma Runs_own a b L : Runs a b L -> 1 <= a -> own_all L = seq a (b - a).
  Proof.
    induction 1 as [a|a c e L HR IH Hc1 Hs Hn Hce Hen Hse]; intros Ha.
    - rewrite Nat.sub_diag. reflexivity.
    - pose proof (Runs_le _ _ _ HR). rewrite own_all_app, IH by exact Ha. unfold own_all at 1. cbn [map flat_map fst snd]. rewrite app_nil_r.
      rewrite (own_of_sec c e) by (auto; lia).
      replace (S e - a) with ((c - a) + (S e - c)) by lia. rewrite seq_app. replace (a + (c - a)) with c by lia. reflexivity.
  Qed.

  Definition sec_test (b : list nat) : bool :=
    let own := own_points b (rooted_of b) in
    is_path t b && same_type t own && unbranched t own && maximal_end t own && negb (match own with [] => true | _ => false end).

  Lemma Runs_tests a b L : Runs a b L -> forallb sec_test L = true.
  Proof.
    induction 1 as [a|a c e L HR IH Hc1 Hs Hn Hce Hen Hse]; [reflexivity|].
    rewrite forallb_app, IH. cbn [forallb andb]. rewrite andb_true_r.
    apply (sec_ok c e); auto; lia.
  Qed.

  Hypothesis sps_ok : sps = true -> 2 <= n /\ r_ty (row 2) <> r_ty (row 1).

  Lemma sps_start2 : sps = true -> start 2 = true.
  Proof.
    intros H. destruct (sps_ok H) as [Hn Ht]. unfold start. cbn [Nat.eqb orb]. apply is_break_spec.
    exists 2. split; [lia|]. split; [reflexivity|]. unfold continues. apply andb_false_iff. right. apply Nat.eqb_neq. exact Ht.
  Qed.

  Lemma count_seq p : forall m a, count p (seq a m) = if (a <=? p) && (p <? a + m) then 1 else 0.
  Proof.
    unfold count. induction m as [|m IH]; intros a.
    - cbn [seq filter length]. destruct (Nat.leb_spec a p); destruct (Nat.ltb_spec p (a + 0)); cbn [andb]; try reflexivity; lia.
    - cbn [seq filter]. destruct (Nat.eqb_spec p a) as [->|Hne].
      + cbn [length]. rewrite IH. replace (S a <=? a) with false by (symmetry; apply Nat.leb_gt; lia). cbn [andb].
        replace (a <=? a) with true by (symmetry; apply Nat.leb_le; lia). replace (a <? a + S m) with true by (symmetry; apply Nat.ltb_lt; lia). reflexivity.
      + rewrite IH. destruct (Nat.leb_spec (S a) p); destruct (Nat.leb_spec a p); try lia;
          destruct (Nat.ltb_spec p (S a + m)); destruct (Nat.ltb_spec p (a + S m)); try lia; reflexivity.
  Qed.

  Lemma count_app p a b : count p (a ++ b) = count p a + count p b.
  Proof. unfold count. rewrite filter_app, app_length. reflexivity. Qed.

  Lemma forallb_map {A B} (f : B -> bool) (g : A -> B) l : forallb f (map g l) = forallb (fun x => f (g x)) l.
  Proof. induction l as [|x l IH]; cbn; [reflexivity | now rewrite IH]. Qed.

  Lemma root_section_test : sps = true -> sec_test [1] = true.
  Proof.
    intros H. destruct (sps_ok H) as [Hn Ht]. unfold sec_test, rooted_of. cbn [hd length Nat.eqb andb orb own_points is_path same_type forallb unbranched].
    unfold maximal_end. cbn [rev app]. destruct (children t 1) as [|d [|d' r]] eqn:E; try reflexivity.
    cbn [andb negb]. rewrite andb_true_r. apply negb_true_iff, Nat.eqb_neq.
    assert (d = 2) by (apply (wr_only W 1 d); [lia | exact E]). subst d. rewrite !ptype_row. exact Ht.
  Qed.

  (* THE SECTIONS PRODUCED BY THE LOOP PASS THE VERIFIED CHECKER, for every well-formed file *)
  Theorem sections_ok :
    check_sections t (map (fun b => (b, rooted_of b)) (done_b (state_after n) ++ [cur (state_after n)])) = true.
  Proof.
    destruct (wr_root W) as [Hn1 _].
    assert (Hinv : exists lo, (lo = 1 \/ lo = 2) /\ (sps = true -> lo = 2) /\ InvP lo n).
    { destruct (Nat.eq_dec n 1) as [E1|Hn].
      - exists 1. split; [now left|]. split; [intros H; destruct (sps_ok H); lia|].
        apply (InvP_iter 1 (n - 1) 1); [lia | lia | apply base_A; now left].
      - destruct (start 2) eqn:Es.
        + exists 2. split; [now right|]. split; [reflexivity|]. apply (InvP_iter 2 (n - 2) 2); [lia | lia | apply base_B; [lia | exact Es]].
        + exists 1. split; [now left|]. split; [intros H; rewrite (sps_start2 H) in Es; discriminate|].
          apply (InvP_iter 1 (n - 1) 1); [lia | lia | apply base_A; now right]. }
    destruct Hinv as (lo & Hlo & Hsps & (c & L & H1 & H2 & H3 & H4 & H5 & H6 & H7 & _)).
    rewrite H5, H6. set (bs := (B0 ++ L) ++ [sec_of c n]).
    assert (Htests : forallb sec_test bs = true).
    { assert (Elast : sec_test (sec_of c n) = true) by (apply (sec_ok c n); auto; lia).
      unfold bs. rewrite !forallb_app. rewrite (Runs_tests lo c L H7). cbn [forallb]. rewrite Elast. cbn [andb]. rewrite andb_true_r.
      unfold B0. destruct (Bool.bool_dec sps true) as [Es|Es]; [rewrite Es; cbn [forallb]; rewrite (root_section_test Es); reflexivity|].
      apply Bool.not_true_is_false in Es. rewrite Es. reflexivity. }
    assert (Hown : own_all bs = (if sps then [1] else []) ++ seq lo (S n - lo)).
    { unfold bs. rewrite !own_all_app. pose proof (Runs_le _ _ _ H7) as Hle.
      rewrite (Runs_own lo c L H7) by (destruct Hlo; lia).
      unfold own_all at 2. cbn [map flat_map fst snd]. rewrite app_nil_r, (own_of_sec c n) by (auto; lia).
      rewrite <- app_assoc. f_equal.
      - unfold B0. destruct (Bool.bool_dec sps true) as [Es|Es]; [rewrite Es | apply Bool.not_true_is_false in Es; rewrite Es; reflexivity].
        unfold own_all. cbn [map flat_map fst snd]. rewrite app_nil_r.
        unfold rooted_of. cbn [hd length Nat.eqb andb orb own_points]. reflexivity.
      - replace (S n - lo) with ((c - lo) + (S n - c)) by lia. rewrite seq_app. replace (lo + (c - lo)) with c by lia. reflexivity. }
    unfold check_sections. fold (own_all bs). rewrite len_t.
    apply andb_true_iff. split; [apply andb_true_iff; split|].
    - rewrite forallb_map. exact Htests.
    - apply forallb_forall. intros p Hp. apply in_seq in Hp. apply Nat.eqb_eq. rewrite Hown, count_app, count_seq.
      replace (lo <=? p) with true by (symmetry; apply Nat.leb_le; destruct Hlo; lia).
      replace (p <? lo + (S n - lo)) with true by (symmetry; apply Nat.ltb_lt; destruct Hlo; lia). cbn [andb].
      destruct (Bool.bool_dec sps true) as [Es|Es]; [rewrite Es | apply Bool.not_true_is_false in Es; rewrite Es; reflexivity].
      unfold count. cbn [filter]. destruct (Nat.eqb_spec p 1); [lia | reflexivity].
    - apply Nat.leb_le. rewrite Hown, count_app, count_seq.
      destruct (Bool.bool_dec sps true) as [Es|Es].
      + rewrite Es, (Hsps Es). cbn [Nat.leb andb]. unfold count. cbn. lia.
      + apply Bool.not_true_is_false in Es. rewrite Es. unfold count at 1. cbn [filter length]. destruct ((lo <=? 1) && (1 <? lo + (S n - lo))); lia.
  Qed.

  (* ---- the types of the sections (the list that becomes the type groups) ---- *)
  Hypothesis root_soma : r_ty (row 1) = 1.
  Hypothesis sps_exact : sps = true <-> (2 <= n /\ r_ty (row 2) <> 1).
  Hypothesis ty2_ok : 2 <= n -> ty2 = r_ty (row 2).

  (* the types of the runs, in step with Runs *)
  Inductive RunTypes : nat -> nat -> list nat -> Prop :=
  | RT_nil a : RunTypes a a []
  | RT_snoc a c e T : RunTypes a c T -> start c = true -> nostart c e -> c <= e -> RunTypes a (S e) (T ++ [r_ty (row c)]).

  Definition T0 : list nat := if sps then [1] else [].

  Definition InvT (lo k : nat) : Prop :=
    exists c T, lo <= c /\ 1 <= c <= k /\ start c = true /\ nostart c k /\ cur (state_after k) = sec_of c k /\
      (1 < length (cur (state_after k)) \/ k = 1) /\
      done_t (state_after k) = T0 ++ T ++ [r_ty (row c)] /\ RunTypes lo c T /\ (k = 1 -> start 2 = false).

  Lemma stepT lo k : 1 <= k -> k < n -> InvT lo k -> InvT lo (S k).
  Proof.
    intros Hk1 Hkn (c & T & H1 & H2 & H3 & H4 & H5 & Hlen & H6 & H7 & H8).
    unfold InvT. rewrite state_S by exact Hkn. unfold step2.
    pose proof (wr_par W (S k) ltac:(lia)) as Hp.
    assert (Hroot : (r_par (row (S k)) =? 0) = false) by (apply Nat.eqb_neq; lia).
    rewrite Hroot. cbn [andb]. change (memb (r_par (row (S k))) (tl (branch_inds rows))) with (is_break (r_par (row (S k)))).
    rewrite (row_fields (S k)) by lia.
    destruct (is_break (r_par (row (S k)))) eqn:Eb.
    - assert (Hst : start (S k) = true) by (unfold start; rewrite Eb; apply orb_true_r).
      assert (Hl : (1 <? length (cur (state_after k))) = true).
      { apply Nat.ltb_lt. destruct Hlen as [Hl|Hl]; [exact Hl|]. subst k. rewrite (H8 eq_refl) in Hst. discriminate. }
      rewrite Hl. cbn [cur done_t].
      exists (S k), (T ++ [r_ty (row c)]). split; [lia|]. split; [lia|]. split; [exact Hst|]. split; [intros j Hj; lia|].
      split; [unfold sec_of; destruct (Nat.eqb_spec (S k) 1); [lia|]; replace (S (S k) - S k) with 1 by lia; reflexivity|].
      split; [left; cbn; lia|]. split; [rewrite H6, <- !app_assoc; reflexivity|]. split; [apply RT_snoc; auto; lia | intros E; lia].
    - assert (Hst : start (S k) = false) by (unfold start; rewrite Eb; destruct (Nat.eqb_spec (S k) 1); [lia | reflexivity]).
      cbn [cur done_t].
      exists c, T. split; [exact H1|]. split; [lia|]. split; [exact H3|].
      split; [intros j Hj; destruct (Nat.eq_dec j (S k)) as [->|]; [exact Hst | apply H4; lia]|].
      split.
      { rewrite H5. unfold sec_of. destruct (Nat.eqb_spec c 1) as [->|Hne].
        - rewrite seq_S. reflexivity.
        - replace (S (S k) - c) with (S (S k - c)) by lia. rewrite seq_S. replace (c + (S k - c)) with (S k) by lia. reflexivity. }
      split; [left; rewrite app_length; cbn [length]; destruct Hlen; [lia | subst k; rewrite H5; unfold sec_of; destruct (c =? 1); cbn; lia]|].
      split; [exact H6|]. split; [exact H7 | intros E; lia].
  Qed.

  (* sections and their types, in step *)
  Inductive Runs2 : nat -> nat -> list (list nat) -> list nat -> Prop :=
  | R2_nil a : Runs2 a a [] []
  | R2_snoc a c e L T : Runs2 a c L T -> 1 <= c -> start c = true -> nostart c e -> c <= e -> S e <= n -> start (S e) = true ->
                        Runs2 a (S e) (L ++ [sec_of c e]) (T ++ [r_ty (row c)]).

  Definition InvPT (lo k : nat) : Prop :=
    exists c L T, lo <= c /\ 1 <= c <= k /\ start c = true /\ nostart c k /\ cur (state_after k) = sec_of c k /\
      done_b (state_after k) = B0 ++ L /\ done_t (state_after k) = T0 ++ T ++ [r_ty (row c)] /\ Runs2 lo c L T /\
      (k = 1 -> start 2 = false).

  Lemma stepPT lo k : 1 <= k -> k < n -> InvPT lo k -> InvPT lo (S k).
  Proof.
    intros Hk1 Hkn (c & L & T & H1 & H2 & H3 & H4 & H5 & H6 & H7 & H8 & H9).
    unfold InvPT. rewrite state_S by exact Hkn. unfold step2.
    pose proof (wr_par W (S k) ltac:(lia)) as Hp.
    assert (Hroot : (r_par (row (S k)) =? 0) = false) by (apply Nat.eqb_neq; lia).
    rewrite Hroot. cbn [andb]. change (memb (r_par (row (S k))) (tl (branch_inds rows))) with (is_break (r_par (row (S k)))).
    rewrite (row_fields (S k)) by lia.
    destruct (is_break (r_par (row (S k)))) eqn:Eb.
    - assert (Hst : start (S k) = true) by (unfold start; rewrite Eb; apply orb_true_r).
      assert (Hl : (1 <? length (cur (state_after k))) = true).
      { rewrite H5. unfold sec_of. apply Nat.ltb_lt. destruct (Nat.eqb_spec c 1) as [->|Hne].
        - rewrite seq_length. destruct (Nat.eq_dec k 1) as [->|]; [rewrite (H9 eq_refl) in Hst; discriminate | lia].
        - cbn [length]. rewrite seq_length. lia. }
      rewrite Hl. cbn [cur done_b done_t].
      exists (S k), (L ++ [sec_of c k]), (T ++ [r_ty (row c)]). split; [lia|]. split; [lia|]. split; [exact Hst|]. split; [intros j Hj; lia|].
      split; [unfold sec_of; destruct (Nat.eqb_spec (S k) 1); [lia|]; replace (S (S k) - S k) with 1 by lia; reflexivity|].
      split; [rewrite H6, H5, app_assoc; reflexivity|]. split; [rewrite H7, <- !app_assoc; reflexivity|].
      split; [apply R2_snoc; auto; lia | intros E; lia].
    - assert (Hst : start (S k) = false) by (unfold start; rewrite Eb; destruct (Nat.eqb_spec (S k) 1); [lia | reflexivity]).
      cbn [cur done_b done_t].
      exists c, L, T. split; [exact H1|]. split; [lia|]. split; [exact H3|].
      split; [intros j Hj; destruct (Nat.eq_dec j (S k)) as [->|]; [exact Hst | apply H4; lia]|].
      split.
      { rewrite H5. unfold sec_of. destruct (Nat.eqb_spec c 1) as [->|Hne].
        - rewrite seq_S. reflexivity.
        - replace (S (S k) - c) with (S (S k - c)) by lia. rewrite seq_S. replace (c + (S k - c)) with (S k) by lia. reflexivity. }
      split; [exact H6|]. split; [exact H7|]. split; [exact H8 | intros E; lia].
  Qed.

  Lemma InvPT_iter lo : forall d k, k + d = n -> 1 <= k -> InvPT lo k -> InvPT lo n.
  Proof.
    induction d as [|d IH]; intros k Hd Hk I; [replace n with k by lia; exact I|].
    apply (IH (S k)); [lia | lia | apply stepPT; [exact Hk | lia | exact I]].
  Qed.

  Lemma done_t_1 : done_t (state_after 1) = r_ty (row 1) :: (if sps then [ty2] else []).
  Proof.
    destruct (wr_root W) as [Hn R]. rewrite state_S by lia. unfold state_after. cbn [firstn fold_left].
    unfold step2. cbn [done_b done_t cur cur_ty]. rewrite R. cbn [Nat.eqb].
    assert (Hm : memb 0 (tl (branch_inds rows)) = false).
    { destruct (memb 0 (tl (branch_inds rows))) eqn:E; [|reflexivity]. change (is_break 0 = true) in E.
      apply is_break_spec in E. destruct E as (c & Hc & Hp & _). pose proof (wr_par W c Hc). lia. }
    rewrite Hm. rewrite (row_fields 1) by lia. cbn [Nat.eqb andb done_t]. destruct sps; reflexivity.
  Qed.

  Lemma sps_false_start2 : start 2 = false -> sps = false.
  Proof.
    intros H. destruct (Bool.bool_dec sps true) as [E|E]; [|apply Bool.not_true_is_false; exact E].
    exfalso. pose proof (proj1 sps_exact E) as [Hn Ht].
    assert (start 2 = true); [|congruence]. unfold start. cbn [Nat.eqb orb]. apply is_break_spec. exists 2.
    split; [lia|]. split; [reflexivity|]. unfold continues. apply andb_false_iff. right. apply Nat.eqb_neq. change (2 - 1) with 1. rewrite root_soma. exact Ht.
  Qed.

  Lemma basePT_A : (n = 1 \/ start 2 = false) -> InvPT 1 1.
  Proof.
    intros H. destruct state_1 as [E1 E2]. destruct (wr_root W) as [Hn _].
    assert (Hs2 : start 2 = false).
    { destruct H as [H|H]; [|exact H]. unfold start.
      assert (E : is_break (r_par (row 2)) = false).
      { destruct (is_break (r_par (row 2))) eqn:B; [|reflexivity]. apply is_break_spec in B. destruct B as (c & Hc & _). lia. }
      rewrite E. reflexivity. }
    pose proof (sps_false_start2 Hs2) as Esps.
    exists 1, [], []. split; [lia|]. split; [lia|]. split; [reflexivity|]. split; [intros j Hj; lia|]. split; [exact E2|].
    split; [rewrite app_nil_r; exact E1|]. split; [rewrite done_t_1; unfold T0; rewrite Esps; reflexivity|]. split; [constructor | intros _; exact Hs2].
  Qed.

  Lemma basePT_B : 2 <= n -> start 2 = true -> InvPT 2 2.
  Proof.
    intros Hn Hs. destruct state_1 as [E1 E2].
    pose proof (wr_par W 2 ltac:(lia)) as Hp. assert (Ep : r_par (row 2) = 1) by lia.
    assert (Eb : is_break 1 = true) by (unfold start in Hs; cbn [Nat.eqb orb] in Hs; rewrite Ep in Hs; exact Hs).
    exists 2, [], []. split; [lia|]. split; [lia|]. split; [exact Hs|]. split; [intros j Hj; lia|].
    rewrite state_S by lia. unfold step2. rewrite Ep. cbn [Nat.eqb andb].
    change (memb 1 (tl (branch_inds rows))) with (is_break 1). rewrite Eb, E2. cbn [length Nat.ltb Nat.leb cur done_b done_t].
    rewrite (row_fields 2) by lia. split; [unfold sec_of; cbn [Nat.eqb]; rewrite Ep; reflexivity|].
    split; [rewrite app_nil_r; exact E1|]. split; [|split; [constructor | intros E; lia]].
    rewrite done_t_1. unfold T0. destruct (Bool.bool_dec sps true) as [Es|Es].
    - rewrite Es. rewrite root_soma, (ty2_ok Hn). reflexivity.
    - apply Bool.not_true_is_false in Es. rewrite Es. cbn [app]. f_equal. rewrite root_soma.
      destruct (Nat.eq_dec (r_ty (row 2)) 1) as [E|E]; [symmetry; exact E|].
      assert (sps = true) by (apply sps_exact; split; [exact Hn | exact E]). congruence.
  Qed.

  (* the type recorded for every section is the type of its own points *)
  Definition stype (b : list nat) : nat := r_ty (row (hd 0 (own_points b (rooted_of b)))).

  Lemma Runs2_Runs a b L T : Runs2 a b L T -> Runs a b L.
  Proof. induction 1; [constructor | apply Runs_snoc; auto]. Qed.

  Lemma Runs2_types a b L T : Runs2 a b L T -> T = map stype L.
  Proof.
    induction 1 as [a|a c e L T HR IH Hc1 Hs Hn Hce Hen Hse]; [reflexivity|].
    rewrite map_app, <- IH. cbn [map]. f_equal. f_equal. unfold stype. rewrite (own_of_sec c e) by (auto; lia).
    replace (S e - c) with (S (e - c)) by lia. reflexivity.
  Qed.

  Theorem types_ok :
    done_t (state_after n) = map stype (done_b (state_after n) ++ [cur (state_after n)]).
  Proof.
    destruct (wr_root W) as [Hn1 _].
    assert (Hinv : exists lo, InvPT lo n).
    { destruct (Nat.eq_dec n 1) as [E1|Hn].
      - exists 1. apply (InvPT_iter 1 (n - 1) 1); [lia | lia | apply basePT_A; now left].
      - destruct (start 2) eqn:Es.
        + exists 2. apply (InvPT_iter 2 (n - 2) 2); [lia | lia | apply basePT_B; [lia | exact Es]].
        + exists 1. apply (InvPT_iter 1 (n - 1) 1); [lia | lia | apply basePT_A; now right]. }
    destruct Hinv as (lo & c & L & T & H1 & H2 & H3 & H4 & H5 & H6 & H7 & H8 & _).
    rewrite H5, H6, H7, !map_app, <- (Runs2_types _ _ _ _ H8). cbn [map]. rewrite <- app_assoc.
    f_equal; [|f_equal; f_equal; unfold stype; rewrite (own_of_sec c n) by (auto; lia); replace (S n - c) with (S (n - c)) by lia; reflexivity].
    unfold T0, B0. destruct (Bool.bool_dec sps true) as [Es|Es]; [rewrite Es | apply Bool.not_true_is_false in Es; rewrite Es; reflexivity].
    cbn [map]. unfold stype, rooted_of. cbn [hd length Nat.eqb andb orb own_points]. rewrite root_soma. reflexivity.
  Qed.
  (* ---- every section that does not start at the root hangs on the last point of a section ---- *)
  Lemma final_shape : exists lo c L, (lo = 1 \/ lo = 2) /\ lo <= c /\ 1 <= c <= n /\ start c = true /\ nostart c n /\
      cur (state_after n) = sec_of c n /\ done_b (state_after n) = B0 ++ L /\ Runs lo c L.
  Proof.
    destruct (wr_root W) as [Hn1 _].
    assert (Hinv : exists lo, (lo = 1 \/ lo = 2) /\ InvP lo n).
    { destruct (Nat.eq_dec n 1) as [E1|Hn].
      - exists 1. split; [now left|]. apply (InvP_iter 1 (n - 1) 1); [lia | lia | apply base_A; now left].
      - destruct (start 2) eqn:Es.
        + exists 2. split; [now right|]. apply (InvP_iter 2 (n - 2) 2); [lia | lia | apply base_B; [lia | exact Es]].
        + exists 1. split; [now left|]. apply (InvP_iter 1 (n - 1) 1); [lia | lia | apply base_A; now right]. }
    destruct Hinv as (lo & Hlo & (c & L & H1 & H2 & H3 & H4 & H5 & H6 & H7 & _)).
    exists lo, c, L. repeat split; auto; lia.
  Qed.

  Lemma last_seq a m : last (seq a (S m)) 0 = a + m.
  Proof. rewrite seq_S. apply last_last. Qed.

  Lemma last_cons_ne (x : nat) l : l <> [] -> last (x :: l) 0 = last l 0.
  Proof. destruct l; [congruence | reflexivity]. Qed.

  Lemma last_sec c e : 1 <= c <= e -> last (sec_of c e) 0 = e.
  Proof.
    intros H. unfold sec_of. destruct (Nat.eqb_spec c 1) as [->|Hne].
    - destruct e as [|e]; [lia|]. rewrite last_seq. lia.
    - replace (S e - c) with (S (e - c)) by lia. rewrite last_cons_ne by (cbn [seq]; discriminate). rewrite last_seq. lia.
  Qed.

  Lemma hd_sec c e : 1 <= c <= e -> hd 0 (sec_of c e) = if c =? 1 then 1 else r_par (row c).
  Proof. intros H. unfold sec_of. destruct (c =? 1); [destruct e; [lia | reflexivity] | reflexivity]. Qed.

  Lemma break_then_next_starts p : 1 <= p -> p < n -> is_break p = true -> start (S p) = true.
  Proof.
    intros Hp Hn Hb. unfold start. apply orb_true_iff. right.
    destruct (Nat.eq_dec (r_par (row (S p))) p) as [->|Hne]; [exact Hb|].
    apply is_break_spec. exists (S p). split; [lia|]. split; [reflexivity|].
    unfold continues. apply andb_false_iff. left. apply Nat.eqb_neq. lia.
  Qed.

  Lemma Runs_end a b L : Runs a b L -> forall p, a <= p -> p < b -> start (S p) = true -> exists s, In s L /\ last s 0 = p.
  Proof.
    induction 1 as [a|a c e L HR IH Hc1 Hs Hn Hce Hen Hse]; intros p Hap Hpb Hst; [lia|].
    destruct (Nat.eq_dec p e) as [->|Hne].
    - exists (sec_of c e). split; [apply in_or_app; right; now left | apply last_sec; lia].
    - destruct (Nat.lt_ge_cases p c) as [Hlt|Hge].
      + destruct (IH p Hap Hlt Hst) as (s & Hin & Hl). exists s. split; [apply in_or_app; now left | exact Hl].
      + rewrite (Hn (S p)) in Hst by lia. discriminate.
  Qed.

  Lemma Runs_In a b L s : Runs a b L -> In s L -> exists c e, a <= c /\ 1 <= c <= e /\ e < b /\ start c = true /\ s = sec_of c e.
  Proof.
    induction 1 as [a|a c e L HR IH Hc1 Hs Hn Hce Hen Hse]; intros Hin; [destruct Hin|].
    apply in_app_or in Hin. destruct Hin as [Hin|[<-|[]]].
    - destruct (IH Hin) as (c' & e' & H1 & H2 & H3 & H4 & H5). pose proof (Runs_le _ _ _ HR). exists c', e'. repeat split; auto; lia.
    - pose proof (Runs_le _ _ _ HR). exists c, e. repeat split; auto; lia.
  Qed.

  Theorem anchors_ok :
    let bs := done_b (state_after n) ++ [cur (state_after n)] in
    (forall s, In s bs -> hd 0 s <> 1 -> exists s', In s' bs /\ last s' 0 = hd 0 s) /\
    (forall s, In s bs -> last s 0 = hd 0 s -> hd 0 s = 1).
  Proof.
    destruct final_shape as (lo & c & L & Hlo & H1 & H2 & H3 & H4 & H5 & H6 & H7). cbv zeta. rewrite H5, H6.
    assert (Shape : forall s, In s ((B0 ++ L) ++ [sec_of c n]) -> s = [1] \/ exists c' e', lo <= c' /\ 1 <= c' <= e' /\ e' <= n /\ start c' = true /\ s = sec_of c' e').
    { intros s Hin. apply in_app_or in Hin. destruct Hin as [Hin|[<-|[]]].
      - apply in_app_or in Hin. destruct Hin as [Hin|Hin].
        + unfold B0 in Hin. destruct sps; [destruct Hin as [<-|[]]; now left | destruct Hin].
        + right. destruct (Runs_In _ _ _ _ H7 Hin) as (c' & e' & G1 & G2 & G3 & G4 & G5). exists c', e'. repeat split; auto; lia.
      - right. exists c, n. repeat split; auto; lia. }
    split.
    - intros s Hin Hhd. destruct (Shape s Hin) as [->|(c' & e' & G1 & G2 & G3 & G4 & ->)]; [cbn in Hhd; congruence|].
      rewrite hd_sec in Hhd |- * by lia. destruct (Nat.eqb_spec c' 1) as [E|E]; [congruence|].
      set (p := r_par (row c')) in *. pose proof (wr_par W c' ltac:(lia)) as Hp. fold p in Hp.
      assert (Hb : is_break p = true).
      { unfold start in G4. apply orb_true_iff in G4. destruct G4 as [G|G]; [apply Nat.eqb_eq in G; lia | exact G]. }
      assert (Hst : start (S p) = true) by (apply break_then_next_starts; [lia | lia | exact Hb]).
      assert (Hpc : p < c).
      { destruct (Nat.lt_ge_cases p c) as [G|G]; [exact G|]. rewrite (H4 (S p)) in Hst by lia. discriminate. }
      destruct (Runs_end _ _ _ H7 p ltac:(destruct Hlo; lia) Hpc Hst) as (s' & Hin' & Hl).
      exists s'. split; [apply in_or_app; left; apply in_or_app; right; exact Hin' | exact Hl].
    - intros s Hin E. destruct (Shape s Hin) as [->|(c' & e' & G1 & G2 & G3 & G4 & ->)]; [reflexivity|].
      rewrite last_sec, hd_sec in E by lia. rewrite hd_sec by lia.
      destruct (Nat.eqb_spec c' 1) as [E1|E1]; [reflexivity|]. pose proof (wr_par W c' ltac:(lia)). lia.
  Qed.
End Wf.

(* the statement about the function of Model/SwcRead.v *)
Theorem split_into_branches_ok (rows : list srow) (sps : bool) :
  wf_rows rows -> (sps = true -> 2 <= length rows /\ r_ty (row rows 2) <> r_ty (row rows 1)) ->
  check_sections (to_swc rows) (map (fun b => (b, rooted_of rows b)) (fst (split_into_branches rows sps))) = true.
Proof.
  intros W H. unfold split_into_branches. cbn [fst].
  pose proof (sections_ok rows W sps (match rows with _ :: r2 :: _ => r_ty r2 | _ => 0 end) H) as S.
  unfold state_after in S. rewrite firstn_all in S. exact S.
Qed.

(* ... and the types the loop records for its sections (they become the type groups) are the
   SWC types of the sections' own points, when the file starts with a soma point *)
Theorem split_types_ok (rows : list srow) (sps : bool) :
  wf_rows rows -> r_ty (row rows 1) = 1 ->
  (sps = true <-> (2 <= length rows /\ r_ty (row rows 2) <> 1)) ->
  snd (split_into_branches rows sps) = map (stype rows) (fst (split_into_branches rows sps)).
Proof.
  intros W R S. unfold split_into_branches. cbn [fst snd].
  assert (T2 : 2 <= length rows -> (match rows with _ :: r2 :: _ => r_ty r2 | _ => 0 end) = r_ty (row rows 2)).
  { intros H. destruct rows as [|a [|b r]]; cbn in H; try lia. reflexivity. }
  assert (SO : sps = true -> 2 <= length rows /\ r_ty (row rows 2) <> r_ty (row rows 1)) by (intros H; rewrite R; apply S; exact H).
  pose proof (types_ok rows W sps (match rows with _ :: r2 :: _ => r_ty r2 | _ => 0 end) SO R S T2) as E.
  unfold state_after in E. rewrite firstn_all in E. exact E.
Qed.

(* ---- parents: _build_parents on any list of sections ---- *)
From Coq Require Import Permutation.

Lemma find_index_some p : forall m k j, find_index p m k = Some j -> k <= j < k + m /\ p j = true.
Proof.
  induction m as [|m IH]; intros k j H; cbn in H; [discriminate|].
  destruct (p k) eqn:E.
  - inversion H; subst. split; [lia | exact E].
  - destruct (IH (S k) j H) as [H1 H2]. split; [lia | exact H2].
Qed.
Lemma find_index_none p : forall m k, find_index p m k = None -> forall j, k <= j < k + m -> p j = false.
Proof.
  induction m as [|m IH]; intros k H j Hj; [lia|]. cbn in H. destruct (p k) eqn:E; [discriminate|].
  destruct (Nat.eq_dec j k) as [->|]; [exact E | apply (IH (S k) H); lia].
Qed.

Lemma nth_map_enum {A B} (f : nat * A -> B) (l : list A) (d : B) (da : A) k : k < length l ->
  nth k (map f (combine (seq 0 (length l)) l)) d = f (k, nth k l da).
Proof.
  intros Hk. rewrite (nth_indep _ d (f (0, da))) by (rewrite map_length, combine_length, seq_length, Nat.min_id; exact Hk).
  rewrite (map_nth f). rewrite combine_nth by (rewrite seq_length; reflexivity). rewrite seq_nth by exact Hk. reflexivity.
Qed.

(* if every section that does not start at the root hangs on the last point of some section, and
   only a section starting at the root may end where it starts, _build_parents passes the checker *)
Theorem build_parents_ok (bs : list (list nat)) :
  (forall i, i < length bs -> hd 0 (nth i bs []) <> 1 -> exists j, j < length bs /\ last (nth j bs []) 0 = hd 0 (nth i bs [])) ->
  (forall i, i < length bs -> last (nth i bs []) 0 = hd 0 (nth i bs []) -> hd 0 (nth i bs []) = 1) ->
  check_parents bs (build_parents bs) = true.
Proof.
  intros HA HS. unfold check_parents.
  assert (L : length (build_parents bs) = length bs) by (unfold build_parents; rewrite map_length, combine_length, seq_length, Nat.min_id; reflexivity).
  rewrite L, Nat.eqb_refl. cbn [andb].
  apply forallb_forall. intros [i p] Hin.
  apply (In_nth _ _ (0, None)) in Hin. destruct Hin as (k & Hk & Ek).
  rewrite combine_length, seq_length, L, Nat.min_id in Hk.
  rewrite combine_nth in Ek by (rewrite seq_length, L; reflexivity).
  rewrite seq_nth in Ek by exact Hk. cbn [Nat.add] in Ek. inversion Ek as [[Ei Ep]]. subst i. clear Ek.
  unfold build_parents. rewrite (nth_map_enum _ bs None [] k Hk).
  destruct (find_index (fun j => last (nth j bs []) 0 =? hd 0 (nth k bs [])) (length bs) 0) as [j|] eqn:F.
  - destruct (find_index_some _ _ _ _ F) as [Hj Hp]. apply Nat.eqb_eq in Hp.
    destruct (Nat.eqb_spec j k) as [->|Hne].
    + apply Nat.eqb_eq. apply HS; [exact Hk | exact Hp].
    + apply andb_true_iff. split; [apply negb_true_iff, Nat.eqb_neq; exact Hne | apply Nat.eqb_eq; exact Hp].
  - apply Nat.eqb_eq. destruct (Nat.eq_dec (hd 0 (nth k bs [])) 1) as [E|E]; [exact E|].
    destruct (HA k Hk E) as (j & Hj & Hl). pose proof (find_index_none _ _ _ F j ltac:(lia)) as N. cbn in N.
    apply Nat.eqb_neq in N. contradiction.
Qed.

(* ---- sorting keeps the sections; the parents built from the sorted sections pass the checker ---- *)
Lemma insert_by_perm x l : Permutation (insert_by x l) (x :: l).
Proof.
  induction l as [|y r IH]; cbn [insert_by]; [apply Permutation_refl|].
  destruct (hd 0 (fst x) <=? hd 0 (fst y)); [apply Permutation_refl|].
  eapply Permutation_trans; [apply perm_skip; exact IH | apply perm_swap].
Qed.
Lemma sort_by_first_perm l : Permutation (sort_by_first l) l.
Proof.
  unfold sort_by_first. induction l as [|x l IH]; cbn [fold_right]; [apply Permutation_refl|].
  eapply Permutation_trans; [apply insert_by_perm | apply perm_skip; exact IH].
Qed.
Lemma map_fst_combine {A B} : forall (a : list A) (b : list B), length a = length b -> map fst (combine a b) = a.
Proof. induction a as [|x a IH]; intros [|y b] H; cbn in *; try congruence; try lia. f_equal. apply IH. lia. Qed.

Theorem read_sections_parents_ok (rows : list srow) (sps : bool) :
  wf_rows rows -> r_ty (row rows 1) = 1 ->
  (sps = true <-> (2 <= length rows /\ r_ty (row rows 2) <> 1)) ->
  check_parents (fst (read_sections rows sps)) (snd (snd (read_sections rows sps))) = true.
Proof.
  intros W R S. unfold read_sections.
  pose proof (split_types_ok rows sps W R S) as ET.
  assert (T2 : 2 <= length rows -> (match rows with _ :: r2 :: _ => r_ty r2 | _ => 0 end) = r_ty (row rows 2)).
  { intros H. destruct rows as [|a [|b r]]; cbn in H; try lia. reflexivity. }
  assert (SO : sps = true -> 2 <= length rows /\ r_ty (row rows 2) <> r_ty (row rows 1)) by (intros H; rewrite R; apply S; exact H).
  pose proof (anchors_ok rows W sps (match rows with _ :: r2 :: _ => r_ty r2 | _ => 0 end) SO R S T2) as A. cbv zeta in A.
  unfold state_after in A. rewrite firstn_all in A.
  rewrite (surjective_pairing (split_into_branches rows sps)).
  set (bs := fst (split_into_branches rows sps)) in *. set (ts := snd (split_into_branches rows sps)) in *. cbn [fst snd].
  change (done_b _ ++ [cur _]) with bs in A. destruct A as [A1 A2].
  assert (Hlen : length bs = length ts) by (rewrite ET, map_length; reflexivity).
  set (sorted := map fst (sort_by_first (combine bs ts))).
  assert (P : Permutation sorted bs).
  { unfold sorted. rewrite <- (map_fst_combine bs ts Hlen) at 2. apply Permutation_map, sort_by_first_perm. }
  apply build_parents_ok.
  - intros i Hi Hh. assert (Hin : In (nth i sorted []) bs) by (eapply Permutation_in; [exact P | apply nth_In; exact Hi]).
    destruct (A1 _ Hin Hh) as (s' & Hs' & Hl). apply (Permutation_in _ (Permutation_sym P)) in Hs'.
    apply (In_nth _ _ []) in Hs'. destruct Hs' as (j & Hj & Ej). exists j. split; [exact Hj | rewrite Ej; exact Hl].
  - intros i Hi Hh. apply A2; [eapply Permutation_in; [exact P | apply nth_In; exact Hi] | exact Hh].
Qed.
