(* C15 for EVERY cell and EVERY network: the simulated voltages (implicit steps of the array-level solver, with any
   time-dependent non-negative membrane conductances vt^n and terms ct^n) stay within  E0 + n dt eps  of any reference
   trajectory that satisfies the same scheme up to residuals |tau^n_c| <= eps. *)
From Coq Require Import Reals List Arith Bool Lia Lra.
From JV Require Import HinesArr HinesCheck HinesArrFacts HinesArrPositive HinesIdx HinesIdxFacts HinesIdxF HinesIdxFFacts AsmStruct AssembleM AssembleTotal
     AsmIdx AsmIdxFacts AssembleGraph AsmGraphFacts AsmIdxF AsmIdxFFacts AsmGraphFFacts GraphMax GraphStability.
Import ListNotations.
Local Open Scope R_scope.

Theorem cell_simulation_error (ps ns : list nat) (es : list (edge R)) (dt : R) (V U vtn ctn taun : nat -> nat -> R) (E0 eps : R) :
  (1 <= length ps)%nat -> (forall b, (1 <= b)%nat -> (b < length ps)%nat -> (nth b ps 0 < b)%nat) ->
  (forall b, (b < length ps)%nat -> (1 <= nth b ns 0)%nat) ->
  map strip es = triples_of ps ns ->
  0 < dt -> (forall e, In e es -> 0 < e_g R e) -> (forall n i, (i < total ps ns)%nat -> 0 <= vtn n i) ->
  let ly := layout_of ps ns in let tp := topo_of ps in let mask := nthD (mask_of ps ns) in let N := total ps ns in
  (* the simulation *)
  (forall n c, (c < N)%nat ->
     V (S n) c = sv (runR ly (ops_of_tree ps ns)
                       (assemble R Rplus Rminus Rmult 0 1 mask N es (V n) (vtn n) (ctn n) dt (group_of ps) (child_inds_of ps) (par_inds_of ps))) (mask c)) ->
  (* the reference: same scheme, residual taun *)
  (forall n, exists x y, graph_eq ly tp mask N es (U n) (vtn n) (fun c => ctn n c + taun n c) dt x y /\ forall c, (c < N)%nat -> U (S n) c = x (mask c)) ->
  0 <= E0 -> 0 <= eps ->
  (forall c, (c < N)%nat -> Rabs (V 0%nat c - U 0%nat c) <= E0) -> (forall n c, (c < N)%nat -> Rabs (taun n c) <= eps) ->
  forall n c, (c < N)%nat -> Rabs (V n c - U n c) <= E0 + INR n * (dt * eps).
Proof.
  intros H1 H2 H3 E Hdt Hg Hvt ly tp mask N Sim Ref HE He H0 Ht.
  pose proof (idx_wf ps ns H1 H2 H3) as W.
  pose proof (cell_graph_struct ps ns H1 H2 H3 es E) as G.
  pose proof (cell_graph_struct_bp ps ns H1 H3 es E) as B.
  assert (HN : (1 <= N)%nat).
  { pose proof (tcs_lt_total ps ns H1 0 0 ltac:(lia) ltac:(apply (H3 0%nat); lia)). unfold N. lia. }
  apply (error_accumulates ly tp W mask N es dt _ _ _ G B HN Hdt Hg V U vtn ctn taun Hvt); try assumption.
  intros n. destruct (cell_step_solves_the_graph_equations ps ns es (V n) (vtn n) (ctn n) dt H1 H2 H3 E Hdt Hg (Hvt n)) as [(y & Sol) _].
  eexists. exists y. split; [exact Sol|]. intros c Hc. apply Sim, Hc.
Qed.

Theorem network_simulation_error (ps ns : list nat) (rs : list bool) (es : list (edge R)) (dt : R) (V U vtn ctn taun : nat -> nat -> R) (E0 eps : R) :
  (1 <= length ps)%nat -> (forall b, (b < length ps)%nat -> is_root rs b = false -> (nth b ps 0 < b)%nat) ->
  (forall b, (b < length ps)%nat -> (1 <= nth b ns 0)%nat) ->
  map strip es = triples_ofF ps ns rs ->
  0 < dt -> (forall e, In e es -> 0 < e_g R e) -> (forall n i, (i < total ps ns)%nat -> 0 <= vtn n i) ->
  let ly := layout_ofF ps ns rs in let tp := topo_ofF ps rs in let mask := nthD (mask_ofF ps ns rs) in let N := total ps ns in
  (forall n c, (c < N)%nat ->
     V (S n) c = sv (runR ly (ops_of_forest ps ns rs)
                       (assemble R Rplus Rminus Rmult 0 1 mask N es (V n) (vtn n) (ctn n) dt (group_ofF ps rs) (child_inds_ofF ps rs) (par_inds_ofF ps rs))) (mask c)) ->
  (forall n, exists x y, graph_eq ly tp mask N es (U n) (vtn n) (fun c => ctn n c + taun n c) dt x y /\ forall c, (c < N)%nat -> U (S n) c = x (mask c)) ->
  0 <= E0 -> 0 <= eps ->
  (forall c, (c < N)%nat -> Rabs (V 0%nat c - U 0%nat c) <= E0) -> (forall n c, (c < N)%nat -> Rabs (taun n c) <= eps) ->
  forall n c, (c < N)%nat -> Rabs (V n c - U n c) <= E0 + INR n * (dt * eps).
Proof.
  intros H1 H2 H3 E Hdt Hg Hvt ly tp mask N Sim Ref HE He H0 Ht.
  assert (W : wf ly tp) by (apply idx_wfF; assumption).
  assert (G : graph_struct ly tp mask N es (group_ofF ps rs) (child_inds_ofF ps rs) (par_inds_ofF ps rs)) by (apply forest_graph_struct; assumption).
  assert (B : graph_struct_bp ly mask N es (group_ofF ps rs) (child_inds_ofF ps rs) (par_inds_ofF ps rs)) by (apply forest_graph_struct_bp; assumption).
  assert (HN : (1 <= N)%nat).
  { pose proof (tcs_lt_total ps ns H1 0 0 ltac:(lia) ltac:(apply (H3 0%nat); lia)). unfold N. lia. }
  apply (error_accumulates ly tp W mask N es dt _ _ _ G B HN Hdt Hg V U vtn ctn taun Hvt); try assumption.
  intros n. destruct (forest_step_solves_the_graph_equations ps ns rs es (V n) (vtn n) (ctn n) dt H1 H2 H3 E Hdt Hg (Hvt n)) as [(y & Sol) _].
  eexists. exists y. split; [exact Sol|]. intros c Hc. apply Sim, Hc.
Qed.

(* ---- against ANY reference sequence, with its explicit scheme residual (Proofs/GraphResidual.v) ---- *)
From JV Require Import SparseAsm SparseFacts GraphResidual.

Theorem cell_error_against_any_reference (ps ns : list nat) (es : list (edge R)) (dt : R) (V U vtn ctn : nat -> nat -> R) (E0 eps : R) :
  (1 <= length ps)%nat -> (forall b, (1 <= b)%nat -> (b < length ps)%nat -> (nth b ps 0 < b)%nat) ->
  (forall b, (b < length ps)%nat -> (1 <= nth b ns 0)%nat) ->
  map strip es = triples_of ps ns ->
  0 < dt -> (forall e, In e es -> 0 < e_g R e) -> (forall n i, (i < total ps ns)%nat -> 0 <= vtn n i) ->
  let ly := layout_of ps ns in let mask := nthD (mask_of ps ns) in let N := total ps ns in
  (forall n c, (c < N)%nat ->
     V (S n) c = sv (runR ly (ops_of_tree ps ns)
                       (assemble R Rplus Rminus Rmult 0 1 mask N es (V n) (vtn n) (ctn n) dt (group_of ps) (child_inds_of ps) (par_inds_of ps))) (mask c)) ->
  0 <= E0 -> 0 <= eps ->
  (forall c, (c < N)%nat -> Rabs (V 0%nat c - U 0%nat c) <= E0) ->
  (forall n c, (c < N)%nat -> Rabs (residual N es dt (U n) (U (S n)) (vtn n) (ctn n) c) <= eps) ->
  forall n c, (c < N)%nat -> Rabs (V n c - U n c) <= E0 + INR n * (dt * eps).
Proof.
  intros H1 H2 H3 E Hdt Hg Hvt ly mask N Sim HE He H0 Hr.
  pose proof (idx_wf ps ns H1 H2 H3) as W.
  pose proof (cell_graph_struct ps ns H1 H2 H3 es E) as G.
  pose proof (cell_graph_struct_bp ps ns H1 H3 es E) as B.
  assert (HN : (1 <= N)%nat).
  { pose proof (tcs_lt_total ps ns H1 0 0 ltac:(lia) ltac:(apply (H3 0%nat); lia)). unfold N. lia. }
  apply (error_against_any_reference ly (topo_of ps) W mask N es dt _ _ _ G B (cell_slot ps ns H1) HN Hdt Hg V U vtn ctn Hvt); try assumption.
  intros n. destruct (cell_step_solves_the_graph_equations ps ns es (V n) (vtn n) (ctn n) dt H1 H2 H3 E Hdt Hg (Hvt n)) as [(y & Sol) _].
  eexists. exists y. split; [exact Sol|]. intros c Hc. apply Sim, Hc.
Qed.

Theorem network_error_against_any_reference (ps ns : list nat) (rs : list bool) (es : list (edge R)) (dt : R) (V U vtn ctn : nat -> nat -> R) (E0 eps : R) :
  (1 <= length ps)%nat -> (forall b, (b < length ps)%nat -> is_root rs b = false -> (nth b ps 0 < b)%nat) ->
  (forall b, (b < length ps)%nat -> (1 <= nth b ns 0)%nat) ->
  map strip es = triples_ofF ps ns rs ->
  0 < dt -> (forall e, In e es -> 0 < e_g R e) -> (forall n i, (i < total ps ns)%nat -> 0 <= vtn n i) ->
  let ly := layout_ofF ps ns rs in let mask := nthD (mask_ofF ps ns rs) in let N := total ps ns in
  (forall n c, (c < N)%nat ->
     V (S n) c = sv (runR ly (ops_of_forest ps ns rs)
                       (assemble R Rplus Rminus Rmult 0 1 mask N es (V n) (vtn n) (ctn n) dt (group_ofF ps rs) (child_inds_ofF ps rs) (par_inds_ofF ps rs))) (mask c)) ->
  0 <= E0 -> 0 <= eps ->
  (forall c, (c < N)%nat -> Rabs (V 0%nat c - U 0%nat c) <= E0) ->
  (forall n c, (c < N)%nat -> Rabs (residual N es dt (U n) (U (S n)) (vtn n) (ctn n) c) <= eps) ->
  forall n c, (c < N)%nat -> Rabs (V n c - U n c) <= E0 + INR n * (dt * eps).
Proof.
  intros H1 H2 H3 E Hdt Hg Hvt ly mask N Sim HE He H0 Hr.
  assert (W : wf ly (topo_ofF ps rs)) by (apply idx_wfF; assumption).
  assert (G : graph_struct ly (topo_ofF ps rs) mask N es (group_ofF ps rs) (child_inds_ofF ps rs) (par_inds_ofF ps rs)) by (apply forest_graph_struct; assumption).
  assert (B : graph_struct_bp ly mask N es (group_ofF ps rs) (child_inds_ofF ps rs) (par_inds_ofF ps rs)) by (apply forest_graph_struct_bp; assumption).
  assert (HN : (1 <= N)%nat).
  { pose proof (tcs_lt_total ps ns H1 0 0 ltac:(lia) ltac:(apply (H3 0%nat); lia)). unfold N. lia. }
  apply (error_against_any_reference ly (topo_ofF ps rs) W mask N es dt _ _ _ G B ltac:(apply forest_slot; assumption) HN Hdt Hg V U vtn ctn Hvt); try assumption.
  intros n. destruct (forest_step_solves_the_graph_equations ps ns rs es (V n) (vtn n) (ctn n) dt H1 H2 H3 E Hdt Hg (Hvt n)) as [(y & Sol) _].
  eexists. exists y. split; [exact Sol|]. intros c Hc. apply Sim, Hc.
Qed.
