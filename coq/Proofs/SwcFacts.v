From Coq Require Import List Arith Bool Lia Reals Lra.
From JV Require Import Swc.
Import ListNotations.

(* what a correct sectioning is *)
Definition good_section (t : swc) (s : list nat) (rooted : bool) : Prop :=
  is_path t s = true /\ same_type t (own_points s rooted) = true /\
  unbranched t (own_points s rooted) = true /\ maximal_end t (own_points s rooted) = true /\
  own_points s rooted <> [].
Definition partition_points (t : swc) (secs : list (list nat * bool)) : Prop :=
  (forall p, 2 <= p <= length t -> count p (flat_map (fun sr => own_points (fst sr) (snd sr)) secs) = 1) /\
  count 1 (flat_map (fun sr => own_points (fst sr) (snd sr)) secs) <= 1.

(* soundness of the checker: if it accepts, every section is an unbranched same-type
   parent-child path that cannot be extended, and every traced point belongs to exactly one
   section *)
Theorem check_sections_sound t secs :
  check_sections t secs = true ->
  Forall (fun sr => good_section t (fst sr) (snd sr)) secs /\ partition_points t secs.
Proof.
  unfold check_sections. rewrite !andb_true_iff. intros [[H1 H2] H3]. split.
  - rewrite forallb_forall in H1. apply Forall_forall. intros [s r] Hin. specialize (H1 _ Hin). cbn [fst snd] in *.
    rewrite !andb_true_iff, negb_true_iff in H1. destruct H1 as [[[[A B] C] D] E].
    repeat split; auto. intros Hn. rewrite Hn in E. discriminate.
  - split.
    + intros p Hp. rewrite forallb_forall in H2. apply Nat.eqb_eq. apply H2. apply in_seq. lia.
    + apply Nat.leb_le. exact H3.
Qed.

Theorem check_parents_sound secs parents :
  check_parents secs parents = true ->
  length secs = length parents /\
  forall i, i < length parents ->
    match nth i parents None with
    | Some j => j <> i /\ last (nth j secs []) 0 = hd 0 (nth i secs [])
    | None => hd 0 (nth i secs []) = 1
    end.
Proof.
  unfold check_parents. rewrite andb_true_iff, Nat.eqb_eq. intros [Hl H]. split; [exact Hl|].
  intros i Hi. rewrite forallb_forall in H.
  specialize (H (i, nth i parents None)).
  assert (Hin : In (i, nth i parents None) (combine (seq 0 (length parents)) parents)).
  { replace (i, nth i parents None) with (nth i (combine (seq 0 (length parents)) parents) (0, None)).
    - apply nth_In. rewrite combine_length, seq_length. lia.
    - rewrite combine_nth by (rewrite seq_length; reflexivity). rewrite seq_nth by lia. reflexivity. }
  specialize (H Hin). cbn in H. destruct (nth i parents None) as [j|].
  - rewrite andb_true_iff, negb_true_iff, Nat.eqb_neq, Nat.eqb_eq in H. exact H.
  - apply Nat.eqb_eq. exact H.
Qed.

(* linear interpolation of the traced radii: exact at the traced points, between the two
   neighbouring traced radii in between *)
Local Open Scope R_scope.
Definition lerp (a b ra rb x : R) : R := ra + (rb - ra) * ((x - a) / (b - a)).
Lemma lerp_ends a b ra rb : a < b -> lerp a b ra rb a = ra /\ lerp a b ra rb b = rb.
Proof. intros H. unfold lerp. split; field; lra. Qed.
Lemma lerp_between a b ra rb x : a < b -> a <= x <= b ->
  Rmin ra rb <= lerp a b ra rb x <= Rmax ra rb.
Proof.
  intros Hab Hx. unfold lerp.
  assert (0 <= (x - a) / (b - a) <= 1).
  { split; [apply Rle_mult_inv_pos; lra|]. apply Rmult_le_reg_r with (b - a); [lra|].
    replace ((x - a) / (b - a) * (b - a)) with (x - a) by (field; lra). lra. }
  set (w := (x - a) / (b - a)) in *.
  destruct (Rle_dec ra rb).
  - rewrite Rmin_left, Rmax_right by lra. split; nra.
  - rewrite Rmin_right, Rmax_left by lra. split; nra.
Qed.
(* compartment centres (k + 1/2)/n lie strictly inside the branch *)
Lemma centre_inside (k n : nat) : (k < n)%nat -> 0 < (INR k + 1 / 2) / INR n < 1.
Proof.
  intros H. assert (0 < INR n) by (apply lt_0_INR; lia). pose proof (pos_INR k).
  assert (INR k + 1 <= INR n) by (rewrite <- S_INR; apply le_INR; lia).
  split; [apply Rdiv_lt_0_compat; lra|].
  apply Rmult_lt_reg_r with (INR n); [lra|].
  replace ((INR k + 1 / 2) / INR n * INR n) with (INR k + 1 / 2) by (field; lra). lra.
Qed.
