(* C02 at the array level: the axial coupling of EVERY NETWORK conserves charge (the forest version of
   Proofs/ChargeBalance.v).  The per-cell order of the network's edge table does not matter: the sums are taken type by
   type, and the type blocks of the table are the same global lists as for a cell (AsmIdxFFacts.blockF0..4). *)
From Coq Require Import Reals List Arith Bool Lia Lra.
From JV Require Import Prim GCellUtils CableFacts HinesArr HinesCheck HinesArrFacts HinesIdx HinesIdxFacts HinesIdxF HinesIdxFFacts AsmStruct AssembleM AsmIdx AsmIdxFacts
     AssembleGraph AsmGraphFacts AsmIdxF AsmIdxFFacts AsmGraphFFacts EdgeCond EdgeCondFacts ForestPhysical GraphMax SparseAsm SparseFacts SparseInst SparseDense ChargeBalance.
Import ListNotations.
Local Open Scope R_scope.

(* sums by type *)
Lemma filtered_sum (val : trip -> R) k l : wsum val (fun _ => true) (t_of_type k l) = wsum val (fun t => (t_type t =? k)%nat) l.
Proof. unfold t_of_type. rewrite wsum_filter. apply wsum_ext. intros e _. apply andb_true_r. Qed.

Lemma by_type_le2 (val : trip -> R) l :
  wsum val (fun t => (snd t <=? 2)%nat) l
  = wsum val (fun _ => true) (t_of_type 0 l) + wsum val (fun _ => true) (t_of_type 1 l) + wsum val (fun _ => true) (t_of_type 2 l).
Proof.
  rewrite !filtered_sum.
  rewrite (wsum_ext val (fun t => (snd t <=? 2)%nat) (fun t => (t_type t =? 0)%nat || ((t_type t =? 1)%nat || (t_type t =? 2)%nat))).
  - rewrite wsum_or, wsum_or; [lra | |]; intros [[a b] [|[|[|ty]]]] _; reflexivity.
  - intros [[a b] [|[|[|ty]]]] _; reflexivity.
Qed.
Lemma by_type_34 (val : trip -> R) l :
  wsum val (fun t => ((snd t =? 3) || (snd t =? 4))%nat) l
  = wsum val (fun _ => true) (t_of_type 3 l) + wsum val (fun _ => true) (t_of_type 4 l).
Proof.
  rewrite !filtered_sum. unfold t_type. apply wsum_or. intros [[a b] [|[|[|[|[|ty]]]]]] _; reflexivity.
Qed.

Section Forest.
  Variables (ps ns : list nat) (rs : list bool).
  Hypothesis nb_pos : (1 <= length ps)%nat.
  Hypothesis sortedF : forall b, (b < length ps)%nat -> is_root rs b = false -> (nth b ps 0 < b)%nat.
  Hypothesis counts : forall b, (b < length ps)%nat -> (1 <= nth b ns 0)%nat.
  Variables (rad len ra cm : nat -> R).
  Hypothesis Pos : forall c, 0 < rad c /\ 0 < len c /\ 0 < ra c /\ 0 < cm c.
  Notation es := (forest_edges ps ns rs rad len ra cm).
  Notation tot := (total ps ns).
  Notation mask := (nthD (mask_ofF ps ns rs)).
  Notation ly := (layout_ofF ps ns rs).
  Notation tp := (topo_ofF ps rs).
  Variables (x y : nat -> R).
  Notation Z := (zz mask tot x y).
  Notation Wc := (Wc rad len cm).
  Notation Vt := (Vt rad len ra cm Z).
  Notation Bt := (Bt rad len ra cm Z).
  Notation eg := (e_g R).
  Notation src := (e_source R).
  Notation snk := (e_sink R).
  Notation ty := (e_type R).

  Lemma W : wf ly tp.
  Proof. apply idx_wfF; assumption. Qed.
  Lemma G : graph_struct ly tp mask tot es (group_ofF ps rs) (child_inds_ofF ps rs) (par_inds_ofF ps rs).
  Proof. apply forest_graph_struct; try assumption. apply forest_edges_strip. Qed.
  Lemma B : graph_struct_bp ly mask tot es (group_ofF ps rs) (child_inds_ofF ps rs) (par_inds_ofF ps rs).
  Proof. apply forest_graph_struct_bp; try assumption. apply forest_edges_strip. Qed.
  Lemma Hty : forall e, In e es -> (ty e <= 4)%nat.
  Proof. intros e He. unfold forest_edges in He. apply in_map_iff in He. destruct He as (t & <- & Ht). cbn [e_type]. apply (forest_types ps ns rs t Ht). Qed.

  Lemma flipped_block k (l : list trip) : (k = 3 \/ k = 4)%nat -> (forall t, In t l -> (snd t = 1 \/ snd t = 2)%nat) ->
    wsum Vt (fun _ => true) l = kappa * wsum Bt (fun _ => true) (map (flip k) l).
  Proof.
    intros Hk Hl. rewrite wsum_map, <- wsum_scale. apply wsum_val_ext. intros [[a b] t0] He _.
    specialize (Hl _ He). cbn [snd] in Hl. unfold flip. cbn [t_sink fst snd]. apply (V_of_flip rad len ra cm Pos); assumption.
  Qed.

  Lemma axial_sum_triplesF :
    wsum Vt (fun t => (snd t <=? 2)%nat) (triples_ofF ps ns rs) = kappa * wsum Bt (fun t => ((snd t =? 3) || (snd t =? 4))%nat) (triples_ofF ps ns rs).
  Proof.
    rewrite by_type_le2, by_type_34.
    rewrite (blockF0 ps ns rs nb_pos), (blockF1 ps ns rs nb_pos sortedF), (blockF2 ps ns rs nb_pos sortedF),
            (blockF3 ps ns rs nb_pos sortedF), (blockF4 ps ns rs nb_pos sortedF).
    rewrite (T0_zero rad len ra cm Pos Z ps ns).
    rewrite (flipped_block 3 (E1 ps ns rs)), (flipped_block 4 (E2 ps ns rs)); [ring | | | |]; auto.
    - intros t Ht. unfold E2 in Ht. apply in_map_iff in Ht. destruct Ht as (i & <- & _). right. reflexivity.
    - intros t Ht. unfold E1 in Ht. apply in_map_iff in Ht. destruct Ht as (j & <- & _). left. reflexivity.
  Qed.

  Lemma Z_compF c : (c < tot)%nat -> Z c = x (mask c).
  Proof. intros H. unfold zz. destruct (Nat.ltb_spec c tot); [reflexivity | lia]. Qed.

  Lemma es_sum_le2F : wsum (fun e => Wc (snk e) * (eg e * (Z (snk e) - Z (src e)))) (fun e => (ty e <=? 2)%nat) es = wsum Vt (fun t => (snd t <=? 2)%nat) (triples_ofF ps ns rs).
  Proof. unfold forest_edges. rewrite wsum_map. reflexivity. Qed.
  Lemma es_sum_34F : wsum (fun e => eg e * (Z (src e) - Z (snk e))) (fun e => is_type 3 e || is_type 4 e) es = wsum Bt (fun t => ((snd t =? 3) || (snd t =? 4))%nat) (triples_ofF ps ns rs).
  Proof. unfold forest_edges. rewrite wsum_map. reflexivity. Qed.

  Lemma sink_of_34 e : In e es -> is_type 3 e || is_type 4 e = true -> (tot <= snk e)%nat.
  Proof.
    intros He Ht. apply (bp_sink ly tp mask tot es _ _ _ G B Hty e He).
    unfold is_type in Ht. apply orb_true_iff in Ht. destruct Ht as [Ht|Ht]; apply Nat.eqb_eq in Ht; lia.
  Qed.

  Lemma kirchhoff_totalF :
    rsum (fun j => bp_graph mask tot es x y j) (nbp tp) = wsum (fun e => eg e * (Z (src e) - Z (snk e))) (fun e => is_type 3 e || is_type 4 e) es.
  Proof.
    rewrite <- (Rmult_1_l (wsum _ _ es)).
    rewrite (wsum_val_ext (fun e => eg e * (Z (src e) - Z (snk e))) (fun e => 1 * (eg e * (Z (src e) - Z (snk e))))) by (intros; ring).
    rewrite Rmult_1_l.
    rewrite <- (exchange (fun _ => 1) (fun e => eg e * (Z (src e) - Z (snk e))) (fun e => is_type 3 e || is_type 4 e) (fun e => (snk e - tot)%nat) (nbp tp) es).
    - apply rsum_ext. intros j Hj. rewrite Rmult_1_l. unfold bp_graph.
      rewrite (wsum_ext _ (bp_into tot j) (fun e => (is_type 3 e || is_type 4 e) && (snk e - tot =? j)%nat)).
      + apply wsum_val_ext. intros e He Hp. apply andb_true_iff in Hp. destruct Hp as [Ht Hk]. apply Nat.eqb_eq in Hk.
        pose proof (sink_of_34 e He Ht) as Hs.
        replace (Z (snk e)) with (y j); [reflexivity|]. unfold zz. destruct (Nat.ltb_spec (snk e) tot); [lia|]. f_equal. symmetry. exact Hk.
      + intros e He. unfold bp_into. destruct (is_type 3 e || is_type 4 e) eqn:Ht; cbn [andb]; [|reflexivity].
        pose proof (sink_of_34 e He Ht) as Hs.
        destruct (Nat.eqb_spec (snk e) (tot + j)), (Nat.eqb_spec (snk e - tot) j); try reflexivity; lia.
    - intros e He Ht. pose proof (gs_asm _ _ _ _ _ _ _ _ G) as St.
      unfold is_type in Ht. apply orb_true_iff in Ht. destruct Ht as [Ht|Ht]; apply Nat.eqb_eq in Ht.
      + destruct (in_of_type es 3 e He Ht) as (i3 & Hi3 & <-). rewrite (as_len3 _ _ _ _ _ _ _ St) in Hi3.
        rewrite (gb_snk3 _ _ _ _ _ _ _ B i3 Hi3). replace (tot + nth i3 (group_ofF ps rs) 0 - tot)%nat with (nth i3 (group_ofF ps rs) 0%nat) by lia.
        pose proof (as_g3 _ _ _ _ _ _ _ St i3 Hi3) as G3. apply (wf_cbp _ _ W _ _ (gs_par_lt _ _ _ _ _ _ _ _ G i3 Hi3) G3).
      + destruct (in_of_type es 4 e He Ht) as (i4 & Hi4 & <-). rewrite (as_len4 _ _ _ _ _ _ _ St) in Hi4.
        rewrite (gb_snk4 _ _ _ _ _ _ _ B i4 Hi4).
        replace (tot + nth (length (par_inds_ofF ps rs) + i4) (group_ofF ps rs) 0 - tot)%nat with (nth (length (par_inds_ofF ps rs) + i4) (group_ofF ps rs) 0%nat) by lia.
        pose proof (as_g4 _ _ _ _ _ _ _ St i4 Hi4) as G4. apply (wf_pbp_kids _ _ W _ _ (gs_child_lt _ _ _ _ _ _ _ _ G i4 Hi4) G4).
  Qed.

  Theorem axial_currents_cancelF :
    (forall j, (j < nbp tp)%nat -> bp_graph mask tot es x y j = 0) ->
    rsum (fun c => Wc c * wsum (fun e => eg e * (x (mask c) - Z (src e))) (into c) es) tot = 0.
  Proof.
    intros HB.
    rewrite (rsum_ext _ (fun c => Wc c * wsum (fun e => eg e * (Z (snk e) - Z (src e))) (fun e => (ty e <=? 2)%nat && (snk e =? c)%nat) es)).
    - rewrite (exchange Wc (fun e => eg e * (Z (snk e) - Z (src e))) (fun e => (ty e <=? 2)%nat) snk tot es).
      + rewrite es_sum_le2F, axial_sum_triplesF, <- es_sum_34F, <- kirchhoff_totalF.
        rewrite (rsum_ext _ (fun _ => 0)) by (intros j Hj; apply HB, Hj). rewrite rsum_zero. ring.
      + intros e He Ht. apply Nat.leb_le in Ht. apply (gs_sink _ _ _ _ _ _ _ _ G e He Ht).
    - intros c Hc. f_equal. apply wsum_val_ext. intros e He Hp. unfold into in Hp. apply andb_true_iff in Hp. destruct Hp as [_ Hk].
      apply Nat.eqb_eq in Hk. rewrite Hk, (Z_compF c Hc). reflexivity.
  Qed.

  Theorem network_charge_balance (v vt ct : nat -> R) (dt : R) :
    graph_eq ly tp mask tot es v vt ct dt x y ->
    rsum (fun c => Wc c * ((x (mask c) - v c) + dt * (vt c * x (mask c) - ct c))) tot = 0.
  Proof.
    intros (HC & HB & _).
    rewrite (rsum_ext _ (fun c => - dt * (Wc c * wsum (fun e => eg e * (x (mask c) - Z (src e))) (into c) es))).
    - rewrite rsum_scal, (axial_currents_cancelF HB). ring.
    - intros c Hc. pose proof (HC c Hc) as Eq. unfold comp_lhs, comp_rhs in Eq.
      set (S := wsum (fun e => eg e * (x (mask c) - Z (src e))) (into c) es) in *.
      assert (E : x (mask c) - v c + dt * (vt c * x (mask c) - ct c) = - dt * S) by lra. rewrite E. ring.
  Qed.
End Forest.

Theorem network_step_conserves_charge (ps ns : list nat) (rs : list bool) (rad len ra cm v vt ct : nat -> R) (dt : R) :
  (1 <= length ps)%nat -> (forall b, (b < length ps)%nat -> is_root rs b = false -> (nth b ps 0 < b)%nat) ->
  (forall b, (b < length ps)%nat -> (1 <= nth b ns 0)%nat) ->
  (forall c, 0 < rad c /\ 0 < len c /\ 0 < ra c /\ 0 < cm c) ->
  0 < dt -> (forall i, (i < total ps ns)%nat -> 0 <= vt i) ->
  let es := forest_edges ps ns rs rad len ra cm in
  let mask := nthD (mask_ofF ps ns rs) in let n := total ps ns in
  let s0 := assemble R Rplus Rminus Rmult 0 1 mask n es v vt ct dt (group_ofF ps rs) (child_inds_ofF ps rs) (par_inds_ofF ps rs) in
  let out := sv (runR (layout_ofF ps ns rs) (ops_of_forest ps ns rs) s0) in
  rsum (fun c => Wc rad len cm c * ((out (mask c) - v c) + dt * (vt c * out (mask c) - ct c))) n = 0.
Proof.
  intros H1 H2 H3 Pos Hdt Hvt es mask n s0 out.
  destruct (forest_step_physical ps ns rs rad len ra cm v vt ct dt H1 H2 H3 Pos Hdt Hvt) as [(y & Sol) _].
  exact (network_charge_balance ps ns rs H1 H2 H3 rad len ra cm Pos out y v vt ct dt Sol).
Qed.
