(* C04 on the clipped tails: where save_exp's clip at 20 is active the code no longer EQUALS
   the published expression, but both are tiny there.  For every rate whose equality theorem
   carries an "exponent <= 20" hypothesis, the absolute deviation on the other side of that
   hypothesis is below 1e-6 (1/ms), for exponents up to 100 (i.e. far beyond [-150, 100] mV). *)
From Coq Require Import Reals Lra.
From Interval Require Import Tactic.
From JV Require Import Prim RLemmas GChannels Published PublishedFacts.
Local Open Scope R_scope.

Lemma exp20_big : 485165195 <= exp 20.
Proof. interval. Qed.

(* x / (exp x - 1) and its clipped version beyond the clip *)
Lemma efun_tail y : 20 <= y <= 100 ->
  0 < efun__r y <= 100 / (exp 20 - 1) /\ 0 < y / (exp y - 1) <= 100 / (exp 20 - 1).
Proof.
  intros [H1 H2]. pose proof exp20_big as B.
  assert (E : efun__r y = y / (exp 20 - 1)).
  { unfold efun__r. cbv zeta.
    destruct (rltb_spec (Rabs y) (1 / 1000000)) as [Hs|_]; [rewrite Rabs_right in Hs; lra|].
    rewrite Rmin_right by lra. reflexivity. }
  assert (M : exp 20 <= exp y) by (apply exp_le_mono; lra).
  split.
  - rewrite E. split.
    + apply Rdiv_lt_0_compat; lra.
    + unfold Rdiv. apply Rmult_le_compat_r; [|lra]. left. apply Rinv_0_lt_compat. lra.
  - split.
    + apply Rdiv_lt_0_compat; lra.
    + unfold Rdiv. apply Rmult_le_compat; try lra.
      * left. apply Rinv_0_lt_compat. lra.
      * apply Rinv_le_contravar; lra.
Qed.

Lemma tail_gap a b B : 0 < a <= B -> 0 < b <= B -> Rabs (a - b) <= B.
Proof. intros. apply Rabs_le. lra. Qed.

Lemma efun_tail_gap y : 20 <= y <= 100 -> Rabs (efun__r y - y / (exp y - 1)) <= 100 / (exp 20 - 1).
Proof. intros H. destruct (efun_tail y H). now apply tail_gap. Qed.

Lemma efun_gap_small : 100 / (exp 20 - 1) <= 21 / 100000000.
Proof. interval. Qed.

Lemma gap_scale c a b B : 0 <= c -> Rabs (a - b) <= B -> Rabs (c * a - c * b) <= c * B.
Proof.
  intros Hc H. replace (c * a - c * b) with (c * (a - b)) by ring.
  rewrite Rabs_mult, (Rabs_right c) by lra. apply Rmult_le_compat_l; assumption.
Qed.

Lemma exp_m1_nz y : 20 <= y -> exp y - 1 <> 0.
Proof. intros H. pose proof exp20_big. assert (exp 20 <= exp y) by (apply exp_le_mono; lra). lra. Qed.

(* the four x/(exp x - 1) rates beyond the clip *)
Lemma Na_alpha_m_tail v vt : 20 <= - (1 / 4) * (v - vt - 13) <= 100 ->
  Rabs (Na_m_gate__a v vt - Pub.Na_alpha_m v vt) <= 1 / 1000000.
Proof.
  intros H. set (y := - (1 / 4) * (v - vt - 13)) in *.
  change (Na_m_gate__a v vt) with (8 / 25 * efun__r y / (1 / 4)).
  assert (P : Pub.Na_alpha_m v vt = 32 / 25 * (y / (exp y - 1))).
  { unfold Pub.Na_alpha_m. replace (- (v - vt - 13) / 4) with y by (unfold y; field).
    pose proof (exp_m1_nz y ltac:(lra)). unfold y at 2. field. assumption. }
  rewrite P. replace (8 / 25 * efun__r y / (1 / 4)) with (32 / 25 * efun__r y) by field.
  eapply Rle_trans; [apply gap_scale; [lra | apply efun_tail_gap; exact H]|].
  pose proof efun_gap_small. lra.
Qed.

Lemma Na_beta_m_tail v vt : 20 <= 1 / 5 * (v - vt - 40) <= 100 ->
  Rabs (Na_m_gate__b v vt - Pub.Na_beta_m v vt) <= 1 / 1000000.
Proof.
  intros H. set (y := 1 / 5 * (v - vt - 40)) in *.
  change (Na_m_gate__b v vt) with (7 / 25 * efun__r y / (1 / 5)).
  assert (P : Pub.Na_beta_m v vt = 7 / 5 * (y / (exp y - 1))).
  { unfold Pub.Na_beta_m. replace ((v - vt - 40) / 5) with y by (unfold y; field).
    pose proof (exp_m1_nz y ltac:(lra)). unfold y at 2. field. assumption. }
  rewrite P. replace (7 / 25 * efun__r y / (1 / 5)) with (7 / 5 * efun__r y) by field.
  eapply Rle_trans; [apply gap_scale; [lra | apply efun_tail_gap; exact H]|].
  pose proof efun_gap_small. lra.
Qed.

Lemma K_alpha_n_tail v vt : 20 <= - (1 / 5) * (v - vt - 15) <= 100 ->
  Rabs (K_n_gate__a v vt - Pub.K_alpha_n v vt) <= 1 / 1000000.
Proof.
  intros H. set (y := - (1 / 5) * (v - vt - 15)) in *.
  change (K_n_gate__a v vt) with (4 / 125 * efun__r y / (1 / 5)).
  assert (P : Pub.K_alpha_n v vt = 4 / 25 * (y / (exp y - 1))).
  { unfold Pub.K_alpha_n. replace (- (v - vt - 15) / 5) with y by (unfold y; field).
    pose proof (exp_m1_nz y ltac:(lra)). unfold y at 2. field. assumption. }
  rewrite P. replace (4 / 125 * efun__r y / (1 / 5)) with (4 / 25 * efun__r y) by field.
  eapply Rle_trans; [apply gap_scale; [lra | apply efun_tail_gap; exact H]|].
  pose proof efun_gap_small. lra.
Qed.

Lemma CaL_alpha_q_tail v : 20 <= (- v - 27) / (19 / 5) <= 100 ->
  Rabs (CaL_q_gate__a v - Pub.CaL_alpha_q v) <= 1 / 1000000.
Proof.
  intros H. set (y := (- v - 27) / (19 / 5)) in *.
  change (CaL_q_gate__a v) with (11 / 200 * efun__r y * (19 / 5)).
  assert (P : Pub.CaL_alpha_q v = 209 / 1000 * (y / (exp y - 1))).
  { unfold Pub.CaL_alpha_q. replace ((- 27 - v) / (38 / 10)) with y by (unfold y; field).
    pose proof (exp_m1_nz y ltac:(lra)). unfold y at 2. field. assumption. }
  rewrite P. replace (11 / 200 * efun__r y * (19 / 5)) with (209 / 1000 * efun__r y) by field.
  eapply Rle_trans; [apply gap_scale; [lra | apply efun_tail_gap; exact H]|].
  pose proof efun_gap_small. lra.
Qed.

(* the two sigmoid-type rates beyond the clip: both values lie in (0, c / (1 + exp 20)] *)
Lemma sigmoid_tail c y : 0 < c <= 4 -> 20 <= y ->
  Rabs (c / (exp (Rmin y 20) + 1) - c / (exp y + 1)) <= 1 / 100000000.
Proof.
  intros Hc H. pose proof exp20_big as B.
  assert (M : exp 20 <= exp y) by (apply exp_le_mono; lra).
  rewrite Rmin_right by lra.
  assert (S : forall e, exp 20 <= e -> 0 < c / (e + 1) <= c / (exp 20 + 1)).
  { intros e He. split; [apply Rdiv_lt_0_compat; lra|].
    unfold Rdiv. apply Rmult_le_compat_l; [lra|]. apply Rinv_le_contravar; lra. }
  eapply Rle_trans; [apply (tail_gap _ _ (c / (exp 20 + 1))); apply S; lra|].
  apply Rle_trans with (4 / (exp 20 + 1)).
  - unfold Rdiv. apply Rmult_le_compat_r; [left; apply Rinv_0_lt_compat|]; lra.
  - interval.
Qed.

Lemma Na_beta_h_tail v vt : 20 <= - (v - vt - 40) / 5 ->
  Rabs (Na_h_gate__b v vt - Pub.Na_beta_h v vt) <= 1 / 100000000.
Proof.
  intros H. unfold Na_h_gate__b, Pub.Na_beta_h. cbv zeta.
  replace (1 + exp (- (v - vt - 40) / 5)) with (exp (- (v - vt - 40) / 5) + 1) by ring.
  apply sigmoid_tail; lra.
Qed.

Lemma CaT_u_inf_tail v vx : -1 <= v + vx ->
  Rabs (CaT_u_gate__a v vx - Pub.CaT_u_inf v vx) <= 1 / 100000000.
Proof.
  intros H. unfold CaT_u_gate__a, Pub.CaT_u_inf. cbv zeta.
  replace (1 + exp (Rmin ((v + vx + 81) / 4) 20)) with (exp (Rmin ((v + vx + 81) / 4) 20) + 1) by ring.
  replace (1 + exp ((v + vx + 81) / 4)) with (exp ((v + vx + 81) / 4) + 1) by ring.
  apply sigmoid_tail; lra.
Qed.

(* known finding F15, bounded: beyond the clip CaT's tau_u is within 0.28 ms (0.9 %) of the
   published value; both lie in [30.8, 31.08] ms *)
Lemma tau_u_part e1 e2 : 0 < e1 <= e2 -> exp 20 <= e2 ->
  0 < (1057 / 5 + e1) / (37 / 10 * (1 + e2)) <= 28 / 100.
Proof.
  intros [H1 H2] H3. pose proof exp20_big as B. split.
  - apply Rdiv_lt_0_compat; lra.
  - apply Rle_trans with ((1057 / 5 + e2) / (37 / 10 * (1 + e2))).
    + unfold Rdiv. apply Rmult_le_compat_r; [left; apply Rinv_0_lt_compat|]; lra.
    + assert (Q : 0 < 37 / 10 * (1 + e2)) by lra.
      apply Rmult_le_reg_r with (37 / 10 * (1 + e2)); [exact Q|].
      unfold Rdiv. rewrite Rmult_assoc, Rinv_l by lra. nra.
Qed.

Lemma CaT_tau_u_tail v vx : -20 <= v + vx ->
  Rabs (CaT_u_gate__b v vx - Pub.CaT_tau_u v vx) <= 28 / 100 /\
  154 / 5 < CaT_u_gate__b v vx <= 154 / 5 + 28 / 100 /\ 154 / 5 < Pub.CaT_tau_u v vx <= 154 / 5 + 28 / 100.
Proof.
  intros H.
  assert (C : 0 < (1057 / 5 + exp (Rmin ((v + vx + 566 / 5) / 5) 20)) / (37 / 10 * (1 + exp (Rmin ((v + vx + 84) / (16 / 5)) 20))) <= 28 / 100).
  { apply tau_u_part.
    - split; [apply exp_pos|]. apply exp_le_mono. rewrite (Rmin_right ((v + vx + 84) / (16 / 5))) by lra. apply Rmin_r.
    - rewrite (Rmin_right ((v + vx + 84) / (16 / 5))) by lra. lra. }
  assert (P : 0 < (1057 / 5 + exp ((v + vx + 566 / 5) / 5)) / (37 / 10 * (1 + exp ((v + vx + 84) / (16 / 5)))) <= 28 / 100).
  { apply tau_u_part.
    - split; [apply exp_pos|]. apply exp_le_mono. lra.
    - apply exp_le_mono. lra. }
  assert (Ec : CaT_u_gate__b v vx = 154 / 5 + (1057 / 5 + exp (Rmin ((v + vx + 566 / 5) / 5) 20)) / (37 / 10 * (1 + exp (Rmin ((v + vx + 84) / (16 / 5)) 20)))) by reflexivity.
  assert (Ep : Pub.CaT_tau_u v vx = 154 / 5 + (1057 / 5 + exp ((v + vx + 566 / 5) / 5)) / (37 / 10 * (1 + exp ((v + vx + 84) / (16 / 5))))).
  { unfold Pub.CaT_tau_u. replace ((v + vx + 1132 / 10) / 5) with ((v + vx + 566 / 5) / 5) by field.
    replace ((v + vx + 84) / (32 / 10)) with ((v + vx + 84) / (16 / 5)) by field. field_simplify_eq; [ring|].
    pose proof (exp_pos ((v + vx + 84) / (16 / 5))). lra. }
  rewrite Ec, Ep. split; [apply Rabs_le; lra | lra].
Qed.
