(* Soundness of the decidable conditions of Model/GraphStruct.v, and the theorem they buy for an arbitrary accepted
   structure (e.g. a NETWORK): if the schedule checker, asm_struct_b and graph_struct_b accept the integer arrays the
   code built, then for all positive conductances, non-negative membrane terms and dt > 0 the implicit step returns
   the unique solution of the backward-Euler equations of the conductance graph. *)
From Coq Require Import Reals List Arith Bool Lia Lra.
From JV Require Import HinesArr HinesCheck HinesArrFacts HinesArrPositive AsmStruct AssembleM AssembleTotal AssembleGraph GraphStruct.
Import ListNotations.

Lemma source_of_type' t (es : list (edge R)) idx :
  e_source R (nth idx (of_type R t es) e0) = t_src (nth idx (t_of_type t (map strip es)) (0, 0, 0)%nat).
Proof. rewrite <- strip_of_type. change (0, 0, 0)%nat with (strip e0). rewrite map_nth. reflexivity. Qed.

Lemma NoDup_map_seq_inj (f : nat -> nat) n : NoDup (map f (seq 0 n)) -> forall c c', c < n -> c' < n -> f c = f c' -> c = c'.
Proof.
  intros ND c c' Hc Hc' E.
  assert (H : forall k, k < n -> nth k (map f (seq 0 n)) 0 = f k).
  { intros k Hk. rewrite (nth_indep _ 0 (f 0)) by (rewrite map_length, seq_length; exact Hk). rewrite map_nth, seq_nth by exact Hk. reflexivity. }
  apply (proj1 (NoDup_nth (map f (seq 0 n)) 0) ND); rewrite ?map_length, ?seq_length; auto. rewrite !H by assumption. exact E.
Qed.

Lemma forallb_strip (p : trip -> bool) (es : list (edge R)) : forallb p (map strip es) = true -> forall e, In e es -> p (strip e) = true.
Proof. intros H e He. rewrite forallb_forall in H. apply H. apply in_map, He. Qed.

Section Sound.
  Variables (ly : layout) (tp : topo) (mask : nat -> nat) (ncomp : nat) (es : list (edge R)) (group child_inds par_inds : list nat).
  Hypothesis A : asm_struct ly tp mask es group child_inds par_inds.
  Hypothesis C : graph_struct_b ly tp mask ncomp (map strip es) group child_inds par_inds = true.

  Ltac split_all H := repeat (apply andb_true_iff in H; let H' := fresh "C" in destruct H as [H H']).

  Theorem graph_struct_b_sound :
    graph_struct ly tp mask ncomp es group child_inds par_inds /\
    graph_struct_bp ly mask ncomp es group child_inds par_inds /\
    (forall c, c < ncomp -> exists b r, b < nb tp /\ r < nc ly b /\ mask c = cs ly b + r) /\
    (forall b r, b < nb tp -> r < nc ly b -> exists c, c < ncomp /\ mask c = cs ly b + r).
  Proof.
    pose proof C as C0. unfold graph_struct_b in C0. split_all C0.
    rename C0 into Hpn.
    (* name the conjuncts in order *)
    match goal with
    | H1 : nodupb (map mask _) = true, H2 : forallb (fun e => negb (t_type e <=? 2) || _) _ = true,
      H3 : forallb (fun e => negb (t_type e =? 0) || _) _ = true |- _ => idtac
    end.
    split; [|split; [|split]].
    - constructor.
      + exact A.
      + apply nodupb_sound. exact Hpn.
      + apply NoDup_map_seq_inj. apply nodupb_sound. assumption.
      + intros e He Ht.
        match goal with H : forallb (fun e => negb (t_type e <=? 2) || _) _ = true |- _ => pose proof (forallb_strip _ es H e He) as X end.
        cbv beta in X. unfold t_type, t_sink, strip in X. cbn [fst snd] in X.
        replace (e_type R e <=? 2) with true in X by (symmetry; apply Nat.leb_le; exact Ht). cbn [negb orb] in X. apply Nat.ltb_lt, X.
      + intros e He Ht.
        match goal with H : forallb (fun e => negb (t_type e =? 0) || _) _ = true |- _ => pose proof (forallb_strip _ es H e He) as X end.
        cbv beta in X. unfold t_type, t_sink, t_src, strip in X. cbn [fst snd] in X. rewrite Ht in X. cbn [Nat.eqb negb orb] in X.
        apply andb_true_iff in X. destruct X as [X1 X2]. split; [apply Nat.ltb_lt, X1 | apply Nat.eqb_neq, negb_true_iff, X2].
      + intros e He Ht Hlt.
        match goal with H : forallb (fun e => negb ((t_type e =? 0) && (t_src e <? t_sink e)) || _) _ = true |- _ => pose proof (forallb_strip _ es H e He) as X end.
        cbv beta in X. unfold t_type, t_sink, t_src, strip in X. cbn [fst snd] in X. rewrite Ht in X.
        replace (e_source R e <? e_sink R e) with true in X by (symmetry; apply Nat.ltb_lt; exact Hlt). cbn [Nat.eqb andb negb orb] in X.
        apply andb_true_iff in X. destruct X as [X1 X2]. split; [apply Nat.eqb_eq, X1|].
        intros b Hb. rewrite forallb_forall in X2. specialize (X2 b ltac:(apply in_seq; lia)). apply Nat.eqb_neq, negb_true_iff, X2.
      + intros e He Ht Hlt.
        match goal with H : forallb (fun e => negb ((t_type e =? 0) && (t_sink e <? t_src e)) || _) _ = true |- _ => pose proof (forallb_strip _ es H e He) as X end.
        cbv beta in X. unfold t_type, t_sink, t_src, strip in X. cbn [fst snd] in X. rewrite Ht in X.
        replace (e_sink R e <? e_source R e) with true in X by (symmetry; apply Nat.ltb_lt; exact Hlt). cbn [Nat.eqb andb negb orb] in X.
        apply andb_true_iff in X. destruct X as [X1 X2]. split; [apply Nat.eqb_eq, X1|].
        intros b Hb. rewrite forallb_forall in X2. specialize (X2 b ltac:(apply in_seq; lia)). apply Nat.eqb_neq, negb_true_iff, X2.
      + intros idx Hi. rewrite source_of_type'. apply Nat.eqb_eq.
        match goal with H : forallb (fun idx => t_src (nth idx (t_of_type 1 _) _) =? _) _ = true |- _ => exact (forallb_seq _ _ H idx Hi) end.
      + intros idx Hi. rewrite source_of_type'. apply Nat.eqb_eq.
        match goal with H : forallb (fun idx => t_src (nth idx (t_of_type 2 _) _) =? _) _ = true |- _ => exact (forallb_seq _ _ H idx Hi) end.
      + intros b j Hb Hc.
        match goal with H : forallb (fun b => match cbp tp b with Some _ => _ | None => true end) _ = true |- _ => pose proof (forallb_seq _ _ H b Hb) as X end.
        cbv beta in X. rewrite Hc in X. apply existsb_exists in X. destruct X as (x & Hx & Ex). apply Nat.eqb_eq in Ex. subst. exact Hx.
      + intros idx Hi. apply Nat.ltb_lt.
        match goal with H : forallb (fun idx => nth idx par_inds 0 <? nb tp) _ = true |- _ => exact (forallb_seq _ _ H idx Hi) end.
      + intros idx Hi. apply Nat.ltb_lt.
        match goal with H : forallb (fun idx => nth idx child_inds 0 <? nb tp) _ = true |- _ => exact (forallb_seq _ _ H idx Hi) end.
    - constructor.
      + intros idx Hi. rewrite sink_of_type. apply Nat.eqb_eq.
        match goal with H : forallb (fun idx => t_sink (nth idx (t_of_type 3 _) _) =? _) _ = true |- _ => exact (forallb_seq _ _ H idx Hi) end.
      + intros idx Hi. rewrite source_of_type'.
        match goal with H : forallb (fun idx => (t_src (nth idx (t_of_type 3 _) _) <? ncomp) && _) _ = true |- _ => pose proof (forallb_seq _ _ H idx Hi) as X end.
        cbv beta in X. apply andb_true_iff in X. destruct X as [X1 X2]. split; [apply Nat.ltb_lt, X1 | apply Nat.eqb_eq, X2].
      + intros idx Hi. rewrite sink_of_type. apply Nat.eqb_eq.
        match goal with H : forallb (fun idx => t_sink (nth idx (t_of_type 4 _) _) =? _) _ = true |- _ => exact (forallb_seq _ _ H idx Hi) end.
      + intros idx Hi. rewrite source_of_type'.
        match goal with H : forallb (fun idx => (t_src (nth idx (t_of_type 4 _) _) <? ncomp) && _) _ = true |- _ => pose proof (forallb_seq _ _ H idx Hi) as X end.
        cbv beta in X. apply andb_true_iff in X. destruct X as [X1 X2]. split; [apply Nat.ltb_lt, X1 | apply Nat.eqb_eq, X2].
    - intros c Hc.
      match goal with H : forallb (fun c => existsb (fun b => (cs ly b <=? mask c) && _) _) _ = true |- _ => pose proof (forallb_seq _ _ H c Hc) as X end.
      cbv beta in X. apply existsb_exists in X. destruct X as (b & Hb & X). apply in_seq in Hb. apply andb_true_iff in X. destruct X as [X1 X2].
      apply Nat.leb_le in X1. apply Nat.ltb_lt in X2. exists b, (mask c - cs ly b). repeat split; lia.
    - intros b r Hb Hr.
      match goal with H : forallb (fun b => forallb (fun r => existsb _ _) _) _ = true |- _ => pose proof (forallb_seq _ _ H b Hb) as X end.
      cbv beta in X. pose proof (forallb_seq _ _ X r Hr) as Y. cbv beta in Y. apply existsb_exists in Y. destruct Y as (c & Hc & Y).
      apply in_seq in Hc. apply Nat.eqb_eq in Y. exists c. split; [lia | exact Y].
  Qed.
End Sound.

Local Open Scope R_scope.
Theorem accepted_structure_step_solves_the_graph_equations (ly : layout) (tp : topo) (ops : list op)
        (mask : nat -> nat) (ncomp : nat) (es : list (edge R)) (v vt ct : nat -> R) (dt : R) (group child_inds par_inds : list nat) :
  check_schedule ly tp ops = true ->
  asm_struct_b ly tp mask (map strip es) group child_inds par_inds = true ->
  graph_struct_b ly tp mask ncomp (map strip es) group child_inds par_inds = true ->
  0 < dt -> (forall e, In e es -> 0 < e_g R e) -> (forall i, (i < ncomp)%nat -> 0 <= vt i) ->
  let s0 := assemble R Rplus Rminus Rmult 0 1 mask ncomp es v vt ct dt group child_inds par_inds in
  let out := sv (runR ly ops s0) in
  (exists y, graph_eq ly tp mask ncomp es v vt ct dt out y) /\
  (forall x y, graph_eq ly tp mask ncomp es v vt ct dt x y ->
     forall b k, (b < nb tp)%nat -> (k < pl ly b)%nat -> x (cs ly b + k)%nat = out (cs ly b + k)%nat).
Proof.
  intros C A Gb Hdt Hg Hvt s0 out.
  assert (W : wf ly tp) by (unfold check_schedule in C; apply andb_true_iff in C; destruct C as [Cw _]; exact (wf_b_sound ly tp Cw)).
  pose proof (asm_struct_b_sound _ _ _ _ _ _ _ A) as St.
  destruct (graph_struct_b_sound ly tp mask ncomp es group child_inds par_inds St Gb) as (G & B & Hs & Hc).
  pose proof (sat_iff_graph ly tp W mask ncomp es v vt ct dt _ _ _ G B Hs Hc) as Eq.
  destruct (assembled_step_total ly tp ops mask ncomp es v vt ct dt group child_inds par_inds C A Hdt Hg Hvt) as (_ & (y & Hy) & Hu).
  split.
  - exists y. apply Eq. exact Hy.
  - intros x y' Hx. apply (Hu x y'). apply Eq. exact Hx.
Qed.
