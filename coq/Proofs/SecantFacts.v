(* Facts about the secant linearisation of synaptic currents (Model/Secant.v), over R. *)
From Coq Require Import List Arith Bool Reals Lra Lia.
From JV Require Import Secant.
Import ListNotations.
Local Open Scope R_scope.

Notation termsR := (terms R Rplus Rminus Rmult Rdiv).
Notation terms_bothR := (terms_both R Rplus Rminus Rmult Rdiv).
Notation accR := (accumulate R Rplus Rminus Rmult Rdiv 0).
Notation distR := (dist_current R Rmult).

(* the current of s is affine in the post-synaptic voltage: I(vpre, v) = a(vpre) * v + b(vpre)
   (all built-in synapses: IonotropicSynapse, TestSynapse with a = g*s, TanhRateSynapse with a = 0) *)
Definition affine_in_post (s : syn R) : Prop :=
  exists a b : R -> R, forall vpre v, s_cur R s vpre v = a vpre * v + b vpre.

(* the linearised current, evaluated at ANY new post-synaptic voltage, is the synapse's own current
   at that voltage and the present pre-synaptic voltage: the implicit step sees the true current *)
Theorem terms_exact (s : syn R) (v : nat -> R) (d : R) : d <> 0 -> affine_in_post s ->
  forall vnew, fst (termsR v d s) * vnew + snd (termsR v d s) = distR s (v (s_pre R s)) vnew.
Proof.
  intros Hd (a & b & H) vnew. unfold terms, dist_current. cbn [fst snd]. rewrite !H. field. exact Hd.
Qed.

(* a synapse that does not read the post-synaptic voltage puts NO coefficient on it *)
Theorem terms_pre_only (s : syn R) (v : nat -> R) (d : R) : d <> 0 ->
  (forall vpre v1 v2, s_cur R s vpre v1 = s_cur R s vpre v2) ->
  termsR v d s = (0, distR s (v (s_pre R s)) (v (s_post R s))).
Proof.
  intros Hd H. unfold terms, dist_current. rewrite (H _ (v (s_post R s) + d) (v (s_post R s))).
  f_equal; field; exact Hd.
Qed.

(* the scheme before F46 is wrong for such a synapse: with I = v_pre it reports the coefficient 1 *)
Theorem terms_both_refuted :
  exists (s : syn R) (v : nat -> R) (d vnew : R),
    d <> 0 /\ (forall vpre v1 v2, s_cur R s vpre v1 = s_cur R s vpre v2) /\ s_pre R s <> s_post R s /\
    fst (terms_bothR v d s) * vnew + snd (terms_bothR v d s) <> distR s (v (s_pre R s)) vnew.
Proof.
  exists (mksyn R 0%nat 1%nat (fun vpre _ => vpre) 1), (fun _ => 0), 1, 1.
  split; [lra|]. split; [reflexivity|]. split; [discriminate|].
  unfold terms_both, dist_current. cbn. lra.
Qed.

(* only the synapses whose post compartment is c contribute to c, and their terms add *)
Fixpoint sum_vt (v : nat -> R) (d : R) (syns : list (syn R)) (c : nat) : R :=
  match syns with [] => 0 | s :: r => (if Nat.eqb (s_post R s) c then fst (termsR v d s) else 0) + sum_vt v d r c end.
Fixpoint sum_ct (v : nat -> R) (d : R) (syns : list (syn R)) (c : nat) : R :=
  match syns with [] => 0 | s :: r => (if Nat.eqb (s_post R s) c then snd (termsR v d s) else 0) + sum_ct v d r c end.

Lemma accumulate_from (v : nat -> R) (d : R) (c : nat) : forall syns a0 b0,
  fold_left (fun acc s => if Nat.eqb (s_post R s) c
                          then (fst acc + fst (termsR v d s), snd acc - snd (termsR v d s)) else acc) syns (a0, b0)
  = (a0 + sum_vt v d syns c, b0 - sum_ct v d syns c).
Proof.
  induction syns as [|s r IH]; intros a0 b0; cbn [fold_left sum_vt sum_ct].
  - f_equal; lra.
  - destruct (Nat.eqb (s_post R s) c); rewrite IH; cbn [fst snd]; f_equal; lra.
Qed.

Theorem accumulate_sums (v : nat -> R) (d : R) (syns : list (syn R)) (c : nat) :
  accR v d syns c = (sum_vt v d syns c, - sum_ct v d syns c).
Proof. unfold accumulate. rewrite accumulate_from. f_equal; lra. Qed.

Theorem accumulate_untouched (v : nat -> R) (d : R) (syns : list (syn R)) (c : nat) :
  (forall s, In s syns -> s_post R s <> c) -> accR v d syns c = (0, 0).
Proof.
  intros H. rewrite accumulate_sums.
  assert (E : sum_vt v d syns c = 0 /\ sum_ct v d syns c = 0).
  { induction syns as [|s r IH]; cbn [sum_vt sum_ct]; [split; reflexivity|].
    destruct (Nat.eqb_spec (s_post R s) c) as [E|E]; [exfalso; apply (H s); [now left | exact E]|].
    destruct IH as [I1 I2]; [intros s' Hs'; apply H; now right|]. rewrite I1, I2. split; lra. }
  destruct E as [E1 E2]. rewrite E1, E2. f_equal; lra.
Qed.

(* the whole linearised synaptic input of compartment c, at any new voltage of c, is the sum of the
   true currents of exactly the synapses onto c (sign: currents leave the compartment) *)
Theorem accumulate_exact (v : nat -> R) (d : R) (syns : list (syn R)) (c : nat) : d <> 0 ->
  Forall affine_in_post syns ->
  forall vnew,
    fst (accR v d syns c) * vnew - snd (accR v d syns c)
    = fold_right (fun s acc => (if Nat.eqb (s_post R s) c then distR s (v (s_pre R s)) vnew else 0) + acc) 0 syns.
Proof.
  intros Hd HA vnew. rewrite accumulate_sums. cbn [fst snd].
  induction HA as [|s r Hs Hr IH]; cbn [sum_vt sum_ct fold_right]; [lra|].
  destruct (Nat.eqb (s_post R s) c).
  - rewrite <- (terms_exact s v d Hd Hs vnew). lra.
  - lra.
Qed.

(* ---- the traced built-in synapses are affine in the post-synaptic voltage ---- *)
From JV Require Import Prim GSynapses.

Lemma ionotropic_affine pre post s g e k conv :
  affine_in_post (mksyn R pre post (fun vpre vpost => IonotropicSynapse_current__i s vpre vpost g e k) conv).
Proof. exists (fun _ => g * s), (fun _ => - (g * s * e)). intros vpre v. cbn. unfold IonotropicSynapse_current__i. cbv zeta. ring. Qed.

Lemma testsynapse_affine pre post c g conv :
  affine_in_post (mksyn R pre post (fun vpre vpost => TestSynapse_current__i c vpre vpost g) conv).
Proof. exists (fun _ => g * c), (fun _ => 0). intros vpre v. cbn. unfold TestSynapse_current__i. cbv zeta. ring. Qed.

Lemma tanhrate_affine pre post g x sl conv :
  affine_in_post (mksyn R pre post (fun vpre vpost => TanhRateSynapse_current__i vpre vpost g x sl) conv).
Proof.
  exists (fun _ => 0), (fun vpre => TanhRateSynapse_current__i vpre 0 g x sl). intros vpre v. cbn.
  unfold TanhRateSynapse_current__i. cbv zeta. ring.
Qed.

(* a network whose synapses are of the three built-in types *)
Inductive builtin : syn R -> Prop :=
| b_ion pre post s g e k conv : builtin (mksyn R pre post (fun vpre vpost => IonotropicSynapse_current__i s vpre vpost g e k) conv)
| b_test pre post c g conv : builtin (mksyn R pre post (fun vpre vpost => TestSynapse_current__i c vpre vpost g) conv)
| b_tanh pre post g x sl conv : builtin (mksyn R pre post (fun vpre vpost => TanhRateSynapse_current__i vpre vpost g x sl) conv).

Lemma builtin_affine s : builtin s -> affine_in_post s.
Proof. intros [ | | ]; [apply ionotropic_affine | apply testsynapse_affine | apply tanhrate_affine]. Qed.

Theorem builtin_network_exact (v : nat -> R) (d : R) (syns : list (syn R)) (c : nat) : d <> 0 ->
  Forall builtin syns ->
  forall vnew,
    fst (accR v d syns c) * vnew - snd (accR v d syns c)
    = fold_right (fun s acc => (if Nat.eqb (s_post R s) c then distR s (v (s_pre R s)) vnew else 0) + acc) 0 syns.
Proof.
  intros Hd HB. apply accumulate_exact; [exact Hd|]. eapply Forall_impl; [|exact HB]. exact builtin_affine.
Qed.

(* the TanhRateSynapse puts no coefficient on the post-synaptic voltage (F46: the code before the repair did) *)
Theorem tanhrate_no_post_coefficient (v : nat -> R) (d : R) pre post g x sl conv : d <> 0 ->
  fst (termsR v d (mksyn R pre post (fun vpre vpost => TanhRateSynapse_current__i vpre vpost g x sl) conv)) = 0.
Proof. intros Hd. rewrite terms_pre_only; [reflexivity | exact Hd | reflexivity]. Qed.
