(* Differentiability facts about the traced building blocks (C05, partial). *)
From Coq Require Import Reals Lra.
From Coquelicot Require Import Coquelicot.
From JV Require Import Prim RLemmas GSolverGate GChannels GCellUtils GateGeneric.
Local Open Scope R_scope.

(* the exponential-Euler update is affine in the state: d(update)/dx = exp(-dt/tau) *)
Lemma ee_derive_state x dt xinf tau : 0 < dt -> 0 < tau ->
  is_derive (fun x => exponential_euler__r x dt xinf tau) x (exp (- dt / tau)).
Proof.
  intros Hdt Ht.
  apply (is_derive_ext (fun x => expeuler x xinf (exp (- dt / tau)))).
  - intros t. symmetry. apply ee_closed_form; assumption.
  - unfold expeuler. auto_derive; [exact I | ring].
Qed.
Lemma sge_derive_state x dt a b : 0 < dt -> 0 < a -> 0 < b ->
  is_derive (fun x => solve_gate_exponential__r x dt a b) x (exp (- (dt * (a + b)))).
Proof.
  intros Hdt Ha Hb.
  apply (is_derive_ext (fun x => expeuler x (a / (a + b)) (exp (- (dt * (a + b)))))).
  - intros t. symmetry. apply sge_closed_form; assumption.
  - unfold expeuler. auto_derive; [exact I | ring].
Qed.

(* the clipped exponential: derivative exp x below the clip, 0 above it *)
Lemma save_exp_derive_below x : x < 20 -> is_derive save_exp__r x (exp x).
Proof.
  intros H. unfold save_exp__r.
  apply (is_derive_ext_loc exp).
  - assert (Hpos : 0 < 20 - x) by lra.
    exists (mkposreal _ Hpos). intros y Hy. cbv zeta.
    unfold ball in Hy. cbn in Hy. unfold AbsRing_ball in Hy. cbn in Hy. unfold abs, minus, plus, opp in Hy. cbn in Hy.
    apply Rabs_def2 in Hy. rewrite Rmin_left by lra. reflexivity.
  - auto_derive; [exact I | ring].
Qed.
Lemma save_exp_derive_above x : 20 < x -> is_derive save_exp__r x 0.
Proof.
  intros H. unfold save_exp__r.
  apply (is_derive_ext_loc (fun _ => exp 20)).
  - assert (Hpos : 0 < x - 20) by lra.
    exists (mkposreal _ Hpos). intros y Hy. cbv zeta.
    unfold ball in Hy. cbn in Hy. unfold AbsRing_ball in Hy. cbn in Hy. unfold abs, minus, plus, opp in Hy. cbn in Hy.
    apply Rabs_def2 in Hy. rewrite Rmin_right by lra. reflexivity.
  - auto_derive; [exact I | reflexivity].
Qed.

(* the axial conductance is differentiable in every geometric / electrical parameter on the
   open set of positive parameters *)
Lemma coupling_cond_differentiable r1 r2 ra1 ra2 l1 l2 :
  0 < r1 -> 0 < r2 -> 0 < ra1 -> 0 < ra2 -> 0 < l1 -> 0 < l2 ->
  ex_derive (fun t => coupling_cond__g t r2 ra1 ra2 l1 l2) r1 /\
  ex_derive (fun t => coupling_cond__g r1 t ra1 ra2 l1 l2) r2 /\
  ex_derive (fun t => coupling_cond__g r1 r2 t ra2 l1 l2) ra1 /\
  ex_derive (fun t => coupling_cond__g r1 r2 ra1 ra2 t l2) l1.
Proof.
  intros. unfold coupling_cond__g. cbv zeta.
  assert (0 < ra1 * r2 ^ 2 * l1 + ra2 * r1 ^ 2 * l2).
  { apply Rplus_lt_0_compat; repeat apply Rmult_lt_0_compat; try lra; apply pow_lt; lra. }
  repeat split; auto_derive; repeat split; try exact I; try lra; simpl pow in *; nra.
Qed.

Lemma c05_example : vtrap__r_gdom 0 10.
Proof. apply vtrap_gdom. lra. Qed.
