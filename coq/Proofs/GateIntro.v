(* Introduction rules: a traced update that is (convertible to) the traced
   solve_gate_exponential / solve_inf_gate_exponential applied to positive rates
   satisfies the gate specification. *)
From Coq Require Import Reals Lra Bool.
From JV Require Import Prim RLemmas GSolverGate GChannels GateGeneric GateSpec.
Local Open Scope R_scope.

Lemma ab_gate_intro (a b init : R -> R) (init_dom : R -> Prop) (upd : R -> R -> R -> R) (dom : R -> R -> R -> Prop) :
  (forall v, 0 < a v /\ 0 < b v) ->
  (forall v, init_dom v) ->
  (forall v, init v = a v / (a v + b v)) ->
  (forall x dt v, upd x dt v = solve_gate_exponential__r x dt (a v) (b v)) ->
  (forall x dt v, dom x dt v) ->
  ab_gate_ok a b init init_dom upd dom.
Proof.
  intros Hr Hid Hi Hs Hd v. destruct (Hr v) as [Ha Hb].
  split; [exact Ha|]. split; [exact Hb|]. split; [apply Hid|]. split; [apply Hi|].
  intros x dt Hdt Hx. split; [apply Hd|].
  assert (Hx1 : 0 < a v / (a v + b v) < 1).
  { replace (a v / (a v + b v)) with (a v * (1 / (a v + b v))) by (field; lra).
    apply ab_xinf_unit; auto. }
  assert (He : 0 < exp (- (dt * (a v + b v))) < 1) by (apply exp_rate_unit; lra).
  assert (Hclosed : forall y, upd y dt v
            = expeuler y (a v / (a v + b v)) (exp (- (dt * (a v + b v))))).
  { intros y. rewrite Hs. apply sge_closed_form; auto. }
  destruct (expeuler_gate_facts x _ _ He Hx Hx1) as (F1 & F2 & F3 & F4).
  rewrite Hi. rewrite !Hclosed.
  split.
  - unfold ode_solution, expeuler.
    replace (- dt / (1 / (a v + b v))) with (- (dt * (a v + b v))) by (field; lra). ring.
  - split; [exact F1|]. split; [exact F2|]. exact F4.
Qed.

Lemma it_gate_intro (xinf tau init : R -> R) (init_dom : R -> Prop) (upd : R -> R -> R -> R) (dom : R -> R -> R -> Prop) :
  (forall v, 0 < xinf v < 1 /\ 0 < tau v) ->
  (forall v, init_dom v) ->
  (forall v, init v = xinf v) ->
  (forall x dt v, upd x dt v = solve_inf_gate_exponential__r x dt (xinf v) (tau v)) ->
  (forall x dt v, dom x dt v) ->
  it_gate_ok xinf tau init init_dom upd dom.
Proof.
  intros Hr Hid Hi Hs Hd v. destruct (Hr v) as [Hx1 Ht].
  split; [exact Hx1|]. split; [exact Ht|]. split; [apply Hid|]. split; [apply Hi|].
  intros x dt Hdt Hx. split; [apply Hd|].
  assert (He : 0 < exp (- dt / tau v) < 1) by (apply exp_decay_unit; lra).
  assert (Hclosed : forall y, upd y dt v = expeuler y (xinf v) (exp (- dt / tau v))).
  { intros y. rewrite Hs. apply sige_closed_form; auto. }
  destruct (expeuler_gate_facts x _ _ He Hx Hx1) as (F1 & F2 & F3 & F4).
  rewrite !Hclosed.
  split; [apply expeuler_is_ode_solution|].
  split; [exact F1|]. split; [exact F2|]. exact F4.
Qed.

Lemma guard_nonzero z : rltb (Rabs z) (1 / 1000000) = false -> exp (Rmin z 20) - 1 <> 0.
Proof.
  intros H. apply rltb_false in H.
  assert (z <> 0) as Hne by (intros E; rewrite E, Rabs_R0 in H; lra).
  fold (sexp z). pose proof (efun_clipped_pos z Hne) as P.
  intros E. rewrite E in P. unfold Rdiv in P. rewrite Rinv_0 in P. lra.
Qed.

Ltac guard_facts :=
  repeat match goal with
  | |- context [if ?c then True else ?P] =>
      lazymatch goal with
      | H : (if c then True else P) |- _ => fail
      | _ => assert (if c then True else P)
               by (destruct c eqn:?; [exact I | try (apply guard_nonzero; assumption)])
      end
  end.

(* definedness goal of an alpha/beta update, given  Hr : 0 < alpha /\ 0 < beta  whose
   statement has been unfolded to the same inlined terms as the goal *)
Ltac ab_dom_close Hr :=
  let Ha := fresh "Ha" in let Hb := fresh "Hb" in
  let al := fresh "al" in let be := fresh "be" in
  destruct Hr as [Ha Hb];
  match type of Ha with 0 < ?A => set (al := A) in * end;
  match type of Hb with 0 < ?B => set (be := B) in * end;
  assert (al + be <> 0) by lra;
  assert (1 / (al + be) <> 0) by (pose proof (ab_tau_pos al be Ha Hb); lra);
  guard_facts; tauto.

Ltac nz := apply Rgt_not_eq; unfold Rgt; pos.

Lemma ab_fixed a b init init_dom upd dom :
  ab_gate_ok a b init init_dom upd dom -> fixed_point init init_dom upd.
Proof.
  intros H v dt Hdt. destruct (H v) as (Ha & Hb & Hd & Hi & Hu).
  assert (0 < init v < 1) as Hr.
  { rewrite Hi. replace (a v / (a v + b v)) with (a v * (1 / (a v + b v))) by (field; lra).
    apply ab_xinf_unit; assumption. }
  destruct (Hu (init v) dt Hdt) as (_ & _ & _ & _ & Hf); [lra|].
  split; [exact Hd|]. split; [lra | exact Hf].
Qed.
Lemma it_fixed xinf tau init init_dom upd dom :
  it_gate_ok xinf tau init init_dom upd dom -> fixed_point init init_dom upd.
Proof.
  intros H v dt Hdt. destruct (H v) as (Hx & Ht & Hd & Hi & Hu).
  destruct (Hu (xinf v) dt Hdt) as (_ & _ & _ & _ & Hf); [lra|].
  rewrite Hi. split; [exact Hd|]. split; [lra | exact Hf].
Qed.

