(* No division by zero (C01, array level).  If the system represented by the arrays is an
   M-matrix-like system — in every compartment row the off-diagonal entries are <= 0 and the
   diagonal exceeds their total magnitude; in every (negated) branch-point row the weights are
   >= 0, sum to at most -diagonal, and the parent's weight is strictly smaller than -diagonal —
   then every operation of an accepted schedule keeps that property and divides by a nonzero
   number.  Together with arr_solve_correct and tree_accepted: for EVERY cell and every such
   store the solver returns the unique solution, with no numeric side condition left. *)
From Coq Require Import Reals List Arith Bool Lia Lra.
From JV Require Import HinesArr HinesCheck HinesArrFacts.
Import ListNotations.
Local Open Scope R_scope.

Section Positive.
  Variables (ly : layout) (tp : topo).
  Hypothesis W : wf ly tp.

  Definition lo_c (s : storeR) (b k : nat) : R := if (k =? 0)%nat then 0 else lw s (cs ly b + k)%nat.
  Definition up_c (s : storeR) (b k : nat) : R := if (S k <? pl ly b)%nat then up s (cs ly b + k)%nat else 0.
  Definition cc_c (s : storeR) (b k : nat) : R :=
    if (k =? 0)%nat then match pbp tp b with Some _ => cc s b | None => 0 end else 0.
  Definition cp_c (s : storeR) (b k : nat) : R :=
    if (k =? nc ly b - 1)%nat then match cbp tp b with Some _ => cp s b | None => 0 end else 0.

  Definition rowdom (s : storeR) (b k : nat) : Prop :=
    lo_c s b k <= 0 /\ up_c s b k <= 0 /\ cc_c s b k <= 0 /\ cp_c s b k <= 0 /\
    - (lo_c s b k + up_c s b k + cc_c s b k + cp_c s b k) < dg s (cs ly b + k)%nat.

  Definition bpdom (s : storeR) (j : nat) : Prop :=
    (forall c, In c (kids tp j) -> 0 <= wc s c) /\ 0 <= wp s (par tp j) /\
    sumf (wc s) (kids tp j) + wp s (par tp j) <= - bd s j /\ wp s (par tp j) < - bd s j.

  Definition Mstore (s : storeR) : Prop :=
    (forall b k, (b < nb tp)%nat -> (k < pl ly b)%nat -> rowdom s b k) /\
    (forall j, (j < nbp tp)%nat -> bpdom s j).

  (* a step that rewrites one compartment row *)
  Lemma M_row_op (s s' : storeR) b0 k0 :
    (b0 < nb tp)%nat -> (k0 < pl ly b0)%nat ->
    (forall i, i <> (cs ly b0 + k0)%nat -> dg s' i = dg s i /\ lw s' i = lw s i /\ up s' i = up s i) ->
    (forall b k, (b, k) <> (b0, k0) -> cc_c s' b k = cc_c s b k /\ cp_c s' b k = cp_c s b k) ->
    (forall j, bd s' j = bd s j /\ wc s' j = wc s j /\ wp s' j = wp s j) ->
    Mstore s -> rowdom s' b0 k0 -> Mstore s'.
  Proof.
    intros Hb0 Hk0 Hslot Hbr Hbp [MR MB] R0. split.
    - intros b k Hb Hk. destruct (Nat.eq_dec b b0) as [->|Hnb]; [destruct (Nat.eq_dec k k0) as [->|Hnk]; [exact R0|]|].
      + assert (Hi : (cs ly b0 + k)%nat <> (cs ly b0 + k0)%nat) by lia.
        destruct (Hslot _ Hi) as (E1 & E2 & E3). destruct (Hbr b0 k) as [E4 E5]; [intros E; inversion E; contradiction|].
        unfold rowdom, lo_c, up_c. rewrite E1, E2, E3, E4, E5. apply (MR b0 k Hb Hk).
      + assert (Hi : (cs ly b + k)%nat <> (cs ly b0 + k0)%nat).
        { intros E. destruct (slot_inj _ _ W _ _ _ _ Hb Hk Hb0 Hk0 E). contradiction. }
        destruct (Hslot _ Hi) as (E1 & E2 & E3). destruct (Hbr b k) as [E4 E5]; [intros E; inversion E; contradiction|].
        unfold rowdom, lo_c, up_c. rewrite E1, E2, E3, E4, E5. apply (MR b k Hb Hk).
    - intros j Hj. destruct (MB j Hj) as (B1 & B2 & B3 & B4). unfold bpdom.
      destruct (Hbp j) as (-> & _ & _). destruct (Hbp (par tp j)) as (_ & _ & ->).
      rewrite (sumf_ext (wc s') (wc s)) by (intros c _; destruct (Hbp c) as (_ & -> & _); reflexivity).
      repeat split; auto. intros c Hc. destruct (Hbp c) as (_ & -> & _). auto.
  Qed.

  (* a step that rewrites one branch-point row *)
  Lemma M_bp_op (s s' : storeR) j0 :
    (j0 < nbp tp)%nat ->
    (forall i, dg s' i = dg s i /\ lw s' i = lw s i /\ up s' i = up s i) ->
    (forall b, cc s' b = cc s b /\ cp s' b = cp s b) ->
    (forall j, (j < nbp tp)%nat -> j <> j0 -> bpdom s j -> bpdom s' j) ->
    Mstore s -> bpdom s' j0 -> Mstore s'.
  Proof.
    intros Hj0 Hslot Hbr Hother [MR MB] B0. split.
    - intros b k Hb Hk. destruct (Hslot (cs ly b + k)%nat) as (E1 & E2 & E3). destruct (Hbr b) as [E4 E5].
      unfold rowdom, lo_c, up_c, cc_c, cp_c. rewrite E1, E2, E3, E4, E5. apply (MR b k Hb Hk).
    - intros j Hj. destruct (Nat.eq_dec j j0) as [->|Hne]; [exact B0 | apply Hother; auto].
  Qed.

  Lemma div_nonpos a p : a <= 0 -> 0 < p -> a / p <= 0.
  Proof. intros Ha Hp. unfold Rdiv. assert (0 < / p) by (apply Rinv_0_lt_compat; exact Hp). nra. Qed.
  Lemma div_lt_1 a p : 0 < p -> - a < p -> - (a / p) < 1.
  Proof.
    intros Hp H. replace (- (a / p)) with ((- a) / p) by (field; lra).
    apply (Rmult_lt_reg_r p); [exact Hp|]. unfold Rdiv. rewrite Rmult_assoc, Rinv_l by lra. lra.
  Qed.

  Lemma up_c_zero s b k : Uz ly s b k -> up_c s b k = 0.
  Proof. unfold Uz, up_c. intros H. destruct (Nat.ltb_spec (S k) (pl ly b)); [apply H; assumption | reflexivity]. Qed.
  Lemma lo_c_zero s b k : Lz ly s b k -> lo_c s b k = 0.
  Proof. unfold Lz, lo_c. intros H. destruct (Nat.eqb_spec k 0); [reflexivity | apply H; assumption]. Qed.
  Lemma cc_c_zero s b k : CCz tp s b k -> cc_c s b k = 0.
  Proof. unfold CCz, cc_c. intros H. destruct (Nat.eqb_spec k 0); [|reflexivity]. destruct (pbp tp b) as [j|] eqn:E; [eapply H; eauto | reflexivity]. Qed.
  Lemma cp_c_zero s b k : CPz ly tp s b k -> cp_c s b k = 0.
  Proof. unfold CPz, cp_c. intros H. destruct (Nat.eqb_spec k (nc ly b - 1)); [|reflexivity]. destruct (cbp tp b) as [j|] eqn:E; [eapply H; eauto | reflexivity]. Qed.
  Lemma cc_c_pos s b k : (1 <= k)%nat -> cc_c s b k = 0.
  Proof. unfold cc_c. intros H. destruct (Nat.eqb_spec k 0); [lia | reflexivity]. Qed.
  Lemma lo_c_pos s b k : (1 <= k)%nat -> lo_c s b k = lw s (cs ly b + k)%nat.
  Proof. unfold lo_c. intros H. destruct (Nat.eqb_spec k 0); [lia | reflexivity]. Qed.

  Ltac upds := repeat first [rewrite upd_same | rewrite upd_other by (assumption || lia)].

  Lemma M_Norm s b k : pre ly tp s (Norm b k) -> Mstore s ->
    dg s (cs ly b + k)%nat <> 0 /\ Mstore (stepR ly s (Norm b k)).
  Proof.
    intros (Hb & Hk & HU & HCP) M. pose proof M as [MR _]. destruct (MR b k Hb ltac:(lia)) as (R1 & R2 & R3 & R4 & R5).
    rewrite (up_c_zero _ _ _ HU), (cp_c_zero _ _ _ HCP), (cc_c_pos s b k) in R5 by lia.
    rewrite lo_c_pos in R1, R5 by lia.
    assert (Hp : 0 < dg s (cs ly b + k)%nat) by lra. split; [lra|].
    apply (M_row_op s _ b k); try assumption; try lia.
    - intros i Hi. cbn [step dg lw up]. upds. auto.
    - intros b' k' _. unfold cc_c, cp_c. cbn [step cc cp]. auto.
    - intros j. cbn [step bd wc wp]. auto.
    - unfold rowdom.
      assert (E1 : lo_c (stepR ly s (Norm b k)) b k = lw s (cs ly b + k)%nat / dg s (cs ly b + k)%nat).
      { rewrite lo_c_pos by lia. cbn [step lw]. upds. reflexivity. }
      assert (E2 : up_c (stepR ly s (Norm b k)) b k = 0) by (change (up_c (stepR ly s (Norm b k)) b k) with (up_c s b k); apply up_c_zero; exact HU).
      assert (E3 : cc_c (stepR ly s (Norm b k)) b k = 0) by (apply cc_c_pos; lia).
      assert (E4 : cp_c (stepR ly s (Norm b k)) b k = 0) by (change (cp_c (stepR ly s (Norm b k)) b k) with (cp_c s b k); apply cp_c_zero; exact HCP).
      rewrite E1, E2, E3, E4. cbn [step dg]. upds.
      pose proof (div_nonpos _ _ R1 Hp). pose proof (div_lt_1 (lw s (cs ly b + k)%nat) _ Hp ltac:(lra)). repeat split; lra.
  Qed.

  Lemma M_ElimUp s b k : pre ly tp s (ElimUp b k) -> Mstore s -> Mstore (stepR ly s (ElimUp b k)).
  Proof.
    intros (Hb & Hk & HN & HU & HCP) M. pose proof M as [MR _].
    destruct (MR b (S k) Hb Hk) as (S1 & _ & _ & _ & S5).
    rewrite (up_c_zero _ _ _ HU), (cp_c_zero _ _ _ HCP), (cc_c_pos s b (S k)) in S5 by lia.
    rewrite lo_c_pos in S1, S5 by lia. replace (cs ly b + S k)%nat with (S (cs ly b + k)) in S1, S5 by lia. rewrite HN in S5.
    destruct (MR b k Hb ltac:(lia)) as (R1 & R2 & R3 & R4 & R5).
    assert (EU : up_c s b k = up s (cs ly b + k)%nat).
    { unfold up_c. destruct (Nat.ltb_spec (S k) (pl ly b)); [reflexivity | lia]. }
    rewrite EU in R2, R5.
    apply (M_row_op s _ b k); try assumption; try lia.
    - intros i Hi. cbn [step dg lw up]. upds. auto.
    - intros b' k' _. unfold cc_c, cp_c. cbn [step cc cp]. auto.
    - intros j. cbn [step bd wc wp]. auto.
    - unfold rowdom.
      change (lo_c (stepR ly s (ElimUp b k)) b k) with (lo_c s b k).
      change (cc_c (stepR ly s (ElimUp b k)) b k) with (cc_c s b k).
      change (cp_c (stepR ly s (ElimUp b k)) b k) with (cp_c s b k).
      assert (E2 : up_c (stepR ly s (ElimUp b k)) b k = 0).
      { unfold up_c. destruct (Nat.ltb_spec (S k) (pl ly b)); [|reflexivity]. cbn [step up]. upds. reflexivity. }
      rewrite E2. cbn [step dg]. upds.
      set (u := up s (cs ly b + k)%nat) in *. set (l' := lw s (S (cs ly b + k))) in *.
      assert (u * l' <= - u) by nra.
      repeat split; lra.
  Qed.

  Lemma sumf_upd0 (w : nat -> R) b l : NoDup l -> In b l -> sumf (updR w b 0) l = sumf w l - w b.
  Proof.
    induction l as [|c r IH]; simpl; intros ND Hin; [contradiction|].
    inversion ND as [|? ? Hnotin ND']; subst. destruct Hin as [->|Hin].
    - rewrite upd_same. rewrite (sumf_ext (updR w b 0) w r); [ring|].
      intros c Hc. rewrite upd_other; [reflexivity|]. intros ->; contradiction.
    - rewrite IH by assumption. rewrite upd_other; [ring|]. intros ->; contradiction.
  Qed.
  Lemma sumf_ge_elem (w : nat -> R) b l : (forall c, In c l -> 0 <= w c) -> In b l -> w b <= sumf w l.
  Proof.
    induction l as [|c r IH]; simpl; intros Hp Hin; [contradiction|].
    assert (0 <= sumf w r).
    { clear IH Hin. induction r as [|x r IHr]; simpl; [lra|]. assert (0 <= w x) by (apply Hp; right; now left).
      assert (0 <= sumf w r) by (apply IHr; intros y [->|Hy]; apply Hp; [now left | right; now right]). lra. }
    assert (0 <= w c) by (apply Hp; now left).
    destruct Hin as [->|Hin]; [lra|]. assert (w b <= sumf w r) by (apply IH; auto). lra.
  Qed.

  Lemma M_ChildLower s b j : pre ly tp s (ChildLower b j) -> Mstore s ->
    dg s (first ly b) <> 0 /\ Mstore (stepR ly s (ChildLower b j)).
  Proof.
    intros (Hb & Hp & HU & HCP) M. pose proof M as [MR MB]. pose proof (wf_nc _ _ W b Hb) as Hnc.
    destruct (wf_pbp_kids _ _ W b j Hb Hp) as [Hj Hin].
    destruct (MR b 0%nat Hb ltac:(lia)) as (_ & _ & R3 & _ & R5).
    rewrite (up_c_zero _ _ _ HU), (cp_c_zero _ _ _ HCP) in R5.
    assert (EC : cc_c s b 0 = cc s b) by (unfold cc_c; cbn [Nat.eqb]; rewrite Hp; reflexivity).
    assert (EL : lo_c s b 0 = 0) by reflexivity. rewrite EC in R3, R5. rewrite EL in R5.
    unfold first. replace (cs ly b + 0)%nat with (cs ly b) in R5 by lia.
    assert (Hd : 0 < dg s (cs ly b)) by lra. split; [lra|].
    destruct (MB j Hj) as (B1 & B2 & B3 & B4).
    apply (M_bp_op s _ j); try assumption.
    - intros i. cbn [step dg lw up]. auto.
    - intros b'. cbn [step cc cp]. auto.
    - intros j' Hj' Hne (C1 & C2 & C3 & C4). unfold bpdom. cbn [step bd wc wp]. upds.
      assert (Hnot : ~ In b (kids tp j')).
      { intros Hc. destruct (wf_kids_pbp _ _ W j' b Hj' Hc) as [_ E]. congruence. }
      rewrite (sumf_ext (updR (wc s) b 0) (wc s) (kids tp j')) by (intros c Hc; rewrite upd_other; [reflexivity | intros ->; contradiction]).
      repeat split; auto. intros c Hc. rewrite upd_other; [auto | intros ->; contradiction].
    - unfold bpdom. cbn [step bd wc wp]. unfold first. upds.
      rewrite (sumf_upd0 (wc s) b (kids tp j) (wf_kids_nodup _ _ W j Hj) Hin).
      set (t := - cc s b / dg s (cs ly b)).
      assert (Ht : 0 <= t < 1).
      { unfold t. split; [apply Rmult_le_pos; [lra | left; apply Rinv_0_lt_compat; exact Hd]|].
        apply (Rmult_lt_reg_r (dg s (cs ly b))); [exact Hd|]. unfold Rdiv. rewrite Rmult_assoc, Rinv_l by lra. lra. }
      assert (Em : (0 - wc s b) / dg s (cs ly b) * cc s b = wc s b * t) by (unfold t; field; lra).
      rewrite Em. pose proof (B1 b Hin) as Wb. pose proof (sumf_ge_elem (wc s) b (kids tp j) B1 Hin) as Sb.
      repeat split.
      + intros c Hc. unfold upd. destruct (Nat.eqb c b); [lra | apply B1; exact Hc].
      + exact B2.
      + nra.
      + nra.
  Qed.

  Lemma M_ParentUpper s b j : pre ly tp s (ParentUpper b j) -> Mstore s ->
    bd s j <> 0 /\ Mstore (stepR ly s (ParentUpper b j)).
  Proof.
    intros (Hb & Hc & Hpure) M. pose proof M as [MR MB]. pose proof (wf_nc _ _ W b Hb) as Hnc.
    destruct (wf_cbp _ _ W b j Hb Hc) as [Hj Hpar].
    destruct (MB j Hj) as (_ & B2 & _ & B4). rewrite Hpar in B2, B4.
    assert (Hbd : bd s j < 0) by lra. split; [lra|].
    assert (El : last ly b = (cs ly b + (nc ly b - 1))%nat) by (unfold last; lia).
    destruct (MR b (nc ly b - 1)%nat Hb ltac:(lia)) as (R1 & R2 & R3 & R4 & R5).
    assert (EP : cp_c s b (nc ly b - 1) = cp s b) by (unfold cp_c; rewrite Nat.eqb_refl, Hc; reflexivity).
    rewrite EP in R4, R5.
    apply (M_row_op s _ b (nc ly b - 1)); try assumption; try lia.
    - intros i Hi. cbn [step dg lw up]. rewrite El. upds. auto.
    - intros b' k' Hne. unfold cc_c, cp_c. cbn [step cc cp]. split; [reflexivity|].
      destruct (Nat.eqb_spec k' (nc ly b' - 1)); [|reflexivity].
      destruct (Nat.eq_dec b' b) as [->|Hnb]; [exfalso; apply Hne; congruence|]. rewrite upd_other by assumption. reflexivity.
    - intros j'. cbn [step bd wc wp]. auto.
    - unfold rowdom.
      change (lo_c (stepR ly s (ParentUpper b j)) b (nc ly b - 1)) with (lo_c s b (nc ly b - 1)).
      change (up_c (stepR ly s (ParentUpper b j)) b (nc ly b - 1)) with (up_c s b (nc ly b - 1)).
      change (cc_c (stepR ly s (ParentUpper b j)) b (nc ly b - 1)) with (cc_c s b (nc ly b - 1)).
      assert (E4 : cp_c (stepR ly s (ParentUpper b j)) b (nc ly b - 1) = 0).
      { unfold cp_c. rewrite Nat.eqb_refl, Hc. cbn [step cp]. upds. reflexivity. }
      rewrite E4. cbn [step dg]. rewrite El. upds.
      set (rho := wp s b / - bd s j).
      assert (Hr : 0 <= rho < 1).
      { unfold rho. split; [apply Rmult_le_pos; [lra | left; apply Rinv_0_lt_compat; lra]|].
        apply (Rmult_lt_reg_r (- bd s j)); [lra|]. unfold Rdiv. rewrite Rmult_assoc, Rinv_l by lra. lra. }
      assert (Em : (0 - cp s b / bd s j) * wp s b = cp s b * rho) by (unfold rho; field; lra).
      rewrite Em. repeat split; try lra. nra.
  Qed.

  Lemma M_DivFirst s b : pre ly tp s (DivFirst b) -> Mstore s ->
    dg s (first ly b) <> 0 /\ Mstore (stepR ly s (DivFirst b)).
  Proof.
    intros (Hb & HU & HCC & HCP) M. pose proof M as [MR _]. pose proof (wf_nc _ _ W b Hb) as Hnc.
    destruct (MR b 0%nat Hb ltac:(lia)) as (_ & _ & _ & _ & R5).
    rewrite (up_c_zero _ _ _ HU), (cp_c_zero _ _ _ HCP), (cc_c_zero _ _ _ HCC) in R5.
    assert (EL : lo_c s b 0 = 0) by reflexivity. rewrite EL in R5.
    unfold first. replace (cs ly b + 0)%nat with (cs ly b) in R5 by lia. split; [lra|].
    apply (M_row_op s _ b 0); try assumption; try lia.
    - intros i Hi. cbn [step dg lw up]. unfold first. replace (cs ly b + 0)%nat with (cs ly b) in Hi by lia. upds. auto.
    - intros b' k' _. unfold cc_c, cp_c. cbn [step cc cp]. auto.
    - intros j. cbn [step bd wc wp]. auto.
    - unfold rowdom.
      change (up_c (stepR ly s (DivFirst b)) b 0) with (up_c s b 0).
      change (cc_c (stepR ly s (DivFirst b)) b 0) with (cc_c s b 0).
      change (cp_c (stepR ly s (DivFirst b)) b 0) with (cp_c s b 0).
      change (lo_c (stepR ly s (DivFirst b)) b 0) with 0.
      rewrite (up_c_zero _ _ _ HU), (cp_c_zero _ _ _ HCP), (cc_c_zero _ _ _ HCC).
      cbn [step dg]. unfold first. replace (cs ly b + 0)%nat with (cs ly b) by lia. upds. repeat split; lra.
  Qed.

  Lemma M_SubLower s b k : pre ly tp s (SubLower b k) -> Mstore s -> Mstore (stepR ly s (SubLower b k)).
  Proof.
    intros (Hb & Hk & _) M. pose proof M as [MR _].
    destruct (MR b k Hb ltac:(lia)) as (R1 & R2 & R3 & R4 & R5).
    apply (M_row_op s _ b k); try assumption; try lia.
    - intros i Hi. cbn [step dg lw up]. upds. auto.
    - intros b' k' _. unfold cc_c, cp_c. cbn [step cc cp]. auto.
    - intros j. cbn [step bd wc wp]. auto.
    - unfold rowdom.
      change (up_c (stepR ly s (SubLower b k)) b k) with (up_c s b k).
      change (cc_c (stepR ly s (SubLower b k)) b k) with (cc_c s b k).
      change (cp_c (stepR ly s (SubLower b k)) b k) with (cp_c s b k).
      assert (E1 : lo_c (stepR ly s (SubLower b k)) b k = 0).
      { rewrite lo_c_pos by lia. cbn [step lw]. upds. reflexivity. }
      rewrite E1. cbn [step dg]. repeat split; lra.
  Qed.

  Lemma M_ParentLower s b j : pre ly tp s (ParentLower b j) -> Mstore s ->
    dg s (last ly b) <> 0 /\ Mstore (stepR ly s (ParentLower b j)).
  Proof.
    intros (Hb & Hc & HL & HU & HCC & HCP) M. pose proof M as [MR MB]. pose proof (wf_nc _ _ W b Hb) as Hnc.
    destruct (wf_cbp _ _ W b j Hb Hc) as [Hj Hpar].
    assert (El : last ly b = (cs ly b + (nc ly b - 1))%nat) by (unfold last; lia).
    destruct (MR b (nc ly b - 1)%nat Hb ltac:(lia)) as (_ & _ & _ & _ & R5).
    rewrite (up_c_zero _ _ _ HU), (cp_c_zero _ _ _ HCP), (cc_c_zero _ _ _ HCC), (lo_c_zero _ _ _ HL) in R5.
    rewrite El. split; [lra|].
    destruct (MB j Hj) as (B1 & B2 & B3 & B4). rewrite Hpar in B2, B3, B4.
    apply (M_bp_op s _ j); try assumption.
    - intros i. cbn [step dg lw up]. auto.
    - intros b'. cbn [step cc cp]. auto.
    - intros j' Hj' Hne (C1 & C2 & C3 & C4). unfold bpdom. cbn [step bd wc wp].
      assert (Hpj : par tp j' <> b).
      { intros E. destruct (wf_par _ _ W j' Hj') as [_ E2]. rewrite E in E2. congruence. }
      upds. repeat split; auto.
    - unfold bpdom. cbn [step bd wc wp]. rewrite Hpar. upds. repeat split; try lra. exact B1.
  Qed.

  Lemma M_ChildUpper s b j : pre ly tp s (ChildUpper b j) -> Mstore s ->
    bd s j <> 0 /\ Mstore (stepR ly s (ChildUpper b j)).
  Proof.
    intros (Hb & Hp & Hpure & Hwp) M. pose proof M as [MR MB]. pose proof (wf_nc _ _ W b Hb) as Hnc.
    destruct (wf_pbp_kids _ _ W b j Hb Hp) as [Hj Hin].
    destruct (MB j Hj) as (_ & _ & _ & B4). rewrite Hwp in B4. split; [lra|].
    destruct (MR b 0%nat Hb ltac:(lia)) as (R1 & R2 & R3 & R4 & R5).
    apply (M_row_op s _ b 0); try assumption; try lia.
    - intros i Hi. cbn [step dg lw up]. auto.
    - intros b' k' Hne. unfold cc_c, cp_c. cbn [step cc cp]. split; [|reflexivity].
      destruct (Nat.eqb_spec k' 0); [|reflexivity].
      destruct (Nat.eq_dec b' b) as [->|Hnb]; [exfalso; apply Hne; congruence|]. rewrite upd_other by assumption. reflexivity.
    - intros j'. cbn [step bd wc wp]. auto.
    - unfold rowdom.
      change (lo_c (stepR ly s (ChildUpper b j)) b 0) with (lo_c s b 0).
      change (up_c (stepR ly s (ChildUpper b j)) b 0) with (up_c s b 0).
      change (cp_c (stepR ly s (ChildUpper b j)) b 0) with (cp_c s b 0).
      assert (E3 : cc_c (stepR ly s (ChildUpper b j)) b 0 = 0).
      { unfold cc_c. cbn [Nat.eqb]. rewrite Hp. cbn [step cc]. upds. reflexivity. }
      rewrite E3. cbn [step dg]. repeat split; lra.
  Qed.

  (* every operation of an accepted schedule divides by a nonzero number and keeps the property *)
  Lemma M_step s o : pre ly tp s o -> Mstore s -> divisorR ly s o <> 0 /\ Mstore (stepR ly s o).
  Proof.
    destruct o; cbn [divisor]; intros P M.
    - now apply M_Norm.
    - split; [lra | now apply M_ElimUp].
    - now apply M_ChildLower.
    - now apply M_ParentUpper.
    - now apply M_DivFirst.
    - split; [lra | now apply M_SubLower].
    - now apply M_ParentLower.
    - now apply M_ChildUpper.
  Qed.

  Lemma M_run ops : forall fl s fl', gamma fl s -> Mstore s -> check_ops ly tp fl ops = Some fl' ->
    Forall (fun d => d <> 0) (divisorsR ly ops s) /\ Mstore (runR ly ops s).
  Proof.
    induction ops as [|o r IH]; intros fl s fl' G M C.
    - cbn. split; [constructor | exact M].
    - cbn [check_ops] in C. destruct (check_op ly tp fl o) eqn:E; [|discriminate].
      destruct (M_step s o (check_op_pre ly tp fl s o G E) M) as [D M'].
      destruct (IH _ _ _ (aupd_gamma ly fl s o G) M' C) as [D' M''].
      cbn [divisors run fold_left]. split; [constructor; assumption | exact M''].
  Qed.

  Theorem no_zero_divisor ops s0 : check_schedule ly tp ops = true -> Mstore s0 ->
    Forall (fun d => d <> 0) (divisorsR ly ops s0) /\ (forall j, (j < nbp tp)%nat -> bd (runR ly ops s0) j <> 0).
  Proof.
    unfold check_schedule. intros C M. apply andb_true_iff in C. destruct C as [_ C].
    destruct (check_ops ly tp flags0 ops) as [fl|] eqn:E; [|discriminate].
    destruct (M_run ops flags0 s0 fl (gamma0 s0) M E) as [D [_ MB]]. split; [exact D|].
    intros j Hj. destruct (MB j Hj) as (_ & B2 & _ & B4). lra.
  Qed.
End Positive.
