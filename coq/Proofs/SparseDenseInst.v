(* The hypotheses of SparseDense.dense_row_is_sp_row hold for every structure meeting the decidable conditions (hence
   for every cell and network): no edge is a self-loop and every source is one of the ncomp + nbp nodes.  So the dense
   matrix the harness compares with the code, applied to z, IS the left-hand side of the graph equations. *)
From Coq Require Import Reals List Arith Bool Lia Lra.
From JV Require Import HinesArr HinesCheck HinesArrFacts HinesArrPositive AsmStruct AssembleM AssembleGraph GraphMax SparseAsm SparseFacts SparseDense.
Import ListNotations.
Local Open Scope R_scope.

Section EdgesOk.
  Variables (ly : layout) (tp : topo).
  Hypothesis W : wf ly tp.
  Variables (mask : nat -> nat) (ncomp : nat) (es : list (edge R)) (group child_inds par_inds : list nat).
  Hypothesis G : graph_struct ly tp mask ncomp es group child_inds par_inds.
  Hypothesis B : graph_struct_bp ly mask ncomp es group child_inds par_inds.
  Hypothesis Hty : forall e, In e es -> (e_type R e <= 4)%nat.
  Let St := gs_asm _ _ _ _ _ _ _ _ G.
  Notation src := (e_source R).
  Notation snk := (e_sink R).
  Notation ty := (e_type R).

  Lemma edges_ok e : In e es -> src e <> snk e /\ (src e < ncomp + nbp tp)%nat.
  Proof.
    intros He. pose proof (Hty e He) as H4. destruct (le_lt_dec (ty e) 2) as [H2|H2].
    - pose proof (gs_sink _ _ _ _ _ _ _ _ G e He H2) as Hs.
      assert (Hin : into (snk e) e = true) by (unfold into; rewrite Nat.eqb_refl; destruct (Nat.leb_spec (ty e) 2); [reflexivity | lia]).
      destruct (comp_edge_source ly tp W mask ncomp es group child_inds par_inds G ltac:(lia) (snk e) e He Hin) as [Hc|(j & Hj & Ej)].
      + split; [|lia]. destruct (Nat.eq_dec (ty e) 0) as [E0|N0]; [apply (gs_src0 _ _ _ _ _ _ _ _ G e He E0)|].
        (* types 1, 2 have a branch point as source: not < ncomp *)
        exfalso. destruct (Nat.eq_dec (ty e) 1) as [E1|N1].
        * destruct (in_of_type es 1 e He E1) as (idx & Hi & <-). rewrite (as_len1 _ _ _ _ _ _ _ St) in Hi.
          rewrite (gs_src1 _ _ _ _ _ _ _ _ G idx Hi) in Hc. lia.
        * assert (E2 : ty e = 2%nat) by lia. destruct (in_of_type es 2 e He E2) as (idx & Hi & <-). rewrite (as_len2 _ _ _ _ _ _ _ St) in Hi.
          rewrite (gs_src2 _ _ _ _ _ _ _ _ G idx Hi) in Hc. lia.
      + split; lia.
    - pose proof (bp_sink ly tp mask ncomp es group child_inds par_inds G B Hty e He ltac:(lia)) as Hk.
      assert (Hin : bp_into ncomp (snk e - ncomp) e = true).
      { unfold bp_into, is_type. replace (ncomp + (snk e - ncomp))%nat with (snk e) by lia. rewrite Nat.eqb_refl.
        destruct (Nat.eqb_spec (ty e) 3); [reflexivity|]. destruct (Nat.eqb_spec (ty e) 4); [reflexivity | lia]. }
      pose proof (bp_edge_source ly tp mask ncomp es group child_inds par_inds G B (snk e - ncomp) e He Hin). split; lia.
  Qed.

  (* the dense matrix of Model/SparseAsm.v applied to z = the row form = (SparseFacts) the graph equations *)
  Theorem dense_rows_of_the_structure vt dt z i : (i < ncomp + nbp tp)%nat ->
    rsum (fun j => sp_entry R Rplus Rminus Rmult 0 1 ncomp es vt dt i j * z j) (ncomp + nbp tp) = sp_row R Rplus Rminus Rmult 0 1 ncomp es vt dt z i.
  Proof.
    intros Hi. apply dense_row_is_sp_row; [intros e He; apply (edges_ok e He) | intros e He; apply (edges_ok e He) | exact Hi].
  Qed.
End EdgesOk.
