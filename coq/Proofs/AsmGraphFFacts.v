(* EVERY NETWORK: for every forest of cells (every non-root branch has a smaller-numbered parent, counts >= 1), every
   edge list whose integer part is the network's edge table (Model/AsmIdxF.v), all positive conductances, non-negative
   membrane terms and dt > 0, the level-ordered padded elimination over the merged levels of all cells divides by
   nothing that vanishes, and its output satisfies the backward-Euler equations of the conductance graph of the
   network and is the ONLY solution of them. *)
From Coq Require Import Reals List Arith Bool Lia Lra.
From JV Require Import HinesArr HinesCheck HinesArrFacts HinesArrPositive HinesIdx HinesTreeFacts HinesIdxFacts HinesForestFacts
     HinesIdxF HinesIdxFFacts AsmStruct AssembleM AssembleTotal AsmIdx AsmIdxFacts AssembleGraph AsmGraphFacts AsmIdxF AsmIdxFFacts.
Import ListNotations.

Section ForestGraph.
  Variables (ps ns : list nat) (rs : list bool).
  Hypothesis nb_pos : 1 <= length ps.
  Hypothesis sortedF : forall b, b < length ps -> is_root rs b = false -> nth b ps 0 < b.
  Hypothesis counts : forall b, b < length ps -> 1 <= nth b ns 0.
  Variable es : list (edge R).
  Hypothesis E : map strip es = triples_ofF ps ns rs.

  Notation nbL := (length ps).
  Notation ly := (layout_ofF ps ns rs).
  Notation tp := (topo_ofF ps rs).
  Notation hk := (has_kidsF ps rs).
  Notation pin := (par_inds_ofF ps rs).
  Notation chi := (child_inds_ofF ps rs).
  Notation n3 := (length pin).
  Notation n4 := (length chi).
  Notation mask := (nthD (mask_ofF ps ns rs)).
  Notation tot := (total ps ns).
  Let W : wf ly tp := idx_wfF ps ns rs nb_pos sortedF counts.

  Lemma ncomp_posF b : b < nbL -> 1 <= ncomp_of ns b.
  Proof. intros H. apply counts, H. Qed.

  Lemma mask_injF c c' : c < tot -> c' < tot -> mask c = mask c' -> c = c'.
  Proof.
    intros Hc Hc' Em. destruct (comp_decomp ps ns nb_pos nbL c Hc) as (b & r & Hb & Hr & ->).
    destruct (comp_decomp ps ns nb_pos nbL c' Hc') as (b' & r' & Hb' & Hr' & ->).
    rewrite !(mask_atF ps ns rs) in Em by assumption.
    pose proof (pl_geF ps ns rs nb_pos b Hb). pose proof (pl_geF ps ns rs nb_pos b' Hb').
    destruct (slot_inj ly tp W b r b' r') as [-> ->]; cbn [nb topo_ofF pl cs layout_ofF]; unfold nbrF, ncomp_ofF in *; unfold ncomp_of in *; try lia.
  Qed.

  Lemma in_triplesF e : In e es -> In (strip e) (triples_ofF ps ns rs).
  Proof. intros H. rewrite <- E. apply in_map, H. Qed.
  Lemma typed_blockF e t : In e es -> e_type R e = t -> In (strip e) (t_of_type t (triples_ofF ps ns rs)).
  Proof.
    intros He Ht. unfold t_of_type. apply filter_In. split; [apply in_triplesF, He|]. unfold t_type, strip. cbn [snd]. rewrite Ht. apply Nat.eqb_refl.
  Qed.

  Lemma type0_shapeF e : In e es -> e_type R e = 0 ->
    exists b r, b < nbL /\ S r < ncomp_of ns b /\
      ((e_source R e = tcs ns b + r /\ e_sink R e = tcs ns b + r + 1) \/ (e_source R e = tcs ns b + r + 1 /\ e_sink R e = tcs ns b + r)).
  Proof.
    intros He Ht. pose proof (typed_blockF e 0 He Ht) as H. rewrite (blockF0 ps ns rs nb_pos) in H.
    destruct (edge0_shape ps ns nb_pos _ H) as (b & r & Hb & Hr & [Eq|Eq]); exists b, r; (split; [exact Hb|]); (split; [exact Hr|]);
      unfold strip in Eq; inversion Eq; [left | right]; auto.
  Qed.

  Lemma slot_ne b r b' r' : b < nbL -> b' < nbL -> r < ncomp_of ns b -> r' < ncomp_of ns b' ->
    cs_ofF ps ns rs b + r = cs_ofF ps ns rs b' + r' -> b = b' /\ r = r'.
  Proof.
    intros Hb Hb' Hr Hr' Eq. pose proof (pl_geF ps ns rs nb_pos b Hb). pose proof (pl_geF ps ns rs nb_pos b' Hb').
    apply (slot_inj ly tp W b r b' r'); cbn [nb topo_ofF pl cs layout_ofF]; unfold nbrF, ncomp_ofF in *; unfold ncomp_of in *; try lia.
  Qed.

  Theorem forest_graph_struct : graph_struct ly tp mask tot es (group_ofF ps rs) chi pin.
  Proof.
    constructor.
    - apply forest_asm_struct; assumption.
    - unfold par_inds_ofF, parents_with_kidsF. apply NoDup_filter_seq.
    - exact mask_injF.
    - intros e He Ht. destruct (Nat.eq_dec (e_type R e) 0) as [E0|N0]; [|destruct (Nat.eq_dec (e_type R e) 1) as [T1|N1]].
      + destruct (type0_shapeF e He E0) as (b & r & Hb & Hr & [[_ ->]|[_ ->]]).
        * replace (tcs ns b + r + 1) with (tcs ns b + (r + 1)) by lia. apply (tcs_lt_total ps ns nb_pos); lia.
        * apply (tcs_lt_total ps ns nb_pos); lia.
      + pose proof (typed_blockF e 1 He T1) as H. rewrite (blockF1 ps ns rs nb_pos sortedF) in H. unfold E1 in H. apply in_map_iff in H.
        destruct H as (j & Eq & Hin). apply in_seq in Hin. unfold strip, mk1 in Eq. injection Eq as _ Hs _.
        destruct (nth_pin ps rs j ltac:(lia)) as (Hp & _ & _).
        rewrite <- Hs. replace (nth j pin 0 + 1) with (S (nth j pin 0)) by lia. rewrite (tcs_S ps ns nb_pos).
        pose proof (ncomp_posF _ Hp). pose proof (tcs_lt_total ps ns nb_pos _ (ncomp_of ns (nth j pin 0) - 1) Hp ltac:(lia)). lia.
      + assert (E2' : e_type R e = 2) by lia. pose proof (typed_blockF e 2 He E2') as H. rewrite (blockF2 ps ns rs nb_pos sortedF) in H. unfold E2 in H. apply in_map_iff in H.
        destruct H as (i & Eq & Hin). apply in_seq in Hin. unfold strip, mk2 in Eq. injection Eq as _ Hs _.
        destruct (nth_chi ps rs i ltac:(lia)) as (Hb & _).
        rewrite <- Hs. replace (tcs ns (nth i chi 0)) with (tcs ns (nth i chi 0) + 0) by lia. apply (tcs_lt_total ps ns nb_pos); [exact Hb | apply ncomp_posF; exact Hb].
    - intros e He E0. destruct (type0_shapeF e He E0) as (b & r & Hb & Hr & [[-> ->]|[-> ->]]); split; try lia.
      + apply (tcs_lt_total ps ns nb_pos); lia.
      + replace (tcs ns b + r + 1) with (tcs ns b + (r + 1)) by lia. apply (tcs_lt_total ps ns nb_pos); lia.
    - intros e He E0 Hlt. destruct (type0_shapeF e He E0) as (b & r & Hb & Hr & [[Es Ek]|[Es Ek]]); [|lia]. rewrite Es, Ek.
      replace (tcs ns b + r + 1) with (tcs ns b + (r + 1)) by lia. rewrite !(mask_atF ps ns rs) by (auto; lia). split; [lia|].
      intros b' Hb' Eq. cbn [cs layout_ofF nb topo_ofF] in *. unfold nbrF in Hb'. pose proof (ncomp_posF b' Hb').
      destruct (slot_ne b (r + 1) b' 0) as [_ X]; try lia.
    - intros e He E0 Hlt. destruct (type0_shapeF e He E0) as (b & r & Hb & Hr & [[Es Ek]|[Es Ek]]); [lia|]. rewrite Es, Ek.
      replace (tcs ns b + r + 1) with (tcs ns b + (r + 1)) by lia. rewrite !(mask_atF ps ns rs) by (auto; lia). split; [lia|].
      intros b' Hb' Eq. cbn [cs nc layout_ofF nb topo_ofF] in *. unfold nbrF in Hb'. pose proof (ncomp_posF b' Hb'). unfold ncomp_ofF in Eq. fold (ncomp_of ns b') in Eq.
      destruct (slot_ne b r b' (ncomp_of ns b' - 1)) as [X Y]; try lia. subst b'. lia.
    - intros idx Hi. rewrite source_of_type, E, (blockF1 ps ns rs nb_pos sortedF), (nth_E1 ps ns rs) by exact Hi. unfold mk1. cbn [fst snd].
      unfold group_ofF. rewrite app_nth1 by (rewrite seq_length; exact Hi). rewrite seq_nth by exact Hi. reflexivity.
    - intros idx Hi. rewrite source_of_type, E, (blockF2 ps ns rs nb_pos sortedF), (nth_E2 ps ns rs) by exact Hi. unfold mk2. cbn [fst snd].
      unfold group_ofF. rewrite app_nth2 by (rewrite seq_length; lia). rewrite seq_length.
      replace (n3 + idx - n3) with idx by lia. reflexivity.
    - intros b j Hb Hc. cbn [nb cbp topo_ofF] in *. unfold nbrF in Hb. destruct (hk b) eqn:Hk; [|discriminate].
      unfold par_inds_ofF, parents_with_kidsF. apply filter_In. split; [apply in_seq; unfold nbrF; lia | exact Hk].
    - intros idx Hi. cbn [nb topo_ofF]. unfold nbrF. apply (nth_pin ps rs idx Hi).
    - intros idx Hi. cbn [nb topo_ofF]. unfold nbrF. apply (nth_chi ps rs idx Hi).
  Qed.

  Theorem forest_graph_struct_bp : graph_struct_bp ly mask tot es (group_ofF ps rs) chi pin.
  Proof.
    constructor.
    - intros idx Hi. rewrite sink_of_type, E, (blockF3 ps ns rs nb_pos sortedF), (nth_E3 ps ns rs) by exact Hi. unfold flip, mk1. cbn [t_sink fst snd].
      unfold group_ofF. rewrite app_nth1 by (rewrite seq_length; exact Hi). rewrite seq_nth by exact Hi. reflexivity.
    - intros idx Hi. rewrite source_of_type, E, (blockF3 ps ns rs nb_pos sortedF), (nth_E3 ps ns rs) by exact Hi. unfold flip, mk1. cbn [t_sink fst snd].
      destruct (nth_pin ps rs idx Hi) as (Hp & _ & _).
      set (p := nth idx pin 0) in *. pose proof (counts p Hp) as Hc. fold (ncomp_of ns p) in Hc.
      replace (p + 1) with (S p) by lia. rewrite (tcs_S ps ns nb_pos).
      replace (tcs ns p + ncomp_of ns p - 1) with (tcs ns p + (ncomp_of ns p - 1)) by lia. split.
      + apply (tcs_lt_total ps ns nb_pos); [exact Hp | lia].
      + rewrite (mask_atF ps ns rs) by (auto; lia). unfold last. cbn [cs nc layout_ofF]. unfold ncomp_ofF, ncomp_of in *. lia.
    - intros idx Hi. rewrite sink_of_type, E, (blockF4 ps ns rs nb_pos sortedF), (nth_E4 ps ns rs) by exact Hi. unfold flip, mk2. cbn [t_sink fst snd].
      unfold group_ofF. rewrite app_nth2 by (rewrite seq_length; lia). rewrite seq_length. replace (n3 + idx - n3) with idx by lia. reflexivity.
    - intros idx Hi. rewrite source_of_type, E, (blockF4 ps ns rs nb_pos sortedF), (nth_E4 ps ns rs) by exact Hi. unfold flip, mk2. cbn [t_sink fst snd].
      destruct (nth_chi ps rs idx Hi) as [Hb _]. set (c := nth idx chi 0) in *. pose proof (counts c Hb) as Hc. fold (ncomp_of ns c) in Hc. split.
      + replace (tcs ns c) with (tcs ns c + 0) by lia. apply (tcs_lt_total ps ns nb_pos); [exact Hb | lia].
      + replace (tcs ns c) with (tcs ns c + 0) by lia. rewrite (mask_atF ps ns rs) by (auto; lia). unfold first. cbn [cs layout_ofF]. lia.
  Qed.

  Lemma forest_slot c : c < tot -> exists b r, b < nb tp /\ r < nc ly b /\ mask c = cs ly b + r.
  Proof.
    intros Hc. destruct (comp_decomp ps ns nb_pos nbL c Hc) as (b & r & Hb & Hr & ->). exists b, r. cbn [nb topo_ofF nc cs layout_ofF]. unfold nbrF.
    split; [exact Hb|]. split; [exact Hr|]. apply mask_atF; assumption.
  Qed.
  Lemma forest_comp b r : b < nb tp -> r < nc ly b -> exists c, c < tot /\ mask c = cs ly b + r.
  Proof.
    cbn [nb topo_ofF nc cs layout_ofF]. unfold nbrF. intros Hb Hr. exists (tcs ns b + r). split; [apply (tcs_lt_total ps ns nb_pos); assumption | apply mask_atF; assumption].
  Qed.
End ForestGraph.

Local Open Scope R_scope.

(* ---- EVERY NETWORK: the implicit step is total and returns THE solution of the assembled system ---- *)
Theorem forest_step_total (ps ns : list nat) (rs : list bool) (es : list (edge R)) (v vt ct : nat -> R) (dt : R) :
  (1 <= length ps)%nat -> (forall b, (b < length ps)%nat -> is_root rs b = false -> (nth b ps 0 < b)%nat) ->
  (forall b, (b < length ps)%nat -> (1 <= nth b ns 0)%nat) ->
  map strip es = triples_ofF ps ns rs ->
  0 < dt -> (forall e, In e es -> 0 < e_g R e) -> (forall i, (i < total ps ns)%nat -> 0 <= vt i) ->
  let ly := layout_ofF ps ns rs in let tp := topo_ofF ps rs in let ops := ops_of_forest ps ns rs in
  let s0 := assemble R Rplus Rminus Rmult 0 1 (nthD (mask_ofF ps ns rs)) (total ps ns) es v vt ct dt
                     (group_ofF ps rs) (child_inds_ofF ps rs) (par_inds_ofF ps rs) in
  let out := sv (runR ly ops s0) in
  Forall (fun d => d <> 0) (divisorsR ly ops s0) /\
  (exists y, sat ly tp s0 out y) /\
  (forall x y, sat ly tp s0 x y -> forall b k, (b < length ps)%nat -> (k < pl ly b)%nat -> x (cs ly b + k)%nat = out (cs ly b + k)%nat).
Proof.
  intros H1 H2 H3 E Hdt Hg Hvt ly tp ops s0 out.
  pose proof (forest_accepted ps ns rs H1 H2 H3) as A.
  assert (W : wf ly tp) by (apply idx_wfF; assumption).
  assert (St : asm_struct ly tp (nthD (mask_ofF ps ns rs)) es (group_ofF ps rs) (child_inds_ofF ps rs) (par_inds_ofF ps rs)) by (apply forest_asm_struct; assumption).
  pose proof (assembled_Mstore ly tp W _ _ es v vt ct dt _ _ _ St Hdt Hg Hvt) as M.
  destruct (no_zero_divisor ly tp W ops s0 A M) as [D B].
  split; [exact D|]. exact (arr_solve_correct ly tp ops s0 A D B).
Qed.

(* ---- EVERY NETWORK: the implicit step solves the backward-Euler equations of the network's conductance graph, uniquely ---- *)
Theorem forest_step_solves_the_graph_equations (ps ns : list nat) (rs : list bool) (es : list (edge R)) (v vt ct : nat -> R) (dt : R) :
  (1 <= length ps)%nat -> (forall b, (b < length ps)%nat -> is_root rs b = false -> (nth b ps 0 < b)%nat) ->
  (forall b, (b < length ps)%nat -> (1 <= nth b ns 0)%nat) ->
  map strip es = triples_ofF ps ns rs ->
  0 < dt -> (forall e, In e es -> 0 < e_g R e) -> (forall i, (i < total ps ns)%nat -> 0 <= vt i) ->
  let ly := layout_ofF ps ns rs in let tp := topo_ofF ps rs in let ops := ops_of_forest ps ns rs in
  let mask := nthD (mask_ofF ps ns rs) in let n := total ps ns in
  let s0 := assemble R Rplus Rminus Rmult 0 1 mask n es v vt ct dt (group_ofF ps rs) (child_inds_ofF ps rs) (par_inds_ofF ps rs) in
  let out := sv (runR ly ops s0) in
  (exists y, graph_eq ly tp mask n es v vt ct dt out y) /\
  (forall x y, graph_eq ly tp mask n es v vt ct dt x y ->
     forall b k, (b < length ps)%nat -> (k < pl ly b)%nat -> x (cs ly b + k)%nat = out (cs ly b + k)%nat).
Proof.
  intros H1 H2 H3 E Hdt Hg Hvt ly tp ops mask n s0 out.
  assert (W : wf ly tp) by (apply idx_wfF; assumption).
  assert (G : graph_struct ly tp mask n es (group_ofF ps rs) (child_inds_ofF ps rs) (par_inds_ofF ps rs)) by (apply forest_graph_struct; assumption).
  assert (B : graph_struct_bp ly mask n es (group_ofF ps rs) (child_inds_ofF ps rs) (par_inds_ofF ps rs)) by (apply forest_graph_struct_bp; assumption).
  pose proof (sat_iff_graph ly tp W mask n es v vt ct dt _ _ _ G B ltac:(apply forest_slot; assumption) ltac:(apply forest_comp; assumption)) as Eq.
  destruct (forest_step_total ps ns rs es v vt ct dt H1 H2 H3 E Hdt Hg Hvt) as (_ & (y & Hs) & Hu).
  split.
  - exists y. apply Eq. exact Hs.
  - intros x y' Hx. apply (Hu x y'). apply Eq. exact Hx.
Qed.

