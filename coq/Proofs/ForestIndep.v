(* C12 at the array level, for EVERY network: two networks with the same integer structure whose data (previous
   voltages, membrane terms, conductances of the edges ending there) agree on an edge-closed set S of nodes produce
   the same voltages on S after an implicit step - whatever is changed in the other cells. *)
From Coq Require Import Reals List Arith Bool Lia Lra.
From JV Require Import HinesArr HinesCheck HinesArrFacts HinesArrPositive HinesIdx HinesIdxF HinesIdxFFacts AsmStruct AssembleM AssembleTotal AsmIdx AsmIdxFacts
     AssembleGraph AsmGraphFacts AsmIdxF AsmIdxFFacts AsmGraphFFacts GraphIndep.
Import ListNotations.
Local Open Scope R_scope.

Theorem network_parts_independent (ps ns : list nat) (rs : list bool) (es es' : list (edge R)) (v vt ct v' vt' ct' : nat -> R) (dt : R) (inS : nat -> bool) :
  (1 <= length ps)%nat -> (forall b, (b < length ps)%nat -> is_root rs b = false -> (nth b ps 0 < b)%nat) ->
  (forall b, (b < length ps)%nat -> (1 <= nth b ns 0)%nat) ->
  map strip es = triples_ofF ps ns rs -> map strip es' = triples_ofF ps ns rs ->
  0 < dt -> (forall e, In e es -> 0 < e_g R e) -> (forall e, In e es' -> 0 < e_g R e) ->
  (forall i, (i < total ps ns)%nat -> 0 <= vt i) -> (forall i, (i < total ps ns)%nat -> 0 <= vt' i) ->
  Forall2 (fun e e' => strip e = strip e' /\ inS (e_source R e) = inS (e_sink R e) /\ (inS (e_sink R e) = true -> e_g R e = e_g R e')) es es' ->
  (forall c, (c < total ps ns)%nat -> inS c = true -> v c = v' c /\ vt c = vt' c /\ ct c = ct' c) ->
  let ly := layout_ofF ps ns rs in let ops := ops_of_forest ps ns rs in
  let mask := nthD (mask_ofF ps ns rs) in let n := total ps ns in
  let s0 := assemble R Rplus Rminus Rmult 0 1 mask n es v vt ct dt (group_ofF ps rs) (child_inds_ofF ps rs) (par_inds_ofF ps rs) in
  let s0' := assemble R Rplus Rminus Rmult 0 1 mask n es' v' vt' ct' dt (group_ofF ps rs) (child_inds_ofF ps rs) (par_inds_ofF ps rs) in
  forall b k, (b < length ps)%nat -> (k < ncomp_of ns b)%nat -> inS (tcs ns b + k)%nat = true ->
  sv (runR ly ops s0) (cs_ofF ps ns rs b + k)%nat = sv (runR ly ops s0') (cs_ofF ps ns rs b + k)%nat.
Proof.
  intros H1 H2 H3 E E' Hdt Hg Hg' Hvt Hvt' Same Agree ly ops mask n s0 s0' b k Hb Hk Hs.
  destruct (forest_step_solves_the_graph_equations ps ns rs es v vt ct dt H1 H2 H3 E Hdt Hg Hvt) as [(y & Sol) U].
  destruct (forest_step_solves_the_graph_equations ps ns rs es' v' vt' ct' dt H1 H2 H3 E' Hdt Hg' Hvt') as [(y' & Sol') _].
  assert (Hc : (tcs ns b + k < n)%nat) by (apply (tcs_lt_total ps ns H1); assumption).
  pose proof (parts_independent ly (topo_ofF ps rs) mask n es es' v vt ct v' vt' ct' dt inS
                (mask_injF ps ns rs H1 H2 H3) Same Agree _ y _ y' Sol Sol') as P.
  rewrite <- (mask_atF ps ns rs b k Hb Hk). apply P; [| |exact Hc|exact Hs].
  - intros c Hcc. destruct (forest_slot ps ns rs H1 c Hcc) as (b0 & r & Hb0 & Hr & Em). exists b0, r. split; [exact Hb0|]. split; [|exact Em].
    cbn [nb topo_ofF] in Hb0. unfold nbrF in Hb0. pose proof (pl_geF ps ns rs H1 b0 Hb0). unfold ly in *. cbn [nc pl layout_ofF] in *. lia.
  - intros x1 y1 x2 y2 S1 S2 b0 k0 Hb0 Hk0. cbn [nb topo_ofF] in Hb0. unfold nbrF in Hb0.
    pose proof (U x1 y1 S1 b0 k0 Hb0 Hk0) as A1. pose proof (U x2 y2 S2 b0 k0 Hb0 Hk0) as A2. unfold ly in *. rewrite A1, A2. reflexivity.
Qed.
