(* The assembled cable system is an M-matrix-like tree system for positive parameters
   (hence has exactly one solution, which the tree elimination returns), and its
   coefficients are the regenerated Layer-G conductance formulas. *)
From Coq Require Import Reals Lra Lia List ZArith Bool Arith.
From JV Require Import Prim TreeSolve TreeSolveFacts Cable GCellUtils.
Import ListNotations.
Local Open Scope R_scope.

Notation compR := (comp R).
Notation cond_c2cR := (cond_c2c R Rmult Rdiv Rplus IZR) (only parsing).
Definition c2c (snk src : compR) : R := cond_c2c R Rplus Rmult Rdiv IZR snk src.
Definition bp2c (c : compR) : R := cond_bp2c R Rmult Rdiv IZR c.
Definition wbp (c : compR) : R := weight_c2bp R Rmult Rdiv IZR c.
Notation chainR := (chain R Rplus Rminus Rmult Rdiv IZR).
Notation buildR := (build R Rplus Rminus Rmult Rdiv IZR).
Notation root_treeR := (root_tree R Rplus Rminus Rmult Rdiv IZR).

(* ---- tie to Layer G: the model's conductances are the traced formulas --------------- *)
Lemma c2c_is_traced snk src :
  c2c snk src = coupling_cond__g (c_r R snk) (c_r R src) (c_ra R snk) (c_ra R src) (c_l R snk) (c_l R src) / c_cm R snk.
Proof.
  unfold c2c, cond_c2c, sq, coupling_cond__g. cbv zeta.
  replace (10 ^ 7) with 10000000 by (simpl; ring). simpl pow. rewrite !Rmult_1_r. reflexivity.
Qed.
Lemma bp2c_is_traced c :
  bp2c c = coupling_cond_branchpoint__g (c_r R c) (c_ra R c) (c_l R c) / c_cm R c.
Proof.
  unfold bp2c, cond_bp2c, sq, coupling_cond_branchpoint__g. cbv zeta.
  replace (10 ^ 7) with 10000000 by (simpl; ring). simpl pow. rewrite !Rmult_1_r. reflexivity.
Qed.
Lemma wbp_is_traced c :
  wbp c = impact_on_node__g (c_r R c) (c_ra R c) (c_l R c) * 1000.
Proof.
  unfold wbp, weight_c2bp, sq, impact_on_node__g. cbv zeta. simpl pow. rewrite !Rmult_1_r. reflexivity.
Qed.

(* ---- positivity ------------------------------------------------------------------- *)
Definition comp_pos (c : compR) : Prop :=
  0 < c_r R c /\ 0 < c_l R c /\ 0 < c_ra R c /\ 0 < c_cm R c /\ 0 <= c_vt R c.

Ltac posR := repeat (first [ lra | apply Rdiv_lt_0_compat | apply Rinv_0_lt_compat | apply Rmult_lt_0_compat | apply Rplus_lt_0_compat ]).

Lemma c2c_pos a b : comp_pos a -> comp_pos b -> 0 < c2c a b.
Proof.
  intros (? & ? & ? & ? & ?) (? & ? & ? & ? & ?). unfold c2c, cond_c2c, sq. posR.
Qed.
Lemma bp2c_pos a : comp_pos a -> 0 < bp2c a.
Proof. intros (? & ? & ? & ? & ?). unfold bp2c, cond_bp2c, sq. posR. Qed.
Lemma wbp_pos a : comp_pos a -> 0 < wbp a.
Proof. intros (? & ? & ? & ? & ?). unfold wbp, weight_c2bp, sq. posR. Qed.

Lemma dummy_pos : comp_pos (dummy R IZR).
Proof. unfold comp_pos, dummy, f0, f1; cbn. repeat split; lra. Qed.

(* ---- the chain of one branch ---------------------------------------------------------- *)
Lemma chain_lsum dt cs up lnk dn_last tail :
  cs <> [] -> lsum (chainR dt up lnk cs dn_last tail) = lnk.
Proof.
  destruct cs as [|c rest]; [congruence|]. intros _. cbn [chain]. unfold lsum. cbn [fold_right t_l]. ring.
Qed.

Lemma chain_dominant dt : 0 < dt ->
  forall cs up lnk dn_last tail,
    0 <= up -> lnk <= 0 -> 0 <= dn_last -> Forall comp_pos cs ->
    all_dom tail -> lsum tail = - (dt * dn_last) -> cs <> [] ->
    all_dom (chainR dt up lnk cs dn_last tail) /\ lsum (chainR dt up lnk cs dn_last tail) = lnk.
Proof.
  intros Hdt. induction cs as [|c rest IH]; intros up lnk dn_last tail Hup Hlnk Hdn Hpos Htail Hls Hne; [congruence|].
  split; [|apply chain_lsum; exact Hne].
  inversion Hpos as [|? ? Hc Hrest]; subst.
  destruct Hc as (Hr & Hl & Hra & Hcm & Hvt).
  destruct rest as [|nxt rest'].
  - cbn [chain]. cbn [all_dom]. split; [|exact I]. apply dominant_unfold.
    unfold f0, f1. rewrite Hls.
    split; [nra|]. split; [exact Hlnk|]. split; [nra|]. split; [nra | exact Htail].
  - inversion Hrest as [|? ? Hn Hrest']; subst.
    assert (Hc : comp_pos c) by (repeat split; assumption).
    assert (P1 : 0 < c2c c nxt) by (apply c2c_pos; assumption).
    assert (P2 : 0 < c2c nxt c) by (apply c2c_pos; assumption).
    unfold c2c in P1, P2.
    destruct (IH (cond_c2c R Rplus Rmult Rdiv IZR nxt c)
                 (f0 R IZR - dt * cond_c2c R Rplus Rmult Rdiv IZR c nxt) dn_last tail) as [D L];
      try assumption; try discriminate; try lra.
    { unfold f0. nra. }
    cbn [chain]. cbn [all_dom]. split; [|exact I]. apply dominant_unfold.
    unfold lsum. cbn [fold_right t_l]. unfold f0, f1.
    split; [nra|]. split; [exact Hlnk|]. split; [nra|]. split; [nra | exact D].
Qed.

Lemma all_dom_app a b : all_dom a -> all_dom b -> all_dom (a ++ b).
Proof. induction a; cbn; intros; tauto. Qed.
Lemma lsum_app a b : lsum (a ++ b) = lsum a + lsum b.
Proof. unfold lsum. induction a; cbn; lra. Qed.

(* ---- a whole cell ----------------------------------------------------------------------- *)
Definition well_formed (branches : list (list compR)) : Prop :=
  Forall (fun cs => cs <> [] /\ Forall comp_pos cs) branches.

Lemma nth_branch_ok branches b :
  well_formed branches -> (b < length branches)%nat ->
  nth b branches [] <> [] /\ Forall comp_pos (nth b branches []).
Proof.
  intros H Hb. unfold well_formed in H. rewrite Forall_forall in H. apply H. apply nth_In. exact Hb.
Qed.

Lemma first_pos cs : cs <> [] -> Forall comp_pos cs -> comp_pos (first_of R IZR cs).
Proof. destruct cs; [congruence|]. intros _ H. inversion H; assumption. Qed.
Lemma last_pos cs : cs <> [] -> Forall comp_pos cs -> comp_pos (last_of R IZR cs).
Proof.
  intros Hne H. unfold last_of. rewrite Forall_forall in H. apply H.
  destruct cs; [congruence|]. apply exists_last in Hne. destruct Hne as (l' & a & E). rewrite E.
  rewrite last_last. apply in_or_app. right. left. reflexivity.
Qed.

Lemma children_lt parents b k : In k (children parents b) -> (k < length parents)%nat.
Proof. unfold children. intros H. apply filter_In in H. destruct H as [H _]. apply in_seq in H. lia. Qed.

Lemma wsum_fold branches kids w0 :
  fold_left (fun acc k => acc + wbp (first_of R IZR (nth k branches []))) kids w0
  = w0 + fold_right (fun k acc => wbp (first_of R IZR (nth k branches [])) + acc) 0 kids.
Proof.
  revert w0. induction kids as [|k kids IH]; intros w0; cbn; [ring|]. rewrite IH. ring.
Qed.

Definition sorted (parents : list nat) : Prop :=
  forall k, (0 < k < length parents)%nat -> (nth k parents 0 < k)%nat.

Lemma children_gt parents b k : sorted parents -> In k (children parents b) -> (b < k)%nat.
Proof.
  intros Hs H. pose proof (children_lt _ _ _ H) as Hl.
  unfold children in H. apply filter_In in H. destruct H as [_ H].
  apply andb_true_iff in H. destruct H as [H0 H1].
  apply Nat.ltb_lt in H0. apply Nat.eqb_eq in H1. specialize (Hs k (conj H0 Hl)). lia.
Qed.

Theorem build_dominant dt parents branches :
  0 < dt -> well_formed branches -> length parents = length branches -> sorted parents ->
  forall fuel b has_parent, (b < length branches)%nat -> (length branches - b <= fuel)%nat ->
    all_dom (buildR fuel parents branches dt b has_parent) /\
    lsum (buildR fuel parents branches dt b has_parent)
    = (if has_parent then - wbp (first_of R IZR (nth b branches [])) else 0).
Proof.
  intros Hdt Hwf Hlen Hsorted. induction fuel as [|fuel IH]; intros b hp Hb Hf; [lia|].
  destruct (nth_branch_ok branches b Hwf Hb) as [Hne Hpos].
  pose proof (first_pos _ Hne Hpos) as Hfirst. pose proof (last_pos _ Hne Hpos) as Hlast.
  cbn [build].
  set (cs := nth b branches []) in *.
  assert (Hk : forall k, In k (children parents b) -> (k < length branches)%nat /\ (b < k)%nat).
  { intros k Hin. split; [rewrite <- Hlen; eapply children_lt; exact Hin | eapply children_gt; eauto]. }
  assert (UP : 0 <= (if hp then cond_bp2c R Rmult Rdiv IZR (first_of R IZR cs) else f0 R IZR)).
  { destruct hp; [left; apply (bp2c_pos _ Hfirst) | unfold f0; lra]. }
  assert (LNK : (if hp then f0 R IZR - weight_c2bp R Rmult Rdiv IZR (first_of R IZR cs) else f0 R IZR) <= 0).
  { destruct hp; unfold f0; [pose proof (wbp_pos _ Hfirst) as W; unfold wbp in W; lra | lra]. }
  destruct (children parents b) as [|k0 kids'] eqn:Ekids.
  - destruct (chain_dominant dt Hdt cs _ _ (f0 R IZR) [] UP LNK) as [D L]; try assumption.
    + unfold f0; lra.
    + exact I.
    + unfold lsum, f0; cbn; ring.
    + split; [exact D|]. rewrite L. destruct hp; unfold f0, wbp; ring.
  - set (kl := k0 :: kids') in *.
    assert (SUB : forall l, (forall k, In k l -> (k < length branches)%nat /\ (b < k)%nat) ->
                  all_dom (flat_map (fun k => buildR fuel parents branches dt k true) l) /\
                  lsum (flat_map (fun k => buildR fuel parents branches dt k true) l)
                  = - fold_right (fun k acc => wbp (first_of R IZR (nth k branches [])) + acc) 0 l).
    { induction l as [|k l IHl]; intros Hl; cbn [flat_map fold_right].
      - split; [exact I | unfold lsum; cbn; ring].
      - destruct (Hl k (or_introl eq_refl)) as [K1 K2].
        destruct (IH k true K1) as [A1 A2]; [lia|].
        destruct IHl as [B1 B2]; [intros k' Hk'; apply Hl; right; exact Hk'|].
        split; [apply all_dom_app; assumption|]. rewrite lsum_app, A2, B2. ring. }
    destruct (SUB kl Hk) as [S1 S2].
    pose proof (wbp_pos _ Hlast) as WL. pose proof (bp2c_pos _ Hlast) as BL.
    assert (WK : 0 <= fold_right (fun k acc => wbp (first_of R IZR (nth k branches [])) + acc) 0 kl).
    { clear -Hk Hwf. induction kl as [|k l IHl]; cbn [fold_right]; [lra|].
      destruct (Hk k (or_introl eq_refl)) as [K1 _].
      destruct (nth_branch_ok branches k Hwf K1) as [N1 N2].
      pose proof (wbp_pos _ (first_pos _ N1 N2)).
      assert (0 <= fold_right (fun k acc => wbp (first_of R IZR (nth k branches [])) + acc) 0 l).
      { apply IHl. intros k' Hk'. apply Hk. right. exact Hk'. }
      lra. }
    match goal with
    | |- all_dom (chainR dt ?up ?lnk cs ?dnl ?tail) /\ _ =>
        destruct (chain_dominant dt Hdt cs up lnk dnl tail) as [D L]; try assumption
    end.
    + left. exact BL.
    + cbn [all_dom]. split; [|exact I]. apply dominant_unfold.
      change (fold_left (fun acc k => acc + weight_c2bp R Rmult Rdiv IZR (first_of R IZR (nth k branches []))) kl
                        (weight_c2bp R Rmult Rdiv IZR (last_of R IZR cs)))
        with (fold_left (fun acc k => acc + wbp (first_of R IZR (nth k branches []))) kl (wbp (last_of R IZR cs))).
      rewrite wsum_fold. fold (wbp (last_of R IZR cs)). fold (bp2c (last_of R IZR cs)).
      unfold f0. rewrite S2. repeat split; try lra; try exact S1. nra.
    + unfold lsum. cbn [fold_right t_l]. unfold f0. fold (bp2c (last_of R IZR cs)). ring.
    + split; [exact D|]. rewrite L. destruct hp; unfold f0, wbp; ring.
Qed.

(* the whole cell: for EVERY sorted tree, every compartment-count vector >= 1, all positive
   parameters and dt > 0, the assembled system is dominant, hence the elimination meets no
   zero pivot and returns the unique solution *)
Theorem cable_unique_solution dt parents branches :
  0 < dt -> well_formed branches -> length parents = length branches -> sorted parents ->
  (0 < length branches)%nat ->
  let t := root_treeR parents branches dt in
  dominant t /\
  satisfies t 0 (backsubR t 0) /\ (forall s, satisfies t 0 s -> s = backsubR t 0).
Proof.
  intros Hdt Hwf Hlen Hs Hn t.
  destruct (build_dominant dt parents branches Hdt Hwf Hlen Hs (length parents) O false) as [D _];
    [lia | lia |].
  assert (Dt : dominant t).
  { unfold t, root_tree. destruct (buildR (length parents) parents branches dt 0 false) as [|t0 r] eqn:E.
    - (* impossible: the root branch is non-empty *)
      exfalso. rewrite Hlen in E. destruct (length branches) as [|n] eqn:En; [lia|].
      cbn [build] in E. destruct (nth_branch_ok branches O Hwf) as [N1 _]; [lia|].
      destruct (nth 0 branches []) as [|c rest]; [congruence|].
      cbn [chain] in E. discriminate.
    - cbn [hd]. cbn [all_dom] in D. tauto. }
  split; [exact Dt|]. apply tree_solve_unique_solution. exact Dt.
Qed.

(* ---- the traced conductance formulas are the physical ones ---------------------------- *)
(* absolute axial resistance of half a compartment: r_a * (l/2) / (pi r^2);  membrane area 2 pi r l *)
Definition half_res (r ra l : R) : R := ra * (l / 2) / (PI * r ^ 2).
Definition area (r l : R) : R := 2 * PI * r * l.

Lemma coupling_cond_physical r1 r2 ra1 ra2 l1 l2 :
  0 < r1 -> 0 < r2 -> 0 < ra1 -> 0 < ra2 -> 0 < l1 -> 0 < l2 ->
  coupling_cond__g r1 r2 ra1 ra2 l1 l2 * area r1 l1
  = 10 ^ 7 * (1 / (half_res r1 ra1 l1 + half_res r2 ra2 l2)).
Proof.
  intros. pose proof PI_RGT_0. unfold coupling_cond__g, area, half_res. cbv zeta.
  assert (ra1 * r2 ^ 2 * l1 + ra2 * r1 ^ 2 * l2 <> 0).
  { assert (0 < ra1 * r2 ^ 2 * l1 + ra2 * r1 ^ 2 * l2); [|lra].
    apply Rplus_lt_0_compat; repeat apply Rmult_lt_0_compat; try lra; apply pow_lt; lra. }
  field. repeat split; try lra.
Qed.
Lemma coupling_cond_branchpoint_physical r ra l :
  0 < r -> 0 < ra -> 0 < l ->
  coupling_cond_branchpoint__g r ra l * area r l = 10 ^ 7 * (1 / half_res r ra l).
Proof.
  intros. pose proof PI_RGT_0. unfold coupling_cond_branchpoint__g, area, half_res. cbv zeta.
  field. repeat split; lra.
Qed.
(* the branch-point weights are the same multiple (1/(2 pi)) of the absolute conductances *)
Lemma impact_on_node_physical r ra l :
  0 < r -> 0 < ra -> 0 < l ->
  impact_on_node__g r ra l = (1 / (2 * PI)) * (1 / half_res r ra l).
Proof.
  intros. pose proof PI_RGT_0. unfold impact_on_node__g, half_res. cbv zeta. field. repeat split; lra.
Qed.

Lemma c01_example :
  let c := mkcomp R 1 10 5000 1 (-70) (1/10) (-7) in
  let branches := [[c; c]; [c]; [c; c; c]; [c; c]; [c; c]] in
  well_formed branches /\ sorted [0; 0; 0; 1; 1]%nat /\ length [0; 0; 0; 1; 1]%nat = length branches.
Proof.
  intros c branches.
  assert (P : comp_pos c) by (unfold comp_pos, c; cbn; repeat split; lra).
  split; [|split; [|reflexivity]].
  - unfold well_formed, branches.
    repeat (apply Forall_cons; [split; [discriminate | repeat (apply Forall_cons; [exact P|]); apply Forall_nil]|]).
    apply Forall_nil.
  - intros k [H0 H1]. cbn in H1.
    destruct k as [|[|[|[|[|k]]]]]; cbn; lia.
Qed.
