(* Correctness of the array-level solver model (Model/HinesArr.v), C01.

   Every elementary operation of the schedule is a row operation on the linear system the
   arrays represent, PROVIDED certain entries are zero at that moment.  [check] tracks, for
   the concrete schedule that the code's index structure induces, which entries are known
   to be zero / one and verifies the side condition of every operation and that at the end
   every compartment row reads "1 * x = solves".  Theorem [arr_solve_correct]: if the
   checker accepts and no operation divides by zero, then FOR ALL values in the arrays the
   output is the unique solution of the system the arrays represented initially.  The
   checker is evaluated (vm_compute) in every run on the index structures the running code
   built for the sampled modules. *)
From Coq Require Import Reals List Arith Bool Lia Lra.
From JV Require Import HinesArr HinesCheck.
Import ListNotations.
Local Open Scope R_scope.

Notation storeR := (store R).
Notation stepR := (step R Rplus Rminus Rmult Rdiv 0 1).
Notation runR := (run R Rplus Rminus Rmult Rdiv 0 1).
Notation divisorR := (divisor R 1).
Notation divisorsR := (divisors R Rplus Rminus Rmult Rdiv 0 1).
Notation updR := (upd R).

(* ------------------------------------------------------------------------------------ *)
Record wf (ly : layout) (tp : topo) : Prop := mkwf {
  wf_nc : forall b, (b < nb tp)%nat -> (1 <= nc ly b <= pl ly b)%nat;
  wf_mono : forall b, (S b < nb tp)%nat -> (cs ly b + pl ly b <= cs ly (S b))%nat;
  wf_kids_nodup : forall j, (j < nbp tp)%nat -> NoDup (kids tp j);
  wf_kids_pbp : forall j c, (j < nbp tp)%nat -> In c (kids tp j) -> (c < nb tp)%nat /\ pbp tp c = Some j;
  wf_pbp_kids : forall c j, (c < nb tp)%nat -> pbp tp c = Some j -> (j < nbp tp)%nat /\ In c (kids tp j);
  wf_par : forall j, (j < nbp tp)%nat -> (par tp j < nb tp)%nat /\ cbp tp (par tp j) = Some j;
  wf_cbp : forall b j, (b < nb tp)%nat -> cbp tp b = Some j -> (j < nbp tp)%nat /\ par tp j = b
}.

Lemma mono_lt ly tp : wf ly tp -> forall b b', (b < b')%nat -> (b' < nb tp)%nat -> (cs ly b + pl ly b <= cs ly b')%nat.
Proof.
  intros W b b' Hlt. induction b' as [|b' IH]; intros Hb'; [lia|].
  destruct (Nat.eq_dec b b') as [->|Hne].
  - apply (wf_mono _ _ W); lia.
  - assert (Hb : (b < b')%nat) by lia. specialize (IH Hb ltac:(lia)).
    pose proof (wf_mono _ _ W b' Hb'). lia.
Qed.

Lemma slot_inj ly tp : wf ly tp -> forall b k b' k',
  (b < nb tp)%nat -> (k < pl ly b)%nat -> (b' < nb tp)%nat -> (k' < pl ly b')%nat ->
  (cs ly b + k = cs ly b' + k')%nat -> b = b' /\ k = k'.
Proof.
  intros W b k b' k' Hb Hk Hb' Hk' E.
  destruct (lt_eq_lt_dec b b') as [[Hlt|Heq]|Hgt]; [| subst b' |].
  - pose proof (mono_lt _ _ W b b' Hlt Hb'). lia.
  - split; lia.
  - pose proof (mono_lt _ _ W b' b Hgt Hb). lia.
Qed.

(* ------------------------------------------------------------------------------------ *)
(* the linear system the arrays represent *)
Fixpoint sumf (f : nat -> R) (l : list nat) : R :=
  match l with [] => 0 | c :: r => f c + sumf f r end.

Section Sat.
  Variables (ly : layout) (tp : topo).

  Definition lo_term (s : storeR) (x : nat -> R) (b k : nat) : R :=
    if (k =? 0)%nat then 0 else lw s (cs ly b + k)%nat * x (cs ly b + k - 1)%nat.
  Definition up_term (s : storeR) (x : nat -> R) (b k : nat) : R :=
    if (S k <? pl ly b)%nat then up s (cs ly b + k)%nat * x (S (cs ly b + k)) else 0.
  Definition cc_term (s : storeR) (y : nat -> R) (b k : nat) : R :=
    if (k =? 0)%nat then match pbp tp b with Some j => cc s b * y j | None => 0 end else 0.
  Definition cp_term (s : storeR) (y : nat -> R) (b k : nat) : R :=
    if (k =? nc ly b - 1)%nat then match cbp tp b with Some j => cp s b * y j | None => 0 end else 0.

  Definition row_lhs (s : storeR) (x y : nat -> R) (b k : nat) : R :=
    dg s (cs ly b + k)%nat * x (cs ly b + k)%nat + lo_term s x b k + up_term s x b k + cc_term s y b k + cp_term s y b k.
  Definition row_eq (s : storeR) (x y : nat -> R) (b k : nat) : Prop :=
    row_lhs s x y b k = sv s (cs ly b + k)%nat.

  Definition bp_lhs (s : storeR) (x y : nat -> R) (j : nat) : R :=
    bd s j * y j + sumf (fun c => wc s c * x (first ly c)) (kids tp j) + wp s (par tp j) * x (last ly (par tp j)).
  Definition bp_eq (s : storeR) (x y : nat -> R) (j : nat) : Prop := bp_lhs s x y j = bs s j.

  Definition sat (s : storeR) (x y : nat -> R) : Prop :=
    (forall b k, (b < nb tp)%nat -> (k < pl ly b)%nat -> row_eq s x y b k) /\
    (forall j, (j < nbp tp)%nat -> bp_eq s x y j).

  (* ---- side conditions of the operations, as facts about the store ---- *)
  Definition Uz (s : storeR) (b k : nat) : Prop := (S k < pl ly b)%nat -> up s (cs ly b + k)%nat = 0.
  Definition Lz (s : storeR) (b k : nat) : Prop := (k <> 0)%nat -> lw s (cs ly b + k)%nat = 0.
  Definition CCz (s : storeR) (b k : nat) : Prop := k = 0%nat -> forall j, pbp tp b = Some j -> cc s b = 0.
  Definition CPz (s : storeR) (b k : nat) : Prop := k = (nc ly b - 1)%nat -> forall j, cbp tp b = Some j -> cp s b = 0.
  Definition bp_pure_kids (s : storeR) (j : nat) : Prop := forall c, In c (kids tp j) -> wc s c = 0.

  Definition pre (s : storeR) (o : op) : Prop :=
    match o with
    | Norm b k => (b < nb tp)%nat /\ (1 <= k < pl ly b)%nat /\ Uz s b k /\ CPz s b k
    | ElimUp b k => (b < nb tp)%nat /\ (S k < pl ly b)%nat /\
                    dg s (S (cs ly b + k)) = 1 /\ Uz s b (S k) /\ CPz s b (S k)
    | ChildLower b j => (b < nb tp)%nat /\ pbp tp b = Some j /\ Uz s b 0 /\ CPz s b 0
    | ParentUpper b j => (b < nb tp)%nat /\ cbp tp b = Some j /\ bp_pure_kids s j
    | DivFirst b => (b < nb tp)%nat /\ Uz s b 0 /\ CCz s b 0 /\ CPz s b 0
    | SubLower b k => (b < nb tp)%nat /\ (1 <= k < pl ly b)%nat /\
                      dg s (cs ly b + k - 1)%nat = 1 /\ Lz s b (k - 1) /\ Uz s b (k - 1) /\ CCz s b (k - 1) /\ CPz s b (k - 1)
    | ParentLower b j => (b < nb tp)%nat /\ cbp tp b = Some j /\
                         Lz s b (nc ly b - 1) /\ Uz s b (nc ly b - 1) /\ CCz s b (nc ly b - 1) /\ CPz s b (nc ly b - 1)
    | ChildUpper b j => (b < nb tp)%nat /\ pbp tp b = Some j /\ bp_pure_kids s j /\ wp s (par tp j) = 0
    end.
End Sat.

(* ------------------------------------------------------------------------------------ *)
(* generic algebra *)
Lemma combo_iff (A B C D A' B' f : R) :
  A' - B' = (A - B) - f * (C - D) -> C = D -> (A = B <-> A' = B').
Proof. intros H E. subst D. replace (C - C) with 0 in H by ring. split; intros; lra. Qed.

Lemma scale_iff (A B A' B' p : R) :
  p <> 0 -> A' - B' = (A - B) / p -> (A = B <-> A' = B').
Proof.
  intros Hp H. split; intros E.
  - subst. replace (B - B) with 0 in H by ring. unfold Rdiv in H. rewrite Rmult_0_l in H. lra.
  - assert (Z : (A - B) / p = 0) by (rewrite <- H; lra).
    assert (A - B = 0); [|lra].
    replace (A - B) with ((A - B) / p * p) by (field; exact Hp). rewrite Z. ring.
Qed.

Lemma upd_same (f : nat -> R) i v : updR f i v i = v.
Proof. unfold upd. now rewrite Nat.eqb_refl. Qed.
Lemma upd_other (f : nat -> R) i v j : j <> i -> updR f i v j = f j.
Proof. intros H. unfold upd. apply Nat.eqb_neq in H. now rewrite H. Qed.

Lemma sumf_ext f g l : (forall c, In c l -> f c = g c) -> sumf f l = sumf g l.
Proof. induction l as [|c r IH]; simpl; intros H; [reflexivity|]. rewrite H by now left. rewrite IH; [reflexivity|]. intros; apply H; now right. Qed.

Lemma sumf_upd (w g : nat -> R) b l : NoDup l -> In b l ->
  sumf (fun c => updR w b 0 c * g c) l = sumf (fun c => w c * g c) l - w b * g b.
Proof.
  induction l as [|c r IH]; simpl; intros ND Hin; [contradiction|].
  inversion ND as [|? ? Hnotin ND']; subst.
  destruct Hin as [->|Hin].
  - rewrite upd_same. rewrite (sumf_ext (fun c => updR w b 0 c * g c) (fun c => w c * g c) r).
    + ring.
    + intros c Hc. rewrite upd_other; [reflexivity|]. intros ->; contradiction.
  - rewrite IH by assumption. rewrite upd_other; [ring|]. intros ->; contradiction.
Qed.

Lemma sumf_zero f l : (forall c, In c l -> f c = 0) -> sumf f l = 0.
Proof. induction l as [|c r IH]; simpl; intros H; [reflexivity|]. rewrite H by now left. rewrite IH; [ring|]. intros; apply H; now right. Qed.

(* ------------------------------------------------------------------------------------ *)
(* frame lemmas *)
Section Frame.
  Variables (ly : layout) (tp : topo).
  Hypothesis W : wf ly tp.

  Lemma up_term_zero s x b k : Uz ly s b k -> up_term ly s x b k = 0.
  Proof. unfold Uz, up_term. intros H. destruct (S k <? pl ly b)%nat eqn:E; [|reflexivity]. apply Nat.ltb_lt in E. rewrite (H E). ring. Qed.
  Lemma lo_term_zero s x b k : Lz ly s b k -> lo_term ly s x b k = 0.
  Proof. unfold Lz, lo_term. intros H. destruct (k =? 0)%nat eqn:E; [reflexivity|]. apply Nat.eqb_neq in E. rewrite (H E). ring. Qed.
  Lemma cc_term_zero s y b k : CCz tp s b k -> cc_term tp s y b k = 0.
  Proof. unfold CCz, cc_term. intros H. destruct (k =? 0)%nat eqn:E; [|reflexivity]. apply Nat.eqb_eq in E.
         destruct (pbp tp b) as [j|] eqn:P; [|reflexivity]. rewrite (H E j eq_refl). ring. Qed.
  Lemma cp_term_zero s y b k : CPz ly tp s b k -> cp_term ly tp s y b k = 0.
  Proof. unfold CPz, cp_term. intros H. destruct (k =? nc ly b - 1)%nat eqn:E; [|reflexivity]. apply Nat.eqb_eq in E.
         destruct (cbp tp b) as [j|] eqn:P; [|reflexivity]. rewrite (H E j eq_refl). ring. Qed.
  Lemma cc_term_k s y b k : k <> 0%nat -> cc_term tp s y b k = 0.
  Proof. unfold cc_term. intros H. apply Nat.eqb_neq in H. now rewrite H. Qed.
  Lemma lo_term_0 s x b : lo_term ly s x b 0 = 0.
  Proof. reflexivity. Qed.
  Lemma lo_term_S s x b k : lo_term ly s x b (S k) = lw s (S (cs ly b + k)) * x (cs ly b + k)%nat.
  Proof. unfold lo_term. cbn [Nat.eqb]. replace (cs ly b + S k)%nat with (S (cs ly b + k)) by lia.
         replace (S (cs ly b + k) - 1)%nat with (cs ly b + k)%nat by lia. reflexivity. Qed.
  Lemma up_term_lt s x b k : (S k < pl ly b)%nat -> up_term ly s x b k = up s (cs ly b + k)%nat * x (S (cs ly b + k)).
  Proof. intros H. unfold up_term. apply Nat.ltb_lt in H. now rewrite H. Qed.

  (* an operation that rewrites one compartment row *)
  Lemma sat_row_op (s s' : storeR) b0 k0 x y :
    (b0 < nb tp)%nat -> (k0 < pl ly b0)%nat ->
    (forall i, i <> (cs ly b0 + k0)%nat -> dg s' i = dg s i /\ lw s' i = lw s i /\ up s' i = up s i /\ sv s' i = sv s i) ->
    (forall b, b <> b0 -> cc s' b = cc s b /\ cp s' b = cp s b) ->
    (forall k, k <> k0 -> cc_term tp s' y b0 k = cc_term tp s y b0 k /\ cp_term ly tp s' y b0 k = cp_term ly tp s y b0 k) ->
    (forall j, bd s' j = bd s j /\ bs s' j = bs s j /\ wc s' j = wc s j /\ wp s' j = wp s j) ->
    ((forall b k, (b < nb tp)%nat -> (k < pl ly b)%nat -> (b, k) <> (b0, k0) -> row_eq ly tp s x y b k) ->
     (forall j, (j < nbp tp)%nat -> bp_eq ly tp s x y j) ->
     (row_eq ly tp s x y b0 k0 <-> row_eq ly tp s' x y b0 k0)) ->
    (sat ly tp s x y <-> sat ly tp s' x y).
  Proof.
    intros Hb0 Hk0 Hslot Hbr Hterms Hbp Hrow.
    assert (Hother : forall b k, (b < nb tp)%nat -> (k < pl ly b)%nat -> (b, k) <> (b0, k0) ->
                                 (row_eq ly tp s x y b k <-> row_eq ly tp s' x y b k)).
    { intros b k Hb Hk Hne.
      assert (Hi : (cs ly b + k)%nat <> (cs ly b0 + k0)%nat).
      { intros E. destruct (slot_inj _ _ W _ _ _ _ Hb Hk Hb0 Hk0 E). apply Hne. congruence. }
      destruct (Hslot _ Hi) as (E1 & E2 & E3 & E4).
      unfold row_eq, row_lhs. rewrite E1, E4.
      assert (lo_term ly s' x b k = lo_term ly s x b k) as -> by (unfold lo_term; now rewrite E2).
      assert (up_term ly s' x b k = up_term ly s x b k) as -> by (unfold up_term; now rewrite E3).
      destruct (Nat.eq_dec b b0) as [->|Hnb].
      - assert (k <> k0) by (intros ->; now apply Hne). destruct (Hterms k H) as [-> ->]. reflexivity.
      - destruct (Hbr b Hnb) as [Ec Ep]. unfold cc_term, cp_term. rewrite Ec, Ep. reflexivity. }
    assert (Hbps : forall j, bp_eq ly tp s x y j <-> bp_eq ly tp s' x y j).
    { intros j. unfold bp_eq, bp_lhs. destruct (Hbp j) as (-> & -> & _ & _). destruct (Hbp (par tp j)) as (_ & _ & _ & ->).
      rewrite (sumf_ext (fun c => wc s' c * x (first ly c)) (fun c => wc s c * x (first ly c))); [reflexivity|].
      intros c _. destruct (Hbp c) as (_ & _ & -> & _). reflexivity. }
    split; intros [Hr Hj]; split.
    - intros b k Hb Hk. destruct (Nat.eq_dec b b0) as [->|Hnb]; [destruct (Nat.eq_dec k k0) as [->|Hnk]|].
      + apply Hrow; auto. 
      + apply Hother; auto. intros E; inversion E; contradiction.
      + apply Hother; auto. intros E; inversion E; contradiction.
    - intros j Hjj. apply Hbps; auto.
    - assert (Hr0 : forall b k, (b < nb tp)%nat -> (k < pl ly b)%nat -> (b, k) <> (b0, k0) -> row_eq ly tp s x y b k).
      { intros b k Hb Hk Hne. apply Hother; auto. }
      assert (Hj0 : forall j, (j < nbp tp)%nat -> bp_eq ly tp s x y j) by (intros j Hjj; apply Hbps; auto).
      intros b k Hb Hk. destruct (Nat.eq_dec b b0) as [->|Hnb]; [destruct (Nat.eq_dec k k0) as [->|Hnk]|].
      + apply Hrow; auto.
      + apply Hr0; auto. intros E; inversion E; contradiction.
      + apply Hr0; auto. intros E; inversion E; contradiction.
    - intros j Hjj. apply Hbps; auto.
  Qed.

  (* an operation that rewrites one branch-point row *)
  Lemma sat_bp_op (s s' : storeR) j0 x y :
    (j0 < nbp tp)%nat ->
    (forall i, dg s' i = dg s i /\ lw s' i = lw s i /\ up s' i = up s i /\ sv s' i = sv s i) ->
    (forall b, cc s' b = cc s b /\ cp s' b = cp s b) ->
    (forall j, (j < nbp tp)%nat -> j <> j0 -> (bp_eq ly tp s x y j <-> bp_eq ly tp s' x y j)) ->
    ((forall b k, (b < nb tp)%nat -> (k < pl ly b)%nat -> row_eq ly tp s x y b k) ->
     (bp_eq ly tp s x y j0 <-> bp_eq ly tp s' x y j0)) ->
    (sat ly tp s x y <-> sat ly tp s' x y).
  Proof.
    intros Hj0 Hslot Hbr Hother Hrow.
    assert (Hrows : forall b k, row_eq ly tp s x y b k <-> row_eq ly tp s' x y b k).
    { intros b k. destruct (Hslot (cs ly b + k)%nat) as (E1 & E2 & E3 & E4). destruct (Hbr b) as [Ec Ep].
      unfold row_eq, row_lhs, lo_term, up_term, cc_term, cp_term. rewrite E1, E2, E3, E4, Ec, Ep. reflexivity. }
    split; intros [Hr Hj]; split.
    - intros b k Hb Hk. apply Hrows; auto.
    - intros j Hjj. destruct (Nat.eq_dec j j0) as [->|Hne]; [apply Hrow; auto | apply Hother; auto].
    - intros b k Hb Hk. apply Hrows; auto.
    - intros j Hjj. destruct (Nat.eq_dec j j0) as [->|Hne]; [| apply Hother; auto].
      apply Hrow; auto. intros b k Hb Hk. apply Hrows; auto.
  Qed.
End Frame.

(* ------------------------------------------------------------------------------------ *)
(* every operation preserves the solution set *)
Section Ops.
  Variables (ly : layout) (tp : topo).
  Hypothesis W : wf ly tp.

  Ltac upds := repeat first [rewrite upd_same | rewrite upd_other by (assumption || lia)].

  Lemma step_Norm s b k x y :
    pre ly tp s (Norm b k) -> dg s (cs ly b + k)%nat <> 0 ->
    (sat ly tp s x y <-> sat ly tp (stepR ly s (Norm b k)) x y).
  Proof.
    intros (Hb & Hk & HU & HCP) Hp.
    apply (sat_row_op ly tp W s _ b k); try assumption; try lia.
    - intros i Hi. cbn [step dg lw up sv]. upds. auto.
    - intros b' _. cbn [step cc cp]. auto.
    - intros k' _. unfold cc_term, cp_term. cbn [step cc cp]. auto.
    - intros j. cbn [step bd bs wc wp]. auto.
    - intros _ _. unfold row_eq. apply (scale_iff _ _ _ _ (dg s (cs ly b + k)%nat) Hp).
      unfold row_lhs.
      change (up_term ly (stepR ly s (Norm b k)) x b k) with (up_term ly s x b k).
      change (cc_term tp (stepR ly s (Norm b k)) y b k) with (cc_term tp s y b k).
      change (cp_term ly tp (stepR ly s (Norm b k)) y b k) with (cp_term ly tp s y b k).
      rewrite (up_term_zero ly s x b k HU), (cp_term_zero ly tp s y b k HCP), (cc_term_k tp s y b k) by lia.
      unfold lo_term. cbn [step dg lw sv]. upds.
      destruct (k =? 0)%nat eqn:E; [apply Nat.eqb_eq in E; lia|].
      field. exact Hp.
  Qed.

  Lemma step_ElimUp s b k x y :
    pre ly tp s (ElimUp b k) ->
    (sat ly tp s x y <-> sat ly tp (stepR ly s (ElimUp b k)) x y).
  Proof.
    intros (Hb & Hk & HN & HU & HCP).
    apply (sat_row_op ly tp W s _ b k); try assumption; try lia.
    - intros i Hi. cbn [step dg lw up sv]. upds. auto.
    - intros b' _. cbn [step cc cp]. auto.
    - intros k' _. unfold cc_term, cp_term. cbn [step cc cp]. auto.
    - intros j. cbn [step bd bs wc wp]. auto.
    - intros Hrows _.
      assert (Hsrc : row_eq ly tp s x y b (S k)).
      { apply Hrows; try lia. intros E; inversion E; lia. }
      unfold row_eq in *.
      apply (combo_iff _ _ (row_lhs ly tp s x y b (S k)) (sv s (cs ly b + S k)%nat) _ _ (up s (cs ly b + k)%nat)); [|exact Hsrc].
      unfold row_lhs.
      rewrite (up_term_zero ly s x b (S k) HU), (cp_term_zero ly tp s y b (S k) HCP), (cc_term_k tp s y b (S k)) by lia.
      change (lo_term ly (stepR ly s (ElimUp b k)) x b k) with (lo_term ly s x b k).
      change (cc_term tp (stepR ly s (ElimUp b k)) y b k) with (cc_term tp s y b k).
      change (cp_term ly tp (stepR ly s (ElimUp b k)) y b k) with (cp_term ly tp s y b k).
      rewrite lo_term_S, !up_term_lt by lia. cbn [step dg up sv]. upds.
      replace (cs ly b + S k)%nat with (S (cs ly b + k)) by lia.
      rewrite HN. ring.
  Qed.

  Lemma step_DivFirst s b x y :
    pre ly tp s (DivFirst b) -> dg s (first ly b) <> 0 ->
    (sat ly tp s x y <-> sat ly tp (stepR ly s (DivFirst b)) x y).
  Proof.
    intros (Hb & HU & HCC & HCP) Hp. unfold first in *.
    pose proof (wf_nc _ _ W b Hb) as Hnc.
    assert (E0 : (cs ly b + 0)%nat = cs ly b) by lia.
    apply (sat_row_op ly tp W s _ b 0); try assumption; try lia.
    - intros i Hi. cbn [step dg lw up sv]. unfold first. rewrite E0 in Hi. upds. auto.
    - intros b' _. cbn [step cc cp]. auto.
    - intros k' _. unfold cc_term, cp_term. cbn [step cc cp]. auto.
    - intros j. cbn [step bd bs wc wp]. auto.
    - intros _ _. unfold row_eq. apply (scale_iff _ _ _ _ (dg s (cs ly b)) Hp).
      unfold row_lhs.
      change (up_term ly (stepR ly s (DivFirst b)) x b 0) with (up_term ly s x b 0).
      change (cc_term tp (stepR ly s (DivFirst b)) y b 0) with (cc_term tp s y b 0).
      change (cp_term ly tp (stepR ly s (DivFirst b)) y b 0) with (cp_term ly tp s y b 0).
      rewrite (up_term_zero ly s x b 0 HU), (cp_term_zero ly tp s y b 0 HCP), (cc_term_zero tp s y b 0 HCC).
      rewrite !lo_term_0. cbn [step dg sv]. unfold first. rewrite E0. upds. field. exact Hp.
  Qed.

  Lemma step_SubLower s b k x y :
    pre ly tp s (SubLower b k) ->
    (sat ly tp s x y <-> sat ly tp (stepR ly s (SubLower b k)) x y).
  Proof.
    intros (Hb & Hk & HN & HL & HU & HCC & HCP).
    apply (sat_row_op ly tp W s _ b k); try assumption; try lia.
    - intros i Hi. cbn [step dg lw up sv]. upds. auto.
    - intros b' _. cbn [step cc cp]. auto.
    - intros k' _. unfold cc_term, cp_term. cbn [step cc cp]. auto.
    - intros j. cbn [step bd bs wc wp]. auto.
    - intros Hrows _.
      assert (Hsrc : row_eq ly tp s x y b (k - 1)).
      { apply Hrows; try lia. intros E; inversion E; lia. }
      unfold row_eq in *.
      apply (combo_iff _ _ (row_lhs ly tp s x y b (k - 1)) (sv s (cs ly b + (k - 1))%nat) _ _ (lw s (cs ly b + k)%nat)); [|exact Hsrc].
      unfold row_lhs.
      rewrite (up_term_zero ly s x b (k - 1) HU), (cp_term_zero ly tp s y b (k - 1) HCP),
              (cc_term_zero tp s y b (k - 1) HCC), (lo_term_zero ly s x b (k - 1) HL).
      change (up_term ly (stepR ly s (SubLower b k)) x b k) with (up_term ly s x b k).
      change (cc_term tp (stepR ly s (SubLower b k)) y b k) with (cc_term tp s y b k).
      change (cp_term ly tp (stepR ly s (SubLower b k)) y b k) with (cp_term ly tp s y b k).
      unfold lo_term. cbn [step dg lw sv]. upds.
      destruct (k =? 0)%nat eqn:E; [apply Nat.eqb_eq in E; lia|].
      replace (cs ly b + (k - 1))%nat with (cs ly b + k - 1)%nat by lia.
      rewrite HN. ring.
  Qed.

  Lemma step_ParentUpper s b j x y :
    pre ly tp s (ParentUpper b j) -> bd s j <> 0 ->
    (sat ly tp s x y <-> sat ly tp (stepR ly s (ParentUpper b j)) x y).
  Proof.
    intros (Hb & Hcbp & Hpure) Hp.
    pose proof (wf_nc _ _ W b Hb) as Hnc.
    destruct (wf_cbp _ _ W b j Hb Hcbp) as [Hj Hpar].
    assert (El : last ly b = (cs ly b + (nc ly b - 1))%nat) by (unfold last; lia).
    apply (sat_row_op ly tp W s _ b (nc ly b - 1)); try assumption; try lia.
    - intros i Hi. cbn [step dg lw up sv]. rewrite El. upds. auto.
    - intros b' Hb'. cbn [step cc cp]. upds. auto.
    - intros k' Hk'. unfold cc_term, cp_term. cbn [step cc cp].
      apply Nat.eqb_neq in Hk'. rewrite Hk'. auto.
    - intros j'. cbn [step bd bs wc wp]. auto.
    - intros _ Hbps.
      pose proof (Hbps j Hj) as Hsrc. unfold bp_eq in Hsrc. unfold row_eq.
      apply (combo_iff _ _ (bp_lhs ly tp s x y j) (bs s j) _ _ (cp s b / bd s j)); [|exact Hsrc].
      unfold row_lhs, bp_lhs.
      rewrite (sumf_zero (fun c => wc s c * x (first ly c)) (kids tp j)) by (intros c Hc; rewrite (Hpure c Hc); ring).
      rewrite Hpar, El.
      change (lo_term ly (stepR ly s (ParentUpper b j)) x b (nc ly b - 1)) with (lo_term ly s x b (nc ly b - 1)).
      change (up_term ly (stepR ly s (ParentUpper b j)) x b (nc ly b - 1)) with (up_term ly s x b (nc ly b - 1)).
      change (cc_term tp (stepR ly s (ParentUpper b j)) y b (nc ly b - 1)) with (cc_term tp s y b (nc ly b - 1)).
      unfold cp_term. rewrite Nat.eqb_refl, Hcbp. cbn [step dg sv cp]. rewrite El. upds.
      field. exact Hp.
  Qed.

  Lemma step_ChildUpper s b j x y :
    pre ly tp s (ChildUpper b j) -> bd s j <> 0 ->
    (sat ly tp s x y <-> sat ly tp (stepR ly s (ChildUpper b j)) x y).
  Proof.
    intros (Hb & Hpbp & Hpure & Hwp) Hp.
    pose proof (wf_nc _ _ W b Hb) as Hnc.
    destruct (wf_pbp_kids _ _ W b j Hb Hpbp) as [Hj Hin].
    assert (E0 : (cs ly b + 0)%nat = cs ly b) by lia.
    apply (sat_row_op ly tp W s _ b 0); try assumption; try lia.
    - intros i Hi. cbn [step dg lw up sv]. unfold first. rewrite E0 in Hi. upds. auto.
    - intros b' Hb'. cbn [step cc cp]. upds. auto.
    - intros k' Hk'. unfold cc_term, cp_term. cbn [step cc cp].
      apply Nat.eqb_neq in Hk'. rewrite Hk'. auto.
    - intros j'. cbn [step bd bs wc wp]. auto.
    - intros _ Hbps.
      pose proof (Hbps j Hj) as Hsrc. unfold bp_eq in Hsrc. unfold row_eq.
      apply (combo_iff _ _ (bp_lhs ly tp s x y j) (bs s j) _ _ (cc s b / bd s j)); [|exact Hsrc].
      unfold row_lhs, bp_lhs.
      rewrite (sumf_zero (fun c => wc s c * x (first ly c)) (kids tp j)) by (intros c Hc; rewrite (Hpure c Hc); ring).
      rewrite Hwp.
      change (lo_term ly (stepR ly s (ChildUpper b j)) x b 0) with (lo_term ly s x b 0).
      change (up_term ly (stepR ly s (ChildUpper b j)) x b 0) with (up_term ly s x b 0).
      change (cp_term ly tp (stepR ly s (ChildUpper b j)) y b 0) with (cp_term ly tp s y b 0).
      unfold cc_term. cbn [Nat.eqb]. rewrite Hpbp. cbn [step dg sv cc]. unfold first. rewrite E0. upds.
      field. exact Hp.
  Qed.

  Lemma step_ChildLower s b j x y :
    pre ly tp s (ChildLower b j) -> dg s (first ly b) <> 0 ->
    (sat ly tp s x y <-> sat ly tp (stepR ly s (ChildLower b j)) x y).
  Proof.
    intros (Hb & Hpbp & HU & HCP) Hp. unfold first in Hp.
    pose proof (wf_nc _ _ W b Hb) as Hnc.
    destruct (wf_pbp_kids _ _ W b j Hb Hpbp) as [Hj Hin].
    assert (E0 : (cs ly b + 0)%nat = cs ly b) by lia.
    apply (sat_bp_op ly tp s _ j); try assumption.
    - intros i. cbn [step dg lw up sv]. auto.
    - intros b'. cbn [step cc cp]. auto.
    - intros j' Hj' Hne. unfold bp_eq, bp_lhs. cbn [step bd bs wc wp]. upds.
      rewrite (sumf_ext (fun c => updR (wc s) b 0 c * x (first ly c)) (fun c => wc s c * x (first ly c))); [reflexivity|].
      intros c Hc. rewrite upd_other; [reflexivity|]. intros ->.
      destruct (wf_kids_pbp _ _ W j' b Hj' Hc) as [_ E]. congruence.
    - intros Hrows.
      pose proof (Hrows b 0%nat Hb ltac:(lia)) as Hsrc. unfold row_eq in Hsrc. unfold bp_eq.
      apply (combo_iff _ _ (row_lhs ly tp s x y b 0) (sv s (cs ly b + 0)%nat) _ _ (wc s b / dg s (cs ly b))); [|exact Hsrc].
      unfold row_lhs, bp_lhs.
      rewrite (up_term_zero ly s x b 0 HU), (cp_term_zero ly tp s y b 0 HCP), lo_term_0.
      unfold cc_term. cbn [Nat.eqb]. rewrite Hpbp.
      cbn [step bd bs wc wp]. upds.
      rewrite (sumf_upd (wc s) (fun c => x (first ly c)) b (kids tp j) (wf_kids_nodup _ _ W j Hj) Hin).
      unfold first. rewrite E0. field. exact Hp.
  Qed.

  Lemma step_ParentLower s b j x y :
    pre ly tp s (ParentLower b j) -> dg s (last ly b) <> 0 ->
    (sat ly tp s x y <-> sat ly tp (stepR ly s (ParentLower b j)) x y).
  Proof.
    intros (Hb & Hcbp & HL & HU & HCC & HCP) Hp.
    pose proof (wf_nc _ _ W b Hb) as Hnc.
    destruct (wf_cbp _ _ W b j Hb Hcbp) as [Hj Hpar].
    assert (El : last ly b = (cs ly b + (nc ly b - 1))%nat) by (unfold last; lia).
    apply (sat_bp_op ly tp s _ j); try assumption.
    - intros i. cbn [step dg lw up sv]. auto.
    - intros b'. cbn [step cc cp]. auto.
    - intros j' Hj' Hne. unfold bp_eq, bp_lhs. cbn [step bd bs wc wp].
      assert (Hpj : par tp j' <> b).
      { intros E. destruct (wf_par _ _ W j' Hj') as [_ E2]. rewrite E in E2. congruence. }
      upds. reflexivity.
    - intros Hrows.
      pose proof (Hrows b (nc ly b - 1)%nat Hb ltac:(lia)) as Hsrc. unfold row_eq in Hsrc. unfold bp_eq.
      apply (combo_iff _ _ (row_lhs ly tp s x y b (nc ly b - 1)) (sv s (cs ly b + (nc ly b - 1))%nat) _ _ (wp s b / dg s (last ly b))); [|exact Hsrc].
      unfold row_lhs, bp_lhs.
      rewrite (up_term_zero ly s x b _ HU), (cp_term_zero ly tp s y b _ HCP), (lo_term_zero ly s x b _ HL), (cc_term_zero tp s y b _ HCC).
      cbn [step bd bs wc wp]. rewrite Hpar. upds. rewrite <- El.
      field. exact Hp.
  Qed.
End Ops.

(* ------------------------------------------------------------------------------------ *)
(* soundness of the checker *)
Section Sound.
  Variables (ly : layout) (tp : topo).

  Lemma sat_step (W : wf ly tp) s o x y :
    pre ly tp s o -> divisorR ly s o <> 0 ->
    (sat ly tp s x y <-> sat ly tp (stepR ly s o) x y).
  Proof.
    destruct o; cbn [divisor]; intros P D.
    - now apply step_Norm.
    - now apply step_ElimUp.
    - now apply step_ChildLower.
    - now apply step_ParentUpper.
    - now apply step_DivFirst.
    - now apply step_SubLower.
    - now apply step_ParentLower.
    - now apply step_ChildUpper.
  Qed.

  (* what the flags mean *)
  Definition gamma (fl : flags) (s : storeR) : Prop :=
    (forall i, fU fl i = true -> up s i = 0) /\ (forall i, fL fl i = true -> lw s i = 0) /\
    (forall i, fN fl i = true -> dg s i = 1) /\
    (forall b, fCC fl b = true -> cc s b = 0) /\ (forall b, fCP fl b = true -> cp s b = 0) /\
    (forall b, fWC fl b = true -> wc s b = 0) /\ (forall b, fWP fl b = true -> wp s b = 0).

  Lemma gamma0 s : gamma flags0 s.
  Proof. unfold gamma, flags0; cbn. repeat split; intros; discriminate. Qed.

  Lemma bupd_true f i v j : bupd f i v j = true -> (j = i /\ v = true) \/ (j <> i /\ f j = true).
  Proof. unfold bupd. destruct (Nat.eqb_spec j i); intros H; [left|right]; auto. Qed.

  Lemma uzb_Uz fl s b k : gamma fl s -> uzb ly fl b k = true -> Uz ly s b k.
  Proof. intros G H Hlt. unfold uzb in H. apply orb_true_iff in H. destruct H as [H|H].
         - apply negb_true_iff, Nat.ltb_ge in H. lia.
         - now apply G. Qed.
  Lemma lzb_Lz fl s b k : gamma fl s -> lzb ly fl b k = true -> Lz ly s b k.
  Proof. intros G H Hne. unfold lzb in H. apply orb_true_iff in H. destruct H as [H|H].
         - apply Nat.eqb_eq in H. lia.
         - now apply G. Qed.
  Lemma cczb_CCz fl s b k : gamma fl s -> cczb tp fl b k = true -> CCz tp s b k.
  Proof. intros G H Hk j Hj. unfold cczb in H. apply orb_true_iff in H. destruct H as [H|H].
         - apply negb_true_iff, Nat.eqb_neq in H. lia.
         - rewrite Hj in H. now apply G. Qed.
  Lemma cpzb_CPz fl s b k : gamma fl s -> cpzb ly tp fl b k = true -> CPz ly tp s b k.
  Proof. intros G H Hk j Hj. unfold cpzb in H. apply orb_true_iff in H. destruct H as [H|H].
         - apply negb_true_iff, Nat.eqb_neq in H. lia.
         - rewrite Hj in H. now apply G. Qed.
  Lemma kidsb_pure fl s j : gamma fl s -> kidsb tp fl j = true -> bp_pure_kids tp s j.
  Proof. intros G H c Hc. unfold kidsb in H. rewrite forallb_forall in H. apply G. now apply H. Qed.
  Lemma opt_eqb_eq o j : opt_eqb o j = true -> o = Some j.
  Proof. destruct o as [j'|]; cbn; intros H; [|discriminate]. apply Nat.eqb_eq in H. now subst. Qed.

  Ltac andb_split :=
    repeat match goal with H : (_ && _) = true |- _ => apply andb_true_iff in H; destruct H end.

  Lemma check_op_pre fl s o : gamma fl s -> check_op ly tp fl o = true -> pre ly tp s o.
  Proof.
    intros G H. destruct o; cbn [check_op pre] in *; andb_split;
      repeat match goal with
             | H : (_ <? _) = true |- _ => apply Nat.ltb_lt in H
             | H : (_ <=? _) = true |- _ => apply Nat.leb_le in H
             | H : opt_eqb _ _ = true |- _ => apply opt_eqb_eq in H
             end.
    - repeat split; try lia; eauto using uzb_Uz, cpzb_CPz.
    - repeat split; try lia; eauto using uzb_Uz, cpzb_CPz. now apply G.
    - repeat split; try lia; eauto using uzb_Uz, cpzb_CPz.
    - repeat split; try lia; eauto using kidsb_pure.
    - repeat split; try lia; eauto using uzb_Uz, cpzb_CPz, cczb_CCz.
    - repeat split; try lia; eauto using uzb_Uz, cpzb_CPz, cczb_CCz, lzb_Lz. now apply G.
    - repeat split; try lia; eauto using uzb_Uz, cpzb_CPz, cczb_CCz, lzb_Lz.
    - repeat split; try lia; eauto using kidsb_pure. now apply G.
  Qed.

  Lemma aupd_gamma fl s o : gamma fl s -> gamma (aupd ly fl o) (stepR ly s o).
  Proof.
    intros (GU & GL & GN & GCC & GCP & GWC & GWP).
    destruct o; unfold gamma; cbn [aupd step fU fL fN fCC fCP fWC fWP dg lw up sv bd bs cc cp wc wp];
      repeat split; try assumption; intros i H;
      try (apply bupd_true in H; destruct H as [[-> Hv]|[Hne H]]; [try discriminate; try (now rewrite upd_same) | rewrite upd_other by assumption; auto]).
    - (* Norm keeps a zero lower entry zero *)
      unfold upd. destruct (Nat.eqb_spec i (cs ly b + k)) as [->|]; [|auto]. rewrite (GL _ H). unfold Rdiv. ring.
  Qed.

  Lemma check_ops_sound (W : wf ly tp) ops : forall fl s fl',
    gamma fl s -> check_ops ly tp fl ops = Some fl' ->
    Forall (fun d => d <> 0) (divisorsR ly ops s) ->
    gamma fl' (runR ly ops s) /\ (forall x y, sat ly tp s x y <-> sat ly tp (runR ly ops s) x y).
  Proof.
    induction ops as [|o r IH]; intros fl s fl' G C D.
    - cbn in C. inversion C; subst. cbn. split; [assumption|tauto].
    - cbn [check_ops] in C. destruct (check_op ly tp fl o) eqn:E; [|discriminate].
      cbn [divisors] in D. inversion D as [|? ? D1 D2]; subst.
      destruct (IH _ (stepR ly s o) _ (aupd_gamma fl s o G) C D2) as [G' S'].
      split; [exact G'|]. intros x y. cbn [run fold_left]. rewrite <- (S' x y).
      apply sat_step; auto. eapply check_op_pre; eauto.
  Qed.
End Sound.

(* ------------------------------------------------------------------------------------ *)
Section Main.
  Variables (ly : layout) (tp : topo).

  Lemma forallb_seq f n : forallb f (seq 0 n) = true -> forall i, (i < n)%nat -> f i = true.
  Proof. intros H i Hi. rewrite forallb_forall in H. apply H. apply in_seq. lia. Qed.

  Lemma nodupb_NoDup l : nodupb l = true -> NoDup l.
  Proof.
    induction l as [|c r IH]; cbn; intros H; [constructor|].
    apply andb_true_iff in H. destruct H as [H1 H2]. constructor; [|auto].
    intros Hin. apply negb_true_iff in H1.
    assert (existsb (Nat.eqb c) r = true); [|congruence].
    apply existsb_exists. exists c. split; [assumption|apply Nat.eqb_refl].
  Qed.

  Lemma wf_b_sound : wf_b ly tp = true -> wf ly tp.
  Proof.
    unfold wf_b. intros H.
    repeat match goal with H : (_ && _) = true |- _ => apply andb_true_iff in H; destruct H end.
    constructor.
    - intros b Hb. match goal with H : forallb (fun b => (1 <=? nc ly b) && _) _ = true |- _ => pose proof (forallb_seq _ _ H b Hb) as E end.
      cbv beta in E. apply andb_true_iff in E. destruct E as [E1 E2]. apply Nat.leb_le in E1, E2. lia.
    - intros b Hb. match goal with H : forallb (fun b => cs ly b + pl ly b <=? _) _ = true |- _ => pose proof (forallb_seq _ _ H b ltac:(lia)) as E end.
      cbv beta in E. now apply Nat.leb_le in E.
    - intros j Hj. match goal with H : forallb (fun j => nodupb _) _ = true |- _ => pose proof (forallb_seq _ _ H j Hj) as E end.
      now apply nodupb_NoDup.
    - intros j c Hj Hc. match goal with H : forallb (fun j => forallb _ (kids tp j)) _ = true |- _ => pose proof (forallb_seq _ _ H j Hj) as E end.
      cbv beta in E. rewrite forallb_forall in E. specialize (E c Hc). apply andb_true_iff in E. destruct E as [E1 E2].
      apply Nat.ltb_lt in E1. apply opt_eqb_eq in E2. auto.
    - intros c j Hc Hp. match goal with H : forallb (fun c => match pbp tp c with _ => _ end) _ = true |- _ => pose proof (forallb_seq _ _ H c Hc) as E end.
      cbv beta in E. rewrite Hp in E. apply andb_true_iff in E. destruct E as [E1 E2]. apply Nat.ltb_lt in E1.
      apply existsb_exists in E2. destruct E2 as (c' & Hin & Eq). apply Nat.eqb_eq in Eq. subst c'. auto.
    - intros j Hj. match goal with H : forallb (fun j => (par tp j <? _) && _) _ = true |- _ => pose proof (forallb_seq _ _ H j Hj) as E end.
      cbv beta in E. apply andb_true_iff in E. destruct E as [E1 E2]. apply Nat.ltb_lt in E1. apply opt_eqb_eq in E2. auto.
    - intros b j Hb Hc. match goal with H : forallb (fun b => match cbp tp b with _ => _ end) _ = true |- _ => pose proof (forallb_seq _ _ H b Hb) as E end.
      cbv beta in E. rewrite Hc in E. apply andb_true_iff in E. destruct E as [E1 E2]. apply Nat.ltb_lt in E1. apply Nat.eqb_eq in E2. auto.
  Qed.

  (* a system whose flags pass [final_ok] is the identity on the compartments *)
  Lemma final_rows fl s x y : gamma fl s -> final_ok ly tp fl = true ->
    forall b k, (b < nb tp)%nat -> (k < pl ly b)%nat ->
    (row_eq ly tp s x y b k <-> x (cs ly b + k)%nat = sv s (cs ly b + k)%nat).
  Proof.
    intros G F b k Hb Hk. unfold final_ok in F. apply andb_true_iff in F. destruct F as [F _].
    pose proof (forallb_seq _ _ F b Hb) as Fb. cbv beta in Fb. pose proof (forallb_seq _ _ Fb k Hk) as Fk.
    unfold row_final in Fk.
    repeat match goal with H : (_ && _) = true |- _ => apply andb_true_iff in H; destruct H end.
    unfold row_eq, row_lhs.
    rewrite (up_term_zero ly s x b k) by (eapply uzb_Uz; eauto).
    rewrite (lo_term_zero ly s x b k) by (eapply lzb_Lz; eauto).
    rewrite (cc_term_zero tp s y b k) by (eapply cczb_CCz; eauto).
    rewrite (cp_term_zero ly tp s y b k) by (eapply cpzb_CPz; eauto).
    destruct G as (_ & _ & GN & _). rewrite (GN _ ltac:(eassumption)). split; intros; lra.
  Qed.

  Lemma final_bps fl s x y : gamma fl s -> final_ok ly tp fl = true ->
    forall j, (j < nbp tp)%nat -> (bp_eq ly tp s x y j <-> bd s j * y j = bs s j).
  Proof.
    intros G F j Hj. unfold final_ok in F. apply andb_true_iff in F. destruct F as [_ F].
    pose proof (forallb_seq _ _ F j Hj) as Fj. cbv beta in Fj. apply andb_true_iff in Fj. destruct Fj as [F1 F2].
    unfold bp_eq, bp_lhs.
    rewrite (sumf_zero (fun c => wc s c * x (first ly c)) (kids tp j)).
    2:{ intros c Hc. rewrite (kidsb_pure tp fl s j G F1 c Hc). ring. }
    destruct G as (_ & _ & _ & _ & _ & _ & GWP). rewrite (GWP _ F2). split; intros; lra.
  Qed.

  (* MAIN THEOREM.  If the checker accepts the schedule and no operation divides by zero
     (and the final branch-point pivots are nonzero), then for ALL array contents the
     solves array after the run is the unique solution of the system the arrays
     represented before the run. *)
  Theorem arr_solve_correct ops (s0 : storeR) :
    check_schedule ly tp ops = true ->
    Forall (fun d => d <> 0) (divisorsR ly ops s0) ->
    (forall j, (j < nbp tp)%nat -> bd (runR ly ops s0) j <> 0) ->
    let out := sv (runR ly ops s0) in
    (exists y, sat ly tp s0 out y) /\
    (forall x y, sat ly tp s0 x y -> forall b k, (b < nb tp)%nat -> (k < pl ly b)%nat -> x (cs ly b + k)%nat = out (cs ly b + k)%nat).
  Proof.
    unfold check_schedule. intros C D B.
    apply andb_true_iff in C. destruct C as [Cw C].
    pose proof (wf_b_sound Cw) as W.
    destruct (check_ops ly tp flags0 ops) as [fl|] eqn:E; [|discriminate].
    destruct (check_ops_sound ly tp W ops flags0 s0 fl (gamma0 s0) E D) as [G S].
    cbn zeta. split.
    - exists (fun j => bs (runR ly ops s0) j / bd (runR ly ops s0) j).
      apply S. split.
      + intros b k Hb Hk. apply (final_rows fl _ _ _ G C b k Hb Hk). reflexivity.
      + intros j Hj. apply (final_bps fl _ _ _ G C j Hj). field. now apply B.
    - intros x y Hs b k Hb Hk. apply S in Hs. destruct Hs as [Hr _].
      apply (final_rows fl _ x y G C b k Hb Hk). now apply Hr.
  Qed.
End Main.
