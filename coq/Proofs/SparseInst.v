(* EVERY cell and EVERY network: the linear system of the `jax.sparse` backend (Model/SparseAsm.v) has exactly one
   solution on the compartments, and it is the output of the level-ordered elimination of the jaxley backends. *)
From Coq Require Import Reals List Arith Bool Lia Lra.
From JV Require Import HinesArr HinesCheck HinesArrFacts HinesArrPositive HinesIdx HinesIdxFacts HinesIdxF HinesIdxFFacts AsmStruct AssembleM AssembleTotal
     AsmIdx AsmIdxFacts AssembleGraph AsmGraphFacts AsmIdxF AsmIdxFFacts AsmGraphFFacts GraphMax SparseAsm SparseFacts.
Import ListNotations.

Lemma cell_types ps ns t : In t (triples_of ps ns) -> t_type t <= 4.
Proof.
  unfold triples_of. intros H. repeat (apply in_app_or in H; destruct H as [H|H]).
  - rewrite (type_edges0 ps ns t H). lia.
  - rewrite (type_edges1 ps ns t H). lia.
  - rewrite (type_edges2 ps ns t H). lia.
  - rewrite (type_edges3 ps ns t H). lia.
  - rewrite (type_edges4 ps ns t H). lia.
Qed.

Lemma forest_types ps ns rs t : In t (triples_ofF ps ns rs) -> t_type t <= 4.
Proof.
  unfold triples_ofF. intros H. apply in_app_or in H. destruct H as [H|H]; [rewrite (type_edges0 ps ns t H); lia|].
  apply in_app_or in H. destruct H as [H|H]; apply in_flat_map in H; destruct H as (c & _ & H); apply in_app_or in H; destruct H as [H|H].
  - rewrite (type_e1c ps ns rs c t H). lia.
  - rewrite (type_e2c ps ns rs c t H). lia.
  - rewrite (type_e3c ps ns rs c t H). lia.
  - rewrite (type_e4c ps ns rs c t H). lia.
Qed.

Lemma strip_type (es : list (edge R)) (ts : list trip) : map strip es = ts -> (forall t, In t ts -> t_type t <= 4) ->
  forall e, In e es -> e_type R e <= 4.
Proof. intros E H e He. apply (H (strip e)). rewrite <- E. apply in_map, He. Qed.

Local Open Scope R_scope.

Theorem cell_sparse_backend_same_solution (ps ns : list nat) (es : list (edge R)) (v vt ct : nat -> R) (dt : R) :
  (1 <= length ps)%nat -> (forall b, (1 <= b)%nat -> (b < length ps)%nat -> (nth b ps 0 < b)%nat) ->
  (forall b, (b < length ps)%nat -> (1 <= nth b ns 0)%nat) ->
  map strip es = triples_of ps ns ->
  0 < dt -> (forall e, In e es -> 0 < e_g R e) -> (forall i, (i < total ps ns)%nat -> 0 <= vt i) ->
  let ly := layout_of ps ns in let tp := topo_of ps in let mask := nthD (mask_of ps ns) in let n := total ps ns in
  let s0 := assemble R Rplus Rminus Rmult 0 1 mask n es v vt ct dt (group_of ps) (child_inds_of ps) (par_inds_of ps) in
  let out := sv (runR ly (ops_of_tree ps ns) s0) in
  (exists z, sparse_eq tp n es v vt ct dt z /\ forall c, (c < n)%nat -> z c = out (mask c)) /\
  (forall z, sparse_eq tp n es v vt ct dt z -> forall c, (c < n)%nat -> z c = out (mask c)).
Proof.
  intros H1 H2 H3 E Hdt Hg Hvt ly tp mask n s0 out.
  pose proof (idx_wf ps ns H1 H2 H3) as W.
  pose proof (cell_graph_struct ps ns H1 H2 H3 es E) as G.
  pose proof (cell_graph_struct_bp ps ns H1 H3 es E) as B.
  destruct (cell_step_solves_the_graph_equations ps ns es v vt ct dt H1 H2 H3 E Hdt Hg Hvt) as [Ex U].
  apply (sparse_solution_is_the_solver_output ly tp W mask n es v vt ct dt _ _ _ G B (cell_slot ps ns H1)
           (strip_type es _ E (cell_types ps ns)) ltac:(lra) out Ex).
  intros x y Sx b k Hb Hk. apply (U x y Sx b k); [exact Hb | exact Hk].
Qed.

Theorem network_sparse_backend_same_solution (ps ns : list nat) (rs : list bool) (es : list (edge R)) (v vt ct : nat -> R) (dt : R) :
  (1 <= length ps)%nat -> (forall b, (b < length ps)%nat -> is_root rs b = false -> (nth b ps 0 < b)%nat) ->
  (forall b, (b < length ps)%nat -> (1 <= nth b ns 0)%nat) ->
  map strip es = triples_ofF ps ns rs ->
  0 < dt -> (forall e, In e es -> 0 < e_g R e) -> (forall i, (i < total ps ns)%nat -> 0 <= vt i) ->
  let ly := layout_ofF ps ns rs in let tp := topo_ofF ps rs in let mask := nthD (mask_ofF ps ns rs) in let n := total ps ns in
  let s0 := assemble R Rplus Rminus Rmult 0 1 mask n es v vt ct dt (group_ofF ps rs) (child_inds_ofF ps rs) (par_inds_ofF ps rs) in
  let out := sv (runR ly (ops_of_forest ps ns rs) s0) in
  (exists z, sparse_eq tp n es v vt ct dt z /\ forall c, (c < n)%nat -> z c = out (mask c)) /\
  (forall z, sparse_eq tp n es v vt ct dt z -> forall c, (c < n)%nat -> z c = out (mask c)).
Proof.
  intros H1 H2 H3 E Hdt Hg Hvt ly tp mask n s0 out.
  assert (W : wf ly tp) by (apply idx_wfF; assumption).
  assert (G : graph_struct ly tp mask n es (group_ofF ps rs) (child_inds_ofF ps rs) (par_inds_ofF ps rs)) by (apply forest_graph_struct; assumption).
  assert (B : graph_struct_bp ly mask n es (group_ofF ps rs) (child_inds_ofF ps rs) (par_inds_ofF ps rs)) by (apply forest_graph_struct_bp; assumption).
  destruct (forest_step_solves_the_graph_equations ps ns rs es v vt ct dt H1 H2 H3 E Hdt Hg Hvt) as [Ex U].
  apply (sparse_solution_is_the_solver_output ly tp W mask n es v vt ct dt _ _ _ G B ltac:(apply forest_slot; assumption)
           (strip_type es _ E (forest_types ps ns rs)) ltac:(lra) out Ex).
  intros x y Sx b k Hb Hk. apply (U x y Sx b k); [exact Hb | exact Hk].
Qed.
