(* A delay (duration) of exactly k time steps starts (ends) at sample k: the window of a step current that is
   specified on the time grid has exactly the requested samples. *)
From Coq Require Import QArith Qabs ZArith Lia Lqa.
From JV Require Import StepCurrent.
Local Open Scope Q_scope.

Lemma qfloor_inject (k : Z) : qfloor (inject_Z k) = k.
Proof. unfold qfloor, inject_Z. cbn. apply Z.div_1_r. Qed.

Lemma qfloor_spec (x : Q) : inject_Z (qfloor x) <= x /\ x < inject_Z (qfloor x + 1).
Proof.
  unfold qfloor. destruct x as [n d]. cbn [Qnum Qden]. unfold Qle, Qlt, inject_Z. cbn [Qnum Qden].
  pose proof (Z.div_mod n (Zpos d) ltac:(lia)) as E. pose proof (Z.mod_pos_bound n (Zpos d) ltac:(lia)) as B. split; nia.
Qed.

Lemma qfloor_unique (x : Q) (k : Z) : inject_Z k <= x -> x < inject_Z (k + 1) -> qfloor x = k.
Proof.
  intros H1 H2. destruct (qfloor_spec x) as [F1 F2].
  assert (A : inject_Z (qfloor x) < inject_Z (k + 1)) by (eapply Qle_lt_trans; eauto).
  assert (B : inject_Z k < inject_Z (qfloor x + 1)) by (eapply Qle_lt_trans; eauto).
  unfold Qlt, inject_Z in A, B. cbn in A, B. lia.
Qed.

Theorem on_grid (k : Z) (dt : Q) : 0 < dt -> time_to_step (inject_Z k * dt) dt = k.
Proof.
  intros Hdt. unfold time_to_step.
  assert (E : inject_Z k * dt / dt == inject_Z k) by (field; lra).
  assert (R : qround (inject_Z k * dt / dt) = k).
  { unfold qround. apply qfloor_unique; rewrite E; unfold inject_Z, Qle, Qlt, Qplus; cbn; lia. }
  rewrite R. destruct (Qlt_le_dec _ _) as [_|H]; [reflexivity|].
  exfalso. rewrite E in H. assert (Z0 : inject_Z k - inject_Z k == 0) by ring. rewrite Z0 in H. cbn in H. unfold Qle in H. cbn in H. lia.
Qed.

Theorem window_on_grid (k0 kd : Z) (dt : Q) : 0 < dt ->
  step_window (inject_Z k0 * dt) (inject_Z kd * dt) dt = (k0, (k0 + kd)%Z).
Proof.
  intros Hdt. unfold step_window. rewrite on_grid by exact Hdt. f_equal.
  assert (E : inject_Z k0 * dt + inject_Z kd * dt == inject_Z (k0 + kd) * dt) by (rewrite inject_Z_plus; ring).
  unfold time_to_step.
  assert (E' : (inject_Z k0 * dt + inject_Z kd * dt) / dt == inject_Z (k0 + kd)) by (rewrite E; field; lra).
  assert (R : qround ((inject_Z k0 * dt + inject_Z kd * dt) / dt) = (k0 + kd)%Z).
  { unfold qround. apply qfloor_unique; rewrite E'; unfold inject_Z, Qle, Qlt, Qplus; cbn; lia. }
  rewrite R. destruct (Qlt_le_dec _ _) as [_|H]; [reflexivity|].
  exfalso. rewrite E' in H. assert (Z0 : inject_Z (k0 + kd) - inject_Z (k0 + kd) == 0) by ring. rewrite Z0 in H. cbn in H. unfold Qle in H. cbn in H. lia.
Qed.

(* truncation alone (the tree as given) is what the model does off the grid *)
Example off_grid : time_to_step (31 # 100) (25 # 1000) = 12%Z /\ time_to_step (3 # 10) (25 # 1000) = 12%Z.
Proof. split; reflexivity. Qed.
