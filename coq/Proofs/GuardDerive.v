(* C05: inside the guards of the removable singularities the rate helpers have the derivative of the function they
   replace (d/dx [x/(exp x - 1)] = -1/2 at 0), not merely a value close to it: a guard that returns the constant limit
   would pass every value test and give a zero gradient exactly at the singular voltage.  Over the regenerated
   Layer-G definitions of efun / _vtrap. *)
From Coq Require Import Reals Lra.
From Coquelicot Require Import Coquelicot.
From JV Require Import Prim RLemmas GChannels.
Local Open Scope R_scope.

Lemma efun_derive_in_guard x : Rabs x < 1 / 1000000 -> is_derive efun__r x (- (1 / 2)).
Proof.
  intros H. apply (is_derive_ext_loc (fun t => 1 - t / 2)).
  - assert (Hpos : 0 < 1 / 1000000 - Rabs x) by lra.
    exists (mkposreal _ Hpos). intros t Ht.
    unfold ball in Ht. cbn in Ht. unfold AbsRing_ball in Ht. cbn in Ht. unfold abs, minus, plus, opp in Ht. cbn in Ht.
    assert (Hg : Rabs t < 1 / 1000000).
    { replace t with (x + (t + - x)) by ring. eapply Rle_lt_trans; [apply Rabs_triang|]. lra. }
    unfold efun__r. cbv zeta. rewrite (proj2 (rltb_true _ _) Hg). reflexivity.
  - auto_derive; [exact I | lra].
Qed.

Lemma vtrap_derive_in_guard x y : 0 < y -> Rabs (x / y) < 1 / 1000000 -> is_derive (fun t => vtrap__r t y) x (- (1 / 2)).
Proof.
  intros Hy H. apply (is_derive_ext_loc (fun t => y * (1 - t / y / 2))).
  - assert (Hpos : 0 < y * (1 / 1000000 - Rabs (x / y))) by (apply Rmult_lt_0_compat; lra).
    exists (mkposreal _ Hpos). intros t Ht.
    unfold ball in Ht. cbn in Ht. unfold AbsRing_ball in Ht. cbn in Ht. unfold abs, minus, plus, opp in Ht. cbn in Ht.
    assert (Hg : Rabs (t / y) < 1 / 1000000).
    { replace (t / y) with (x / y + (t + - x) / y) by (field; lra). eapply Rle_lt_trans; [apply Rabs_triang|].
      assert (Rabs ((t + - x) / y) < 1 / 1000000 - Rabs (x / y)); [|lra].
      unfold Rdiv at 1. rewrite Rabs_mult, (Rabs_right (/ y)) by (left; apply Rinv_0_lt_compat, Hy).
      apply (Rmult_lt_reg_r y); [exact Hy|]. rewrite Rmult_assoc, Rinv_l, Rmult_1_r by lra. lra. }
    unfold vtrap__r. cbv zeta. rewrite (proj2 (rltb_true _ _) Hg). reflexivity.
  - auto_derive; [lra | field; lra].
Qed.
