(* C19: with the refusal of delete_channel (F65 + F69), every reference (recording, clamp, trainable) to a
   channel state or parameter refers to something the module still knows, after EVERY history of insert,
   delete_channel, record/clamp/make_trainable and their deletion through arbitrary views.  The behaviour of the
   tree as given and of the first repair are refuted. *)
From Coq Require Import List Arith Bool Lia.
From JV Require Import HistoryRefs.
Import ListNotations.

Section RefsFacts.
  Variable owns : nat -> list nat.
  Variable nchan : nat.
  Notation step := (rstep owns nchan).
  Notation apply := (rapply owns nchan).
  Notation known := (known owns nchan).
  Notation refs_known := (refs_known owns nchan).

  Definition safe (o : rop) : Prop := match o with RDeleteF65 _ _ | RDeleteOld _ _ => False | _ => True end.

  Lemma known_spec s c : known s c = true <-> exists k, k < nchan /\ memb c (owns k) = true /\ registered s k = true.
  Proof.
    unfold HistoryRefs.known. rewrite existsb_exists. split.
    - intros (k & Hk & H). apply in_seq in Hk. apply andb_true_iff in H. exists k. split; [lia | exact H].
    - intros (k & Hk & H1 & H2). exists k. split; [apply in_seq; lia | rewrite H1, H2; reflexivity].
  Qed.

  Lemma refs_known_spec s : refs_known s = true <-> forall cr, In cr (rrefs s) -> known s (fst cr) = true.
  Proof. unfold HistoryRefs.refs_known. apply forallb_forall. Qed.

  Lemma registered_fupd_other s ch v k : k <> ch -> registered (mkr (fupdl (rchan s) ch v) (rrefs s)) k = registered s k.
  Proof. intros H. unfold registered, fupdl. cbn [rchan]. destruct (Nat.eqb_spec k ch); [contradiction | reflexivity]. Qed.

  Lemma unionl_nonempty a b : nonemptyb a = true -> nonemptyb (unionl a b) = true.
  Proof. destruct a; [discriminate | reflexivity]. Qed.

  Theorem step_keeps_refs_known s o s' : safe o -> refs_known s = true -> step s o = Some s' -> refs_known s' = true.
  Proof.
    intros Hsafe Hk Hs. rewrite refs_known_spec in *. destruct o as [ch rows|ch rows|ch rows|ch rows|c rows|rows]; cbn [safe] in Hsafe; try contradiction; cbn [rstep] in Hs.
    - (* insert: channels only grow *)
      inversion Hs; subst; clear Hs. cbn [rrefs]. intros cr Hin. apply known_spec. destruct (proj1 (known_spec s _) (Hk cr Hin)) as (k & Hkn & H1 & H2).
      exists k. split; [exact Hkn|]. split; [exact H1|]. destruct (Nat.eq_dec k ch) as [->|Hne].
      + unfold registered, fupdl. cbn [rchan]. rewrite Nat.eqb_refl. apply unionl_nonempty. exact H2.
      + rewrite registered_fupd_other by exact Hne. exact H2.
    - (* delete_channel, accepted *)
      destruct (negb (in_view s ch rows)); [discriminate|].
      destruct (dangling_after owns nchan s ch rows true) eqn:Ed; [discriminate|]. inversion Hs; subst; clear Hs. cbn [rrefs].
      intros cr Hin. apply known_spec. destruct (proj1 (known_spec s _) (Hk cr Hin)) as (k & Hkn & H1 & H2).
      destruct (Nat.eq_dec k ch) as [->|Hne]; [|exists k; split; [exact Hkn|]; split; [exact H1|]; rewrite registered_fupd_other by exact Hne; exact H2].
      destruct (remains s ch rows) eqn:Er.
      + exists ch. split; [exact Hkn|]. split; [exact H1|]. unfold registered, fupdl. cbn [rchan]. rewrite Nat.eqb_refl. exact Er.
      + destruct (shared owns nchan s ch (fst cr)) eqn:Es.
        * unfold shared in Es. apply existsb_exists in Es. destruct Es as (k' & Hk' & H). apply in_seq in Hk'.
          apply andb_true_iff in H. destruct H as [H Hm]. apply andb_true_iff in H. destruct H as [Hne Hr]. apply negb_true_iff, Nat.eqb_neq in Hne.
          exists k'. split; [lia|]. split; [exact Hm|]. rewrite registered_fupd_other by exact Hne. exact Hr.
        * exfalso. assert (dangling_after owns nchan s ch rows true = true); [|congruence].
          unfold dangling_after. apply existsb_exists. exists (fst cr). split.
          -- unfold memb in H1. apply existsb_exists in H1. destruct H1 as (y & Hy & Ey). apply Nat.eqb_eq in Ey. subst. exact Hy.
          -- apply existsb_exists. exists cr. split; [exact Hin | rewrite Nat.eqb_refl, Er, Es; reflexivity].
    - (* a new reference through a view that knows the column *)
      destruct (existsb (fun k => memb c (owns k) && in_view s k rows) (seq 0 nchan)) eqn:Ev; [|discriminate]. inversion Hs; subst; clear Hs. cbn [rrefs].
      intros cr Hin. apply in_app_or in Hin. destruct Hin as [Hin|Hin]; [apply (Hk cr Hin)|].
      apply filter_In in Hin. destruct Hin as [Hin _]. apply in_map_iff in Hin. destruct Hin as (r & <- & _). cbn [fst]. apply known_spec.
      apply existsb_exists in Ev. destruct Ev as (k & Hkn & H). apply in_seq in Hkn. apply andb_true_iff in H. destruct H as [H1 H2].
      exists k. split; [lia|]. split; [exact H1|]. unfold in_view, interl in H2. unfold registered. cbn [rchan]. destruct (rchan s k); [discriminate | reflexivity].
    - (* deleting references *)
      inversion Hs; subst; clear Hs. cbn [rrefs]. intros cr Hin. apply filter_In in Hin. destruct Hin as [Hin _]. apply (Hk cr Hin).
  Qed.

  Theorem history_keeps_refs_known : forall ops s, Forall safe ops -> refs_known s = true -> refs_known (rrun owns nchan s ops) = true.
  Proof.
    induction ops as [|o ops IH]; intros s Hs Hk; [exact Hk|]. inversion Hs; subst. cbn [rrun fold_left]. apply IH; [assumption|].
    unfold rapply. destruct (step s o) as [s'|] eqn:E; [apply (step_keeps_refs_known s o s'); assumption | exact Hk].
  Qed.
End RefsFacts.

(* the behaviour before the repairs leaves dangling references (2 channels; channel 0 owns column 0) *)
Definition ow2 (k : nat) : list nat := match k with 0 => [0] | _ => [1] end.

(* F65: insert, record, delete *)
Example old_delete_refuted :
  refs_known ow2 2 (rrun ow2 2 rinit [RInsert 0 [0; 1]; RRef 0 [0]; RDeleteOld 0 [0; 1]]) = false.
Proof. reflexivity. Qed.

(* F69: the state is recorded on compartments that never had the channel; the first repair does not see it *)
Example first_repair_refuted :
  refs_known ow2 2 (rrun ow2 2 rinit [RInsert 0 [0; 1]; RRef 0 [0; 1; 2; 3]; RUnref [0; 1]; RDeleteF65 0 [0; 1]]) = false /\
  accepted ow2 2 rinit [RInsert 0 [0; 1]; RRef 0 [0; 1; 2; 3]; RUnref [0; 1]; RDelete 0 [0; 1]] = [true; true; true; false].
Proof. split; reflexivity. Qed.
