(* Instantiation of the generic tree theorems on the assembled cable system (C02):
   symmetrising weights (membrane capacitance per compartment, one constant per branch
   point), exact row sums, maximum principle for passive unstimulated cells. *)
From Coq Require Import Reals Lra Lia List ZArith Bool Arith.
From JV Require Import Prim TreeSolve TreeSolveFacts TreeAnalysis Cable GCellUtils CableFacts.
Import ListNotations.
Local Open Scope R_scope.

(* weight of a compartment: cm * r * l  (its capacitance C = cm * 2 pi r l, up to 2 pi) *)
Definition wcomp (c : compR) : R := c_cm R c * c_r R c * c_l R c.

(* code-level reciprocity of the traced coupling conductances *)
Lemma c2c_reciprocal a b : comp_pos a -> comp_pos b -> wcomp a * c2c a b = wcomp b * c2c b a.
Proof.
  intros (? & ? & ? & ? & ?) (? & ? & ? & ? & ?). unfold wcomp, c2c, cond_c2c, sq.
  assert (c_ra R a * (c_r R b * c_r R b) * c_l R a + c_ra R b * (c_r R a * c_r R a) * c_l R b <> 0).
  { assert (0 < c_ra R a * (c_r R b * c_r R b) * c_l R a + c_ra R b * (c_r R a * c_r R a) * c_l R b); [|lra]. posR. }
  assert (c_ra R b * (c_r R a * c_r R a) * c_l R b + c_ra R a * (c_r R b * c_r R b) * c_l R a <> 0) by lra.
  field. repeat split; lra.
Qed.
Lemma bp_weight_identity c : comp_pos c -> wcomp c * bp2c c = 10000 * wbp c.
Proof.
  intros (? & ? & ? & ? & ?). unfold wcomp, bp2c, wbp, cond_bp2c, weight_c2bp, sq. field. repeat split; lra.
Qed.

(* the weights, mirroring Cable.chain / Cable.build *)
Fixpoint chain_w (cs : list compR) (tailw : list solR) : list solR :=
  match cs with
  | [] => []
  | c :: rest => [SNode (wcomp c) (match rest with [] => tailw | _ :: _ => chain_w rest tailw end)]
  end.
Fixpoint build_w (fuel : nat) (parents : list nat) (branches : list (list compR)) (dt : R) (b : nat)
  : list solR :=
  match fuel with
  | O => []
  | S fuel' =>
      let cs := nth b branches [] in
      let kids := children parents b in
      let bp := match kids with
                | [] => []
                | _ => [SNode (dt * 10000) (flat_map (build_w fuel' parents branches dt) kids)]
                end in
      chain_w cs bp
  end.

Lemma symws_app wi a b wa wb : symws wi a wa -> symws wi b wb -> symws wi (a ++ b) (wa ++ wb).
Proof.
  revert wa. induction a as [|t a IH]; intros [|w wa] Ha Hb; cbn in *; try tauto.
  destruct Ha as (A1 & A2 & A3). repeat split; auto.
Qed.
Lemma shapes_app a b wa wb : shapes a wa -> shapes b wb -> shapes (a ++ b) (wa ++ wb).
Proof.
  revert wa. induction a as [|t a IH]; intros [|w wa] Ha Hb; cbn in *; try tauto.
  destruct Ha as (A1 & A2). split; auto.
Qed.

Notation c2c' := (cond_c2c R Rplus Rmult Rdiv IZR).
Notation zero := (f0 R IZR).
Notation one := (f1 R IZR).

Lemma chain_cons1 dt up lnk c dn_last tail :
  chainR dt up lnk [c] dn_last tail =
  [Node (one + dt * (c_vt R c + up + dn_last)) (zero - dt * up) lnk (c_v R c + dt * c_ct R c) tail].
Proof. reflexivity. Qed.
Lemma chain_cons2 dt up lnk c nxt rest dn_last tail :
  chainR dt up lnk (c :: nxt :: rest) dn_last tail =
  [Node (one + dt * (c_vt R c + up + c2c' c nxt)) (zero - dt * up) lnk (c_v R c + dt * c_ct R c)
        (chainR dt (c2c' nxt c) (zero - dt * c2c' c nxt) (nxt :: rest) dn_last tail)].
Proof. reflexivity. Qed.
Lemma chain_w_cons2 c nxt rest tailw :
  chain_w (c :: nxt :: rest) tailw = [SNode (wcomp c) (chain_w (nxt :: rest) tailw)].
Proof. reflexivity. Qed.

Lemma chain_sym dt : forall cs wp up lnk dn_last tail tailw,
  Forall comp_pos cs -> cs <> [] ->
  wp * lnk = wcomp (first_of R IZR cs) * (zero - dt * up) ->
  symws (wcomp (last_of R IZR cs)) tail tailw -> shapes tail tailw ->
  symws wp (chainR dt up lnk cs dn_last tail) (chain_w cs tailw) /\
  shapes (chainR dt up lnk cs dn_last tail) (chain_w cs tailw).
Proof.
  induction cs as [|c rest IH]; intros wp up lnk dn_last tail tailw Hpos Hne Hedge Htail Hsh; [congruence|].
  inversion Hpos as [|? ? Hc Hrest]; subst.
  destruct rest as [|nxt rest'].
  - rewrite chain_cons1. cbn [chain_w]. cbn [symws shapes t_l t_u s_x]. cbn [first_of hd] in Hedge.
    cbn [last_of last] in Htail.
    split; [split; [exact Hedge | split; [apply symw_unfold; exact Htail | exact I]]|].
    split; [apply shape_unfold; exact Hsh | exact I].
  - inversion Hrest as [|? ? Hn Hrest']; subst.
    assert (E : wcomp c * (zero - dt * c2c' c nxt)
                = wcomp (first_of R IZR (nxt :: rest')) * (zero - dt * c2c' nxt c)).
    { cbn [first_of hd]. pose proof (c2c_reciprocal c nxt Hc Hn) as Rc. unfold c2c in Rc. unfold f0.
      replace (wcomp c * (0 - dt * c2c' c nxt)) with (- dt * (wcomp c * c2c' c nxt)) by ring.
      rewrite Rc. ring. }
    assert (L : last_of R IZR (c :: nxt :: rest') = last_of R IZR (nxt :: rest')) by reflexivity.
    rewrite L in Htail.
    destruct (IH (wcomp c) (c2c' nxt c) (zero - dt * c2c' c nxt) dn_last tail tailw Hrest) as [S1 S2];
      try discriminate; try assumption.
    cbn [first_of hd] in Hedge.
    rewrite chain_cons2, chain_w_cons2. cbn [symws shapes t_l t_u s_x].
    split; [split; [exact Hedge | split; [apply symw_unfold; exact S1 | exact I]]|].
    split; [apply shape_unfold; exact S2 | exact I].
Qed.

Theorem build_sym dt parents branches :
  well_formed branches -> length parents = length branches -> sorted parents ->
  forall fuel b hp wp, (b < length branches)%nat -> (length branches - b <= fuel)%nat ->
    (hp = true -> wp = dt * 10000) ->
    symws wp (buildR fuel parents branches dt b hp) (build_w fuel parents branches dt b) /\
    shapes (buildR fuel parents branches dt b hp) (build_w fuel parents branches dt b).
Proof.
  intros Hwf Hlen Hsorted. induction fuel as [|fuel IH]; intros b hp wp Hb Hf Hwp; [lia|].
  destruct (nth_branch_ok branches b Hwf Hb) as [Hne Hpos].
  pose proof (first_pos _ Hne Hpos) as Hfirst. pose proof (last_pos _ Hne Hpos) as Hlast.
  cbn [build build_w].
  set (cs := nth b branches []) in *.
  assert (Hk : forall k, In k (children parents b) -> (k < length branches)%nat /\ (b < k)%nat).
  { intros k Hin. split; [rewrite <- Hlen; eapply children_lt; exact Hin | eapply children_gt; eauto]. }
  assert (EDGE : wp * (if hp then zero - weight_c2bp R Rmult Rdiv IZR (first_of R IZR cs) else zero)
                 = wcomp (first_of R IZR cs) * (zero - dt * (if hp then cond_bp2c R Rmult Rdiv IZR (first_of R IZR cs) else zero))).
  { destruct hp.
    - rewrite (Hwp eq_refl). pose proof (bp_weight_identity _ Hfirst) as I1. unfold bp2c, wbp in I1. unfold f0.
      replace (wcomp (first_of R IZR cs) * (0 - dt * cond_bp2c R Rmult Rdiv IZR (first_of R IZR cs)))
        with (- dt * (wcomp (first_of R IZR cs) * cond_bp2c R Rmult Rdiv IZR (first_of R IZR cs))) by ring.
      rewrite I1. ring.
    - unfold f0. ring. }
  destruct (children parents b) as [|k0 kids'] eqn:Ekids.
  - apply chain_sym; try assumption; exact I.
  - set (kl := k0 :: kids') in *.
    assert (SUB : forall l, (forall k, In k l -> (k < length branches)%nat /\ (b < k)%nat) ->
               symws (dt * 10000) (flat_map (fun k => buildR fuel parents branches dt k true) l)
                                  (flat_map (build_w fuel parents branches dt) l) /\
               shapes (flat_map (fun k => buildR fuel parents branches dt k true) l)
                      (flat_map (build_w fuel parents branches dt) l)).
    { induction l as [|k l IHl]; intros Hl; cbn [flat_map]; [split; exact I|].
      destruct (Hl k (or_introl eq_refl)) as [K1 K2].
      destruct (IH k true (dt * 10000) K1) as [A1 A2]; [lia | reflexivity |].
      destruct IHl as [B1 B2]; [intros k' Hk'; apply Hl; right; exact Hk'|].
      split; [apply symws_app; assumption | apply shapes_app; assumption]. }
    destruct (SUB kl Hk) as [S1 S2].
    apply chain_sym; try assumption.
    + cbn [symws t_l t_u s_x]. split; [|split; [apply symw_unfold; exact S1 | exact I]].
      pose proof (bp_weight_identity _ Hlast) as I1. unfold bp2c, wbp in I1. unfold f0.
      replace (wcomp (last_of R IZR cs) * (0 - dt * cond_bp2c R Rmult Rdiv IZR (last_of R IZR cs)))
        with (- dt * (wcomp (last_of R IZR cs) * cond_bp2c R Rmult Rdiv IZR (last_of R IZR cs))) by ring.
      rewrite I1. ring.
    + cbn [shapes]. split; [apply shape_unfold; exact S2 | exact I].
Qed.

(* ---------------------------------------------------------------- maximum principle *)
(* passive, unstimulated: constant term = voltage term * reversal potential, E <= M *)
Definition passive_le (M : R) (c : compR) : Prop := c_v R c <= M /\ c_ct R c <= c_vt R c * M.
Definition passive_ge (m : R) (c : compR) : Prop := m <= c_v R c /\ c_vt R c * m <= c_ct R c.

Lemma all_rhs_le_app M a b : all_rhs_le M a -> all_rhs_le M b -> all_rhs_le M (a ++ b).
Proof. induction a; cbn; intros; tauto. Qed.
Lemma all_rhs_ge_app m a b : all_rhs_ge m a -> all_rhs_ge m b -> all_rhs_ge m (a ++ b).
Proof. induction a; cbn; intros; tauto. Qed.

Lemma chain_rhs_le dt M : 0 < dt ->
  forall cs up lnk dn_last tail,
    Forall comp_pos cs -> Forall (passive_le M) cs ->
    all_rhs_le M tail -> lsum tail = - (dt * dn_last) -> cs <> [] ->
    all_rhs_le M (chainR dt up lnk cs dn_last tail).
Proof.
  intros Hdt. induction cs as [|c rest IH]; intros up lnk dn_last tail Hpos Hpas Htail Hls Hne; [congruence|].
  inversion Hpos as [|? ? Hc Hrest]; subst. inversion Hpas as [|? ? Hp Hprest]; subst.
  destruct Hc as (Hr & Hl & Hra & Hcm & Hvt). destruct Hp as [Hv Hct].
  assert (Hb : c_v R c + dt * c_ct R c <= (1 + dt * c_vt R c) * M) by nra.
  destruct rest as [|nxt rest'].
  - rewrite chain_cons1. cbn [all_rhs_le]. split; [|exact I]. apply rhs_le_unfold. split; [|exact Htail].
    rewrite Hls. unfold f0, f1.
    replace (1 + dt * (c_vt R c + up + dn_last) + (0 - dt * up) + - (dt * dn_last)) with (1 + dt * c_vt R c) by ring.
    exact Hb.
  - rewrite chain_cons2. cbn [all_rhs_le]. split; [|exact I]. apply rhs_le_unfold. split.
    + rewrite chain_lsum by discriminate. unfold f0, f1.
      replace (1 + dt * (c_vt R c + up + c2c' c nxt) + (0 - dt * up) + (0 - dt * c2c' c nxt)) with (1 + dt * c_vt R c) by ring.
      exact Hb.
    + apply IH; try assumption; discriminate.
Qed.

Lemma chain_rhs_ge dt m : 0 < dt ->
  forall cs up lnk dn_last tail,
    Forall comp_pos cs -> Forall (passive_ge m) cs ->
    all_rhs_ge m tail -> lsum tail = - (dt * dn_last) -> cs <> [] ->
    all_rhs_ge m (chainR dt up lnk cs dn_last tail).
Proof.
  intros Hdt. induction cs as [|c rest IH]; intros up lnk dn_last tail Hpos Hpas Htail Hls Hne; [congruence|].
  inversion Hpos as [|? ? Hc Hrest]; subst. inversion Hpas as [|? ? Hp Hprest]; subst.
  destruct Hc as (Hr & Hl & Hra & Hcm & Hvt). destruct Hp as [Hv Hct].
  assert (Hb : (1 + dt * c_vt R c) * m <= c_v R c + dt * c_ct R c) by nra.
  destruct rest as [|nxt rest'].
  - rewrite chain_cons1. cbn [all_rhs_ge]. split; [|exact I]. apply rhs_ge_unfold. split; [|exact Htail].
    rewrite Hls. unfold f0, f1.
    replace (1 + dt * (c_vt R c + up + dn_last) + (0 - dt * up) + - (dt * dn_last)) with (1 + dt * c_vt R c) by ring.
    exact Hb.
  - rewrite chain_cons2. cbn [all_rhs_ge]. split; [|exact I]. apply rhs_ge_unfold. split.
    + rewrite chain_lsum by discriminate. unfold f0, f1.
      replace (1 + dt * (c_vt R c + up + c2c' c nxt) + (0 - dt * up) + (0 - dt * c2c' c nxt)) with (1 + dt * c_vt R c) by ring.
      exact Hb.
    + apply IH; try assumption; discriminate.
Qed.

Section Bounds.
  Variables (dt : R) (parents : list nat) (branches : list (list compR)).
  Hypothesis Hdt : 0 < dt.
  Hypothesis Hwf : well_formed branches.
  Hypothesis Hlen : length parents = length branches.
  Hypothesis Hsorted : sorted parents.

  Lemma build_rhs_le M :
    Forall (Forall (passive_le M)) branches ->
    forall fuel b hp, (b < length branches)%nat -> (length branches - b <= fuel)%nat ->
      all_rhs_le M (buildR fuel parents branches dt b hp).
  Proof.
    intros Hpas. induction fuel as [|fuel IH]; intros b hp Hb Hf; [lia|].
    destruct (nth_branch_ok branches b Hwf Hb) as [Hne Hpos].
    assert (Hpb : Forall (passive_le M) (nth b branches [])).
    { rewrite Forall_forall in Hpas. apply Hpas. apply nth_In. exact Hb. }
    pose proof (last_pos _ Hne Hpos) as Hlast.
    cbn [build]. set (cs := nth b branches []) in *.
    assert (Hk : forall k, In k (children parents b) -> (k < length branches)%nat /\ (b < k)%nat).
    { intros k Hin. split; [rewrite <- Hlen; eapply children_lt; exact Hin | eapply children_gt; eauto]. }
    destruct (children parents b) as [|k0 kids'] eqn:Ekids.
    - apply chain_rhs_le; try assumption; [exact I | unfold lsum, f0; cbn; ring].
    - set (kl := k0 :: kids') in *.
      assert (SUB : forall l, (forall k, In k l -> (k < length branches)%nat /\ (b < k)%nat) ->
                 all_rhs_le M (flat_map (fun k => buildR fuel parents branches dt k true) l) /\
                 lsum (flat_map (fun k => buildR fuel parents branches dt k true) l)
                 = - fold_right (fun k acc => wbp (first_of R IZR (nth k branches [])) + acc) 0 l).
      { induction l as [|k l IHl]; intros Hl; cbn [flat_map fold_right]; [split; [exact I | unfold lsum; cbn; ring]|].
        destruct (Hl k (or_introl eq_refl)) as [K1 K2].
        destruct (build_dominant dt parents branches Hdt Hwf Hlen Hsorted fuel k true K1) as [_ A2]; [lia|].
        destruct IHl as [B1 B2]; [intros k' Hk'; apply Hl; right; exact Hk'|].
        split; [apply all_rhs_le_app; [apply IH; [exact K1 | lia] | exact B1]|].
        rewrite lsum_app, A2, B2. ring. }
      destruct (SUB kl Hk) as [S1 S2].
      apply chain_rhs_le; try assumption.
      + cbn [all_rhs_le]. split; [|exact I]. apply rhs_le_unfold. split; [|exact S1].
        change (fold_left (fun acc k => acc + weight_c2bp R Rmult Rdiv IZR (first_of R IZR (nth k branches []))) kl
                          (weight_c2bp R Rmult Rdiv IZR (last_of R IZR cs)))
          with (fold_left (fun acc k => acc + wbp (first_of R IZR (nth k branches []))) kl (wbp (last_of R IZR cs))).
        rewrite wsum_fold, S2. fold (wbp (last_of R IZR cs)). unfold f0.
        match goal with |- _ <= ?X * M => replace X with 0 by ring end. lra.
      + unfold lsum. cbn [fold_right t_l]. unfold f0. ring.
  Qed.

  Lemma build_rhs_ge m :
    Forall (Forall (passive_ge m)) branches ->
    forall fuel b hp, (b < length branches)%nat -> (length branches - b <= fuel)%nat ->
      all_rhs_ge m (buildR fuel parents branches dt b hp).
  Proof.
    intros Hpas. induction fuel as [|fuel IH]; intros b hp Hb Hf; [lia|].
    destruct (nth_branch_ok branches b Hwf Hb) as [Hne Hpos].
    assert (Hpb : Forall (passive_ge m) (nth b branches [])).
    { rewrite Forall_forall in Hpas. apply Hpas. apply nth_In. exact Hb. }
    pose proof (last_pos _ Hne Hpos) as Hlast.
    cbn [build]. set (cs := nth b branches []) in *.
    assert (Hk : forall k, In k (children parents b) -> (k < length branches)%nat /\ (b < k)%nat).
    { intros k Hin. split; [rewrite <- Hlen; eapply children_lt; exact Hin | eapply children_gt; eauto]. }
    destruct (children parents b) as [|k0 kids'] eqn:Ekids.
    - apply chain_rhs_ge; try assumption; [exact I | unfold lsum, f0; cbn; ring].
    - set (kl := k0 :: kids') in *.
      assert (SUB : forall l, (forall k, In k l -> (k < length branches)%nat /\ (b < k)%nat) ->
                 all_rhs_ge m (flat_map (fun k => buildR fuel parents branches dt k true) l) /\
                 lsum (flat_map (fun k => buildR fuel parents branches dt k true) l)
                 = - fold_right (fun k acc => wbp (first_of R IZR (nth k branches [])) + acc) 0 l).
      { induction l as [|k l IHl]; intros Hl; cbn [flat_map fold_right]; [split; [exact I | unfold lsum; cbn; ring]|].
        destruct (Hl k (or_introl eq_refl)) as [K1 K2].
        destruct (build_dominant dt parents branches Hdt Hwf Hlen Hsorted fuel k true K1) as [_ A2]; [lia|].
        destruct IHl as [B1 B2]; [intros k' Hk'; apply Hl; right; exact Hk'|].
        split; [apply all_rhs_ge_app; [apply IH; [exact K1 | lia] | exact B1]|].
        rewrite lsum_app, A2, B2. ring. }
      destruct (SUB kl Hk) as [S1 S2].
      apply chain_rhs_ge; try assumption.
      + cbn [all_rhs_ge]. split; [|exact I]. apply rhs_ge_unfold. split; [|exact S1].
        change (fold_left (fun acc k => acc + weight_c2bp R Rmult Rdiv IZR (first_of R IZR (nth k branches []))) kl
                          (weight_c2bp R Rmult Rdiv IZR (last_of R IZR cs)))
          with (fold_left (fun acc k => acc + wbp (first_of R IZR (nth k branches []))) kl (wbp (last_of R IZR cs))).
        rewrite wsum_fold, S2. fold (wbp (last_of R IZR cs)). unfold f0.
        match goal with |- ?X * m <= _ => replace X with 0 by ring end. lra.
      + unfold lsum. cbn [fold_right t_l]. unfold f0. ring.
  Qed.

  Hypothesis Hn : (0 < length branches)%nat.

  Lemma root_tree_is_head :
    exists t0, buildR (length parents) parents branches dt 0 false = [t0] /\
               root_treeR parents branches dt = t0 /\ t_u t0 = 0.
  Proof.
    destruct (nth_branch_ok branches O Hwf) as [N1 _]; [lia|].
    unfold root_tree. rewrite Hlen. destruct (length branches) as [|n] eqn:En; [lia|]. cbn [build].
    destruct (nth 0 branches []) as [|c rest] eqn:E0; [congruence|].
    destruct rest as [|nxt rest'].
    - rewrite chain_cons1. eexists. split; [reflexivity|]. split; [reflexivity|]. cbn. unfold f0. ring.
    - rewrite chain_cons2. eexists. split; [reflexivity|]. split; [reflexivity|]. cbn. unfold f0. ring.
  Qed.

  (* MAXIMUM PRINCIPLE (backward Euler, any dt > 0): every new voltage, branch points
     included, lies between the extremes of the previous voltages and reversal potentials *)
  Theorem cable_max_principle m M :
    Forall (Forall (passive_le M)) branches -> Forall (Forall (passive_ge m)) branches ->
    Forall (fun x => m <= x <= M) (flatten (backsubR (root_treeR parents branches dt) 0)).
  Proof.
    intros HM Hm. destruct root_tree_is_head as (t0 & E & Et & Hu). rewrite Et.
    destruct (build_dominant dt parents branches Hdt Hwf Hlen Hsorted (length parents) O false) as [D _]; [lia | lia |].
    pose proof (build_rhs_le M HM (length parents) O false) as BL.
    pose proof (build_rhs_ge m Hm (length parents) O false) as BG.
    rewrite E in D, BL, BG. cbn in D. destruct D as [D _].
    destruct BL as [BL _]; [lia | lia |]. destruct BG as [BG _]; [lia | lia |].
    pose proof (max_principle_sub M t0 0 D BL (or_intror Hu)) as U.
    pose proof (min_principle_sub m t0 0 D BG (or_intror Hu)) as L.
    rewrite Forall_forall in *. intros x Hx. split; [apply L | apply U]; exact Hx.
  Qed.

  (* RECIPROCITY and CHARGE BALANCE hypotheses hold for every cell: the assembled system has
     symmetrising weights (cm * r * l per compartment, dt * 1e4 per branch point) *)
  Theorem cable_symmetrisable :
    exists w, symw (root_treeR parents branches dt) w /\ shape (root_treeR parents branches dt) w.
  Proof.
    destruct root_tree_is_head as (t0 & E & Et & Hu). rewrite Et.
    destruct (build_sym dt parents branches Hwf Hlen Hsorted (length parents) O false 0) as [S1 S2];
      [lia | lia | discriminate |].
    rewrite E in S1, S2.
    destruct (build_w (length parents) parents branches dt 0) as [|w0 [|? ?]]; cbn in S1, S2; try tauto.
    exists w0. tauto.
  Qed.
End Bounds.

(* ---------------------------------------------------------------- Layer G identities *)
(* the double nearest to pi, as it appears in the traced program (2*pi folded) *)
Definition pi_f : R := 3141592653589793 / 1000000000000000.

(* a point current of I nA is converted with the membrane area of the TARGET compartment:
   (current density) * (area) = 1e5 * I  whatever the geometry *)
Lemma stimulus_charge I r l : 0 < r -> 0 < l ->
  point_to_distributed__i I r l * (2 * pi_f * r * l) = 100000 * I.
Proof.
  intros. unfold point_to_distributed__i, pi_f. cbv zeta. field. split; lra.
Qed.

(* code-level reciprocity: conductance * area is the same in both directions *)
Lemma coupling_cond_reciprocal r1 r2 ra1 ra2 l1 l2 :
  0 < r1 -> 0 < r2 -> 0 < ra1 -> 0 < ra2 -> 0 < l1 -> 0 < l2 ->
  coupling_cond__g r1 r2 ra1 ra2 l1 l2 * (r1 * l1) = coupling_cond__g r2 r1 ra2 ra1 l2 l1 * (r2 * l2).
Proof.
  intros. unfold coupling_cond__g. cbv zeta.
  assert (0 < ra1 * r2 ^ 2 * l1 + ra2 * r1 ^ 2 * l2).
  { apply Rplus_lt_0_compat; repeat apply Rmult_lt_0_compat; try lra; apply pow_lt; lra. }
  assert (ra2 * r1 ^ 2 * l2 + ra1 * r2 ^ 2 * l1 <> 0) by lra.
  field. repeat split; lra.
Qed.

(* one common factor between the coupling of a compartment to a branch point and its
   Kirchhoff weight: makes the per-area rows a row scaling of a symmetric system *)
Lemma branchpoint_weights_proportional r ra l : 0 < r -> 0 < ra -> 0 < l ->
  coupling_cond_branchpoint__g r ra l * (r * l) = 10 ^ 7 * impact_on_node__g r ra l.
Proof.
  intros. unfold coupling_cond_branchpoint__g, impact_on_node__g. cbv zeta. field. split; lra.
Qed.

Lemma uniform_stays_uniform :
  forall dt parents (branches : list (list compR)) V,
    0 < dt -> well_formed branches -> length parents = length branches -> sorted parents ->
    (0 < length branches)%nat ->
    Forall (Forall (fun c => c_v R c = V /\ c_ct R c = c_vt R c * V)) branches ->
    Forall (fun x => x = V) (flatten (backsubR (root_treeR parents branches dt) 0)).
Proof.
  intros dt parents branches V Hdt Hwf Hlen Hs Hn Hu.
  assert (HM : Forall (Forall (passive_le V)) branches).
  { eapply Forall_impl; [|exact Hu]. intros cs Hcs. eapply Forall_impl; [|exact Hcs].
    intros c [E1 E2]. unfold passive_le. rewrite E1, E2. lra. }
  assert (Hm : Forall (Forall (passive_ge V)) branches).
  { eapply Forall_impl; [|exact Hu]. intros cs Hcs. eapply Forall_impl; [|exact Hcs].
    intros c [E1 E2]. unfold passive_ge. rewrite E1, E2. lra. }
  pose proof (cable_max_principle dt parents branches Hdt Hwf Hlen Hs Hn V V HM Hm) as P.
  eapply Forall_impl; [|exact P]. intros x Hx. lra.
Qed.

Lemma c02_example :
  let c := mkcomp R 1 10 5000 1 (-70) (1/10) (-7) in
  passive_le (-70) c /\ passive_ge (-70) c.
Proof. intros c. unfold passive_le, passive_ge, c; cbn. lra. Qed.
