(* Facts about the generated solver_gate functions and the generated _vtrap / efun. *)
From Coq Require Import Reals Lra Bool.
From JV Require Import Prim RLemmas GSolverGate GChannels.
Local Open Scope R_scope.

(* ---- recognition ------------------------------------------------------------ *)
Lemma save_exp_is_sexp x : save_exp__r x = sexp x.
Proof. reflexivity. Qed.

(* replace the (single kind of) clipped exponent A by B, given A = B and B <= 20 *)
Ltac unclip B :=
  match goal with
  | |- context [Rmin ?A 20] =>
      replace (Rmin A 20) with B;
      [ | let H := fresh in
          assert (H : A = B) by (field; try lra; try nra);
          try rewrite H; symmetry; apply Rmin_left ]
  end.

Lemma sge_closed_form x dt a b :
  0 < dt -> 0 < a -> 0 < b ->
  solve_gate_exponential__r x dt a b = expeuler x (a / (a + b)) (exp (- (dt * (a + b)))).
Proof.
  intros Hdt Ha Hb. unfold solve_gate_exponential__r, expeuler. cbv zeta.
  unclip (- (dt * (a + b))).
  - field; lra.
  - assert (0 < dt * (a + b)) by (apply Rmult_lt_0_compat; lra). lra.
Qed.

Lemma sge_dom x dt a b : 0 < a -> 0 < b -> solve_gate_exponential__r_dom x dt a b.
Proof.
  intros Ha Hb. unfold solve_gate_exponential__r_dom. cbv zeta.
  assert (a + b <> 0) by lra.
  assert (1 / (a + b) <> 0) by (pose proof (ab_tau_pos a b Ha Hb); lra).
  tauto.
Qed.

Lemma sige_closed_form x dt sinf tau :
  0 < dt -> 0 < tau ->
  solve_inf_gate_exponential__r x dt sinf tau = expeuler x sinf (exp (- dt / tau)).
Proof.
  intros Hdt Ht. unfold solve_inf_gate_exponential__r, expeuler. cbv zeta.
  assert (0 < dt / tau) by (apply Rdiv_lt_0_compat; lra).
  unclip (- dt / tau).
  - reflexivity.
  - replace (- dt / tau) with (- (dt / tau)) by (field; lra). lra.
Qed.

Lemma sige_dom x dt sinf tau : 0 < tau -> solve_inf_gate_exponential__r_dom x dt sinf tau.
Proof.
  intros Ht. unfold solve_inf_gate_exponential__r_dom. cbv zeta. lra.
Qed.

Lemma ee_closed_form x dt xinf tau :
  0 < dt -> 0 < tau ->
  exponential_euler__r x dt xinf tau = expeuler x xinf (exp (- dt / tau)).
Proof.
  intros Hdt Ht. unfold exponential_euler__r, expeuler. cbv zeta.
  assert (0 < dt / tau) by (apply Rdiv_lt_0_compat; lra).
  unclip (- dt / tau).
  - reflexivity.
  - replace (- dt / tau) with (- (dt / tau)) by (field; lra). lra.
Qed.

(* consequences shared by every gate *)
Lemma expeuler_gate_facts x xinf e :
  0 < e < 1 -> 0 <= x <= 1 -> 0 < xinf < 1 ->
  0 <= expeuler x xinf e <= 1 /\
  Rmin x xinf <= expeuler x xinf e <= Rmax x xinf /\
  expeuler x xinf e - xinf = (x - xinf) * e /\
  expeuler xinf xinf e = xinf.
Proof.
  intros He Hx Hi. split; [apply expeuler_unit; lra|].
  split; [apply expeuler_between; lra|].
  split; [apply expeuler_contracts | apply expeuler_fixed].
Qed.

Lemma exp_rate_unit dt r : 0 < dt -> 0 < r -> 0 < exp (- (dt * r)) < 1.
Proof.
  intros. split; [apply exp_pos|]. apply exp_neg_lt1.
  assert (0 < dt * r) by (apply Rmult_lt_0_compat; lra). lra.
Qed.

(* ---- the guarded x/(exp(x/y)-1) and x/(exp x - 1) of the code ------------------ *)
Lemma small_abs x eps : Rabs x < eps -> - eps < x < eps.
Proof. intros H; apply Rabs_def2 in H; lra. Qed.

Lemma vtrap_pos x y : 0 < y -> 0 < vtrap__r x y.
Proof.
  intros Hy. unfold vtrap__r. cbv zeta.
  destruct (rltb_spec (Rabs (x / y)) (1 / 1000000)) as [Hs|Hs].
  - apply small_abs in Hs. apply Rmult_lt_0_compat; lra.
  - assert (x / y <> 0) as Hne.
    { intros E. rewrite E, Rabs_R0 in Hs. lra. }
    assert (x = (x / y) * y) as Hx by (field; lra).
    replace (x / (exp (Rmin (x / y) 20) - 1)) with ((x / y) / (sexp (x / y) - 1) * y).
    + apply Rmult_lt_0_compat; [apply efun_clipped_pos; auto | auto].
    + unfold sexp. field. split; [|lra].
      fold (sexp (x / y)). pose proof (efun_clipped_pos (x / y) Hne) as P.
      intros E. rewrite E in P. unfold Rdiv in P. rewrite Rinv_0 in P. lra.
Qed.

Lemma vtrap_dom x y : 0 < y -> vtrap__r_dom x y.
Proof.
  intros Hy. unfold vtrap__r_dom. cbv zeta.
  assert (y <> 0) by lra.
  destruct (rltb_spec (Rabs (x / y)) (1 / 1000000)) as [Hs|Hs].
  - tauto.
  - assert (x / y <> 0) as Hne.
    { intros E. rewrite E, Rabs_R0 in Hs. lra. }
    assert (exp (Rmin (x / y) 20) - 1 <> 0).
    { fold (sexp (x / y)). pose proof (efun_clipped_pos (x / y) Hne) as P.
      intros E. rewrite E in P. unfold Rdiv in P. rewrite Rinv_0 in P. lra. }
    tauto.
Qed.

Lemma vtrap_gdom x y : 0 < y -> vtrap__r_gdom x y.
Proof.
  intros Hy. unfold vtrap__r_gdom. cbv zeta.
  assert (y <> 0) by lra.
  assert (exp (Rmin ((if rltb (Rabs (x / y)) (1 / 1000000) then y else x) / y) 20) - 1 <> 0).
  { destruct (rltb_spec (Rabs (x / y)) (1 / 1000000)) as [Hs|Hs].
    - replace (y / y) with 1 by (field; lra). rewrite Rmin_left by lra.
      pose proof (exp_pos_gt1 1). lra.
    - assert (x / y <> 0) as Hne.
      { intros E. rewrite E, Rabs_R0 in Hs. lra. }
      fold (sexp (x / y)). pose proof (efun_clipped_pos (x / y) Hne) as P.
      intros E. rewrite E in P. unfold Rdiv in P. rewrite Rinv_0 in P. lra. }
  tauto.
Qed.

Lemma efun_gen_pos x : 0 < efun__r x.
Proof.
  unfold efun__r. cbv zeta.
  destruct (rltb_spec (Rabs x) (1 / 1000000)) as [Hs|Hs].
  - apply small_abs in Hs. lra.
  - assert (x <> 0) as Hne.
    { intros E. rewrite E, Rabs_R0 in Hs. lra. }
    apply (efun_clipped_pos x Hne).
Qed.

Lemma efun_gen_dom x : efun__r_dom x.
Proof.
  unfold efun__r_dom. cbv zeta.
  destruct (rltb_spec (Rabs x) (1 / 1000000)) as [Hs|Hs].
  - tauto.
  - assert (x <> 0) as Hne.
    { intros E. rewrite E, Rabs_R0 in Hs. lra. }
    assert (exp (Rmin x 20) - 1 <> 0).
    { fold (sexp x). pose proof (efun_clipped_pos x Hne) as P.
      intros E. rewrite E in P. unfold Rdiv in P. rewrite Rinv_0 in P. lra. }
    tauto.
Qed.

Lemma efun_gen_gdom x : efun__r_gdom x.
Proof.
  unfold efun__r_gdom. cbv zeta.
  destruct (rltb_spec (Rabs x) (1 / 1000000)) as [Hs|Hs].
  - rewrite Rmin_left by lra. pose proof (exp_pos_gt1 1). lra.
  - assert (x <> 0) as Hne.
    { intros E. rewrite E, Rabs_R0 in Hs. lra. }
    fold (sexp x). pose proof (efun_clipped_pos x Hne) as P.
    intros E. rewrite E in P. unfold Rdiv in P. rewrite Rinv_0 in P. lra.
Qed.

(* agreement with the unguarded published form away from the singularity, and
   closeness to its continuous extension next to it *)
Lemma efun_gen_eq x : 1 / 1000000 <= Rabs x -> x <= 20 -> efun__r x = x / (exp x - 1).
Proof.
  intros Hs Hx. unfold efun__r. cbv zeta.
  destruct (rltb_spec (Rabs x) (1 / 1000000)) as [Hs'|_]; [lra|].
  rewrite Rmin_left by auto. reflexivity.
Qed.
Lemma efun_gen_near x : Rabs x < 1 / 1000000 -> Rabs (efun__r x - 1) <= 1 / 1000000.
Proof.
  intros Hs. unfold efun__r. cbv zeta.
  destruct (rltb_spec (Rabs x) (1 / 1000000)) as [_|Hs']; [|lra].
  apply small_abs in Hs. apply Rabs_le. lra.
Qed.
Lemma vtrap_eq x y : 0 < y -> 1 / 1000000 <= Rabs (x / y) -> x / y <= 20 ->
  vtrap__r x y = x / (exp (x / y) - 1).
Proof.
  intros Hy Hs Hx. unfold vtrap__r. cbv zeta.
  destruct (rltb_spec (Rabs (x / y)) (1 / 1000000)) as [Hs'|_]; [lra|].
  rewrite Rmin_left by auto. reflexivity.
Qed.
Lemma vtrap_near x y : 0 < y -> Rabs (x / y) < 1 / 1000000 ->
  vtrap__r x y = y * (1 - x / y / 2).
Proof.
  intros Hy Hs. unfold vtrap__r. cbv zeta.
  destruct (rltb_spec (Rabs (x / y)) (1 / 1000000)) as [_|Hs']; [|lra].
  reflexivity.
Qed.
