(* C15: the Lax bound for an ARBITRARY reference.  Given any sequence U^n of compartment voltages (think: the exact
   solution of the cable equation sampled at the compartment centres), complete it at the branch points by Kirchhoff
   balance (the conductance-weighted mean of the adjacent compartments) and call
       residual^n_c = [ U^{n+1}_c (1 + dt vt_c) + dt sum_{e into c} g_e (U^{n+1}_c - value at source e) - U^n_c ] / dt - ct_c
   the amount by which U fails the scheme at compartment c (its local truncation error).  Then U satisfies the scheme
   with constant terms ct + residual, hence (error_accumulates)  |V^n_c - U^n_c| <= E0 + n dt max|residual|. *)
From Coq Require Import Reals List Arith Bool Lia Lra.
From JV Require Import HinesArr HinesCheck HinesArrFacts HinesArrPositive AsmStruct AssembleM AssembleGraph GraphMax SparseAsm SparseFacts GraphStability.
Import ListNotations.
Local Open Scope R_scope.

Section Residual.
  Variables (ly : layout) (tp : topo).
  Hypothesis W : wf ly tp.
  Variables (mask : nat -> nat) (ncomp : nat) (es : list (edge R)) (dt : R) (group child_inds par_inds : list nat).
  Hypothesis G : graph_struct ly tp mask ncomp es group child_inds par_inds.
  Hypothesis B : graph_struct_bp ly mask ncomp es group child_inds par_inds.
  Hypothesis Hslot : forall c, (c < ncomp)%nat -> exists b r, (b < nb tp)%nat /\ (r < nc ly b)%nat /\ mask c = (cs ly b + r)%nat.
  Hypothesis Hn : (1 <= ncomp)%nat.
  Hypothesis Hdt : 0 < dt.
  Hypothesis Hg : forall e, In e es -> 0 < e_g R e.
  Notation g := (e_g R).
  Notation src := (e_source R).

  (* Kirchhoff balance at branch point j for compartment values u *)
  Definition ybal (u : nat -> R) (j : nat) : R :=
    wsum (fun e => g e * u (src e)) (bp_into ncomp j) es / wsum g (bp_into ncomp j) es.
  Definition zfull (u : nat -> R) (n : nat) : R := if (n <? ncomp)%nat then u n else ybal u (n - ncomp).

  Definition residual (uprev unext vt ct : nat -> R) (c : nat) : R :=
    (unext c * (1 + dt * vt c) + dt * wsum (fun e => g e * (unext c - zfull unext (src e))) (into c) es - uprev c) / dt - ct c.

  Lemma reference_solves_perturbed uprev unext vt ct :
    node_eq tp ncomp es uprev vt (fun c => ct c + residual uprev unext vt ct c) dt (zfull unext).
  Proof.
    split.
    - intros c Hc. unfold residual. unfold zfull at 1 2. destruct (Nat.ltb_spec c ncomp) as [_|]; [|lia]. field. lra.
    - intros j Hj. pose proof (bp_total_pos ly tp W mask ncomp es group child_inds par_inds G B Hg j Hj) as Hp.
      rewrite (wsum_val_ext (fun e => g e * (zfull unext (src e) - zfull unext (ncomp + j)%nat))
                            (fun e => g e * unext (src e) - g e * ybal unext j)).
      + rewrite wsum_minus, wsum_mul_const. unfold ybal. field. lra.
      + intros e He Hp'. pose proof (bp_edge_source ly tp mask ncomp es group child_inds par_inds G B j e He Hp') as Hs.
        unfold zfull. destruct (Nat.ltb_spec (src e) ncomp) as [_|]; [|lia]. destruct (Nat.ltb_spec (ncomp + j) ncomp) as [|_]; [lia|].
        replace (ncomp + j - ncomp)%nat with j by lia. ring.
  Qed.

  Variables (V U : nat -> nat -> R) (vtn ctn : nat -> nat -> R).
  Hypothesis Hvt : forall n c, (c < ncomp)%nat -> 0 <= vtn n c.
  Hypothesis SimStep : forall n, exists x y, graph_eq ly tp mask ncomp es (V n) (vtn n) (ctn n) dt x y /\
                                            forall c, (c < ncomp)%nat -> V (S n) c = x (mask c).

  Theorem error_against_any_reference E0 eps : 0 <= E0 -> 0 <= eps ->
    (forall c, (c < ncomp)%nat -> Rabs (V 0%nat c - U 0%nat c) <= E0) ->
    (forall n c, (c < ncomp)%nat -> Rabs (residual (U n) (U (S n)) (vtn n) (ctn n) c) <= eps) ->
    forall n c, (c < ncomp)%nat -> Rabs (V n c - U n c) <= E0 + INR n * (dt * eps).
  Proof.
    intros HE He H0 Hr.
    apply (error_accumulates ly tp W mask ncomp es dt group child_inds par_inds G B Hn Hdt Hg V U vtn ctn
             (fun n c => residual (U n) (U (S n)) (vtn n) (ctn n) c) Hvt SimStep); try assumption.
    intros n. exists (x_of mask ncomp (zfull (U (S n)))), (y_of ncomp (zfull (U (S n)))). split.
    - apply (node_to_graph ly tp W mask ncomp es _ _ _ dt group child_inds par_inds G Hslot). apply reference_solves_perturbed.
    - intros c Hc. rewrite (x_of_mask ly tp mask ncomp es group child_inds par_inds G _ c Hc). unfold zfull.
      destruct (Nat.ltb_spec c ncomp); [reflexivity | lia].
  Qed.
End Residual.
