(* For EVERY cell (sorted parent vector, counts >= 1) the index lists of Model/AsmIdx.v satisfy the
   consistency conditions of the assembly (AssembleM.asm_struct) w.r.t. the layout and topology of
   Model/HinesIdx.v.  Hence (AssembleTotal / C01): for every cell, all positive conductances, all
   non-negative membrane terms and every dt > 0 the implicit step returns THE solution. *)
From Coq Require Import Reals List Arith Bool Lia.
From JV Require Import HinesArr HinesCheck HinesArrFacts HinesArrPositive HinesIdx HinesTreeFacts HinesIdxFacts AsmStruct AssembleM AssembleTotal AsmIdx.
Import ListNotations.

(* ---- lists of triples with a constant type ---- *)
Lemma t_of_type_same t (l : list trip) : (forall e, In e l -> t_type e = t) -> t_of_type t l = l.
Proof.
  intros H. unfold t_of_type. induction l as [|e l IH]; [reflexivity|]. cbn [filter].
  rewrite (H e (or_introl eq_refl)), Nat.eqb_refl. f_equal. apply IH. intros; apply H; now right.
Qed.
Lemma t_of_type_other t t' (l : list trip) : t' <> t -> (forall e, In e l -> t_type e = t') -> t_of_type t l = [].
Proof.
  intros Hne H. unfold t_of_type. induction l as [|e l IH]; [reflexivity|]. cbn [filter].
  rewrite (H e (or_introl eq_refl)). destruct (Nat.eqb_spec t' t); [contradiction|]. apply IH. intros; apply H; now right.
Qed.
Lemma t_of_type_app t (a b : list trip) : t_of_type t (a ++ b) = t_of_type t a ++ t_of_type t b.
Proof. unfold t_of_type. apply filter_app. Qed.

(* ---- indexing into a flat_map over seq ---- *)
Lemma nth_flat_map_seq {A} (f : nat -> list A) (d : A) : forall n b r,
  b < n -> r < length (f b) ->
  nth (fold_right Nat.add 0 (map (fun b' => length (f b')) (seq 0 b)) + r) (flat_map f (seq 0 n)) d = nth r (f b) d.
Proof.
  induction n as [|n IH]; intros b r Hb Hr; [lia|].
  rewrite seq_S, flat_map_app. cbn [flat_map Nat.add]. rewrite app_nil_r.
  assert (Hlen : forall m, length (flat_map f (seq 0 m)) = fold_right Nat.add 0 (map (fun b' => length (f b')) (seq 0 m))).
  { induction m as [|m IHm]; [reflexivity|]. rewrite seq_S, flat_map_app, map_app, app_length. cbn [flat_map map fold_right Nat.add].
    rewrite app_nil_r, IHm. clear. generalize (map (fun b' => length (f b')) (seq 0 m)). intros l. induction l as [|x l IHl]; cbn; lia. }
  destruct (Nat.eq_dec b n) as [->|Hne].
  - rewrite app_nth2 by (rewrite Hlen; lia). rewrite Hlen. replace (_ + r - _) with r by lia. reflexivity.
  - rewrite app_nth1.
    + apply IH; lia.
    + rewrite Hlen. assert (Hb' : b < n) by lia. clear -Hb' Hr.
      replace n with (S b + (n - S b)) by lia. rewrite seq_app, map_app. rewrite seq_S, map_app. cbn [map].
      generalize (map (fun b' => length (f b')) (seq 0 b)) as l1. generalize (map (fun b' => length (f b')) (seq (S b) (n - S b))) as l2.
      intros l2 l1. assert (G : forall (l1 l2 : list nat) x, fold_right Nat.add 0 ((l1 ++ [x]) ++ l2) = fold_right Nat.add 0 l1 + x + fold_right Nat.add 0 l2).
      { clear. induction l1 as [|y l1 IHl]; intros l2 x; cbn [app fold_right]; [lia | rewrite IHl; lia]. }
      cbn [Nat.add]. rewrite G. lia.
Qed.

Section Cell.
  Variables (ps ns : list nat).
  Hypothesis nb_pos : 1 <= length ps.
  Hypothesis sorted : forall b, 1 <= b -> b < length ps -> nth b ps 0 < b.
  Hypothesis counts : forall b, b < length ps -> 1 <= nth b ns 0.

  Notation nbL := (length ps).
  Notation ly := (layout_of ps ns).
  Notation tp := (topo_of ps).
  Notation hk := (has_kids ps).
  Notation n3 := (length (par_inds_of ps)).

  Lemma tcs_S b : tcs ns (S b) = tcs ns b + ncomp_of ns b.
  Proof.
    unfold tcs. rewrite seq_S, map_app. cbn [map Nat.add]. generalize (map (ncomp_of ns) (seq 0 b)). intros l.
    induction l as [|x l IH]; cbn [app fold_right]; [lia | rewrite IH; lia].
  Qed.

  (* the slot of compartment r of branch b *)
  Lemma mask_at b r : b < nbL -> r < ncomp_of ns b -> nthD (mask_of ps ns) (tcs ns b + r) = cs_of ps ns b + r.
  Proof.
    intros Hb Hr. unfold nthD, mask_of.
    set (f := fun b => map (fun r => cs_of ps ns b + r) (seq 0 (ncomp_of ns b))).
    assert (E : tcs ns b = fold_right Nat.add 0 (map (fun b' => length (f b')) (seq 0 b))).
    { unfold tcs. f_equal. apply map_ext. intros a. unfold f. rewrite map_length, seq_length. reflexivity. }
    rewrite E. rewrite (nth_flat_map_seq f 0 nbL b r Hb) by (unfold f; rewrite map_length, seq_length; exact Hr).
    unfold f. rewrite (nth_indep _ 0 ((fun r => cs_of ps ns b + r) 0)) by (rewrite map_length, seq_length; exact Hr).
    rewrite (map_nth (fun r => cs_of ps ns b + r)), seq_nth by exact Hr. reflexivity.
  Qed.

  (* ---- the five blocks of the edge table ---- *)
  Lemma type_edges0 e : In e (edges0 ps ns) -> t_type e = 0.
  Proof.
    unfold edges0. rewrite in_flat_map. intros (b & _ & H). apply in_app_or in H.
    destruct H as [H|H]; apply in_map_iff in H; destruct H as (r & <- & _); reflexivity.
  Qed.
  Lemma type_edges1 e : In e (edges1 ps ns) -> t_type e = 1.
  Proof. unfold edges1. rewrite in_map_iff. intros (x & <- & _). reflexivity. Qed.
  Lemma type_edges2 e : In e (edges2 ps ns) -> t_type e = 2.
  Proof. unfold edges2. rewrite in_map_iff. intros (x & <- & _). reflexivity. Qed.
  Lemma type_edges3 e : In e (edges3 ps ns) -> t_type e = 3.
  Proof. unfold edges3. rewrite in_map_iff. intros (x & <- & _). reflexivity. Qed.
  Lemma type_edges4 e : In e (edges4 ps ns) -> t_type e = 4.
  Proof. unfold edges4. rewrite in_map_iff. intros (x & <- & _). reflexivity. Qed.

  Ltac blocks :=
    unfold triples_of; rewrite !t_of_type_app;
    repeat first
      [ rewrite (t_of_type_other _ 0 (edges0 ps ns)) by (try lia; exact type_edges0)
      | rewrite (t_of_type_other _ 1 (edges1 ps ns)) by (try lia; exact type_edges1)
      | rewrite (t_of_type_other _ 2 (edges2 ps ns)) by (try lia; exact type_edges2)
      | rewrite (t_of_type_other _ 3 (edges3 ps ns)) by (try lia; exact type_edges3)
      | rewrite (t_of_type_other _ 4 (edges4 ps ns)) by (try lia; exact type_edges4) ].

  Lemma block1 : t_of_type 1 (triples_of ps ns) = edges1 ps ns.
  Proof. blocks. rewrite (t_of_type_same 1 (edges1 ps ns)) by exact type_edges1. cbn [app]. rewrite app_nil_r. reflexivity. Qed.
  Lemma block2 : t_of_type 2 (triples_of ps ns) = edges2 ps ns.
  Proof. blocks. rewrite (t_of_type_same 2 (edges2 ps ns)) by exact type_edges2. cbn [app]. rewrite app_nil_r. reflexivity. Qed.
  Lemma block3 : t_of_type 3 (triples_of ps ns) = edges3 ps ns.
  Proof. blocks. rewrite (t_of_type_same 3 (edges3 ps ns)) by exact type_edges3. cbn [app]. rewrite app_nil_r. reflexivity. Qed.
  Lemma block4 : t_of_type 4 (triples_of ps ns) = edges4 ps ns.
  Proof. blocks. rewrite (t_of_type_same 4 (edges4 ps ns)) by exact type_edges4. cbn [app]. reflexivity. Qed.

  Lemma len_child : length (child_inds_of ps) = nbL - 1.
  Proof. unfold child_inds_of. apply seq_length. Qed.
  Lemma len_cbb : length (cbb ps) = nbL - 1.
  Proof. unfold cbb. rewrite map_length. apply len_child. Qed.
  Lemma len_edges1 : length (edges1 ps ns) = n3.
  Proof. unfold edges1. rewrite map_length, combine_length, seq_length. apply Nat.min_id. Qed.
  Lemma len_edges2 : length (edges2 ps ns) = nbL - 1.
  Proof. unfold edges2. rewrite map_length, combine_length, len_cbb, len_child. apply Nat.min_id. Qed.

  Lemma nth_child idx : idx < nbL - 1 -> nth idx (child_inds_of ps) 0 = S idx.
  Proof. intros H. unfold child_inds_of. rewrite seq_nth by exact H. reflexivity. Qed.

  Lemma sink_edges2 idx : idx < nbL - 1 -> t_sink (nth idx (edges2 ps ns) (0, 0, 0)) = tcs ns (S idx).
  Proof.
    intros H. unfold edges2.
    rewrite (nth_indep _ (0, 0, 0) ((fun jc => (total ps ns + fst jc, tcs ns (snd jc), 2)) (0, 0)))
      by (rewrite map_length, combine_length, len_cbb, len_child, Nat.min_id; exact H).
    rewrite (map_nth (fun jc => (total ps ns + fst jc, tcs ns (snd jc), 2))).
    rewrite combine_nth by (rewrite len_cbb, len_child; reflexivity). cbn [t_sink fst snd]. rewrite nth_child by exact H. reflexivity.
  Qed.

  Lemma sink_edges1 idx : idx < n3 ->
    t_sink (nth idx (edges1 ps ns) (0, 0, 0)) = tcs ns (nth idx (par_inds_of ps) 0 + 1) - 1.
  Proof.
    intros H. unfold edges1.
    rewrite (nth_indep _ (0, 0, 0) ((fun jp => (total ps ns + fst jp, tcs ns (snd jp + 1) - 1, 1)) (0, 0)))
      by (rewrite map_length, combine_length, seq_length, Nat.min_id; exact H).
    rewrite (map_nth (fun jp => (total ps ns + fst jp, tcs ns (snd jp + 1) - 1, 1))).
    rewrite combine_nth by (rewrite seq_length; reflexivity). cbn [t_sink fst snd]. reflexivity.
  Qed.

  Theorem cell_asm_struct (es : list (edge R)) : map strip es = triples_of ps ns ->
    asm_struct ly tp (nthD (mask_of ps ns)) es (group_of ps) (child_inds_of ps) (par_inds_of ps).
  Proof.
    intros E.
    assert (L : forall t, length (of_type R t es) = length (t_of_type t (triples_of ps ns))) by (intros t; rewrite length_of_type, E; reflexivity).
    assert (Sk : forall t idx, e_sink R (nth idx (of_type R t es) e0) = t_sink (nth idx (t_of_type t (triples_of ps ns)) (0, 0, 0)))
      by (intros t idx; rewrite sink_of_type, E; reflexivity).
    constructor.
    - rewrite L, block2, len_edges2, len_child. reflexivity.
    - rewrite L, block4. unfold edges4. rewrite map_length, len_edges2, len_child. reflexivity.
    - rewrite L, block1, len_edges1. reflexivity.
    - rewrite L, block3. unfold edges3. rewrite map_length, len_edges1. reflexivity.
    - unfold group_of. rewrite app_length, seq_length, len_cbb, len_child. reflexivity.
    - unfold child_inds_of. apply seq_NoDup.
    - intros idx Hi. rewrite len_child in Hi. rewrite Sk, block2, sink_edges2, nth_child by exact Hi.
      assert (Hb : S idx < nbL) by lia. pose proof (counts (S idx) Hb) as Hc.
      replace (tcs ns (S idx)) with (tcs ns (S idx) + 0) by lia. rewrite mask_at; [cbn [cs layout_of]; lia | exact Hb | exact Hc].
    - intros idx Hi. rewrite Sk, block1, sink_edges1 by exact Hi.
      destruct (nth_rank hk nbL idx Hi) as (Hp & _ & _). fold (parents_with_kids ps) in Hp. fold (par_inds_of ps) in Hp.
      set (p := nth idx (par_inds_of ps) 0) in *. pose proof (counts p Hp) as Hc. fold (ncomp_of ns p) in Hc.
      replace (p + 1) with (S p) by lia. rewrite tcs_S. replace (tcs ns p + ncomp_of ns p - 1) with (tcs ns p + (ncomp_of ns p - 1)) by lia.
      rewrite mask_at; [cbn [cs nc layout_of]; reflexivity | exact Hp | lia].
    - intros idx Hi. destruct (nth_rank hk nbL idx Hi) as (Hp & Hf & Hr). fold (parents_with_kids ps) in *. fold (par_inds_of ps) in *.
      cbn [cbp topo_of]. unfold par_inds_of, parents_with_kids, nbr in *. rewrite Hf. unfold group_of, par_inds_of, parents_with_kids, nbr. rewrite app_nth1 by (rewrite seq_length; exact Hi). rewrite seq_nth by exact Hi.
      f_equal. exact Hr.
    - intros idx Hi. rewrite len_child in Hi. rewrite nth_child by exact Hi. cbn [pbp topo_of Nat.eqb].
      unfold group_of. rewrite app_nth2 by (rewrite seq_length; lia). rewrite seq_length. replace (n3 + idx - n3) with idx by lia.
      unfold cbb. rewrite (nth_indep _ 0 ((fun b => bp_of ps (par_of ps b)) 0)) by (rewrite map_length, len_child; exact Hi).
      rewrite (map_nth (fun b => bp_of ps (par_of ps b))), nth_child by exact Hi. reflexivity.
    - intros c j Hc Hp. cbn [nb topo_of] in Hc. cbn [pbp topo_of] in Hp. destruct (Nat.eqb_spec c 0); [discriminate|].
      unfold child_inds_of. apply in_seq. unfold nbr in Hc. lia.
    - intros j Hj. cbn [nbp topo_of] in Hj. cbn [kids topo_of]. destruct (nth_rank hk nbL j Hj) as (Hp & Hf & _).
      fold (parents_with_kids ps) in *. apply (hk_spec ps nb_pos) in Hf. destruct Hf as (c & Hc1 & Hc2 & Hc3).
      intros N. assert (Hin : In c (kids_of ps (nth j (parents_with_kids ps) 0))) by (apply (kids_spec ps nb_pos); auto). rewrite N in Hin. destruct Hin.
  Qed.
End Cell.

(* ---- THE IMPLICIT STEP OF EVERY CELL, with no side condition left ----
   for every sorted parent vector, all compartment counts >= 1, every edge list whose integer part is the
   cell's edge table, all positive conductances, all non-negative membrane terms, all voltages and
   constant terms and every dt > 0: the level-ordered padded elimination divides by nothing that vanishes
   and its output is THE solution of the assembled system *)
Local Open Scope R_scope.
Theorem cell_step_total (ps ns : list nat) (es : list (edge R)) (v vt ct : nat -> R) (dt : R) :
  (1 <= length ps)%nat -> (forall b, (1 <= b)%nat -> (b < length ps)%nat -> (nth b ps 0 < b)%nat) ->
  (forall b, (b < length ps)%nat -> (1 <= nth b ns 0)%nat) ->
  map strip es = triples_of ps ns ->
  0 < dt -> (forall e, In e es -> 0 < e_g R e) -> (forall i, (i < total ps ns)%nat -> 0 <= vt i) ->
  let ly := layout_of ps ns in let tp := topo_of ps in let ops := ops_of_tree ps ns in
  let s0 := assemble R Rplus Rminus Rmult 0 1 (nthD (mask_of ps ns)) (total ps ns) es v vt ct dt
                     (group_of ps) (child_inds_of ps) (par_inds_of ps) in
  let out := sv (runR ly ops s0) in
  Forall (fun d => d <> 0) (divisorsR ly ops s0) /\
  (exists y, sat ly tp s0 out y) /\
  (forall x y, sat ly tp s0 x y -> forall b k, (b < length ps)%nat -> (k < pl ly b)%nat -> x (cs ly b + k)%nat = out (cs ly b + k)%nat).
Proof.
  intros H1 H2 H3 E Hdt Hg Hvt ly tp ops s0 out.
  pose proof (tree_accepted ps ns H1 H2 H3) as A.
  pose proof (idx_wf ps ns H1 H2 H3) as W.
  pose proof (cell_asm_struct ps ns H1 H3 es E) as St.
  pose proof (assembled_Mstore ly tp W _ _ es v vt ct dt _ _ _ St Hdt Hg Hvt) as M.
  destruct (no_zero_divisor ly tp W ops s0 A M) as [D B].
  split; [exact D|]. exact (arr_solve_correct ly tp ops s0 A D B).
Qed.
