(* The implicit step of EVERY NETWORK in physical parameters: the edge conductances are those of
   compute_axial_conductances (Model/EdgeCond.v) on the network's edge table (Model/AsmIdxF.v). *)
From Coq Require Import Reals List Arith Bool Lia Lra.
From JV Require Import HinesArr HinesCheck HinesArrFacts HinesArrPositive HinesIdx HinesIdxF AsmStruct AssembleM AssembleTotal AsmIdx AssembleGraph
     AsmIdxF AsmGraphFFacts EdgeCond EdgeCondFacts.
Import ListNotations.
Local Open Scope R_scope.

Definition forest_edges (ps ns : list nat) (rs : list bool) (rad len ra cm : nat -> R) : list (edge R) :=
  map (fun t : trip => mkedge (fst (fst t)) (snd (fst t)) (snd t) (edge_condR rad len ra cm t)) (triples_ofF ps ns rs).

Lemma forest_edges_strip ps ns rs rad len ra cm : map strip (forest_edges ps ns rs rad len ra cm) = triples_ofF ps ns rs.
Proof. unfold forest_edges. rewrite map_map. rewrite <- (map_id (triples_ofF ps ns rs)) at 2. apply map_ext. intros [[a b] c]. reflexivity. Qed.

Theorem forest_step_physical (ps ns : list nat) (rs : list bool) (rad len ra cm v vt ct : nat -> R) (dt : R) :
  (1 <= length ps)%nat -> (forall b, (b < length ps)%nat -> is_root rs b = false -> (nth b ps 0 < b)%nat) ->
  (forall b, (b < length ps)%nat -> (1 <= nth b ns 0)%nat) ->
  (forall c, 0 < rad c /\ 0 < len c /\ 0 < ra c /\ 0 < cm c) ->
  0 < dt -> (forall i, (i < total ps ns)%nat -> 0 <= vt i) ->
  let es := forest_edges ps ns rs rad len ra cm in
  let ly := layout_ofF ps ns rs in let tp := topo_ofF ps rs in
  let mask := nthD (mask_ofF ps ns rs) in let n := total ps ns in
  let s0 := assemble R Rplus Rminus Rmult 0 1 mask n es v vt ct dt (group_ofF ps rs) (child_inds_ofF ps rs) (par_inds_ofF ps rs) in
  let out := sv (runR ly (ops_of_forest ps ns rs) s0) in
  (exists y, graph_eq ly tp mask n es v vt ct dt out y) /\
  (forall x y, graph_eq ly tp mask n es v vt ct dt x y ->
     forall b k, (b < length ps)%nat -> (k < pl ly b)%nat -> x (cs ly b + k)%nat = out (cs ly b + k)%nat).
Proof.
  intros H1 H2 H3 Pos Hdt Hvt es. apply (forest_step_solves_the_graph_equations ps ns rs es v vt ct dt H1 H2 H3 (forest_edges_strip _ _ _ _ _ _ _) Hdt); [|exact Hvt].
  intros e He. unfold es, forest_edges in He. apply in_map_iff in He. destruct He as (t & <- & _). cbn [e_g]. apply edge_cond_pos. exact Pos.
Qed.
