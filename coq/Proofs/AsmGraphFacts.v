(* For EVERY cell the index lists of Model/AsmIdx.v satisfy the conditions of Proofs/AssembleGraph.v.  Hence
   (cell_step_solves_the_graph_equations): for every cell, all positive conductances, non-negative membrane terms
   and dt > 0, the output of the implicit step satisfies the backward-Euler equations of the conductance graph of
   the cell (compartment c: z_c (1 + dt vt_c) + dt sum_e g_e (z_c - z_source(e)) = v_c + dt ct_c over the edges
   into c; branch point: sum_e g_e (z_source(e) - z_bp) = 0) and is the ONLY solution of them. *)
From Coq Require Import Reals List Arith Bool Lia Lra.
From JV Require Import HinesArr HinesCheck HinesArrFacts HinesArrPositive HinesIdx HinesTreeFacts HinesIdxFacts
     AsmStruct AssembleM AssembleTotal AsmIdx AsmIdxFacts AssembleGraph.
Import ListNotations.

Lemma source_of_type t (es : list (edge R)) idx :
  e_source R (nth idx (of_type R t es) e0) = fst (fst (nth idx (t_of_type t (map strip es)) (0, 0, 0)%nat)).
Proof. rewrite <- strip_of_type. change (0, 0, 0)%nat with (strip e0). rewrite map_nth. reflexivity. Qed.

Section CellGraph.
  Variables (ps ns : list nat).
  Hypothesis nb_pos : 1 <= length ps.
  Hypothesis sorted : forall b, 1 <= b -> b < length ps -> nth b ps 0 < b.
  Hypothesis counts : forall b, b < length ps -> 1 <= nth b ns 0.
  Variable es : list (edge R).
  Hypothesis E : map strip es = triples_of ps ns.

  Notation nbL := (length ps).
  Notation ly := (layout_of ps ns).
  Notation tp := (topo_of ps).
  Notation hk := (has_kids ps).
  Notation n3 := (length (par_inds_of ps)).
  Notation mask := (nthD (mask_of ps ns)).
  Notation tot := (total ps ns).
  Let W : wf ly tp := idx_wf ps ns nb_pos sorted counts.

  Lemma tcs_mono b b' : b <= b' -> tcs ns b <= tcs ns b'.
  Proof. induction 1 as [|m H IH]; [lia|]. rewrite (tcs_S ps ns nb_pos). lia. Qed.

  Lemma tcs_lt_total b r : b < nbL -> r < ncomp_of ns b -> tcs ns b + r < tot.
  Proof. intros Hb Hr. unfold total. pose proof (tcs_mono (S b) nbL ltac:(lia)) as M. rewrite (tcs_S ps ns nb_pos) in M. lia. Qed.

  Lemma comp_decomp : forall n c, c < tcs ns n -> exists b r, b < n /\ r < ncomp_of ns b /\ c = tcs ns b + r.
  Proof.
    induction n as [|n IH]; intros c Hc; [cbn in Hc; lia|]. rewrite (tcs_S ps ns nb_pos) in Hc.
    destruct (Nat.lt_ge_cases c (tcs ns n)) as [H|H].
    - destruct (IH c H) as (b & r & H1 & H2 & H3). exists b, r. repeat split; auto; lia.
    - exists n, (c - tcs ns n). repeat split; lia.
  Qed.

  Lemma ncomp_pos b : b < nbL -> 1 <= ncomp_of ns b.
  Proof. intros H. apply counts, H. Qed.

  Lemma mask_inj c c' : c < tot -> c' < tot -> mask c = mask c' -> c = c'.
  Proof.
    intros Hc Hc' Em. destruct (comp_decomp nbL c Hc) as (b & r & Hb & Hr & ->). destruct (comp_decomp nbL c' Hc') as (b' & r' & Hb' & Hr' & ->).
    rewrite !mask_at in Em by assumption.
    pose proof (pl_ge ps ns nb_pos b Hb). pose proof (pl_ge ps ns nb_pos b' Hb').
    destruct (slot_inj ly tp W b r b' r') as [-> ->]; cbn [nb topo_of pl cs layout_of]; unfold nbr; try lia.
  Qed.

  (* membership in the five blocks *)
  Lemma in_triples e : In e es -> In (strip e) (triples_of ps ns).
  Proof. intros H. rewrite <- E. apply in_map, H. Qed.

  Lemma edge0_shape t : In t (edges0 ps ns) ->
    exists b r, b < nbL /\ S r < ncomp_of ns b /\ (t = (tcs ns b + r, tcs ns b + r + 1, 0) \/ t = (tcs ns b + r + 1, tcs ns b + r, 0)).
  Proof.
    unfold edges0. rewrite in_flat_map. intros (b & Hb & H). apply in_seq in Hb. apply in_app_or in H.
    destruct H as [H|H]; apply in_map_iff in H; destruct H as (r & <- & Hr); apply in_seq in Hr; exists b, r; (split; [lia|]); (split; [lia|]); auto.
  Qed.

  Lemma typed_block e t : In e es -> e_type R e = t -> In (strip e) (t_of_type t (triples_of ps ns)).
  Proof.
    intros He Ht. unfold t_of_type. apply filter_In. split; [apply in_triples, He|]. unfold t_type, strip. cbn [snd]. rewrite Ht. apply Nat.eqb_refl.
  Qed.

  Lemma type0_shape e : In e es -> e_type R e = 0 ->
    exists b r, b < nbL /\ S r < ncomp_of ns b /\
      ((e_source R e = tcs ns b + r /\ e_sink R e = tcs ns b + r + 1) \/ (e_source R e = tcs ns b + r + 1 /\ e_sink R e = tcs ns b + r)).
  Proof.
    intros He Ht. pose proof (typed_block e 0 He Ht) as H.
    assert (B0 : t_of_type 0 (triples_of ps ns) = edges0 ps ns).
    { unfold triples_of. rewrite !t_of_type_app.
      rewrite (t_of_type_same 0 (edges0 ps ns)) by (apply type_edges0).
      rewrite (t_of_type_other 0 1 (edges1 ps ns)) by (try lia; apply type_edges1).
      rewrite (t_of_type_other 0 2 (edges2 ps ns)) by (try lia; apply type_edges2).
      rewrite (t_of_type_other 0 3 (edges3 ps ns)) by (try lia; apply type_edges3).
      rewrite (t_of_type_other 0 4 (edges4 ps ns)) by (try lia; apply type_edges4). rewrite !app_nil_r. reflexivity. }
    rewrite B0 in H. destruct (edge0_shape _ H) as (b & r & Hb & Hr & [Eq|Eq]); exists b, r; (split; [exact Hb|]); (split; [exact Hr|]);
      unfold strip in Eq; inversion Eq; [left | right]; auto.
  Qed.

  Lemma nth_par idx : idx < n3 -> nth idx (par_inds_of ps) 0 < nbL /\ hk (nth idx (par_inds_of ps) 0) = true.
  Proof. intros H. destruct (nth_rank hk nbL idx H) as (A & B & _). auto. Qed.

  Theorem cell_graph_struct : graph_struct ly tp mask tot es (group_of ps) (child_inds_of ps) (par_inds_of ps).
  Proof.
    constructor.
    - apply (cell_asm_struct ps ns nb_pos counts es E).
    - unfold par_inds_of, parents_with_kids. apply NoDup_filter_seq.
    - exact mask_inj.
    - (* sinks of the edges of types 0, 1, 2 are compartments *)
      intros e He Ht. destruct (Nat.eq_dec (e_type R e) 0) as [E0|N0]; [|destruct (Nat.eq_dec (e_type R e) 1) as [E1|N1]].
      + destruct (type0_shape e He E0) as (b & r & Hb & Hr & [[_ ->]|[_ ->]]).
        * replace (tcs ns b + r + 1) with (tcs ns b + (r + 1)) by lia. apply tcs_lt_total; lia.
        * apply tcs_lt_total; lia.
      + pose proof (typed_block e 1 He E1) as H. rewrite (block1 ps ns nb_pos) in H. unfold edges1 in H. apply in_map_iff in H.
        destruct H as ([j p] & Eq & Hin). unfold strip in Eq. injection Eq as _ Hs _. cbn [fst snd] in Hs.
        apply in_combine_r in Hin. destruct (In_nth _ _ 0 Hin) as (idx & Hi & <-). destruct (nth_par idx Hi) as [Hp _].
        rewrite <- Hs. replace (nth idx (par_inds_of ps) 0 + 1) with (S (nth idx (par_inds_of ps) 0)) by lia. rewrite (tcs_S ps ns nb_pos).
        pose proof (ncomp_pos _ Hp). pose proof (tcs_lt_total _ (ncomp_of ns (nth idx (par_inds_of ps) 0) - 1) Hp ltac:(lia)). lia.
      + assert (E2 : e_type R e = 2) by lia. pose proof (typed_block e 2 He E2) as H. rewrite (block2 ps ns nb_pos) in H. unfold edges2 in H. apply in_map_iff in H.
        destruct H as ([j c] & Eq & Hin). unfold strip in Eq. injection Eq as _ Hs _. cbn [fst snd] in Hs.
        apply in_combine_r in Hin. unfold child_inds_of in Hin. apply in_seq in Hin.
        rewrite <- Hs. replace (tcs ns c) with (tcs ns c + 0) by lia. apply tcs_lt_total; [lia | apply ncomp_pos; lia].
    - intros e He E0. destruct (type0_shape e He E0) as (b & r & Hb & Hr & [[-> ->]|[-> ->]]); split; try lia.
      + apply tcs_lt_total; lia.
      + replace (tcs ns b + r + 1) with (tcs ns b + (r + 1)) by lia. apply tcs_lt_total; lia.
    - intros e He E0 Hlt. destruct (type0_shape e He E0) as (b & r & Hb & Hr & [[Es Ek]|[Es Ek]]); [|lia]. rewrite Es, Ek.
      replace (tcs ns b + r + 1) with (tcs ns b + (r + 1)) by lia. rewrite !mask_at by (auto; lia). split; [lia|].
      intros b' Hb' Eq. cbn [cs layout_of nb topo_of] in *. unfold nbr in Hb'.
      pose proof (pl_ge ps ns nb_pos b Hb). pose proof (pl_ge ps ns nb_pos b' Hb'). pose proof (ncomp_pos b' Hb').
      destruct (slot_inj ly tp W b (r + 1) b' 0) as [_ X]; cbn [nb topo_of pl cs layout_of]; unfold nbr; try lia.
    - intros e He E0 Hlt. destruct (type0_shape e He E0) as (b & r & Hb & Hr & [[Es Ek]|[Es Ek]]); [lia|]. rewrite Es, Ek.
      replace (tcs ns b + r + 1) with (tcs ns b + (r + 1)) by lia. rewrite !mask_at by (auto; lia). split; [lia|].
      intros b' Hb' Eq. cbn [cs nc layout_of nb topo_of] in *. unfold nbr in Hb'.
      pose proof (pl_ge ps ns nb_pos b Hb). pose proof (pl_ge ps ns nb_pos b' Hb'). pose proof (ncomp_pos b' Hb').
      destruct (slot_inj ly tp W b r b' (ncomp_of ns b' - 1)) as [X Y]; cbn [nb topo_of pl cs layout_of]; unfold nbr; try lia. subst b'. lia.
    - intros idx Hi. rewrite source_of_type, E, (block1 ps ns nb_pos). unfold edges1.
      rewrite (nth_indep _ (0, 0, 0) ((fun jp => (tot + fst jp, tcs ns (snd jp + 1) - 1, 1)) (0, 0)))
        by (rewrite map_length, combine_length, seq_length, Nat.min_id; exact Hi).
      rewrite (map_nth (fun jp => (tot + fst jp, tcs ns (snd jp + 1) - 1, 1))), combine_nth by (rewrite seq_length; reflexivity).
      cbn [fst snd]. rewrite seq_nth by exact Hi. unfold group_of. rewrite app_nth1 by (rewrite seq_length; exact Hi). rewrite seq_nth by exact Hi. reflexivity.
    - intros idx Hi. rewrite (len_child ps) in Hi. rewrite source_of_type, E, (block2 ps ns nb_pos). unfold edges2.
      rewrite (nth_indep _ (0, 0, 0) ((fun jc => (tot + fst jc, tcs ns (snd jc), 2)) (0, 0)))
        by (rewrite map_length, combine_length, (len_cbb ps), (len_child ps), Nat.min_id; exact Hi).
      rewrite (map_nth (fun jc => (tot + fst jc, tcs ns (snd jc), 2))), combine_nth by (rewrite (len_cbb ps), (len_child ps); reflexivity).
      cbn [fst snd]. unfold group_of. rewrite app_nth2 by (rewrite seq_length; lia). rewrite seq_length.
      replace (n3 + idx - n3) with idx by lia. reflexivity.
    - intros b j Hb Hc. cbn [nb cbp topo_of] in *. unfold nbr in Hb. destruct (hk b) eqn:Hk; [|discriminate].
      unfold par_inds_of, parents_with_kids. apply filter_In. split; [apply in_seq; unfold nbr; lia | exact Hk].
    - intros idx Hi. cbn [nb topo_of]. unfold nbr. apply (nth_par idx Hi).
    - intros idx Hi. rewrite (len_child ps) in Hi. rewrite (nth_child ps) by exact Hi. cbn [nb topo_of]. unfold nbr. lia.
  Qed.
End CellGraph.

Section CellGraph2.
  Variables (ps ns : list nat).
  Hypothesis nb_pos : 1 <= length ps.
  Hypothesis sorted : forall b, 1 <= b -> b < length ps -> nth b ps 0 < b.
  Hypothesis counts : forall b, b < length ps -> 1 <= nth b ns 0.
  Variable es : list (edge R).
  Hypothesis E : map strip es = triples_of ps ns.

  Notation nbL := (length ps).
  Notation ly := (layout_of ps ns).
  Notation tp := (topo_of ps).
  Notation hk := (has_kids ps).
  Notation n3 := (length (par_inds_of ps)).
  Notation mask := (nthD (mask_of ps ns)).
  Notation tot := (total ps ns).

  Lemma nth_edges1 idx : idx < n3 ->
    nth idx (edges1 ps ns) (0, 0, 0) = (tot + idx, tcs ns (nth idx (par_inds_of ps) 0 + 1) - 1, 1).
  Proof.
    intros Hi. unfold edges1.
    rewrite (nth_indep _ (0, 0, 0) ((fun jp => (tot + fst jp, tcs ns (snd jp + 1) - 1, 1)) (0, 0)))
      by (rewrite map_length, combine_length, seq_length, Nat.min_id; exact Hi).
    rewrite (map_nth (fun jp => (tot + fst jp, tcs ns (snd jp + 1) - 1, 1))), combine_nth by (rewrite seq_length; reflexivity).
    cbn [fst snd]. rewrite seq_nth by exact Hi. reflexivity.
  Qed.

  Lemma nth_edges2 idx : idx < nbL - 1 ->
    nth idx (edges2 ps ns) (0, 0, 0) = (tot + nth idx (cbb ps) 0, tcs ns (S idx), 2).
  Proof.
    intros Hi. unfold edges2.
    rewrite (nth_indep _ (0, 0, 0) ((fun jc => (tot + fst jc, tcs ns (snd jc), 2)) (0, 0)))
      by (rewrite map_length, combine_length, (len_cbb ps), (len_child ps), Nat.min_id; exact Hi).
    rewrite (map_nth (fun jc => (tot + fst jc, tcs ns (snd jc), 2))), combine_nth by (rewrite (len_cbb ps), (len_child ps); reflexivity).
    cbn [fst snd]. rewrite (nth_child ps) by exact Hi. reflexivity.
  Qed.

  Lemma nth_edges3 idx : idx < n3 ->
    nth idx (edges3 ps ns) (0, 0, 0) = (tcs ns (nth idx (par_inds_of ps) 0 + 1) - 1, tot + idx, 3).
  Proof.
    intros Hi. unfold edges3.
    rewrite (nth_indep _ (0, 0, 0) ((fun e : trip => (t_sink e, fst (fst e), 3)) (0, 0, 0))) by (rewrite map_length, (len_edges1 ps ns); exact Hi).
    rewrite (map_nth (fun e : trip => (t_sink e, fst (fst e), 3))), nth_edges1 by exact Hi. reflexivity.
  Qed.

  Lemma nth_edges4 idx : idx < nbL - 1 ->
    nth idx (edges4 ps ns) (0, 0, 0) = (tcs ns (S idx), tot + nth idx (cbb ps) 0, 4).
  Proof.
    intros Hi. unfold edges4.
    rewrite (nth_indep _ (0, 0, 0) ((fun e : trip => (t_sink e, fst (fst e), 4)) (0, 0, 0))) by (rewrite map_length, (len_edges2 ps ns); exact Hi).
    rewrite (map_nth (fun e : trip => (t_sink e, fst (fst e), 4))), nth_edges2 by exact Hi. reflexivity.
  Qed.

  Theorem cell_graph_struct_bp : graph_struct_bp ly mask tot es (group_of ps) (child_inds_of ps) (par_inds_of ps).
  Proof.
    constructor.
    - intros idx Hi. rewrite sink_of_type, E, (block3 ps ns nb_pos), nth_edges3 by exact Hi. cbn [t_sink fst snd].
      unfold group_of. rewrite app_nth1 by (rewrite seq_length; exact Hi). rewrite seq_nth by exact Hi. reflexivity.
    - intros idx Hi. rewrite source_of_type, E, (block3 ps ns nb_pos), nth_edges3 by exact Hi. cbn [fst snd].
      destruct (nth_rank hk nbL idx Hi) as (Hp & _ & _). fold (parents_with_kids ps) in Hp. fold (par_inds_of ps) in Hp.
      set (p := nth idx (par_inds_of ps) 0) in *. pose proof (counts p Hp) as Hc. fold (ncomp_of ns p) in Hc.
      replace (p + 1) with (S p) by lia. rewrite (tcs_S ps ns nb_pos).
      replace (tcs ns p + ncomp_of ns p - 1) with (tcs ns p + (ncomp_of ns p - 1)) by lia. split.
      + apply (tcs_lt_total ps ns nb_pos); [exact Hp | lia].
      + rewrite mask_at by (auto; lia). unfold last. cbn [cs nc layout_of]. lia.
    - intros idx Hi. rewrite (len_child ps) in Hi. rewrite sink_of_type, E, (block4 ps ns nb_pos), nth_edges4 by exact Hi. cbn [t_sink fst snd].
      unfold group_of. rewrite app_nth2 by (rewrite seq_length; lia). rewrite seq_length. replace (n3 + idx - n3) with idx by lia. reflexivity.
    - intros idx Hi. rewrite (len_child ps) in Hi. rewrite source_of_type, E, (block4 ps ns nb_pos), nth_edges4 by exact Hi. cbn [fst snd].
      rewrite (nth_child ps) by exact Hi. assert (Hb : S idx < nbL) by lia. pose proof (counts (S idx) Hb) as Hc. fold (ncomp_of ns (S idx)) in Hc. split.
      + replace (tcs ns (S idx)) with (tcs ns (S idx) + 0) by lia. apply (tcs_lt_total ps ns nb_pos); [exact Hb | lia].
      + replace (tcs ns (S idx)) with (tcs ns (S idx) + 0) by lia. rewrite mask_at by (auto; lia). unfold first. cbn [cs layout_of]. lia.
  Qed.

  Lemma cell_slot c : c < tot -> exists b r, b < nb tp /\ r < nc ly b /\ mask c = cs ly b + r.
  Proof.
    intros Hc. destruct (comp_decomp ps ns nb_pos nbL c Hc) as (b & r & Hb & Hr & ->). exists b, r. cbn [nb topo_of nc cs layout_of]. unfold nbr.
    split; [exact Hb|]. split; [exact Hr|]. apply mask_at; assumption.
  Qed.
  Lemma cell_comp b r : b < nb tp -> r < nc ly b -> exists c, c < tot /\ mask c = cs ly b + r.
  Proof.
    cbn [nb topo_of nc cs layout_of]. unfold nbr. intros Hb Hr. exists (tcs ns b + r). split; [apply (tcs_lt_total ps ns nb_pos); assumption | apply mask_at; assumption].
  Qed.
End CellGraph2.

(* ---- EVERY CELL: the implicit step solves the backward-Euler equations of the cell's conductance graph, uniquely ---- *)
Local Open Scope R_scope.
Theorem cell_step_solves_the_graph_equations (ps ns : list nat) (es : list (edge R)) (v vt ct : nat -> R) (dt : R) :
  (1 <= length ps)%nat -> (forall b, (1 <= b)%nat -> (b < length ps)%nat -> (nth b ps 0 < b)%nat) ->
  (forall b, (b < length ps)%nat -> (1 <= nth b ns 0)%nat) ->
  map strip es = triples_of ps ns ->
  0 < dt -> (forall e, In e es -> 0 < e_g R e) -> (forall i, (i < total ps ns)%nat -> 0 <= vt i) ->
  let ly := layout_of ps ns in let tp := topo_of ps in let ops := ops_of_tree ps ns in
  let mask := nthD (mask_of ps ns) in let n := total ps ns in
  let s0 := assemble R Rplus Rminus Rmult 0 1 mask n es v vt ct dt (group_of ps) (child_inds_of ps) (par_inds_of ps) in
  let out := sv (runR ly ops s0) in
  (exists y, graph_eq ly tp mask n es v vt ct dt out y) /\
  (forall x y, graph_eq ly tp mask n es v vt ct dt x y ->
     forall b k, (b < length ps)%nat -> (k < pl ly b)%nat -> x (cs ly b + k)%nat = out (cs ly b + k)%nat).
Proof.
  intros H1 H2 H3 E Hdt Hg Hvt ly tp ops mask n s0 out.
  pose proof (idx_wf ps ns H1 H2 H3) as W.
  pose proof (cell_graph_struct ps ns H1 H2 H3 es E) as G.
  pose proof (cell_graph_struct_bp ps ns H1 H3 es E) as B.
  pose proof (sat_iff_graph ly tp W mask n es v vt ct dt _ _ _ G B (cell_slot ps ns H1) (cell_comp ps ns H1)) as Eq.
  destruct (cell_step_total ps ns es v vt ct dt H1 H2 H3 E Hdt Hg Hvt) as (_ & (y & Hs) & Hu).
  split.
  - exists y. apply Eq. exact Hs.
  - intros x y' Hx. apply (Hu x y'). apply Eq. exact Hx.
Qed.
