(* C01, array level: the ASSEMBLY of the arrays (first half of step_voltage_implicit_with_jaxley_spsolve,
   Model/HinesArr.assemble) produces an M-matrix-like store (HinesArrPositive.Mstore) for ALL positive
   conductances, non-negative membrane terms and every dt > 0, provided the index lists the code hands
   to it are consistent with the layout and the topology (a decidable condition on the code's own
   arrays, `assemble_struct`, evaluated by the harness on every sampled module).  With
   array_solver_total: for such a structure no parameter values can make a divisor vanish. *)
From Coq Require Import Reals List Arith Bool Lia Lra.
From JV Require Import HinesArr HinesCheck HinesArrFacts HinesArrPositive.
Import ListNotations.
Local Open Scope R_scope.

(* ---- weighted sums over lists ---- *)
Section WSum.
  Context {A : Type}.
  Definition wsum (val : A -> R) (p : A -> bool) (l : list A) : R :=
    fold_right (fun e acc => (if p e then val e else 0) + acc) 0 l.

  Lemma wsum_nonneg val p l : (forall e, In e l -> 0 <= val e) -> 0 <= wsum val p l.
  Proof.
    induction l as [|e l IH]; intros H; cbn [wsum fold_right]; [lra|].
    assert (0 <= wsum val p l) by (apply IH; intros; apply H; now right).
    pose proof (H e (or_introl eq_refl)). unfold wsum in *. destruct (p e); lra.
  Qed.

  Lemma wsum_le val p q l : (forall e, In e l -> 0 <= val e) -> (forall e, In e l -> p e = true -> q e = true) ->
    wsum val p l <= wsum val q l.
  Proof.
    induction l as [|e l IH]; intros H I; cbn [wsum fold_right]; [lra|].
    assert (wsum val p l <= wsum val q l) by (apply IH; intros; [apply H | apply I]; auto; now right).
    pose proof (H e (or_introl eq_refl)). pose proof (I e (or_introl eq_refl)). unfold wsum in *.
    destruct (p e) eqn:E; [rewrite (H2 eq_refl); lra | destruct (q e); lra].
  Qed.

  Lemma wsum_or val p q l : (forall e, In e l -> p e && q e = false) ->
    wsum val (fun e => p e || q e) l = wsum val p l + wsum val q l.
  Proof.
    induction l as [|e l IH]; intros H; cbn [wsum fold_right]; [lra|].
    assert (E : wsum val (fun e => p e || q e) l = wsum val p l + wsum val q l) by (apply IH; intros; apply H; now right).
    pose proof (H e (or_introl eq_refl)) as D. unfold wsum in *. rewrite E.
    destruct (p e), (q e); cbn in *; try discriminate; lra.
  Qed.

  Lemma wsum_ext val p q l : (forall e, In e l -> p e = q e) -> wsum val p l = wsum val q l.
  Proof.
    induction l as [|e l IH]; intros H; cbn [wsum fold_right]; [reflexivity|].
    rewrite (H e (or_introl eq_refl)). f_equal. apply IH. intros; apply H; now right.
  Qed.

  Lemma wsum_filter val p c l : wsum val p (filter c l) = wsum val (fun e => c e && p e) l.
  Proof.
    induction l as [|e l IH]; cbn [filter wsum fold_right]; [reflexivity|].
    destruct (c e); cbn [andb wsum fold_right]; unfold wsum in *; rewrite IH; [reflexivity | lra].
  Qed.

  Lemma wsum_ge_elem val p l e : (forall x, In x l -> 0 <= val x) -> In e l -> p e = true -> val e <= wsum val p l.
  Proof.
    induction l as [|x l IH]; intros H Hin Hp; [destruct Hin|]. destruct Hin as [->|Hin]; cbn [wsum fold_right].
    - rewrite Hp. assert (0 <= wsum val p l) by (apply wsum_nonneg; intros; apply H; now right). unfold wsum in *. lra.
    - assert (val e <= wsum val p l) by (apply IH; auto; intros; apply H; now right).
      pose proof (H x (or_introl eq_refl)). unfold wsum in *. destruct (p x); lra.
  Qed.

  Lemma wsum_scale val p l k : wsum (fun e => k * val e) p l = k * wsum val p l.
  Proof. induction l as [|e l IH]; cbn [wsum fold_right]; [lra|]. unfold wsum in *. rewrite IH. destruct (p e); lra. Qed.
End WSum.

(* ---- the accumulating folds of `assemble` ---- *)
Notation addatR := (addat R Rplus).

Lemma fold_addat {A} (tgt : A -> nat) (val : A -> R) (cond : A -> bool) : forall l f i,
  fold_left (fun acc e => if cond e then addatR acc (tgt e) (val e) else acc) l f i
  = f i + wsum val (fun e => cond e && (tgt e =? i)%nat) l.
Proof.
  induction l as [|e l IH]; intros f i; cbn [fold_left wsum fold_right]; [lra|].
  rewrite IH. fold (wsum val (fun e0 => cond e0 && (tgt e0 =? i)%nat) l).
  destruct (cond e); cbn [andb]; [|lra].
  unfold addat, upd. rewrite (Nat.eqb_sym i (tgt e)). destruct (Nat.eqb_spec (tgt e) i) as [->|]; lra.
Qed.

Lemma fold_addat_all {A} (tgt : A -> nat) (val : A -> R) : forall l f i,
  fold_left (fun acc e => addatR acc (tgt e) (val e)) l f i = f i + wsum val (fun e => (tgt e =? i)%nat) l.
Proof. intros l f i. exact (fold_addat tgt val (fun _ => true) l f i). Qed.

Lemma fold_subat : forall (l : list (nat * R)) (f : nat -> R) j,
  fold_left (fun acc jw => upd R acc (fst jw) (acc (fst jw) - snd jw)) l f j
  = f j - wsum snd (fun jw => (fst jw =? j)%nat) l.
Proof.
  induction l as [|[a w] l IH]; intros f j; cbn [fold_left wsum fold_right fst snd]; [lra|].
  rewrite IH. fold (wsum (@snd nat R) (fun jw => (fst jw =? j)%nat) l). cbn [fst snd].
  unfold upd. rewrite (Nat.eqb_sym j a). destruct (Nat.eqb_spec a j) as [->|]; lra.
Qed.

(* ---- set_all: the scatter of one value per listed index ---- *)
Lemma set_all_cases : forall (inds : list nat) (vals : list R) (f : nat -> R) b,
  set_all R f inds vals b = f b \/
  exists idx, (idx < length inds)%nat /\ (idx < length vals)%nat /\ nth idx inds 0%nat = b /\ set_all R f inds vals b = nth idx vals 0.
Proof.
  unfold set_all. induction inds as [|i inds IH]; intros vals f b; [left; reflexivity|].
  destruct vals as [|v vals]; [left; reflexivity|]. cbn [combine fold_left fst snd].
  destruct (IH vals (upd R f i v) b) as [E|(idx & H1 & H2 & H3 & H4)].
  - rewrite E. unfold upd. destruct (Nat.eqb_spec b i) as [->|]; [|left; reflexivity].
    right. exists 0%nat. cbn. repeat split; try lia.
  - right. exists (S idx). cbn [length nth]. repeat split; try lia; assumption.
Qed.

Lemma set_all_notin : forall (inds : list nat) (vals : list R) (f : nat -> R) b,
  ~ In b inds -> set_all R f inds vals b = f b.
Proof.
  unfold set_all. induction inds as [|i inds IH]; intros vals f b H; [reflexivity|].
  destruct vals as [|v vals]; [reflexivity|]. cbn [combine fold_left fst snd].
  rewrite IH by (intros C; apply H; now right). unfold upd.
  destruct (Nat.eqb_spec b i) as [->|]; [exfalso; apply H; now left | reflexivity].
Qed.

Lemma set_all_nodup : forall (inds : list nat) (vals : list R) (f : nat -> R) idx,
  NoDup inds -> (idx < length inds)%nat -> (idx < length vals)%nat ->
  set_all R f inds vals (nth idx inds 0%nat) = nth idx vals 0.
Proof.
  induction inds as [|i inds IH]; intros vals f idx ND H1 H2; [cbn in H1; lia|].
  destruct vals as [|v vals]; [cbn in H2; lia|]. inversion ND as [|? ? Hn ND']; subst.
  destruct idx as [|idx]; cbn [nth].
  - unfold set_all. cbn [combine fold_left fst snd]. change (fold_left _ (combine inds vals) (upd R f i v) i) with (set_all R (upd R f i v) inds vals i).
    rewrite set_all_notin by exact Hn. unfold upd. rewrite Nat.eqb_refl. reflexivity.
  - unfold set_all. cbn [combine fold_left fst snd]. apply (IH vals (upd R f i v) idx ND'); cbn in H1, H2; lia.
Qed.

Lemma nth_map_default {A} (f : A -> R) (l : list A) (d : A) idx : (idx < length l)%nat -> nth idx (map f l) 0 = f (nth idx l d).
Proof. intros H. rewrite (nth_indep _ 0 (f d)) by (rewrite map_length; exact H). apply map_nth. Qed.

(* ---- the fields of the assembled store ---- *)
Section Asm.
  Variables (mask : nat -> nat) (ncomp : nat) (es : list (edge R)) (v vt ct : nat -> R) (dt : R)
            (group child_inds par_inds : list nat).
  Let s := assemble R Rplus Rminus Rmult 0 1 mask ncomp es v vt ct dt group child_inds par_inds.

  Definition atslot (i : nat) (e : edge R) : bool := (mask (e_sink R e) =? i)%nat.
  Definition is_type (t : nat) (e : edge R) : bool := (e_type R e =? t)%nat.
  Notation g := (e_g R).

  Lemma dg_val i : dg s i = 1 + dt * wsum g (fun e => (e_type R e <=? 2)%nat && atslot i e) es
                              + dt * wsum vt (fun c => (mask c =? i)%nat) (seq 0 ncomp).
  Proof.
    unfold s, assemble. cbn [dg]. rewrite fold_addat_all, fold_addat. rewrite !wsum_scale. unfold atslot. reflexivity.
  Qed.

  Lemma lw_val i : lw s i = - (dt * wsum g (fun e => is_type 0 e && ((e_source R e <? e_sink R e)%nat && atslot i e)) es).
  Proof.
    unfold s, assemble. cbn [lw]. rewrite fold_addat. unfold of_type. rewrite wsum_filter.
    unfold fneg. rewrite wsum_scale. unfold atslot, is_type. lra.
  Qed.

  Lemma up_val i : up s i = - (dt * wsum g (fun e => is_type 0 e && ((e_sink R e <? e_source R e)%nat && atslot i e)) es).
  Proof.
    unfold s, assemble. cbn [up]. rewrite fold_addat. unfold of_type. rewrite wsum_filter.
    unfold fneg. rewrite wsum_scale. unfold atslot, is_type. lra.
  Qed.

  Lemma cc_val b : cc s b = set_all R (fun _ => 0) child_inds (map (fun e => (0 - dt) * g e) (of_type R 2 es)) b.
  Proof. reflexivity. Qed.
  Lemma cp_val b : cp s b = set_all R (fun _ => 0) par_inds (map (fun e => (0 - dt) * g e) (of_type R 1 es)) b.
  Proof. reflexivity. Qed.
  Lemma wc_val b : wc s b = set_all R (fun _ => 0) child_inds (map g (of_type R 4 es)) b.
  Proof. reflexivity. Qed.
  Lemma wp_val b : wp s b = set_all R (fun _ => 0) par_inds (map g (of_type R 3 es)) b.
  Proof. reflexivity. Qed.
  Lemma bd_val j : bd s j = - wsum snd (fun jw => (fst jw =? j)%nat) (combine group (map g (of_type R 3 es) ++ map g (of_type R 4 es))).
  Proof. unfold s, assemble. cbn [bd]. rewrite fold_subat. lra. Qed.
End Asm.

(* ---- the structural conditions on the index lists, and the theorem ---- *)
Definition e0 : edge R := mkedge 0%nat 0%nat 0%nat 0.

Record asm_struct (ly : layout) (tp : topo) (mask : nat -> nat) (es : list (edge R))
       (group child_inds par_inds : list nat) : Prop := mkasm {
  as_len2 : length (of_type R 2 es) = length child_inds;
  as_len4 : length (of_type R 4 es) = length child_inds;
  as_len1 : length (of_type R 1 es) = length par_inds;
  as_len3 : length (of_type R 3 es) = length par_inds;
  as_group : length group = (length par_inds + length child_inds)%nat;
  as_child_nodup : NoDup child_inds;
  (* a type-2 edge ends in the FIRST compartment of its child branch, a type-1 edge in the LAST compartment of the parent *)
  as_t2 : forall idx, (idx < length child_inds)%nat ->
          mask (e_sink R (nth idx (of_type R 2 es) e0)) = cs ly (nth idx child_inds 0%nat);
  as_t1 : forall idx, (idx < length par_inds)%nat ->
          mask (e_sink R (nth idx (of_type R 1 es) e0)) = (cs ly (nth idx par_inds 0%nat) + (nc ly (nth idx par_inds 0%nat) - 1))%nat;
  (* the branch-point number (`group`) of every type-3 / type-4 edge is the branch point of its branch *)
  as_g3 : forall idx, (idx < length par_inds)%nat -> cbp tp (nth idx par_inds 0%nat) = Some (nth idx group 0%nat);
  as_g4 : forall idx, (idx < length child_inds)%nat ->
          pbp tp (nth idx child_inds 0%nat) = Some (nth (length par_inds + idx) group 0%nat);
  as_kids_in : forall c j, (c < nb tp)%nat -> pbp tp c = Some j -> In c child_inds;
  as_kids_ne : forall j, (j < nbp tp)%nat -> kids tp j <> []
}.

Section Main.
  Variables (ly : layout) (tp : topo).
  Hypothesis W : wf ly tp.
  Variables (mask : nat -> nat) (ncomp : nat) (es : list (edge R)) (v vt ct : nat -> R) (dt : R)
            (group child_inds par_inds : list nat).
  Hypothesis St : asm_struct ly tp mask es group child_inds par_inds.
  Hypothesis Hdt : 0 < dt.
  Hypothesis Hg : forall e, In e es -> 0 < e_g R e.
  Hypothesis Hvt : forall i, (i < ncomp)%nat -> 0 <= vt i.
  Let s := assemble R Rplus Rminus Rmult 0 1 mask ncomp es v vt ct dt group child_inds par_inds.
  Notation g := (e_g R).

  Lemma g_nonneg e : In e es -> 0 <= g e.
  Proof. intros H. apply Rlt_le, Hg, H. Qed.

  Lemma nth_of_type t idx : (idx < length (of_type R t es))%nat ->
    In (nth idx (of_type R t es) e0) es /\ is_type t (nth idx (of_type R t es) e0) = true.
  Proof.
    intros H. pose proof (nth_In _ e0 H) as Hin. unfold of_type in Hin. apply filter_In in Hin. exact Hin.
  Qed.

  Lemma is_type_excl a b e : a <> b -> is_type a e && is_type b e = false.
  Proof. intros H. unfold is_type. destruct (Nat.eqb_spec (e_type R e) a), (Nat.eqb_spec (e_type R e) b); cbn; try reflexivity. lia. Qed.

  Definition T (t i : nat) : R := wsum g (fun e => is_type t e && atslot mask i e) es.

  Lemma T_nonneg t i : 0 <= T t i.
  Proof. apply wsum_nonneg. intros e He. apply g_nonneg, He. Qed.

  Lemma D_ge i : T 0 i + T 1 i + T 2 i <= wsum g (fun e => (e_type R e <=? 2)%nat && atslot mask i e) es.
  Proof.
    unfold T. rewrite <- !wsum_or.
    - apply wsum_le; [intros e He; apply g_nonneg, He|]. intros e _. unfold is_type.
      destruct (atslot mask i e); rewrite ?andb_false_r; cbn [orb]; [|discriminate]. rewrite !andb_true_r.
      intros H. apply Nat.leb_le. destruct (Nat.eqb_spec (e_type R e) 0); [lia|]. destruct (Nat.eqb_spec (e_type R e) 1); [lia|].
      destruct (Nat.eqb_spec (e_type R e) 2); [lia | discriminate].
    - intros e _. cbv beta. pose proof (is_type_excl 0 2 e ltac:(lia)). pose proof (is_type_excl 1 2 e ltac:(lia)).
      destruct (is_type 0 e), (is_type 1 e), (is_type 2 e), (atslot mask i e); cbn in *; congruence.
    - intros e _. cbv beta. pose proof (is_type_excl 0 1 e ltac:(lia)).
      destruct (is_type 0 e), (is_type 1 e), (atslot mask i e); cbn in *; congruence.
  Qed.

  Lemma LU_le i :
    wsum g (fun e => is_type 0 e && ((e_source R e <? e_sink R e)%nat && atslot mask i e)) es
    + wsum g (fun e => is_type 0 e && ((e_sink R e <? e_source R e)%nat && atslot mask i e)) es <= T 0 i.
  Proof.
    rewrite <- wsum_or.
    - apply wsum_le; [intros e He; apply g_nonneg, He|]. intros e _ H. unfold is_type in *.
      destruct (e_type R e =? 0)%nat; cbn [andb orb] in *; [|discriminate].
      destruct (atslot mask i e); rewrite ?andb_false_r in H; cbn [orb] in H; [reflexivity | discriminate].
    - intros e _. destruct (is_type 0 e); cbn [andb]; [|reflexivity].
      destruct (Nat.ltb_spec (e_source R e) (e_sink R e)), (Nat.ltb_spec (e_sink R e) (e_source R e)); cbn; try lia; reflexivity.
  Qed.

  (* the coefficient towards the branch point the branch hangs on / carries *)
  Lemma cc_bounds b : (b < nb tp)%nat -> - (dt * T 2 (cs ly b)) <= cc s b <= 0.
  Proof.
    intros Hb. unfold s. rewrite cc_val.
    destruct (set_all_cases child_inds (map (fun e => (0 - dt) * g e) (of_type R 2 es)) (fun _ => 0) b) as [E|(idx & H1 & H2 & H3 & H4)].
    - rewrite E. pose proof (T_nonneg 2 (cs ly b)). nra.
    - rewrite H4. rewrite map_length in H2.
      rewrite (nth_map_default (fun e => (0 - dt) * g e) _ e0 idx H2).
      destruct (nth_of_type 2 idx H2) as [Hin Hty]. set (e := nth idx (of_type R 2 es) e0) in *.
      assert (Hsl : atslot mask (cs ly b) e = true) by (unfold atslot, e; rewrite (as_t2 _ _ _ _ _ _ _ St idx H1), H3; apply Nat.eqb_refl).
      assert (Hle : g e <= T 2 (cs ly b)) by (apply (wsum_ge_elem g _ es e); [intros x Hx; apply g_nonneg, Hx | exact Hin | rewrite Hty, Hsl; reflexivity]).
      pose proof (g_nonneg e Hin). nra.
  Qed.

  Lemma cp_bounds b : (b < nb tp)%nat -> - (dt * T 1 (cs ly b + (nc ly b - 1))) <= cp s b <= 0.
  Proof.
    intros Hb. unfold s. rewrite cp_val.
    destruct (set_all_cases par_inds (map (fun e => (0 - dt) * g e) (of_type R 1 es)) (fun _ => 0) b) as [E|(idx & H1 & H2 & H3 & H4)].
    - rewrite E. pose proof (T_nonneg 1 (cs ly b + (nc ly b - 1))). nra.
    - rewrite H4. rewrite map_length in H2.
      rewrite (nth_map_default (fun e => (0 - dt) * g e) _ e0 idx H2).
      destruct (nth_of_type 1 idx H2) as [Hin Hty]. set (e := nth idx (of_type R 1 es) e0) in *.
      assert (Hsl : atslot mask (cs ly b + (nc ly b - 1)) e = true)
        by (unfold atslot, e; rewrite (as_t1 _ _ _ _ _ _ _ St idx H1), H3; apply Nat.eqb_refl).
      assert (Hle : g e <= T 1 (cs ly b + (nc ly b - 1))) by (apply (wsum_ge_elem g _ es e); [intros x Hx; apply g_nonneg, Hx | exact Hin | rewrite Hty, Hsl; reflexivity]).
      pose proof (g_nonneg e Hin). nra.
  Qed.

  Lemma VT_nonneg i : 0 <= wsum vt (fun c => (mask c =? i)%nat) (seq 0 ncomp).
  Proof. apply wsum_nonneg. intros c Hc. apply in_seq in Hc. apply Hvt. lia. Qed.

  Theorem assembled_rowdom b k : (b < nb tp)%nat -> (k < pl ly b)%nat -> rowdom ly tp s b k.
  Proof.
    intros Hb Hk. unfold rowdom, lo_c, up_c, cc_c, cp_c. set (i := (cs ly b + k)%nat).
    pose proof (T_nonneg 0 i) as P0. pose proof (T_nonneg 1 i) as P1. pose proof (T_nonneg 2 i) as P2.
    pose proof (LU_le i) as HLU. pose proof (D_ge i) as HD. pose proof (VT_nonneg i) as HV.
    assert (PL : 0 <= wsum g (fun e => is_type 0 e && ((e_source R e <? e_sink R e)%nat && atslot mask i e)) es)
      by (apply wsum_nonneg; intros e He; apply g_nonneg, He).
    assert (PU : 0 <= wsum g (fun e => is_type 0 e && ((e_sink R e <? e_source R e)%nat && atslot mask i e)) es)
      by (apply wsum_nonneg; intros e He; apply g_nonneg, He).
    set (L := wsum g (fun e => is_type 0 e && ((e_source R e <? e_sink R e)%nat && atslot mask i e)) es) in *.
    set (U := wsum g (fun e => is_type 0 e && ((e_sink R e <? e_source R e)%nat && atslot mask i e)) es) in *.
    assert (Elw : lw s i = - (dt * L)) by (unfold s; apply lw_val).
    assert (Eup : up s i = - (dt * U)) by (unfold s; apply up_val).
    assert (Edg : dg s i = 1 + dt * wsum g (fun e => (e_type R e <=? 2)%nat && atslot mask i e) es
                           + dt * wsum vt (fun c => (mask c =? i)%nat) (seq 0 ncomp)) by (unfold s; apply dg_val).
    (* the two branch-point coefficients, each bounded by its share of the diagonal *)
    assert (Hcc : - (dt * T 2 i) <= (if (k =? 0)%nat then match pbp tp b with Some _ => cc s b | None => 0 end else 0) <= 0).
    { destruct (Nat.eqb_spec k 0) as [->|]; [|nra]. destruct (pbp tp b); [|nra].
      replace i with (cs ly b) by (unfold i; lia). apply cc_bounds, Hb. }
    assert (Hcp : - (dt * T 1 i) <= (if (k =? nc ly b - 1)%nat then match cbp tp b with Some _ => cp s b | None => 0 end else 0) <= 0).
    { destruct (Nat.eqb_spec k (nc ly b - 1)) as [->|]; [|nra]. destruct (cbp tp b); [|nra]. apply cp_bounds, Hb. }
    fold i. rewrite Edg.
    assert (Hlo : - (dt * L) <= (if (k =? 0)%nat then 0 else lw s i) <= 0) by (destruct (k =? 0)%nat; [nra | rewrite Elw; nra]).
    assert (Hup : - (dt * U) <= (if (S k <? pl ly b)%nat then up s i else 0) <= 0) by (destruct (S k <? pl ly b)%nat; [rewrite Eup; nra | nra]).
    repeat split; try tauto; try lra.
    assert (dt * (L + U + T 1 i + T 2 i) <= dt * wsum g (fun e => (e_type R e <=? 2)%nat && atslot mask i e) es) by (apply Rmult_le_compat_l; lra).
    nra.
  Qed.
End Main.

(* ---- branch-point rows ---- *)
Lemma wsum_app {A} (val : A -> R) p (l1 l2 : list A) : wsum val p (l1 ++ l2) = wsum val p l1 + wsum val p l2.
Proof. unfold wsum. induction l1 as [|e l IH]; cbn [app fold_right]; [lra | rewrite IH; lra]. Qed.

Lemma combine_app {A B} : forall (a1 a2 : list A) (b1 b2 : list B), length a1 = length b1 ->
  combine (a1 ++ a2) (b1 ++ b2) = combine a1 b1 ++ combine a2 b2.
Proof.
  induction a1 as [|x a1 IH]; intros a2 b1 b2 H; destruct b1 as [|y b1]; cbn [length] in H; try discriminate; cbn [app combine]; [reflexivity|].
  f_equal. apply IH. injection H as H. exact H.
Qed.

Lemma sumf_nonneg f l : (forall c, In c l -> 0 <= f c) -> 0 <= sumf f l.
Proof. induction l as [|c r IH]; cbn [sumf]; intros H; [lra|]. pose proof (H c (or_introl eq_refl)). assert (0 <= sumf f r) by (apply IH; intros; apply H; now right). lra. Qed.

Lemma sumf_ge_elem f l c : (forall x, In x l -> 0 <= f x) -> In c l -> f c <= sumf f l.
Proof.
  induction l as [|x r IH]; intros H Hin; [destruct Hin|]. cbn [sumf]. destruct Hin as [->|Hin].
  - assert (0 <= sumf f r) by (apply sumf_nonneg; intros; apply H; now right). lra.
  - pose proof (H x (or_introl eq_refl)). assert (f c <= sumf f r) by (apply IH; auto; intros; apply H; now right). lra.
Qed.

Lemma sumf_remove f (l : list nat) i : NoDup l -> In i l -> sumf f l = f i + sumf f (remove Nat.eq_dec i l).
Proof.
  induction l as [|x r IH]; intros ND Hin; [destruct Hin|]. inversion ND as [|? ? Hn ND']; subst. cbn [sumf remove].
  destruct (Nat.eq_dec i x) as [->|Hne].
  - rewrite notin_remove by exact Hn. reflexivity.
  - destruct Hin as [E|Hin]; [congruence|]. cbn [sumf]. rewrite (IH ND' Hin). lra.
Qed.

Lemma NoDup_remove_nat (l : list nat) i : NoDup l -> NoDup (remove Nat.eq_dec i l).
Proof.
  induction l as [|x r IH]; intros ND; [constructor|]. inversion ND as [|? ? Hn ND']; subst. cbn [remove].
  destruct (Nat.eq_dec i x); [apply IH, ND'|]. constructor; [|apply IH, ND'].
  intros C. apply in_remove in C. apply Hn, C.
Qed.

Lemma set_all_base_ext : forall (inds : list nat) (vals : list R) (f f' : nat -> R) c,
  f c = f' c -> set_all R f inds vals c = set_all R f' inds vals c.
Proof.
  unfold set_all. induction inds as [|a inds IH]; intros vals f f' c H; [exact H|].
  destruct vals as [|w vals]; [exact H|]. cbn [combine fold_left fst snd]. apply IH. unfold upd. destruct (c =? a)%nat; [reflexivity | exact H].
Qed.

Lemma set_all_cons_notin i inds v vals (f : nat -> R) c : ~ In i inds ->
  set_all R f (i :: inds) (v :: vals) c = if (c =? i)%nat then v else set_all R f inds vals c.
Proof.
  intros Hni. change (set_all R f (i :: inds) (v :: vals) c) with (set_all R (upd R f i v) inds vals c).
  destruct (Nat.eqb_spec c i) as [->|Hne].
  - rewrite set_all_notin by exact Hni. unfold upd. rewrite Nat.eqb_refl. reflexivity.
  - apply set_all_base_ext. unfold upd. destruct (Nat.eqb_spec c i); [contradiction | reflexivity].
Qed.

(* the scattered weights of the kids of one branch point sum to at most the weights booked on it *)
Lemma kids_sum_le j : forall (inds grp : list nat) (vals : list R) (kids_ : list nat),
  length inds = length vals -> length inds = length grp -> NoDup inds -> NoDup kids_ ->
  (forall c, In c kids_ -> In c inds) ->
  (forall i q, In (i, q) (combine inds grp) -> In i kids_ -> q = j) ->
  (forall x, In x vals -> 0 <= x) ->
  sumf (set_all R (fun _ => 0) inds vals) kids_ <= wsum snd (fun jw => (fst jw =? j)%nat) (combine grp vals).
Proof.
  induction inds as [|i inds IH]; intros grp vals kids_ L1 L2 ND NDk Hin Hgrp Hpos.
  - destruct kids_ as [|c r]; [|exfalso; apply (Hin c); now left]. destruct grp as [|q grp]; [|cbn in L2; lia]. cbn. lra.
  - destruct vals as [|v vals]; [cbn in L1; lia|]. destruct grp as [|q grp]; [cbn in L2; lia|].
    inversion ND as [|? ? Hni ND']; subst. cbn [combine wsum fold_right fst snd].
    fold (wsum (@snd nat R) (fun jw => (fst jw =? j)%nat) (combine grp vals)).
    assert (Hv : 0 <= v) by (apply Hpos; now left).
    assert (Estep : forall c, set_all R (fun _ => 0) (i :: inds) (v :: vals) c = if (c =? i)%nat then v else set_all R (fun _ => 0) inds vals c)
      by (intros c; apply set_all_cons_notin; exact Hni).
    rewrite (sumf_ext _ (fun c => if (c =? i)%nat then v else set_all R (fun _ => 0) inds vals c) kids_ (fun c _ => Estep c)).
    destruct (in_dec Nat.eq_dec i kids_) as [Hik|Hnik].
    + (* i is a kid: its weight is booked on j *)
      assert (q = j) by (apply (Hgrp i q); [now left | exact Hik]). subst q. rewrite Nat.eqb_refl.
      rewrite (sumf_remove _ kids_ i NDk Hik). rewrite Nat.eqb_refl.
      rewrite (sumf_ext _ (set_all R (fun _ => 0) inds vals) (remove Nat.eq_dec i kids_)).
      * assert (sumf (set_all R (fun _ => 0) inds vals) (remove Nat.eq_dec i kids_) <= wsum snd (fun jw => (fst jw =? j)%nat) (combine grp vals)); [|lra].
        apply IH; cbn in L1, L2; try lia; auto.
        -- apply NoDup_remove_nat, NDk.
        -- intros c Hc. apply in_remove in Hc. destruct Hc as [Hc Hne]. destruct (Hin c Hc) as [E|E]; [congruence | exact E].
        -- intros i' q' Hiq Hk. apply (Hgrp i' q'); [now right | apply in_remove in Hk; tauto].
        -- intros x Hx. apply Hpos. now right.
      * intros c Hc. apply in_remove in Hc. destruct Hc as [_ Hne]. destruct (Nat.eqb_spec c i); [contradiction | reflexivity].
    + rewrite (sumf_ext _ (set_all R (fun _ => 0) inds vals) kids_).
      * assert (sumf (set_all R (fun _ => 0) inds vals) kids_ <= wsum snd (fun jw => (fst jw =? j)%nat) (combine grp vals)).
        { apply IH; cbn in L1, L2; try lia; auto.
          - intros c Hc. destruct (Hin c Hc) as [E|E]; [subst; contradiction | exact E].
          - intros i' q' Hiq Hk. apply (Hgrp i' q'); [now right | exact Hk].
          - intros x Hx. apply Hpos. now right. }
        destruct (q =? j)%nat; lra.
      * intros c Hc. destruct (Nat.eqb_spec c i); [subst; contradiction | reflexivity].
Qed.

Lemma In_combine_nth {A B} (da : A) (db : B) : forall (a : list A) (b : list B) idx,
  (idx < length a)%nat -> (idx < length b)%nat -> In (nth idx a da, nth idx b db) (combine a b).
Proof.
  induction a as [|x a IH]; intros b idx H1 H2; [cbn in H1; lia|]. destruct b as [|y b]; [cbn in H2; lia|].
  destruct idx as [|idx]; cbn [nth combine]; [now left | right; apply IH; cbn in H1, H2; lia].
Qed.

Lemma In_combine_nth_inv {A B} (da : A) (db : B) : forall (a : list A) (b : list B) x y,
  In (x, y) (combine a b) -> exists idx, (idx < length a)%nat /\ (idx < length b)%nat /\ nth idx a da = x /\ nth idx b db = y.
Proof.
  induction a as [|x0 a IH]; intros b x y H; [destruct H|]. destruct b as [|y0 b]; [destruct H|].
  destruct H as [E|H].
  - inversion E; subst. exists 0%nat. cbn. repeat split; lia.
  - destruct (IH b x y H) as (idx & H1 & H2 & H3 & H4). exists (Datatypes.S idx). cbn. repeat split; try lia; assumption.
Qed.

Lemma nth_skipn_shift {A} (d : A) : forall n (l : list A) idx, nth idx (skipn n l) d = nth (n + idx) l d.
Proof. induction n as [|n IH]; intros l idx; [reflexivity|]. destruct l as [|x l]; [destruct idx; reflexivity|]. cbn [skipn Nat.add nth]. apply IH. Qed.

Lemma nth_firstn_lt {A} (d : A) : forall n (l : list A) idx, (idx < n)%nat -> nth idx (firstn n l) d = nth idx l d.
Proof.
  induction n as [|n IH]; intros l idx H; [lia|]. destruct l as [|x l]; [reflexivity|]. destruct idx as [|idx]; [reflexivity|].
  cbn [firstn nth]. apply IH. lia.
Qed.

Section Main2.
  Variables (ly : layout) (tp : topo).
  Hypothesis W : wf ly tp.
  Variables (mask : nat -> nat) (ncomp : nat) (es : list (edge R)) (v vt ct : nat -> R) (dt : R)
            (group child_inds par_inds : list nat).
  Hypothesis St : asm_struct ly tp mask es group child_inds par_inds.
  Hypothesis Hdt : 0 < dt.
  Hypothesis Hg : forall e, In e es -> 0 < e_g R e.
  Hypothesis Hvt : forall i, (i < ncomp)%nat -> 0 <= vt i.
  Let s := assemble R Rplus Rminus Rmult 0 1 mask ncomp es v vt ct dt group child_inds par_inds.
  Notation g := (e_g R).
  Notation W3 := (map g (of_type R 3 es)).
  Notation W4 := (map g (of_type R 4 es)).
  Notation n3 := (length par_inds).

  Lemma W_pos t x : In x (map g (of_type R t es)) -> 0 < x.
  Proof. intros H. apply in_map_iff in H. destruct H as (e & <- & He). apply Hg. unfold of_type in He. apply filter_In in He. tauto. Qed.

  Lemma bd_split j : - bd s j = wsum snd (fun jw => (fst jw =? j)%nat) (combine (firstn n3 group) W3)
                              + wsum snd (fun jw => (fst jw =? j)%nat) (combine (skipn n3 group) W4).
  Proof.
    unfold s. rewrite bd_val. rewrite <- (firstn_skipn n3 group) at 1.
    rewrite combine_app.
    - rewrite wsum_app. lra.
    - rewrite firstn_length, map_length, (as_len3 _ _ _ _ _ _ _ St), (as_group _ _ _ _ _ _ _ St). lia.
  Qed.

  Lemma wc_nonneg c : 0 <= wc s c.
  Proof.
    unfold s. rewrite wc_val. destruct (set_all_cases child_inds W4 (fun _ => 0) c) as [E|(idx & H1 & H2 & H3 & H4)]; [rewrite E; lra|].
    rewrite H4. apply Rlt_le, (W_pos 4). apply nth_In. exact H2.
  Qed.

  Lemma wp_le_B3 j : (j < nbp tp)%nat ->
    0 <= wp s (par tp j) <= wsum snd (fun jw => (fst jw =? j)%nat) (combine (firstn n3 group) W3).
  Proof.
    intros Hj. assert (P : 0 <= wsum snd (fun jw => (fst jw =? j)%nat) (combine (firstn n3 group) W3)).
    { apply wsum_nonneg. intros [a x] Hin. apply in_combine_r in Hin. apply Rlt_le, (W_pos 3 x Hin). }
    unfold s. rewrite wp_val. destruct (set_all_cases par_inds W3 (fun _ => 0) (par tp j)) as [E|(idx & H1 & H2 & H3 & H4)]; [rewrite E; lra|].
    rewrite H4. split; [apply Rlt_le, (W_pos 3); apply nth_In; exact H2|].
    assert (Hgi : nth idx group 0%nat = j).
    { pose proof (as_g3 _ _ _ _ _ _ _ St idx H1) as G. rewrite H3 in G. destruct (wf_par _ _ W j Hj) as [_ C]. congruence. }
    apply (wsum_ge_elem (@snd nat R) (fun jw => (fst jw =? j)%nat) _ (nth idx (firstn n3 group) 0%nat, nth idx W3 0)).
    - intros [a x] Hin. apply in_combine_r in Hin. apply Rlt_le, (W_pos 3 x Hin).
    - apply In_combine_nth; [|exact H2]. rewrite firstn_length, (as_group _ _ _ _ _ _ _ St). lia.
    - cbn [fst]. rewrite nth_firstn_lt by exact H1. rewrite Hgi. apply Nat.eqb_refl.
  Qed.

  Lemma kids_le_B4 j : (j < nbp tp)%nat ->
    sumf (wc s) (kids tp j) <= wsum snd (fun jw => (fst jw =? j)%nat) (combine (skipn n3 group) W4).
  Proof.
    intros Hj. rewrite (sumf_ext (wc s) (set_all R (fun _ => 0) child_inds W4) (kids tp j)) by (intros c _; unfold s; apply wc_val).
    apply kids_sum_le.
    - rewrite map_length. symmetry. apply (as_len4 _ _ _ _ _ _ _ St).
    - rewrite skipn_length, (as_group _ _ _ _ _ _ _ St). lia.
    - apply (as_child_nodup _ _ _ _ _ _ _ St).
    - apply (wf_kids_nodup _ _ W j Hj).
    - intros c Hc. destruct (wf_kids_pbp _ _ W j c Hj Hc) as [Hcb Hp]. apply (as_kids_in _ _ _ _ _ _ _ St c j Hcb Hp).
    - intros i q Hiq Hik. destruct (In_combine_nth_inv 0%nat 0%nat _ _ _ _ Hiq) as (idx & H1 & H2 & H3 & H4).
      rewrite nth_skipn_shift in H4. pose proof (as_g4 _ _ _ _ _ _ _ St idx H1) as G. rewrite H3, H4 in G.
      destruct (wf_kids_pbp _ _ W j i Hj Hik) as [_ Hp]. congruence.
    - intros x Hx. apply Rlt_le, (W_pos 4 x Hx).
  Qed.

  Lemma some_kid_positive j : (j < nbp tp)%nat -> 0 < sumf (wc s) (kids tp j).
  Proof.
    intros Hj. destruct (kids tp j) as [|c r] eqn:E; [exfalso; apply (as_kids_ne _ _ _ _ _ _ _ St j Hj E)|].
    assert (Hc : In c (kids tp j)) by (rewrite E; now left).
    destruct (wf_kids_pbp _ _ W j c Hj Hc) as [Hcb Hp]. pose proof (as_kids_in _ _ _ _ _ _ _ St c j Hcb Hp) as Hin.
    destruct (In_nth _ _ 0%nat Hin) as (idx & Hidx & Eidx).
    assert (Ewc : wc s c = nth idx W4 0).
    { unfold s. rewrite wc_val. rewrite <- Eidx. apply set_all_nodup; [apply (as_child_nodup _ _ _ _ _ _ _ St) | exact Hidx |].
      rewrite map_length, (as_len4 _ _ _ _ _ _ _ St). exact Hidx. }
    assert (0 < wc s c) by (rewrite Ewc; apply (W_pos 4); apply nth_In; rewrite map_length, (as_len4 _ _ _ _ _ _ _ St); exact Hidx).
    cbn [sumf]. assert (0 <= sumf (wc s) r) by (apply sumf_nonneg; intros; apply wc_nonneg). lra.
  Qed.

  Theorem assembled_bpdom j : (j < nbp tp)%nat -> bpdom tp s j.
  Proof.
    intros Hj. unfold bpdom. pose proof (wp_le_B3 j Hj) as [P1 P2]. pose proof (kids_le_B4 j Hj) as P3.
    pose proof (some_kid_positive j Hj) as P4. pose proof (bd_split j) as E.
    split; [intros c _; apply wc_nonneg|]. split; [exact P1|]. split; lra.
  Qed.

  (* THE ASSEMBLED STORE IS M-MATRIX-LIKE, for all positive conductances, non-negative membrane terms, dt > 0 *)
  Theorem assembled_Mstore : Mstore ly tp s.
  Proof.
    split.
    - intros b k Hb Hk. apply (assembled_rowdom ly tp mask ncomp es v vt ct dt group child_inds par_inds St Hdt Hg Hvt b k Hb Hk).
    - exact assembled_bpdom.
  Qed.
End Main2.
