(* The index structure of Model/HinesIdx.v (= what jaxley builds for a cell) is well formed
   and levelled, for EVERY sorted parent vector and all compartment counts >= 1; hence the
   schedule checker accepts it (tree_accepted) and, by arr_solve_correct, the array-level
   solver is correct for every cell and all array contents. *)
From Coq Require Import List Arith Bool Lia.
From JV Require Import HinesArr HinesCheck HinesArrFacts HinesIdx HinesTreeFacts.
Import ListNotations.

(* ---- filters of seq: rank and inverse ---- *)
Section Rank.
  Variable f : nat -> bool.
  Definition rank (p : nat) : nat := length (filter f (seq 0 p)).

  Lemma filter_seq_split n p : p <= n -> filter f (seq 0 n) = filter f (seq 0 p) ++ filter f (seq p (n - p)).
  Proof. intros H. replace n with (p + (n - p)) at 1 by lia. rewrite seq_app, filter_app. reflexivity. Qed.

  Lemma rank_nth n p : p < n -> f p = true ->
    rank p < length (filter f (seq 0 n)) /\ nth (rank p) (filter f (seq 0 n)) 0 = p.
  Proof.
    intros Hp Hf. rewrite (filter_seq_split n p) by lia.
    replace (n - p) with (S (n - p - 1)) by lia. cbn [seq filter]. rewrite Hf.
    unfold rank. split.
    - rewrite app_length. cbn [length]. lia.
    - rewrite app_nth2 by lia. rewrite Nat.sub_diag. reflexivity.
  Qed.

  Lemma NoDup_filter_seq n : NoDup (filter f (seq 0 n)).
  Proof. apply NoDup_filter, seq_NoDup. Qed.

  Lemma nth_rank n j : j < length (filter f (seq 0 n)) ->
    let p := nth j (filter f (seq 0 n)) 0 in p < n /\ f p = true /\ rank p = j.
  Proof.
    intros Hj p. assert (Hin : In p (filter f (seq 0 n))) by (apply nth_In; exact Hj).
    apply filter_In in Hin. destruct Hin as [Hs Hf]. apply in_seq in Hs.
    split; [lia|]. split; [exact Hf|].
    destruct (rank_nth n p ltac:(lia) Hf) as [H1 H2].
    apply (proj1 (NoDup_nth (filter f (seq 0 n)) 0) (NoDup_filter_seq n)); auto.
  Qed.
End Rank.

Lemma list_max_ge l x : In x l -> x <= list_max l.
Proof. intros H. pose proof (proj1 (list_max_le l (list_max l)) (le_n _)) as F. rewrite Forall_forall in F. auto. Qed.

Section Concrete.
  Variables (ps ns : list nat).
  Hypothesis nb_pos : 1 <= length ps.
  Hypothesis sorted : forall b, 1 <= b -> b < length ps -> nth b ps 0 < b.
  Hypothesis counts : forall b, b < length ps -> 1 <= nth b ns 0.

  Notation nbL := (length ps).
  Notation par := (par_of ps).
  Notation depth := (depth ps).
  Notation hk := (has_kids ps).
  Notation pwk := (parents_with_kids ps).
  Notation bp := (bp_of ps).
  Notation ly := (layout_of ps ns).
  Notation tp := (topo_of ps).

  Lemma lev_fuel : forall b fuel, b < nbL -> b <= fuel -> lev ps fuel b = lev ps b b.
  Proof.
    induction b as [b IH] using lt_wf_ind. intros fuel Hb Hf.
    destruct b as [|b]; [destruct fuel; reflexivity|].
    destruct fuel as [|fuel]; [lia|]. cbn [lev]. cbn [Nat.eqb]. f_equal.
    pose proof (sorted (S b) ltac:(lia) Hb) as Hs. fold (par (S b)) in Hs.
    rewrite (IH (par (S b)) ltac:(lia) fuel ltac:(lia) ltac:(lia)).
    rewrite (IH (par (S b)) ltac:(lia) b ltac:(lia) ltac:(lia)). reflexivity.
  Qed.

  Lemma depth_child c : 1 <= c -> c < nbL -> depth c = S (depth (par c)).
  Proof.
    intros H1 H2. unfold HinesIdx.depth. destruct c as [|c]; [lia|]. cbn [lev Nat.eqb]. f_equal.
    pose proof (sorted (S c) H1 H2) as Hs. fold (par (S c)) in Hs.
    apply lev_fuel; lia.
  Qed.

  Lemma is_child_spec p c : is_child_of ps p c = true <-> 1 <= c /\ par c = p.
  Proof. unfold is_child_of. rewrite andb_true_iff, Nat.leb_le, Nat.eqb_eq. tauto. Qed.
  Lemma hk_spec p : hk p = true <-> exists c, c < nbL /\ 1 <= c /\ par c = p.
  Proof.
    unfold has_kids, nbr. rewrite existsb_exists. split.
    - intros (c & Hc & H). apply in_seq in Hc. apply is_child_spec in H. exists c. split; [lia | exact H].
    - intros (c & Hc & H). exists c. split; [apply in_seq; lia | apply is_child_spec; exact H].
  Qed.
  Lemma kids_spec p c : In c (kids_of ps p) <-> c < nbL /\ 1 <= c /\ par c = p.
  Proof. unfold kids_of, nbr. rewrite filter_In, in_seq, is_child_spec. split; intros; [split; [lia|tauto] | split; [lia|tauto]]. Qed.

  Lemma in_level_spec k b : In b (in_level ps k) <-> b < nbL /\ depth b = k.
  Proof. unfold in_level, nbr. rewrite filter_In, in_seq, Nat.eqb_eq. split; intros; [split; [lia|tauto] | split; [lia|tauto]]. Qed.

  Lemma pl_ge b : b < nbL -> ncomp_of ns b <= pl_of ps ns b.
  Proof. intros Hb. unfold pl_of. apply list_max_ge. apply in_map. apply in_level_spec. auto. Qed.

  Lemma cs_S b : cs_of ps ns (S b) = cs_of ps ns b + pl_of ps ns b.
  Proof.
    unfold cs_of. rewrite seq_S, map_app. cbn [map Nat.add].
    generalize (map (pl_of ps ns) (seq 0 b)). induction l as [|x l IH]; cbn; [lia | rewrite IH; lia].
  Qed.

  Theorem idx_wf : wf ly tp.
  Proof.
    constructor; unfold topo_of, layout_of; cbn [nb nbp pbp cbp kids HinesCheck.par cs pl nc]; unfold parents_with_kids, nbr.
    - intros b Hb. split; [apply counts; exact Hb | apply pl_ge; exact Hb].
    - intros b Hb. rewrite cs_S. lia.
    - intros j Hj. unfold kids_of. apply NoDup_filter, seq_NoDup.
    - intros j c Hj Hc. destruct (nth_rank hk nbL j Hj) as (Hp & Hf & Hr). apply kids_spec in Hc. destruct Hc as (Hc1 & Hc2 & Hc3).
      split; [exact Hc1|]. destruct (Nat.eqb_spec c 0); [lia|]. f_equal. rewrite Hc3. exact Hr.
    - intros c j Hc Hp. destruct (Nat.eqb_spec c 0); [discriminate|]. inversion Hp as [E].
      assert (Hk : hk (par c) = true) by (apply hk_spec; exists c; split; [exact Hc | split; [lia | reflexivity]]).
      pose proof (sorted c ltac:(lia) Hc) as Hs. fold (par c) in Hs.
      destruct (rank_nth hk nbL (par c) ltac:(lia) Hk) as [R1 R2]. split; [exact R1|].
      change (bp (par c)) with (rank hk (par c)). rewrite R2. apply kids_spec. split; [exact Hc | split; [lia | reflexivity]].
    - intros j Hj. destruct (nth_rank hk nbL j Hj) as (Hp & Hf & Hr). split; [exact Hp|]. rewrite Hf. f_equal. exact Hr.
    - intros b j Hb Hc. destruct (hk b) eqn:Hk; [|discriminate]. inversion Hc as [E].
      destruct (rank_nth hk nbL b Hb Hk) as [R1 R2]. split; [exact R1 | exact R2].
  Qed.

  Lemma nlev_len : length (levels_idx ps) = nlev ps.
  Proof. unfold levels_idx. rewrite map_length, seq_length. reflexivity. Qed.
  Lemma nth_level k : k < nlev ps -> nth k (levels_idx ps) ([], []) = (cil ps k, pil ps k).
  Proof.
    intros Hk. unfold levels_idx.
    rewrite (nth_indep _ ([], []) ((fun k => (cil ps k, pil ps k)) 0)) by (rewrite map_length, seq_length; exact Hk).
    rewrite (map_nth (fun k => (cil ps k, pil ps k)) (seq 0 (nlev ps)) 0 k), seq_nth by exact Hk. reflexivity.
  Qed.

  Theorem idx_leveled : leveled ly tp depth (levels_idx ps).
  Proof.
    constructor; rewrite ?nlev_len.
    - intros k b j Hk. rewrite nth_level by exact Hk. cbn [fst]. unfold cil. rewrite in_map_iff.
      unfold topo_of; cbn [nb pbp]. unfold nbr. split.
      + intros (b' & E & Hin). inversion E; subst. apply in_level_spec in Hin. destruct Hin as [Hb Hd].
        split; [exact Hb|]. split; [exact Hd|]. destruct (Nat.eqb_spec b 0) as [->|]; [|reflexivity].
        unfold HinesIdx.depth in Hd. cbn in Hd. discriminate.
      + intros (Hb & Hd & Hp). exists b. destruct (Nat.eqb_spec b 0); [discriminate|]. inversion Hp. split; [reflexivity|].
        apply in_level_spec. auto.
    - intros k Hk. rewrite nth_level by exact Hk. cbn [fst]. unfold cil. rewrite map_map. cbn [fst]. rewrite map_id.
      unfold in_level. apply NoDup_filter, seq_NoDup.
    - intros k p j Hk. rewrite nth_level by exact Hk. cbn [snd]. unfold pil. rewrite in_map_iff.
      unfold topo_of; cbn [nb cbp]. unfold nbr. split.
      + intros (p' & E & Hin). inversion E; subst. apply filter_In in Hin. destruct Hin as [Hin Hk'].
        apply in_level_spec in Hin. destruct Hin as [Hb Hd]. rewrite Hk'. auto.
      + intros (Hb & Hd & Hc). destruct (hk p) eqn:Hk'; [|discriminate]. inversion Hc. exists p. split; [reflexivity|].
        apply filter_In. split; [apply in_level_spec; auto | exact Hk'].
    - intros j c Hj Hc. unfold topo_of in *; cbn [nbp kids HinesCheck.par] in *. unfold parents_with_kids, nbr in *.
      apply kids_spec in Hc. destruct Hc as (Hc1 & Hc2 & Hc3). rewrite <- Hc3. apply depth_child; auto.
    - unfold topo_of; cbn [nb pbp]. unfold nbr. split; [lia|]. split; [reflexivity|]. split; [reflexivity|].
      intros b Hb Hp. destruct (Nat.eqb_spec b 0); [assumption | discriminate].
    - intros b Hb. unfold topo_of in Hb; cbn [nb] in Hb. unfold nbr in Hb. unfold nlev. apply list_max_ge.
      apply in_map. unfold nbr. apply in_seq. lia.
    - intros j Hj. unfold topo_of in *; cbn [nbp kids] in *. unfold parents_with_kids, nbr in *.
      destruct (nth_rank hk nbL j Hj) as (Hp & Hf & _). apply hk_spec in Hf. destruct Hf as (c & Hc1 & Hc2 & Hc3).
      intros E. assert (Hin : In c (kids_of ps (nth j (filter hk (seq 0 nbL)) 0))) by (apply kids_spec; auto).
      rewrite E in Hin. destruct Hin.
  Qed.
End Concrete.

(* completeness of the boolean well-formedness test *)
Lemma nodupb_complete l : NoDup l -> nodupb l = true.
Proof.
  induction 1 as [|x l Hn Hd IH]; [reflexivity|]. cbn [nodupb]. rewrite IH, andb_true_r.
  apply negb_true_iff. destruct (existsb (Nat.eqb x) l) eqn:E; [|reflexivity].
  apply existsb_exists in E. destruct E as (y & Hy & Ey). apply Nat.eqb_eq in Ey. subst. contradiction.
Qed.

Lemma wf_b_complete ly tp : wf ly tp -> wf_b ly tp = true.
Proof.
  intros W. unfold wf_b. repeat (apply andb_true_iff; split); apply forallb_forall; intros x Hx; apply in_seq in Hx.
  - pose proof (wf_nc _ _ W x ltac:(lia)). apply andb_true_iff. split; apply Nat.leb_le; lia.
  - apply Nat.leb_le. apply (wf_mono _ _ W). lia.
  - apply nodupb_complete. apply (wf_kids_nodup _ _ W). lia.
  - apply forallb_forall. intros c Hc. destruct (wf_kids_pbp _ _ W x c ltac:(lia) Hc) as [H1 H2].
    apply andb_true_iff. split; [apply Nat.ltb_lt; exact H1 | rewrite H2; cbn; apply Nat.eqb_refl].
  - destruct (pbp tp x) as [j|] eqn:E; [|reflexivity]. destruct (wf_pbp_kids _ _ W x j ltac:(lia) E) as [H1 H2].
    apply andb_true_iff. split; [apply Nat.ltb_lt; exact H1|]. apply existsb_exists. exists x. split; [exact H2 | apply Nat.eqb_refl].
  - destruct (wf_par _ _ W x ltac:(lia)) as [H1 H2]. apply andb_true_iff. split; [apply Nat.ltb_lt; exact H1 | rewrite H2; cbn; apply Nat.eqb_refl].
  - destruct (cbp tp x) as [j|] eqn:E; [|reflexivity]. destruct (wf_cbp _ _ W x j ltac:(lia) E) as [H1 H2].
    apply andb_true_iff. split; [apply Nat.ltb_lt; exact H1 | apply Nat.eqb_eq; exact H2].
Qed.

(* THE CHECKER ACCEPTS EVERY CELL *)
Theorem tree_accepted (ps ns : list nat) :
  1 <= length ps -> (forall b, 1 <= b -> b < length ps -> nth b ps 0 < b) -> (forall b, b < length ps -> 1 <= nth b ns 0) ->
  check_schedule (layout_of ps ns) (topo_of ps) (ops_of_tree ps ns) = true.
Proof.
  intros H1 H2 H3. pose proof (idx_wf ps ns H1 H2 H3) as W. pose proof (idx_leveled ps ns H1 H2) as LV.
  unfold check_schedule. rewrite (wf_b_complete _ _ W). cbn [andb].
  destruct (tree_schedule_ok _ _ _ _ W LV) as (fl & E & F). unfold ops_of_tree. rewrite E. exact F.
Qed.
