(* Crank-Nicolson for EVERY cell and EVERY network: Module.step returns 2 * (implicit step with dt/2) - V.  For all
   positive conductances, non-negative membrane terms and dt > 0 that vector is the implicit-midpoint update of the
   conductance graph: (z_c - v_c) + dt * (current leaving c in the midpoint state) = 0, the midpoint state being
   (z + v)/2 on the compartments with the branch points in Kirchhoff balance. *)
From Coq Require Import Reals List Arith Bool Lia Lra.
From JV Require Import HinesArr HinesCheck HinesArrFacts HinesArrPositive HinesIdx HinesIdxF AsmStruct AssembleM AssembleTotal AsmIdx AsmIdxFacts
     AssembleGraph AsmGraphFacts AsmIdxF AsmGraphFFacts GraphCN.
Import ListNotations.
Local Open Scope R_scope.

Theorem cell_cn_step (ps ns : list nat) (es : list (edge R)) (v vt ct : nat -> R) (dt : R) :
  (1 <= length ps)%nat -> (forall b, (1 <= b)%nat -> (b < length ps)%nat -> (nth b ps 0 < b)%nat) ->
  (forall b, (b < length ps)%nat -> (1 <= nth b ns 0)%nat) ->
  map strip es = triples_of ps ns ->
  0 < dt -> (forall e, In e es -> 0 < e_g R e) -> (forall i, (i < total ps ns)%nat -> 0 <= vt i) ->
  let ly := layout_of ps ns in let tp := topo_of ps in let mask := nthD (mask_of ps ns) in let n := total ps ns in
  let s0 := assemble R Rplus Rminus Rmult 0 1 mask n es v vt ct (dt / 2) (group_of ps) (child_inds_of ps) (par_inds_of ps) in
  let half := sv (runR ly (ops_of_tree ps ns) s0) in
  let z := fun c => 2 * half (mask c) - v c in           (* what Module.step returns for compartment c *)
  exists y, (forall c, (c < n)%nat -> z c - v c + dt * outflow mask n es vt ct half y c = 0 /\ half (mask c) = (z c + v c) / 2) /\
            (forall j, (j < nbp tp)%nat -> bp_graph mask n es half y j = 0).
Proof.
  intros H1 H2 H3 E Hdt Hg Hvt ly tp mask n s0 half z.
  destruct (cell_step_solves_the_graph_equations ps ns es v vt ct (dt / 2) H1 H2 H3 E ltac:(lra) Hg Hvt) as [(y & C & B & _) _].
  exists y. split; [|exact B]. intros c Hc.
  pose proof (proj1 (be_is_outflow mask n es v vt ct (dt / 2) _ y c) (C c Hc)) as Eq. unfold z, half, s0, ly, mask, n in *. split; lra.
Qed.

Theorem network_cn_step (ps ns : list nat) (rs : list bool) (es : list (edge R)) (v vt ct : nat -> R) (dt : R) :
  (1 <= length ps)%nat -> (forall b, (b < length ps)%nat -> is_root rs b = false -> (nth b ps 0 < b)%nat) ->
  (forall b, (b < length ps)%nat -> (1 <= nth b ns 0)%nat) ->
  map strip es = triples_ofF ps ns rs ->
  0 < dt -> (forall e, In e es -> 0 < e_g R e) -> (forall i, (i < total ps ns)%nat -> 0 <= vt i) ->
  let ly := layout_ofF ps ns rs in let tp := topo_ofF ps rs in let mask := nthD (mask_ofF ps ns rs) in let n := total ps ns in
  let s0 := assemble R Rplus Rminus Rmult 0 1 mask n es v vt ct (dt / 2) (group_ofF ps rs) (child_inds_ofF ps rs) (par_inds_ofF ps rs) in
  let half := sv (runR ly (ops_of_forest ps ns rs) s0) in
  let z := fun c => 2 * half (mask c) - v c in
  exists y, (forall c, (c < n)%nat -> z c - v c + dt * outflow mask n es vt ct half y c = 0 /\ half (mask c) = (z c + v c) / 2) /\
            (forall j, (j < nbp tp)%nat -> bp_graph mask n es half y j = 0).
Proof.
  intros H1 H2 H3 E Hdt Hg Hvt ly tp mask n s0 half z.
  destruct (forest_step_solves_the_graph_equations ps ns rs es v vt ct (dt / 2) H1 H2 H3 E ltac:(lra) Hg Hvt) as [(y & C & B & _) _].
  exists y. split; [|exact B]. intros c Hc.
  pose proof (proj1 (be_is_outflow mask n es v vt ct (dt / 2) _ y c) (C c Hc)) as Eq. unfold z, half, s0, ly, mask, n in *. split; lra.
Qed.
