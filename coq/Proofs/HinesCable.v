(* The schedule checker accepts the index structure of EVERY unbranched cable (any number
   of compartments): together with [arr_solve_correct] the array-level solver is correct,
   without any per-instance check, for every Branch module. *)
From Coq Require Import List Arith Bool Lia.
From JV Require Import HinesArr HinesCheck.
Import ListNotations.

Section Cable.
  Variable n : nat.
  Hypothesis n_pos : 1 <= n.

  Definition cable_ly : layout := mklayout (fun _ => 0) (fun _ => n) (fun _ => n).
  Definition cable_tp : topo := mktopo 1 0 (fun _ => None) (fun _ => None) (fun _ => []) (fun _ => 0).
  Definition cable_ops : list op := ops_of_idx cable_ly [] [0].

  Notation chk := (check_op cable_ly cable_tp).
  Notation upd := (aupd cable_ly).
  Notation chks := (check_ops cable_ly cable_tp).

  Lemma bupd_same f i v : bupd f i v i = v.
  Proof. unfold bupd. now rewrite Nat.eqb_refl. Qed.
  Lemma bupd_other f i v j : j <> i -> bupd f i v j = f j.
  Proof. intros H. unfold bupd. apply Nat.eqb_neq in H. now rewrite H. Qed.

  Lemma check_ops_app fl a b : chks fl (a ++ b) = match chks fl a with Some fl' => chks fl' b | None => None end.
  Proof. revert fl. induction a as [|o a IH]; intros fl; cbn [app check_ops]; [reflexivity|]. destruct (chk fl o); [apply IH | reflexivity]. Qed.

  (* rows k .. n-1 are triangulated: normalised (except row 0) and without upper entry *)
  Definition tri (fl : flags) (k : nat) : Prop :=
    (forall i, k <= i -> i < n -> 1 <= i -> fN fl i = true) /\ (forall i, k <= i -> S i < n -> fU fl i = true).

  Lemma cpz_true fl b k : cpzb cable_ly cable_tp fl b k = true.
  Proof. unfold cpzb. cbn. apply orb_true_r. Qed.
  Lemma ccz_true fl b k : cczb cable_tp fl b k = true.
  Proof. unfold cczb. cbn. apply orb_true_r. Qed.

  Lemma uz_of_tri fl k j : tri fl k -> k <= j -> uzb cable_ly fl 0 j = true.
  Proof.
    intros [_ HU] Hk. unfold uzb. cbn [pl cs cable_ly]. destruct (Nat.ltb_spec (S j) n); cbn [negb orb]; [|reflexivity].
    apply HU; assumption.
  Qed.

  Lemma sweep_step fl k : tri fl (S k) -> 1 <= k -> S k < n ->
    exists fl', chks fl [ElimUp 0 k; Norm 0 k] = Some fl' /\ tri fl' k /\ (forall i, fL fl' i = fL fl i).
  Proof.
    intros T Hk Hlt. pose proof T as [HN HU].
    assert (C1 : chk fl (ElimUp 0 k) = true).
    { cbn [check_op nb cable_tp pl cs cable_ly Nat.add]. rewrite (uz_of_tri fl (S k) (S k) T) by lia. rewrite cpz_true.
      rewrite (HN (S k)) by lia. replace (0 <? 1) with true by reflexivity.
      replace (S k <? n) with true by (symmetry; apply Nat.ltb_lt; lia). reflexivity. }
    set (fl1 := upd fl (ElimUp 0 k)).
    assert (C2 : chk fl1 (Norm 0 k) = true).
    { cbn [check_op nb cable_tp pl cs cable_ly Nat.add]. rewrite cpz_true.
      replace (0 <? 1) with true by reflexivity.
      replace (1 <=? k) with true by (symmetry; apply Nat.leb_le; lia).
      replace (k <? n) with true by (symmetry; apply Nat.ltb_lt; lia).
      unfold uzb. cbn [pl cs cable_ly Nat.add]. replace (S k <? n) with true by (symmetry; apply Nat.ltb_lt; lia).
      unfold fl1. cbn [aupd fU cs cable_ly Nat.add]. rewrite bupd_same. reflexivity. }
    exists (upd fl1 (Norm 0 k)). split; [|split].
    - cbn [check_ops]. rewrite C1. fold fl1. rewrite C2. reflexivity.
    - unfold fl1. split; intros i Hi1 Hi2; cbn [aupd fN fU cs cable_ly Nat.add].
      + intros Hi3. destruct (Nat.eq_dec i k) as [->|Hne]; [apply bupd_same|]. rewrite !bupd_other by assumption. apply HN; lia.
      + destruct (Nat.eq_dec i k) as [->|Hne]; [apply bupd_same|]. rewrite bupd_other by assumption. apply HU; lia.
    - intros i. reflexivity.
  Qed.

  Lemma sweep fl : forall m, tri fl (S m) -> S m < n + 1 -> S m <= n - 1 \/ m = 0 ->
    exists fl', chks fl (flat_map (fun k => [ElimUp 0 k; Norm 0 k]) (rev (seq 1 m))) = Some fl' /\ tri fl' 1 /\ (forall i, fL fl' i = fL fl i).
  Proof.
    intros m. revert fl. induction m as [|m IH]; intros fl T H1 H2.
    - exists fl. cbn. auto.
    - rewrite seq_S, rev_app_distr. cbn [rev app flat_map Nat.add].
      destruct (sweep_step fl (S m) T ltac:(lia) ltac:(lia)) as (fl1 & E1 & T1 & L1).
      destruct (IH fl1 T1 ltac:(lia) ltac:(lia)) as (fl2 & E2 & T2 & L2).
      exists fl2. split; [|split; [exact T2|]].
      + change (ElimUp 0 (S m) :: Norm 0 (S m) :: ?r) with ([ElimUp 0 (S m); Norm 0 (S m)] ++ r).
        rewrite check_ops_app, E1. exact E2.
      + intros i. rewrite L2. apply L1.
  Qed.

  (* after the triangulation: rows 1..n-1 normalised, no upper entries *)
  Lemma triang_ok : exists fl, chks flags0 (triang_branch cable_ly 0) = Some fl /\ tri fl 1 /\
    (forall i, S i < n -> fU fl i = true) /\ (forall i, fL fl i = false).
  Proof.
    unfold triang_branch. cbn [pl cable_ly].
    destruct (Nat.leb_spec n 1) as [Hle|Hgt].
    - exists flags0. cbn. split; [reflexivity|]. split; [split; intros; lia|]. split; [intros; lia | reflexivity].
    - (* Norm 0 (n-1) *)
      assert (C0 : chk flags0 (Norm 0 (n - 1)) = true).
      { cbn [check_op nb cable_tp pl cs cable_ly Nat.add]. rewrite cpz_true.
        replace (0 <? 1) with true by reflexivity.
        replace (1 <=? n - 1) with true by (symmetry; apply Nat.leb_le; lia).
        replace (n - 1 <? n) with true by (symmetry; apply Nat.ltb_lt; lia).
        unfold uzb. cbn [pl cs cable_ly]. replace (S (n - 1) <? n) with false by (symmetry; apply Nat.ltb_ge; lia). reflexivity. }
      set (fl0 := upd flags0 (Norm 0 (n - 1))).
      assert (T0 : tri fl0 (S (n - 2))).
      { unfold fl0. split; intros i H1 H2; cbn [aupd fN fU flags0 cs cable_ly Nat.add].
        - intros _. replace i with (n - 1) by lia. apply bupd_same.
        - lia. }
      destruct (sweep fl0 (n - 2) T0 ltac:(lia) ltac:(lia)) as (fl1 & E1 & T1 & L1).
      (* ElimUp 0 0 *)
      assert (C2 : chk fl1 (ElimUp 0 0) = true).
      { cbn [check_op nb cable_tp pl cs cable_ly Nat.add]. rewrite (uz_of_tri fl1 1 1 T1) by lia. rewrite cpz_true.
        destruct T1 as [HN _]. rewrite (HN 1) by lia.
        replace (0 <? 1) with true by reflexivity. replace (1 <? n) with true by (symmetry; apply Nat.ltb_lt; lia). reflexivity. }
      exists (upd fl1 (ElimUp 0 0)). split; [|split; [|split]].
      + cbn [check_ops]. rewrite C0. fold fl0. rewrite check_ops_app, E1. cbn [check_ops]. rewrite C2. reflexivity.
      + destruct T1 as [HN HU]. split; intros i H1 H2; cbn [aupd fN fU cs cable_ly Nat.add].
        * intros H3. rewrite bupd_other by lia. apply HN; lia.
        * rewrite bupd_other by lia. apply HU; lia.
      + intros i Hi. cbn [aupd fU cs cable_ly Nat.add]. destruct (Nat.eq_dec i 0) as [->|Hne]; [apply bupd_same|].
        rewrite bupd_other by assumption. destruct T1 as [_ HU]. apply HU; lia.
      + intros i. cbn [aupd fL]. rewrite L1. unfold fl0. reflexivity.
  Qed.

  (* back-substitution: rows 0 .. k-1 solved *)
  Definition solved (fl : flags) (k : nat) : Prop :=
    (forall i, i < n -> (1 <= i \/ 1 <= k) -> fN fl i = true) /\ (forall i, S i < n -> fU fl i = true) /\
    (forall i, 1 <= i -> i < k -> fL fl i = true).

  Lemma back_step fl k : solved fl k -> 1 <= k -> k < n ->
    chk fl (SubLower 0 k) = true /\ solved (upd fl (SubLower 0 k)) (S k).
  Proof.
    intros (HN & HU & HL) Hk Hlt. split.
    - cbn [check_op nb cable_tp pl cs cable_ly Nat.add]. rewrite cpz_true, ccz_true.
      replace (0 <? 1) with true by reflexivity.
      replace (1 <=? k) with true by (symmetry; apply Nat.leb_le; lia).
      replace (k <? n) with true by (symmetry; apply Nat.ltb_lt; lia).
      rewrite (HN (k - 1)) by lia.
      assert (E1 : lzb cable_ly fl 0 (k - 1) = true).
      { unfold lzb. cbn [cs cable_ly Nat.add]. destruct (Nat.eqb_spec (k - 1) 0); [reflexivity|]. cbn [orb]. apply HL; lia. }
      assert (E2 : uzb cable_ly fl 0 (k - 1) = true).
      { unfold uzb. cbn [pl cs cable_ly Nat.add]. rewrite (HU (k - 1)) by lia. apply orb_true_r. }
      rewrite E1, E2. reflexivity.
    - repeat split; cbn [aupd fN fU fL cs cable_ly Nat.add].
      + intros i H1 H2. apply HN; lia.
      + exact HU.
      + intros i H1 H2. destruct (Nat.eq_dec i k) as [->|Hne]; [apply bupd_same|]. rewrite bupd_other by assumption. apply HL; lia.
  Qed.

  Lemma back_sweep : forall m fl k, solved fl k -> 1 <= k -> k + m <= n ->
    exists fl', chks fl (map (SubLower 0) (seq k m)) = Some fl' /\ solved fl' (k + m).
  Proof.
    induction m as [|m IH]; intros fl k S Hk Hle.
    - exists fl. cbn. rewrite Nat.add_0_r. auto.
    - cbn [seq map check_ops]. destruct (back_step fl k S Hk ltac:(lia)) as [C S'].
      rewrite C. destruct (IH _ (Datatypes.S k) S' ltac:(lia) ltac:(lia)) as (fl' & E & S'').
      exists fl'. split; [exact E|]. replace (k + Datatypes.S m) with (Datatypes.S k + m) by lia. exact S''.
  Qed.

  Theorem cable_accepted : check_schedule cable_ly cable_tp cable_ops = true.
  Proof.
    unfold check_schedule. apply andb_true_iff. split.
    - unfold wf_b. cbn [nb nbp cable_tp seq forallb nc pl cable_ly Nat.sub pbp cbp andb].
      replace (1 <=? n) with true by (symmetry; apply Nat.leb_le; lia). rewrite Nat.leb_refl. reflexivity.
    - unfold cable_ops, ops_of_idx. cbn [rev flat_map app]. rewrite !app_nil_r.
      destruct triang_ok as (fl1 & E1 & T1 & U1 & L1).
      rewrite check_ops_app, E1. unfold backsub_branch. cbn [pl cable_ly check_ops].
      assert (C : chk fl1 (DivFirst 0) = true).
      { cbn [check_op nb cable_tp]. rewrite cpz_true, ccz_true. replace (0 <? 1) with true by reflexivity.
        unfold uzb. cbn [pl cs cable_ly Nat.add]. destruct (Nat.ltb_spec 1 n); cbn [negb orb]; [|reflexivity]. rewrite U1 by lia. reflexivity. }
      rewrite C.
      assert (S1 : solved (upd fl1 (DivFirst 0)) 1).
      { destruct T1 as [HN HU]. repeat split; cbn [aupd fN fU fL first cs cable_ly].
        - intros i H1 H2. destruct (Nat.eq_dec i 0) as [->|Hne]; [apply bupd_same|]. rewrite bupd_other by assumption. apply HN; lia.
        - exact U1.
        - intros; lia. }
      destruct (back_sweep (n - 1) _ 1 S1 ltac:(lia) ltac:(lia)) as (fl2 & E2 & (HN & HU & HL)).
      rewrite E2. unfold final_ok. cbn [nb nbp cable_tp]. cbn [seq forallb]. rewrite !andb_true_r. cbn [pl cable_ly].
      apply forallb_forall. intros k Hk. apply in_seq in Hk. unfold row_final. cbn [cs cable_ly Nat.add].
      rewrite cpz_true, ccz_true, (HN k) by lia.
      assert (E3 : lzb cable_ly fl2 0 k = true).
      { unfold lzb. cbn [cs cable_ly Nat.add]. destruct (Nat.eqb_spec k 0); [reflexivity|]. cbn [orb]. apply HL; lia. }
      assert (E4 : uzb cable_ly fl2 0 k = true).
      { unfold uzb. cbn [pl cs cable_ly Nat.add]. destruct (Nat.ltb_spec (S k) n); cbn [negb orb]; [|reflexivity]. apply HU; lia. }
      rewrite E3, E4. reflexivity.
  Qed.
End Cable.
