(* C15: stability of the implicit step in the maximum norm, for every structure on which the graph system is defined
   (every cell, every network), and the Lax argument "stability + consistency => convergence" on top of it.
   * graph_stability:  |x_c| <= max_c |v_c + dt ct_c|  for the solution of the backward-Euler graph system whenever
     vt >= 0 (no amplification, whatever the morphology, the conductances and dt);
   * graph_eq_sub: the system is linear in (v, ct; x, y);
   * error_accumulates: if a reference trajectory U^n (e.g. the exact solution of the cable equation sampled at the
     compartment centres) satisfies the scheme up to a residual tau^n with |tau^n_c| <= eps, then the simulated
     trajectory V^n obeys |V^n_c - U^n_c| <= E0 + n dt eps, for ALL n: the global error is at most the accumulated
     local truncation error (Proofs of C15 bound eps by C h^2 for the uniform cable). *)
From Coq Require Import Reals List Arith Bool Lia Lra.
From JV Require Import HinesArr HinesCheck HinesArrFacts HinesArrPositive AsmStruct AssembleM AssembleGraph GraphMax.
Import ListNotations.
Local Open Scope R_scope.

Lemma Rabs_le_inv' x K : Rabs x <= K -> - K <= x <= K.
Proof. intros H. pose proof (Rle_abs x). pose proof (Rle_abs (- x)) as H2. rewrite Rabs_Ropp in H2. lra. Qed.

Lemma zz_sub mask ncomp x1 y1 x2 y2 n :
  zz mask ncomp (fun i => x1 i - x2 i) (fun j => y1 j - y2 j) n = zz mask ncomp x1 y1 n - zz mask ncomp x2 y2 n.
Proof. unfold zz. destruct (n <? ncomp)%nat; reflexivity. Qed.

Lemma graph_eq_rhs_ext ly tp mask ncomp es v vt ct v' ct' dt x y :
  (forall c, (c < ncomp)%nat -> v c + dt * ct c = v' c + dt * ct' c) ->
  graph_eq ly tp mask ncomp es v vt ct dt x y -> graph_eq ly tp mask ncomp es v' vt ct' dt x y.
Proof.
  intros E (HC & HB & HP). split; [|split; assumption].
  intros c Hc. pose proof (HC c Hc) as Eq. unfold comp_lhs, comp_rhs in *. rewrite <- (E c Hc). exact Eq.
Qed.

Lemma graph_eq_sub ly tp mask ncomp es vt dt v1 ct1 x1 y1 v2 ct2 x2 y2 :
  graph_eq ly tp mask ncomp es v1 vt ct1 dt x1 y1 -> graph_eq ly tp mask ncomp es v2 vt ct2 dt x2 y2 ->
  graph_eq ly tp mask ncomp es (fun c => v1 c - v2 c) vt (fun c => ct1 c - ct2 c) dt (fun i => x1 i - x2 i) (fun j => y1 j - y2 j).
Proof.
  intros (C1 & B1 & P1) (C2 & B2 & P2). split; [|split].
  - intros c Hc. pose proof (C1 c Hc) as E1. pose proof (C2 c Hc) as E2. unfold comp_lhs, comp_rhs in *.
    rewrite (wsum_val_ext (fun e => e_g R e * (x1 (mask c) - x2 (mask c) - zz mask ncomp (fun i => x1 i - x2 i) (fun j => y1 j - y2 j) (e_source R e)))
                          (fun e => e_g R e * (x1 (mask c) - zz mask ncomp x1 y1 (e_source R e)) - e_g R e * (x2 (mask c) - zz mask ncomp x2 y2 (e_source R e))))
      by (intros; rewrite zz_sub; lra).
    rewrite wsum_minus. lra.
  - intros j Hj. pose proof (B1 j Hj) as E1. pose proof (B2 j Hj) as E2. unfold bp_graph in *.
    rewrite (wsum_val_ext (fun e => e_g R e * (zz mask ncomp (fun i => x1 i - x2 i) (fun j0 => y1 j0 - y2 j0) (e_source R e) - (y1 j - y2 j)))
                          (fun e => e_g R e * (zz mask ncomp x1 y1 (e_source R e) - y1 j) - e_g R e * (zz mask ncomp x2 y2 (e_source R e) - y2 j)))
      by (intros; rewrite zz_sub; lra).
    rewrite wsum_minus. lra.
  - intros b k Hb Hk. rewrite (P1 b k Hb Hk), (P2 b k Hb Hk). lra.
Qed.

Section Stability.
  Variables (ly : layout) (tp : topo).
  Hypothesis W : wf ly tp.
  Variables (mask : nat -> nat) (ncomp : nat) (es : list (edge R)) (dt : R) (group child_inds par_inds : list nat).
  Hypothesis G : graph_struct ly tp mask ncomp es group child_inds par_inds.
  Hypothesis B : graph_struct_bp ly mask ncomp es group child_inds par_inds.
  Hypothesis Hn : (1 <= ncomp)%nat.
  Hypothesis Hdt : 0 < dt.
  Hypothesis Hg : forall e, In e es -> 0 < e_g R e.

  (* no amplification in the maximum norm *)
  Theorem graph_stability v vt ct x y K :
    (forall c, (c < ncomp)%nat -> 0 <= vt c) -> graph_eq ly tp mask ncomp es v vt ct dt x y ->
    0 <= K -> (forall c, (c < ncomp)%nat -> Rabs (v c + dt * ct c) <= K) ->
    forall c, (c < ncomp)%nat -> Rabs (x (mask c)) <= K.
  Proof.
    intros Hvt Sol HK Hb c Hc.
    pose proof (graph_eq_rhs_ext ly tp mask ncomp es v vt ct (fun c => v c + dt * ct c) (fun _ => 0) dt x y ltac:(intros; lra) Sol) as Sol'.
    pose proof (graph_bounds ly tp W mask ncomp es _ vt _ dt group child_inds par_inds G B x y (- K) K Hn Hdt Hg Hvt Sol') as Bd.
    apply Rabs_le. apply Bd; [|exact Hc]. intros c' Hc'. pose proof (Hb c' Hc') as A. apply Rabs_le_inv' in A. pose proof (Hvt c' Hc').
    split; [lra|]. split; nra.
  Qed.

  (* one step: the error does not grow by more than dt * (residual) *)
  Theorem one_step_error vt (v ct x y u ctu xu yu : nat -> R) E eps :
    (forall c, (c < ncomp)%nat -> 0 <= vt c) ->
    graph_eq ly tp mask ncomp es v vt ct dt x y -> graph_eq ly tp mask ncomp es u vt ctu dt xu yu ->
    0 <= E -> 0 <= eps ->
    (forall c, (c < ncomp)%nat -> Rabs (v c - u c) <= E) -> (forall c, (c < ncomp)%nat -> Rabs (ct c - ctu c) <= eps) ->
    forall c, (c < ncomp)%nat -> Rabs (x (mask c) - xu (mask c)) <= E + dt * eps.
  Proof.
    intros Hvt S1 S2 HE He Hv Hc c Hcc.
    pose proof (graph_eq_sub _ _ _ _ _ _ _ _ _ _ _ _ _ _ _ S1 S2) as Sd.
    apply (graph_stability _ vt _ _ _ (E + dt * eps) Hvt Sd); [nra | | exact Hcc].
    intros c' Hc'. eapply Rle_trans; [apply Rabs_triang|]. rewrite Rabs_mult, (Rabs_pos_eq dt) by lra.
    pose proof (Hv c' Hc'). pose proof (Hc c' Hc'). nra.
  Qed.

  (* ---- many steps: stability + consistency => convergence ---- *)
  Variables (V U : nat -> nat -> R) (vtn ctn taun : nat -> nat -> R).
  Hypothesis Hvt : forall n c, (c < ncomp)%nat -> 0 <= vtn n c.
  (* the simulation: step n maps V n to V (S n) *)
  Hypothesis SimStep : forall n, exists x y, graph_eq ly tp mask ncomp es (V n) (vtn n) (ctn n) dt x y /\
                                            forall c, (c < ncomp)%nat -> V (S n) c = x (mask c).
  (* the reference satisfies the same scheme up to the residual taun (its local truncation error) *)
  Hypothesis RefStep : forall n, exists x y, graph_eq ly tp mask ncomp es (U n) (vtn n) (fun c => ctn n c + taun n c) dt x y /\
                                            forall c, (c < ncomp)%nat -> U (S n) c = x (mask c).

  Theorem error_accumulates E0 eps : 0 <= E0 -> 0 <= eps ->
    (forall c, (c < ncomp)%nat -> Rabs (V 0%nat c - U 0%nat c) <= E0) ->
    (forall n c, (c < ncomp)%nat -> Rabs (taun n c) <= eps) ->
    forall n c, (c < ncomp)%nat -> Rabs (V n c - U n c) <= E0 + INR n * (dt * eps).
  Proof.
    intros HE He H0 Ht. induction n as [|n IH]; intros c Hc.
    - cbn [INR]. rewrite Rmult_0_l, Rplus_0_r. apply H0, Hc.
    - destruct (SimStep n) as (x & y & S1 & E1). destruct (RefStep n) as (xu & yu & S2 & E2).
      rewrite (E1 c Hc), (E2 c Hc). rewrite S_INR.
      assert (Hde : 0 <= dt * eps) by (apply Rmult_le_pos; lra).
      assert (HEn : 0 <= E0 + INR n * (dt * eps)) by (assert (0 <= INR n * (dt * eps)) by (apply Rmult_le_pos; [apply pos_INR | exact Hde]); lra).
      pose proof (one_step_error (vtn n) (V n) (ctn n) x y (U n) (fun c => ctn n c + taun n c) xu yu (E0 + INR n * (dt * eps)) eps
                    (Hvt n) S1 S2 HEn He IH) as St.
      eapply Rle_trans; [apply St; [|exact Hc]|lra].
      intros c' Hc'. replace (ctn n c' - (ctn n c' + taun n c')) with (- taun n c') by ring. rewrite Rabs_Ropp. apply Ht, Hc'.
  Qed.
End Stability.
