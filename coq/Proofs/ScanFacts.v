From Coq Require Import List Arith Lia.
From JV Require Import Scan.
Import ListNotations.

Section Facts.
  Context {St X Y : Type}.

  Lemma scan_app (f : St -> X -> St * Y) s xs ys :
    scan f s (xs ++ ys) =
    let (s1, o1) := scan f s xs in let (s2, o2) := scan f s1 ys in (s2, o1 ++ o2).
  Proof.
    revert s. induction xs as [|x xs IH]; intros s; cbn.
    - destruct (scan f s ys); reflexivity.
    - destruct (f s x) as [s' y]. rewrite IH.
      destruct (scan f s' xs) as [s1 o1]. destruct (scan f s1 ys) as [s2 o2]. reflexivity.
  Qed.

  Lemma concat_chunks (m k : nat) (xs : list X) :
    length xs = k * m -> concat (chunks m k xs) = xs.
  Proof.
    revert xs. induction k as [|k IH]; intros xs H; cbn in *.
    - destruct xs; [reflexivity | discriminate].
    - rewrite IH.
      + apply firstn_skipn.
      + rewrite skipn_length. lia.
  Qed.

  Lemma chunks_lengths (m k : nat) (xs : list X) :
    length xs = k * m -> Forall (fun c => length c = m) (chunks m k xs).
  Proof.
    revert xs. induction k as [|k IH]; intros xs H; cbn in *; constructor.
    - rewrite firstn_length. lia.
    - apply IH. rewrite skipn_length. lia.
  Qed.

  (* scanning a function that itself scans each chunk = scanning the concatenation *)
  Lemma scan_chunks (f : St -> X -> St * Y) (g : St -> list X -> St * list Y) (cs : list (list X)) s :
    Forall (fun c => forall c0, g c0 c = scan f c0 c) cs ->
    (let (s', out) := scan g s cs in (s', concat out)) = scan f s (concat cs).
  Proof.
    revert s. induction cs as [|c cs IH]; intros s H; cbn; [reflexivity|].
    inversion H as [|? ? Hc Hcs]; subst.
    rewrite Hc. rewrite scan_app.
    destruct (scan f s c) as [s1 o1].
    specialize (IH s1 Hcs). destruct (scan g s1 cs) as [s2 out]. cbn.
    rewrite <- IH. reflexivity.
  Qed.

  Theorem nested_scan_eq_flat (f : St -> X -> St * Y) lengths :
    lengths <> [] -> forall s xs, length xs = prod lengths -> nested_scan f lengths s xs = scan f s xs.
  Proof.
    induction lengths as [|n rest IH]; intros Hne s xs Hlen; [congruence|].
    destruct rest as [|n2 rest']; [reflexivity|].
    change (nested_scan f (n :: n2 :: rest') s xs) with
      (let (s', out) := scan (fun c sub => nested_scan f (n2 :: rest') c sub) s
                             (chunks (prod (n2 :: rest')) n xs) in (s', concat out)).
    assert (Hl : length xs = n * prod (n2 :: rest')) by (cbn in *; lia).
    rewrite (scan_chunks f).
    - rewrite concat_chunks by exact Hl. reflexivity.
    - pose proof (chunks_lengths _ _ _ Hl) as Hc.
      eapply Forall_impl; [|exact Hc]. intros c Hcl c0. apply IH; [discriminate | exact Hcl].
  Qed.
End Facts.

Section IntegrateFacts.
  Context {St X Y : Type} (step : St -> X -> St) (rec : St -> Y) (zero : X).

  Lemma scan_body s xs :
    scan (body step rec) s xs = (run step s xs, map rec (states_after step s xs)).
  Proof.
    revert s. induction xs as [|x xs IH]; intros s; cbn; [reflexivity|].
    unfold body at 1. rewrite IH. reflexivity.
  Qed.

  Lemma states_after_app s xs ys :
    states_after step s (xs ++ ys) = states_after step s xs ++ states_after step (run step s xs) ys.
  Proof.
    revert s. induction xs as [|x xs IH]; intros s; cbn; [reflexivity|]. rewrite IH. reflexivity.
  Qed.
  Lemma states_after_length s xs : length (states_after step s xs) = length xs.
  Proof. revert s; induction xs; intros; cbn; auto. Qed.

  Definition lens_of (n : nat) (cl : option (list nat)) := match cl with None => [n] | Some l => l end.

  (* the whole of integrate, for any checkpointing layout whose product covers the run *)
  Theorem integrate_spec s0 inputs cl :
    lens_of (length inputs) cl <> [] -> length inputs <= prod (lens_of (length inputs) cl) ->
    integrate step rec zero s0 inputs cl =
      (rec s0 :: map rec (states_after step s0 inputs),
       run step s0 (inputs ++ repeat zero (prod (lens_of (length inputs) cl) - length inputs))).
  Proof.
    intros Hne Hle. unfold integrate. fold (lens_of (length inputs) cl).
    set (lens := lens_of (length inputs) cl) in *.
    rewrite nested_scan_eq_flat; [| exact Hne | rewrite app_length, repeat_length; lia].
    rewrite scan_body. f_equal. f_equal.
    rewrite states_after_app, map_app, firstn_app.
    rewrite map_length, states_after_length, Nat.sub_diag. cbn [firstn].
    rewrite app_nil_r. apply firstn_all2. rewrite map_length, states_after_length. lia.
  Qed.

  (* C06: recordings do not depend on the checkpointing layout *)
  Corollary recordings_independent_of_layout s0 inputs cl :
    lens_of (length inputs) cl <> [] -> length inputs <= prod (lens_of (length inputs) cl) ->
    fst (integrate step rec zero s0 inputs cl) = fst (integrate step rec zero s0 inputs None).
  Proof.
    intros Hne Hle. rewrite integrate_spec by assumption.
    rewrite integrate_spec; [reflexivity | discriminate | unfold lens_of, prod; cbn [fold_right]; lia].
  Qed.

  Lemma nth_states_after s xs k d :
    k < length xs -> nth k (map rec (states_after step s xs)) d = rec (run step s (firstn (S k) xs)).
  Proof.
    revert s k. induction xs as [|x xs IH]; intros s k Hk; [cbn in Hk; lia|].
    cbn [states_after map]. destruct k as [|k]; [reflexivity|].
    cbn [nth]. rewrite IH by (cbn in Hk; lia). reflexivity.
  Qed.

  (* C07/C08: column 0 is the initial state, column k the state after k steps *)
  Corollary column_k s0 inputs cl k d :
    lens_of (length inputs) cl <> [] -> length inputs <= prod (lens_of (length inputs) cl) ->
    k <= length inputs ->
    nth k (fst (integrate step rec zero s0 inputs cl)) d = rec (run step s0 (firstn k inputs)) .
  Proof.
    intros Hne Hle Hk. rewrite integrate_spec by assumption. cbn [fst].
    destruct k as [|k]; [reflexivity|]. cbn [nth]. apply nth_states_after. lia.
  Qed.

  (* C07: returned state = state at the last returned time point, when the layout is exact *)
  Corollary returned_state_exact s0 inputs cl :
    lens_of (length inputs) cl <> [] -> prod (lens_of (length inputs) cl) = length inputs ->
    snd (integrate step rec zero s0 inputs cl) = run step s0 inputs.
  Proof.
    intros Hne He. rewrite integrate_spec by (auto; lia). cbn [snd].
    rewrite He, Nat.sub_diag. cbn. rewrite app_nil_r. reflexivity.
  Qed.

  (* C07: simulating n1+n2 steps = simulating n1, then continuing from the returned state *)
  Theorem integrate_split s0 in1 in2 :
    fst (integrate step rec zero s0 (in1 ++ in2) None) =
      fst (integrate step rec zero s0 in1 None)
      ++ tl (fst (integrate step rec zero (snd (integrate step rec zero s0 in1 None)) in2 None)).
  Proof.
    rewrite !integrate_spec by (try discriminate; unfold lens_of, prod; cbn [fold_right]; lia). cbn [fst snd tl].
    cbn [lens_of prod fold_right]. rewrite Nat.mul_1_r, Nat.sub_diag. cbn [repeat]. rewrite app_nil_r.
    rewrite states_after_app, map_app. reflexivity.
  Qed.
  Theorem integrate_split_state s0 in1 in2 :
    snd (integrate step rec zero s0 (in1 ++ in2) None) =
    snd (integrate step rec zero (snd (integrate step rec zero s0 in1 None)) in2 None).
  Proof.
    rewrite !integrate_spec by (try discriminate; unfold lens_of, prod; cbn [fold_right]; lia). cbn [fst snd].
    cbn [lens_of prod fold_right]. rewrite !Nat.mul_1_r, !Nat.sub_diag. cbn [repeat]. rewrite !app_nil_r.
    unfold run. apply fold_left_app.
  Qed.

  (* manual stepping with step_fn = integrate *)
  Theorem manual_stepping s0 inputs :
    fst (integrate step rec zero s0 inputs None) = rec s0 :: map rec (states_after step s0 inputs)
    /\ snd (integrate step rec zero s0 inputs None) = fold_left step inputs s0.
  Proof.
    rewrite integrate_spec by (try discriminate; unfold lens_of, prod; cbn [fold_right]; lia). cbn [fst snd].
    cbn [lens_of prod fold_right]. rewrite Nat.mul_1_r, Nat.sub_diag. cbn [repeat]. rewrite app_nil_r.
    split; reflexivity.
  Qed.
End IntegrateFacts.

(* known finding F6, in the model: with prod(checkpoint_lengths) > nsteps the returned
   state is the state after prod(...) steps, not the state at the last returned column *)
Lemma returned_state_refuted :
  exists (inputs : list nat) (cl : list nat),
    length inputs <= prod cl /\
    snd (integrate (fun s (_ : nat) => S s) (fun s => s) 0 0 inputs (Some cl))
      <> run (fun s (_ : nat) => S s) 0 inputs.
Proof. exists [0; 0; 0; 0; 0], [2; 4]. split; [cbn; lia|]. vm_compute. discriminate. Qed.
