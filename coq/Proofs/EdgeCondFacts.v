(* The conductances of compute_axial_conductances are the traced Layer-G formulas of the right compartments, they
   are positive for positive parameters, and the coupling of two compartments is the same physical conductance
   seen from either side.  With AsmGraphFacts: the implicit step of EVERY cell, stated in the physical
   parameters. *)
From Coq Require Import Reals List Arith Lia Lra.
From JV Require Import Prim GCellUtils CableFacts HinesArr HinesCheck HinesArrFacts HinesIdx AsmStruct AssembleM AsmIdx AssembleGraph AsmGraphFacts EdgeCond.
Import ListNotations.
Local Open Scope R_scope.

Notation edge_condR := (edge_cond R Rplus Rmult Rdiv 10000000 1000).

Section Facts.
  Variables (rad len ra cm : nat -> R).

  Lemma cond0_is_traced snk src :
    cond0 R Rplus Rmult Rdiv 10000000 rad len ra cm snk src
    = coupling_cond__g (rad snk) (rad src) (ra snk) (ra src) (len snk) (len src) / cm snk.
  Proof. unfold cond0, sq, coupling_cond__g. cbv zeta. simpl pow. rewrite !Rmult_1_r. reflexivity. Qed.
  Lemma cond12_is_traced snk :
    cond12 R Rmult Rdiv 10000000 rad len ra cm snk = coupling_cond_branchpoint__g (rad snk) (ra snk) (len snk) / cm snk.
  Proof. unfold cond12, sq, coupling_cond_branchpoint__g. cbv zeta. simpl pow. rewrite !Rmult_1_r. reflexivity. Qed.
  Lemma cond34_is_traced src :
    cond34 R Rmult Rdiv 1000 rad len ra src = impact_on_node__g (rad src) (ra src) (len src) * 1000.
  Proof. unfold cond34, sq, impact_on_node__g. cbv zeta. simpl pow. rewrite !Rmult_1_r. reflexivity. Qed.

  (* positive parameters give positive conductances *)
  Hypothesis Pos : forall c, 0 < rad c /\ 0 < len c /\ 0 < ra c /\ 0 < cm c.

  Lemma edge_cond_pos t : 0 < edge_condR rad len ra cm t.
  Proof.
    destruct t as [[src snk] ty]. destruct (Pos src) as (A1 & A2 & A3 & A4). destruct (Pos snk) as (B1 & B2 & B3 & B4).
    assert (Q : forall x, 0 < x -> 0 < x * x) by (intros; apply Rmult_lt_0_compat; assumption).
    unfold edge_cond. destruct ty as [|[|[|ty]]]; unfold cond0, cond12, cond34, sq.
    - apply Rdiv_lt_0_compat; [|exact B4]. apply Rmult_lt_0_compat; [|lra]. apply Rdiv_lt_0_compat; [|exact B2].
      apply Rdiv_lt_0_compat; [apply Rmult_lt_0_compat; auto|]. apply Rplus_lt_0_compat; repeat apply Rmult_lt_0_compat; auto.
    - apply Rdiv_lt_0_compat; [|exact B4]. apply Rmult_lt_0_compat; [|lra]. apply Rdiv_lt_0_compat; [apply Rdiv_lt_0_compat; assumption | auto].
    - apply Rdiv_lt_0_compat; [|exact B4]. apply Rmult_lt_0_compat; [|lra]. apply Rdiv_lt_0_compat; [apply Rdiv_lt_0_compat; assumption | auto].
    - apply Rmult_lt_0_compat; [|lra]. apply Rdiv_lt_0_compat; [apply Rdiv_lt_0_compat; auto | assumption].
  Qed.

  (* the coupling between two neighbouring compartments is ONE physical conductance: per unit of absolute
     capacitance (cm * membrane area) of the receiving compartment, the same 1e7 / (half resistance + half resistance) *)
  Lemma cond0_physical snk src :
    cond0 R Rplus Rmult Rdiv 10000000 rad len ra cm snk src * (cm snk * area (rad snk) (len snk))
    = 10 ^ 7 * (1 / (half_res (rad snk) (ra snk) (len snk) + half_res (rad src) (ra src) (len src))).
  Proof.
    destruct (Pos src) as (A1 & A2 & A3 & A4). destruct (Pos snk) as (B1 & B2 & B3 & B4).
    rewrite cond0_is_traced. rewrite <- (coupling_cond_physical (rad snk) (rad src) (ra snk) (ra src) (len snk) (len src)) by assumption.
    field. lra.
  Qed.

  Lemma cond0_reciprocal a b :
    cond0 R Rplus Rmult Rdiv 10000000 rad len ra cm a b * (cm a * area (rad a) (len a))
    = cond0 R Rplus Rmult Rdiv 10000000 rad len ra cm b a * (cm b * area (rad b) (len b)).
  Proof. rewrite !cond0_physical. f_equal. f_equal. apply Rplus_comm. Qed.
End Facts.

(* the edge list of a cell with its conductances *)
Definition cell_edges (ps ns : list nat) (rad len ra cm : nat -> R) : list (edge R) :=
  map (fun t : trip => mkedge (fst (fst t)) (snd (fst t)) (snd t) (edge_condR rad len ra cm t)) (triples_of ps ns).

Lemma cell_edges_strip ps ns rad len ra cm : map strip (cell_edges ps ns rad len ra cm) = triples_of ps ns.
Proof. unfold cell_edges. rewrite map_map. rewrite <- (map_id (triples_of ps ns)) at 2. apply map_ext. intros [[a b] c]. reflexivity. Qed.

(* ---- the implicit step of EVERY cell in physical parameters ---- *)
Theorem cell_step_physical (ps ns : list nat) (rad len ra cm v vt ct : nat -> R) (dt : R) :
  (1 <= length ps)%nat -> (forall b, (1 <= b)%nat -> (b < length ps)%nat -> (nth b ps 0 < b)%nat) ->
  (forall b, (b < length ps)%nat -> (1 <= nth b ns 0)%nat) ->
  (forall c, 0 < rad c /\ 0 < len c /\ 0 < ra c /\ 0 < cm c) ->
  0 < dt -> (forall i, (i < total ps ns)%nat -> 0 <= vt i) ->
  let es := cell_edges ps ns rad len ra cm in
  let ly := layout_of ps ns in let tp := topo_of ps in
  let mask := nthD (mask_of ps ns) in let n := total ps ns in
  let s0 := assemble R Rplus Rminus Rmult 0 1 mask n es v vt ct dt (group_of ps) (child_inds_of ps) (par_inds_of ps) in
  let out := sv (runR ly (ops_of_tree ps ns) s0) in
  (exists y, graph_eq ly tp mask n es v vt ct dt out y) /\
  (forall x y, graph_eq ly tp mask n es v vt ct dt x y ->
     forall b k, (b < length ps)%nat -> (k < pl ly b)%nat -> x (cs ly b + k)%nat = out (cs ly b + k)%nat).
Proof.
  intros H1 H2 H3 Pos Hdt Hvt es. apply (cell_step_solves_the_graph_equations ps ns es v vt ct dt H1 H2 H3 (cell_edges_strip _ _ _ _ _ _) Hdt); [|exact Hvt].
  intros e He. unfold es, cell_edges in He. apply in_map_iff in He. destruct He as (t & <- & _). cbn [e_g]. apply edge_cond_pos. exact Pos.
Qed.
