(* C01, Crank-Nicolson at the array level.  Module.step computes V_new = 2 * (implicit step with dt/2) - V_old.
   If h solves the backward-Euler graph system with step dt/2 then z = 2h - v
   (i)  is the implicit-midpoint update: (z_c - v_c) + dt * F_c(h, y) = 0 with h the midpoint of z and v and the
        branch points in Kirchhoff balance at the midpoint, and
   (ii) is the trapezoidal (Crank-Nicolson) update: for any branch-point values yv in Kirchhoff balance with the old
        voltages, (z_c - v_c) + dt/2 * (F_c(z, 2y - yv) + F_c(v, yv)) = 0 and the branch points 2y - yv are in balance
        with z,
   where F_c(x, y) = vt_c x_c + sum_{e into c} g_e (x_c - value at source(e)) - ct_c is the total current leaving c. *)
From Coq Require Import Reals List Arith Bool Lia Lra.
From JV Require Import HinesArr HinesCheck HinesArrFacts AsmStruct AssembleM AssembleGraph.
Import ListNotations.
Local Open Scope R_scope.

Section CN.
  Variables (ly : layout) (tp : topo) (mask : nat -> nat) (ncomp : nat) (es : list (edge R)) (v vt ct : nat -> R) (dt : R).
  Notation g := (e_g R).
  Notation src := (e_source R).

  (* the current leaving compartment c in state (x, y) *)
  Definition outflow (x y : nat -> R) (c : nat) : R :=
    vt c * x (mask c) + wsum (fun e => g e * (x (mask c) - zz mask ncomp x y (src e))) (into c) es - ct c.

  Lemma be_is_outflow tau x y c : comp_lhs mask ncomp es vt tau x y c = comp_rhs v ct tau c <-> x (mask c) - v c + tau * outflow x y c = 0.
  Proof. unfold comp_lhs, comp_rhs, outflow. split; intros H; lra. Qed.

  Variables (h y : nat -> R).
  Hypothesis Half : graph_eq ly tp mask ncomp es v vt ct (dt / 2) h y.

  (* the new voltages, per slot, given the old voltages per slot *)
  Variable vs : nat -> R.
  Hypothesis vs_ok : forall c, (c < ncomp)%nat -> vs (mask c) = v c.
  Definition zcn (i : nat) : R := 2 * h i - vs i.

  Theorem cn_is_implicit_midpoint :
    (forall c, (c < ncomp)%nat -> zcn (mask c) - v c + dt * outflow h y c = 0 /\ h (mask c) = (zcn (mask c) + v c) / 2) /\
    (forall j, (j < nbp tp)%nat -> bp_graph mask ncomp es h y j = 0).
  Proof.
    destruct Half as (C & B & _). split; [|exact B].
    intros c Hc. pose proof (proj1 (be_is_outflow (dt / 2) h y c) (C c Hc)) as E. unfold zcn. rewrite (vs_ok c Hc). split; lra.
  Qed.

  (* ---- trapezoidal form ---- *)
  Variable yv : nat -> R.
  Hypothesis old_balance : forall j, (j < nbp tp)%nat -> bp_graph mask ncomp es vs yv j = 0.
  Definition ycn (j : nat) : R := 2 * y j - yv j.

  Lemma zz_cn n : zz mask ncomp zcn ycn n = 2 * zz mask ncomp h y n - zz mask ncomp vs yv n.
  Proof. unfold zz, zcn, ycn. destruct (n <? ncomp)%nat; reflexivity. Qed.

  Lemma wsum_lin {A} (a b : A -> R) p l : wsum (fun e => 2 * a e - b e) p l = 2 * wsum a p l - wsum b p l.
  Proof.
    induction l as [|e l IH]; cbn [wsum fold_right]; [lra|]. fold (wsum (fun e => 2 * a e - b e) p l) (wsum a p l) (wsum b p l).
    rewrite IH. destruct (p e); lra.
  Qed.

  Lemma outflow_cn c : outflow zcn ycn c + outflow vs yv c = 2 * outflow h y c.
  Proof.
    unfold outflow.
    rewrite (wsum_val_ext (fun e => g e * (zcn (mask c) - zz mask ncomp zcn ycn (src e)))
                          (fun e => 2 * (g e * (h (mask c) - zz mask ncomp h y (src e))) - g e * (vs (mask c) - zz mask ncomp vs yv (src e))))
      by (intros e _ _; rewrite zz_cn; unfold zcn; ring).
    rewrite wsum_lin. unfold zcn. ring.
  Qed.

  Theorem cn_is_trapezoidal :
    (forall c, (c < ncomp)%nat -> zcn (mask c) - v c + dt / 2 * (outflow zcn ycn c + outflow vs yv c) = 0) /\
    (forall j, (j < nbp tp)%nat -> bp_graph mask ncomp es zcn ycn j = 0).
  Proof.
    destruct cn_is_implicit_midpoint as [M B]. split.
    - intros c Hc. destruct (M c Hc) as [E _]. rewrite outflow_cn. lra.
    - intros j Hj. unfold bp_graph.
      rewrite (wsum_val_ext (fun e => g e * (zz mask ncomp zcn ycn (src e) - ycn j))
                            (fun e => 2 * (g e * (zz mask ncomp h y (src e) - y j)) - g e * (zz mask ncomp vs yv (src e) - yv j)))
        by (intros e _ _; rewrite zz_cn; unfold ycn; ring).
      rewrite wsum_lin. pose proof (B j Hj) as B1. pose proof (old_balance j Hj) as B0. unfold bp_graph in B1, B0. rewrite B1, B0. lra.
  Qed.
End CN.
