From Coq Require Import List Arith Bool Lia Setoid.
From JV Require Import SetNcomp SetNcompFacts History.
Import ListNotations.

Lemma mem_In x l : mem x l = true <-> In x l.
Proof.
  unfold mem. rewrite existsb_exists. split.
  - intros (y & Hy & E). apply Nat.eqb_eq in E. subst. exact Hy.
  - intros H. exists x. split; [exact H | apply Nat.eqb_refl].
Qed.
Lemma mem_false x l : mem x l = false <-> ~ In x l.
Proof. rewrite <- mem_In. destruct (mem x l); split; congruence. Qed.
Lemma in_union x a b : In x (union a b) <-> In x a \/ In x b.
Proof.
  unfold union. rewrite in_app_iff, filter_In. split.
  - tauto.
  - intros [H|H]; [left; exact H|]. destruct (mem x a) eqn:E.
    + left. apply mem_In. exact E.
    + right. split; [exact H | reflexivity].
Qed.
Lemma in_diff x a b : In x (diff a b) <-> In x a /\ ~ In x b.
Proof.
  unfold diff. rewrite filter_In. rewrite negb_true_iff, mem_false. tauto.
Qed.

(* columns after folding an update over the (duplicate-free) list of owned columns *)
Lemma fold_cols (G : nat -> list nat -> list nat) cs : NoDup cs ->
  forall f0 c', fold_left (fun f c => fupd f c (G c (f c))) cs f0 c'
                = if mem c' cs then G c' (f0 c') else f0 c'.
Proof.
  induction 1 as [|c cs Hn Hnd IH]; intros f0 c'; [reflexivity|].
  cbn [fold_left]. rewrite IH. unfold fupd at 1 2.
  cbn [mem existsb]. fold (mem c' cs).
  destruct (Nat.eqb_spec c' c) as [->|Hne].
  - replace (mem c cs) with false by (symmetry; apply mem_false; exact Hn). reflexivity.
  - cbn [orb]. destruct (mem c' cs); reflexivity.
Qed.

Section Inv.
  Variable owns : nat -> list nat.
  Variable nchan : nat.
  Notation Inv := (Inv owns nchan).
  Notation step := (step owns nchan).
  Notation valid := (valid owns nchan).

  Lemma inv_init n : Inv (init n).
  Proof.
    split.
    - unfold refs_exist. cbn. split; [constructor|]. split; [constructor|]. split; [constructor|]. split; [constructor|]. split; [intros; constructor | constructor].
    - intros c r. cbn. split; [intros [] | intros (k & _ & _ & [])].
  Qed.

  Lemma other_users_spec s ch c r :
    other_users owns nchan s ch c r = true <->
    exists k, k < nchan /\ k <> ch /\ In c (owns k) /\ In r (chan s k).
  Proof.
    unfold other_users. rewrite existsb_exists. split.
    - intros (k & Hk & H). apply in_seq in Hk. rewrite !andb_true_iff, negb_true_iff, Nat.eqb_neq, !mem_In in H.
      exists k. repeat split; try tauto; lia.
    - intros (k & Hk & Hne & Hc & Hr). exists k. split; [apply in_seq; lia|].
      rewrite !andb_true_iff, negb_true_iff, Nat.eqb_neq, !mem_In. tauto.
  Qed.

  Lemma Forall_union (P : nat -> Prop) a b : Forall P a -> Forall P b -> Forall P (union a b).
  Proof. intros Ha Hb. rewrite Forall_forall in *. intros x Hx. apply in_union in Hx. destruct Hx; auto. Qed.
  Lemma Forall_diff (P : nat -> Prop) a b : Forall P a -> Forall P (diff a b).
  Proof. intros Ha. rewrite Forall_forall in *. intros x Hx. apply in_diff in Hx. apply Ha. tauto. Qed.

  Theorem inv_insert s ch rows : Inv s -> valid s (Insert ch rows) -> Inv (step s (Insert ch rows)).
  Proof.
    intros [(R1 & R2 & R2c & R3 & R4 & R5) P] (Hch & Hnd & Hrows). unfold params_where_channel in P. split.
    - unfold refs_exist. simpl. repeat split; auto. intros k Hk. unfold fupd. destruct (k =? ch); [apply Forall_union; auto | auto].
    - intros c r. cbn [col chan step].
      rewrite (fold_cols (fun _ l => union l rows) (owns ch) Hnd).
      destruct (mem c (owns ch)) eqn:Ec.
      + apply mem_In in Ec. rewrite in_union, P. split.
        * intros [(k & Hk & Hc & Hr)|Hr].
          -- exists k. repeat split; auto. unfold fupd. destruct (Nat.eqb_spec k ch) as [->|]; [apply in_union; left; exact Hr | exact Hr].
          -- exists ch. repeat split; auto. unfold fupd. rewrite Nat.eqb_refl. apply in_union. right. exact Hr.
        * intros (k & Hk & Hc & Hr). unfold fupd in Hr. destruct (Nat.eqb_spec k ch) as [->|].
          -- apply in_union in Hr. destruct Hr; [left; exists ch; auto | right; auto].
          -- left. exists k; auto.
      + apply mem_false in Ec. rewrite P. split; intros (k & Hk & Hc & Hr); exists k; repeat split; auto.
        * unfold fupd. destruct (Nat.eqb_spec k ch) as [->|]; [contradiction | exact Hr].
        * unfold fupd in Hr. destruct (Nat.eqb_spec k ch) as [->|]; [contradiction | exact Hr].
  Qed.

  Theorem inv_delete s ch rows : Inv s -> valid s (Delete ch rows) -> Inv (step s (Delete ch rows)).
  Proof.
    intros [(R1 & R2 & R2c & R3 & R4 & R5) P] (Hch & Hnd & Hrows). unfold params_where_channel in P. split.
    - unfold refs_exist. simpl. repeat split; auto. intros k Hk. unfold fupd. destruct (k =? ch); [apply Forall_diff; auto | auto].
    - intros c r. cbn [col chan step].
      rewrite (fold_cols (fun c l => diff l (filter (fun r => negb (other_users owns nchan s ch c r)) rows)) (owns ch) Hnd).
      destruct (mem c (owns ch)) eqn:Ec.
      + apply mem_In in Ec. rewrite in_diff, filter_In, negb_true_iff, P. split.
        * intros [(k & Hk & Hc & Hr) Hnot].
          destruct (Nat.eq_dec k ch) as [->|Hne].
          -- destruct (in_dec Nat.eq_dec r rows) as [Hin|Hout].
             ++ destruct (other_users owns nchan s ch c r) eqn:Eo; [|exfalso; apply Hnot; auto].
                apply other_users_spec in Eo. destruct Eo as (k2 & Hk2 & Hne2 & Hc2 & Hr2).
                exists k2. repeat split; auto. unfold fupd. destruct (Nat.eqb_spec k2 ch); [contradiction | exact Hr2].
             ++ exists ch. repeat split; auto. unfold fupd. rewrite Nat.eqb_refl. apply in_diff. auto.
          -- exists k. repeat split; auto. unfold fupd. destruct (Nat.eqb_spec k ch); [contradiction | exact Hr].
        * intros (k & Hk & Hc & Hr). unfold fupd in Hr. destruct (Nat.eqb_spec k ch) as [->|Hne].
          -- apply in_diff in Hr. destruct Hr as [Hr Hout]. split; [exists ch; auto | tauto].
          -- split; [exists k; auto|]. intros [Hin Ho].
             assert (other_users owns nchan s ch c r = true) by (apply other_users_spec; exists k; auto). congruence.
      + apply mem_false in Ec. rewrite P. split; intros (k & Hk & Hc & Hr); exists k; repeat split; auto.
        * unfold fupd. destruct (Nat.eqb_spec k ch) as [->|]; [contradiction | exact Hr].
        * unfold fupd in Hr. destruct (Nat.eqb_spec k ch) as [->|]; [contradiction | exact Hr].
  Qed.

  Lemma Forall_drop_rows n rows tr : Forall (Forall (fun r => r < n)) tr -> Forall (Forall (fun r => r < n)) (drop_rows rows tr).
  Proof.
    intros H. unfold drop_rows. apply Forall_forall. intros g Hg. apply filter_In in Hg. destruct Hg as [Hg _].
    apply in_map_iff in Hg. destruct Hg as (g0 & <- & Hg0). rewrite Forall_forall in H. apply Forall_diff. auto.
  Qed.

  Theorem inv_simple s o : Inv s -> valid s o ->
    match o with
    | Record_ _ | DeleteRecordings _ | Stimulate _ | DeleteStimuli _ | AddToGroup _ _
    | Clamp _ | DeleteClamps _ | SetParam _ | InitStates | MakeTrainable _ | DeleteTrainables _ | DeleteTrainablesOld _ => Inv (step s o)
    | _ => True end.
  Proof.
    intros [(R1 & R2 & R2c & R3 & R4 & R5) P] V. destruct o; try exact I; cbn in V; split; try exact P; unfold refs_exist; simpl.
    - repeat split; auto. apply Forall_union; auto.
    - repeat split; auto. apply Forall_diff; auto.
    - repeat split; auto. apply Forall_app. split; auto.
    - repeat split; auto. apply Forall_diff; auto.
    - repeat split; auto. destruct (g <? length (groups s)).
      + apply Forall_forall. intros x Hx. apply in_map_iff in Hx. destruct Hx as ((i & gr) & <- & Hin).
        cbn [fst snd]. apply in_combine_r in Hin. rewrite Forall_forall in R3.
        destruct (i =? g); [apply Forall_union; auto | auto].
      + apply Forall_app. split; [exact R3 | constructor; [exact V | constructor]].
    - repeat split; auto. apply Forall_union; auto.
    - repeat split; auto. apply Forall_diff; auto.
    - repeat split; auto.
    - repeat split; auto.
    - repeat split; auto. apply Forall_app. split; [exact R5 | constructor; [exact V | constructor]].
    - repeat split; auto. apply Forall_forall. intros tr Htr. apply filter_In in Htr. destruct Htr as [Htr _].
      apply in_map_iff in Htr. destruct Htr as (tr0 & <- & Htr0). rewrite Forall_forall in R5. apply Forall_drop_rows. auto.
    - repeat split; auto.
  Qed.

  (* delete_trainables through a view removes exactly the rows of the view from every
     trainable group, drops what becomes empty and touches nothing else *)
  Theorem delete_trainables_exact s rows r :
    let s' := step s (DeleteTrainables rows) in
    (exists tr g, In tr (trains s') /\ In g tr /\ In r g) <->
    (~ In r rows /\ exists tr g, In tr (trains s) /\ In g tr /\ In r g).
  Proof.
    cbn [step trains]. split.
    - intros (tr & g & Htr & Hg & Hr). apply filter_In in Htr. destruct Htr as [Htr _].
      apply in_map_iff in Htr. destruct Htr as (tr0 & <- & Htr0). unfold drop_rows in Hg.
      apply filter_In in Hg. destruct Hg as [Hg _]. apply in_map_iff in Hg. destruct Hg as (g0 & <- & Hg0).
      apply in_diff in Hr. split; [tauto|]. exists tr0, g0. tauto.
    - intros (Hn & tr0 & g0 & Htr0 & Hg0 & Hr).
      assert (Hd : In r (diff g0 rows)) by (apply in_diff; tauto).
      exists (drop_rows rows tr0), (diff g0 rows). repeat split; auto.
      + apply filter_In. split; [apply in_map_iff; exists tr0; split; [reflexivity | exact Htr0]|].
        assert (In (diff g0 rows) (drop_rows rows tr0)).
        { unfold drop_rows. apply filter_In. split; [apply in_map_iff; exists g0; split; [reflexivity | exact Hg0]|]. destruct (diff g0 rows); [destruct Hd | reflexivity]. }
        destruct (drop_rows rows tr0); [contradiction | reflexivity].
      + unfold drop_rows. apply filter_In. split; [apply in_map_iff; exists g0; split; [reflexivity | exact Hg0]|]. destruct (diff g0 rows); [destruct Hd | reflexivity].
  Qed.
  Theorem delete_trainables_no_empty s rows :
    Forall (fun tr => tr <> [] /\ Forall (fun g => g <> []) tr) (trains (step s (DeleteTrainables rows))).
  Proof.
    cbn [step trains]. apply Forall_forall. intros tr Htr. apply filter_In in Htr. destruct Htr as [Htr Hne].
    split; [intros ->; discriminate|]. apply in_map_iff in Htr. destruct Htr as (tr0 & <- & _).
    unfold drop_rows. apply Forall_forall. intros g Hg. apply filter_In in Hg. destruct Hg as [_ Hg]. intros ->. discriminate.
  Qed.

  (* full characterisation of the remapped labels *)
  Lemma remap_group_in g s old new r' : 0 < new ->
    In r' (remap_group g s old new) <->
    (r' < s /\ In r' g) \/ (s <= r' < s + new /\ exists r, In r g /\ s <= r < s + old) \/
    (exists r, In r g /\ s + old <= r /\ r' = r - old + new).
  Proof.
    intros Hnew. unfold remap_group. rewrite !in_app_iff, filter_In. split.
    - intros [[H1 H2]|[H|H]].
      + apply Nat.ltb_lt in H2. left. tauto.
      + destruct (existsb _ g) eqn:E; [|destruct H]. apply in_seq in H.
        apply existsb_exists in E. destruct E as (r & Hr & Hc). apply andb_true_iff in Hc. destruct Hc as [C1 C2].
        apply Nat.leb_le in C1. apply Nat.ltb_lt in C2. right. left. split; [lia | exists r; split; [exact Hr | lia]].
      + apply in_map_iff in H. destruct H as (r & E & Hr). apply filter_In in Hr. destruct Hr as [Hr1 Hr2].
        apply Nat.leb_le in Hr2. right. right. exists r. repeat split; auto.
    - intros [[H1 H2]|[[H1 (r & Hr & Hs)]|(r & Hr & Hs & ->)]].
      + left. split; [exact H2 | apply Nat.ltb_lt; exact H1].
      + right. left. replace (existsb (fun r0 => (s <=? r0) && (r0 <? s + old)) g) with true.
        * apply in_seq. lia.
        * symmetry. apply existsb_exists. exists r. split; [exact Hr|]. apply andb_true_iff.
          split; [apply Nat.leb_le; lia | apply Nat.ltb_lt; lia].
      + right. right. apply in_map_iff. exists r. split; [reflexivity|]. apply filter_In.
        split; [exact Hr | apply Nat.leb_le; exact Hs].
  Qed.

  Lemma remap_bound g s old new n : 0 < new -> s + old <= n ->
    Forall (fun r => r < n) g -> Forall (fun r => r < n - old + new) (remap_group g s old new).
  Proof.
    intros Hnew Hs H. rewrite Forall_forall in *. intros r' Hr'. apply remap_group_in in Hr'; [|exact Hnew].
    destruct Hr' as [[H1 H2]|[[H1 _]|(r & Hr & H1 & ->)]]; [lia | lia |]. specialize (H r Hr). lia.
  Qed.

  Theorem inv_set_ncomp s b old new : Inv s -> valid s (SetNcomp b old new) -> Inv (step s (SetNcomp b old new)).
  Proof.
    intros [(R1 & R2 & R2c & R3 & R4 & R5) P] (Hb & Hold & Hnew & Hrec & Hext & Hcl & Htr). unfold params_where_channel in P. split.
    - unfold refs_exist. simpl. rewrite Hrec, Hext, Hcl, Htr. repeat split; try constructor.
      + apply Forall_forall. intros g Hg. apply in_map_iff in Hg. destruct Hg as (g0 & <- & Hg0).
        rewrite Forall_forall in R3. apply remap_bound; auto.
      + intros k Hk. apply remap_bound; auto.
    - intros c r'. cbn [col chan step]. rewrite remap_group_in by exact Hnew. split.
      + intros [[H1 H2]|[[H1 (r & Hr & Hs)]|(r & Hr & Hs & ->)]].
        * apply P in H2. destruct H2 as (k & Hk & Hc & Hr). exists k. repeat split; auto.
          apply remap_group_in; [exact Hnew|]. left. tauto.
        * apply P in Hr. destruct Hr as (k & Hk & Hc & Hr). exists k. repeat split; auto.
          apply remap_group_in; [exact Hnew|]. right. left. split; [exact H1 | exists r; tauto].
        * apply P in Hr. destruct Hr as (k & Hk & Hc & Hr). exists k. repeat split; auto.
          apply remap_group_in; [exact Hnew|]. right. right. exists r. tauto.
      + intros (k & Hk & Hc & Hr). apply remap_group_in in Hr; [|exact Hnew].
        destruct Hr as [[H1 H2]|[[H1 (r & Hr & Hs)]|(r & Hr & Hs & ->)]].
        * left. split; [exact H1|]. apply P. exists k; auto.
        * right. left. split; [exact H1|]. exists r. split; [apply P; exists k; auto | exact Hs].
        * right. right. exists r. split; [apply P; exists k; auto | tauto].
  Qed.

  (* every accepted history leaves a consistent module *)
  Definition is_old (o : op) : bool := match o with DeleteOld _ _ | DeleteTrainablesOld _ => true | _ => false end.
  Theorem inv_step s o : is_old o = false -> Inv s -> valid s o -> Inv (step s o).
  Proof.
    intros Hn HI V. destruct o; try discriminate.
    - apply inv_insert; assumption.
    - apply inv_delete; assumption.
    - exact (inv_simple s (Record_ rows) HI V).
    - exact (inv_simple s (DeleteRecordings rows) HI V).
    - exact (inv_simple s (Stimulate rows) HI V).
    - exact (inv_simple s (DeleteStimuli rows) HI V).
    - exact (inv_simple s (AddToGroup g rows) HI V).
    - apply inv_set_ncomp; assumption.
    - exact (inv_simple s (Clamp rows) HI V).
    - exact (inv_simple s (DeleteClamps rows) HI V).
    - exact (inv_simple s (SetParam rows) HI V).
    - exact (inv_simple s InitStates HI V).
    - exact (inv_simple s (MakeTrainable gs) HI V).
    - exact (inv_simple s (DeleteTrainables rows) HI V).
  Qed.

  Fixpoint run (s : st) (h : list op) : st := match h with [] => s | o :: h' => run (step s o) h' end.
  Fixpoint all_valid (s : st) (h : list op) : Prop :=
    match h with [] => True | o :: h' => is_old o = false /\ valid s o /\ all_valid (step s o) h' end.
  Theorem inv_history : forall h s, Inv s -> all_valid s h -> Inv (run s h).
  Proof.
    induction h as [|o h IH]; intros s HI HV; [exact HI|]. destruct HV as (Hn & V & HV').
    cbn [run]. apply IH; [apply inv_step; assumption | exact HV'].
  Qed.
End Inv.

(* the repaired defect stays refuted in the model of the OLD delete_channel: channels 0 (Na)
   and 1 (K) share column 0 (vt); insert both on rows 0,1 and delete Na: vt is gone on rows
   where K still is *)
Definition owns_ex (k : nat) : list nat := match k with 0 => [0; 1] | 1 => [0; 2] | _ => [] end.
Lemma delete_old_refuted :
  let s := run owns_ex 2 (init 2) [Insert 0 [0; 1]; Insert 1 [0; 1]; DeleteOld 0 [0; 1]] in
  chan s 1 = [0; 1] /\ col s 0 = [].
Proof. split; reflexivity. Qed.
Lemma delete_new_ok :
  let s := run owns_ex 2 (init 2) [Insert 0 [0; 1]; Insert 1 [0; 1]; Delete 0 [0; 1]] in
  chan s 1 = [0; 1] /\ col s 0 = [0; 1] /\ col s 1 = [].
Proof. repeat split; reflexivity. Qed.

Lemma c19_example :
  all_valid owns_ex 2 (init 3) [Insert 0 [0; 2]; AddToGroup 0 [1; 2]; SetNcomp 0 1 2; Record_ [3]].
Proof.
  cbn [all_valid is_old valid step init nrows recs exts clamps groups chan col trains].
  repeat match goal with |- _ /\ _ => split end; try reflexivity; try lia;
    repeat (constructor; try lia); cbn; intuition lia.
Qed.

(* the repaired defect F27 stays refuted in the model of the OLD view-level delete_trainables:
   the trainable created on rows 0,1 survives its deletion through the same view *)
Lemma delete_trainables_old_refuted :
  let h del := [MakeTrainable [[0; 1]]; MakeTrainable [[0]; [1]; [2]]; del] in
  trains (run owns_ex 2 (init 3) (h (DeleteTrainablesOld [0; 1]))) = [[[0; 1]]; [[0]; [1]; [2]]] /\
  trains (run owns_ex 2 (init 3) (h (DeleteTrainables [0; 1]))) = [[[2]]].
Proof. split; reflexivity. Qed.
