(* Facts about the equal-points splitting (Model/SwcSplit.v, C16): the pieces chain and cover the section; the
   first piece has len/n points, so it degenerates when the section has fewer than 3 n points (known findings
   F25 / F63: a one-point piece, or the piece [soma, first neurite point] of traced length 0). *)
From Coq Require Import List Arith Lia.
From JV Require Import SwcSplit.
Import ListNotations.

Lemma firstn_add {A} : forall a b (l : list A), firstn (a + b) l = firstn a l ++ firstn b (skipn a l).
Proof. induction a as [|a IH]; intros b l; [reflexivity|]. destruct l as [|x l]; [cbn; now rewrite firstn_nil|]. cbn [Nat.add firstn skipn app]. f_equal. apply IH. Qed.

Lemma skipn_add {A} : forall a b (l : list A), skipn (a + b) l = skipn b (skipn a l).
Proof. induction a as [|a IH]; intros b l; [reflexivity|]. destruct l as [|x l]; [cbn; now rewrite skipn_nil|]. cbn [Nat.add skipn]. apply IH. Qed.

Lemma slice_tl {A} (l : list A) a b : a < b -> tl (slice l a b) = slice l (S a) b.
Proof.
  intros H. unfold slice. replace (b - a) with (S (b - S a)) by lia. replace (S a) with (a + 1) by lia. rewrite skipn_add.
  destruct (skipn a l) as [|x r]; [cbn; now rewrite firstn_nil|]. reflexivity.
Qed.

(* the pieces without their shared first points, one after the other, are the section *)
Lemma middle_pieces {A} (l : list A) m : 1 <= m -> forall k,
  firstn m l ++ flat_map (@tl A) (map (fun i => slice l (i * m - 1) ((i + 1) * m)) (seq 1 k)) = firstn ((k + 1) * m) l.
Proof.
  intros Hm. induction k as [|k IH]; [cbn; rewrite app_nil_r; f_equal; lia|].
  rewrite seq_S, map_app, flat_map_app, app_assoc, IH. cbn [map flat_map]. rewrite app_nil_r.
  rewrite slice_tl by nia. replace (S ((1 + k) * m - 1)) with ((k + 1) * m) by nia.
  unfold slice. replace ((1 + k + 1) * m - (k + 1) * m) with m by nia.
  replace ((S k + 1) * m) with ((k + 1) * m + m) by nia. symmetry. apply firstn_add.
Qed.

Theorem split_covers {A} (l : list A) n : 2 <= n -> 1 <= length l / n ->
  match split_equally l n with
  | first :: rest => first ++ flat_map (@tl A) rest = l
  | [] => False
  end.
Proof.
  intros Hn Hm. unfold split_equally. set (m := length l / n) in *. rewrite flat_map_app. cbn [flat_map]. rewrite app_nil_r.
  unfold slice at 1. rewrite Nat.sub_0_r. cbn [skipn]. rewrite app_assoc, (middle_pieces l m Hm (n - 2)).
  replace (n - 2 + 1) with (n - 1) by lia.
  assert (E : tl (skipn ((n - 1) * m - 1) l) = skipn ((n - 1) * m) l).
  { replace ((n - 1) * m) with (((n - 1) * m - 1) + 1) at 2 by nia. rewrite skipn_add. destruct (skipn ((n - 1) * m - 1) l); reflexivity. }
  rewrite E. apply firstn_skipn.
Qed.

(* the first piece has len / n points *)
Theorem first_piece_length {A} (l : list A) n : 1 <= n -> length (hd [] (split_equally l n)) = length l / n.
Proof.
  intros Hn. unfold split_equally. cbn [hd]. unfold slice. rewrite Nat.sub_0_r. cbn [skipn]. rewrite firstn_length.
  apply Nat.min_l. apply Nat.div_le_upper_bound; nia.
Qed.

(* F63 / F25: sections with fewer than 3 n (2 n) points get a degenerate first piece *)
Example stem_of_six_points_in_three_pieces : hd [] (split_equally [1; 2; 3; 4; 5; 6] 3) = [1; 2].
Proof. reflexivity. Qed.
Example three_points_in_two_pieces : hd [] (split_equally [1; 2; 3] 2) = [1].
Proof. reflexivity. Qed.
