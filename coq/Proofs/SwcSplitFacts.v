(* Facts about the max_branch_len splitting (Model/SwcSplit.v, C16): for EVERY section and every requested number of
   pieces, the pieces chain (each starts at the last point of the previous one), together they are the section, and every
   piece keeps at least two traced points (as soon as the section has two); the same with the soma point kept in front.
   The splitting before the repair had a first piece of len/n points: one point, or [soma, first neurite point]
   (F25 / F63, machine-checked counterexamples). *)
From Coq Require Import List Arith Lia.
From JV Require Import SwcSplit.
Import ListNotations.

Lemma firstn_add {A} : forall a b (l : list A), firstn (a + b) l = firstn a l ++ firstn b (skipn a l).
Proof. induction a as [|a IH]; intros b l; [reflexivity|]. destruct l as [|x l]; [cbn; now rewrite firstn_nil|]. cbn [Nat.add firstn skipn app]. f_equal. apply IH. Qed.

Lemma skipn_add {A} : forall a b (l : list A), skipn (a + b) l = skipn b (skipn a l).
Proof. induction a as [|a IH]; intros b l; [reflexivity|]. destruct l as [|x l]; [cbn; now rewrite skipn_nil|]. cbn [Nat.add skipn]. apply IH. Qed.

Lemma slice_tl {A} (l : list A) a b : a < b -> tl (slice l a b) = slice l (S a) b.
Proof.
  intros H. unfold slice. replace (b - a) with (S (b - S a)) by lia. replace (S a) with (a + 1) by lia. rewrite skipn_add.
  destruct (skipn a l) as [|x r]; [cbn; now rewrite firstn_nil|]. reflexivity.
Qed.

Lemma slice_app {A} (l : list A) a b d : a <= b -> b <= d -> slice l a b ++ slice l b d = slice l a d.
Proof.
  intros H1 H2. unfold slice. replace (d - a) with ((b - a) + (d - b)) by lia. rewrite firstn_add. f_equal.
  replace b with (a + (b - a)) at 2 by lia. rewrite skipn_add. reflexivity.
Qed.
Lemma slice_length {A} (l : list A) a b : b <= length l -> length (slice l a b) = b - a.
Proof. intros H. unfold slice. rewrite firstn_length, skipn_length. lia. Qed.
Lemma slice_all {A} (l : list A) : slice l 0 (length l) = l.
Proof. unfold slice. rewrite Nat.sub_0_r. cbn [skipn]. apply firstn_all. Qed.

(* the tails of consecutive pieces, one after the other *)
Lemma tails_cat {A} (l : list A) (c : nat -> nat) : (forall i, c i <= c (S i)) -> forall k,
  flat_map (@tl A) (map (fun i => slice l (c i) (c (i + 1) + 1)) (seq 0 k)) = slice l (c 0 + 1) (c k + 1).
Proof.
  intros Hc. assert (Hm : forall i j, i <= j -> c i <= c j) by (intros i j H; induction H; [lia | specialize (Hc m); lia]).
  induction k as [|k IH].
  - cbn. unfold slice. rewrite Nat.sub_diag. reflexivity.
  - rewrite seq_S, map_app, flat_map_app, IH. cbn [map flat_map Nat.add]. rewrite app_nil_r.
    replace (k + 1) with (S k) by lia. rewrite slice_tl by (specialize (Hc k); lia). replace (S (c k)) with (c k + 1) by lia.
    apply slice_app; [specialize (Hm 0 k); lia | specialize (Hc k); lia].
Qed.

Section Cuts.
  Variables (len n : nat).
  Hypothesis Hlen : 1 <= len.
  Notation k := (npieces len n).
  Notation s := (len - 1).

  Lemma k_pos : 1 <= k.
  Proof. unfold npieces. lia. Qed.
  Lemma cut_0 : cut len n 0 = 0.
  Proof. unfold cut. cbn [Nat.mul]. apply Nat.div_0_l. pose proof k_pos. lia. Qed.
  Lemma cut_k : cut len n k = s.
  Proof. unfold cut. rewrite Nat.mul_comm. apply Nat.div_mul. pose proof k_pos. lia. Qed.
  Lemma cut_mono i : cut len n i <= cut len n (S i).
  Proof. unfold cut. apply Nat.div_le_mono; [pose proof k_pos; lia | lia]. Qed.
  (* with at least one segment the cuts increase strictly: every piece has at least two points *)
  Lemma cut_strict i : 2 <= len -> cut len n i < cut len n (S i).
  Proof.
    intros H2. unfold cut. assert (Hk : k <= s) by (unfold npieces; lia). pose proof k_pos as Hp.
    assert (E : i * s / k + 1 = (i * s + 1 * k) / k) by (rewrite Nat.div_add by lia; reflexivity).
    assert (L : (i * s + 1 * k) / k <= S i * s / k) by (apply Nat.div_le_mono; [lia | cbn [Nat.mul]; nia]). lia.
  Qed.
  Lemma cut_le i : i <= k -> cut len n i <= s.
  Proof. intros H. rewrite <- cut_k. clear -H Hlen. induction H; [lia|]. pose proof (cut_mono m). lia. Qed.
End Cuts.

Theorem split_covers {A} (l : list A) n : 1 <= length l ->
  match split_equally l n with
  | first :: rest => first ++ flat_map (@tl A) rest = l
  | [] => False
  end.
Proof.
  intros Hl. unfold split_equally. set (len := length l) in *.
  pose proof (tails_cat l (cut len n) (fun i => cut_mono len n Hl i) (npieces len n)) as T.
  pose proof (k_pos len n Hl) as Hk. rewrite (cut_0 len n Hl), (cut_k len n Hl) in T.
  destruct (npieces len n) as [|k']; [lia|]. cbn [seq map flat_map] in *.
  set (first := slice l (cut len n 0) (cut len n (0 + 1) + 1)) in *.
  set (X := flat_map (@tl A) (map (fun i => slice l (cut len n i) (cut len n (i + 1) + 1)) (seq 1 k'))) in *.
  assert (F : first = slice l 0 1 ++ tl first).
  { unfold first. rewrite (cut_0 len n Hl). rewrite slice_tl by lia. rewrite slice_app by lia. reflexivity. }
  rewrite F, <- app_assoc, T. rewrite slice_app by lia. replace (len - 1 + 1) with len by lia. apply slice_all.
Qed.

Theorem split_count {A} (l : list A) n : length (split_equally l n) = npieces (length l) n.
Proof. unfold split_equally. rewrite map_length, seq_length. reflexivity. Qed.

Theorem split_pieces_have_two_points {A} (l : list A) n p : 2 <= length l -> In p (split_equally l n) -> 2 <= length p.
Proof.
  intros H2 Hp. unfold split_equally in Hp. apply in_map_iff in Hp. destruct Hp as (i & <- & Hi). apply in_seq in Hi.
  assert (Hl : 1 <= length l) by lia.
  pose proof (cut_strict (length l) n Hl i H2) as S1. pose proof (cut_le (length l) n Hl (i + 1) ltac:(lia)) as S2.
  replace (i + 1) with (S i) in * by lia. rewrite slice_length by lia. lia.
Qed.

(* the section that starts at a single-point soma: same statements, the soma stays in front *)
Theorem split_from_soma_covers {A} (soma : A) (rest : list A) n : 1 <= length rest ->
  match split_from_soma (soma :: rest) n with
  | first :: others => first ++ flat_map (@tl A) others = soma :: rest /\ 3 <= length first \/ length rest < 2
  | [] => False
  end.
Proof.
  intros Hl. unfold split_from_soma. pose proof (split_covers rest n Hl) as C.
  destruct (split_equally rest n) as [|first others] eqn:E; [destruct C|].
  destruct (le_lt_dec 2 (length rest)) as [H2|H2]; [left | right; exact H2]. split.
  - cbn [app]. f_equal. exact C.
  - assert (Hin : In first (split_equally rest n)) by (rewrite E; now left).
    pose proof (split_pieces_have_two_points rest n first H2 Hin). cbn [length]. lia.
Qed.

(* ---- the splitting before the repair ---- *)
Theorem old_first_piece_length {A} (l : list A) n : 1 <= n -> length (hd [] (split_equally_old l n)) = length l / n.
Proof.
  intros Hn. unfold split_equally_old. cbn [hd]. unfold slice. rewrite Nat.sub_0_r. cbn [skipn]. rewrite firstn_length.
  apply Nat.min_l. apply Nat.div_le_upper_bound; nia.
Qed.
Example old_stem_of_six_points_in_three_pieces : hd [] (split_equally_old [1; 2; 3; 4; 5; 6] 3) = [1; 2].
Proof. reflexivity. Qed.
Example old_three_points_in_two_pieces : hd [] (split_equally_old [1; 2; 3] 2) = [1].
Proof. reflexivity. Qed.
Example new_examples :
  split_equally [1; 2; 3; 4; 5; 6] 3 = [[1; 2]; [2; 3; 4]; [4; 5; 6]] /\ split_equally [1; 2; 3] 2 = [[1; 2]; [2; 3]] /\
  split_equally [1; 2; 3] 7 = [[1; 2]; [2; 3]] /\ split_equally [1] 3 = [[1]] /\
  split_from_soma [1; 2; 3; 4; 5; 6] 3 = [[1; 2; 3]; [3; 4]; [4; 5; 6]].
Proof. repeat split; reflexivity. Qed.
