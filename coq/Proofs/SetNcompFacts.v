From Coq Require Import List Arith Bool Lia Reals Lra.
From JV Require Import SetNcomp.
Import ListNotations.

Section Rows.
  Context {A : Type}.
  Lemma replace_rows_length (l : list A) s old new :
    s + old <= length l -> length (replace_rows l s old new) = length l - old + length new.
  Proof. intros H. unfold replace_rows. rewrite !app_length, firstn_length, skipn_length. lia. Qed.

  (* every other branch is untouched: rows before keep their place, rows behind move by new - old *)
  Theorem rows_before_untouched (l : list A) s old new k d :
    k < s -> s <= length l -> nth k (replace_rows l s old new) d = nth k l d.
  Proof.
    intros Hk Hs. unfold replace_rows. rewrite app_nth1 by (rewrite firstn_length; lia).
    revert l s Hk Hs. induction k as [|k IH]; intros [|x l] [|s] Hk Hs; cbn in *; try lia; auto.
    apply IH; lia.
  Qed.
  Theorem rows_behind_shifted (l : list A) s old new k d :
    s + old <= length l ->
    nth (s + length new + k) (replace_rows l s old new) d = nth (s + old + k) l d.
  Proof.
    intros Hs. unfold replace_rows.
    rewrite app_nth2 by (rewrite firstn_length; lia). rewrite firstn_length, Nat.min_l by lia.
    rewrite app_nth2 by lia.
    replace (s + length new + k - s - length new) with k by lia.
    generalize (s + old). clear. intros n. revert l.
    induction n as [|n IH]; intros l; [reflexivity|].
    destruct l as [|x l]; cbn [skipn Nat.add nth].
    - destruct k; reflexivity.
    - apply IH.
  Qed.
  Theorem new_rows_in_place (l : list A) s old new k d :
    s <= length l -> k < length new -> nth (s + k) (replace_rows l s old new) d = nth k new d.
  Proof.
    intros Hs Hk. unfold replace_rows.
    rewrite app_nth2 by (rewrite firstn_length; lia). rewrite firstn_length, Nat.min_l by lia.
    replace (s + k - s) with k by lia. apply app_nth1. exact Hk.
  Qed.
End Rows.

(* groups keep their branch membership: a row that was not replaced is in the remapped
   group iff it was in the group; the new rows of the branch are all in iff some old row
   of the branch was in *)
Theorem remap_group_kept g s old new r r' :
  move_row s old new r = Some r' -> (In r' (remap_group g s old new) <-> In r g).
Proof.
  unfold move_row, remap_group. intros H.
  destruct (Nat.ltb_spec r s) as [Hr|Hr].
  - inversion H; subst r'. rewrite !in_app_iff, filter_In. split.
    + intros [[H1 _]|[H1|H1]]; [exact H1 | exfalso | exfalso].
      * destruct (existsb _ g); [apply in_seq in H1; lia | destruct H1].
      * apply in_map_iff in H1. destruct H1 as (q & E & Hq). apply filter_In in Hq. destruct Hq as [_ Hq].
        apply Nat.leb_le in Hq. lia.
    + intros Hin. left. split; [exact Hin | apply Nat.ltb_lt; exact Hr].
  - destruct (Nat.ltb_spec r (s + old)) as [Hr2|Hr2]; [discriminate|]. inversion H; subst r'.
    rewrite !in_app_iff, filter_In. split.
    + intros [[_ H1]|[H1|H1]].
      * apply Nat.ltb_lt in H1. lia.
      * exfalso. destruct (existsb _ g); [apply in_seq in H1; lia | destruct H1].
      * apply in_map_iff in H1. destruct H1 as (q & E & Hq). apply filter_In in Hq. destruct Hq as [Hq1 Hq2].
        apply Nat.leb_le in Hq2. assert (q = r) by lia. subst. exact Hq1.
    + intros Hin. right. right. apply in_map_iff. exists r. split; [reflexivity|].
      apply filter_In. split; [exact Hin | apply Nat.leb_le; exact Hr2].
Qed.
Theorem remap_group_branch g s old new k :
  k < new ->
  (In (s + k) (remap_group g s old new) <-> exists r, In r g /\ s <= r < s + old).
Proof.
  intros Hk. unfold remap_group. rewrite !in_app_iff, filter_In. split.
  - intros [[_ H1]|[H1|H1]].
    + apply Nat.ltb_lt in H1. lia.
    + destruct (existsb _ g) eqn:E; [|destruct H1].
      apply existsb_exists in E. destruct E as (r & Hr & Hc). apply andb_true_iff in Hc.
      destruct Hc as [C1 C2]. apply Nat.leb_le in C1. apply Nat.ltb_lt in C2. exists r. split; [exact Hr | lia].
    + apply in_map_iff in H1. destruct H1 as (q & E & Hq). apply filter_In in Hq. destruct Hq as [_ Hq].
      apply Nat.leb_le in Hq. lia.
  - intros (r & Hr & Hs). right. left.
    replace (existsb (fun r0 => (s <=? r0) && (r0 <? s + old)) g) with true.
    + apply in_seq. lia.
    + symmetry. apply existsb_exists. exists r. split; [exact Hr|].
      apply andb_true_iff. split; [apply Nat.leb_le; lia | apply Nat.ltb_lt; lia].
Qed.
(* the repaired defect stays refuted in the model of the old behaviour: a group on rows
   [4;5] (branch 2 of a 3 x 2 cell), branch 0 re-discretised into 4 compartments *)
Lemma remap_group_old_refuted :
  remap_group_old [4; 5] 0 2 4 = [4; 5] /\ remap_group [4; 5] 0 2 4 = [6; 7].
Proof. split; reflexivity. Qed.

(* the total length of the branch is preserved: n compartments of length L/n *)
Local Open Scope R_scope.
Lemma total_length_preserved (L : R) (n : nat) : (0 < n)%nat -> INR n * (L / INR n) = L.
Proof. intros H. field. apply not_0_INR. lia. Qed.
