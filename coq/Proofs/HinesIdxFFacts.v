(* The schedule checker accepts the index structure of EVERY forest (network of cells): any global parent vector in
   which every non-root branch has a smaller-numbered parent, any compartment counts >= 1 (Model/HinesIdxF.v). *)
From Coq Require Import List Arith Bool Lia.
From JV Require Import HinesArr HinesCheck HinesArrFacts HinesTreeFacts HinesIdxFacts HinesForestFacts HinesIdxF.
Import ListNotations.

Section ConcreteF.
  Variables (ps ns : list nat) (rs : list bool).
  Hypothesis nb_pos : 1 <= length ps.
  Hypothesis sortedF : forall b, b < length ps -> is_root rs b = false -> nth b ps 0 < b.
  Hypothesis counts : forall b, b < length ps -> 1 <= nth b ns 0.

  Notation nbL := (length ps).
  Notation par := (par_ofF ps).
  Notation depth := (depthF ps rs).
  Notation hk := (has_kidsF ps rs).
  Notation pwk := (parents_with_kidsF ps rs).
  Notation bp := (bp_ofF ps rs).
  Notation ly := (layout_ofF ps ns rs).
  Notation tp := (topo_ofF ps rs).
  Notation rt := (is_root rs).

  Lemma lev_fuelF : forall b fuel, b < nbL -> b < fuel -> levF ps rs fuel b = levF ps rs (S b) b.
  Proof.
    induction b as [b IH] using lt_wf_ind. intros fuel Hb Hf.
    destruct fuel as [|fuel]; [lia|]. cbn [levF]. destruct (rt b) eqn:Er; [reflexivity|]. f_equal.
    pose proof (sortedF b Hb Er) as Hs. fold (par b) in Hs.
    rewrite (IH (par b) Hs fuel ltac:(lia) ltac:(lia)).
    destruct b as [|b']; [lia|]. rewrite (IH (par (S b')) Hs (S b') ltac:(lia) ltac:(lia)). reflexivity.
  Qed.

  Lemma depth_childF c : rt c = false -> c < nbL -> depth c = S (depth (par c)).
  Proof.
    intros H1 H2. unfold depthF. cbn [levF]. rewrite H1. f_equal.
    pose proof (sortedF c H2 H1) as Hs. fold (par c) in Hs. apply lev_fuelF; lia.
  Qed.
  Lemma depth_rootF b : rt b = true -> depth b = 0.
  Proof. intros H. unfold depthF. cbn [levF]. rewrite H. reflexivity. Qed.

  Lemma is_child_specF p c : is_child_ofF ps rs p c = true <-> rt c = false /\ par c = p.
  Proof. unfold is_child_ofF. rewrite andb_true_iff, negb_true_iff, Nat.eqb_eq. tauto. Qed.
  Lemma hk_specF p : hk p = true <-> exists c, c < nbL /\ rt c = false /\ par c = p.
  Proof.
    unfold has_kidsF, nbrF. rewrite existsb_exists. split.
    - intros (c & Hc & H). apply in_seq in Hc. apply is_child_specF in H. exists c. split; [lia | exact H].
    - intros (c & Hc & H). exists c. split; [apply in_seq; lia | apply is_child_specF; exact H].
  Qed.
  Lemma kids_specF p c : In c (kids_ofF ps rs p) <-> c < nbL /\ rt c = false /\ par c = p.
  Proof. unfold kids_ofF, nbrF. rewrite filter_In, in_seq, is_child_specF. split; intros; [split; [lia|tauto] | split; [lia|tauto]]. Qed.

  Lemma in_level_specF k b : In b (in_levelF ps rs k) <-> b < nbL /\ depth b = k.
  Proof. unfold in_levelF, nbrF. rewrite filter_In, in_seq, Nat.eqb_eq. split; intros; [split; [lia|tauto] | split; [lia|tauto]]. Qed.

  Lemma pl_geF b : b < nbL -> ncomp_ofF ns b <= pl_ofF ps ns rs b.
  Proof.
    intros Hb. unfold pl_ofF. apply list_max_ge. apply in_map. apply filter_In. split; [apply in_seq; unfold nbrF; lia|].
    unfold same_cell_level. rewrite !Nat.eqb_refl. reflexivity.
  Qed.

  Lemma cs_SF b : cs_ofF ps ns rs (S b) = cs_ofF ps ns rs b + pl_ofF ps ns rs b.
  Proof.
    unfold cs_ofF. rewrite seq_S, map_app. cbn [map Nat.add].
    generalize (map (pl_ofF ps ns rs) (seq 0 b)). induction l as [|x l IH]; cbn; [lia | rewrite IH; lia].
  Qed.

  Theorem idx_wfF : wf ly tp.
  Proof.
    constructor; unfold topo_ofF, layout_ofF; cbn [nb nbp pbp cbp kids HinesCheck.par cs pl nc]; unfold parents_with_kidsF, nbrF.
    - intros b Hb. split; [apply counts; exact Hb | apply pl_geF; exact Hb].
    - intros b Hb. rewrite cs_SF. lia.
    - intros j Hj. unfold kids_ofF. apply NoDup_filter, seq_NoDup.
    - intros j c Hj Hc. destruct (nth_rank hk nbL j Hj) as (Hp & Hf & Hr). apply kids_specF in Hc. destruct Hc as (Hc1 & Hc2 & Hc3).
      split; [exact Hc1|]. rewrite Hc2. f_equal. rewrite Hc3. exact Hr.
    - intros c j Hc Hp. destruct (rt c) eqn:Er; [discriminate|]. inversion Hp as [E].
      assert (Hk : hk (par c) = true) by (apply hk_specF; exists c; split; [exact Hc | split; [exact Er | reflexivity]]).
      pose proof (sortedF c Hc Er) as Hs. fold (par c) in Hs.
      destruct (rank_nth hk nbL (par c) ltac:(lia) Hk) as [R1 R2]. split; [exact R1|].
      change (bp (par c)) with (rank hk (par c)). rewrite R2. apply kids_specF. split; [exact Hc | split; [exact Er | reflexivity]].
    - intros j Hj. destruct (nth_rank hk nbL j Hj) as (Hp & Hf & Hr). split; [exact Hp|]. rewrite Hf. f_equal. exact Hr.
    - intros b j Hb Hc. destruct (hk b) eqn:Hk; [|discriminate]. inversion Hc as [E].
      destruct (rank_nth hk nbL b Hb Hk) as [R1 R2]. split; [exact R1 | exact R2].
  Qed.

  Lemma nlev_lenF : length (levels_idxF ps rs) = nlevF ps rs.
  Proof. unfold levels_idxF. rewrite map_length, seq_length. reflexivity. Qed.

  Lemma nth_levelF k : k < nlevF ps rs -> nth k (levels_idxF ps rs) ([], []) = (cilF ps rs k, pilF ps rs k).
  Proof.
    intros Hk. unfold levels_idxF.
    rewrite (nth_indep _ ([], []) ((fun k => (cilF ps rs k, pilF ps rs k)) 0)) by (rewrite map_length, seq_length; exact Hk).
    rewrite (map_nth (fun k => (cilF ps rs k, pilF ps rs k)) (seq 0 (nlevF ps rs)) 0 k), seq_nth by exact Hk. reflexivity.
  Qed.

  Theorem idx_leveledF : leveledF ly tp depth (levels_idxF ps rs) (roots_ofF ps rs).
  Proof.
    constructor; rewrite ?nlev_lenF.
    - intros k b j Hk. rewrite nth_levelF by exact Hk. cbn [fst]. unfold cilF. rewrite in_map_iff.
      unfold topo_ofF; cbn [nb pbp]. unfold nbrF. split.
      + intros (b' & E & Hin). inversion E; subst. apply in_level_specF in Hin. destruct Hin as [Hb Hd].
        split; [exact Hb|]. split; [exact Hd|]. destruct (rt b) eqn:Er; [|reflexivity].
        rewrite (depth_rootF b Er) in Hd. discriminate.
      + intros (Hb & Hd & Hp). exists b. destruct (rt b) eqn:Er; [discriminate|]. inversion Hp. split; [reflexivity|].
        apply in_level_specF. auto.
    - intros k Hk. rewrite nth_levelF by exact Hk. cbn [fst]. unfold cilF. rewrite map_map. cbn [fst]. rewrite map_id.
      unfold in_levelF. apply NoDup_filter, seq_NoDup.
    - intros k p j Hk. rewrite nth_levelF by exact Hk. cbn [snd]. unfold pilF. rewrite in_map_iff.
      unfold topo_ofF; cbn [nb cbp]. unfold nbrF. split.
      + intros (p' & E & Hin). inversion E; subst. apply filter_In in Hin. destruct Hin as [Hin Hk'].
        apply in_level_specF in Hin. destruct Hin as [Hb Hd]. rewrite Hk'. auto.
      + intros (Hb & Hd & Hc). destruct (hk p) eqn:Hk'; [|discriminate]. inversion Hc. exists p. split; [reflexivity|].
        apply filter_In. split; [apply in_level_specF; auto | exact Hk'].
    - intros j c Hj Hc. unfold topo_ofF in *; cbn [nbp kids HinesCheck.par] in *. unfold parents_with_kidsF, nbrF in *.
      apply kids_specF in Hc. destruct Hc as (Hc1 & Hc2 & Hc3). rewrite <- Hc3. apply depth_childF; auto.
    - intros b Hb Hp. unfold topo_ofF in *; cbn [nb pbp] in *. destruct (rt b) eqn:Er; [apply depth_rootF; exact Er | discriminate].
    - split; [unfold roots_ofF; apply NoDup_filter, seq_NoDup|].
      intros b. unfold roots_ofF, topo_ofF; cbn [nb pbp]. unfold nbrF. rewrite filter_In, in_seq. split.
      + intros [Hb Hr]. split; [lia|]. rewrite Hr. reflexivity.
      + intros [Hb Hp]. split; [lia|]. destruct (rt b); [reflexivity | discriminate].
    - intros b Hb. unfold topo_ofF in Hb; cbn [nb] in Hb. unfold nbrF in Hb. unfold nlevF. apply list_max_ge.
      apply in_map. unfold nbrF. apply in_seq. lia.
    - intros j Hj. unfold topo_ofF in *; cbn [nbp kids] in *. unfold parents_with_kidsF, nbrF in *.
      destruct (nth_rank hk nbL j Hj) as (Hp & Hf & _). apply hk_specF in Hf. destruct Hf as (c & Hc1 & Hc2 & Hc3).
      intros E. assert (Hin : In c (kids_ofF ps rs (nth j (filter hk (seq 0 nbL)) 0))) by (apply kids_specF; auto).
      rewrite E in Hin. destruct Hin.
  Qed.
End ConcreteF.

(* THE CHECKER ACCEPTS EVERY FOREST *)
Theorem forest_accepted (ps ns : list nat) (rs : list bool) :
  1 <= length ps -> (forall b, b < length ps -> is_root rs b = false -> nth b ps 0 < b) -> (forall b, b < length ps -> 1 <= nth b ns 0) ->
  check_schedule (layout_ofF ps ns rs) (topo_ofF ps rs) (ops_of_forest ps ns rs) = true.
Proof.
  intros H1 H2 H3. assert (W : wf (layout_ofF ps ns rs) (topo_ofF ps rs)) by (apply idx_wfF; assumption).
  assert (LV : leveledF (layout_ofF ps ns rs) (topo_ofF ps rs) (depthF ps rs) (levels_idxF ps rs) (roots_ofF ps rs)) by (apply idx_leveledF; assumption).
  unfold check_schedule. rewrite (wf_b_complete _ _ W). cbn [andb].
  destruct (forest_schedule_ok _ _ _ _ W _ LV) as (fl & E & F). unfold ops_of_forest. rewrite E. exact F.
Qed.
