(* For EVERY forest (network of cells: every non-root branch has a smaller-numbered parent, counts >= 1) the index
   lists of Model/AsmIdxF.v - in the order in which Network._init_morph_jax_spsolve lays them out, per cell -
   satisfy the consistency conditions of the assembly (AssembleM.asm_struct) w.r.t. the layout and topology of
   Model/HinesIdxF.v. *)
From Coq Require Import Reals List Arith Bool Lia Sorted.
From JV Require Import HinesArr HinesCheck HinesArrFacts HinesArrPositive HinesIdx HinesTreeFacts HinesIdxFacts HinesForestFacts
     HinesIdxF HinesIdxFFacts AsmStruct AssembleM AssembleTotal AsmIdx AsmIdxFacts AssembleGraph AsmGraphFacts AsmIdxF.
Import ListNotations.

(* ---- generic list lemmas ---- *)
Lemma flat_map_map_out {A B C} (g : B -> C) (h : A -> list B) l : flat_map (fun c => map g (h c)) l = map g (flat_map h l).
Proof. induction l as [|a l IH]; cbn [flat_map]; [reflexivity | rewrite map_app, IH; reflexivity]. Qed.
Lemma t_of_type_flat_map {A} t (f : A -> list trip) l : t_of_type t (flat_map f l) = flat_map (fun c => t_of_type t (f c)) l.
Proof. induction l as [|a l IH]; cbn [flat_map]; [reflexivity | rewrite t_of_type_app, IH; reflexivity]. Qed.
Lemma flat_map_ext_in' {A B} (f g : A -> list B) l : (forall c, In c l -> f c = g c) -> flat_map f l = flat_map g l.
Proof. induction l as [|a l IH]; intros H; cbn [flat_map]; [reflexivity|]. rewrite (H a (or_introl eq_refl)), IH; [reflexivity|]. intros; apply H; now right. Qed.
Lemma flat_map_nil' {A B} (l : list A) : flat_map (fun _ => @nil B) l = [].
Proof. induction l; cbn; auto. Qed.
Lemma filter_all (f : nat -> bool) l : (forall x, In x l -> f x = true) -> filter f l = l.
Proof. induction l as [|x l IH]; intros H; cbn [filter]; [reflexivity|]. rewrite (H x (or_introl eq_refl)), IH; [reflexivity|]. intros; apply H; now right. Qed.
Lemma filter_none (f : nat -> bool) l : (forall x, In x l -> f x = false) -> filter f l = [].
Proof. induction l as [|x l IH]; intros H; cbn [filter]; [reflexivity|]. rewrite (H x (or_introl eq_refl)), IH; [reflexivity|]. intros; apply H; now right. Qed.

(* a list sorted by a key is the concatenation of its key classes *)
Section Partition.
  Variable key : nat -> nat.
  Notation R_ := (fun x y => key x <= key y).
  Lemma split_key a l : StronglySorted R_ l -> (forall x, In x l -> a <= key x) ->
    exists l1 l2, l = l1 ++ l2 /\ (forall x, In x l1 -> key x = a) /\ (forall x, In x l2 -> a < key x) /\ StronglySorted R_ l2.
  Proof.
    induction l as [|x l IH]; intros Hs Hk.
    - exists [], []. split; [reflexivity|]. split; [intros ? []|]. split; [intros ? [] | constructor].
    - inversion Hs as [|? ? Hs' Hall]; subst.
      destruct (Nat.eq_dec (key x) a) as [Ea|Na].
      + destruct (IH Hs' (fun y Hy => Hk y (or_intror Hy))) as (l1 & l2 & -> & H1 & H2 & H3).
        exists (x :: l1), l2. split; [reflexivity|]. split; [intros y [<-|Hy]; auto|]. split; assumption.
      + exists [], (x :: l). split; [reflexivity|]. split; [intros ? []|]. split; [|exact Hs].
        pose proof (Hk x (or_introl eq_refl)) as Hx. intros y [<-|Hy]; [lia|]. rewrite Forall_forall in Hall. specialize (Hall y Hy). cbn in Hall. lia.
  Qed.
  Lemma partition_sorted : forall n a l, StronglySorted R_ l -> (forall x, In x l -> a <= key x < a + n) ->
    flat_map (fun c => filter (fun x => key x =? c) l) (seq a n) = l.
  Proof.
    induction n as [|n IH]; intros a l Hs Hk.
    - destruct l as [|x l]; [reflexivity|]. specialize (Hk x (or_introl eq_refl)). lia.
    - cbn [seq flat_map]. destruct (split_key a l Hs (fun x Hx => proj1 (Hk x Hx))) as (l1 & l2 & -> & H1 & H2 & H3).
      rewrite filter_app, (filter_all _ l1), (filter_none _ l2).
      + rewrite app_nil_r. f_equal. transitivity (flat_map (fun c => filter (fun x => key x =? c) l2) (seq (S a) n)); [|apply (IH (S a) l2 H3)].
        * apply flat_map_ext_in'. intros c Hc. apply in_seq in Hc. rewrite filter_app, (filter_none _ l1); [reflexivity|].
          intros x Hx. apply Nat.eqb_neq. rewrite (H1 x Hx). lia.
        * intros x Hx. specialize (H2 x Hx). specialize (Hk x (in_or_app _ _ _ (or_intror Hx))). lia.
      + intros x Hx. apply Nat.eqb_neq. specialize (H2 x Hx). lia.
      + intros x Hx. apply Nat.eqb_eq. auto.
  Qed.
  Lemma SS_seq : forall n a, (forall i j, a <= i -> i <= j -> j < a + n -> key i <= key j) -> StronglySorted R_ (seq a n).
  Proof.
    induction n as [|n IH]; intros a H; cbn [seq]; constructor.
    - apply IH. intros i j Hi Hij Hj. apply H; lia.
    - apply Forall_forall. intros j Hj. apply in_seq in Hj. apply H; lia.
  Qed.
  Lemma partition_seq m a n : (forall i j, i <= j -> j < m -> key i <= key j) -> (forall i, i < m -> a <= key i < a + n) ->
    flat_map (fun c => filter (fun x => key x =? c) (seq 0 m)) (seq a n) = seq 0 m.
  Proof.
    intros Hm Hr. apply partition_sorted.
    - apply SS_seq. intros i j _ Hij Hj. apply Hm; lia.
    - intros x Hx. apply in_seq in Hx. apply Hr. lia.
  Qed.
End Partition.

(* ---- rank is monotone; the elements of a filtered seq increase ---- *)
Lemma rank_mono f p q : p <= q -> rank f p <= rank f q.
Proof. intros H. unfold rank. replace q with (p + (q - p)) by lia. rewrite seq_app, filter_app, app_length. lia. Qed.
Lemma nth_filter_mono f n i j : i <= j -> j < length (filter f (seq 0 n)) -> nth i (filter f (seq 0 n)) 0 <= nth j (filter f (seq 0 n)) 0.
Proof.
  intros Hij Hj. destruct (nth_rank f n i ltac:(lia)) as (_ & _ & Ri). destruct (nth_rank f n j Hj) as (_ & _ & Rj).
  destruct (le_lt_dec (nth i (filter f (seq 0 n)) 0) (nth j (filter f (seq 0 n)) 0)) as [H|H]; [exact H|].
  pose proof (rank_mono f _ _ (Nat.lt_le_incl _ _ H)) as M. rewrite Ri, Rj in M. assert (i = j) by lia. subst. lia.
Qed.

Section Forest.
  Variables (ps ns : list nat) (rs : list bool).
  Hypothesis nb_pos : 1 <= length ps.
  Hypothesis sortedF : forall b, b < length ps -> is_root rs b = false -> nth b ps 0 < b.
  Hypothesis counts : forall b, b < length ps -> 1 <= nth b ns 0.

  Notation nbL := (length ps).
  Notation ly := (layout_ofF ps ns rs).
  Notation tp := (topo_ofF ps rs).
  Notation hk := (has_kidsF ps rs).
  Notation nr := (fun b => negb (is_root rs b)).
  Notation pin := (par_inds_ofF ps rs).
  Notation chi := (child_inds_ofF ps rs).
  Notation n3 := (length pin).
  Notation n4 := (length chi).
  Notation tot := (total ps ns).
  Notation mask := (nthD (mask_ofF ps ns rs)).
  Notation m1 := (mk1 ps ns rs).
  Notation m2 := (mk2 ps ns rs).
  Notation ncl := (ncellsF ps rs).

  Lemma root0 : is_root rs 0 = true.
  Proof. destruct (is_root rs 0) eqn:E; [reflexivity|]. pose proof (sortedF 0 ltac:(lia) E). lia. Qed.

  Lemma cell_is_rank b : cell_ofF rs b = rank (is_root rs) (S b).
  Proof. reflexivity. Qed.
  Lemma cell_mono b b' : b <= b' -> cell_ofF rs b <= cell_ofF rs b'.
  Proof. intros H. rewrite !cell_is_rank. apply rank_mono. lia. Qed.
  Lemma cell_range b : b < nbL -> 1 <= cell_ofF rs b < 1 + ncl.
  Proof.
    intros Hb. rewrite cell_is_rank. split.
    - pose proof (rank_mono (is_root rs) 1 (S b) ltac:(lia)) as M. unfold rank in M at 1. cbn [seq filter] in M. rewrite root0 in M. cbn [length] in M. exact M.
    - pose proof (rank_mono (is_root rs) (S b) nbL ltac:(lia)) as M. unfold ncellsF, roots_ofF, nbrF. unfold rank in M at 2. lia.
  Qed.

  Lemma nth_pin j : j < n3 -> nth j pin 0 < nbL /\ hk (nth j pin 0) = true /\ bp_ofF ps rs (nth j pin 0) = j.
  Proof. intros H. exact (nth_rank hk nbL j H). Qed.
  Lemma nth_chi i : i < n4 -> nth i chi 0 < nbL /\ is_root rs (nth i chi 0) = false.
  Proof. intros H. destruct (nth_rank nr nbL i H) as (A & B & _). split; [exact A|]. apply negb_true_iff. exact B. Qed.

  Lemma part1 : flat_map (fun c => filter (fun j => key1 ps rs j =? c) (seq 0 n3)) (seq 1 ncl) = seq 0 n3.
  Proof.
    apply partition_seq.
    - intros i j Hij Hj. unfold key1. apply cell_mono. apply nth_filter_mono; assumption.
    - intros i Hi. unfold key1. apply cell_range. apply (nth_pin i Hi).
  Qed.
  Lemma part2 : flat_map (fun c => filter (fun i => key2 ps rs i =? c) (seq 0 n4)) (seq 1 ncl) = seq 0 n4.
  Proof.
    apply partition_seq.
    - intros i j Hij Hj. unfold key2. apply cell_mono. apply (nth_filter_mono nr nbL); assumption.
    - intros i Hi. unfold key2. apply cell_range. apply (nth_chi i Hi).
  Qed.

  (* ---- the five blocks of the (per-cell ordered) edge table ---- *)
  Lemma type_e1c c e : In e (e1c ps ns rs c) -> t_type e = 1.
  Proof. unfold e1c. rewrite in_map_iff. intros (x & <- & _). reflexivity. Qed.
  Lemma type_e2c c e : In e (e2c ps ns rs c) -> t_type e = 2.
  Proof. unfold e2c. rewrite in_map_iff. intros (x & <- & _). reflexivity. Qed.
  Lemma type_e3c c e : In e (map (flip 3) (e1c ps ns rs c)) -> t_type e = 3.
  Proof. rewrite in_map_iff. intros (x & <- & _). reflexivity. Qed.
  Lemma type_e4c c e : In e (map (flip 4) (e2c ps ns rs c)) -> t_type e = 4.
  Proof. rewrite in_map_iff. intros (x & <- & _). reflexivity. Qed.

  Definition E1 : list trip := map m1 (seq 0 n3).
  Definition E2 : list trip := map m2 (seq 0 n4).

  Lemma cat1 : flat_map (e1c ps ns rs) (seq 1 ncl) = E1.
  Proof. unfold e1c. rewrite flat_map_map_out, part1. reflexivity. Qed.
  Lemma cat2 : flat_map (e2c ps ns rs) (seq 1 ncl) = E2.
  Proof. unfold e2c. rewrite flat_map_map_out, part2. reflexivity. Qed.

  Ltac pieces t :=
    unfold triples_ofF; rewrite !t_of_type_app, !t_of_type_flat_map;
    rewrite ?(t_of_type_other t 0 (edges0 ps ns)) by (try lia; apply type_edges0);
    rewrite ?(t_of_type_same 0 (edges0 ps ns)) by (apply type_edges0).

  Lemma blockF0 : t_of_type 0 (triples_ofF ps ns rs) = edges0 ps ns.
  Proof.
    pieces 0.
    rewrite (flat_map_ext_in' (fun c => t_of_type 0 (e1c ps ns rs c ++ e2c ps ns rs c)) (fun _ => [])).
    2:{ intros c _. rewrite t_of_type_app, (t_of_type_other 0 1), (t_of_type_other 0 2); try lia; try first [apply type_e1c | apply type_e2c]; try reflexivity. }
    rewrite (flat_map_ext_in' (fun c => t_of_type 0 (map (flip 3) (e1c ps ns rs c) ++ map (flip 4) (e2c ps ns rs c))) (fun _ => [])).
    2:{ intros c _. rewrite t_of_type_app, (t_of_type_other 0 3), (t_of_type_other 0 4); try lia; try first [apply type_e3c | apply type_e4c]; try reflexivity. }
    rewrite !flat_map_nil', !app_nil_r. reflexivity.
  Qed.
  Lemma blockF1 : t_of_type 1 (triples_ofF ps ns rs) = E1.
  Proof.
    pieces 1.
    rewrite (flat_map_ext_in' (fun c => t_of_type 1 (e1c ps ns rs c ++ e2c ps ns rs c)) (e1c ps ns rs)).
    2:{ intros c _. rewrite t_of_type_app, (t_of_type_same 1), (t_of_type_other 1 2); try lia; try first [apply type_e1c | apply type_e2c]; try reflexivity. apply app_nil_r. }
    rewrite (flat_map_ext_in' (fun c => t_of_type 1 (map (flip 3) (e1c ps ns rs c) ++ map (flip 4) (e2c ps ns rs c))) (fun _ => [])).
    2:{ intros c _. rewrite t_of_type_app, (t_of_type_other 1 3), (t_of_type_other 1 4); try lia; try first [apply type_e3c | apply type_e4c]; try reflexivity. }
    rewrite !flat_map_nil', !app_nil_r. cbn [app]. apply cat1.
  Qed.
  Lemma blockF2 : t_of_type 2 (triples_ofF ps ns rs) = E2.
  Proof.
    pieces 2.
    rewrite (flat_map_ext_in' (fun c => t_of_type 2 (e1c ps ns rs c ++ e2c ps ns rs c)) (e2c ps ns rs)).
    2:{ intros c _. rewrite t_of_type_app, (t_of_type_same 2 (e2c ps ns rs c)), (t_of_type_other 2 1); try lia; try first [apply type_e1c | apply type_e2c]; try reflexivity. }
    rewrite (flat_map_ext_in' (fun c => t_of_type 2 (map (flip 3) (e1c ps ns rs c) ++ map (flip 4) (e2c ps ns rs c))) (fun _ => [])).
    2:{ intros c _. rewrite t_of_type_app, (t_of_type_other 2 3), (t_of_type_other 2 4); try lia; try first [apply type_e3c | apply type_e4c]; try reflexivity. }
    rewrite !flat_map_nil', !app_nil_r. cbn [app]. apply cat2.
  Qed.
  Lemma blockF3 : t_of_type 3 (triples_ofF ps ns rs) = map (flip 3) E1.
  Proof.
    pieces 3.
    rewrite (flat_map_ext_in' (fun c => t_of_type 3 (e1c ps ns rs c ++ e2c ps ns rs c)) (fun _ => [])).
    2:{ intros c _. rewrite t_of_type_app, (t_of_type_other 3 1), (t_of_type_other 3 2); try lia; try first [apply type_e1c | apply type_e2c]; try reflexivity. }
    rewrite (flat_map_ext_in' (fun c => t_of_type 3 (map (flip 3) (e1c ps ns rs c) ++ map (flip 4) (e2c ps ns rs c))) (fun c => map (flip 3) (e1c ps ns rs c))).
    2:{ intros c _. rewrite t_of_type_app, (t_of_type_same 3), (t_of_type_other 3 4); try lia; try first [apply type_e3c | apply type_e4c]; try reflexivity. apply app_nil_r. }
    rewrite !flat_map_nil'. cbn [app]. rewrite flat_map_map_out, cat1. reflexivity.
  Qed.
  Lemma blockF4 : t_of_type 4 (triples_ofF ps ns rs) = map (flip 4) E2.
  Proof.
    pieces 4.
    rewrite (flat_map_ext_in' (fun c => t_of_type 4 (e1c ps ns rs c ++ e2c ps ns rs c)) (fun _ => [])).
    2:{ intros c _. rewrite t_of_type_app, (t_of_type_other 4 1), (t_of_type_other 4 2); try lia; try first [apply type_e1c | apply type_e2c]; try reflexivity. }
    rewrite (flat_map_ext_in' (fun c => t_of_type 4 (map (flip 3) (e1c ps ns rs c) ++ map (flip 4) (e2c ps ns rs c))) (fun c => map (flip 4) (e2c ps ns rs c))).
    2:{ intros c _. rewrite t_of_type_app, (t_of_type_same 4 (map (flip 4) (e2c ps ns rs c))), (t_of_type_other 4 3); try lia; try first [apply type_e3c | apply type_e4c]; try reflexivity. }
    rewrite !flat_map_nil'. cbn [app]. rewrite flat_map_map_out, cat2. reflexivity.
  Qed.

  Lemma len_E1 : length E1 = n3.
  Proof. unfold E1. rewrite map_length, seq_length. reflexivity. Qed.
  Lemma len_E2 : length E2 = n4.
  Proof. unfold E2. rewrite map_length, seq_length. reflexivity. Qed.
  Lemma len_cbbF : length (cbbF ps rs) = n4.
  Proof. unfold cbbF. apply map_length. Qed.
  Lemma nth_E1 j : j < n3 -> nth j E1 (0, 0, 0) = m1 j.
  Proof. intros H. unfold E1. rewrite (nth_indep _ (0, 0, 0) (m1 0)) by (rewrite map_length, seq_length; exact H). rewrite (map_nth m1), seq_nth by exact H. reflexivity. Qed.
  Lemma nth_E2 i : i < n4 -> nth i E2 (0, 0, 0) = m2 i.
  Proof. intros H. unfold E2. rewrite (nth_indep _ (0, 0, 0) (m2 0)) by (rewrite map_length, seq_length; exact H). rewrite (map_nth m2), seq_nth by exact H. reflexivity. Qed.
  Lemma nth_E3 j : j < n3 -> nth j (map (flip 3) E1) (0, 0, 0) = flip 3 (m1 j).
  Proof. intros H. rewrite (nth_indep _ (0, 0, 0) (flip 3 (0, 0, 0))) by (rewrite map_length, len_E1; exact H). rewrite (map_nth (flip 3)), nth_E1 by exact H. reflexivity. Qed.
  Lemma nth_E4 i : i < n4 -> nth i (map (flip 4) E2) (0, 0, 0) = flip 4 (m2 i).
  Proof. intros H. rewrite (nth_indep _ (0, 0, 0) (flip 4 (0, 0, 0))) by (rewrite map_length, len_E2; exact H). rewrite (map_nth (flip 4)), nth_E2 by exact H. reflexivity. Qed.
  Lemma nth_cbbF i : i < n4 -> nth i (cbbF ps rs) 0 = bp_ofF ps rs (par_ofF ps (nth i chi 0)).
  Proof.
    intros H. unfold cbbF. rewrite (nth_indep _ 0 ((fun b => bp_ofF ps rs (par_ofF ps b)) 0)) by (rewrite map_length; exact H).
    rewrite (map_nth (fun b => bp_ofF ps rs (par_ofF ps b))). reflexivity.
  Qed.

  (* the slot of compartment r of branch b *)
  Lemma mask_atF b r : b < nbL -> r < ncomp_of ns b -> mask (tcs ns b + r) = cs_ofF ps ns rs b + r.
  Proof.
    intros Hb Hr. unfold nthD, mask_ofF.
    set (f := fun b => map (fun r => cs_ofF ps ns rs b + r) (seq 0 (ncomp_of ns b))).
    assert (E : tcs ns b = fold_right Nat.add 0 (map (fun b' => length (f b')) (seq 0 b))).
    { unfold tcs. f_equal. apply map_ext. intros a. unfold f. rewrite map_length, seq_length. reflexivity. }
    rewrite E. rewrite (nth_flat_map_seq f 0 nbL b r Hb) by (unfold f; rewrite map_length, seq_length; exact Hr).
    unfold f. rewrite (nth_indep _ 0 ((fun r => cs_ofF ps ns rs b + r) 0)) by (rewrite map_length, seq_length; exact Hr).
    rewrite (map_nth (fun r => cs_ofF ps ns rs b + r)), seq_nth by exact Hr. reflexivity.
  Qed.

  Theorem forest_asm_struct (es : list (edge R)) : map strip es = triples_ofF ps ns rs ->
    asm_struct ly tp mask es (group_ofF ps rs) chi pin.
  Proof.
    intros E.
    assert (L : forall t, length (of_type R t es) = length (t_of_type t (triples_ofF ps ns rs))) by (intros t; rewrite length_of_type, E; reflexivity).
    assert (Sk : forall t idx, e_sink R (nth idx (of_type R t es) e0) = t_sink (nth idx (t_of_type t (triples_ofF ps ns rs)) (0, 0, 0)))
      by (intros t idx; rewrite sink_of_type, E; reflexivity).
    constructor.
    - rewrite L, blockF2, len_E2. reflexivity.
    - rewrite L, blockF4, map_length, len_E2. reflexivity.
    - rewrite L, blockF1, len_E1. reflexivity.
    - rewrite L, blockF3, map_length, len_E1. reflexivity.
    - unfold group_ofF. rewrite app_length, seq_length, len_cbbF. reflexivity.
    - unfold child_inds_ofF. apply NoDup_filter, seq_NoDup.
    - intros idx Hi. rewrite Sk, blockF2, nth_E2 by exact Hi. unfold mk2. cbn [t_sink fst snd].
      destruct (nth_chi idx Hi) as [Hb _]. pose proof (counts _ Hb) as Hc.
      replace (tcs ns (nth idx chi 0)) with (tcs ns (nth idx chi 0) + 0) by lia. rewrite mask_atF; [cbn [cs layout_ofF]; lia | exact Hb | exact Hc].
    - intros idx Hi. rewrite Sk, blockF1, nth_E1 by exact Hi. unfold mk1. cbn [t_sink fst snd].
      destruct (nth_pin idx Hi) as (Hp & _ & _). set (p := nth idx pin 0) in *. pose proof (counts p Hp) as Hc. fold (ncomp_of ns p) in Hc.
      replace (p + 1) with (S p) by lia. rewrite (tcs_S ps ns nb_pos). replace (tcs ns p + ncomp_of ns p - 1) with (tcs ns p + (ncomp_of ns p - 1)) by lia.
      rewrite mask_atF; [cbn [cs nc layout_ofF]; reflexivity | exact Hp | lia].
    - intros idx Hi. destruct (nth_pin idx Hi) as (Hp & Hf & Hr). cbn [cbp topo_ofF]. rewrite Hf.
      unfold group_ofF. rewrite app_nth1 by (rewrite seq_length; exact Hi). rewrite seq_nth by exact Hi. f_equal. exact Hr.
    - intros idx Hi. destruct (nth_chi idx Hi) as [Hb Hr]. cbn [pbp topo_ofF]. rewrite Hr.
      unfold group_ofF. rewrite app_nth2 by (rewrite seq_length; lia). rewrite seq_length. replace (n3 + idx - n3) with idx by lia.
      rewrite nth_cbbF by exact Hi. reflexivity.
    - intros c j Hc Hp. cbn [nb topo_ofF] in Hc. cbn [pbp topo_ofF] in Hp. destruct (is_root rs c) eqn:Er; [discriminate|].
      unfold child_inds_ofF. apply filter_In. split; [apply in_seq; unfold nbrF in Hc; lia | rewrite Er; reflexivity].
    - intros j Hj. cbn [nbp topo_ofF] in Hj. cbn [kids topo_ofF]. destruct (nth_rank hk nbL j Hj) as (Hp & Hf & _).
      apply (hk_specF ps rs nb_pos) in Hf. destruct Hf as (c & Hc1 & Hc2 & Hc3).
      intros N. assert (Hin : In c (kids_ofF ps rs (nth j (parents_with_kidsF ps rs) 0))) by (apply (kids_specF ps rs); auto). rewrite N in Hin. destruct Hin.
  Qed.
End Forest.
