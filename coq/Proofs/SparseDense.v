(* The dense matrix the harness compares with the code (sp_dense: entry (i, j) of Model/SparseAsm.v) applied to a
   vector is sp_row, the form the theorems of SparseFacts use: row i . z = diagonal_i z_i - sum over the edges into
   i of dt g z_source, as soon as no edge is a self-loop and every source is a node. *)
From Coq Require Import Reals List Arith Bool Lia Lra.
From JV Require Import HinesArr SparseAsm AssembleM.
Import ListNotations.
Local Open Scope R_scope.

Definition rsum (f : nat -> R) (n : nat) : R := fold_right Rplus 0 (map f (seq 0 n)).

Lemma rsum_S f n : rsum f (S n) = rsum f n + f n.
Proof.
  unfold rsum. rewrite seq_S, map_app. cbn [map Nat.add]. generalize (map f (seq 0 n)). intros l.
  induction l as [|x l IH]; cbn [app fold_right]; [lra | rewrite IH; lra].
Qed.
Lemma rsum_plus f h n : rsum (fun j => f j + h j) n = rsum f n + rsum h n.
Proof. induction n as [|n IH]; [unfold rsum; cbn; lra | rewrite !rsum_S, IH; lra]. Qed.
Lemma rsum_ext f h n : (forall j, (j < n)%nat -> f j = h j) -> rsum f n = rsum h n.
Proof. induction n as [|n IH]; intros H; [reflexivity | rewrite !rsum_S, IH, (H n) by (try lia; intros; apply H; lia); reflexivity]. Qed.
Lemma rsum_zero n : rsum (fun _ => 0) n = 0.
Proof. induction n as [|n IH]; [reflexivity | rewrite rsum_S, IH; lra]. Qed.
Lemma rsum_single a c n : (a < n)%nat -> rsum (fun j => if (j =? a)%nat then c else 0) n = c.
Proof.
  induction n as [|n IH]; intros H; [lia|]. rewrite rsum_S. destruct (Nat.eq_dec a n) as [->|Hne].
  - rewrite Nat.eqb_refl. rewrite (rsum_ext _ (fun _ => 0)); [rewrite rsum_zero; lra|]. intros j Hj. destruct (Nat.eqb_spec j n); [lia | reflexivity].
  - rewrite IH by lia. destruct (Nat.eqb_spec n a); [lia | lra].
Qed.

Section Dense.
  Variables (ncomp n_nodes : nat) (es : list (edge R)) (vt : nat -> R) (dt : R) (z : nat -> R).
  Notation g := (e_g R).
  Notation src := (e_source R).
  Notation snk := (e_sink R).
  Hypothesis no_loop : forall e, In e es -> src e <> snk e.
  Hypothesis src_node : forall e, In e es -> (src e < n_nodes)%nat.

  Notation entry := (sp_entry R Rplus Rminus Rmult 0 1 ncomp es vt dt).
  Notation diag := (sp_diag R Rplus Rmult 0 1 ncomp es vt dt).

  (* the off-diagonal part of row i applied to z *)
  Lemma off_part i : forall l, (forall e, In e l -> src e <> snk e) -> (forall e, In e l -> (src e < n_nodes)%nat) ->
    rsum (fun j => if (i =? j)%nat then 0 else sp_off R Rplus Rminus Rmult 0 l dt i j * z j) n_nodes
    = - wsum (fun e => dt * g e * z (src e)) (fun e => (snk e =? i)%nat) l.
  Proof.
    induction l as [|e l IH]; intros NL SN.
    - unfold sp_off, sp_sum. cbn [fold_right wsum]. rewrite (rsum_ext _ (fun _ => 0)); [rewrite rsum_zero; lra|].
      intros j _. destruct (i =? j)%nat; lra.
    - assert (Hs : (src e < n_nodes)%nat) by (apply SN; now left). assert (Hl : src e <> snk e) by (apply NL; now left).
      set (c := - (if (snk e =? i)%nat then dt * g e * z (src e) else 0)).
      transitivity (rsum (fun j => (if (j =? src e)%nat then c else 0)
                                   + (if (i =? j)%nat then 0 else sp_off R Rplus Rminus Rmult 0 l dt i j * z j)) n_nodes).
      + apply rsum_ext. intros j Hj. unfold sp_off, sp_sum. cbn [fold_right]. unfold c.
        destruct (Nat.eqb_spec i j) as [->|Hij].
        * destruct (Nat.eqb_spec j (src e)) as [->|]; [|lra]. destruct (Nat.eqb_spec (snk e) (src e)); [congruence | lra].
        * destruct (Nat.eqb_spec (snk e) i) as [Es|Ns]; cbn [andb].
          -- destruct (Nat.eqb_spec (src e) j) as [Ej|Nj]; destruct (Nat.eqb_spec j (src e)); try congruence; [subst; ring | lra].
          -- destruct (Nat.eqb_spec j (src e)); lra.
      + rewrite rsum_plus, (rsum_single (src e) c n_nodes Hs). rewrite IH by (intros; first [apply NL; now right | apply SN; now right]).
        cbn [wsum fold_right]. fold (wsum (fun e => dt * g e * z (src e)) (fun e => (snk e =? i)%nat) l). unfold c. lra.
  Qed.

  (* row i of the dense matrix applied to z *)
  Theorem dense_row_is_sp_row i : (i < n_nodes)%nat ->
    rsum (fun j => entry i j * z j) n_nodes = sp_row R Rplus Rminus Rmult 0 1 ncomp es vt dt z i.
  Proof.
    intros Hi.
    rewrite (rsum_ext _ (fun j => (if (j =? i)%nat then diag i * z i else 0)
                                  + (if (i =? j)%nat then 0 else sp_off R Rplus Rminus Rmult 0 es dt i j * z j))).
    - rewrite rsum_plus, (rsum_single i _ n_nodes Hi), (off_part i es no_loop src_node). unfold sp_row.
      change (sp_sum R Rplus 0 (fun e => dt * g e * z (src e)) (fun e => (snk e =? i)%nat) es)
        with (wsum (fun e => dt * g e * z (src e)) (fun e => (snk e =? i)%nat) es). lra.
    - intros j Hj. unfold sp_entry. destruct (Nat.eqb_spec i j) as [->|Hij].
      + rewrite Nat.eqb_refl. lra.
      + destruct (Nat.eqb_spec j i); [congruence | lra].
  Qed.
End Dense.
