(* The node set of a cell of a network is closed under the edges of the network's edge table: if every non-root
   branch lies in the cell of its parent (true of every jaxley network: a cell's branches are numbered contiguously
   after its root), no edge of Model/AsmIdxF.v joins two cells.  With ForestIndep: for EVERY network, the voltages of
   a cell after an implicit step do not depend on anything in the other cells. *)
From Coq Require Import Reals List Arith Bool Lia Lra.
From JV Require Import HinesArr HinesCheck HinesArrFacts HinesArrPositive HinesIdx HinesIdxFacts HinesIdxF HinesIdxFFacts AsmStruct AssembleM AssembleTotal AsmIdx AsmIdxFacts
     AssembleGraph AsmGraphFacts AsmIdxF AsmIdxFFacts AsmGraphFFacts GraphIndep ForestIndep.
Import ListNotations.

Section Cells.
  Variables (ps ns : list nat) (rs : list bool).
  Hypothesis nb_pos : 1 <= length ps.
  Hypothesis sortedF : forall b, b < length ps -> is_root rs b = false -> nth b ps 0 < b.
  Hypothesis counts : forall b, b < length ps -> 1 <= nth b ns 0.
  Hypothesis samecell : forall b, b < length ps -> is_root rs b = false -> cell_ofF rs (nth b ps 0) = cell_ofF rs b.

  Notation nbL := (length ps).
  Notation tot := (total ps ns).
  Notation pin := (par_inds_ofF ps rs).
  Notation chi := (child_inds_ofF ps rs).

  (* the branch of a compartment; the cell of a node (compartments first, then branch points) *)
  Definition branch_of (c : nat) : nat := length (filter (fun b => tcs ns (S b) <=? c) (seq 0 nbL)).
  Definition node_cell (n : nat) : nat :=
    if n <? tot then cell_ofF rs (branch_of n) else cell_ofF rs (nth (n - tot) pin 0).

  Lemma branch_of_at b r : b < nbL -> r < ncomp_of ns b -> branch_of (tcs ns b + r) = b.
  Proof.
    intros Hb Hr. unfold branch_of. replace nbL with (b + (nbL - b)) by lia. rewrite seq_app, filter_app, app_length.
    rewrite filter_all, filter_none, seq_length; [cbn [length]; lia | |].
    - intros x Hx. apply in_seq in Hx. apply Nat.leb_gt. pose proof (tcs_mono ps ns nb_pos (S b) (S x) ltac:(lia)) as M.
      rewrite (tcs_S ps ns nb_pos b) in M. lia.
    - intros x Hx. apply in_seq in Hx. apply Nat.leb_le. pose proof (tcs_mono ps ns nb_pos (S x) b ltac:(lia)). lia.
  Qed.

  Lemma node_cell_comp b r : b < nbL -> r < ncomp_of ns b -> node_cell (tcs ns b + r) = cell_ofF rs b.
  Proof.
    intros Hb Hr. unfold node_cell. pose proof (tcs_lt_total ps ns nb_pos b r Hb Hr) as Hl.
    destruct (Nat.ltb_spec (tcs ns b + r) tot); [|lia]. rewrite branch_of_at by assumption. reflexivity.
  Qed.
  Lemma node_cell_bp j : node_cell (tot + j) = cell_ofF rs (nth j pin 0).
  Proof. unfold node_cell. destruct (Nat.ltb_spec (tot + j) tot); [lia|]. replace (tot + j - tot) with j by lia. reflexivity. Qed.

  Lemma mk1_closed j : j < length pin -> node_cell (fst (fst (mk1 ps ns rs j))) = node_cell (t_sink (mk1 ps ns rs j)).
  Proof.
    intros Hj. unfold mk1. cbn [fst snd t_sink]. rewrite node_cell_bp. destruct (nth_pin ps rs j Hj) as (Hp & _ & _).
    set (p := nth j pin 0) in *. pose proof (counts p Hp) as Hc. fold (ncomp_of ns p) in Hc.
    replace (p + 1) with (S p) by lia. rewrite (tcs_S ps ns nb_pos). replace (tcs ns p + ncomp_of ns p - 1) with (tcs ns p + (ncomp_of ns p - 1)) by lia.
    rewrite node_cell_comp by (auto; lia). reflexivity.
  Qed.
  Lemma mk2_closed i : i < length chi -> node_cell (fst (fst (mk2 ps ns rs i))) = node_cell (t_sink (mk2 ps ns rs i)).
  Proof.
    intros Hi. unfold mk2. cbn [fst snd t_sink]. rewrite node_cell_bp. destruct (nth_chi ps rs i Hi) as (Hb & Hr).
    set (c := nth i chi 0) in *. pose proof (counts c Hb) as Hc. fold (ncomp_of ns c) in Hc.
    replace (tcs ns c) with (tcs ns c + 0) by lia. rewrite node_cell_comp by (auto; lia).
    rewrite (nth_cbbF ps rs i Hi). fold c. pose proof (sortedF c Hb Hr) as Hs. fold (par_ofF ps c) in Hs.
    assert (Hk : has_kidsF ps rs (par_ofF ps c) = true) by (apply (hk_specF ps rs nb_pos); exists c; auto).
    destruct (rank_nth (has_kidsF ps rs) nbL (par_ofF ps c) ltac:(lia) Hk) as [_ R2].
    change (bp_ofF ps rs (par_ofF ps c)) with (rank (has_kidsF ps rs) (par_ofF ps c)). unfold par_inds_ofF, parents_with_kidsF, nbrF. rewrite R2.
    apply samecell; assumption.
  Qed.

  Theorem cells_closed t : In t (triples_ofF ps ns rs) -> node_cell (fst (fst t)) = node_cell (t_sink t).
  Proof.
    unfold triples_ofF. intros H. apply in_app_or in H. destruct H as [H|H].
    - destruct (edge0_shape ps ns nb_pos _ H) as (b & r & Hb & Hr & [->| ->]); cbn [fst snd t_sink].
      + replace (tcs ns b + r + 1) with (tcs ns b + (r + 1)) by lia. rewrite !node_cell_comp by (auto; lia). reflexivity.
      + replace (tcs ns b + r + 1) with (tcs ns b + (r + 1)) by lia. rewrite !node_cell_comp by (auto; lia). reflexivity.
    - apply in_app_or in H. destruct H as [H|H]; apply in_flat_map in H; destruct H as (c & _ & H); apply in_app_or in H; destruct H as [H|H].
      + unfold e1c in H. apply in_map_iff in H. destruct H as (j & <- & Hj). apply filter_In in Hj. destruct Hj as [Hj _]. apply in_seq in Hj. apply mk1_closed. lia.
      + unfold e2c in H. apply in_map_iff in H. destruct H as (i & <- & Hi). apply filter_In in Hi. destruct Hi as [Hi _]. apply in_seq in Hi. apply mk2_closed. lia.
      + apply in_map_iff in H. destruct H as (t0 & <- & H). unfold e1c in H. apply in_map_iff in H. destruct H as (j & <- & Hj). apply filter_In in Hj. destruct Hj as [Hj _]. apply in_seq in Hj.
        unfold flip. cbn [fst snd t_sink]. symmetry. apply (mk1_closed j). lia.
      + apply in_map_iff in H. destruct H as (t0 & <- & H). unfold e2c in H. apply in_map_iff in H. destruct H as (i & <- & Hi). apply filter_In in Hi. destruct Hi as [Hi _]. apply in_seq in Hi.
        unfold flip. cbn [fst snd t_sink]. symmetry. apply (mk2_closed i). lia.
  Qed.
End Cells.

Local Open Scope R_scope.

(* ---- EVERY NETWORK: a cell does not feel the other cells ----
   two assignments of conductances / voltages / membrane terms to the same network that agree on cell k (its
   compartments, and the edges ending in its nodes) give the same voltages in cell k after an implicit step *)
Theorem network_cells_independent (ps ns : list nat) (rs : list bool) (es es' : list (edge R)) (v vt ct v' vt' ct' : nat -> R) (dt : R) (k : nat) :
  (1 <= length ps)%nat -> (forall b, (b < length ps)%nat -> is_root rs b = false -> (nth b ps 0 < b)%nat) ->
  (forall b, (b < length ps)%nat -> (1 <= nth b ns 0)%nat) ->
  (forall b, (b < length ps)%nat -> is_root rs b = false -> cell_ofF rs (nth b ps 0%nat) = cell_ofF rs b) ->
  map strip es = triples_ofF ps ns rs -> map strip es' = triples_ofF ps ns rs ->
  0 < dt -> (forall e, In e es -> 0 < e_g R e) -> (forall e, In e es' -> 0 < e_g R e) ->
  (forall i, (i < total ps ns)%nat -> 0 <= vt i) -> (forall i, (i < total ps ns)%nat -> 0 <= vt' i) ->
  (forall idx, (idx < length es)%nat -> node_cell ps ns rs (e_sink R (nth idx es e0)) = k -> e_g R (nth idx es e0) = e_g R (nth idx es' e0)) ->
  (forall b r, (b < length ps)%nat -> (r < ncomp_of ns b)%nat -> cell_ofF rs b = k ->
     let c := (tcs ns b + r)%nat in v c = v' c /\ vt c = vt' c /\ ct c = ct' c) ->
  let ly := layout_ofF ps ns rs in let ops := ops_of_forest ps ns rs in
  let mask := nthD (mask_ofF ps ns rs) in let n := total ps ns in
  let s0 := assemble R Rplus Rminus Rmult 0 1 mask n es v vt ct dt (group_ofF ps rs) (child_inds_ofF ps rs) (par_inds_ofF ps rs) in
  let s0' := assemble R Rplus Rminus Rmult 0 1 mask n es' v' vt' ct' dt (group_ofF ps rs) (child_inds_ofF ps rs) (par_inds_ofF ps rs) in
  forall b r, (b < length ps)%nat -> (r < ncomp_of ns b)%nat -> cell_ofF rs b = k ->
  sv (runR ly ops s0) (cs_ofF ps ns rs b + r)%nat = sv (runR ly ops s0') (cs_ofF ps ns rs b + r)%nat.
Proof.
  intros H1 H2 H3 H4 E E' Hdt Hg Hg' Hvt Hvt' Gk Dk ly ops mask n s0 s0' b r Hb Hr Hk.
  set (inS := fun nd => (node_cell ps ns rs nd =? k)%nat).
  apply (network_parts_independent ps ns rs es es' v vt ct v' vt' ct' dt inS H1 H2 H3 E E' Hdt Hg Hg' Hvt Hvt'); try assumption.
  - (* Forall2 from the two strip equations *)
    assert (L : length es = length es') by (rewrite <- (map_length strip es), <- (map_length strip es'), E, E'; reflexivity).
    assert (St : forall idx, strip (nth idx es e0) = strip (nth idx es' e0)).
    { intros idx. change (strip e0) with (strip e0). rewrite <- !(map_nth strip). rewrite E, E'. reflexivity. }
    assert (Cl : forall e, In e es -> inS (e_source R e) = inS (e_sink R e)).
    { intros e He. unfold inS. f_equal. assert (Hin : In (strip e) (triples_ofF ps ns rs)) by (rewrite <- E; apply in_map, He).
      apply (cells_closed ps ns rs H1 H2 H3 H4 _ Hin). }
    clear -L St Cl Gk. revert es' L St Gk Cl. induction es as [|e l IH]; intros [|e' l'] L St Gk Cl; try discriminate; constructor.
    + split; [exact (St 0%nat)|]. split; [apply Cl; now left|]. intros Hs. unfold inS in Hs. apply Nat.eqb_eq in Hs. apply (Gk 0%nat); [cbn; lia | exact Hs].
    + apply IH.
      * cbn in L. lia.
      * intros idx. exact (St (S idx)).
      * intros idx Hi Hs. apply (Gk (S idx)); [cbn; lia | exact Hs].
      * intros e1 He1. apply Cl. now right.
  - intros c Hc Hs. unfold inS in Hs. apply Nat.eqb_eq in Hs.
    destruct (comp_decomp ps ns H1 (length ps) c Hc) as (b0 & r0 & Hb0 & Hr0 & ->).
    rewrite (node_cell_comp ps ns rs H1 b0 r0 Hb0 Hr0) in Hs. exact (Dk b0 r0 Hb0 Hr0 Hs).
  - unfold inS. rewrite (node_cell_comp ps ns rs H1 b r Hb Hr), Hk. apply Nat.eqb_refl.
Qed.

