(* If no channel writes a state that another channel reads or writes, the order in which the channels are
   updated does not matter (any permutation of the channel list gives the same states): this is the situation of
   all built-in channels, whose channel_states are pairwise disjoint (checked on the classes by the C12 harness).
   Without that condition the order matters (the pump / reversal-potential pattern behind F38). *)
From Coq Require Import List Arith Bool Reals Lra Permutation.
From JV Require Import ChannelOrder.
Import ListNotations.
Local Open Scope R_scope.

Lemma mem_In x l : mem x l = true <-> In x l.
Proof.
  unfold mem. rewrite existsb_exists. split.
  - intros (y & Hy & E). apply Nat.eqb_eq in E. subst. exact Hy.
  - intros H. exists x. split; [exact H | apply Nat.eqb_refl].
Qed.

(* the update of a channel depends only on the states it reads *)
Definition local (c : chan) : Prop :=
  forall s s', (forall n, In n (reads c) -> s n = s' n) -> forall n, In n (writes c) -> upd c s n = upd c s' n.

(* c does not write anything d reads or writes *)
Definition indep (c d : chan) : Prop := forall n, In n (writes c) -> ~ In n (reads d) /\ ~ In n (writes d).

Lemma apply_ext c s s' : local c -> (forall n, s n = s' n) -> forall n, apply_chan s c n = apply_chan s' c n.
Proof.
  intros L E n. unfold apply_chan. destruct (mem n (writes c)) eqn:M; [|apply E].
  apply L; [intros; apply E | apply mem_In, M].
Qed.

Lemma run_ext cs : Forall local cs -> forall s s', (forall n, s n = s' n) -> forall n, run_chans cs s n = run_chans cs s' n.
Proof.
  induction cs as [|c cs IH]; intros F s s' E n; [apply E|]. inversion F; subst. cbn [run_chans fold_left].
  apply IH; [assumption|]. apply apply_ext; assumption.
Qed.

Lemma swap_indep c d s : local c -> local d -> indep c d -> indep d c ->
  forall n, apply_chan (apply_chan s c) d n = apply_chan (apply_chan s d) c n.
Proof.
  intros Lc Ld Icd Idc n. unfold apply_chan at 1 3.
  destruct (mem n (writes d)) eqn:Md; destruct (mem n (writes c)) eqn:Mc.
  - exfalso. apply mem_In in Md, Mc. destruct (Icd n Mc) as [_ H]. contradiction.
  - (* only d writes n: d sees the same reads with or without c's update *)
    unfold apply_chan at 2. rewrite Md. apply Ld; [|apply mem_In, Md].
    intros m Hm. unfold apply_chan. destruct (mem m (writes c)) eqn:M; [|reflexivity].
    exfalso. apply mem_In in M. destruct (Icd m M) as [H _]. contradiction.
  - unfold apply_chan at 1. rewrite Mc. apply Lc; [|apply mem_In, Mc].
    intros m Hm. unfold apply_chan. destruct (mem m (writes d)) eqn:M; [|reflexivity].
    exfalso. apply mem_In in M. destruct (Idc m M) as [H _]. contradiction.
  - unfold apply_chan. rewrite Mc, Md. reflexivity.
Qed.

Definition pairwise_indep (cs : list chan) : Prop := forall c d, In c cs -> In d cs -> c <> d -> indep c d.

Theorem order_irrelevant cs cs' : Permutation cs cs' -> Forall local cs -> NoDup cs -> pairwise_indep cs ->
  forall s n, run_chans cs s n = run_chans cs' s n.
Proof.
  induction 1 as [|c l l' P IH|c d l|l l' l'' P1 IH1 P2 IH2]; intros F ND PI s n.
  - reflexivity.
  - inversion F; subst. inversion ND; subst. cbn [run_chans fold_left]. apply IH; auto.
    intros a b Ha Hb. apply PI; now right.
  - inversion F as [|? ? Fd F']; subst. inversion F' as [|? ? Fc F'']; subst.
    inversion ND as [|? ? Nd ND']; subst. inversion ND' as [|? ? Nc ND'']; subst.
    assert (Hne : d <> c) by (intros ->; apply Nd; now left).
    cbn [run_chans fold_left]. apply run_ext; [assumption|]. intros m.
    apply swap_indep; auto; apply PI; cbn; auto.
  - rewrite IH1 by assumption. apply IH2.
    + rewrite Forall_forall in *. intros x Hx. apply F. apply (Permutation_in _ (Permutation_sym P1) Hx).
    + apply (Permutation_NoDup P1 ND).
    + intros a b Ha Hb. apply PI; apply (Permutation_in _ (Permutation_sym P1)); assumption.
Qed.

(* the pump / reversal-potential pattern: channel 0 writes state 0, channel 1 derives state 1 from state 0 *)
Definition pump : chan := mkchan [0%nat] [0%nat] (fun s _ => s 0%nat + 1).
Definition nernst : chan := mkchan [0%nat] [1%nat] (fun s _ => 100 * s 0%nat).

Example order_matters_for_shared_states :
  run_chans [pump; nernst] (fun _ => 0) 1%nat = 100 /\ run_chans [nernst; pump] (fun _ => 0) 1%nat = 0 /\
  local pump /\ local nernst /\ ~ indep pump nernst.
Proof.
  split; [|split; [|split; [|split]]].
  - cbn. lra.
  - cbn. lra.
  - intros s s' E n _. cbn. rewrite (E 0%nat); [reflexivity | now left].
  - intros s s' E n _. cbn. rewrite (E 0%nat); [reflexivity | now left].
  - intros H. destruct (H 0%nat (or_introl eq_refl)) as [A _]. apply A. now left.
Qed.
