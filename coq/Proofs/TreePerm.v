(* Listing sibling subtrees in a different order changes nothing but the order of the
   results (C12): the pivot and right-hand side of the parent are the same, and every child
   receives the same value. *)
From Coq Require Import Reals Lra List Permutation.
From JV Require Import TreeSolve TreeSolveFacts.
Import ListNotations.
Local Open Scope R_scope.

Lemma S1_perm cs cs' : Permutation cs cs' -> S1 cs = S1 cs'.
Proof.
  unfold S1. induction 1 as [| x a a' P IH | x y a | a a' a'' P1 IH1 P2 IH2]; cbn [fold_right]; try lra.
Qed.
Lemma S2_perm cs cs' : Permutation cs cs' -> S2 cs = S2 cs'.
Proof.
  unfold S2. induction 1 as [| x a a' P IH | x y a | a a' a'' P1 IH1 P2 IH2]; cbn [fold_right]; try lra.
Qed.

Theorem reduce_sibling_order d u l b cs cs' :
  Permutation cs cs' -> reduceR (Node d u l b cs) = reduceR (Node d u l b cs').
Proof. intros P. rewrite !reduce_node. rewrite (S1_perm _ _ P), (S2_perm _ _ P). reflexivity. Qed.

(* the root value is the same, and the solutions of the children are the same, permuted *)
Theorem backsub_sibling_order d u l b cs cs' xp :
  Permutation cs cs' ->
  exists x, backsubR (Node d u l b cs) xp = SNode x (map (fun c => backsubR c x) cs) /\
            backsubR (Node d u l b cs') xp = SNode x (map (fun c => backsubR c x) cs') /\
            Permutation (map (fun c => backsubR c x) cs) (map (fun c => backsubR c x) cs').
Proof.
  intros P. rewrite !backsub_node. cbv zeta.
  rewrite <- (S1_perm _ _ P), <- (S2_perm _ _ P).
  eexists. split; [reflexivity|]. split; [reflexivity|]. apply Permutation_map. exact P.
Qed.

(* flattened: the multiset of all computed unknowns is unchanged *)
Corollary flatten_sibling_order d u l b cs cs' xp :
  Permutation cs cs' ->
  Permutation (flatten (backsubR (Node d u l b cs) xp)) (flatten (backsubR (Node d u l b cs') xp)).
Proof.
  intros P. destruct (backsub_sibling_order d u l b cs cs' xp P) as (x & E1 & E2 & Pm).
  rewrite E1, E2. cbn [flatten]. constructor.
  clear E1 E2. induction Pm; cbn [flat_map].
  - constructor.
  - apply Permutation_app_head. exact IHPm.
  - rewrite !app_assoc. apply Permutation_app_tail. apply Permutation_app_comm.
  - eapply Permutation_trans; eassumption.
Qed.

Local Close Scope R_scope.
From Coq Require Import Arith Lia.
(* assembly keeps every constituent row under contiguous indices *)
Lemma nth_concat_offset {A} (parts : list (list A)) c j d :
  c < length parts -> j < length (nth c parts []) ->
  nth (fold_right plus 0 (map (@length A) (firstn c parts)) + j) (concat parts) d = nth j (nth c parts []) d.
Proof.
  revert c. induction parts as [|p parts IH]; intros c Hc Hj; [cbn in Hc; lia|].
  destruct c as [|c].
  - cbn [firstn map fold_right concat nth] in *. rewrite app_nth1 by lia. reflexivity.
  - cbn [firstn map fold_right concat nth] in *. cbn [length] in Hc.
    rewrite app_nth2 by lia.
    replace (length p + fold_right plus 0 (map (@length A) (firstn c parts)) + j - length p)
      with (fold_right plus 0 (map (@length A) (firstn c parts)) + j) by lia.
    apply IH; [lia | exact Hj].
Qed.
Lemma concat_length_sum {A} (parts : list (list A)) :
  length (concat parts) = fold_right plus 0 (map (@length A) parts).
Proof. induction parts; cbn; [reflexivity|]. rewrite app_length, IHparts. reflexivity. Qed.
