(* Soundness, completeness (uniqueness) and pivot positivity of the tree elimination,
   over the reals. *)
From Coq Require Import Reals Lra List.
From JV Require Import TreeSolve.
Import ListNotations.
Local Open Scope R_scope.

Notation treeR := (tree R).
Notation solR := (sol R).
Notation reduceR := (reduce R Rminus Rmult Rdiv).
Notation backsubR := (backsub R Rminus Rmult Rdiv).
Notation pivotsR := (pivots R Rminus Rmult Rdiv).

(* custom induction principle for the nested inductive *)
Section tree_ind.
  Variable P : treeR -> Prop.
  Hypothesis H : forall d u l b cs, Forall P cs -> P (Node d u l b cs).
  Fixpoint tree_ind' (t : treeR) : P t :=
    match t with
    | Node d u l b cs =>
        H d u l b cs ((fix go (cs : list treeR) : Forall P cs :=
                         match cs with
                         | [] => Forall_nil P
                         | c :: cs' => Forall_cons c (tree_ind' c) (go cs')
                         end) cs)
    end.
End tree_ind.

(* sum over the children of l_c * x_c *)
Fixpoint row_sum (cs : list treeR) (ss : list solR) : R :=
  match cs, ss with
  | c :: cs', s :: ss' => t_l c * s_x s + row_sum cs' ss'
  | _, _ => 0
  end.

(* the vector s satisfies every equation of the subtree t, given the parent's value xp *)
Fixpoint satisfies (t : treeR) (xp : R) (s : solR) {struct t} : Prop :=
  match t, s with
  | Node d u l b cs, SNode x subs =>
      d * x + u * xp + row_sum cs subs = b /\
      (fix all (cs : list treeR) (ss : list solR) {struct cs} : Prop :=
         match cs, ss with
         | [], [] => True
         | c :: cs', sc :: ss' => satisfies c x sc /\ all cs' ss'
         | _, _ => False
         end) cs subs
  end.

Fixpoint all_sat (x : R) (cs : list treeR) (ss : list solR) : Prop :=
  match cs, ss with
  | [], [] => True
  | c :: cs', sc :: ss' => satisfies c x sc /\ all_sat x cs' ss'
  | _, _ => False
  end.

Lemma all_sat_eq x cs ss :
  (fix all (cs : list treeR) (ss : list solR) {struct cs} : Prop :=
     match cs, ss with
     | [], [] => True
     | c :: cs', sc :: ss' => satisfies c x sc /\ all cs' ss'
     | _, _ => False
     end) cs ss <-> all_sat x cs ss.
Proof.
  revert ss. induction cs as [|c cs IH]; intros [|s ss]; cbn; try tauto.
  rewrite IH. tauto.
Qed.

Lemma satisfies_unfold d u l b cs x subs xp :
  satisfies (Node d u l b cs) xp (SNode x subs) <->
  (d * x + u * xp + row_sum cs subs = b /\ all_sat x cs subs).
Proof. cbn [satisfies]. rewrite all_sat_eq. tauto. Qed.

(* characterisation of the fold in reduce *)
Definition S1 (cs : list treeR) : R :=
  fold_right (fun c acc => t_l c / fst (reduceR c) * t_u c + acc) 0 cs.
Definition S2 (cs : list treeR) : R :=
  fold_right (fun c acc => t_l c / fst (reduceR c) * snd (reduceR c) + acc) 0 cs.

Lemma reduce_fold cs d0 b0 :
  fold_left (fun (acc : R * R) (c : treeR) =>
               let (dc, bc) := reduceR c in
               let f := t_l c / dc in (fst acc - f * t_u c, snd acc - f * bc)) cs (d0, b0)
  = (d0 - S1 cs, b0 - S2 cs).
Proof.
  revert d0 b0. induction cs as [|c cs IH]; intros d0 b0; cbn [fold_left].
  - unfold S1, S2. cbn [fold_right]. f_equal; ring.
  - destruct (reduceR c) as [dc bc] eqn:E. cbn [fst snd]. rewrite IH.
    unfold S1, S2. cbn [fold_right]. rewrite E. cbn [fst snd]. f_equal; ring.
Qed.

Lemma reduce_node d u l b cs :
  reduceR (Node d u l b cs) = (d - S1 cs, b - S2 cs).
Proof. cbn [reduce]. apply reduce_fold. Qed.

Lemma backsub_node d u l b cs xp :
  backsubR (Node d u l b cs) xp =
  let x := (b - S2 cs - u * xp) / (d - S1 cs) in SNode x (map (fun c => backsubR c x) cs).
Proof.
  cbn [backsub]. rewrite reduce_node. reflexivity.
Qed.

Definition pivots_nonzero (t : treeR) : Prop := Forall (fun p => p <> 0) (pivotsR t).

Lemma pivots_node d u l b cs :
  pivotsR (Node d u l b cs) = (d - S1 cs) :: flat_map pivotsR cs.
Proof.
  cbn [pivots]. rewrite reduce_node. reflexivity.
Qed.

Lemma root_value t xp : s_x (backsubR t xp) = (snd (reduceR t) - t_u t * xp) / fst (reduceR t).
Proof. destruct t as [d u l b cs]. rewrite backsub_node, reduce_node. reflexivity. Qed.

(* ---- soundness ------------------------------------------------------------------ *)
Theorem backsub_sound : forall t xp, pivots_nonzero t -> satisfies t xp (backsubR t xp).
Proof.
  induction t as [d u l b cs IH] using tree_ind'. intros xp Hp.
  unfold pivots_nonzero in Hp. rewrite pivots_node in Hp.
  inversion Hp as [|? ? Hd Hrest]; subst.
  rewrite backsub_node. cbv zeta. set (x := (b - S2 cs - u * xp) / (d - S1 cs)).
  apply satisfies_unfold.
  assert (Hch : forall cs0, Forall (fun t => forall xp, pivots_nonzero t -> satisfies t xp (backsubR t xp)) cs0 ->
            Forall (fun p => p <> 0) (flat_map pivotsR cs0) ->
            all_sat x cs0 (map (fun c => backsubR c x) cs0) /\
            row_sum cs0 (map (fun c => backsubR c x) cs0) = S2 cs0 - x * S1 cs0).
  { induction cs0 as [|c cs0 IHc]; intros HF HP; cbn [map all_sat row_sum].
    - unfold S1, S2; cbn. split; [exact I | ring].
    - inversion HF as [|? ? Hc HF']; subst.
      cbn [flat_map] in HP. apply Forall_app in HP. destruct HP as [HPc HPr].
      destruct (IHc HF' HPr) as [A1 A2]. split.
      + split; [apply Hc; exact HPc | exact A1].
      + rewrite A2, root_value. unfold S1, S2. cbn [fold_right].
        destruct c as [dc uc lc bc ccs]. cbn [t_l t_u].
        unfold pivots_nonzero in HPc. rewrite pivots_node in HPc. inversion HPc as [|? ? Hdc _]; subst.
        rewrite !reduce_node. cbn [fst snd]. field. exact Hdc. }
  destruct (Hch cs IH Hrest) as [A1 A2]. split; [|exact A1].
  rewrite A2. unfold x. field. exact Hd.
Qed.

(* ---- completeness: any vector satisfying all equations is the computed one -------- *)
Theorem backsub_complete : forall t xp s, pivots_nonzero t -> satisfies t xp s -> s = backsubR t xp.
Proof.
  induction t as [d u l b cs IH] using tree_ind'. intros xp [x subs] Hp Hs.
  unfold pivots_nonzero in Hp. rewrite pivots_node in Hp.
  inversion Hp as [|? ? Hd Hrest]; subst.
  apply satisfies_unfold in Hs. destruct Hs as [Hrow Hall].
  assert (Hch : forall cs0 ss, Forall (fun t => forall xp s, pivots_nonzero t -> satisfies t xp s -> s = backsubR t xp) cs0 ->
            Forall (fun p => p <> 0) (flat_map pivotsR cs0) -> all_sat x cs0 ss ->
            ss = map (fun c => backsubR c x) cs0 /\ row_sum cs0 ss = S2 cs0 - x * S1 cs0).
  { induction cs0 as [|c cs0 IHc]; intros [|sc ss] HF HP HA; cbn in HA; try contradiction.
    - unfold S1, S2; cbn. split; [reflexivity | ring].
    - inversion HF as [|? ? Hc HF']; subst.
      cbn [flat_map] in HP. apply Forall_app in HP. destruct HP as [HPc HPr].
      destruct HA as [HA1 HA2]. destruct (IHc ss HF' HPr HA2) as [B1 B2].
      pose proof (Hc x sc HPc HA1) as E. subst sc. split.
      + cbn [map]. rewrite <- B1. reflexivity.
      + cbn [row_sum]. rewrite B2, root_value. unfold S1, S2. cbn [fold_right].
        destruct c as [dc uc lc bc ccs]. cbn [t_l t_u].
        unfold pivots_nonzero in HPc. rewrite pivots_node in HPc. inversion HPc as [|? ? Hdc _]; subst.
        rewrite !reduce_node. cbn [fst snd]. field. exact Hdc. }
  destruct (Hch cs subs IH Hrest Hall) as [B1 B2].
  rewrite backsub_node. cbv zeta.
  assert (Hx : x = (b - S2 cs - u * xp) / (d - S1 cs)).
  { rewrite B2 in Hrow. apply Rmult_eq_reg_r with (d - S1 cs); [|exact Hd].
    replace ((b - S2 cs - u * xp) / (d - S1 cs) * (d - S1 cs)) with (b - S2 cs - u * xp) by (field; exact Hd).
    lra. }
  rewrite <- Hx. rewrite B1. reflexivity.
Qed.

(* ---- pivots are positive for M-matrix-like rows ------------------------------------ *)
Definition lsum (cs : list treeR) : R := fold_right (fun c acc => t_l c + acc) 0 cs.

(* non-positive off-diagonals, weak row dominance, and a strictly positive diagonal
   excess over the couplings to the children *)
Fixpoint dominant (t : treeR) : Prop :=
  match t with
  | Node d u l b cs =>
      u <= 0 /\ l <= 0 /\ 0 <= d + u + lsum cs /\ 0 < d + lsum cs /\
      (fix all (cs : list treeR) : Prop := match cs with [] => True | c :: cs' => dominant c /\ all cs' end) cs
  end.
Fixpoint all_dom (cs : list treeR) : Prop :=
  match cs with [] => True | c :: cs' => dominant c /\ all_dom cs' end.
Lemma dominant_unfold d u l b cs :
  dominant (Node d u l b cs) <->
  (u <= 0 /\ l <= 0 /\ 0 <= d + u + lsum cs /\ 0 < d + lsum cs /\ all_dom cs).
Proof.
  cbn [dominant]. assert (E : forall cs0, (fix all (cs : list treeR) : Prop := match cs with [] => True | c :: cs' => dominant c /\ all cs' end) cs0 <-> all_dom cs0).
  { induction cs0; cbn; tauto. }
  rewrite E. tauto.
Qed.

Lemma term_bound l u p : l <= 0 -> u <= 0 -> 0 < p -> - u <= p -> l / p * u <= - l.
Proof.
  intros Hl Hu Hp Hup.
  replace (l / p * u) with ((- l) * ((- u) / p)) by (field; lra).
  assert (H1 : (- u) / p <= 1).
  { apply Rmult_le_reg_r with p; [lra|]. replace (- u / p * p) with (- u) by (field; lra). lra. }
  assert (H0 : 0 <= (- u) / p) by (apply Rle_mult_inv_pos; lra).
  nra.
Qed.

Theorem pivots_positive : forall t, dominant t ->
  t_d t + lsum (t_children t) <= fst (reduceR t) /\ Forall (fun p => 0 < p) (pivotsR t).
Proof.
  induction t as [d u l b cs IH] using tree_ind'. intros Hd.
  destruct (proj1 (dominant_unfold d u l b cs) Hd) as (Hu & Hl & Hs & Hpos & Hall).
  assert (Hch : forall cs0, Forall (fun t => dominant t ->
                 t_d t + lsum (t_children t) <= fst (reduceR t) /\ Forall (fun p => 0 < p) (pivotsR t)) cs0 ->
            all_dom cs0 -> S1 cs0 <= - lsum cs0 /\ Forall (fun p => 0 < p) (flat_map pivotsR cs0)).
  { induction cs0 as [|c cs0 IHc]; intros HF HA; cbn in HA.
    - unfold S1, lsum; cbn. split; [lra | constructor].
    - inversion HF as [|? ? Hc HF']; subst. destruct HA as [HA1 HA2].
      destruct (IHc HF' HA2) as [B1 B2]. destruct (Hc HA1) as [C1 C2].
      destruct c as [dc uc lc bc ccs].
      destruct (proj1 (dominant_unfold dc uc lc bc ccs) HA1) as (Huc & Hlc & Hsc & Hposc & _). cbn [t_d t_children] in C1.
      unfold S1, lsum in *. cbn [fold_right t_l t_u]. split.
      + assert (T : lc / fst (reduceR (Node dc uc lc bc ccs)) * uc <= - lc) by (apply term_bound; lra).
        lra.
      + cbn [flat_map]. apply Forall_app. split; assumption. }
  destruct (Hch cs IH Hall) as [B1 B2].
  rewrite reduce_node, pivots_node. cbn [fst t_d t_children]. split; [lra|].
  constructor; [lra | exact B2].
Qed.

Corollary dominant_pivots_nonzero t : dominant t -> pivots_nonzero t.
Proof.
  intros H. destruct (pivots_positive t H) as [_ P]. unfold pivots_nonzero.
  eapply Forall_impl; [|exact P]. intros a Ha. lra.
Qed.

(* the computed vector is THE solution: it satisfies every equation, and every vector
   that satisfies every equation equals it *)
Theorem tree_solve_unique_solution t xp :
  dominant t ->
  satisfies t xp (backsubR t xp) /\ (forall s, satisfies t xp s -> s = backsubR t xp).
Proof.
  intros H. pose proof (dominant_pivots_nonzero t H) as P. split.
  - apply backsub_sound; exact P.
  - intros s Hs. apply backsub_complete; assumption.
Qed.
