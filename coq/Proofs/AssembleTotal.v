(* C01, array level, closing the chain for a given index structure: if the verified schedule checker
   accepts the structure and the decidable consistency check of Model/AsmStruct.v accepts the index
   lists of the assembly, then for ALL positive conductances, all non-negative membrane terms, all
   voltages and every dt > 0 the implicit step divides by nothing that vanishes and returns THE
   solution of the assembled system. *)
From Coq Require Import Reals List Arith Bool Lia Lra.
From JV Require Import HinesArr HinesCheck HinesArrFacts HinesArrPositive AsmStruct AssembleM.
Import ListNotations.
Local Open Scope R_scope.

Lemma strip_of_type t (es : list (edge R)) : map strip (of_type R t es) = t_of_type t (map strip es).
Proof.
  unfold of_type, t_of_type. induction es as [|e es IH]; cbn [filter map]; [reflexivity|].
  unfold t_type at 1, strip at 2. cbn [snd]. destruct (e_type R e =? t)%nat; cbn [map]; rewrite IH; reflexivity.
Qed.

Lemma length_of_type t (es : list (edge R)) : length (of_type R t es) = length (t_of_type t (map strip es)).
Proof. rewrite <- strip_of_type, map_length. reflexivity. Qed.

Lemma sink_of_type t (es : list (edge R)) idx :
  e_sink R (nth idx (of_type R t es) e0) = t_sink (nth idx (t_of_type t (map strip es)) (0, 0, 0)%nat).
Proof. rewrite <- strip_of_type. change (0, 0, 0)%nat with (strip e0). rewrite map_nth. reflexivity. Qed.

Lemma nodupb_sound l : nodupb l = true -> NoDup l.
Proof.
  induction l as [|x r IH]; intros H; [constructor|]. cbn [nodupb] in H. apply andb_true_iff in H. destruct H as [H1 H2].
  constructor; [|apply IH, H2]. intros C. apply negb_true_iff in H1.
  assert (existsb (Nat.eqb x) r = true) by (apply existsb_exists; exists x; split; [exact C | apply Nat.eqb_refl]). congruence.
Qed.

Lemma oeqb_sound a b : oeqb a b = true -> a = b.
Proof. destruct a, b; cbn; intros H; try discriminate; [apply Nat.eqb_eq in H; congruence | reflexivity]. Qed.

Lemma forallb_seq f n : forallb f (seq 0 n) = true -> forall i, (i < n)%nat -> f i = true.
Proof. intros H i Hi. rewrite forallb_forall in H. apply H, in_seq. lia. Qed.

Theorem asm_struct_b_sound ly tp mask (es : list (edge R)) group child_inds par_inds :
  asm_struct_b ly tp mask (map strip es) group child_inds par_inds = true ->
  asm_struct ly tp mask es group child_inds par_inds.
Proof.
  unfold asm_struct_b. intros H.
  repeat (apply andb_true_iff in H; destruct H as [H ?]).
  repeat match goal with X : (_ =? _)%nat = true |- _ => apply Nat.eqb_eq in X end.
  constructor.
  - rewrite length_of_type. assumption.
  - rewrite length_of_type. assumption.
  - rewrite length_of_type. assumption.
  - rewrite length_of_type. assumption.
  - assumption.
  - apply nodupb_sound. assumption.
  - intros idx Hi. rewrite sink_of_type. apply Nat.eqb_eq.
    match goal with X : forallb (fun idx => mask (t_sink (nth idx (t_of_type 2 _) _)) =? _)%nat _ = true |- _ => exact (forallb_seq _ _ X idx Hi) end.
  - intros idx Hi. rewrite sink_of_type. apply Nat.eqb_eq.
    match goal with X : forallb (fun idx => mask (t_sink (nth idx (t_of_type 1 _) _)) =? _)%nat _ = true |- _ => exact (forallb_seq _ _ X idx Hi) end.
  - intros idx Hi. apply oeqb_sound.
    match goal with X : forallb (fun idx => oeqb (cbp tp _) _) _ = true |- _ => exact (forallb_seq _ _ X idx Hi) end.
  - intros idx Hi. apply oeqb_sound.
    match goal with X : forallb (fun idx => oeqb (pbp tp _) _) _ = true |- _ => exact (forallb_seq _ _ X idx Hi) end.
  - intros c j Hc Hp.
    match goal with X : forallb (fun c => match pbp tp c with Some _ => _ | None => true end) _ = true |- _ => pose proof (forallb_seq _ _ X c Hc) as E end.
    cbv beta in E. rewrite Hp in E. apply existsb_exists in E. destruct E as (x & Hx & Ex). apply Nat.eqb_eq in Ex. subst. exact Hx.
  - intros j Hj E.
    match goal with X : forallb (fun j => match kids tp j with [] => false | _ :: _ => true end) _ = true |- _ => pose proof (forallb_seq _ _ X j Hj) as F end.
    cbv beta in F. rewrite E in F. discriminate.
Qed.

(* ---- the whole implicit step of a given structure, for all parameter values ---- *)
Theorem assembled_step_total (ly : layout) (tp : topo) (ops : list op)
        (mask : nat -> nat) (ncomp : nat) (es : list (edge R)) (v vt ct : nat -> R) (dt : R)
        (group child_inds par_inds : list nat) :
  check_schedule ly tp ops = true ->
  asm_struct_b ly tp mask (map strip es) group child_inds par_inds = true ->
  0 < dt -> (forall e, In e es -> 0 < e_g R e) -> (forall i, (i < ncomp)%nat -> 0 <= vt i) ->
  let s0 := assemble R Rplus Rminus Rmult 0 1 mask ncomp es v vt ct dt group child_inds par_inds in
  let out := sv (runR ly ops s0) in
  Forall (fun d => d <> 0) (divisorsR ly ops s0) /\
  (exists y, sat ly tp s0 out y) /\
  (forall x y, sat ly tp s0 x y -> forall b k, (b < nb tp)%nat -> (k < pl ly b)%nat -> x (cs ly b + k)%nat = out (cs ly b + k)%nat).
Proof.
  intros C A Hdt Hg Hvt s0 out.
  assert (W : wf ly tp).
  { unfold check_schedule in C. apply andb_true_iff in C. destruct C as [Cw _]. exact (wf_b_sound ly tp Cw). }
  pose proof (asm_struct_b_sound _ _ _ _ _ _ _ A) as St.
  pose proof (assembled_Mstore ly tp W mask ncomp es v vt ct dt group child_inds par_inds St Hdt Hg Hvt) as M.
  destruct (no_zero_divisor ly tp W ops s0 C M) as [D B].
  split; [exact D|]. exact (arr_solve_correct ly tp ops s0 C D B).
Qed.
