(* C03 in floating point: the exponential-Euler gate update  x*e + xinf*(1 - e)  evaluated in an IEEE binary format
   with round-to-nearest-even (Flocq's FLT format: precision prec >= 2 bits, minimal exponent emin <= -prec; binary64 is
   prec = 53, emin = -1074, binary32 is prec = 24, emin = -149) - every operation rounded, or with the first product
   fused into the addition - stays in [0, 1] whenever the gate x, the steady state xinf and the decay factor e are
   floats in [0, 1].  The rounding of 1 - e can push e + fl(1 - e) above 1, but never past the midpoint between 1
   and its successor, so the final rounding returns to 1. *)
From Coq Require Import Reals Lra ZArith Lia.
From Flocq Require Import Core Sterbenz.
Local Open Scope R_scope.

Section GateFloat.
  Variables (prec emin : Z).
  Hypothesis Hprec : (1 < prec)%Z.
  Hypothesis Hemin : (emin <= - prec)%Z.

  Definition fexp := FLT_exp emin prec.
  Notation fmt := (generic_format radix2 fexp).
  Notation rn := (round radix2 fexp ZnearestE).

  Instance prec_pos : Prec_gt_0 prec.
  Proof. unfold Prec_gt_0. lia. Qed.
  Instance fexp_valid : Valid_exp fexp := FLT_exp_valid emin prec.
  Instance fexp_mono : Monotone_exp fexp := FLT_exp_monotone emin prec.

  Lemma fmt_1 : fmt 1.
  Proof. change 1 with (bpow radix2 0). apply generic_format_bpow. unfold fexp, FLT_exp. lia. Qed.
  Lemma fmt_0 : fmt 0.
  Proof. apply generic_format_0. Qed.

  Lemma rn_nonneg y : 0 <= y -> 0 <= rn y.
  Proof. intros H. apply round_ge_generic; [typeclasses eauto | typeclasses eauto | apply fmt_0 | exact H]. Qed.
  Lemma rn_le_fmt x y : fmt y -> x <= y -> rn x <= y.
  Proof. intros Hy H. apply round_le_generic; [typeclasses eauto | typeclasses eauto | exact Hy | exact H]. Qed.
  Lemma rn_mono x y : x <= y -> rn x <= rn y.
  Proof. intros H. apply round_le; [typeclasses eauto | typeclasses eauto | exact H]. Qed.
  Lemma rn_fmt x : fmt (rn x).
  Proof. apply generic_format_round; typeclasses eauto. Qed.

  (* the heart: e + fl(1 - e) rounds to at most 1 *)
  Lemma sum_with_complement e : fmt e -> 0 <= e <= 1 -> rn (e + rn (1 - e)) <= 1.
  Proof.
    intros Fe [H0 H1]. destruct (Rle_or_lt (/ 2) e) as [Hh|Hh].
    - (* Sterbenz: 1 - e is a float *)
      assert (F : fmt (1 - e)) by (apply sterbenz; [typeclasses eauto | typeclasses eauto | apply fmt_1 | exact Fe | lra]).
      rewrite (round_generic radix2 fexp ZnearestE (1 - e) F). replace (e + (1 - e)) with 1 by ring.
      rewrite (round_generic radix2 fexp ZnearestE 1 fmt_1). lra.
    - destruct (Req_dec e 0) as [->|Ne].
      + rewrite Rminus_0_r, (round_generic radix2 fexp ZnearestE 1 fmt_1), Rplus_0_l, (round_generic radix2 fexp ZnearestE 1 fmt_1). lra.
      + set (x := 1 - e). assert (Hx : / 2 < x < 1) by (unfold x; lra).
        assert (Cx : cexp radix2 fexp x = fexp 0).
        { apply cexp_fexp. rewrite Rabs_pos_eq by lra. change (bpow radix2 (0 - 1)) with (/ 2). change (bpow radix2 0) with 1. lra. }
        assert (Ux : ulp radix2 fexp x = bpow radix2 (- prec)).
        { rewrite ulp_neq_0 by lra. rewrite Cx. unfold fexp, FLT_exp. f_equal. lia. }
        pose proof (error_le_half_ulp radix2 fexp (fun z => negb (Z.even z)) x) as Er. rewrite Ux in Er.
        apply Rabs_le_inv in Er.
        apply round_N_le_midp; [typeclasses eauto | apply fmt_1 |].
        rewrite succ_eq_pos by lra. change 1 with (bpow radix2 0) at 3. rewrite ulp_bpow.
        replace (fexp (0 + 1)) with (1 - prec)%Z by (unfold fexp, FLT_exp; lia).
        assert (Hb : bpow radix2 (- prec) < bpow radix2 (1 - prec)) by (apply bpow_lt; lia).
        change (bpow radix2 0) with 1. unfold x in *. lra.
  Qed.

  Section Update.
    Variables (x xinf e : R).
    Hypothesis Fx : fmt x.
    Hypothesis Fi : fmt xinf.
    Hypothesis Fe : fmt e.
    Hypothesis Hx : 0 <= x <= 1.
    Hypothesis Hi : 0 <= xinf <= 1.
    Hypothesis He : 0 <= e <= 1.

    Let u := rn (1 - e).
    Lemma u_range : 0 <= u <= 1.
    Proof. unfold u. split; [apply rn_nonneg; lra | apply rn_le_fmt; [apply fmt_1 | lra]]. Qed.

    (* every operation rounded:  fl( fl(x*e) + fl( xinf * fl(1 - e) ) ) *)
    Theorem gate_update_float_in_unit_interval : 0 <= rn (rn (x * e) + rn (xinf * u)) <= 1.
    Proof.
      pose proof u_range as [U0 U1]. split.
      - apply rn_nonneg. apply Rplus_le_le_0_compat; apply rn_nonneg; apply Rmult_le_pos; lra.
      - assert (A : rn (x * e) <= e) by (apply rn_le_fmt; [exact Fe | nra]).
        assert (Bb : rn (xinf * u) <= u) by (apply rn_le_fmt; [apply rn_fmt | nra]).
        eapply Rle_trans; [apply rn_mono; apply Rplus_le_compat; [exact A | exact Bb]|]. apply sum_with_complement; assumption.
    Qed.

    (* the first product fused into the addition (fma):  fl( x*e + fl( xinf * fl(1 - e) ) ) *)
    Theorem gate_update_fma_in_unit_interval : 0 <= rn (x * e + rn (xinf * u)) <= 1.
    Proof.
      pose proof u_range as [U0 U1]. split.
      - apply rn_nonneg. apply Rplus_le_le_0_compat; [apply Rmult_le_pos; lra | apply rn_nonneg; apply Rmult_le_pos; lra].
      - assert (Bb : rn (xinf * u) <= u) by (apply rn_le_fmt; [apply rn_fmt | nra]).
        eapply Rle_trans; [apply rn_mono; apply Rplus_le_compat; [|exact Bb]|]; [instantiate (1 := e); nra|]. apply sum_with_complement; assumption.
    Qed.
  End Update.
End GateFloat.

(* the two formats jaxley runs in *)
Definition rn64 := round radix2 (FLT_exp (-1074) 53) ZnearestE.
Definition rn32 := round radix2 (FLT_exp (-149) 24) ZnearestE.
Notation fmt64 := (generic_format radix2 (FLT_exp (-1074) 53)).
Notation fmt32 := (generic_format radix2 (FLT_exp (-149) 24)).

Theorem gate_update_binary64 x xinf e : fmt64 x -> fmt64 xinf -> fmt64 e -> 0 <= x <= 1 -> 0 <= xinf <= 1 -> 0 <= e <= 1 ->
  0 <= rn64 (rn64 (x * e) + rn64 (xinf * rn64 (1 - e))) <= 1 /\ 0 <= rn64 (x * e + rn64 (xinf * rn64 (1 - e))) <= 1.
Proof.
  intros. split; [apply (gate_update_float_in_unit_interval 53 (-1074)) | apply (gate_update_fma_in_unit_interval 53 (-1074))]; auto; lia.
Qed.
Theorem gate_update_binary32 x xinf e : fmt32 x -> fmt32 xinf -> fmt32 e -> 0 <= x <= 1 -> 0 <= xinf <= 1 -> 0 <= e <= 1 ->
  0 <= rn32 (rn32 (x * e) + rn32 (xinf * rn32 (1 - e))) <= 1 /\ 0 <= rn32 (x * e + rn32 (xinf * rn32 (1 - e))) <= 1.
Proof.
  intros. split; [apply (gate_update_float_in_unit_interval 24 (-149)) | apply (gate_update_fma_in_unit_interval 24 (-149))]; auto; lia.
Qed.
