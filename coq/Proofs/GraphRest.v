(* C02 at the array level: a cell at rest stays at rest.  For EVERY cell, all positive conductances, all
   non-negative membrane conductances vt and every dt > 0: if every compartment sits at V and every membrane
   term pulls towards V (ct = vt * V; in particular no membrane term at all), the implicit step returns V in
   every compartment.  A corollary of the uniqueness part of cell_step_solves_the_graph_equations. *)
From Coq Require Import Reals List Arith Bool Lia Lra.
From JV Require Import HinesArr HinesCheck HinesArrFacts HinesArrPositive HinesIdx HinesTreeFacts HinesIdxFacts
     AsmStruct AssembleM AssembleTotal AsmIdx AsmIdxFacts AssembleGraph AsmGraphFacts GraphMax.
Import ListNotations.
Local Open Scope R_scope.

Lemma wsum_zero {A} (val : A -> R) p l : (forall e, In e l -> p e = true -> val e = 0) -> wsum val p l = 0.
Proof.
  induction l as [|e l IH]; intros H; cbn [wsum fold_right]; [reflexivity|]. fold (wsum val p l).
  rewrite IH by (intros; apply H; auto; now right). destruct (p e) eqn:E; [rewrite (H e (or_introl eq_refl) E)|]; lra.
Qed.

Section Rest.
  Variables (ps ns : list nat).
  Hypothesis nb_pos : (1 <= length ps)%nat.
  Hypothesis sorted : forall b, (1 <= b)%nat -> (b < length ps)%nat -> (nth b ps 0 < b)%nat.
  Hypothesis counts : forall b, (b < length ps)%nat -> (1 <= nth b ns 0)%nat.
  Variable es : list (edge R).
  Hypothesis E : map strip es = triples_of ps ns.
  Variables (v vt ct : nat -> R) (dt V : R).
  Hypothesis Hdt : 0 < dt.
  Hypothesis Hg : forall e, In e es -> 0 < e_g R e.
  Hypothesis Hvt : forall i, (i < total ps ns)%nat -> 0 <= vt i.
  Hypothesis Hv : forall c, (c < total ps ns)%nat -> v c = V.
  Hypothesis Hct : forall c, (c < total ps ns)%nat -> ct c = vt c * V.

  Notation nbL := (length ps).
  Notation ly := (layout_of ps ns).
  Notation tp := (topo_of ps).
  Notation mask := (nthD (mask_of ps ns)).
  Notation tot := (total ps ns).

  Definition realslot (i : nat) : bool :=
    existsb (fun b => (cs_of ps ns b <=? i)%nat && (i <? cs_of ps ns b + ncomp_of ns b)%nat) (seq 0 nbL).
  Definition xr (i : nat) : R := if realslot i then V else 0.
  Definition yr (_ : nat) : R := V.

  Let W : wf ly tp := idx_wf ps ns nb_pos sorted counts.
  Let G := cell_graph_struct ps ns nb_pos sorted counts es E.
  Let B := cell_graph_struct_bp ps ns nb_pos counts es E.

  Lemma real_at c : (c < tot)%nat -> xr (mask c) = V.
  Proof.
    intros Hc. destruct (cell_slot ps ns nb_pos c Hc) as (b & r & Hb & Hr & Em). cbn [nb topo_of nc cs layout_of] in *. unfold nbr in Hb.
    unfold xr, realslot. replace (existsb _ _) with true; [reflexivity|]. symmetry. apply existsb_exists. exists b. split; [apply in_seq; lia|].
    rewrite Em. apply andb_true_iff. split; [apply Nat.leb_le | apply Nat.ltb_lt]; lia.
  Qed.

  Lemma padded_zero b k : (b < nb tp)%nat -> (nc ly b <= k < pl ly b)%nat -> xr (cs ly b + k)%nat = 0.
  Proof.
    intros Hb Hk. cbn [nb topo_of nc cs pl layout_of] in *. unfold nbr in Hb. unfold xr.
    destruct (realslot (cs_of ps ns b + k)) eqn:Er; [|reflexivity]. exfalso.
    unfold realslot in Er. apply existsb_exists in Er. destruct Er as (b' & Hb' & H). apply in_seq in Hb'. apply andb_true_iff in H.
    destruct H as [H1 H2]. apply Nat.leb_le in H1. apply Nat.ltb_lt in H2.
    pose proof (pl_ge ps ns nb_pos b' ltac:(lia)) as P'.
    destruct (slot_inj ly tp W b k b' (cs_of ps ns b + k - cs_of ps ns b')) as [Eb Ek]; cbn [nb topo_of pl cs layout_of]; unfold nbr; try lia.
    subst b'. lia.
  Qed.

  Lemma zz_comp n : (n < tot)%nat -> zz mask tot xr yr n = V.
  Proof. intros H. unfold zz. destruct (Nat.ltb_spec n tot); [apply real_at, H | lia]. Qed.
  Lemma zz_bp n : (tot <= n)%nat -> zz mask tot xr yr n = V.
  Proof. intros H. unfold zz. destruct (Nat.ltb_spec n tot); [lia | reflexivity]. Qed.

  (* the source of every edge carries V *)
  Lemma source_at_rest e : In e es -> zz mask tot xr yr (e_source R e) = V.
  Proof.
    intros He. destruct (Nat.lt_ge_cases (e_source R e) tot) as [H|H]; [apply zz_comp, H | apply zz_bp, H].
  Qed.

  Theorem rest_is_a_solution : graph_eq ly tp mask tot es v vt ct dt xr yr.
  Proof.
    split; [|split].
    - intros c Hc. unfold comp_lhs, comp_rhs. rewrite (real_at c Hc), (Hv c Hc), (Hct c Hc).
      rewrite wsum_zero; [lra|]. intros e He _. rewrite (source_at_rest e He). lra.
    - intros j Hj. unfold bp_graph. apply wsum_zero. intros e He _. rewrite (source_at_rest e He). unfold yr. lra.
    - intros b k Hb Hk. apply padded_zero; assumption.
  Qed.

  Theorem cell_at_rest_stays_at_rest :
    let s0 := assemble R Rplus Rminus Rmult 0 1 mask tot es v vt ct dt (group_of ps) (child_inds_of ps) (par_inds_of ps) in
    let out := sv (runR ly (ops_of_tree ps ns) s0) in
    forall b k, (b < nbL)%nat -> (k < ncomp_of ns b)%nat -> out (cs_of ps ns b + k)%nat = V.
  Proof.
    intros s0 out b k Hb Hk.
    destruct (cell_step_solves_the_graph_equations ps ns es v vt ct dt nb_pos sorted counts E Hdt Hg Hvt) as [_ U].
    pose proof (pl_ge ps ns nb_pos b Hb) as P.
    pose proof (U xr yr rest_is_a_solution b k Hb ltac:(cbn [pl layout_of]; lia)) as Eq. cbn [cs layout_of] in Eq.
    unfold out, s0. rewrite <- Eq. unfold xr. replace (realslot (cs_of ps ns b + k)) with true; [reflexivity|]. symmetry.
    apply existsb_exists. exists b. split; [apply in_seq; lia|]. apply andb_true_iff. split; [apply Nat.leb_le | apply Nat.ltb_lt]; lia.
  Qed.
End Rest.

(* ---- no overshoot, for every cell ---- *)
Theorem cell_no_overshoot (ps ns : list nat) (es : list (edge R)) (v vt ct : nat -> R) (dt lo hi : R) :
  (1 <= length ps)%nat -> (forall b, (1 <= b)%nat -> (b < length ps)%nat -> (nth b ps 0 < b)%nat) ->
  (forall b, (b < length ps)%nat -> (1 <= nth b ns 0)%nat) ->
  map strip es = triples_of ps ns ->
  0 < dt -> (forall e, In e es -> 0 < e_g R e) -> (forall i, (i < total ps ns)%nat -> 0 <= vt i) ->
  (forall c, (c < total ps ns)%nat -> lo <= v c <= hi /\ vt c * lo <= ct c <= vt c * hi) ->
  let ly := layout_of ps ns in
  let s0 := assemble R Rplus Rminus Rmult 0 1 (nthD (mask_of ps ns)) (total ps ns) es v vt ct dt (group_of ps) (child_inds_of ps) (par_inds_of ps) in
  let out := sv (runR ly (ops_of_tree ps ns) s0) in
  forall b k, (b < length ps)%nat -> (k < ncomp_of ns b)%nat -> lo <= out (cs_of ps ns b + k)%nat <= hi.
Proof.
  intros H1 H2 H3 E Hdt Hg Hvt Hb ly s0 out b k Hbb Hk.
  destruct (cell_step_solves_the_graph_equations ps ns es v vt ct dt H1 H2 H3 E Hdt Hg Hvt) as [(y & Sol) _].
  pose proof (idx_wf ps ns H1 H2 H3) as W.
  pose proof (cell_graph_struct ps ns H1 H2 H3 es E) as G.
  pose proof (cell_graph_struct_bp ps ns H1 H3 es E) as B.
  assert (Hc : (tcs ns b + k < total ps ns)%nat) by (apply (tcs_lt_total ps ns H1); assumption).
  pose proof (graph_bounds ly (topo_of ps) W _ _ es v vt ct dt _ _ _ G B _ y lo hi ltac:(lia) Hdt Hg Hvt Sol Hb (tcs ns b + k)%nat Hc) as R.
  rewrite (mask_at ps ns b k Hbb Hk) in R. exact R.
Qed.
