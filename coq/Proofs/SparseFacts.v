(* The `jax.sparse` backend and the jaxley backends solve the same equations.  The linear system of
   Model/SparseAsm.v (node space, what spsolve is given) is equivalent to the backward-Euler equations of the
   conductance graph in node form (`node_eq`), and those to `graph_eq` of AssembleGraph (slot space, what the
   level-ordered elimination solves).  Hence, for every structure meeting the decidable conditions, every cell and
   every network: the sparse system has exactly one solution on the compartments, and it is the output of the
   jaxley solver. *)
From Coq Require Import Reals List Arith Bool Lia Lra.
From JV Require Import HinesArr HinesCheck HinesArrFacts HinesArrPositive AsmStruct AssembleM AssembleGraph GraphMax SparseAsm.
Import ListNotations.
Local Open Scope R_scope.

Notation sp_rowR := (sp_row R Rplus Rminus Rmult 0 1).
Notation sp_rhsR := (sp_rhs R Rplus Rmult 0).

Lemma sp_sum_is_wsum (val : edge R -> R) p es : sp_sum R Rplus 0 val p es = wsum val p es.
Proof. reflexivity. Qed.

Section Sparse.
  Variables (ly : layout) (tp : topo).
  Hypothesis W : wf ly tp.
  Variables (mask : nat -> nat) (ncomp : nat) (es : list (edge R)) (v vt ct : nat -> R) (dt : R)
            (group child_inds par_inds : list nat).
  Hypothesis G : graph_struct ly tp mask ncomp es group child_inds par_inds.
  Hypothesis B : graph_struct_bp ly mask ncomp es group child_inds par_inds.
  Hypothesis Hslot : forall c, (c < ncomp)%nat -> exists b r, (b < nb tp)%nat /\ (r < nc ly b)%nat /\ mask c = (cs ly b + r)%nat.
  Hypothesis Hty : forall e, In e es -> (e_type R e <= 4)%nat.
  Hypothesis Hdt : dt <> 0.
  Let St := gs_asm _ _ _ _ _ _ _ _ G.
  Notation g := (e_g R).
  Notation src := (e_source R).
  Notation snk := (e_sink R).
  Notation ty := (e_type R).

  (* ---- the graph equations in node space ---- *)
  Definition node_eq (z : nat -> R) : Prop :=
    (forall c, (c < ncomp)%nat ->
       z c * (1 + dt * vt c) + dt * wsum (fun e => g e * (z c - z (src e))) (into c) es = v c + dt * ct c) /\
    (forall j, (j < nbp tp)%nat -> wsum (fun e => g e * (z (src e) - z (ncomp + j)%nat)) (bp_into ncomp j) es = 0).

  (* edges of types 3, 4 end in branch points *)
  Lemma bp_sink e : In e es -> (3 <= ty e)%nat -> (ncomp <= snk e)%nat.
  Proof.
    intros He Ht. pose proof (Hty e He). destruct (Nat.eq_dec (ty e) 3) as [E3|N3].
    - destruct (in_of_type es 3 e He E3) as (idx & Hi & <-).
      rewrite (as_len3 _ _ _ _ _ _ _ St) in Hi. rewrite (gb_snk3 _ _ _ _ _ _ _ B idx Hi). lia.
    - assert (E4 : ty e = 4%nat) by lia.
      destruct (in_of_type es 4 e He E4) as (idx & Hi & <-).
      rewrite (as_len4 _ _ _ _ _ _ _ St) in Hi. rewrite (gb_snk4 _ _ _ _ _ _ _ B idx Hi). lia.
  Qed.

  Lemma into_is_sink c e : (c < ncomp)%nat -> In e es -> into c e = (snk e =? c)%nat.
  Proof.
    intros Hc He. unfold into. destruct (Nat.leb_spec (ty e) 2) as [Ht|Ht]; cbn [andb]; [reflexivity|].
    symmetry. apply Nat.eqb_neq. pose proof (bp_sink e He ltac:(lia)). lia.
  Qed.
  Lemma bp_into_is_sink j e : In e es -> bp_into ncomp j e = (snk e =? ncomp + j)%nat.
  Proof.
    intros He. unfold bp_into, is_type. pose proof (Hty e He) as H4.
    destruct (Nat.eqb_spec (ty e) 3) as [E3|N3]; cbn [orb andb]; [reflexivity|].
    destruct (Nat.eqb_spec (ty e) 4) as [E4|N4]; cbn [orb andb]; [reflexivity|].
    symmetry. apply Nat.eqb_neq. pose proof (gs_sink _ _ _ _ _ _ _ _ G e He ltac:(lia)). lia.
  Qed.

  (* ---- the sparse system, row by row ---- *)
  Lemma sparse_comp_row z c : (c < ncomp)%nat ->
    sp_rowR ncomp es vt dt z c = z c * (1 + dt * vt c) + dt * wsum (fun e => g e * (z c - z (src e))) (into c) es.
  Proof.
    intros Hc. unfold sp_row, sp_diag. rewrite !sp_sum_is_wsum. destruct (Nat.ltb_spec c ncomp) as [_|]; [|lia].
    rewrite (wsum_ext (fun e => g e * (z c - z (src e))) (into c) (fun e => (snk e =? c)%nat)) by (intros e He; apply into_is_sink; assumption).
    rewrite (wsum_val_ext (fun e => g e * (z c - z (src e))) (fun e => g e * z c - g e * z (src e))) by (intros; ring).
    rewrite wsum_minus, wsum_mul_const.
    rewrite (wsum_val_ext (fun e => dt * g e) (fun e => g e * dt)) by (intros; ring). rewrite wsum_mul_const.
    rewrite (wsum_val_ext (fun e => dt * g e * z (src e)) (fun e => g e * z (src e) * dt)) by (intros; ring). rewrite wsum_mul_const.
    ring.
  Qed.
  Lemma sparse_bp_row z j :
    sp_rowR ncomp es vt dt z (ncomp + j) = - dt * wsum (fun e => g e * (z (src e) - z (ncomp + j)%nat)) (bp_into ncomp j) es.
  Proof.
    unfold sp_row, sp_diag. rewrite !sp_sum_is_wsum. destruct (Nat.ltb_spec (ncomp + j) ncomp) as [|_]; [lia|].
    rewrite (wsum_ext (fun e => g e * (z (src e) - z (ncomp + j)%nat)) (bp_into ncomp j) (fun e => (snk e =? ncomp + j)%nat)) by (intros e He; apply bp_into_is_sink; assumption).
    rewrite (wsum_val_ext (fun e => g e * (z (src e) - z (ncomp + j)%nat)) (fun e => g e * z (src e) - g e * z (ncomp + j)%nat)) by (intros; ring).
    rewrite wsum_minus, wsum_mul_const.
    rewrite (wsum_val_ext (fun e => dt * g e) (fun e => g e * dt)) by (intros; ring). rewrite wsum_mul_const.
    rewrite (wsum_val_ext (fun e => dt * g e * z (src e)) (fun e => g e * z (src e) * dt)) by (intros; ring). rewrite wsum_mul_const.
    ring.
  Qed.

  Definition sparse_eq (z : nat -> R) : Prop :=
    forall i, (i < ncomp + nbp tp)%nat -> sp_rowR ncomp es vt dt z i = sp_rhsR ncomp v ct dt i.

  Theorem sparse_iff_node z : sparse_eq z <-> node_eq z.
  Proof.
    unfold sparse_eq, node_eq. split.
    - intros H. split.
      + intros c Hc. pose proof (H c ltac:(lia)) as E. rewrite (sparse_comp_row z c Hc) in E. unfold sp_rhs in E.
        destruct (Nat.ltb_spec c ncomp); [exact E | lia].
      + intros j Hj. pose proof (H (ncomp + j)%nat ltac:(lia)) as E. rewrite sparse_bp_row in E. unfold sp_rhs in E.
        destruct (Nat.ltb_spec (ncomp + j) ncomp); [lia|]. nra.
    - intros [HC HB] i Hi. destruct (Nat.lt_ge_cases i ncomp) as [Hc|Hc].
      + rewrite (sparse_comp_row z i Hc). unfold sp_rhs. destruct (Nat.ltb_spec i ncomp); [apply HC; exact Hc | lia].
      + replace i with (ncomp + (i - ncomp))%nat by lia. rewrite sparse_bp_row. unfold sp_rhs.
        destruct (Nat.ltb_spec (ncomp + (i - ncomp)) ncomp); [lia|]. rewrite (HB (i - ncomp)%nat ltac:(lia)). ring.
  Qed.

  (* ---- node space <-> slot space ---- *)
  Lemma zz_comp_node x y c : (c < ncomp)%nat -> zz mask ncomp x y c = x (mask c).
  Proof. intros H. unfold zz. destruct (Nat.ltb_spec c ncomp); [reflexivity | lia]. Qed.
  Lemma zz_bp_node x y j : zz mask ncomp x y (ncomp + j) = y j.
  Proof. unfold zz. destruct (Nat.ltb_spec (ncomp + j) ncomp); [lia|]. f_equal. lia. Qed.

  Theorem graph_to_node x y : graph_eq ly tp mask ncomp es v vt ct dt x y -> node_eq (zz mask ncomp x y).
  Proof.
    intros (HC & HB & _). split.
    - intros c Hc. pose proof (HC c Hc) as E. unfold comp_lhs, comp_rhs in E. rewrite (zz_comp_node x y c Hc). exact E.
    - intros j Hj. pose proof (HB j Hj) as E. unfold bp_graph in E. rewrite zz_bp_node. exact E.
  Qed.

  Definition x_of (z : nat -> R) (i : nat) : R :=
    match find (fun c => (mask c =? i)%nat) (seq 0 ncomp) with Some c => z c | None => 0 end.
  Definition y_of (z : nat -> R) (j : nat) : R := z (ncomp + j)%nat.

  Lemma x_of_mask z c : (c < ncomp)%nat -> x_of z (mask c) = z c.
  Proof.
    intros Hc. unfold x_of. destruct (find _ _) as [c'|] eqn:E.
    - apply find_some in E. destruct E as [Hin E]. apply in_seq in Hin. apply Nat.eqb_eq in E.
      f_equal. apply (gs_inj _ _ _ _ _ _ _ _ G); auto; lia.
    - exfalso. pose proof (find_none _ _ E c ltac:(apply in_seq; lia)) as N. cbv beta in N. rewrite Nat.eqb_refl in N. discriminate.
  Qed.
  Lemma zz_of z n : zz mask ncomp (x_of z) (y_of z) n = z n.
  Proof.
    unfold zz. destruct (Nat.ltb_spec n ncomp) as [H|H]; [apply x_of_mask, H|]. unfold y_of. f_equal. lia.
  Qed.

  Theorem node_to_graph z : node_eq z -> graph_eq ly tp mask ncomp es v vt ct dt (x_of z) (y_of z).
  Proof.
    intros [HC HB]. split; [|split].
    - intros c Hc. unfold comp_lhs, comp_rhs. rewrite (x_of_mask z c Hc).
      rewrite (wsum_val_ext (fun e => g e * (z c - zz mask ncomp (x_of z) (y_of z) (src e))) (fun e => g e * (z c - z (src e))))
        by (intros; rewrite zz_of; reflexivity).
      apply HC, Hc.
    - intros j Hj. unfold bp_graph.
      rewrite (wsum_val_ext (fun e => g e * (zz mask ncomp (x_of z) (y_of z) (src e) - y_of z j)) (fun e => g e * (z (src e) - z (ncomp + j)%nat)))
        by (intros; rewrite zz_of; reflexivity).
      apply HB, Hj.
    - intros b k Hb Hk. unfold x_of. destruct (find _ _) as [c|] eqn:E; [|reflexivity]. exfalso.
      apply find_some in E. destruct E as [Hin E]. apply in_seq in Hin. apply Nat.eqb_eq in E.
      destruct (Hslot c ltac:(lia)) as (b' & r & Hb' & Hr & Em). pose proof (wf_nc _ _ W b' Hb').
      rewrite Em in E. destruct (slot_inj _ _ W b' r b k Hb' ltac:(lia) Hb ltac:(lia) E). subst. lia.
  Qed.

  (* ---- both backends: same solution ---- *)
  Theorem sparse_solution_is_the_solver_output (out : nat -> R) :
    (exists y, graph_eq ly tp mask ncomp es v vt ct dt out y) ->
    (forall x y, graph_eq ly tp mask ncomp es v vt ct dt x y ->
       forall b k, (b < nb tp)%nat -> (k < pl ly b)%nat -> x (cs ly b + k)%nat = out (cs ly b + k)%nat) ->
    (exists z, sparse_eq z /\ forall c, (c < ncomp)%nat -> z c = out (mask c)) /\
    (forall z, sparse_eq z -> forall c, (c < ncomp)%nat -> z c = out (mask c)).
  Proof.
    intros (y & Sol) U. split.
    - exists (zz mask ncomp out y). split; [apply sparse_iff_node, graph_to_node, Sol|]. intros c Hc. apply zz_comp_node, Hc.
    - intros z Hz c Hc. apply sparse_iff_node in Hz. pose proof (node_to_graph z Hz) as Gz.
      destruct (Hslot c Hc) as (b & r & Hb & Hr & Em). pose proof (wf_nc _ _ W b Hb).
      pose proof (U _ _ Gz b r Hb ltac:(lia)) as Eq. rewrite <- Em in Eq. rewrite (x_of_mask z c Hc) in Eq. exact Eq.
  Qed.
End Sparse.
