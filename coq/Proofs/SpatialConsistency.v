(* C15, spatial part: the axial term of a uniform cable is a second-order CONSISTENT
   discretisation of kappa * V''  with  kappa = 1e7 * r / (2 r_a)  (= d / (4 R_a) in the units of
   the code): for every four times differentiable V with |V''''| <= M,
     | g_axial(h) * (V(x+h) - 2 V(x) + V(x-h)) - kappa V''(x) |  <=  kappa * M * h^2 / 12,
   where g_axial(h) is the coupling conductance traced from the code for two equal compartments
   of length h.  (Consistency, not convergence: the convergence of the solutions is measured.) *)
From Coq Require Import Reals Lra Lia.
From Coquelicot Require Import Coquelicot.
From JV Require Import Prim RLemmas GCellUtils.
Local Open Scope R_scope.

Definition smooth4 (f : R -> R) : Prop := forall t k, (k <= 4)%nat -> ex_derive_n f k t.

Lemma taylor_right f x h : 0 < h -> smooth4 f ->
  exists z, f (x + h) = f x + h * Derive_n f 1 x + h ^ 2 / 2 * Derive_n f 2 x + h ^ 3 / 6 * Derive_n f 3 x
                         + h ^ 4 / 24 * Derive_n f 4 z.
Proof.
  intros Hh S. destruct (Taylor_Lagrange f 3 x (x + h) ltac:(lra)) as (z & _ & E).
  { intros t _ k Hk. apply S. exact Hk. }
  exists z. rewrite E. replace (x + h - x) with h by ring. cbn [sum_f_R0 fact INR Nat.mul Nat.add pow Derive_n].
  field.
Qed.

Lemma taylor_left f x h : 0 < h -> smooth4 f ->
  exists z, f (x - h) = f x - h * Derive_n f 1 x + h ^ 2 / 2 * Derive_n f 2 x - h ^ 3 / 6 * Derive_n f 3 x
                         + h ^ 4 / 24 * Derive_n f 4 z.
Proof.
  intros Hh S. set (g := fun y => f (- y)).
  assert (Sg : forall t k, (k <= 4)%nat -> ex_derive_n g k t).
  { intros t k Hk. apply ex_derive_n_comp_opp. exists (mkposreal 1 Rlt_0_1). intros y _ j Hj. apply S. lia. }
  assert (Dg : forall t k, (k <= 4)%nat -> Derive_n g k t = (-1) ^ k * Derive_n f k (- t)).
  { intros t k Hk. apply Derive_n_comp_opp. exists (mkposreal 1 Rlt_0_1). intros y _ j Hj. apply S. lia. }
  destruct (Taylor_Lagrange g 3 (- x) (- x + h) ltac:(lra)) as (z & _ & E).
  { intros t _ k Hk. apply Sg. exact Hk. }
  exists (- z). unfold g at 1 in E. replace (- (- x + h)) with (x - h) in E by ring. rewrite E.
  replace (- x + h - - x) with h by ring. cbn [sum_f_R0].
  rewrite (Dg (- x) 0%nat), (Dg (- x) 1%nat), (Dg (- x) 2%nat), (Dg (- x) 3%nat), (Dg z 4%nat) by lia.
  rewrite !Ropp_involutive. cbn [fact INR Nat.mul Nat.add pow Derive_n]. field.
Qed.

Theorem central_difference f x h M : 0 < h -> smooth4 f -> (forall t, Rabs (Derive_n f 4 t) <= M) ->
  Rabs ((f (x + h) - 2 * f x + f (x - h)) / h ^ 2 - Derive_n f 2 x) <= M * h ^ 2 / 12.
Proof.
  intros Hh S B. destruct (taylor_right f x h Hh S) as (z1 & E1). destruct (taylor_left f x h Hh S) as (z2 & E2).
  rewrite E1, E2.
  replace ((f x + h * Derive_n f 1 x + h ^ 2 / 2 * Derive_n f 2 x + h ^ 3 / 6 * Derive_n f 3 x + h ^ 4 / 24 * Derive_n f 4 z1
            - 2 * f x
            + (f x - h * Derive_n f 1 x + h ^ 2 / 2 * Derive_n f 2 x - h ^ 3 / 6 * Derive_n f 3 x + h ^ 4 / 24 * Derive_n f 4 z2)) / h ^ 2
           - Derive_n f 2 x)
    with (h ^ 2 / 24 * (Derive_n f 4 z1 + Derive_n f 4 z2)) by (field; lra).
  assert (P : 0 <= h ^ 2 / 24).
  { apply Rlt_le. apply Rdiv_lt_0_compat; [apply pow_lt; exact Hh | lra]. }
  rewrite Rabs_mult, (Rabs_right (h ^ 2 / 24)) by (apply Rle_ge; exact P).
  pose proof (B z1) as B1. pose proof (B z2) as B2.
  assert (T : Rabs (Derive_n f 4 z1 + Derive_n f 4 z2) <= 2 * M) by (eapply Rle_trans; [apply Rabs_triang | lra]).
  replace (M * h ^ 2 / 12) with (h ^ 2 / 24 * (2 * M)) by field.
  apply Rmult_le_compat_l; assumption.
Qed.

(* the coefficient: for equal compartments the traced coupling conductance is kappa / h^2 *)
Definition kappa (r ra : R) : R := 10000000 * r / (2 * ra).

Lemma uniform_coupling r ra h : 0 < r -> 0 < ra -> 0 < h -> coupling_cond__g r r ra ra h h = kappa r ra / h ^ 2.
Proof.
  intros Hr Hra Hh. unfold coupling_cond__g, kappa. cbv zeta.
  assert (P : 0 < ra * r ^ 2 * h) by (repeat apply Rmult_lt_0_compat; try lra; apply pow_lt; lra).
  field. repeat split; try lra; nra.
Qed.

Theorem axial_term_consistent f x r ra h M : 0 < r -> 0 < ra -> 0 < h -> smooth4 f -> (forall t, Rabs (Derive_n f 4 t) <= M) ->
  Rabs (coupling_cond__g r r ra ra h h * (f (x + h) - f x) + coupling_cond__g r r ra ra h h * (f (x - h) - f x)
        - kappa r ra * Derive_n f 2 x) <= kappa r ra * (M * h ^ 2 / 12).
Proof.
  intros Hr Hra Hh S B. rewrite uniform_coupling by assumption.
  assert (K : 0 < kappa r ra) by (unfold kappa; apply Rdiv_lt_0_compat; lra).
  replace (kappa r ra / h ^ 2 * (f (x + h) - f x) + kappa r ra / h ^ 2 * (f (x - h) - f x) - kappa r ra * Derive_n f 2 x)
    with (kappa r ra * ((f (x + h) - 2 * f x + f (x - h)) / h ^ 2 - Derive_n f 2 x)) by (field; lra).
  rewrite Rabs_mult, (Rabs_right (kappa r ra)) by lra.
  apply Rmult_le_compat_l; [lra|]. apply central_difference; assumption.
Qed.
