From Coq Require Import List ZArith Bool Arith Lia.
From JV Require Import Index.
Import ListNotations.

Section Facts.
  Context {A : Type}.

  Lemma upd_length (l : list A) k x : length (upd l k x) = length l.
  Proof. revert k. induction l; intros [|k]; cbn; auto. Qed.

  Lemma nth_upd (l : list A) k j x d :
    nth j (upd l k x) d = if (Nat.eqb j k && (k <? length l)) then x else nth j l d.
  Proof.
    revert k j. induction l as [|h t IH]; intros [|k] [|j]; cbn; auto.
    - destruct (j =? k); reflexivity.
    - rewrite IH. replace (S k <? S (length t)) with (k <? length t) by reflexivity. reflexivity.
  Qed.

  Lemma set_at_length (arr : list A) i x : length (set_at arr i x) = length arr.
  Proof. unfold set_at. destruct (norm_index _ _); auto. apply upd_length. Qed.

  Lemma set_group_length (arr : list A) inds x : length (set_group arr inds x) = length arr.
  Proof.
    unfold set_group. revert arr. induction inds as [|i inds IH]; intros arr; cbn; auto.
    rewrite IH. apply set_at_length.
  Qed.

  (* an in-range, non-negative index: .at[i].set writes exactly row i *)
  Definition in_range (n : nat) (i : Z) : Prop := (0 <= i < Z.of_nat n)%Z.

  Lemma norm_index_in_range n i : in_range n i -> norm_index n i = Some (Z.to_nat i).
  Proof.
    intros [H0 H1]. unfold norm_index.
    destruct (Z.leb_spec 0 i); try lia. destruct (Z.ltb_spec i (Z.of_nat n)); try lia. reflexivity.
  Qed.

  Lemma nth_set_at (arr : list A) i x j d :
    in_range (length arr) i ->
    nth j (set_at arr i x) d = if Nat.eqb j (Z.to_nat i) then x else nth j arr d.
  Proof.
    intros H. unfold set_at. rewrite norm_index_in_range by exact H. rewrite nth_upd.
    destruct H as [H0 H1]. assert (Z.to_nat i < length arr) by lia.
    destruct (Nat.ltb_spec (Z.to_nat i) (length arr)); try lia. rewrite andb_true_r. reflexivity.
  Qed.

  Lemma nth_set_group (arr : list A) inds x j d :
    Forall (in_range (length arr)) inds ->
    nth j (set_group arr inds x) d = if existsb (fun i => Nat.eqb j (Z.to_nat i)) inds then x else nth j arr d.
  Proof.
    unfold set_group. revert arr. induction inds as [|i inds IH]; intros arr H; cbn; auto.
    inversion H as [|? ? Hi Hr]; subst.
    rewrite IH by (rewrite set_at_length; exact Hr).
    rewrite nth_set_at by exact Hi.
    destruct (Nat.eqb j (Z.to_nat i)); cbn.
    - destruct (existsb _ inds); reflexivity.
    - reflexivity.
  Qed.

  Definition in_group (j : nat) (g : list Z) : bool := existsb (fun i => Nat.eqb j (Z.to_nat i)) g.

  (* C10: a shared trainable is applied to ALL and ONLY the rows of its group; every row
     outside every group keeps its value.  Groups must be in range and pairwise disjoint. *)
  Theorem group_sharing_exact :
    forall (groups : list (list Z)) (vals : list A) (arr : list A) j d,
      length groups = length vals ->
      Forall (Forall (in_range (length arr))) groups ->
      (forall g1 g2 a b, a <> b -> nth_error groups a = Some g1 -> nth_error groups b = Some g2 ->
                         in_group j g1 = true -> in_group j g2 = true -> False) ->
      nth j (apply_trainable arr groups vals) d =
        match find (fun gv => in_group j (fst gv)) (combine groups vals) with
        | Some gv => snd gv
        | None => nth j arr d
        end.
  Proof.
    unfold apply_trainable.
    induction groups as [|g groups IH]; intros vals arr j d Hlen Hr Hdisj; [reflexivity|].
    destruct vals as [|v vals]; [discriminate|]. cbn [combine fold_left find fst snd].
    inversion Hr as [|? ? Hg Hrest]; subst.
    rewrite IH.
    - destruct (in_group j g) eqn:Ej.
      + (* j is in g: no later group contains it *)
        assert (Hnone : find (fun gv : list Z * A => in_group j (fst gv)) (combine groups vals) = None).
        { destruct (find _ (combine groups vals)) as [[g2 v2]|] eqn:Ef; [|reflexivity].
          apply find_some in Ef. destruct Ef as [Hin Hj]. cbn in Hj.
          apply in_combine_l in Hin. apply In_nth_error in Hin. destruct Hin as [k Hk].
          exfalso. apply (Hdisj g g2 0 (S k)); auto. }
        rewrite Hnone. rewrite nth_set_group by exact Hg. unfold in_group in Ej. rewrite Ej. reflexivity.
      + rewrite nth_set_group by exact Hg. unfold in_group in Ej. rewrite Ej. reflexivity.
    - cbn in Hlen. lia.
    - rewrite set_group_length. exact Hrest.
    - intros g1 g2 a b Hab H1 H2. apply (Hdisj g1 g2 (S a) (S b)); auto.
  Qed.

  (* the row written by .at[-1]: the LAST row of the array *)
  Lemma set_at_minus_one (arr : list A) x d :
    arr <> [] -> nth (length arr - 1) (set_at arr (-1)%Z x) d = x.
  Proof.
    intros Hne. unfold set_at, norm_index.
    assert (0 < length arr) by (destruct arr; cbn; [congruence | lia]).
    destruct (Z.leb_spec 0 (-1)); try lia. cbn [andb].
    destruct (Z.leb_spec (- Z.of_nat (length arr)) (-1)); try lia.
    destruct (Z.ltb_spec (-1) 0); try lia. cbn [andb].
    rewrite nth_upd.
    replace (Z.to_nat (-1 + Z.of_nat (length arr))) with (length arr - 1) by lia.
    rewrite Nat.eqb_refl. destruct (Nat.ltb_spec (length arr - 1) (length arr)); try lia. reflexivity.
  Qed.
End Facts.

(* padding with an index of the same group does not change the SET of rows of the group *)
Lemma existsb_repeat {B} (f : B -> bool) x k : existsb f (repeat x k) = true -> f x = true.
Proof. induction k; cbn; [discriminate|]. destruct (f x); auto. Qed.

Lemma pad_new_same_rows maxlen g j : g <> [] -> in_group j (pad_new maxlen g) = in_group j g.
Proof.
  intros Hne. unfold pad_new, in_group. rewrite existsb_app.
  destruct (existsb (fun i => Nat.eqb j (Z.to_nat i)) g) eqn:E; [reflexivity|]. cbn [orb].
  destruct (existsb _ (repeat _ _)) eqn:E2; [|reflexivity].
  apply existsb_repeat in E2.
  destruct g as [|i g]; [congruence|]. cbn [hd] in E2. cbn [existsb] in E. rewrite E2 in E. discriminate.
Qed.

(* known defect F2, in the model of the OLD padding: groups [0;1] and [2;3;4] of a 7-row
   array, values 2 and 3: row 6 (in no group) is overwritten *)
Lemma pad_old_refuted :
  nth 6 (apply_trainable [1; 1; 1; 1; 1; 1; 1] (map (pad_old 3) [[0; 1]; [2; 3; 4]]%Z) [2; 3]) 0 = 2.
Proof. reflexivity. Qed.
Lemma pad_new_ok :
  apply_trainable [1; 1; 1; 1; 1; 1; 1] (map (pad_new 3) [[0; 1]; [2; 3; 4]]%Z) [2; 3] = [2; 2; 3; 3; 3; 1; 1].
Proof. reflexivity. Qed.

(* ---- synapses ------------------------------------------------------------------------------- *)
Section SynFacts.
  Context {A : Type}.

  Lemma combine_app' {X Y} (a1 a2 : list X) (b1 b2 : list Y) :
    length a1 = length b1 -> combine (a1 ++ a2) (b1 ++ b2) = combine a1 b1 ++ combine a2 b2.
  Proof.
    revert b1. induction a1 as [|x a1 IH]; intros [|y b1] H; cbn in *; try discriminate; auto.
    rewrite IH by lia. reflexivity.
  Qed.

  Lemma per_type_app types1 types2 (c1 c2 : list A) t :
    length types1 = length c1 ->
    per_type (types1 ++ types2) (c1 ++ c2) t = per_type types1 c1 t ++ per_type types2 c2 t.
  Proof.
    intros H. unfold per_type. rewrite combine_app' by exact H. rewrite filter_app, map_app. reflexivity.
  Qed.

  Lemma per_type_length types (col : list A) t :
    length types = length col -> length (per_type types col t) = length (filter (Nat.eqb t) types).
  Proof.
    revert col. induction types as [|ty types IH]; intros [|c col] H; cbn in *; try discriminate; auto.
    unfold per_type in *. cbn. rewrite (Nat.eqb_sym t ty).
    destruct (ty =? t); cbn; rewrite IH by lia; reflexivity.
  Qed.

  (* C08/C09: entry rank_in_type(e) of the per-type array of e's type is edge e's value *)
  Theorem per_type_rank types (col : list A) e d :
    length types = length col -> e < length types ->
    nth (rank_in_type types e) (per_type types col (nth e types 0)) d = nth e col d.
  Proof.
    intros Hl He. unfold rank_in_type.
    set (t := nth e types 0).
    rewrite <- (firstn_skipn e types) at 2. rewrite <- (firstn_skipn e col) at 1.
    rewrite per_type_app by (rewrite !firstn_length; lia).
    rewrite app_nth2.
    2:{ rewrite per_type_length by (rewrite !firstn_length; lia).
        lia. }
    rewrite per_type_length by (rewrite !firstn_length; lia). rewrite Nat.sub_diag.
    destruct (skipn e types) as [|ty rest] eqn:Es.
    { exfalso. assert (length (skipn e types) = 0) by (rewrite Es; reflexivity). rewrite skipn_length in H. lia. }
    destruct (skipn e col) as [|c crest] eqn:Ec.
    { exfalso. assert (length (skipn e col) = 0) by (rewrite Ec; reflexivity). rewrite skipn_length in H. lia. }
    assert (ty = t).
    { unfold t. rewrite <- (firstn_skipn e types) at 1. rewrite app_nth2 by (rewrite firstn_length; lia).
      rewrite firstn_length, Nat.min_l by lia. rewrite Nat.sub_diag, Es. reflexivity. }
    assert (c = nth e col d).
    { rewrite <- (firstn_skipn e col) at 1. rewrite app_nth2 by (rewrite firstn_length; lia).
      rewrite firstn_length, Nat.min_l by lia. rewrite Nat.sub_diag, Ec. reflexivity. }
    subst. unfold per_type. cbn. rewrite Nat.eqb_refl. cbn. reflexivity.
  Qed.
End SynFacts.

(* known defect F5, in the model: indexing the per-type array with the GLOBAL edge index.
   edges [Test; Iono; Iono] (types 0 1 1), s = [_, 1, 9]: edge 1 reads edge 2's value *)
Lemma global_index_refuted :
  nth 1 (per_type [0; 1; 1] [7; 1; 9] 1) 0 = 9 /\ nth (rank_in_type [0; 1; 1] 1) (per_type [0; 1; 1] [7; 1; 9] 1) 0 = 1.
Proof. split; reflexivity. Qed.

(* ---- recordings ------------------------------------------------------------------------------ *)
Lemma record_prefix recs new : exists extra, record recs new = recs ++ extra.
Proof.
  revert recs. induction new as [|r rest IH]; intros recs; cbn.
  - exists []. rewrite app_nil_r. reflexivity.
  - destruct (existsb (rec_eqb r) recs).
    + apply IH.
    + destruct (IH (recs ++ [r])) as [extra E]. exists (r :: extra). rewrite E, <- app_assoc. reflexivity.
Qed.

Lemma rec_eqb_eq a b : rec_eqb a b = true <-> a = b.
Proof.
  unfold rec_eqb. destruct a, b; cbn. rewrite andb_true_iff, !Nat.eqb_eq. split; [intros [-> ->]; reflexivity | intros E; inversion E; auto].
Qed.

Lemma NoDup_snoc {B} (l : list B) x : NoDup l -> ~ In x l -> NoDup (l ++ [x]).
Proof.
  induction l as [|a l IH]; intros H Hx; cbn; [constructor; [intros []|constructor]|].
  inversion H; subst. constructor.
  - intros Hin. apply in_app_or in Hin. destruct Hin as [Hin|[Hin|[]]]; [contradiction|].
    subst. apply Hx. left. reflexivity.
  - apply IH; auto. intros Hin. apply Hx. right. exact Hin.
Qed.

(* existing recordings keep their rows (the order of the record() calls), new ones are
   appended behind them, nothing is recorded twice, and exactly the requested rows are in *)
Theorem record_nodup recs new : NoDup recs -> NoDup (record recs new).
Proof.
  revert recs. induction new as [|r rest IH]; intros recs H; cbn; [exact H|].
  destruct (existsb (rec_eqb r) recs) eqn:E; [apply IH; exact H|].
  apply IH. apply NoDup_snoc; auto.
  intros Hin. assert (existsb (rec_eqb r) recs = true); [|congruence].
  apply existsb_exists. exists r. split; [exact Hin | apply rec_eqb_eq; reflexivity].
Qed.
Theorem record_in recs new r : In r (record recs new) <-> In r recs \/ In r new.
Proof.
  revert recs. induction new as [|a rest IH]; intros recs; cbn; [tauto|].
  destruct (existsb (rec_eqb a) recs) eqn:E.
  - rewrite IH. split; [tauto|]. intros [H|[H|H]]; auto. subst. left.
    apply existsb_exists in E. destruct E as (x & Hx & Hxe). apply rec_eqb_eq in Hxe. subst. exact Hx.
  - rewrite IH, in_app_iff. cbn. tauto.
Qed.

(* ---- t_max ------------------------------------------------------------------------------------ *)
Section Pad.
  Context {A : Type}.
  Lemma nth_firstn_lt (xs : list A) n k d : k < n -> nth k (firstn n xs) d = nth k xs d.
  Proof.
    revert n k. induction xs as [|x xs IH]; intros [|n] [|k] H; cbn; try lia; auto. apply IH. lia.
  Qed.
  Lemma pad_or_truncate_length n (zero : A) xs : length (pad_or_truncate n zero xs) = n.
  Proof. unfold pad_or_truncate. rewrite app_length, firstn_length, repeat_length. lia. Qed.
  Lemma nth_repeat_lt (z : A) m j d : j < m -> nth j (repeat z m) d = z.
  Proof. revert j. induction m as [|m IH]; intros [|j] H; cbn; try lia; auto. apply IH. lia. Qed.
  Lemma pad_or_truncate_nth n (zero : A) xs k d : k < n ->
    nth k (pad_or_truncate n zero xs) d = if k <? length xs then nth k xs d else zero.
  Proof.
    intros Hk. unfold pad_or_truncate. destruct (Nat.ltb_spec k (length xs)).
    - rewrite app_nth1 by (rewrite firstn_length; lia). apply nth_firstn_lt. exact Hk.
    - rewrite app_nth2 by (rewrite firstn_length; lia). rewrite firstn_length, Nat.min_r by lia.
      apply nth_repeat_lt. lia.
  Qed.
End Pad.

(* ---- several stimuli on one compartment add ---------------------------------------------------- *)
Section Stim.
  (* over Z as a stand-in for any commutative group of currents *)
  Lemma scatter_add_length (arr : list Z) inds vals : length (scatter_add Z Z.add arr inds vals) = length arr.
  Proof.
    revert arr vals. induction inds as [|i inds IH]; intros arr [|v vals]; cbn; auto.
    rewrite IH. apply upd_length.
  Qed.
  Definition contrib (c : nat) (inds : list nat) (vals : list Z) : Z :=
    fold_right Z.add 0%Z (map snd (filter (fun iv => Nat.eqb (fst iv) c) (combine inds vals))).
  Theorem scatter_add_sums (arr : list Z) inds vals c :
    Forall (fun i => i < length arr) inds ->
    nth c (scatter_add Z Z.add arr inds vals) 0%Z = (nth c arr 0 + contrib c inds vals)%Z.
  Proof.
    revert arr vals. induction inds as [|i inds IH]; intros arr vals H.
    - unfold contrib. cbn. lia.
    - destruct vals as [|v vals].
      + unfold contrib. cbn. lia.
      + inversion H as [|? ? Hi Hr]; subst. cbn [scatter_add].
        rewrite IH by (rewrite upd_length; exact Hr). rewrite nth_upd.
        unfold contrib. cbn [combine filter fst].
        destruct (Nat.eqb_spec c i) as [->|Hne].
        * destruct (Nat.ltb_spec i (length arr)); try lia. cbn [andb].
          rewrite Nat.eqb_refl. cbn [map fold_right snd].
          rewrite (nth_indep arr v 0%Z) by lia. lia.
        * cbn [andb]. destruct (Nat.eqb_spec i c); [congruence|]. reflexivity.
  Qed.
End Stim.

(* ---- the order in which synapses were created does not matter ------------------------------- *)
From Coq Require Import Permutation.
Lemma contrib_perm c inds vals inds' vals' :
  length inds = length vals -> length inds' = length vals' ->
  Permutation (combine inds vals) (combine inds' vals') ->
  contrib c inds vals = contrib c inds' vals'.
Proof.
  intros _ _ P. unfold contrib.
  induction P as [| x l l' P IH | x y l | l l' l'' P1 IH1 P2 IH2]; cbn.
  - reflexivity.
  - destruct (fst x =? c); cbn; rewrite IH; reflexivity.
  - destruct (fst x =? c), (fst y =? c); cbn; lia.
  - rewrite IH1, IH2. reflexivity.
Qed.
