From Coq Require Import List Arith Bool Lia.
From JV Require Import Views.
Import ListNotations.

Lemma mem_In x l : mem x l = true <-> In x l.
Proof.
  unfold mem. rewrite existsb_exists. split.
  - intros (y & Hy & E). apply Nat.eqb_eq in E. subst. exact Hy.
  - intros H. exists x. split; [exact H | apply Nat.eqb_refl].
Qed.

(* a selection keeps exactly the rows of the view whose scoped index is requested, in order *)
Theorem at_nodes_exact t v s lv l r :
  In r (at_nodes t v s lv (Some l)) <-> In r v /\ In (index_of t v s lv r) l.
Proof. unfold at_nodes. rewrite filter_In, mem_In. tauto. Qed.
Theorem at_nodes_all t v s lv : at_nodes t v s lv None = v.
Proof. reflexivity. Qed.

Lemma filter_sublist {A} (f : A -> bool) l : exists g, filter f l = filter g l /\ forall x, g x = f x.
Proof. exists f; auto. Qed.

Theorem at_nodes_keeps_order t v s lv ids : NoDup v -> NoDup (at_nodes t v s lv ids).
Proof. intros H. destruct ids; cbn; [apply NoDup_filter; exact H | exact H]. Qed.

(* edges stay in view iff they were in view and both ends are in view *)
Theorem edges_in_view_iff edges ev v e :
  In e (edges_in_view edges ev v) <->
  In e ev /\ In (fst (nth e edges (0, 0))) v /\ In (snd (nth e edges (0, 0))) v.
Proof. unfold edges_in_view. rewrite filter_In, andb_true_iff, !mem_In. tauto. Qed.

(* dense ranks: strictly monotone on the values present, and below the number of distinct
   values: the local indices within a parent are exactly 0 .. k-1 *)
Lemma nodup_incl_length (a b : list nat) :
  (forall x, In x a -> In x b) -> length (nodup Nat.eq_dec a) <= length (nodup Nat.eq_dec b).
Proof.
  intros H. apply NoDup_incl_length; [apply NoDup_nodup|].
  intros x Hx. apply nodup_In. apply H. apply nodup_In in Hx. exact Hx.
Qed.

Theorem dense_rank_mono xs x y : In x xs -> x < y -> dense_rank xs x < dense_rank xs y.
Proof.
  intros Hx Hxy. unfold dense_rank.
  assert (Hin : In x (nodup Nat.eq_dec (filter (fun z => z <? y) xs))).
  { apply nodup_In, filter_In. split; [exact Hx | apply Nat.ltb_lt; exact Hxy]. }
  assert (Hnot : ~ In x (nodup Nat.eq_dec (filter (fun z => z <? x) xs))).
  { intros H. apply nodup_In, filter_In in H. destruct H as [_ H]. apply Nat.ltb_lt in H. lia. }
  assert (Hsub : incl (x :: nodup Nat.eq_dec (filter (fun z => z <? x) xs)) (nodup Nat.eq_dec (filter (fun z => z <? y) xs))).
  { intros z [Hz|Hz]; [subst; exact Hin|].
    apply nodup_In, filter_In in Hz. destruct Hz as [Hz1 Hz2]. apply Nat.ltb_lt in Hz2.
    apply nodup_In, filter_In. split; [exact Hz1 | apply Nat.ltb_lt; lia]. }
  apply NoDup_incl_length in Hsub.
  - cbn [length] in Hsub. lia.
  - constructor; [exact Hnot | apply NoDup_nodup].
Qed.

Theorem dense_rank_bound xs x : In x xs -> dense_rank xs x < count_distinct xs.
Proof.
  intros Hx. unfold dense_rank, count_distinct.
  assert (Hnot : ~ In x (nodup Nat.eq_dec (filter (fun z => z <? x) xs))).
  { intros H. apply nodup_In, filter_In in H. destruct H as [_ H]. apply Nat.ltb_lt in H. lia. }
  assert (Hsub : incl (x :: nodup Nat.eq_dec (filter (fun z => z <? x) xs)) (nodup Nat.eq_dec xs)).
  { intros z [Hz|Hz]; [subst; apply nodup_In; exact Hx|].
    apply nodup_In, filter_In in Hz. apply nodup_In. tauto. }
  apply NoDup_incl_length in Hsub.
  - cbn [length] in Hsub. lia.
  - constructor; [exact Hnot | apply NoDup_nodup].
Qed.

(* on a full module (indices 0 .. n-1 all present) local and global indices coincide *)
Theorem dense_rank_full n x : x < n -> dense_rank (seq 0 n) x = x.
Proof.
  intros Hx. unfold dense_rank.
  assert (E : filter (fun y => y <? x) (seq 0 n) = seq 0 x).
  { replace n with (x + (n - x)) by lia. rewrite seq_app, filter_app.
    assert (A : forall k m, (forall y, In y (seq k m) -> y < x) -> filter (fun y => y <? x) (seq k m) = seq k m).
    { intros k m. revert k. induction m as [|m IH]; intros k H; cbn [seq filter]; [reflexivity|].
      destruct (Nat.ltb_spec k x) as [_|Hk]; [|exfalso; specialize (H k (or_introl eq_refl)); lia].
      rewrite IH; [reflexivity|]. intros y Hy. apply H. right. exact Hy. }
    assert (B : forall k m, x <= k -> filter (fun y => y <? x) (seq k m) = []).
    { intros k m. revert k. induction m as [|m IH]; intros k H; cbn [seq filter]; [reflexivity|].
      destruct (Nat.ltb_spec k x); [lia|]. apply IH. lia. }
    rewrite A, B; [apply app_nil_r | cbn; lia |]. intros y Hy. apply in_seq in Hy. lia. }
  rewrite E. rewrite nodup_fixed_point by apply seq_NoDup. apply seq_length.
Qed.

(* a chain of selections only ever narrows the view *)
Lemma at_nodes_narrows t v s lv ids : forall r, In r (at_nodes t v s lv ids) -> In r v.
Proof. intros r H. destruct ids as [l|]; cbn in H; [apply filter_In in H; tauto | exact H]. Qed.

Lemma select_step_narrows t sh v s lv i v' : select_step t sh v s lv i = Some v' -> forall r, In r v' -> In r v.
Proof.
  unfold select_step. intros H r Hr.
  assert (A : forall ids s', Some (at_nodes t v s' lv ids) = Some v' -> In r v).
  { intros ids s' E. injection E as E. subst v'. eapply at_nodes_narrows; exact Hr. }
  assert (G : match reformat (length t) sh i with None => None | Some ids => Some (at_nodes t v s lv ids) end = Some v' -> In r v).
  { destruct (reformat (length t) sh i) as [ids|]; [|discriminate]. apply A. }
  destruct i; try (apply G; exact H).
  destruct (length m =? length (np_unique (map (global_index t lv) v))); [|apply G; exact H].
  eapply A; exact H.
Qed.

Theorem chain_narrows t sh : forall c v v', chain t sh v c = Some v' -> forall r, In r v' -> In r v.
Proof.
  induction c as [|[[s lv] i] rest IH]; intros v v' H r Hr; cbn [chain] in H.
  - inversion H; subst. exact Hr.
  - destruct (select_step t (sh v) v s lv i) as [[|a l]|] eqn:E; try discriminate.
    eapply select_step_narrows; [exact E|]. eapply IH; eauto.
Qed.

(* boolean masks: positional among what is in view, in either scope *)
Lemma mask_step_exact t sh v s lv m :
  length m = length (np_unique (map (global_index t lv) v)) ->
  select_step t sh v s lv (IMask m)
  = Some (filter (fun r => mem (global_index t lv r) (mask_select m (np_unique (map (global_index t lv) v)))) v).
Proof. intros H. unfold select_step. apply Nat.eqb_eq in H. rewrite H. reflexivity. Qed.

Lemma mask_step_scope_independent t sh v lv m :
  length m = length (np_unique (map (global_index t lv) v)) ->
  select_step t sh v Local lv (IMask m) = select_step t sh v Global lv (IMask m).
Proof. intros H. now rewrite !mask_step_exact. Qed.

Lemma filter_mem_id (f : nat -> nat) u : forall v, (forall r, In r v -> In (f r) u) -> filter (fun r => mem (f r) u) v = v.
Proof.
  induction v as [|r v IH]; intros Hu; [reflexivity|]. cbn [filter].
  assert (M : mem (f r) u = true) by (apply mem_In, Hu; now left). rewrite M. f_equal.
  apply IH. intros q Hq. apply Hu. now right.
Qed.

Lemma mask_all_true_selects_everything t sh v s lv :
  let u := np_unique (map (global_index t lv) v) in
  (forall r, In r v -> In (global_index t lv r) u) ->
  select_step t sh v s lv (IMask (repeat true (length u))) = Some v.
Proof.
  intros u Hu. rewrite mask_step_exact by (now rewrite repeat_length).
  fold u. f_equal.
  assert (E : forall l, mask_select (repeat true (length l)) l = l).
  { unfold mask_select. intros l. induction l as [|x l IH]; [reflexivity|]. cbn. now rewrite IH. }
  rewrite E. now apply filter_mem_id.
Qed.

Lemma insert_sorted_In x y : forall l, In y (insert_sorted x l) <-> y = x \/ In y l.
Proof.
  induction l as [|z l IHl]; cbn [insert_sorted].
  - cbn. intuition.
  - destruct (Nat.ltb_spec x z).
    + cbn. intuition.
    + destruct (Nat.eqb_spec x z) as [->|Hne].
      * cbn. intuition.
      * cbn [In]. rewrite IHl. intuition.
Qed.
Lemma np_unique_In y l : In y (np_unique l) <-> In y l.
Proof. induction l as [|x l IH]; cbn; [tauto|]. rewrite insert_sorted_In, IH. intuition. Qed.
