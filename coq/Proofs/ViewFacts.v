From Coq Require Import List Arith Bool Lia.
From JV Require Import Views.
Import ListNotations.

Lemma mem_In x l : mem x l = true <-> In x l.
Proof.
  unfold mem. rewrite existsb_exists. split.
  - intros (y & Hy & E). apply Nat.eqb_eq in E. subst. exact Hy.
  - intros H. exists x. split; [exact H | apply Nat.eqb_refl].
Qed.

(* a selection keeps exactly the rows of the view whose scoped index is requested, in order *)
Theorem at_nodes_exact t v s lv l r :
  In r (at_nodes t v s lv (Some l)) <-> In r v /\ In (index_of t v s lv r) l.
Proof. unfold at_nodes. rewrite filter_In, mem_In. tauto. Qed.
Theorem at_nodes_all t v s lv : at_nodes t v s lv None = v.
Proof. reflexivity. Qed.

Lemma filter_sublist {A} (f : A -> bool) l : exists g, filter f l = filter g l /\ forall x, g x = f x.
Proof. exists f; auto. Qed.

Theorem at_nodes_keeps_order t v s lv ids : NoDup v -> NoDup (at_nodes t v s lv ids).
Proof. intros H. destruct ids; cbn; [apply NoDup_filter; exact H | exact H]. Qed.

(* edges stay in view iff they were in view and both ends are in view *)
Theorem edges_in_view_iff edges ev v e :
  In e (edges_in_view edges ev v) <->
  In e ev /\ In (fst (nth e edges (0, 0))) v /\ In (snd (nth e edges (0, 0))) v.
Proof. unfold edges_in_view. rewrite filter_In, andb_true_iff, !mem_In. tauto. Qed.

(* dense ranks: strictly monotone on the values present, and below the number of distinct
   values: the local indices within a parent are exactly 0 .. k-1 *)
Lemma nodup_incl_length (a b : list nat) :
  (forall x, In x a -> In x b) -> length (nodup Nat.eq_dec a) <= length (nodup Nat.eq_dec b).
Proof.
  intros H. apply NoDup_incl_length; [apply NoDup_nodup|].
  intros x Hx. apply nodup_In. apply H. apply nodup_In in Hx. exact Hx.
Qed.

Theorem dense_rank_mono xs x y : In x xs -> x < y -> dense_rank xs x < dense_rank xs y.
Proof.
  intros Hx Hxy. unfold dense_rank.
  assert (Hin : In x (nodup Nat.eq_dec (filter (fun z => z <? y) xs))).
  { apply nodup_In, filter_In. split; [exact Hx | apply Nat.ltb_lt; exact Hxy]. }
  assert (Hnot : ~ In x (nodup Nat.eq_dec (filter (fun z => z <? x) xs))).
  { intros H. apply nodup_In, filter_In in H. destruct H as [_ H]. apply Nat.ltb_lt in H. lia. }
  assert (Hsub : incl (x :: nodup Nat.eq_dec (filter (fun z => z <? x) xs)) (nodup Nat.eq_dec (filter (fun z => z <? y) xs))).
  { intros z [Hz|Hz]; [subst; exact Hin|].
    apply nodup_In, filter_In in Hz. destruct Hz as [Hz1 Hz2]. apply Nat.ltb_lt in Hz2.
    apply nodup_In, filter_In. split; [exact Hz1 | apply Nat.ltb_lt; lia]. }
  apply NoDup_incl_length in Hsub.
  - cbn [length] in Hsub. lia.
  - constructor; [exact Hnot | apply NoDup_nodup].
Qed.

Theorem dense_rank_bound xs x : In x xs -> dense_rank xs x < count_distinct xs.
Proof.
  intros Hx. unfold dense_rank, count_distinct.
  assert (Hnot : ~ In x (nodup Nat.eq_dec (filter (fun z => z <? x) xs))).
  { intros H. apply nodup_In, filter_In in H. destruct H as [_ H]. apply Nat.ltb_lt in H. lia. }
  assert (Hsub : incl (x :: nodup Nat.eq_dec (filter (fun z => z <? x) xs)) (nodup Nat.eq_dec xs)).
  { intros z [Hz|Hz]; [subst; apply nodup_In; exact Hx|].
    apply nodup_In, filter_In in Hz. apply nodup_In. tauto. }
  apply NoDup_incl_length in Hsub.
  - cbn [length] in Hsub. lia.
  - constructor; [exact Hnot | apply NoDup_nodup].
Qed.

(* on a full module (indices 0 .. n-1 all present) local and global indices coincide *)
Theorem dense_rank_full n x : x < n -> dense_rank (seq 0 n) x = x.
Proof.
  intros Hx. unfold dense_rank.
  assert (E : filter (fun y => y <? x) (seq 0 n) = seq 0 x).
  { replace n with (x + (n - x)) by lia. rewrite seq_app, filter_app.
    assert (A : forall k m, (forall y, In y (seq k m) -> y < x) -> filter (fun y => y <? x) (seq k m) = seq k m).
    { intros k m. revert k. induction m as [|m IH]; intros k H; cbn [seq filter]; [reflexivity|].
      destruct (Nat.ltb_spec k x) as [_|Hk]; [|exfalso; specialize (H k (or_introl eq_refl)); lia].
      rewrite IH; [reflexivity|]. intros y Hy. apply H. right. exact Hy. }
    assert (B : forall k m, x <= k -> filter (fun y => y <? x) (seq k m) = []).
    { intros k m. revert k. induction m as [|m IH]; intros k H; cbn [seq filter]; [reflexivity|].
      destruct (Nat.ltb_spec k x); [lia|]. apply IH. lia. }
    rewrite A, B; [apply app_nil_r | cbn; lia |]. intros y Hy. apply in_seq in Hy. lia. }
  rewrite E. rewrite nodup_fixed_point by apply seq_NoDup. apply seq_length.
Qed.

(* a chain of selections only ever narrows the view *)
Theorem chain_narrows t sh : forall c v v', chain t sh v c = Some v' -> forall r, In r v' -> In r v.
Proof.
  induction c as [|[[s lv] i] rest IH]; intros v v' H r Hr; cbn in H.
  - inversion H; subst. exact Hr.
  - destruct (reformat (length t) (sh v) i) as [ids|]; [|discriminate].
    destruct (at_nodes t v s lv ids) as [|a l] eqn:E; [discriminate|].
    specialize (IH _ _ H r Hr). rewrite <- E in IH.
    destruct ids as [l0|]; cbn in IH; [apply filter_In in IH; tauto | exact IH].
Qed.
