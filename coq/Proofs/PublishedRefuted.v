(* Known finding F15, machine-checked: CaT's tau_u does NOT equal the published
   expression once both clipped exponentials saturate (v + vx > -20 mV). *)
From Coq Require Import Reals Lra.
From Interval Require Import Tactic.
From JV Require Import Prim RLemmas GChannels Published.
Local Open Scope R_scope.

Lemma CaT_tau_u_refuted :
  exists v vx, -150 <= v <= 100 /\ Rabs (CaT_u_gate__b v vx - Pub.CaT_tau_u v vx) > 1 / 5.
Proof.
  exists 0, 2. split; [lra|].
  unfold CaT_u_gate__b, Pub.CaT_tau_u. cbv zeta.
  rewrite !Rmin_right by lra. interval.
Qed.
