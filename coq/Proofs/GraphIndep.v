(* C12 at the array level: parts of the conductance graph that no edge connects simulate independently.
   Let S be a set of nodes (compartments and branch points) that is closed under the edges (every edge has both ends
   in S or both outside).  If two data sets - previous voltages, membrane terms, and the conductances of the edges
   ending in S - agree on S, then the solutions of the two backward-Euler graph systems agree on S, whatever the
   rest of the network looks like (other cells may have other parameters, voltages, stimuli).  Consequence of the
   uniqueness of the solution: the hybrid of the two solutions solves the first system. *)
From Coq Require Import Reals List Arith Bool Lia Lra.
From JV Require Import HinesArr HinesCheck HinesArrFacts HinesArrPositive AsmStruct AssembleM AssembleGraph.
Import ListNotations.
Local Open Scope R_scope.

Lemma wsum_F2 {A} (F F' : A -> R) (p p' : A -> bool) : forall l l',
  Forall2 (fun e e' => p e = p' e' /\ (p e = true -> F e = F' e')) l l' -> wsum F p l = wsum F' p' l'.
Proof.
  induction 1 as [|e e' l l' [Hp HF] _ IH]; [reflexivity|]. cbn [wsum fold_right]. fold (wsum F p l) (wsum F' p' l').
  rewrite IH, <- Hp. destruct (p e) eqn:E; [rewrite (HF eq_refl)|]; reflexivity.
Qed.

Lemma Forall2_in_l {A B} (Rr : A -> B -> Prop) l l' a : Forall2 Rr l l' -> In a l -> exists b, Rr a b.
Proof. induction 1 as [|x y l l' H _ IH]; intros Hin; [destruct Hin|]. destruct Hin as [<-|Hin]; [exists y; exact H | apply IH, Hin]. Qed.

Lemma Forall2_impl' {A B} (R1 R2 : A -> B -> Prop) l l' : (forall a b, R1 a b -> R2 a b) -> Forall2 R1 l l' -> Forall2 R2 l l'.
Proof. intros H. induction 1; constructor; auto. Qed.

Section Indep.
  Variables (ly : layout) (tp : topo).
  Variables (mask : nat -> nat) (ncomp : nat) (es es' : list (edge R)) (v vt ct v' vt' ct' : nat -> R) (dt : R).
  Variable inS : nat -> bool.
  Notation g := (e_g R).
  Notation src := (e_source R).
  Notation snk := (e_sink R).
  Notation ty := (e_type R).

  Hypothesis inj : forall c c', (c < ncomp)%nat -> (c' < ncomp)%nat -> mask c = mask c' -> c = c'.
  (* same integer structure; S closed under the edges; same conductance on the edges that end in S *)
  Hypothesis same : Forall2 (fun e e' => strip e = strip e' /\ inS (src e) = inS (snk e) /\ (inS (snk e) = true -> g e = g e')) es es'.
  Hypothesis agree : forall c, (c < ncomp)%nat -> inS c = true -> v c = v' c /\ vt c = vt' c /\ ct c = ct' c.

  Variables (x y x' y' : nat -> R).
  Hypothesis Sol : graph_eq ly tp mask ncomp es v vt ct dt x y.
  Hypothesis Sol' : graph_eq ly tp mask ncomp es' v' vt' ct' dt x' y'.

  Definition slotS (i : nat) : bool := existsb (fun c => (mask c =? i)%nat && inS c) (seq 0 ncomp).
  Definition hx (i : nat) : R := if slotS i then x' i else x i.
  Definition hy (j : nat) : R := if inS (ncomp + j) then y' j else y j.

  Lemma hx_in c : (c < ncomp)%nat -> inS c = true -> hx (mask c) = x' (mask c).
  Proof.
    intros Hc Hs. unfold hx. replace (slotS (mask c)) with true; [reflexivity|]. symmetry. apply existsb_exists.
    exists c. split; [apply in_seq; lia|]. rewrite Nat.eqb_refl, Hs. reflexivity.
  Qed.
  Lemma hx_out c : (c < ncomp)%nat -> inS c = false -> hx (mask c) = x (mask c).
  Proof.
    intros Hc Hs. unfold hx. destruct (slotS (mask c)) eqn:E; [|reflexivity]. exfalso.
    apply existsb_exists in E. destruct E as (c' & Hc' & H). apply in_seq in Hc'. apply andb_true_iff in H. destruct H as [H1 H2].
    apply Nat.eqb_eq in H1. assert (c' = c) by (apply inj; auto; lia). subst. congruence.
  Qed.
  Lemma zz_in n : inS n = true -> zz mask ncomp hx hy n = zz mask ncomp x' y' n.
  Proof.
    intros Hs. unfold zz. destruct (Nat.ltb_spec n ncomp) as [H|H]; [apply hx_in; assumption|].
    unfold hy. replace (ncomp + (n - ncomp))%nat with n by lia. rewrite Hs. reflexivity.
  Qed.
  Lemma zz_out n : inS n = false -> zz mask ncomp hx hy n = zz mask ncomp x y n.
  Proof.
    intros Hs. unfold zz. destruct (Nat.ltb_spec n ncomp) as [H|H]; [apply hx_out; assumption|].
    unfold hy. replace (ncomp + (n - ncomp))%nat with n by lia. rewrite Hs. reflexivity.
  Qed.

  Lemma closed e : In e es -> inS (src e) = inS (snk e).
  Proof. intros H. destruct (Forall2_in_l _ _ _ _ same H) as (e' & _ & C & _). exact C. Qed.

  Lemma strip_fields (e e' : edge R) : strip e = strip e' -> src e = src e' /\ snk e = snk e' /\ ty e = ty e'.
  Proof. unfold strip. intros H. inversion H. auto. Qed.

  (* the hybrid - the second solution on S, the first elsewhere - solves the first system *)
  Theorem hybrid_solves : graph_eq ly tp mask ncomp es v vt ct dt hx hy.
  Proof.
    destruct Sol as (C1 & B1 & P1). destruct Sol' as (C2 & B2 & P2). split; [|split].
    - intros c Hc. destruct (inS c) eqn:Hs.
      + destruct (agree c Hc Hs) as (Ev & Evt & Ect). specialize (C2 c Hc). unfold comp_lhs, comp_rhs in *.
        rewrite (hx_in c Hc Hs), Ev, Evt, Ect, <- C2. f_equal. f_equal.
        apply wsum_F2. eapply Forall2_impl'; [|exact same]. intros e e' (St & Cl & Gg). cbv beta.
        destruct (strip_fields e e' St) as (E1 & E2 & E3). unfold into. rewrite <- E2, <- E3. split; [reflexivity|].
        intros Hp. apply andb_true_iff in Hp. destruct Hp as [_ Hk]. apply Nat.eqb_eq in Hk.
        rewrite <- E1, Gg by (rewrite Hk; exact Hs). rewrite zz_in by (rewrite Cl, Hk; exact Hs). reflexivity.
      + specialize (C1 c Hc). unfold comp_lhs, comp_rhs in *. rewrite (hx_out c Hc Hs), <- C1. f_equal. f_equal.
        apply wsum_val_ext. intros e He Hp. unfold into in Hp. apply andb_true_iff in Hp. destruct Hp as [_ Hk]. apply Nat.eqb_eq in Hk.
        rewrite zz_out by (rewrite (closed e He), Hk; exact Hs). reflexivity.
    - intros j Hj. destruct (inS (ncomp + j)) eqn:Hs.
      + specialize (B2 j Hj). unfold bp_graph in *. rewrite <- B2.
        apply wsum_F2. eapply Forall2_impl'; [|exact same]. intros e e' (St & Cl & Gg). cbv beta.
        destruct (strip_fields e e' St) as (E1 & E2 & E3). unfold bp_into, is_type. rewrite <- E2, <- E3. split; [reflexivity|].
        intros Hp. apply andb_true_iff in Hp. destruct Hp as [_ Hk]. apply Nat.eqb_eq in Hk.
        rewrite <- E1, Gg by (rewrite Hk; exact Hs). rewrite zz_in by (rewrite Cl, Hk; exact Hs). unfold hy. rewrite Hs. reflexivity.
      + specialize (B1 j Hj). unfold bp_graph in *. rewrite <- B1.
        apply wsum_val_ext. intros e He Hp. unfold bp_into in Hp. apply andb_true_iff in Hp. destruct Hp as [_ Hk]. apply Nat.eqb_eq in Hk.
        rewrite zz_out by (rewrite (closed e He), Hk; exact Hs). unfold hy. rewrite Hs. reflexivity.
    - intros b k Hb Hk. unfold hx. destruct (slotS _); [apply P2 | apply P1]; assumption.
  Qed.

  (* uniqueness of the first system => the two solutions agree on S *)
  Theorem parts_independent :
    (forall c, (c < ncomp)%nat -> exists b r, (b < nb tp)%nat /\ (r < pl ly b)%nat /\ mask c = (cs ly b + r)%nat) ->
    (forall x1 y1 x2 y2, graph_eq ly tp mask ncomp es v vt ct dt x1 y1 -> graph_eq ly tp mask ncomp es v vt ct dt x2 y2 ->
       forall b k, (b < nb tp)%nat -> (k < pl ly b)%nat -> x1 (cs ly b + k)%nat = x2 (cs ly b + k)%nat) ->
    forall c, (c < ncomp)%nat -> inS c = true -> x (mask c) = x' (mask c).
  Proof.
    intros Hslot U c Hc Hs. destruct (Hslot c Hc) as (b & r & Hb & Hr & Em).
    pose proof (U hx hy x y hybrid_solves Sol b r Hb Hr) as Eq. rewrite <- Em in Eq. rewrite <- Eq. apply hx_in; assumption.
  Qed.
End Indep.
