(* Units and temporal convergence order of the single-compartment (RC) scheme (C15). *)
From Coq Require Import Reals Lra Lia.
From Interval Require Import Tactic.
From JV Require Import Prim RLemmas GCellUtils GChannels CableConservation.
Local Open Scope R_scope.

(* one backward-Euler step of a single passive compartment, as Module.step assembles it:
   membrane term g*1000 (mA -> uA), stimulus converted by point_to_distributed *)
Definition rc_step (v dt g E cm I r l : R) : R :=
  (v + dt * ((Leak_current__i 0 g E * (-1000)) + point_to_distributed__i I r l) / cm)
  / (1 + dt * (g * 1000) / cm).
(* its steady state and time constant in the documented units (um, S/cm2, uF/cm2, nA, mV, ms) *)
Definition rc_vinf (g E I r l : R) : R := E + 100 * I / (g * (2 * pi_f * r * l)).
Definition rc_tau (g cm : R) : R := cm / (1000 * g).

Lemma rc_step_contracts v dt g E cm I r l :
  0 < dt -> 0 < g -> 0 < cm -> 0 < r -> 0 < l ->
  rc_step v dt g E cm I r l - rc_vinf g E I r l
  = (v - rc_vinf g E I r l) / (1 + dt / rc_tau g cm).
Proof.
  intros. unfold rc_step, rc_vinf, rc_tau, Leak_current__i, point_to_distributed__i, pi_f. cbv zeta.
  assert (0 < 1 + dt * (g * 1000) / cm).
  { assert (0 < dt * (g * 1000) / cm) by (apply Rdiv_lt_0_compat; nra). lra. }
  assert (0 < 1 + dt / (cm / (1000 * g))).
  { assert (0 < dt / (cm / (1000 * g))); [|lra]. apply Rdiv_lt_0_compat; [lra|]. apply Rdiv_lt_0_compat; nra. }
  field. repeat split; try lra; try nra.
Qed.
Lemma rc_steady_state dt g E cm I r l :
  0 < dt -> 0 < g -> 0 < cm -> 0 < r -> 0 < l ->
  rc_step (rc_vinf g E I r l) dt g E cm I r l = rc_vinf g E I r l.
Proof.
  intros. pose proof (rc_step_contracts (rc_vinf g E I r l) dt g E cm I r l) as C.
  assert (rc_step (rc_vinf g E I r l) dt g E cm I r l - rc_vinf g E I r l = 0); [|lra].
  rewrite C by assumption. unfold Rdiv. ring.
Qed.

(* ---- backward Euler is first order: |(1+x)^-n - exp(-n x)| <= n x^2 ------------------ *)
Lemma bwd_local x : 0 <= x -> 0 <= / (1 + x) - exp (- x) <= x ^ 2.
Proof.
  intros Hx. pose proof (exp_ineq1_le x) as H1. pose proof (exp_ineq1_le (- x)) as H2.
  pose proof (exp_pos x). rewrite exp_Ropp in *.
  assert (0 < 1 + x) by lra.
  split.
  - assert (/ exp x <= / (1 + x)); [|lra]. apply Rinv_le_contravar; lra.
  - assert (/ (1 + x) <= 1 - x + x ^ 2).
    { apply Rmult_le_reg_r with (1 + x); [lra|]. rewrite Rinv_l by lra. simpl pow. nra. }
    lra.
Qed.
Lemma pow_diff_le a b n : 0 <= a <= 1 -> 0 <= b <= 1 -> Rabs (a ^ n - b ^ n) <= INR n * Rabs (a - b).
Proof.
  intros Ha Hb. induction n as [|n IH].
  - simpl. rewrite Rminus_diag_eq by reflexivity. rewrite Rabs_R0. lra.
  - rewrite S_INR. simpl pow.
    replace (a * a ^ n - b * b ^ n) with (a * (a ^ n - b ^ n) + (a - b) * b ^ n) by ring.
    eapply Rle_trans; [apply Rabs_triang|]. rewrite !Rabs_mult.
    assert (0 <= b ^ n <= 1).
    { split; [apply pow_le; lra|]. rewrite <- (pow1 n). apply pow_incr. lra. }
    rewrite (Rabs_right a) by lra. rewrite (Rabs_right (b ^ n)) by lra.
    pose proof (Rabs_pos (a - b)). pose proof (Rabs_pos (a ^ n - b ^ n)). nra.
Qed.
Lemma exp_pow_nat x n : exp (- (INR n * x)) = exp (- x) ^ n.
Proof.
  induction n as [|n IH]; [simpl; rewrite Rmult_0_l, Ropp_0; apply exp_0|].
  rewrite S_INR. simpl pow. rewrite <- IH, <- exp_plus. f_equal. ring.
Qed.
Theorem bwd_first_order x n : 0 <= x ->
  Rabs ((/ (1 + x)) ^ n - exp (- (INR n * x))) <= INR n * x ^ 2.
Proof.
  intros Hx. rewrite exp_pow_nat. pose proof (bwd_local x Hx) as L.
  assert (0 <= / (1 + x) <= 1).
  { split; [left; apply Rinv_0_lt_compat; lra|]. rewrite <- Rinv_1 at 2. apply Rinv_le_contravar; lra. }
  assert (0 <= exp (- x) <= 1).
  { split; [left; apply exp_pos | apply exp_neg_le1; lra]. }
  eapply Rle_trans; [apply pow_diff_le; assumption|].
  apply Rmult_le_compat_l; [apply pos_INR|]. rewrite Rabs_right by lra. lra.
Qed.

(* ---- Crank-Nicolson is second order: |r(x)^n - exp(-n x)| <= n x^3/6, r = (1-x/2)/(1+x/2) - *)
Lemma cn_local x : 1 / 1000 <= x <= 1 ->
  Rabs ((1 - x / 2) / (1 + x / 2) - exp (- x)) <= x ^ 3 / 6.
Proof.
  intros H. apply Rabs_le. split.
  - assert (0 <= x ^ 3 / 6 + ((1 - x / 2) / (1 + x / 2) - exp (- x))); [|lra].
    interval with (i_bisect x, i_taylor x, i_degree 8, i_prec 80).
  - assert (0 <= x ^ 3 / 6 - ((1 - x / 2) / (1 + x / 2) - exp (- x))); [|lra].
    interval with (i_bisect x, i_taylor x, i_degree 8, i_prec 80).
Qed.
Theorem cn_second_order x n : 1 / 1000 <= x <= 1 ->
  Rabs (((1 - x / 2) / (1 + x / 2)) ^ n - exp (- (INR n * x))) <= INR n * (x ^ 3 / 6).
Proof.
  intros Hx. rewrite exp_pow_nat. pose proof (cn_local x Hx) as L.
  assert (0 <= (1 - x / 2) / (1 + x / 2) <= 1).
  { split; [apply Rle_mult_inv_pos; lra|]. apply Rmult_le_reg_r with (1 + x / 2); [lra|].
    replace ((1 - x / 2) / (1 + x / 2) * (1 + x / 2)) with (1 - x / 2) by (field; lra). lra. }
  assert (0 <= exp (- x) <= 1).
  { split; [left; apply exp_pos | apply exp_neg_le1; lra]. }
  eapply Rle_trans; [apply pow_diff_le; assumption|].
  apply Rmult_le_compat_l; [apply pos_INR | exact L].
Qed.
(* Crank-Nicolson = 2 * (implicit half step) - v : for the scalar problem the amplification is r(x) *)
Lemma cn_amplification x : 0 <= x -> 2 * (/ (1 + x / 2)) - 1 = (1 - x / 2) / (1 + x / 2).
Proof. intros. field. lra. Qed.
Lemma c15_example : 1 / 1000 <= 1 / 40 <= 1.
Proof. lra. Qed.
