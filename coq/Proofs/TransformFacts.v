(* Parameter transforms (C17): bounds, monotonicity, both round trips, over all reals. *)
From Coq Require Import Reals Lra Bool List.
From JV Require Import Prim RLemmas GTransforms.
Local Open Scope R_scope.

(* ---- stable softplus:  max(x,0) + log1p(exp(-|x|)) = ln(1 + exp x) ----------- *)
Definition softplus (x : R) : R := ln (1 + exp x).

Lemma softplus_stable x : Rmax x 0 + ln (1 + exp (- Rabs x)) = softplus x.
Proof.
  unfold softplus. destruct (Rle_dec 0 x) as [H|H].
  - rewrite Rmax_left by lra. rewrite Rabs_right by lra.
    rewrite <- (ln_exp x) at 1. rewrite <- ln_mult.
    + f_equal. rewrite Rmult_plus_distr_l, <- exp_plus.
      replace (x + - x) with 0 by ring. rewrite exp_0. ring.
    + apply exp_pos.
    + pose proof (exp_pos (- x)); lra.
  - rewrite Rmax_right by lra. rewrite Rabs_left by lra.
    replace (- - x) with x by ring. ring.
Qed.
Lemma softplus_pos x : 0 < softplus x.
Proof.
  unfold softplus. rewrite <- ln_1. apply ln_increasing; [lra|]. pose proof (exp_pos x); lra.
Qed.
Lemma softplus_incr x y : x < y -> softplus x < softplus y.
Proof.
  intros H. unfold softplus. apply ln_increasing.
  - pose proof (exp_pos x); lra.
  - pose proof (exp_increasing x y H); lra.
Qed.
(* inverse:  z + ln(-(exp(-z) - 1)) = ln(exp z - 1)  for z > 0 *)
Definition softplus_inv (z : R) : R := z + ln (- (exp (- z) - 1)).
Lemma softplus_inv_dom z : 0 < z -> 0 < - (exp (- z) - 1).
Proof. intros H. assert (exp (- z) < 1) by (apply exp_neg_lt1; lra). lra. Qed.
Lemma softplus_inv_l x : softplus_inv (softplus x) = x.
Proof.
  unfold softplus_inv, softplus.
  assert (P : 0 < 1 + exp x) by (pose proof (exp_pos x); lra).
  rewrite exp_Ropp, exp_ln by exact P.
  replace (- (/ (1 + exp x) - 1)) with (exp x / (1 + exp x)) by (field; lra).
  rewrite <- ln_mult.
  - replace ((1 + exp x) * (exp x / (1 + exp x))) with (exp x) by (field; lra). apply ln_exp.
  - exact P.
  - apply Rdiv_lt_0_compat; [apply exp_pos | exact P].
Qed.
Lemma softplus_inv_r z : 0 < z -> softplus (softplus_inv z) = z.
Proof.
  intros H. unfold softplus_inv, softplus.
  pose proof (softplus_inv_dom z H) as D.
  rewrite exp_plus, exp_ln by exact D.
  replace (1 + exp z * - (exp (- z) - 1)) with (exp z).
  - apply ln_exp.
  - rewrite exp_Ropp. pose proof (exp_pos z). field. lra.
Qed.

(* ---- logistic and logit ------------------------------------------------------ *)
Definition logistic (x : R) : R := 1 / (1 + exp (- x)).
Definition logit (t : R) : R := - ln (1 / t - 1).
Lemma logistic_unit' x : 0 < logistic x < 1.
Proof. apply inv1p_unit. apply exp_pos. Qed.
Lemma logistic_incr x y : x < y -> logistic x < logistic y.
Proof.
  intros H. unfold logistic.
  assert (exp (- y) < exp (- x)) by (apply exp_increasing; lra).
  pose proof (exp_pos (- x)). pose proof (exp_pos (- y)).
  unfold Rdiv. rewrite !Rmult_1_l. apply Rinv_lt_contravar; [|lra].
  apply Rmult_lt_0_compat; lra.
Qed.
Lemma logit_logistic x : logit (logistic x) = x.
Proof.
  unfold logit, logistic. pose proof (exp_pos (- x)).
  replace (1 / (1 / (1 + exp (- x))) - 1) with (exp (- x)) by (field; lra).
  rewrite ln_exp. ring.
Qed.
Lemma logistic_logit t : 0 < t < 1 -> logistic (logit t) = t.
Proof.
  intros [H0 H1]. unfold logit, logistic.
  assert (0 < 1 / t - 1).
  { assert (1 < 1 / t); [|lra]. unfold Rdiv. rewrite Rmult_1_l.
    rewrite <- Rinv_1 at 1. apply Rinv_lt_contravar; lra. }
  replace (- - ln (1 / t - 1)) with (ln (1 / t - 1)) by ring.
  rewrite exp_ln by assumption. field. lra.
Qed.

(* ---- the traced transforms ----------------------------------------------------- *)
Lemma sigmoid_forward_shape x lo up : sigmoid_forward__y x lo up = lo + (up - lo) * logistic x.
Proof. reflexivity. Qed.
Lemma sigmoid_inverse_shape y lo up : sigmoid_inverse__x y lo up = logit ((y - lo) / (up - lo)).
Proof. reflexivity. Qed.

Lemma sigmoid_facts lo up : lo < up ->
  (forall x, lo < sigmoid_forward__y x lo up < up) /\
  (forall x1 x2, x1 < x2 -> sigmoid_forward__y x1 lo up < sigmoid_forward__y x2 lo up) /\
  (forall x, sigmoid_inverse__x_dom (sigmoid_forward__y x lo up) lo up /\
             sigmoid_inverse__x (sigmoid_forward__y x lo up) lo up = x) /\
  (forall y, lo < y < up -> sigmoid_inverse__x_dom y lo up /\
             sigmoid_forward__y (sigmoid_inverse__x y lo up) lo up = y).
Proof.
  intros Hw.
  assert (T : forall y, lo < y < up -> 0 < (y - lo) / (up - lo) < 1).
  { intros y [A B]. split.
    - apply Rdiv_lt_0_compat; lra.
    - apply Rmult_lt_reg_r with (up - lo); [lra|].
      replace ((y - lo) / (up - lo) * (up - lo)) with (y - lo) by (field; lra). lra. }
  assert (D : forall y, lo < y < up -> sigmoid_inverse__x_dom y lo up).
  { intros y Hy. destruct (T y Hy) as [A B]. unfold sigmoid_inverse__x_dom. cbv zeta.
    repeat split; try lra.
    assert (1 < 1 / ((y - lo) / (up - lo))); [|lra].
    unfold Rdiv at 1. rewrite Rmult_1_l. rewrite <- Rinv_1 at 1.
    apply Rinv_lt_contravar; lra. }
  assert (B : forall x, lo < sigmoid_forward__y x lo up < up).
  { intros x. rewrite sigmoid_forward_shape. pose proof (logistic_unit' x). split; nra. }
  split; [exact B|]. split.
  - intros x1 x2 H. rewrite !sigmoid_forward_shape. pose proof (logistic_incr x1 x2 H). nra.
  - split.
    + intros x. split; [apply D, B|].
      rewrite sigmoid_inverse_shape, sigmoid_forward_shape.
      replace ((lo + (up - lo) * logistic x - lo) / (up - lo)) with (logistic x) by (field; lra).
      apply logit_logistic.
    + intros y Hy. split; [apply D, Hy|].
      rewrite sigmoid_forward_shape, sigmoid_inverse_shape.
      rewrite logistic_logit by (apply T, Hy). field. lra.
Qed.

Lemma softplus_forward_shape x lo : softplus_forward__y x lo = softplus x + lo.
Proof.
  unfold softplus_forward__y. cbv zeta. rewrite reqb_refl. cbn [negb].
  replace (x - 0) with x by ring. rewrite softplus_stable. reflexivity.
Qed.
Lemma softplus_inverse_shape y lo : softplus_inverse__x y lo = softplus_inv (y - lo).
Proof. reflexivity. Qed.

Lemma softplus_facts lo :
  (forall x, softplus_forward__y_dom x lo /\ lo < softplus_forward__y x lo) /\
  (forall x1 x2, x1 < x2 -> softplus_forward__y x1 lo < softplus_forward__y x2 lo) /\
  (forall x, softplus_inverse__x_dom (softplus_forward__y x lo) lo /\
             softplus_inverse__x (softplus_forward__y x lo) lo = x) /\
  (forall y, lo < y -> softplus_inverse__x_dom y lo /\
             softplus_forward__y (softplus_inverse__x y lo) lo = y).
Proof.
  assert (D : forall y, lo < y -> softplus_inverse__x_dom y lo).
  { intros y Hy. unfold softplus_inverse__x_dom. cbv zeta. apply softplus_inv_dom. lra. }
  assert (B : forall x, lo < softplus_forward__y x lo).
  { intros x. rewrite softplus_forward_shape. pose proof (softplus_pos x). lra. }
  split.
  - intros x. split; [|apply B].
    unfold softplus_forward__y_dom. cbv zeta. rewrite reqb_refl. cbn [negb].
    pose proof (exp_pos (- Rabs (x - 0))). lra.
  - split.
    + intros x1 x2 H. rewrite !softplus_forward_shape. pose proof (softplus_incr x1 x2 H). lra.
    + split.
      * intros x. split; [apply D, B|].
        rewrite softplus_inverse_shape, softplus_forward_shape.
        replace (softplus x + lo - lo) with (softplus x) by ring. apply softplus_inv_l.
      * intros y Hy. split; [apply D, Hy|].
        rewrite softplus_forward_shape, softplus_inverse_shape.
        rewrite softplus_inv_r by lra. ring.
Qed.

Lemma negsoftplus_forward_shape x up : negsoftplus_forward__y x up = up - softplus (- x).
Proof.
  unfold negsoftplus_forward__y. cbv zeta. rewrite reqb_refl. cbn [negb].
  replace (- x - 0) with (- x) by ring. rewrite softplus_stable. ring.
Qed.
Lemma negsoftplus_inverse_shape y up : negsoftplus_inverse__x y up = - softplus_inv (up - y).
Proof.
  unfold negsoftplus_inverse__x, softplus_inv. cbv zeta.
  replace (- y - - up) with (up - y) by ring. reflexivity.
Qed.

Lemma negsoftplus_facts up :
  (forall x, negsoftplus_forward__y_dom x up /\ negsoftplus_forward__y x up < up) /\
  (forall x1 x2, x1 < x2 -> negsoftplus_forward__y x1 up < negsoftplus_forward__y x2 up) /\
  (forall x, negsoftplus_inverse__x_dom (negsoftplus_forward__y x up) up /\
             negsoftplus_inverse__x (negsoftplus_forward__y x up) up = x) /\
  (forall y, y < up -> negsoftplus_inverse__x_dom y up /\
             negsoftplus_forward__y (negsoftplus_inverse__x y up) up = y).
Proof.
  assert (D : forall y, y < up -> negsoftplus_inverse__x_dom y up).
  { intros y Hy. unfold negsoftplus_inverse__x_dom. cbv zeta.
    replace (- y - - up) with (up - y) by ring. apply softplus_inv_dom. lra. }
  assert (B : forall x, negsoftplus_forward__y x up < up).
  { intros x. rewrite negsoftplus_forward_shape. pose proof (softplus_pos (- x)). lra. }
  split.
  - intros x. split; [|apply B].
    unfold negsoftplus_forward__y_dom. cbv zeta. rewrite reqb_refl. cbn [negb].
    pose proof (exp_pos (- Rabs (- x - 0))). lra.
  - split.
    + intros x1 x2 H. rewrite !negsoftplus_forward_shape.
      assert (- x2 < - x1) as H' by lra. pose proof (softplus_incr _ _ H'). lra.
    + split.
      * intros x. split; [apply D, B|].
        rewrite negsoftplus_inverse_shape, negsoftplus_forward_shape.
        replace (up - (up - softplus (- x))) with (softplus (- x)) by ring.
        rewrite softplus_inv_l. ring.
      * intros y Hy. split; [apply D, Hy|].
        rewrite negsoftplus_forward_shape, negsoftplus_inverse_shape.
        replace (- - softplus_inv (up - y)) with (softplus_inv (up - y)) by ring.
        rewrite softplus_inv_r by lra. ring.
Qed.

Lemma affine_facts a b : a <> 0 ->
  (forall x, affine_inverse__x_dom (affine_forward__y x a b) a b /\
             affine_inverse__x (affine_forward__y x a b) a b = x) /\
  (forall y, affine_forward__y (affine_inverse__x y a b) a b = y) /\
  (0 < a -> forall x1 x2, x1 < x2 -> affine_forward__y x1 a b < affine_forward__y x2 a b) /\
  (a < 0 -> forall x1 x2, x1 < x2 -> affine_forward__y x2 a b < affine_forward__y x1 a b).
Proof.
  intros Ha. unfold affine_inverse__x_dom, affine_inverse__x, affine_forward__y. cbv zeta.
  split; [intros x; split; [exact Ha | field; exact Ha]|].
  split; [intros y; field; exact Ha|].
  split; intros; nra.
Qed.

Lemma masked_facts x mask a b :
  masked_affine_forward__y x mask a b = (if mask then affine_forward__y x a b else x) /\
  masked_affine_inverse__x x mask a b = (if mask then affine_inverse__x x a b else x).
Proof. split; reflexivity. Qed.

Lemma chain_shape x y lo up lo2 :
  chain_sig_soft_forward__y x lo up lo2 = softplus_forward__y (sigmoid_forward__y x lo up) lo2 /\
  chain_sig_soft_inverse__x y lo up lo2 = sigmoid_inverse__x (softplus_inverse__x y lo2) lo up.
Proof. split; reflexivity. Qed.

Lemma chain_facts lo up lo2 : lo < up ->
  (forall x, chain_sig_soft_inverse__x (chain_sig_soft_forward__y x lo up lo2) lo up lo2 = x) /\
  (forall x1 x2, x1 < x2 ->
     chain_sig_soft_forward__y x1 lo up lo2 < chain_sig_soft_forward__y x2 lo up lo2).
Proof.
  intros Hw. destruct (sigmoid_facts lo up Hw) as (_ & Sm & Sr & _).
  destruct (softplus_facts lo2) as (_ & Pm & Pr & _).
  split.
  - intros x. destruct (chain_shape x (chain_sig_soft_forward__y x lo up lo2) lo up lo2) as [E1 E2].
    rewrite E2, E1. destruct (Pr (sigmoid_forward__y x lo up)) as [_ R1]. rewrite R1.
    apply Sr.
  - intros x1 x2 H.
    destruct (chain_shape x1 0 lo up lo2) as [E1 _]. destruct (chain_shape x2 0 lo up lo2) as [E2 _].
    rewrite E1, E2. apply Pm, Sm, H.
Qed.

(* ---- ChainTransform / ParamTransform as list programs -------------------------- *)
(* a transform = (forward, inverse); ChainTransform.forward folds left-to-right,
   inverse folds the reversed list *)
Definition tf := ((R -> R) * (R -> R))%type.
Definition chain_fwd (ts : list tf) (x : R) : R := fold_left (fun acc t => fst t acc) ts x.
Definition chain_inv (ts : list tf) (y : R) : R := fold_left (fun acc t => snd t acc) (rev ts) y.

Lemma chain_roundtrip ts :
  Forall (fun t : tf => forall x, snd t (fst t x) = x) ts ->
  forall x, chain_inv ts (chain_fwd ts x) = x.
Proof.
  unfold chain_inv, chain_fwd. induction ts as [|t ts IH]; intros H x; [reflexivity|].
  inversion H as [|t' ts' Ht Hts]; subst. cbn [fold_left rev].
  rewrite fold_left_app. cbn [fold_left]. rewrite IH by assumption. apply Ht.
Qed.
Lemma chain_monotone ts :
  Forall (fun t : tf => forall x y, x < y -> fst t x < fst t y) ts ->
  forall x y, x < y -> chain_fwd ts x < chain_fwd ts y.
Proof.
  unfold chain_fwd. induction ts as [|t ts IH]; intros H x y Hxy; [exact Hxy|].
  inversion H as [|t' ts' Ht Hts]; subst. cbn [fold_left]. apply IH; [assumption|]. apply Ht, Hxy.
Qed.

(* ParamTransform: tree_map over two pytrees of the same structure = map2 over the
   flattened leaves; entry k of the result is transform k applied to entry k *)
Fixpoint map2 {A B C} (f : A -> B -> C) (l : list A) (m : list B) : list C :=
  match l, m with a :: l', b :: m' => f a b :: map2 f l' m' | _, _ => nil end.
Lemma map2_nth {A B C} (f : A -> B -> C) l m k da db dc :
  (k < length l)%nat -> length l = length m ->
  nth k (map2 f l m) dc = f (nth k l da) (nth k m db).
Proof.
  revert m k. induction l as [|a l IH]; intros [|b m] k Hk Hl; cbn in *; try (exfalso; inversion Hk; fail); try discriminate.
  destruct k as [|k]; [reflexivity|]. apply IH; [apply Lt.lt_S_n, Hk | congruence].
Qed.
Lemma map2_length {A B C} (f : A -> B -> C) l m :
  length l = length m -> length (map2 f l m) = length l.
Proof.
  revert m. induction l as [|a l IH]; intros [|b m] H; cbn in *; try discriminate; auto.
Qed.
