(* C02 at the array level: the axial coupling of EVERY cell conserves charge.  With the conductances of
   compute_axial_conductances (Model/EdgeCond.v) on the cell's edge table and W_c = cm_c * (membrane area of c) the absolute
   capacitance of compartment c, any solution of the backward-Euler graph system satisfies
        sum_c W_c [ (x_c - v_c) + dt (vt_c x_c - ct_c) ] = 0 :
   capacitive plus membrane charge sums to zero over the cell - nothing is created or lost in the axial coupling.
   Reason: the two directed edges between neighbouring compartments carry the same absolute conductance
   (cond0_reciprocal), and at a branch point the conductance into a compartment times W is 2 pi 1e4 times the weight of
   that compartment in the Kirchhoff equation of the branch point, which balances. *)
From Coq Require Import Reals List Arith Bool Lia Lra.
From JV Require Import Prim GCellUtils CableFacts HinesArr HinesCheck HinesArrFacts HinesIdx HinesIdxFacts AsmStruct AssembleM AsmIdx AsmIdxFacts
     AssembleGraph AsmGraphFacts EdgeCond EdgeCondFacts GraphMax SparseAsm SparseFacts SparseInst SparseDense.
Import ListNotations.
Local Open Scope R_scope.

(* ---- sums ---- *)
Lemma wsum_map {A B} (f : A -> B) (val : B -> R) p l : wsum val p (map f l) = wsum (fun a => val (f a)) (fun a => p (f a)) l.
Proof. induction l as [|a l IH]; cbn [map wsum fold_right]; [reflexivity|]. fold (wsum val p (map f l)). rewrite IH. reflexivity. Qed.
Lemma wsum_flat_map_zero {A B} (f : A -> list B) (val : B -> R) p l : (forall a, In a l -> wsum val p (f a) = 0) -> wsum val p (flat_map f l) = 0.
Proof.
  induction l as [|a l IH]; intros H; cbn [flat_map]; [reflexivity|]. rewrite wsum_app, (H a (or_introl eq_refl)), IH; [lra|].
  intros; apply H; now right.
Qed.
Lemma wsum_zero' {A} (val : A -> R) p l : (forall e, In e l -> p e = true -> val e = 0) -> wsum val p l = 0.
Proof.
  induction l as [|e l IH]; intros H; cbn [wsum fold_right]; [reflexivity|]. fold (wsum val p l).
  rewrite IH by (intros; apply H; auto; now right). destruct (p e) eqn:E; [rewrite (H e (or_introl eq_refl) E)|]; lra.
Qed.
Lemma rsum_scal k f n : rsum (fun j => k * f j) n = k * rsum f n.
Proof. induction n as [|n IH]; [unfold rsum; cbn; lra | rewrite !rsum_S, IH; lra]. Qed.

(* sum over the classes of a key = sum over the list *)
Lemma exchange {A} (W : nat -> R) (F : A -> R) (p : A -> bool) (key : A -> nat) n : forall es,
  (forall e, In e es -> p e = true -> (key e < n)%nat) ->
  rsum (fun c => W c * wsum F (fun e => p e && (key e =? c)%nat) es) n = wsum (fun e => W (key e) * F e) p es.
Proof.
  induction es as [|e es IH]; intros H.
  - cbn [wsum fold_right]. rewrite (rsum_ext _ (fun _ => 0)) by (intros; lra). apply rsum_zero.
  - cbn [wsum fold_right]. fold (wsum (fun e => W (key e) * F e) p es).
    rewrite (rsum_ext _ (fun c => (if (c =? key e)%nat then (if p e then W (key e) * F e else 0) else 0)
                                  + W c * wsum F (fun e0 => p e0 && (key e0 =? c)%nat) es)).
    + rewrite rsum_plus, IH by (intros; apply H; auto; now right). f_equal.
      destruct (p e) eqn:Ep.
      * apply rsum_single. apply H; [now left | exact Ep].
      * rewrite (rsum_ext _ (fun _ => 0)) by (intros j _; destruct (j =? key e)%nat; reflexivity). apply rsum_zero.
    + intros c Hc. fold (wsum F (fun e0 => p e0 && (key e0 =? c)%nat) es).
      destruct (p e); cbn [andb]; [|destruct (c =? key e)%nat; lra].
      destruct (Nat.eqb_spec (key e) c) as [->|Hne]; [rewrite Nat.eqb_refl; lra|]. destruct (Nat.eqb_spec c (key e)); [congruence | lra].
Qed.

Notation edge_condR := (edge_cond R Rplus Rmult Rdiv 10000000 1000).

Section Weights.
  Variables (rad len ra cm : nat -> R).
  Hypothesis Pos : forall c, 0 < rad c /\ 0 < len c /\ 0 < ra c /\ 0 < cm c.
  Variable Z : nat -> R.                       (* the value at every node of the graph *)
  Notation g := (edge_condR rad len ra cm).

  Definition Wc (c : nat) : R := cm c * area (rad c) (len c).
  Definition kappa : R := 2 * PI * 10 ^ 4.
  (* contribution of a triple to the weighted axial sum / to the Kirchhoff sums *)
  Definition Vt (t : trip) : R := Wc (t_sink t) * (g t * (Z (t_sink t) - Z (fst (fst t)))).
  Definition Bt (t : trip) : R := g t * (Z (fst (fst t)) - Z (t_sink t)).

  Lemma bp_weight s : Wc s * cond12 R Rmult Rdiv 10000000 rad len ra cm s = kappa * cond34 R Rmult Rdiv 1000 rad len ra s.
  Proof.
    destruct (Pos s) as (A1 & A2 & A3 & A4). unfold Wc, kappa, cond12, cond34, sq, area. simpl pow. field. repeat split; lra.
  Qed.

  (* ---- type 0: the two directions cancel ---- *)
  Lemma pair_cancels a b : Vt (b, a, 0%nat) + Vt (a, b, 0%nat) = 0.
  Proof.
    unfold Vt. cbn [t_sink fst snd edge_cond].
    pose proof (cond0_reciprocal rad len ra cm Pos a b) as Rc. fold (Wc a) (Wc b) in Rc.
    transitivity ((cond0 R Rplus Rmult Rdiv 10000000 rad len ra cm a b * Wc a) * (Z a - Z b)
                  + (cond0 R Rplus Rmult Rdiv 10000000 rad len ra cm b a * Wc b) * (Z b - Z a)); [ring|]. rewrite Rc. ring.
  Qed.

  Lemma T0_zero (ps ns : list nat) : wsum Vt (fun _ => true) (edges0 ps ns) = 0.
  Proof.
    unfold edges0. apply wsum_flat_map_zero. intros b _.
    set (n := ncomp_of ns b). set (c := tcs ns b). rewrite wsum_app, !wsum_map.
    rewrite <- wsum_plus. apply wsum_zero'. intros r _ _.
    replace (c + r + 1)%nat with (S (c + r)) by lia. apply pair_cancels.
  Qed.


  (* ---- types 1, 2 (branch point -> compartment) against types 3, 4 (compartment -> branch point) ---- *)
  Lemma V_of_flip a b ty k : (ty = 1 \/ ty = 2)%nat -> (k = 3 \/ k = 4)%nat -> Vt (a, b, ty) = kappa * Bt (b, a, k).
  Proof.
    intros Hty Hk. unfold Vt, Bt. cbn [t_sink fst snd].
    assert (G1 : g (a, b, ty) = cond12 R Rmult Rdiv 10000000 rad len ra cm b) by (destruct Hty as [-> | ->]; reflexivity).
    assert (G2 : g (b, a, k) = cond34 R Rmult Rdiv 1000 rad len ra b) by (destruct Hk as [-> | ->]; reflexivity).
    rewrite G1, G2. pose proof (bp_weight b) as Bw.
    transitivity ((Wc b * cond12 R Rmult Rdiv 10000000 rad len ra cm b) * (Z b - Z a)); [ring|]. rewrite Bw. ring.
  Qed.

End Weights.

Section Cell.
  Variables (ps ns : list nat).
  Hypothesis nb_pos : (1 <= length ps)%nat.
  Hypothesis sorted : forall b, (1 <= b)%nat -> (b < length ps)%nat -> (nth b ps 0 < b)%nat.
  Hypothesis counts : forall b, (b < length ps)%nat -> (1 <= nth b ns 0)%nat.
  Variables (rad len ra cm : nat -> R).
  Hypothesis Pos : forall c, 0 < rad c /\ 0 < len c /\ 0 < ra c /\ 0 < cm c.
  Notation es := (cell_edges ps ns rad len ra cm).
  Notation tot := (total ps ns).
  Notation mask := (nthD (mask_of ps ns)).
  Notation ly := (layout_of ps ns).
  Notation tp := (topo_of ps).
  Variables (x y : nat -> R).
  Notation Z := (zz mask tot x y).
  Notation g := (edge_condR rad len ra cm).
  Notation Wc := (Wc rad len cm).
  Notation Vt := (Vt rad len ra cm Z).
  Notation Bt := (Bt rad len ra cm Z).


  Lemma T1_is : wsum Vt (fun _ => true) (edges1 ps ns) = kappa * wsum Bt (fun _ => true) (edges3 ps ns).
  Proof.
    unfold edges3. rewrite wsum_map, <- wsum_scale. apply wsum_val_ext. intros [[a b] ty] He _.
    pose proof (type_edges1 ps ns _ He) as Ht. unfold t_type in Ht. cbn [snd] in Ht. subst ty. cbn [t_sink fst snd].
    apply (V_of_flip rad len ra cm Pos); auto.
  Qed.
  Lemma T2_is : wsum Vt (fun _ => true) (edges2 ps ns) = kappa * wsum Bt (fun _ => true) (edges4 ps ns).
  Proof.
    unfold edges4. rewrite wsum_map, <- wsum_scale. apply wsum_val_ext. intros [[a b] ty] He _.
    pose proof (type_edges2 ps ns _ He) as Ht. unfold t_type in Ht. cbn [snd] in Ht. subst ty. cbn [t_sink fst snd].
    apply (V_of_flip rad len ra cm Pos); auto.
  Qed.

  (* ---- the weighted axial sum over the triples ---- *)
  Definition ty_le2 (t : trip) : bool := (snd t <=? 2)%nat.
  Definition ty_34 (t : trip) : bool := ((snd t =? 3) || (snd t =? 4))%nat.

  Lemma pred_on {A} (val : A -> R) (p q : A -> bool) l : (forall e, In e l -> p e = q e) -> wsum val p l = wsum val q l.
  Proof. apply wsum_ext. Qed.

  Lemma axial_sum_triples :
    wsum Vt ty_le2 (triples_of ps ns) = kappa * wsum Bt ty_34 (triples_of ps ns).
  Proof.
    unfold triples_of. rewrite !wsum_app.
    rewrite (pred_on Vt ty_le2 (fun _ => true) (edges0 ps ns)) by (intros e He; unfold ty_le2; pose proof (type_edges0 ps ns e He) as T; unfold t_type in T; rewrite T; reflexivity).
    rewrite (pred_on Vt ty_le2 (fun _ => true) (edges1 ps ns)) by (intros e He; unfold ty_le2; pose proof (type_edges1 ps ns e He) as T; unfold t_type in T; rewrite T; reflexivity).
    rewrite (pred_on Vt ty_le2 (fun _ => true) (edges2 ps ns)) by (intros e He; unfold ty_le2; pose proof (type_edges2 ps ns e He) as T; unfold t_type in T; rewrite T; reflexivity).
    rewrite (wsum_none Vt ty_le2 (edges3 ps ns)) by (intros e He; unfold ty_le2; pose proof (type_edges3 ps ns e He) as T; unfold t_type in T; rewrite T; reflexivity).
    rewrite (wsum_none Vt ty_le2 (edges4 ps ns)) by (intros e He; unfold ty_le2; pose proof (type_edges4 ps ns e He) as T; unfold t_type in T; rewrite T; reflexivity).
    rewrite (wsum_none Bt ty_34 (edges0 ps ns)) by (intros e He; unfold ty_34; pose proof (type_edges0 ps ns e He) as T; unfold t_type in T; rewrite T; reflexivity).
    rewrite (wsum_none Bt ty_34 (edges1 ps ns)) by (intros e He; unfold ty_34; pose proof (type_edges1 ps ns e He) as T; unfold t_type in T; rewrite T; reflexivity).
    rewrite (wsum_none Bt ty_34 (edges2 ps ns)) by (intros e He; unfold ty_34; pose proof (type_edges2 ps ns e He) as T; unfold t_type in T; rewrite T; reflexivity).
    rewrite (pred_on Bt ty_34 (fun _ => true) (edges3 ps ns)) by (intros e He; unfold ty_34; pose proof (type_edges3 ps ns e He) as T; unfold t_type in T; rewrite T; reflexivity).
    rewrite (pred_on Bt ty_34 (fun _ => true) (edges4 ps ns)) by (intros e He; unfold ty_34; pose proof (type_edges4 ps ns e He) as T; unfold t_type in T; rewrite T; reflexivity).
    rewrite (T0_zero rad len ra cm Pos), T1_is, T2_is. ring.
  Qed.

  (* ---- from the triples to the edge list of the cell ---- *)
  Notation eg := (e_g R).
  Notation src := (e_source R).
  Notation snk := (e_sink R).
  Notation ty := (e_type R).
  Let G := cell_graph_struct ps ns nb_pos sorted counts es (cell_edges_strip ps ns rad len ra cm).
  Let B := cell_graph_struct_bp ps ns nb_pos counts es (cell_edges_strip ps ns rad len ra cm).

  Lemma Z_comp c : (c < tot)%nat -> Z c = x (mask c).
  Proof. intros H. unfold zz. destruct (Nat.ltb_spec c tot); [reflexivity | lia]. Qed.

  Lemma es_sum_le2 : wsum (fun e => Wc (snk e) * (eg e * (Z (snk e) - Z (src e)))) (fun e => (ty e <=? 2)%nat) es = wsum Vt ty_le2 (triples_of ps ns).
  Proof. unfold cell_edges. rewrite wsum_map. reflexivity. Qed.
  Lemma es_sum_34 : wsum (fun e => eg e * (Z (src e) - Z (snk e))) (fun e => is_type 3 e || is_type 4 e) es = wsum Bt ty_34 (triples_of ps ns).
  Proof. unfold cell_edges. rewrite wsum_map. reflexivity. Qed.

  (* the Kirchhoff sums of all branch points together *)
  Lemma kirchhoff_total :
    rsum (fun j => bp_graph mask tot es x y j) (nbp tp) = wsum (fun e => eg e * (Z (src e) - Z (snk e))) (fun e => is_type 3 e || is_type 4 e) es.
  Proof.
    rewrite <- (Rmult_1_l (wsum _ _ es)).
    rewrite (wsum_val_ext (fun e => eg e * (Z (src e) - Z (snk e))) (fun e => 1 * (eg e * (Z (src e) - Z (snk e))))) by (intros; ring).
    rewrite Rmult_1_l.
    rewrite <- (exchange (fun _ => 1) (fun e => eg e * (Z (src e) - Z (snk e))) (fun e => is_type 3 e || is_type 4 e) (fun e => (snk e - tot)%nat) (nbp tp) es).
    - apply rsum_ext. intros j Hj. rewrite Rmult_1_l. unfold bp_graph.
      rewrite (wsum_ext _ (bp_into tot j) (fun e => (is_type 3 e || is_type 4 e) && (snk e - tot =? j)%nat)).
      + apply wsum_val_ext. intros e He Hp. apply andb_true_iff in Hp. destruct Hp as [Ht Hk]. apply Nat.eqb_eq in Hk.
        assert (Hs : (tot <= snk e)%nat).
        { apply (bp_sink ly tp mask tot es _ _ _ G B); [|exact He|].
          - intros e' He'. unfold cell_edges in He'. apply in_map_iff in He'. destruct He' as (t & <- & Ht'). cbn [e_type]. apply (cell_types ps ns t Ht').
          - unfold is_type in Ht. apply orb_true_iff in Ht. destruct Ht as [Ht|Ht]; apply Nat.eqb_eq in Ht; lia. }
        replace (Z (snk e)) with (y j); [reflexivity|]. unfold zz. destruct (Nat.ltb_spec (snk e) tot); [lia|]. f_equal. symmetry. exact Hk.
      + intros e He. unfold bp_into. destruct (is_type 3 e || is_type 4 e) eqn:Ht; cbn [andb]; [|reflexivity].
        assert (Hs : (tot <= snk e)%nat).
        { apply (bp_sink ly tp mask tot es _ _ _ G B); [|exact He|].
          - intros e' He'. unfold cell_edges in He'. apply in_map_iff in He'. destruct He' as (t & <- & Ht'). cbn [e_type]. apply (cell_types ps ns t Ht').
          - unfold is_type in Ht. apply orb_true_iff in Ht. destruct Ht as [Ht|Ht]; apply Nat.eqb_eq in Ht; lia. }
        destruct (Nat.eqb_spec (snk e) (tot + j)), (Nat.eqb_spec (snk e - tot) j); try reflexivity; lia.
    - intros e He Ht.
      assert (Hin : bp_into tot (snk e - tot) e = true).
      { assert (Hs : (tot <= snk e)%nat).
        { apply (bp_sink ly tp mask tot es _ _ _ G B); [|exact He|].
          - intros e' He'. unfold cell_edges in He'. apply in_map_iff in He'. destruct He' as (t & <- & Ht'). cbn [e_type]. apply (cell_types ps ns t Ht').
          - unfold is_type in Ht. apply orb_true_iff in Ht. destruct Ht as [Ht'|Ht']; apply Nat.eqb_eq in Ht'; lia. }
        unfold bp_into. rewrite Ht. cbn [andb]. apply Nat.eqb_eq. lia. }
      (* the sink of a type-3/4 edge is one of the nbp branch points *)
      destruct (In_nth _ _ e0 He) as (idx & Hi & <-). clear Hin.
      pose proof (gs_asm _ _ _ _ _ _ _ _ G) as St.
      unfold is_type in Ht. apply orb_true_iff in Ht. set (e := nth idx es e0) in *.
      assert (Hee : In e es) by (apply nth_In; exact Hi).
      destruct Ht as [Ht|Ht]; apply Nat.eqb_eq in Ht.
      + destruct (in_of_type es 3 e Hee Ht) as (i3 & Hi3 & <-). rewrite (as_len3 _ _ _ _ _ _ _ St) in Hi3.
        rewrite (gb_snk3 _ _ _ _ _ _ _ B i3 Hi3). replace (tot + nth i3 (group_of ps) 0 - tot)%nat with (nth i3 (group_of ps) 0%nat) by lia.
        pose proof (as_g3 _ _ _ _ _ _ _ St i3 Hi3) as G3. apply (wf_cbp _ _ (idx_wf ps ns nb_pos sorted counts) _ _ (gs_par_lt _ _ _ _ _ _ _ _ G i3 Hi3) G3).
      + destruct (in_of_type es 4 e Hee Ht) as (i4 & Hi4 & <-). rewrite (as_len4 _ _ _ _ _ _ _ St) in Hi4.
        rewrite (gb_snk4 _ _ _ _ _ _ _ B i4 Hi4). replace (tot + nth (length (par_inds_of ps) + i4) (group_of ps) 0 - tot)%nat with (nth (length (par_inds_of ps) + i4) (group_of ps) 0%nat) by lia.
        pose proof (as_g4 _ _ _ _ _ _ _ St i4 Hi4) as G4. apply (wf_pbp_kids _ _ (idx_wf ps ns nb_pos sorted counts) _ _ (gs_child_lt _ _ _ _ _ _ _ _ G i4 Hi4) G4).
  Qed.

  (* ---- the weighted axial currents of all compartments sum to zero when the branch points balance ---- *)
  Theorem axial_currents_cancel :
    (forall j, (j < nbp tp)%nat -> bp_graph mask tot es x y j = 0) ->
    rsum (fun c => Wc c * wsum (fun e => eg e * (x (mask c) - Z (src e))) (into c) es) tot = 0.
  Proof.
    intros HB.
    rewrite (rsum_ext _ (fun c => Wc c * wsum (fun e => eg e * (Z (snk e) - Z (src e))) (fun e => (ty e <=? 2)%nat && (snk e =? c)%nat) es)).
    - rewrite (exchange Wc (fun e => eg e * (Z (snk e) - Z (src e))) (fun e => (ty e <=? 2)%nat) snk tot es).
      + rewrite es_sum_le2, axial_sum_triples, <- es_sum_34, <- kirchhoff_total.
        rewrite (rsum_ext _ (fun _ => 0)) by (intros j Hj; apply HB, Hj). rewrite rsum_zero. ring.
      + intros e He Ht. apply Nat.leb_le in Ht. apply (gs_sink _ _ _ _ _ _ _ _ G e He Ht).
    - intros c Hc. f_equal. apply wsum_val_ext. intros e He Hp. unfold into in Hp. apply andb_true_iff in Hp. destruct Hp as [_ Hk].
      apply Nat.eqb_eq in Hk. rewrite Hk, (Z_comp c Hc). reflexivity.
  Qed.

  (* ---- charge balance of one implicit step ---- *)
  Theorem cell_charge_balance (v vt ct : nat -> R) (dt : R) :
    graph_eq ly tp mask tot es v vt ct dt x y ->
    rsum (fun c => Wc c * ((x (mask c) - v c) + dt * (vt c * x (mask c) - ct c))) tot = 0.
  Proof.
    intros (HC & HB & _).
    rewrite (rsum_ext _ (fun c => - dt * (Wc c * wsum (fun e => eg e * (x (mask c) - Z (src e))) (into c) es))).
    - rewrite rsum_scal, (axial_currents_cancel HB). ring.
    - intros c Hc. pose proof (HC c Hc) as Eq. unfold comp_lhs, comp_rhs in Eq.
      set (S := wsum (fun e => eg e * (x (mask c) - Z (src e))) (into c) es) in *.
      assert (E : x (mask c) - v c + dt * (vt c * x (mask c) - ct c) = - dt * S) by lra. rewrite E. ring.
  Qed.
End Cell.

(* ---- the implicit step of EVERY cell conserves charge ---- *)
Theorem cell_step_conserves_charge (ps ns : list nat) (rad len ra cm v vt ct : nat -> R) (dt : R) :
  (1 <= length ps)%nat -> (forall b, (1 <= b)%nat -> (b < length ps)%nat -> (nth b ps 0 < b)%nat) ->
  (forall b, (b < length ps)%nat -> (1 <= nth b ns 0)%nat) ->
  (forall c, 0 < rad c /\ 0 < len c /\ 0 < ra c /\ 0 < cm c) ->
  0 < dt -> (forall i, (i < total ps ns)%nat -> 0 <= vt i) ->
  let es := cell_edges ps ns rad len ra cm in
  let mask := nthD (mask_of ps ns) in let n := total ps ns in
  let s0 := assemble R Rplus Rminus Rmult 0 1 mask n es v vt ct dt (group_of ps) (child_inds_of ps) (par_inds_of ps) in
  let out := sv (runR (layout_of ps ns) (ops_of_tree ps ns) s0) in
  rsum (fun c => Wc rad len cm c * ((out (mask c) - v c) + dt * (vt c * out (mask c) - ct c))) n = 0.
Proof.
  intros H1 H2 H3 Pos Hdt Hvt es mask n s0 out.
  destruct (cell_step_physical ps ns rad len ra cm v vt ct dt H1 H2 H3 Pos Hdt Hvt) as [(y & Sol) _].
  exact (cell_charge_balance ps ns H1 H2 H3 rad len ra cm Pos out y v vt ct dt Sol).
Qed.

