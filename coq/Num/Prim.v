(* Boolean comparisons on R used by the generated (Layer G) definitions. *)
From Coq Require Import Reals Bool Lra.
Local Open Scope R_scope.

Definition rltb (a b : R) : bool := if Rlt_dec a b then true else false.
Definition rleb (a b : R) : bool := if Rle_dec a b then true else false.
Definition reqb (a b : R) : bool := if Req_EM_T a b then true else false.

Lemma rltb_true a b : rltb a b = true <-> a < b.
Proof. unfold rltb; destruct (Rlt_dec a b); split; intros; auto; discriminate. Qed.
Lemma rltb_false a b : rltb a b = false <-> b <= a.
Proof. unfold rltb; destruct (Rlt_dec a b); split; intros; auto; try discriminate; lra. Qed.
Lemma rleb_true a b : rleb a b = true <-> a <= b.
Proof. unfold rleb; destruct (Rle_dec a b); split; intros; auto; discriminate. Qed.
Lemma rleb_false a b : rleb a b = false <-> b < a.
Proof. unfold rleb; destruct (Rle_dec a b); split; intros; auto; try discriminate; lra. Qed.
Lemma reqb_true a b : reqb a b = true <-> a = b.
Proof. unfold reqb; destruct (Req_EM_T a b); split; intros; auto; discriminate. Qed.
Lemma reqb_false a b : reqb a b = false <-> a <> b.
Proof. unfold reqb; destruct (Req_EM_T a b); split; intros; auto; try discriminate; contradiction. Qed.
Lemma reqb_refl a : reqb a a = true.
Proof. apply reqb_true; reflexivity. Qed.

Lemma rltb_spec a b : reflect (a < b) (rltb a b).
Proof. unfold rltb; destruct (Rlt_dec a b); constructor; assumption. Qed.
Lemma rleb_spec a b : reflect (a <= b) (rleb a b).
Proof. unfold rleb; destruct (Rle_dec a b); constructor; assumption. Qed.
