(* Hand-written real-analysis facts used by the proofs about generated definitions.
   Nothing here mentions /repo code. *)
From Coq Require Import Reals Lra Bool.
From JV Require Import Prim.
Local Open Scope R_scope.

(* ---- clipped exponential ---------------------------------------------------- *)
Definition sexp (x : R) : R := exp (Rmin x 20).

Lemma sexp_pos x : 0 < sexp x.
Proof. apply exp_pos. Qed.
Lemma sexp_unclipped x : x <= 20 -> sexp x = exp x.
Proof. intros; unfold sexp; rewrite Rmin_left; auto. Qed.
Lemma sexp_clipped x : 20 <= x -> sexp x = exp 20.
Proof. intros; unfold sexp; rewrite Rmin_right; auto. Qed.
Lemma sexp_le_exp x : sexp x <= exp x.
Proof.
  unfold sexp. destruct (Rle_dec x 20).
  - rewrite Rmin_left; lra.
  - rewrite Rmin_right by lra. left; apply exp_increasing; lra.
Qed.
Lemma exp_le_mono x y : x <= y -> exp x <= exp y.
Proof. intros [H|H]; [left; apply exp_increasing; exact H | subst; lra]. Qed.
Lemma sexp_mono x y : x <= y -> sexp x <= sexp y.
Proof. intros; unfold sexp; apply exp_le_mono; apply Rle_min_compat_r; auto. Qed.
Lemma exp_neg_le1 x : x <= 0 -> exp x <= 1.
Proof. intros; rewrite <- exp_0; apply exp_le_mono; auto. Qed.
Lemma exp_neg_lt1 x : x < 0 -> exp x < 1.
Proof. intros; rewrite <- exp_0; apply exp_increasing; auto. Qed.
Lemma exp_pos_gt1 x : 0 < x -> 1 < exp x.
Proof. intros; rewrite <- exp_0; apply exp_increasing; auto. Qed.
Lemma sexp_neg_unit x : x < 0 -> 0 < sexp x < 1.
Proof.
  intros; split; [apply sexp_pos|]. rewrite sexp_unclipped by lra. apply exp_neg_lt1; auto.
Qed.
Lemma exp_minus1_nonzero x : x <> 0 -> exp x - 1 <> 0.
Proof.
  intros H. destruct (Rlt_dec x 0).
  - pose proof (exp_neg_lt1 x r); lra.
  - assert (0 < x) by lra. pose proof (exp_pos_gt1 x H0); lra.
Qed.

(* ---- x / (exp x - 1) -------------------------------------------------------- *)
Lemma efun_pos x : x <> 0 -> 0 < x / (exp x - 1).
Proof.
  intros H. destruct (Rlt_dec x 0).
  - pose proof (exp_neg_lt1 x r).
    replace (x / (exp x - 1)) with ((- x) / (1 - exp x)) by (field; lra).
    apply Rdiv_lt_0_compat; lra.
  - assert (0 < x) by lra. pose proof (exp_pos_gt1 x H0).
    apply Rdiv_lt_0_compat; lra.
Qed.

Lemma efun_clipped_pos x : x <> 0 -> 0 < x / (sexp x - 1).
Proof.
  intros H. destruct (Rle_dec x 20).
  - rewrite sexp_unclipped by auto. apply efun_pos; auto.
  - rewrite sexp_clipped by lra.
    assert (1 < exp 20) by (apply exp_pos_gt1; lra).
    apply Rdiv_lt_0_compat; lra.
Qed.

(* 1 - |x| <= x/(exp x - 1) <= 1 + |x|  for |x| < 1 *)
Lemma exp_upper x : x < 1 -> exp x <= 1 / (1 - x).
Proof.
  intros H. pose proof (exp_ineq1_le (- x)).
  rewrite exp_Ropp in H0. pose proof (exp_pos x).
  assert (0 < 1 - x) by lra.
  apply Rmult_le_reg_r with (1 - x); [lra|].
  replace (1 / (1 - x) * (1 - x)) with 1 by (field; lra).
  apply Rmult_le_reg_l with (/ exp x); [apply Rinv_0_lt_compat; lra|].
  replace (/ exp x * (exp x * (1 - x))) with (1 - x) by (field; lra). lra.
Qed.

Lemma efun_near_one x : x <> 0 -> Rabs x < 1 -> 1 - Rabs x <= x / (exp x - 1) <= 1 + Rabs x.
Proof.
  intros Hx Ha. pose proof (exp_ineq1 x Hx) as Hl.
  assert (x < 1) as Hx1 by (apply Rabs_def2 in Ha; lra).
  pose proof (exp_upper x Hx1) as Hu.
  destruct (Rlt_dec x 0) as [Hn|Hp].
  - rewrite Rabs_left by auto.
    pose proof (exp_neg_lt1 x Hn).
    replace (x / (exp x - 1)) with ((- x) / (1 - exp x)) by (field; lra).
    assert (0 < 1 - exp x) by lra.
    split.
    + apply Rmult_le_reg_r with (1 - exp x); [lra|].
      replace (- x / (1 - exp x) * (1 - exp x)) with (- x) by (field; lra). nra.
    + apply Rmult_le_reg_r with (1 - exp x); [lra|].
      replace (- x / (1 - exp x) * (1 - exp x)) with (- x) by (field; lra).
      (* exp x <= 1/(1-x)  ->  1 - exp x >= -x/(1-x) -> (1-x)(1-exp x) >= -x *)
      assert (exp x * (1 - x) <= 1).
      { apply Rmult_le_reg_r with (/ (1 - x)); [apply Rinv_0_lt_compat; lra|].
        replace (exp x * (1 - x) * / (1 - x)) with (exp x) by (field; lra).
        replace (1 * / (1 - x)) with (1 / (1 - x)) by (field; lra). exact Hu. }
      nra.
  - assert (0 < x) as Hp' by lra. rewrite Rabs_right by lra.
    pose proof (exp_pos_gt1 x Hp').
    assert (0 < exp x - 1) by lra.
    split.
    + apply Rmult_le_reg_r with (exp x - 1); [lra|].
      replace (x / (exp x - 1) * (exp x - 1)) with x by (field; lra).
      assert (exp x * (1 - x) <= 1).
      { apply Rmult_le_reg_r with (/ (1 - x)); [apply Rinv_0_lt_compat; lra|].
        replace (exp x * (1 - x) * / (1 - x)) with (exp x) by (field; lra).
        replace (1 * / (1 - x)) with (1 / (1 - x)) by (field; lra). exact Hu. }
      nra.
    + apply Rmult_le_reg_r with (exp x - 1); [lra|].
      replace (x / (exp x - 1) * (exp x - 1)) with x by (field; lra). nra.
Qed.

(* ---- logistic --------------------------------------------------------------- *)
Lemma logistic_unit x : 0 < 1 / (1 + exp x) < 1.
Proof.
  pose proof (exp_pos x). split.
  - apply Rdiv_lt_0_compat; lra.
  - apply Rmult_lt_reg_r with (1 + exp x); [lra|].
    replace (1 / (1 + exp x) * (1 + exp x)) with 1 by (field; lra). lra.
Qed.
Lemma inv1p_unit e : 0 < e -> 0 < 1 / (1 + e) < 1.
Proof.
  intros. split.
  - apply Rdiv_lt_0_compat; lra.
  - apply Rmult_lt_reg_r with (1 + e); [lra|].
    replace (1 / (1 + e) * (1 + e)) with 1 by (field; lra). lra.
Qed.

(* ---- exponential Euler ------------------------------------------------------ *)
Definition expeuler (x xinf e : R) : R := x * e + xinf * (1 - e).

Lemma expeuler_fixed xinf e : expeuler xinf xinf e = xinf.
Proof. unfold expeuler; ring. Qed.

Lemma expeuler_between x xinf e :
  0 <= e <= 1 -> Rmin x xinf <= expeuler x xinf e <= Rmax x xinf.
Proof.
  intros [H0 H1]. unfold expeuler.
  destruct (Rle_dec x xinf).
  - rewrite Rmin_left, Rmax_right by auto. split; nra.
  - rewrite Rmin_right, Rmax_left by lra. split; nra.
Qed.

Lemma expeuler_unit x xinf e :
  0 <= e <= 1 -> 0 <= x <= 1 -> 0 <= xinf <= 1 -> 0 <= expeuler x xinf e <= 1.
Proof. intros [? ?] [? ?] [? ?]. unfold expeuler. split; nra. Qed.

(* strictly toward, never past: the distance to the steady state shrinks by e *)
Lemma expeuler_contracts x xinf e :
  expeuler x xinf e - xinf = (x - xinf) * e.
Proof. unfold expeuler; ring. Qed.

(* exponent of the update is never clipped: -dt/tau <= 0 *)
Lemma sexp_decay dt tau : 0 < dt -> 0 < tau -> sexp (- dt / tau) = exp (- dt / tau).
Proof.
  intros. apply sexp_unclipped.
  assert (0 < dt / tau) by (apply Rdiv_lt_0_compat; auto).
  replace (- dt / tau) with (- (dt / tau)) by (field; lra). lra.
Qed.
Lemma exp_decay_unit dt tau : 0 < dt -> 0 < tau -> 0 < exp (- dt / tau) < 1.
Proof.
  intros. split; [apply exp_pos|]. apply exp_neg_lt1.
  assert (0 < dt / tau) by (apply Rdiv_lt_0_compat; auto).
  replace (- dt / tau) with (- (dt / tau)) by (field; lra). lra.
Qed.

(* alpha/beta form: tau = 1/(a+b), xinf = a*tau *)
Lemma ab_tau_pos a b : 0 < a -> 0 < b -> 0 < 1 / (a + b).
Proof. intros; apply Rdiv_lt_0_compat; lra. Qed.
Lemma ab_xinf_unit a b : 0 < a -> 0 < b -> 0 < a * (1 / (a + b)) < 1.
Proof.
  intros. split.
  - apply Rmult_lt_0_compat; [auto | apply ab_tau_pos; auto].
  - apply Rmult_lt_reg_r with (a + b); [lra|].
    replace (a * (1 / (a + b)) * (a + b)) with a by (field; lra). lra.
Qed.
Lemma ab_decay a b dt : 0 < a -> 0 < b -> - dt / (1 / (a + b)) = - (dt * (a + b)).
Proof. intros; field; lra. Qed.

(* ---- positivity tactic ------------------------------------------------------ *)
Ltac pos_step :=
  match goal with
  | |- 0 < exp _ => apply exp_pos
  | |- 0 < sexp _ => apply sexp_pos
  | |- 0 < _ * _ => apply Rmult_lt_0_compat
  | |- 0 < _ / _ => apply Rdiv_lt_0_compat
  | |- 0 < _ + _ => apply Rplus_lt_0_compat
  | |- 0 < / _ => apply Rinv_0_lt_compat
  | |- 0 < _ ^ _ => apply pow_lt
  | |- 0 < _ => lra
  end.
Ltac pos := repeat pos_step.
