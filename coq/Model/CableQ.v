(* Rational instance of the cable model, evaluated with vm_compute in the correspondence
   check (exact arithmetic, Qred-normalised). *)
From Coq Require Import List ZArith QArith Qreduction.
From JV Require Import TreeSolve Cable.
Import ListNotations.

Definition qadd (a b : Q) : Q := Qred (a + b).
Definition qsub (a b : Q) : Q := Qred (a - b).
Definition qmul (a b : Q) : Q := Qred (a * b).
Definition qdiv (a b : Q) : Q := Qred (a / b).
Definition qz (z : Z) : Q := inject_Z z.

Definition compQ := comp Q.
Definition mk (r l ra cm v vt ct : Q) : compQ := mkcomp Q r l ra cm v vt ct.
Definition step_bwdQ := step_bwd Q qadd qsub qmul qdiv qz.
Definition step_cnQ := step_cn Q qadd qsub qmul qdiv qz.
Definition step_fwdQ := step_fwd Q qadd qsub qmul qdiv qz.
Definition pivotsQ parents branches dt :=
  pivots Q qsub qmul qdiv (root_tree Q qadd qsub qmul qdiv qz parents branches dt).
