(* Executable model of jaxley's views (C11): index normalisation (_reformat_index),
   filtering by a scoped index column (_at_nodes), dense re-ranking of local indices
   (_update_local_indices), edges kept iff both ends are in view (_set_inds_in_view).
   A node row is (global cell index, global branch index); its label is its position in
   the base table = its global compartment index.  Axiom-free. *)
From Coq Require Import List Arith Bool Lia.
Import ListNotations.

Definition row := (nat * nat)%type.              (* (global cell, global branch) *)
Definition table := list row.                    (* base.nodes, label = position *)
Definition view := list nat.                     (* labels in view, in table order *)

Definition cell_of (t : table) (r : nat) : nat := fst (nth r t (0, 0)).
Definition branch_of (t : table) (r : nat) : nat := snd (nth r t (0, 0)).

Definition mem (x : nat) (l : list nat) : bool := existsb (Nat.eqb x) l.

(* pandas rank(method="dense") - 1 of x among xs *)
Definition dense_rank (xs : list nat) (x : nat) : nat := length (nodup Nat.eq_dec (filter (fun y => y <? x) xs)).

Inductive level := Cell | Branch | Comp.
Inductive scope := Local | Global.

(* local indices of row r within view v: dense ranks within the parent *)
Definition local_index (t : table) (v : view) (lv : level) (r : nat) : nat :=
  match lv with
  | Cell => dense_rank (map (cell_of t) v) (cell_of t r)
  | Branch => dense_rank (map (branch_of t) (filter (fun q => cell_of t q =? cell_of t r) v)) (branch_of t r)
  | Comp => dense_rank (filter (fun q => (cell_of t q =? cell_of t r) && (branch_of t q =? branch_of t r)) v) r
  end.
Definition global_index (t : table) (lv : level) (r : nat) : nat :=
  match lv with Cell => cell_of t r | Branch => branch_of t r | Comp => r end.
Definition index_of (t : table) (v : view) (s : scope) (lv : level) (r : nat) : nat :=
  match s with Local => local_index t v lv r | Global => global_index t lv r end.

(* index forms accepted by cell()/branch()/comp()/select() *)
Inductive idx :=
| IInt (i : nat) | IList (l : list nat) | IRange (a b : nat)
| ISlice (start stop : option nat) | IMask (m : list bool) | IAll.

Definition mask_positions (m : list bool) : list nat :=
  map fst (filter (fun p => snd p) (combine (seq 0 (length m)) m)).

(* _reformat_index: None = "all" (handled by the caller), slices index into
   arange(len(base.nodes)), masks must match one of the dimensions of .shape / #edges *)
Definition reformat (ntotal : nat) (shape : list nat) (i : idx) : option (option (list nat)) :=
  match i with
  | IAll => Some None
  | IInt k => Some (Some [k])
  | IList l => Some (Some l)
  | IRange a b => Some (Some (seq a (b - a)))
  | ISlice st sp =>
      let a := match st with Some a => Nat.min a ntotal | None => 0 end in
      let b := match sp with Some b => Nat.min b ntotal | None => ntotal end in
      Some (Some (seq a (b - a)))
  | IMask m => if existsb (Nat.eqb (length m)) shape then Some (Some (mask_positions m)) else None
  end.

(* _at_nodes: rows of the view whose scoped index at this level is in idx *)
Definition at_nodes (t : table) (v : view) (s : scope) (lv : level) (ids : option (list nat)) : view :=
  match ids with
  | None => v
  | Some l => filter (fun r => mem (index_of t v s lv r) l) v
  end.

(* edges: (pre comp, post comp); an edge stays in view iff it was in view and both ends are *)
Definition edges_in_view (edges : list (nat * nat)) (ev : list nat) (v : view) : list nat :=
  filter (fun e => mem (fst (nth e edges (0, 0))) v && mem (snd (nth e edges (0, 0))) v) ev.

(* np.unique: sorted, without repetitions *)
Fixpoint insert_sorted (x : nat) (l : list nat) : list nat :=
  match l with
  | [] => [x]
  | y :: r => if x <? y then x :: l else if x =? y then l else y :: insert_sorted x r
  end.
Definition np_unique (l : list nat) : list nat := fold_right insert_sorted [] l.
Definition mask_select (m : list bool) (u : list nat) : list nat :=
  map snd (filter (fun p => fst p) (combine m u)).

(* one selection step (_at_nodes).  A boolean mask with one entry per cell / branch /
   compartment in view selects BY POSITION among them, in either scope (the positions of its
   True entries are not indices); a mask of another length, and every other index form,
   goes through _reformat_index and is matched against the scoped index column *)
Definition select_step (t : table) (shape : list nat) (v : view) (s : scope) (lv : level) (i : idx) : option view :=
  let generic :=
    match reformat (length t) shape i with
    | None => None
    | Some ids => Some (at_nodes t v s lv ids)
    end in
  match i with
  | IMask m =>
      let u := np_unique (map (global_index t lv) v) in
      if length m =? length u then Some (at_nodes t v Global lv (Some (mask_select m u))) else generic
  | _ => generic
  end.

(* a chain of selections *)
Definition sel := (scope * level * idx)%type.
Fixpoint chain (t : table) (shape_of : view -> list nat) (v : view) (c : list sel) : option view :=
  match c with
  | [] => Some v
  | (s, lv, i) :: rest =>
      match select_step t (shape_of v) v s lv i with
      | None => None
      | Some [] => None                                                (* "Nothing in view" *)
      | Some v' => chain t shape_of v' rest
      end
  end.

(* .shape of a view: (#cells, #branches, #comps) in view, without the levels above the
   base module (drop = 0 network, 1 cell, 2 branch), followed by the number of edges *)
Definition count_distinct (l : list nat) : nat := length (nodup Nat.eq_dec l).
Definition shape_of (t : table) (nedges drop : nat) (v : view) : list nat :=
  skipn drop [count_distinct (map (cell_of t) v); count_distinct (map (branch_of t) v); length v] ++ [nedges].

(* .shape with the number of synapses IN VIEW as last entry (what _reformat_index compares the
   length of a boolean mask with) *)
Definition shape_of_e (t : table) (edges : list (nat * nat)) (drop : nat) (v : view) : list nat :=
  shape_of t (length (edges_in_view edges (seq 0 (length edges)) v)) drop v.
