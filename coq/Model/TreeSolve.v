(* Hines elimination on a tree-structured linear system, written by recursion on the
   tree (the reference model of jaxley's branched voltage solver, C01).  Polymorphic in
   the number type: instantiated with R in the theorems and with Q (Qred-normalised)
   under vm_compute in the correspondence check.  Axiom-free. *)
From Coq Require Import List.
Import ListNotations.

Section TreeSolve.
  Variable F : Type.
  Variables (fsub fmul fdiv : F -> F -> F).

  (* A node of the system carries its own row:
       d * x_self  +  u * x_parent  +  sum over children c of (l_c * x_c)  =  b
     where l_c is stored in the child (its coefficient in THIS row), and u is this node's
     coefficient of the parent's unknown (ignored at the root). *)
  Inductive tree : Type :=
    Node (d u l b : F) (children : list tree).

  Definition t_d (t : tree) := match t with Node d _ _ _ _ => d end.
  Definition t_u (t : tree) := match t with Node _ u _ _ _ => u end.
  Definition t_l (t : tree) := match t with Node _ _ l _ _ => l end.
  Definition t_b (t : tree) := match t with Node _ _ _ b _ => b end.
  Definition t_children (t : tree) := match t with Node _ _ _ _ cs => cs end.

  (* triangulation: eliminate the whole subtree below the node; returns the node's pivot
     d' and right-hand side b' *)
  Fixpoint reduce (t : tree) : F * F :=
    match t with
    | Node d u l b cs =>
        fold_left (fun (acc : F * F) (c : tree) =>
                     let (dc, bc) := reduce c in
                     let f := fdiv (t_l c) dc in
                     (fsub (fst acc) (fmul f (t_u c)), fsub (snd acc) (fmul f bc)))
                  cs (d, b)
    end.

  Inductive sol : Type := SNode (x : F) (subs : list sol).
  Definition s_x (s : sol) := match s with SNode x _ => x end.

  (* back-substitution, given the value of the parent's unknown *)
  Fixpoint backsub (t : tree) (xp : F) : sol :=
    let (d', b') := reduce t in
    let x := fdiv (fsub b' (fmul (t_u t) xp)) d' in
    match t with
    | Node _ _ _ _ cs => SNode x (map (fun c => backsub c x) cs)
    end.

  Definition solve_root (t : tree) (f0 : F) : sol :=
    (* at the root there is no parent: u is ignored by passing any xp and u := 0 upstream *)
    backsub t f0.

  (* all pivots used by the elimination, root first *)
  Fixpoint pivots (t : tree) : list F :=
    match t with
    | Node _ _ _ _ cs => fst (reduce t) :: flat_map pivots cs
    end.

  Fixpoint flatten (s : sol) : list F :=
    match s with SNode x subs => x :: flat_map flatten subs end.
End TreeSolve.

Arguments Node {F}.
Arguments SNode {F}.
Arguments t_d {F}. Arguments t_u {F}. Arguments t_l {F}. Arguments t_b {F}. Arguments t_children {F}.
Arguments s_x {F}.
Arguments flatten {F}.
