(* jaxley/utils/cell_utils.py:compute_axial_conductances (C01): the conductance put on every edge of comp_edges, as
   a function of the edge (source, sink, type) and of the per-compartment radius, length, axial resistivity and
   capacitance.  Polymorphic in the number type: R in the theorems (where it is proved to be the traced Layer-G
   formula of the right pair of compartments), Q under vm_compute in the correspondence with the code. *)
From Coq Require Import List Arith.
From JV Require Import AsmStruct.
Import ListNotations.

Section EdgeCond.
  Variable F : Type.
  Variables (fadd fmul fdiv : F -> F -> F) (c1e7 c1e3 : F).
  Variables (rad len ra cm : nat -> F).      (* per compartment *)

  Definition sq (x : F) : F := fmul x x.

  (* type 0: compartment -> compartment; divided by the capacitance of the SINK *)
  Definition cond0 (snk src : nat) : F :=
    fdiv (fmul (fdiv (fdiv (fmul (rad snk) (sq (rad src)))
                           (fadd (fmul (fmul (ra snk) (sq (rad src))) (len snk)) (fmul (fmul (ra src) (sq (rad snk))) (len src))))
                     (len snk)) c1e7) (cm snk).
  (* types 1, 2: branch point -> compartment *)
  Definition cond12 (snk : nat) : F :=
    fdiv (fmul (fdiv (fdiv (rad snk) (ra snk)) (sq (len snk))) c1e7) (cm snk).
  (* types 3, 4: compartment -> branch point (scaled by 1000, the scale is irrelevant) *)
  Definition cond34 (src : nat) : F :=
    fmul (fdiv (fdiv (sq (rad src)) (ra src)) (len src)) c1e3.

  Definition edge_cond (t : trip) : F :=
    let '(src, snk, ty) := t in
    match ty with
    | 0 => cond0 snk src
    | 1 | 2 => cond12 snk
    | _ => cond34 src
    end.
End EdgeCond.
