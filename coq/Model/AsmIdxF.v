(* The index lists jaxley hands to the assembly of the solver arrays for a NETWORK (a forest of cells), as functions
   of the global parent vector, the root flags and the compartment counts (C01): compute_children_and_parents on
   the global branch_edges (par_inds = the branches with children, child_inds = the non-root branches,
   child_belongs_to_branchpoint = rank of the parent), build_branchpoint_group_inds, remap_index_to_masked with
   the per-cell padding of Model/HinesIdxF.v, and the edge table of Network._init_morph_jax_spsolve: all type-0
   edges, then PER CELL the branchpoint->compartment edges (types 1 then 2), then per cell the
   compartment->branchpoint edges (types 3 then 4); branch points are numbered after ALL compartments.
   Executable, axiom-free; compared EXACTLY with the running code on every sampled network;
   Proofs/AsmIdxFFacts.v proves the conditions of the assembly theorems for EVERY forest. *)
From Coq Require Import List Arith Bool.
From JV Require Import HinesArr HinesCheck HinesIdx HinesIdxF AsmStruct AsmIdx.
Import ListNotations.

Section AsmIdxF.
  Variables (ps ns : list nat) (rs : list bool).
  Notation nbr_ := (length ps).
  Notation tot := (total ps ns).

  Definition par_inds_ofF : list nat := parents_with_kidsF ps rs.
  Definition child_inds_ofF : list nat := filter (fun b => negb (is_root rs b)) (seq 0 nbr_).
  Definition cbbF : list nat := map (fun b => bp_ofF ps rs (par_ofF ps b)) child_inds_ofF.
  Definition group_ofF : list nat := seq 0 (length par_inds_ofF) ++ cbbF.
  Definition ncellsF : nat := length (roots_ofF ps rs).

  Definition mask_ofF : list nat :=
    flat_map (fun b => map (fun r => cs_ofF ps ns rs b + r) (seq 0 (ncomp_of ns b))) (seq 0 nbr_).

  (* the edges into compartments, by the index of the branch point (type 1) / of the child (type 2) *)
  Definition mk1 (j : nat) : trip := (tot + j, tcs ns (nth j par_inds_ofF 0 + 1) - 1, 1).
  Definition mk2 (i : nat) : trip := (tot + nth i cbbF 0, tcs ns (nth i child_inds_ofF 0), 2).
  Definition flip (t : nat) (e : trip) : trip := (t_sink e, fst (fst e), t).
  Definition key1 (j : nat) : nat := cell_ofF rs (nth j par_inds_ofF 0).
  Definition key2 (i : nat) : nat := cell_ofF rs (nth i child_inds_ofF 0).
  Definition e1c (c : nat) : list trip := map mk1 (filter (fun j => key1 j =? c) (seq 0 (length par_inds_ofF))).
  Definition e2c (c : nat) : list trip := map mk2 (filter (fun i => key2 i =? c) (seq 0 (length child_inds_ofF))).

  Definition triples_ofF : list trip :=
    edges0 ps ns
    ++ flat_map (fun c => e1c c ++ e2c c) (seq 1 ncellsF)
    ++ flat_map (fun c => map (flip 3) (e1c c) ++ map (flip 4) (e2c c)) (seq 1 ncellsF).

  Definition asm_summaryF : list trip * (list nat * (list nat * (list nat * list nat))) :=
    (triples_ofF, (mask_ofF, (group_ofF, (child_inds_ofF, par_inds_ofF)))).
End AsmIdxF.
