(* SWC import (C16): a verified checker for the sectioning of a traced tree into maximal
   unbranched same-type paths, and the linear radius interpolation.  The checker runs on
   the output of jaxley's reader on every run.  Axiom-free (the interpolation lemma is over R). *)
From Coq Require Import List Arith Bool Lia.
Import ListNotations.

(* a traced point: (type, parent id); ids are 1-based positions, the root's parent is 0 *)
Definition swc := list (nat * nat).
Definition ptype (t : swc) (i : nat) : nat := fst (nth (i - 1) t (0, 0)).
Definition pparent (t : swc) (i : nat) : nat := snd (nth (i - 1) t (0, 0)).
Definition children (t : swc) (i : nat) : list nat :=
  filter (fun c => pparent t c =? i) (seq 1 (length t)).

(* a section [a; p1; p2; ...]: a = the point it hangs on, p1.. its own points *)
Fixpoint is_path (t : swc) (s : list nat) : bool :=
  match s with
  | x :: ((y :: _) as rest) => (pparent t y =? x) && is_path t rest
  | _ => true
  end.
Definition same_type (t : swc) (own : list nat) : bool :=
  match own with [] => true | p :: rest => forallb (fun q => ptype t q =? ptype t p) rest end.
(* interior points of the path have exactly one child, of the same type: no branch point,
   no type change inside a section *)
Fixpoint unbranched (t : swc) (own : list nat) : bool :=
  match own with
  | p :: ((q :: _) as rest) =>
      (match children t p with [c] => (c =? q) && (ptype t c =? ptype t p) | _ => false end) && unbranched t rest
  | _ => true
  end.
(* the section cannot be extended: its last point is a leaf, a branch point, or its only
   child has another type *)
Definition maximal_end (t : swc) (own : list nat) : bool :=
  match rev own with
  | [] => true
  | p :: _ => match children t p with [c] => negb (ptype t c =? ptype t p) | _ => true end
  end.
Definition own_points (s : list nat) (rooted : bool) : list nat := if rooted then s else tl s.

Definition count (x : nat) (l : list nat) : nat := length (filter (Nat.eqb x) l).

(* rooted k = section k contains the root as its own point (it has no anchor) *)
Definition check_sections (t : swc) (secs : list (list nat * bool)) : bool :=
  forallb (fun sr => let '(s, rooted) := sr in
             is_path t s && same_type t (own_points s rooted) && unbranched t (own_points s rooted)
             && maximal_end t (own_points s rooted) && negb (match own_points s rooted with [] => true | _ => false end))
          secs
  && forallb (fun p => count p (flat_map (fun sr => own_points (fst sr) (snd sr)) secs) =? 1) (seq 2 (length t - 1))
  && (count 1 (flat_map (fun sr => own_points (fst sr) (snd sr)) secs) <=? 1).

(* parents[i] = the section whose last point is the anchor of section i *)
Definition check_parents (secs : list (list nat)) (parents : list (option nat)) : bool :=
  (length secs =? length parents) &&
  forallb (fun ip => let '(i, p) := ip in
             match p with
             | Some j => (negb (j =? i)) && (last (nth j secs []) 0 =? hd 0 (nth i secs []))
             | None => hd 0 (nth i secs []) =? 1
             end) (combine (seq 0 (length parents)) parents).
