(* Executable model of jaxley/connect.py's index layouts (C20).  Axiom-free. *)
From Coq Require Import List Arith Lia PeanoNat Bool.
Import ListNotations.

Section Layout.
  Context {A B : Type} (dA : A) (dB : B).

  (* numpy:  flat.reshape((-1, np)).ravel(order="F")  for len(flat) = nq*np *)
  Definition reshape_ravelF (np nq : nat) (flat : list B) : list B :=
    map (fun k => nth ((k mod nq) * np + k / nq) flat dB) (seq 0 (np * nq)).

  (* the layout before the fix:  flat.reshape((-1, np), order="F").ravel() *)
  Definition reshapeF_ravel (np nq : nat) (flat : list B) : list B :=
    map (fun k => nth (k / np + (k mod np) * nq) flat dB) (seq 0 (np * nq)).

  (* pandas: rows.loc[rows.index.repeat(nq)] *)
  Definition repeat_rows (nq : nat) (pre : list A) : list A :=
    flat_map (fun a => repeat a nq) pre.

  (* _append_multiple_synapses pairs pre row k with post row k; pandas raises when the
     two tables have different lengths *)
  Definition append_synapses (pre : list A) (post : list B) : option (list (A * B)) :=
    if length pre =? length post then Some (combine pre post) else None.

  (* fully_connect: `pre` = first compartment of each pre cell (in cell order);
     `samples` = for each post cell in order, np sampled compartments *)
  Definition fully_connect (pre : list A) (nq : nat) (samples : list B) : option (list (A * B)) :=
    append_synapses (repeat_rows nq pre) (reshape_ravelF (length pre) nq samples).

  Definition fully_connect_old (pre : list A) (nq : nat) (samples : list B) : option (list (A * B)) :=
    append_synapses (repeat_rows nq pre) (reshapeF_ravel (length pre) nq samples).

  (* sparse_connect: one sampled compartment (a singleton array) per drawn connection *)
  Definition hstack_if (threshold : nat) (l : list (list B)) : list B :=
    if threshold <? length l then concat l else [].
  Definition sparse_connect_gen (threshold : nat) (pre : list A) (post : list B)
    : option (list (A * B)) :=
    let post_rows := hstack_if threshold (map (fun b => [b]) post) in
    if 0 <? length pre then append_synapses pre post_rows else Some [].
  Definition sparse_connect := sparse_connect_gen 0.        (* len(...) > 0 : current code *)
  Definition sparse_connect_old := sparse_connect_gen 1.    (* len(...) > 1 : before the fix *)
End Layout.

(* np.where(matrix): (row, column) of the True entries in row-major order *)
Definition where_true (m : list (list bool)) : list (nat * nat) :=
  concat (map (fun ir : nat * list bool =>
                 map (fun jc : nat * bool => (fst ir, fst jc))
                     (filter (fun jc : nat * bool => snd jc) (combine (seq 0 (length (snd ir))) (snd ir))))
              (combine (seq 0 (length m)) m)).

Definition matrix_connect {A B} (dA : A) (dB : B) (pre : list A) (post : list B)
           (m : list (list bool)) : list (A * B) :=
  map (fun ij => (nth (fst ij) pre dA, nth (snd ij) post dB)) (where_true m).

(* first compartment of a cell = cumulative number of compartments of the cells before it *)
Definition first_comp (ncomps : list nat) (c : nat) : nat := fold_right Nat.add 0 (firstn c ncomps).
Fixpoint cell_of (ncomps : list nat) (i : nat) : nat :=
  match ncomps with
  | [] => 0
  | n :: rest => if i <? n then 0 else S (cell_of rest (i - n))
  end.
