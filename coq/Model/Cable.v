(* Assembly of the discretised cable equation of one cell as a tree-structured system
   (mirrors cell_utils.compute_axial_conductances and the diagonal / off-diagonal /
   branch-point bookkeeping of solver_voltage.step_voltage_implicit_with_jaxley_spsolve at
   the level of "which coefficient couples which pair of nodes"), and the three schemes of
   Module.step.  Polymorphic in the number type (R in theorems, Q under vm_compute).
   Branch-point rows are stored with positive diagonal (the code stores the same row
   multiplied by -1).  Axiom-free. *)
From Coq Require Import List ZArith Bool Arith.
From JV Require Import TreeSolve.
Import ListNotations.

Section Cable.
  Variable F : Type.
  Variables (fadd fsub fmul fdiv : F -> F -> F) (fz : Z -> F).

  Declare Scope f_scope.
  Delimit Scope f_scope with f.
  Local Notation "a + b" := (fadd a b) : f_scope.
  Local Notation "a - b" := (fsub a b) : f_scope.
  Local Notation "a * b" := (fmul a b) : f_scope.
  Local Notation "a / b" := (fdiv a b) : f_scope.
  Definition f0 : F := fz 0%Z.
  Definition f1 : F := fz 1%Z.
  Local Open Scope f_scope.

  Record comp := mkcomp { c_r : F; c_l : F; c_ra : F; c_cm : F;
                          c_v : F;     (* voltage before the step *)
                          c_vt : F;    (* voltage_terms / cm of the step (1/ms) *)
                          c_ct : F }.  (* constant_terms / cm of the step (mV/ms) *)

  Definition sq (x : F) := x * x.

  (* cell_utils.compute_coupling_cond(rad1, rad2, r_a1, r_a2, l1, l2) / cm[sink] *)
  Definition cond_c2c (snk src : comp) : F :=
    c_r snk * sq (c_r src)
    / (c_ra snk * sq (c_r src) * c_l snk + c_ra src * sq (c_r snk) * c_l src)
    / c_l snk * fz 10000000 / c_cm snk.
  (* compute_coupling_cond_branchpoint(rad, r_a, l) / cm : branch point -> compartment *)
  Definition cond_bp2c (c : comp) : F :=
    c_r c / c_ra c / sq (c_l c) * fz 10000000 / c_cm c.
  (* compute_impact_on_node(rad, r_a, l) * 1000 : compartment -> branch point *)
  Definition weight_c2bp (c : comp) : F :=
    sq (c_r c) / c_ra c / c_l c * fz 1000.

  Definition children (parents : list nat) (b : nat) : list nat :=
    filter (fun c => (0 <? c)%nat && (nth c parents 0%nat =? b)%nat) (seq 0 (length parents)).

  Definition dummy : comp := mkcomp f1 f1 f1 f1 f0 f0 f0.
  Definition first_of (cs : list comp) := hd dummy cs.
  Definition last_of (cs : list comp) := last cs dummy.

  (* the chain of compartments of one branch.
     up  : conductance (already /cm) coupling the current compartment to the node above it
     lnk : this node's coefficient in the row of the node above it
     tail: subtree hanging below the last compartment (the branch point, if any)
     dn_last : conductance coupling the last compartment to that branch point (0 if none) *)
  Fixpoint chain (dt : F) (up lnk : F) (cs : list comp) (dn_last : F) (tail : list (tree F))
    : list (tree F) :=
    match cs with
    | [] => []
    | c :: rest =>
        let dn := match rest with [] => dn_last | nxt :: _ => cond_c2c c nxt end in
        let d := f1 + dt * (c_vt c + up + dn) in
        let b := c_v c + dt * c_ct c in
        let u := f0 - dt * up in
        let below := match rest with
                     | [] => tail
                     | nxt :: _ => chain dt (cond_c2c nxt c) (f0 - dt * cond_c2c c nxt) rest dn_last tail
                     end in
        [Node d u lnk b below]
    end.

  (* branch b with its whole subtree; `has_parent`: b hangs below a branch point *)
  Fixpoint build (fuel : nat) (parents : list nat) (branches : list (list comp)) (dt : F)
           (b : nat) (has_parent : bool) : list (tree F) :=
    match fuel with
    | O => []
    | S fuel' =>
        let cs := nth b branches [] in
        let kids := children parents b in
        let lastc := last_of cs in
        let firstc := first_of cs in
        let bp :=
          match kids with
          | [] => []
          | _ =>
              let wsum := fold_left (fun acc k => acc + weight_c2bp (first_of (nth k branches [])))
                                    kids (weight_c2bp lastc) in
              [Node wsum (f0 - weight_c2bp lastc) (f0 - dt * cond_bp2c lastc) f0
                    (flat_map (fun k => build fuel' parents branches dt k true) kids)]
          end in
        let dn_last := match kids with [] => f0 | _ => cond_bp2c lastc end in
        let up := if has_parent then cond_bp2c firstc else f0 in
        let lnk := if has_parent then f0 - weight_c2bp firstc else f0 in
        chain dt up lnk cs dn_last bp
    end.

  (* labels of the nodes in the order of TreeSolve.flatten: Some g = compartment with
     global index g, None = branch point *)
  Definition offset (branches : list (list comp)) (b : nat) : nat :=
    fold_left (fun acc cs => (acc + length cs)%nat) (firstn b branches) O.
  Fixpoint labels (fuel : nat) (parents : list nat) (branches : list (list comp)) (b : nat)
    : list (option nat) :=
    match fuel with
    | O => []
    | S fuel' =>
        let n := length (nth b branches []) in
        let kids := children parents b in
        map (fun k => Some (offset branches b + k)%nat) (seq 0%nat n)
        ++ match kids with
           | [] => []
           | _ => None :: flat_map (labels fuel' parents branches) kids
           end
    end.

  Definition root_tree (parents : list nat) (branches : list (list comp)) (dt : F) : tree F :=
    hd (Node f1 f0 f0 f0 []) (build (length parents) parents branches dt O false).

  (* one implicit step: pairs (node label, new value) *)
  Definition implicit_step (parents : list nat) (branches : list (list comp)) (dt : F)
    : list (option nat * F) :=
    combine (labels (length parents) parents branches O)
            (flatten (backsub F fsub fmul fdiv (root_tree parents branches dt) f0)).

  Definition comps_only (l : list (option nat * F)) : list (nat * F) :=
    flat_map (fun p => match fst p with Some g => [(g, snd p)] | None => [] end) l.

  (* Module.step: bwd_euler; crank_nicolson = 2 * implicit half step - v *)
  Definition step_bwd parents branches dt := comps_only (implicit_step parents branches dt).
  Definition step_cn parents branches dt :=
    let allc := concat branches in
    map (fun p => (fst p, fz 2 * snd p - c_v (nth (fst p) allc dummy)))
        (comps_only (implicit_step parents branches (dt / fz 2))).

  (* forward Euler on one unbranched cable (the only morphology the code supports) *)
  Fixpoint fwd_chain (dt : F) (prev : option comp) (cs : list comp) : list F :=
    match cs with
    | [] => []
    | c :: rest =>
        let from_prev := match prev with Some p => (c_v p - c_v c) * cond_c2c c p | None => f0 end in
        let from_next := match rest with nxt :: _ => (c_v nxt - c_v c) * cond_c2c c nxt | [] => f0 end in
        (c_v c + dt * (c_ct c - c_vt c * c_v c + from_prev + from_next)) :: fwd_chain dt (Some c) rest
    end.
  Definition step_fwd (cs : list comp) (dt : F) : list F := fwd_chain dt None cs.

  (* what the code must refuse *)
  Definition sorted_parents (parents : list nat) : bool :=
    forallb (fun b => (b =? 0)%nat || (nth b parents 0%nat <? b)%nat) (seq 0%nat (length parents)).
End Cable.
