(* A small object-graph model for copies of a module (C18): a heap maps object ids to
   (kind, fields); deepcopy allocates a fresh, isomorphic, disjoint graph; editing the copy
   cannot alter the original.  Pickling is modelled as encode/decode of the same graph into
   fresh ids (CPython's protocol itself is NOT modelled).  Axiom-free, executable. *)
From Coq Require Import List Arith Bool Lia.
Import ListNotations.

Definition obj := (nat * list nat)%type.          (* (kind, ids of the fields) *)
Definition heap := list (nat * obj).              (* id -> object, ids unique *)

Fixpoint lookup (h : heap) (i : nat) : option obj :=
  match h with
  | [] => None
  | (j, o) :: rest => if j =? i then Some o else lookup rest i
  end.
Definition ids (h : heap) : list nat := map fst h.
Definition bound (h : heap) : nat := S (fold_right Nat.max 0 (ids h ++ flat_map (fun e => snd (snd e)) h)).

(* deepcopy / pickle round trip: the same graph on fresh ids *)
Definition shift_obj (k : nat) (o : obj) : obj := (fst o, map (fun f => f + k) (snd o)).
Definition copy_at (k : nat) (h : heap) : heap := map (fun e => (fst e + k, shift_obj k (snd e))) h.
Definition deepcopy (h : heap) : heap := copy_at (bound h) h.

(* editing an object: replace its fields / kind *)
Fixpoint update (h : heap) (i : nat) (o : obj) : heap :=
  match h with
  | [] => []
  | (j, o') :: rest => if j =? i then (j, o) :: rest else (j, o') :: update rest i o
  end.

(* kinds that pickle can serialise (tables, dicts, lists, arrays, numbers, strings,
   functools.partial of module-level functions); 0 = a lambda / local closure *)
Definition picklable_kind (k : nat) : bool := negb (k =? 0).
Definition all_picklable (h : heap) : bool := forallb (fun e => picklable_kind (fst (snd e))) h.
