(* The linearisation of the synaptic currents in jaxley/modules/network.py:_synapse_currents (C09):
   every synapse's current (converted with the area of its POST compartment) is evaluated at the
   present voltages and with the post-synaptic voltage moved by [d]; the secant slope becomes a
   coefficient of the post-synaptic voltage ("voltage term") and the rest a constant term; the
   terms of all synapses onto one compartment are summed (gather_synapes), the constant terms with
   a minus sign.  Polymorphic in the number type (R in the theorems, Q under vm_compute in the
   correspondence check, which calls Network._synapse_currents itself).  Axiom-free. *)
From Coq Require Import List Arith Bool.
Import ListNotations.

Section Secant.
  Variable F : Type.
  Variables (fadd fsub fmul fdiv : F -> F -> F) (f0 : F).

  (* a synapse: pre and post compartment, current as a function of (v_pre, v_post) with its
     state and parameters fixed, conversion factor nA -> uA/cm2 of the post compartment *)
  Record syn : Type := mksyn { s_pre : nat; s_post : nat; s_cur : F -> F -> F; s_conv : F }.

  Definition dist_current (s : syn) (vpre vpost : F) : F := fmul (s_conv s) (s_cur s vpre vpost).

  (* (voltage_term, constant_term) of one synapse *)
  Definition terms (v : nat -> F) (d : F) (s : syn) : F * F :=
    let i0 := dist_current s (v (s_pre s)) (v (s_post s)) in
    let i1 := dist_current s (v (s_pre s)) (fadd (v (s_post s)) d) in
    let vt := fdiv (fsub i1 i0) d in
    (vt, fsub i0 (fmul vt (v (s_post s)))).

  (* what the code did before the repair F46: the pre-synaptic voltage is perturbed too *)
  Definition terms_both (v : nat -> F) (d : F) (s : syn) : F * F :=
    let i0 := dist_current s (v (s_pre s)) (v (s_post s)) in
    let i1 := dist_current s (fadd (v (s_pre s)) d) (fadd (v (s_post s)) d) in
    let vt := fdiv (fsub i1 i0) d in
    (vt, fsub i0 (fmul vt (v (s_post s)))).

  (* the accumulated (syn_voltage_terms, syn_constant_terms) of compartment c *)
  Definition accumulate (v : nat -> F) (d : F) (syns : list syn) (c : nat) : F * F :=
    fold_left (fun acc s =>
                 if Nat.eqb (s_post s) c
                 then (fadd (fst acc) (fst (terms v d s)), fsub (snd acc) (snd (terms v d s)))
                 else acc) syns (f0, f0).
End Secant.
