(* Rational instance of the array-level solver model, evaluated with vm_compute in the
   correspondence check against jaxley.solver_voltage.step_voltage_implicit_with_jaxley_spsolve. *)
From Coq Require Import List ZArith QArith Qreduction.
From JV Require Import CableQ HinesArr.
Import ListNotations.

Definition nthQ (l : list Q) (i : nat) : Q := nth i l 0.
Definition nthN (l : list nat) (i : nat) : nat := nth i l 0%nat.
Definition edgeQ (e : nat * nat * nat * Q) : edge Q :=
  match e with (so, si, t, g) => mkedge so si t g end.
Definition layoutL (cs pl nc : list nat) : layout := mklayout (nthN cs) (nthN pl) (nthN nc).

Definition arr_storeQ (mask : list nat) (ncomp : nat) (es : list (nat * nat * nat * Q)) (v vt ct : list Q) (dt : Q)
           (group child_inds par_inds : list nat) : store Q :=
  assemble Q qadd qsub qmul 0 1 (nthN mask) ncomp (map edgeQ es) (nthQ v) (nthQ vt) (nthQ ct) dt group child_inds par_inds.

Definition arr_stepQ (cs pl nc : list nat) (levels : list level) (roots : list nat)
           (mask : list nat) (ncomp : nat) (es : list (nat * nat * nat * Q)) (v vt ct : list Q) (dt : Q)
           (group child_inds par_inds : list nat) : list Q :=
  step_implicit Q qadd qsub qmul qdiv 0 1 (layoutL cs pl nc) levels roots (nthN mask) ncomp (map edgeQ es)
                (nthQ v) (nthQ vt) (nthQ ct) dt group child_inds par_inds.

(* true iff no operation of the schedule divides by zero *)
Definition arr_divisors_okQ (cs pl nc : list nat) (levels : list level) (roots : list nat)
           (mask : list nat) (ncomp : nat) (es : list (nat * nat * nat * Q)) (v vt ct : list Q) (dt : Q)
           (group child_inds par_inds : list nat) : bool :=
  let ly := layoutL cs pl nc in
  forallb (fun d => negb (Qeq_bool d 0))
          (divisors Q qadd qsub qmul qdiv 0 1 ly (ops_of_idx ly levels roots)
                    (arr_storeQ mask ncomp es v vt ct dt group child_inds par_inds)).

(* the M-matrix-like property of the assembled arrays (Proofs/HinesArrPositive.v: under it no
   operation of an accepted schedule divides by zero), decided over Q *)
From JV Require Import HinesCheck.
Definition qle0 (a : Q) : bool := Qle_bool a 0.
Definition qlt (a b : Q) : bool := negb (Qle_bool b a).
Definition rowdomQ (ly : layout) (tp : topo) (s : store Q) (b k : nat) : bool :=
  let i := (cs ly b + k)%nat in
  let lo := if (k =? 0)%nat then 0 else lw s i in
  let u := if (S k <? pl ly b)%nat then up s i else 0 in
  let c1 := if (k =? 0)%nat then match pbp tp b with Some _ => cc s b | None => 0 end else 0 in
  let c2 := if (k =? nc ly b - 1)%nat then match cbp tp b with Some _ => cp s b | None => 0 end else 0 in
  qle0 lo && qle0 u && qle0 c1 && qle0 c2 && qlt (- (lo + u + c1 + c2)) (dg s i).
Definition bpdomQ (tp : topo) (s : store Q) (j : nat) : bool :=
  forallb (fun c => Qle_bool 0 (wc s c)) (kids tp j) && Qle_bool 0 (wp s (par tp j))
  && Qle_bool (fold_right (fun c acc => wc s c + acc) 0 (kids tp j) + wp s (par tp j)) (- bd s j)
  && qlt (wp s (par tp j)) (- bd s j).
Definition arr_mstore_okQ (nb_ nbp_ : nat) (pbp_ cbp_ : list (option nat)) (kids_ : list (list nat)) (par_ : list nat)
           (cs_ pl_ nc_ : list nat) (mask : list nat) (ncomp : nat) (es : list (nat * nat * nat * Q)) (v vt ct : list Q) (dt : Q)
           (group child_inds par_inds : list nat) : bool :=
  let ly := layoutL cs_ pl_ nc_ in
  let tp := mktopo nb_ nbp_ (nthO pbp_) (nthO cbp_) (nthL kids_) (nthD par_) in
  let s := arr_storeQ mask ncomp es v vt ct dt group child_inds par_inds in
  forallb (fun b => forallb (rowdomQ ly tp s b) (seq 0 (pl ly b))) (seq 0 nb_) && forallb (bpdomQ tp s) (seq 0 nbp_).
