(* Rational instance of the array-level solver model, evaluated with vm_compute in the
   correspondence check against jaxley.solver_voltage.step_voltage_implicit_with_jaxley_spsolve. *)
From Coq Require Import List ZArith QArith Qreduction.
From JV Require Import CableQ HinesArr.
Import ListNotations.

Definition nthQ (l : list Q) (i : nat) : Q := nth i l 0.
Definition nthN (l : list nat) (i : nat) : nat := nth i l 0%nat.
Definition edgeQ (e : nat * nat * nat * Q) : edge Q :=
  match e with (so, si, t, g) => mkedge so si t g end.
Definition layoutL (cs pl nc : list nat) : layout := mklayout (nthN cs) (nthN pl) (nthN nc).

Definition arr_storeQ (mask : list nat) (ncomp : nat) (es : list (nat * nat * nat * Q)) (v vt ct : list Q) (dt : Q)
           (group child_inds par_inds : list nat) : store Q :=
  assemble Q qadd qsub qmul 0 1 (nthN mask) ncomp (map edgeQ es) (nthQ v) (nthQ vt) (nthQ ct) dt group child_inds par_inds.

Definition arr_stepQ (cs pl nc : list nat) (levels : list level) (roots : list nat)
           (mask : list nat) (ncomp : nat) (es : list (nat * nat * nat * Q)) (v vt ct : list Q) (dt : Q)
           (group child_inds par_inds : list nat) : list Q :=
  step_implicit Q qadd qsub qmul qdiv 0 1 (layoutL cs pl nc) levels roots (nthN mask) ncomp (map edgeQ es)
                (nthQ v) (nthQ vt) (nthQ ct) dt group child_inds par_inds.

(* true iff no operation of the schedule divides by zero *)
Definition arr_divisors_okQ (cs pl nc : list nat) (levels : list level) (roots : list nat)
           (mask : list nat) (ncomp : nat) (es : list (nat * nat * nat * Q)) (v vt ct : list Q) (dt : Q)
           (group child_inds par_inds : list nat) : bool :=
  let ly := layoutL cs pl nc in
  forallb (fun d => negb (Qeq_bool d 0))
          (divisors Q qadd qsub qmul qdiv 0 1 ly (ops_of_idx ly levels roots)
                    (arr_storeQ mask ncomp es v vt ct dt group child_inds par_inds)).
