(* jaxley/utils/cell_utils.py:_split_branch_equally and its use in _split_long_branches (the max_branch_len splitting
   of the SWC reader, C16), after the repairs of F25 / F63: a section of s = len - 1 traced segments is cut into
   k = max 1 (min n s) pieces at the points  c_i = i*s / k  (integer division): piece i = points c_i .. c_{i+1}.
   A section that starts at a single-point soma keeps its first (zero-length) segment with the first piece: the points
   after the soma are cut, and the soma point is put in front of the first piece (`split_from_soma`).
   `split_equally_old` is the splitting before the repair (first piece = the first len/n points).
   Executable, axiom-free; compared exactly with the code on random sections. *)
From Coq Require Import List Arith.
Import ListNotations.

Definition slice {A} (l : list A) (a b : nat) : list A := firstn (b - a) (skipn a l).

Definition npieces (len n : nat) : nat := Nat.max 1 (Nat.min n (len - 1)).
Definition cut (len n i : nat) : nat := i * (len - 1) / npieces len n.

Definition split_equally {A} (branch : list A) (n : nat) : list (list A) :=
  let len := length branch in
  map (fun i => slice branch (cut len n i) (cut len n (i + 1) + 1)) (seq 0 (npieces len n)).

Definition split_from_soma {A} (branch : list A) (n : nat) : list (list A) :=
  match branch with
  | soma :: rest => match split_equally rest n with
                    | first :: others => (soma :: first) :: others
                    | [] => [branch]
                    end
  | [] => [branch]
  end.

Definition split_equally_old {A} (branch : list A) (n : nat) : list (list A) :=
  let m := length branch / n in
  slice branch 0 m
  :: map (fun i => slice branch (i * m - 1) ((i + 1) * m)) (seq 1 (n - 2))
  ++ [skipn ((n - 1) * m - 1) branch].
