(* jaxley/utils/cell_utils.py:_split_branch_equally (the max_branch_len splitting of the SWC reader, C16): a
   section (list of traced points, the first one being the point it shares with its parent) is cut into n pieces by
   NUMBER of points: m = len // n; first piece = the first m points, piece i = points i*m-1 .. (i+1)*m-1, the last
   piece = everything from (n-1)*m-1.  Executable, axiom-free; compared exactly with the code on random sections. *)
From Coq Require Import List Arith.
Import ListNotations.

Definition slice {A} (l : list A) (a b : nat) : list A := firstn (b - a) (skipn a l).

Definition split_equally {A} (branch : list A) (n : nat) : list (list A) :=
  let m := length branch / n in
  slice branch 0 m
  :: map (fun i => slice branch (i * m - 1) ((i + 1) * m)) (seq 1 (n - 2))
  ++ [skipn ((n - 1) * m - 1) branch].
