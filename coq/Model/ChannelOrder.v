(* The sequential update of the channel states in jaxley/modules/base.py:_step_channels_state (C12, known finding
   F38): channels are updated one after the other in the order of the module's channel list, each reading the
   states named in its own channel_states (at their CURRENT values, i.e. including what earlier channels of the same
   step have written) and writing back the states it returns.  One compartment; states are numbered. *)
From Coq Require Import List Arith Bool Reals.
Import ListNotations.

Definition mem (x : nat) (l : list nat) : bool := existsb (Nat.eqb x) l.

Record chan := mkchan {
  reads : list nat;                        (* the names in channel_states *)
  writes : list nat;                       (* the keys update_states returns *)
  upd : (nat -> R) -> nat -> R             (* new value of a written state *)
}.

Definition apply_chan (s : nat -> R) (c : chan) : nat -> R :=
  fun n => if mem n (writes c) then upd c s n else s n.

Definition run_chans (cs : list chan) (s : nat -> R) : nat -> R := fold_left apply_chan cs s.
