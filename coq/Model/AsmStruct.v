(* Decidable consistency of the index lists that the code hands to the assembly of the solver arrays
   (comp_edges sorted by type, branchpoint_group_inds, child_inds, par_inds, the remapping of the
   compartments into padded slots) with the layout and the topology (C01).  Reads only the integer
   fields of the edges.  Evaluated (vm_compute) on the code's own arrays for every sampled module;
   Proofs/AssembleM.v proves that it implies the hypotheses of `assembled_Mstore`.  Axiom-free. *)
From Coq Require Import List Arith Bool.
From JV Require Import HinesArr HinesCheck.
Import ListNotations.

Definition trip := (nat * nat * nat)%type.          (* source, sink, type *)
Definition t_sink (e : trip) : nat := snd (fst e).
Definition t_type (e : trip) : nat := snd e.
Definition t_of_type (t : nat) (l : list trip) : list trip := filter (fun e => t_type e =? t) l.
Definition strip {F : Type} (e : edge F) : trip := (e_source F e, e_sink F e, e_type F e).

Fixpoint nodupb (l : list nat) : bool :=
  match l with [] => true | x :: r => negb (existsb (Nat.eqb x) r) && nodupb r end.
Definition oeqb (a b : option nat) : bool :=
  match a, b with Some x, Some y => x =? y | None, None => true | _, _ => false end.

Definition asm_struct_b (ly : layout) (tp : topo) (mask : nat -> nat) (ts : list trip)
           (group child_inds par_inds : list nat) : bool :=
  let n3 := length par_inds in
  let n4 := length child_inds in
  (length (t_of_type 2 ts) =? n4) && (length (t_of_type 4 ts) =? n4)
  && (length (t_of_type 1 ts) =? n3) && (length (t_of_type 3 ts) =? n3)
  && (length group =? n3 + n4) && nodupb child_inds
  && forallb (fun idx => mask (t_sink (nth idx (t_of_type 2 ts) (0, 0, 0))) =? cs ly (nth idx child_inds 0)) (seq 0 n4)
  && forallb (fun idx => mask (t_sink (nth idx (t_of_type 1 ts) (0, 0, 0)))
                         =? cs ly (nth idx par_inds 0) + (nc ly (nth idx par_inds 0) - 1)) (seq 0 n3)
  && forallb (fun idx => oeqb (cbp tp (nth idx par_inds 0)) (Some (nth idx group 0))) (seq 0 n3)
  && forallb (fun idx => oeqb (pbp tp (nth idx child_inds 0)) (Some (nth (n3 + idx) group 0))) (seq 0 n4)
  && forallb (fun c => match pbp tp c with Some _ => existsb (Nat.eqb c) child_inds | None => true end) (seq 0 (nb tp))
  && forallb (fun j => match kids tp j with [] => false | _ :: _ => true end) (seq 0 (nbp tp)).

(* on the lists the harness extracts from a module *)
Definition asm_struct_idx (nb_ nbp_ : nat) (pbp_ cbp_ : list (option nat)) (kids_ : list (list nat)) (par_ : list nat)
           (cs_ pl_ nc_ : list nat) (mask : list nat) (ts : list trip) (group child_inds par_inds : list nat) : bool :=
  let ly := mklayout (nthD cs_) (nthD pl_) (nthD nc_) in
  let tp := mktopo nb_ nbp_ (nthO pbp_) (nthO cbp_) (nthL kids_) (nthD par_) in
  asm_struct_b ly tp (nthD mask) ts group child_inds par_inds.
