(* jaxley/stimulus.py:_time_to_step and the window of step_current / datapoint_to_step_currents (C08, repair F42):
   the index of the time step that starts at time t is t/dt truncated, unless t/dt is an integer up to 1e-6 (rounding
   noise of the floating-point quotient), in which case it is that integer.  Over Q; compared with the code on
   decimal inputs. *)
From Coq Require Import QArith Qabs ZArith List.
Import ListNotations.
Local Open Scope Q_scope.

Definition qfloor (x : Q) : Z := (Qnum x / Zpos (Qden x))%Z.
Definition qround (x : Q) : Z := qfloor (x + (1 # 2)).
Definition time_to_step (t dt : Q) : Z :=
  let steps := t / dt in
  let nearest := qround steps in
  if Qlt_le_dec (Qabs (steps - inject_Z nearest)) (1 # 1000000) then nearest else qfloor steps.

(* the samples of a step current that carry the amplitude: [start, stop) *)
Definition step_window (i_delay i_dur dt : Q) : Z * Z := (time_to_step i_delay dt, time_to_step (i_delay + i_dur) dt).
