(* References to channel states / parameters (recordings, clamps, trainables) under insert, delete_channel,
   record / clamp / make_trainable and their deletion (C19; the aspect behind the defects F65 and F69).
   A reference is a pair (column, row).  delete_channel (jaxley/modules/base.py) clears a column of the deleted
   channel on the rows of the view where no other channel owns it, and REFUSES the deletion when a reference would
   be left dangling: a reference on a cleared row, or - if the channel disappears from the module and no other
   registered channel owns the column - a reference anywhere.  Executable, axiom-free; compared with the running
   code on random histories (acceptance of every call and the final references). *)
From Coq Require Import List Arith Bool.
Import ListNotations.

Definition memb (x : nat) (l : list nat) : bool := existsb (Nat.eqb x) l.
Definition nonemptyb {A} (l : list A) : bool := match l with [] => false | _ => true end.
Definition unionl (a b : list nat) : list nat := a ++ filter (fun x => negb (memb x a)) b.
Definition diffl (a b : list nat) : list nat := filter (fun x => negb (memb x b)) a.
Definition interl (a b : list nat) : list nat := filter (fun x => memb x b) a.

Definition memp (x : nat * nat) (l : list (nat * nat)) : bool := existsb (fun y => (fst x =? fst y) && (snd x =? snd y)) l.

Record rst := mkr { rchan : nat -> list nat; rrefs : list (nat * nat) }.

Section Refs.
  Variable owns : nat -> list nat.
  Variable nchan : nat.

  Definition fupdl (f : nat -> list nat) (k : nat) (v : list nat) : nat -> list nat := fun j => if j =? k then v else f j.

  Definition registered (s : rst) (k : nat) : bool := nonemptyb (rchan s k).
  (* rows of the view on which column c is cleared when channel ch is deleted *)
  Definition cleared (s : rst) (ch c : nat) (rows : list nat) : list nat :=
    filter (fun r => negb (existsb (fun k => negb (k =? ch) && memb c (owns k) && memb r (rchan s k)) (seq 0 nchan))) rows.
  Definition remains (s : rst) (ch : nat) (rows : list nat) : bool := nonemptyb (diffl (rchan s ch) rows).
  Definition shared (s : rst) (ch c : nat) : bool :=
    existsb (fun k => negb (k =? ch) && registered s k && memb c (owns k)) (seq 0 nchan).

  Definition dangling_after (s : rst) (ch : nat) (rows : list nat) (everywhere : bool) : bool :=
    existsb (fun c => existsb (fun cr => (fst cr =? c) &&
                                         (if everywhere && negb (remains s ch rows) && negb (shared s ch c) then true
                                          else memb (snd cr) (cleared s ch c rows))) (rrefs s)) (owns ch).

  Inductive rop :=
  | RInsert (ch : nat) (rows : list nat)
  | RDelete (ch : nat) (rows : list nat)
  | RDeleteF65 (ch : nat) (rows : list nat)        (* the first repair: only references on cleared rows are seen *)
  | RDeleteOld (ch : nat) (rows : list nat)        (* the tree as given: no refusal *)
  | RRef (c : nat) (rows : list nat)               (* record / clamp / make_trainable of column c through a view (no duplicates) *)
  | RUnref (rows : list nat).                      (* delete_recordings etc. through a view *)

  Definition in_view (s : rst) (ch : nat) (rows : list nat) : bool := nonemptyb (interl (rchan s ch) rows).

  (* None = the call is refused and nothing changes *)
  Definition rstep (s : rst) (o : rop) : option rst :=
    match o with
    | RInsert ch rows => Some (mkr (fupdl (rchan s) ch (unionl (rchan s ch) rows)) (rrefs s))
    | RDelete ch rows =>
        if negb (in_view s ch rows) then None
        else if dangling_after s ch rows true then None
        else Some (mkr (fupdl (rchan s) ch (diffl (rchan s ch) rows)) (rrefs s))
    | RDeleteF65 ch rows =>
        if negb (in_view s ch rows) then None
        else if dangling_after s ch rows false then None
        else Some (mkr (fupdl (rchan s) ch (diffl (rchan s ch) rows)) (rrefs s))
    | RDeleteOld ch rows =>
        if negb (in_view s ch rows) then None
        else Some (mkr (fupdl (rchan s) ch (diffl (rchan s ch) rows)) (rrefs s))
    | RRef c rows =>
        (* the view must know the column: some channel owning it is present in the view *)
        if existsb (fun k => memb c (owns k) && in_view s k rows) (seq 0 nchan)
        then Some (mkr (rchan s) (rrefs s ++ filter (fun cr => negb (memp cr (rrefs s))) (map (fun r => (c, r)) rows))) else None
    | RUnref rows => Some (mkr (rchan s) (filter (fun cr => negb (memb (snd cr) rows)) (rrefs s)))
    end.

  Definition rapply (s : rst) (o : rop) : rst := match rstep s o with Some s' => s' | None => s end.
  Definition rrun (s : rst) (ops : list rop) : rst := fold_left rapply ops s.
  Definition accepted (s : rst) (ops : list rop) : list bool :=
    snd (fold_left (fun acc o => (rapply (fst acc) o, snd acc ++ [match rstep (fst acc) o with Some _ => true | None => false end])) ops (s, [])).

  (* every referenced column is known to the module: some registered channel owns it *)
  Definition known (s : rst) (c : nat) : bool := existsb (fun k => memb c (owns k) && registered s k) (seq 0 nchan).
  Definition refs_known (s : rst) : bool := forallb (fun cr => known s (fst cr)) (rrefs s).

  Definition rinit : rst := mkr (fun _ => []) [].
End Refs.
