(* Index bookkeeping shared by C08 (recordings, inputs), C09 (synapses) and C10
   (trainables): JAX's .at[].set / scatter-add / gather index semantics, per-type synapse
   arrays and rank-within-type, padding of trainable groups, t_max pad/truncate.
   Executable, axiom-free. *)
From Coq Require Import List ZArith Bool Arith Lia.
Import ListNotations.

Section Arrays.
  Context {A : Type}.

  Fixpoint upd (l : list A) (k : nat) (x : A) : list A :=
    match l, k with
    | [], _ => []
    | _ :: t, O => x :: t
    | h :: t, S k' => h :: upd t k' x
    end.

  (* x.at[i]: a negative index counts from the end; out-of-range updates are dropped *)
  Definition norm_index (n : nat) (i : Z) : option nat :=
    if ((0 <=? i) && (i <? Z.of_nat n))%Z then Some (Z.to_nat i)
    else if ((- Z.of_nat n <=? i) && (i <? 0))%Z then Some (Z.to_nat (i + Z.of_nat n))
    else None.

  Definition set_at (arr : list A) (i : Z) (x : A) : list A :=
    match norm_index (length arr) i with Some k => upd arr k x | None => arr end.

  (* params[key].at[inds].set(val[:, None]) : row g of inds receives val[g] *)
  Definition set_group (arr : list A) (inds : list Z) (x : A) : list A :=
    fold_left (fun a i => set_at a i x) inds arr.
  Definition apply_trainable (arr : list A) (groups : list (list Z)) (vals : list A) : list A :=
    fold_left (fun a gv => set_group a (fst gv) (snd gv)) (combine groups vals) arr.
End Arrays.

(* make_trainable pads the shorter groups to the longest one:
   before the fix with -1, now with the first index of the same group *)
Definition pad_old (maxlen : nat) (g : list Z) : list Z := g ++ repeat (-1)%Z (maxlen - length g).
Definition pad_new (maxlen : nat) (g : list Z) : list Z := g ++ repeat (hd 0%Z g) (maxlen - length g).

(* ---- synapses: one array per synapse type --------------------------------------------- *)
Section Synapses.
  Context {A : Type}.
  (* to_jax: the entries of a column whose edge has type t, in table order *)
  Definition per_type (types : list nat) (col : list A) (t : nat) : list A :=
    map snd (filter (fun tc => Nat.eqb (fst tc) t) (combine types col)).
  (* edges.groupby("type").rank()["global_edge_index"] - 1 *)
  Definition rank_in_type (types : list nat) (e : nat) : nat :=
    length (filter (Nat.eqb (nth e types 0)) (firstn e types)).
End Synapses.

(* ---- recordings --------------------------------------------------------------------------- *)
(* record(): append the rows of the view, drop rows already present (keeping the first) *)
Definition rec_eqb (a b : nat * nat) : bool := Nat.eqb (fst a) (fst b) && Nat.eqb (snd a) (snd b).
Fixpoint record (recs : list (nat * nat)) (new : list (nat * nat)) : list (nat * nat) :=
  match new with
  | [] => recs
  | r :: rest => if existsb (rec_eqb r) recs then record recs rest else record (recs ++ [r]) rest
  end.

(* ---- external inputs ---------------------------------------------------------------------- *)
(* _get_external_input: scatter-add of the converted currents onto their target rows *)
Section ScatterAdd.
  Variable F : Type.
  Variable fadd : F -> F -> F.
  Fixpoint scatter_add (arr : list F) (inds : list nat) (vals : list F) : list F :=
    match inds, vals with
    | i :: inds', v :: vals' => scatter_add (upd arr i (fadd (nth i arr v) v)) inds' vals'
    | _, _ => arr
    end.
End ScatterAdd.

(* integrate: pad a stimulus with zeros up to n steps, or truncate it *)
Definition pad_or_truncate {A} (n : nat) (zero : A) (xs : list A) : list A :=
  firstn n xs ++ repeat zero (n - length xs).

(* stimulus.step_current: window [start, stop) set to amp inside an array of length n *)
Definition step_current {A} (n start stop : nat) (offset amp : A) : list A :=
  map (fun k => if (start <=? k) && (k <? stop) then amp else offset) (seq 0 n).
