(* The schedule checker for the array-level solver model (C01): tracks which entries of
   the arrays are known to be zero / one while the elementary operations of a schedule are
   performed, verifies the side condition of every operation and that the final system is
   the identity.  Soundness is Proofs/HinesArrFacts.v.  Booleans and naturals only;
   evaluated with vm_compute on the index structures of the running code.  Axiom-free. *)
From Coq Require Import List Arith Bool.
From JV Require Import HinesArr.
Import ListNotations.

(* topology: which branch point a branch hangs on / carries at its far end *)
Record topo : Type := mktopo {
  nb : nat; nbp : nat;
  pbp : nat -> option nat;      (* branch -> the branch point it hangs on *)
  cbp : nat -> option nat;      (* branch -> the branch point at its end *)
  kids : nat -> list nat;       (* branch point -> child branches *)
  par : nat -> nat              (* branch point -> parent branch *)
}.

Record flags : Type := mkflags {
  fU : nat -> bool; fL : nat -> bool; fN : nat -> bool;                     (* per slot: upper = 0, lower = 0, diag = 1 *)
  fCC : nat -> bool; fCP : nat -> bool; fWC : nat -> bool; fWP : nat -> bool (* per branch: entry = 0 *)
}.

Definition bupd (f : nat -> bool) (i : nat) (v : bool) : nat -> bool :=
  fun j => if Nat.eqb j i then v else f j.

Definition flags0 : flags :=
  let z := fun _ : nat => false in mkflags z z z z z z z.

Definition opt_eqb (o : option nat) (j : nat) : bool :=
  match o with Some j' => Nat.eqb j' j | None => false end.

Section Check.
  Variables (ly : layout) (tp : topo).

  Definition uzb (fl : flags) (b k : nat) : bool := negb (S k <? pl ly b) || fU fl (cs ly b + k).
  Definition lzb (fl : flags) (b k : nat) : bool := (k =? 0) || fL fl (cs ly b + k).
  Definition cczb (fl : flags) (b k : nat) : bool :=
    negb (k =? 0) || match pbp tp b with None => true | Some _ => fCC fl b end.
  Definition cpzb (fl : flags) (b k : nat) : bool :=
    negb (k =? nc ly b - 1) || match cbp tp b with None => true | Some _ => fCP fl b end.
  Definition kidsb (fl : flags) (j : nat) : bool := forallb (fWC fl) (kids tp j).

  Definition check_op (fl : flags) (o : op) : bool :=
    match o with
    | Norm b k => (b <? nb tp) && (1 <=? k) && (k <? pl ly b) && uzb fl b k && cpzb fl b k
    | ElimUp b k => (b <? nb tp) && (S k <? pl ly b) && fN fl (S (cs ly b + k)) && uzb fl b (S k) && cpzb fl b (S k)
    | ChildLower b j => (b <? nb tp) && opt_eqb (pbp tp b) j && uzb fl b 0 && cpzb fl b 0
    | ParentUpper b j => (b <? nb tp) && opt_eqb (cbp tp b) j && kidsb fl j
    | DivFirst b => (b <? nb tp) && uzb fl b 0 && cczb fl b 0 && cpzb fl b 0
    | SubLower b k => (b <? nb tp) && (1 <=? k) && (k <? pl ly b) && fN fl (cs ly b + k - 1)
                      && lzb fl b (k - 1) && uzb fl b (k - 1) && cczb fl b (k - 1) && cpzb fl b (k - 1)
    | ParentLower b j => (b <? nb tp) && opt_eqb (cbp tp b) j
                         && lzb fl b (nc ly b - 1) && uzb fl b (nc ly b - 1) && cczb fl b (nc ly b - 1) && cpzb fl b (nc ly b - 1)
    | ChildUpper b j => (b <? nb tp) && opt_eqb (pbp tp b) j && kidsb fl j && fWP fl (par tp j)
    end.

  Definition aupd (fl : flags) (o : op) : flags :=
    match o with
    | Norm b k => mkflags (fU fl) (fL fl) (bupd (fN fl) (cs ly b + k) true) (fCC fl) (fCP fl) (fWC fl) (fWP fl)
    | ElimUp b k => mkflags (bupd (fU fl) (cs ly b + k) true) (fL fl) (bupd (fN fl) (cs ly b + k) false) (fCC fl) (fCP fl) (fWC fl) (fWP fl)
    | ChildLower b j => mkflags (fU fl) (fL fl) (fN fl) (fCC fl) (fCP fl) (bupd (fWC fl) b true) (fWP fl)
    | ParentUpper b j => mkflags (fU fl) (fL fl) (bupd (fN fl) (last ly b) false) (fCC fl) (bupd (fCP fl) b true) (fWC fl) (fWP fl)
    | DivFirst b => mkflags (fU fl) (fL fl) (bupd (fN fl) (first ly b) true) (fCC fl) (fCP fl) (fWC fl) (fWP fl)
    | SubLower b k => mkflags (fU fl) (bupd (fL fl) (cs ly b + k) true) (fN fl) (fCC fl) (fCP fl) (fWC fl) (fWP fl)
    | ParentLower b j => mkflags (fU fl) (fL fl) (fN fl) (fCC fl) (fCP fl) (fWC fl) (bupd (fWP fl) b true)
    | ChildUpper b j => mkflags (fU fl) (fL fl) (fN fl) (bupd (fCC fl) b true) (fCP fl) (fWC fl) (fWP fl)
    end.

  Fixpoint check_ops (fl : flags) (ops : list op) : option flags :=
    match ops with
    | [] => Some fl
    | o :: r => if check_op fl o then check_ops (aupd fl o) r else None
    end.

  (* at the end: every compartment row reads 1 * x = solves, every branch-point row
     reads bd * y = bs *)
  Definition row_final (fl : flags) (b k : nat) : bool :=
    fN fl (cs ly b + k) && lzb fl b k && uzb fl b k && cczb fl b k && cpzb fl b k.
  Definition final_ok (fl : flags) : bool :=
    forallb (fun b => forallb (row_final fl b) (seq 0 (pl ly b))) (seq 0 (nb tp))
    && forallb (fun j => kidsb fl j && fWP fl (par tp j)) (seq 0 (nbp tp)).

  (* well-formedness of layout and topology *)
  Fixpoint nodupb (l : list nat) : bool :=
    match l with [] => true | c :: r => negb (existsb (Nat.eqb c) r) && nodupb r end.

  Definition wf_b : bool :=
    forallb (fun b => (1 <=? nc ly b) && (nc ly b <=? pl ly b)) (seq 0 (nb tp))
    && forallb (fun b => cs ly b + pl ly b <=? cs ly (S b)) (seq 0 (nb tp - 1))
    && forallb (fun j => nodupb (kids tp j)) (seq 0 (nbp tp))
    && forallb (fun j => forallb (fun c => (c <? nb tp) && opt_eqb (pbp tp c) j) (kids tp j)) (seq 0 (nbp tp))
    && forallb (fun c => match pbp tp c with None => true | Some j => (j <? nbp tp) && existsb (Nat.eqb c) (kids tp j) end) (seq 0 (nb tp))
    && forallb (fun j => (par tp j <? nb tp) && opt_eqb (cbp tp (par tp j)) j) (seq 0 (nbp tp))
    && forallb (fun b => match cbp tp b with None => true | Some j => (j <? nbp tp) && (par tp j =? b) end) (seq 0 (nb tp)).

  Definition check_schedule (ops : list op) : bool :=
    wf_b && match check_ops flags0 ops with Some fl => final_ok fl | None => false end.
End Check.

(* the checker on the code's own index structure (lists from JaxleySolveIndexer) *)
Definition nthO (l : list (option nat)) (i : nat) : option nat := nth i l None.
Definition nthL (l : list (list nat)) (i : nat) : list nat := nth i l [].
Definition nthD (l : list nat) (i : nat) : nat := nth i l 0.

Definition check_idx (nb_ nbp_ : nat) (pbp_ cbp_ : list (option nat)) (kids_ : list (list nat)) (par_ : list nat)
           (cs_ pl_ nc_ : list nat) (levels : list level) (roots : list nat) : bool :=
  let ly := mklayout (nthD cs_) (nthD pl_) (nthD nc_) in
  let tp := mktopo nb_ nbp_ (nthO pbp_) (nthO cbp_) (nthL kids_) (nthD par_) in
  check_schedule ly tp (ops_of_idx ly levels roots).
