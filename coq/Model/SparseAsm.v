(* The linear system that the `jax.sparse` backend hands to spsolve (step_voltage_implicit_with_jax_spsolve +
   comp_edges_to_indices), as a function of the edge table: in node space (compartments 0..ncomp-1, then branch
   points), no padding, no levels.
     diagonal_values[sinks] += dt*g ; diagonal_values[internal nodes] += 1 + dt*vt ; off-diagonals -dt*g ;
     solves[internal nodes] = v + dt*ct .
   comp_edges_to_indices lists the off-diagonal of edge e under (row, col) = (source, sink) and converts to CSC;
   jax's spsolve reads the three arrays as CSR, i.e. it solves with the TRANSPOSE: effectively the entry of edge e is
   at row = sink(e), column = source(e).  `sp_entry` is that effective matrix, which the harness compares exactly with
   the matrix reconstructed from the (data, indices, indptr) the code passes to spsolve.
   Polymorphic in the number type (R in the theorems, Q under vm_compute).  Axiom-free. *)
From Coq Require Import List Arith Bool.
From JV Require Import HinesArr.
Import ListNotations.

Section SparseAsm.
  Variable F : Type.
  Variables (fadd fsub fmul : F -> F -> F) (f0 f1 : F).
  Notation edge := (edge F).

  Definition sp_sum (val : edge -> F) (p : edge -> bool) (es : list edge) : F :=
    fold_right (fun e acc => fadd (if p e then val e else f0) acc) f0 es.

  Definition sp_diag (ncomp : nat) (es : list edge) (vt : nat -> F) (dt : F) (i : nat) : F :=
    fadd (if i <? ncomp then fadd f1 (fmul dt (vt i)) else f0)
         (sp_sum (fun e => fmul dt (e_g F e)) (fun e => e_sink F e =? i) es).
  (* effective off-diagonal entry (row i, column j), i <> j *)
  Definition sp_off (es : list edge) (dt : F) (i j : nat) : F :=
    sp_sum (fun e => fsub f0 (fmul dt (e_g F e))) (fun e => (e_sink F e =? i) && (e_source F e =? j)) es.
  Definition sp_entry (ncomp : nat) (es : list edge) (vt : nat -> F) (dt : F) (i j : nat) : F :=
    if i =? j then sp_diag ncomp es vt dt i else sp_off es dt i j.
  Definition sp_rhs (ncomp : nat) (v ct : nat -> F) (dt : F) (i : nat) : F :=
    if i <? ncomp then fadd (v i) (fmul dt (ct i)) else f0.

  (* row i applied to z: diagonal * z_i - sum over the edges into i of dt*g*z_source *)
  Definition sp_row (ncomp : nat) (es : list edge) (vt : nat -> F) (dt : F) (z : nat -> F) (i : nat) : F :=
    fsub (fmul (sp_diag ncomp es vt dt i) (z i))
         (sp_sum (fun e => fmul (fmul dt (e_g F e)) (z (e_source F e))) (fun e => e_sink F e =? i) es).

  (* what the harness prints: the dense effective matrix and the right-hand side *)
  Definition sp_dense (n_nodes ncomp : nat) (es : list edge) (vt : nat -> F) (dt : F) : list (list F) :=
    map (fun i => map (sp_entry ncomp es vt dt i) (seq 0 n_nodes)) (seq 0 n_nodes).
  Definition sp_rhs_list (n_nodes ncomp : nat) (v ct : nat -> F) (dt : F) : list F := map (sp_rhs ncomp v ct dt) (seq 0 n_nodes).
End SparseAsm.
