(* The sectioning loop of jaxley's SWC reader (jaxley/utils/cell_utils.py:
   _split_into_branches, the stable sort by first point, _build_parents), as written: two
   passes over the rows.  A row is (id, type, parent); the root's parent is 0 (-1 in the file).
   Executable, axiom-free; compared exactly with the running code on random SWC trees, and its
   output is run through the verified checker of Model/Swc.v. *)
From Coq Require Import List Arith Bool.
Import ListNotations.

Definition srow := (nat * nat * nat)%type.        (* id, type, parent *)
Definition r_id (r : srow) := fst (fst r).
Definition r_ty (r : srow) := snd (fst r).
Definition r_par (r : srow) := snd r.
Definition memb (x : nat) (l : list nat) : bool := existsb (Nat.eqb x) l.

(* pass 1: the parents of all rows that do not continue the previous row with the same type *)
Fixpoint branch_inds_from (prev : option (nat * nat)) (rows : list srow) : list nat :=
  match rows with
  | [] => []
  | r :: rest =>
      let continues := match prev with Some (pid, pty) => (r_par r =? pid) && (r_ty r =? pty) | None => false end in
      (if continues then [] else [r_par r]) ++ branch_inds_from (Some (r_id r, r_ty r)) rest
  end.
Definition branch_inds (rows : list srow) : list nat := branch_inds_from None rows.

(* pass 2 *)
Record st2 := mk2 { done_b : list (list nat); done_t : list nat; cur : list nat; cur_ty : nat }.

Definition step2 (binds : list nat) (sps : bool) (ty2 : nat) (s : st2) (r : srow) : st2 :=
  let is_root := r_par r =? 0 in
  let t1 := if is_root then done_t s ++ [r_ty r] else done_t s in
  let cty := if is_root then cur_ty s else r_ty r in
  let soma := is_root && sps && (r_id r =? 1) in
  let b1 := if soma then done_b s ++ [[r_id r]] else done_b s in
  let t2 := if soma then t1 ++ [ty2] else t1 in
  if memb (r_par r) (tl binds) then
    if 1 <? length (cur s) then mk2 (b1 ++ [cur s]) (t2 ++ [cty]) [r_par r; r_id r] cty
    else mk2 b1 t2 [r_par r; r_id r] cty
  else mk2 b1 t2 (cur s ++ [r_id r]) cty.

Definition split_into_branches (rows : list srow) (sps : bool) : list (list nat) * list nat :=
  let ty2 := match rows with _ :: r2 :: _ => r_ty r2 | _ => 0 end in
  let s := fold_left (step2 (branch_inds rows) sps ty2) rows (mk2 [] [] [] 0) in
  (done_b s ++ [cur s], done_t s).

(* stable sort of (branch, type) pairs by the first point of the branch *)
Fixpoint insert_by (x : list nat * nat) (l : list (list nat * nat)) : list (list nat * nat) :=
  match l with
  | [] => [x]
  | y :: r => if hd 0 (fst x) <=? hd 0 (fst y) then x :: l else y :: insert_by x r
  end.
Definition sort_by_first (l : list (list nat * nat)) : list (list nat * nat) := fold_right insert_by [] l.

Fixpoint find_index (p : nat -> bool) (n : nat) (k : nat) : option nat :=
  match n with 0 => None | S n' => if p k then Some k else find_index p n' (S k) end.

(* _build_parents: the first branch (other than itself) whose last point is this branch's first *)
Definition build_parents (bs : list (list nat)) : list (option nat) :=
  map (fun ib => let '(i, b) := ib in
         match find_index (fun j => (last (nth j bs []) 0 =? hd 0 b)) (length bs) 0 with
         | Some j => if j =? i then None else Some j
         | None => None
         end) (combine (seq 0 (length bs)) bs).

Definition read_sections (rows : list srow) (sps : bool) : list (list nat) * (list nat * list (option nat)) :=
  let '(bs, ts) := split_into_branches rows sps in
  let sorted := sort_by_first (combine bs ts) in
  (map fst sorted, (map snd sorted, build_parents (map fst sorted))).
