(* The index lists jaxley hands to the assembly of the solver arrays for a CELL, as functions of the parent
   vector and the compartment counts (C01): compute_children_and_parents (par_inds = np.unique of the parents,
   child_inds = 1..nb-1, child_belongs_to_branchpoint = rank of the parent), build_branchpoint_group_inds,
   remap_index_to_masked, and the edge table of Cell._init_morph_jax_spsolve (types 0-4, in the code's order).
   Executable, axiom-free; compared EXACTLY with the running code on every sampled cell;
   Proofs/AsmIdxFacts.v proves that the consistency check of Model/AsmStruct.v holds for EVERY cell. *)
From Coq Require Import List Arith Bool.
From JV Require Import HinesArr HinesCheck HinesIdx AsmStruct.
Import ListNotations.

Section AsmIdx.
  Variables (ps ns : list nat).
  Notation nbr_ := (length ps).

  (* cumulative number of (real) compartments before branch b, and their total *)
  Definition tcs (b : nat) : nat := fold_right Nat.add 0 (map (ncomp_of ns) (seq 0 b)).
  Definition total : nat := tcs nbr_.

  Definition par_inds_of : list nat := parents_with_kids ps.
  Definition child_inds_of : list nat := seq 1 (nbr_ - 1).
  Definition cbb : list nat := map (fun b => bp_of ps (par_of ps b)) child_inds_of.
  Definition group_of : list nat := seq 0 (length par_inds_of) ++ cbb.

  (* remap_index_to_masked: compartment r of branch b sits in slot (padded start of b) + r *)
  Definition mask_of : list nat :=
    flat_map (fun b => map (fun r => cs_of ps ns b + r) (seq 0 (ncomp_of ns b))) (seq 0 nbr_).

  Definition edges0 : list trip :=
    flat_map (fun b => let n := ncomp_of ns b in let c := tcs b in
                map (fun r => (c + r, c + r + 1, 0)) (seq 0 (n - 1)) ++ map (fun r => (c + r + 1, c + r, 0)) (seq 0 (n - 1)))
             (seq 0 nbr_).
  Definition edges1 : list trip :=
    map (fun jp => (total + fst jp, tcs (snd jp + 1) - 1, 1)) (combine (seq 0 (length par_inds_of)) par_inds_of).
  Definition edges2 : list trip :=
    map (fun jc => (total + fst jc, tcs (snd jc), 2)) (combine cbb child_inds_of).
  Definition edges3 : list trip := map (fun e => (t_sink e, fst (fst e), 3)) edges1.
  Definition edges4 : list trip := map (fun e => (t_sink e, fst (fst e), 4)) edges2.
  Definition triples_of : list trip := edges0 ++ edges1 ++ edges2 ++ edges3 ++ edges4.

  (* what the harness compares with the code *)
  Definition asm_summary : list trip * (list nat * (list nat * (list nat * list nat))) :=
    (triples_of, (mask_of, (group_of, (child_inds_of, par_inds_of)))).
End AsmIdx.
