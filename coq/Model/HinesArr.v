(* Array-level model of jaxley's branched voltage solver (jaxley/solver_voltage.py:
   _triang_branched / _backsub_branched with tridiax' normalising Thomas variant), C01.

   The code keeps the system in flat, padded arrays:
     per slot   : diags, lowers, uppers, solves      (slot = padded compartment position)
     per bp     : branchpoint_diags, branchpoint_solves
     per branch : bp_conds_children, bp_conds_parents, bp_weights_children, bp_weights_parents
   and works through the levels of the tree.  Here every array is a total function from
   nat (no length side conditions), the level loops are unfolded by [ops_of_idx] into a
   list of elementary operations, each of which touches one row of the system, and
   [run] folds them over the store.  Polymorphic in the number type (R in the theorems,
   Q under vm_compute in the correspondence check).  Axiom-free. *)
From Coq Require Import List Arith Bool.
Import ListNotations.

Section HinesArr.
  Variable F : Type.
  Variables (fadd fsub fmul fdiv : F -> F -> F) (f0 f1 : F).

  Definition upd (f : nat -> F) (i : nat) (v : F) : nat -> F :=
    fun j => if Nat.eqb j i then v else f j.

  Record store : Type := mkstore {
    dg : nat -> F; lw : nat -> F; up : nat -> F; sv : nat -> F;     (* per slot *)
    bd : nat -> F; bs : nat -> F;                                   (* per branch point *)
    cc : nat -> F; cp : nat -> F; wc : nat -> F; wp : nat -> F      (* per branch *)
  }.
  (* cc b : coefficient of the branch point b hangs on, in the row of b's first compartment
     cp b : coefficient of the branch point at b's far end, in the row of b's last compartment
     wc b : coefficient of b's first compartment in the row of the branch point b hangs on
     wp b : coefficient of b's last compartment in the row of the branch point at b's end  *)

  (* the index structure (JaxleySolveIndexer): padded start, padded length and real
     number of compartments of every branch *)
  Record layout : Type := mklayout {
    cs : nat -> nat; pl : nat -> nat; nc : nat -> nat
  }.
  Definition first (ly : layout) (b : nat) := cs ly b.
  Definition last (ly : layout) (b : nat) := cs ly b + nc ly b - 1.

  Inductive op : Type :=
  | Norm (b k : nat)          (* scale row k>=1 of branch b so that its diagonal is 1 *)
  | ElimUp (b k : nat)        (* remove the upper entry of row k with the (normalised) row k+1 *)
  | ChildLower (b j : nat)    (* remove child b's first compartment from branch-point row j *)
  | ParentUpper (b j : nat)   (* remove branch point j from the last row of its parent b *)
  | DivFirst (b : nat)        (* solve the first row of b *)
  | SubLower (b k : nat)      (* solve row k>=1 of b with the solved row k-1 *)
  | ParentLower (b j : nat)   (* remove parent b's last compartment from branch-point row j *)
  | ChildUpper (b j : nat).   (* remove branch point j from the first row of child b *)

  Definition step (ly : layout) (s : store) (o : op) : store :=
    match o with
    | Norm b k =>
        let i := cs ly b + k in
        let p := dg s i in
        mkstore (upd (dg s) i f1) (upd (lw s) i (fdiv (lw s i) p)) (up s) (upd (sv s) i (fdiv (sv s i) p))
                (bd s) (bs s) (cc s) (cp s) (wc s) (wp s)
    | ElimUp b k =>
        let i := cs ly b + k in
        let u := up s i in
        mkstore (upd (dg s) i (fsub (dg s i) (fmul u (lw s (S i))))) (lw s) (upd (up s) i f0)
                (upd (sv s) i (fsub (sv s i) (fmul u (sv s (S i)))))
                (bd s) (bs s) (cc s) (cp s) (wc s) (wp s)
    | ChildLower b j =>
        let i := first ly b in
        let m := fdiv (fsub f0 (wc s b)) (dg s i) in
        mkstore (dg s) (lw s) (up s) (sv s)
                (upd (bd s) j (fadd (bd s j) (fmul m (cc s b)))) (upd (bs s) j (fadd (bs s j) (fmul m (sv s i))))
                (cc s) (cp s) (upd (wc s) b f0) (wp s)
    | ParentUpper b j =>
        let i := last ly b in
        let m := fdiv (cp s b) (bd s j) in
        mkstore (upd (dg s) i (fadd (dg s i) (fmul (fsub f0 m) (wp s b)))) (lw s) (up s)
                (upd (sv s) i (fadd (sv s i) (fmul (fsub f0 m) (bs s j))))
                (bd s) (bs s) (cc s) (upd (cp s) b f0) (wc s) (wp s)
    | DivFirst b =>
        let i := first ly b in
        mkstore (upd (dg s) i f1) (lw s) (up s) (upd (sv s) i (fdiv (sv s i) (dg s i)))
                (bd s) (bs s) (cc s) (cp s) (wc s) (wp s)
    | SubLower b k =>
        let i := cs ly b + k in
        mkstore (dg s) (upd (lw s) i f0) (up s) (upd (sv s) i (fsub (sv s i) (fmul (lw s i) (sv s (i - 1)))))
                (bd s) (bs s) (cc s) (cp s) (wc s) (wp s)
    | ParentLower b j =>
        let i := last ly b in
        mkstore (dg s) (lw s) (up s) (sv s)
                (bd s) (upd (bs s) j (fadd (bs s j) (fdiv (fmul (fsub f0 (sv s i)) (wp s b)) (dg s i))))
                (cc s) (cp s) (wc s) (upd (wp s) b f0)
    | ChildUpper b j =>
        let i := first ly b in
        mkstore (dg s) (lw s) (up s)
                (upd (sv s) i (fadd (sv s i) (fdiv (fmul (fsub f0 (bs s j)) (cc s b)) (bd s j))))
                (bd s) (bs s) (upd (cc s) b f0) (cp s) (wc s) (wp s)
    end.

  (* the number every operation divides by *)
  Definition divisor (ly : layout) (s : store) (o : op) : F :=
    match o with
    | Norm b k => dg s (cs ly b + k)
    | ElimUp _ _ => f1
    | ChildLower b _ => dg s (first ly b)
    | ParentUpper _ j => bd s j
    | DivFirst b => dg s (first ly b)
    | SubLower _ _ => f1
    | ParentLower b _ => dg s (last ly b)
    | ChildUpper _ j => bd s j
    end.

  Definition run (ly : layout) (ops : list op) (s : store) : store := fold_left (step ly) ops s.

  Fixpoint divisors (ly : layout) (ops : list op) (s : store) : list F :=
    match ops with
    | [] => []
    | o :: r => divisor ly s o :: divisors ly r (step ly s o)
    end.

  (* ---- the schedule of the code ---- *)
  (* tridiax.thomas_triang_upper on the padded slice of branch b (n = padded length):
     n <= 1: nothing; else normalise the last row, then for k = n-2 .. 1 eliminate the
     upper entry and normalise, then eliminate the upper entry of row 0 (not normalised) *)
  Definition triang_branch (ly : layout) (b : nat) : list op :=
    let n := pl ly b in
    if n <=? 1 then []
    else Norm b (n - 1) :: flat_map (fun k => [ElimUp b k; Norm b k]) (rev (seq 1 (n - 2))) ++ [ElimUp b 0].

  (* tridiax.thomas_backsub_lower followed by diags := 1, lowers := 0 *)
  Definition backsub_branch (ly : layout) (b : nat) : list op :=
    DivFirst b :: map (SubLower b) (seq 1 (pl ly b - 1)).

  (* children_in_level / parents_in_level: per level the (branch, branch point) pairs *)
  Definition level := (list (nat * nat) * list (nat * nat))%type.

  Definition triang_level (ly : layout) (lv : level) : list op :=
    flat_map (fun c => triang_branch ly (fst c)) (fst lv)
    ++ map (fun c => ChildLower (fst c) (snd c)) (fst lv)
    ++ map (fun p => ParentUpper (fst p) (snd p)) (snd lv).

  Definition backsub_level (ly : layout) (lv : level) : list op :=
    map (fun p => ParentLower (fst p) (snd p)) (snd lv)
    ++ map (fun c => ChildUpper (fst c) (snd c)) (fst lv)
    ++ flat_map (fun c => backsub_branch ly (fst c)) (fst lv).

  Definition ops_of_idx (ly : layout) (levels : list level) (roots : list nat) : list op :=
    flat_map (triang_level ly) (rev levels) ++ flat_map (triang_branch ly) roots
    ++ flat_map (backsub_branch ly) roots ++ flat_map (backsub_level ly) levels.

  Definition solve (ly : layout) (levels : list level) (roots : list nat) (s : store) : store :=
    run ly (ops_of_idx ly levels roots) s.

  (* ---- assembly of the arrays (first half of step_voltage_implicit_with_jaxley_spsolve) ---- *)
  Record edge : Type := mkedge { e_source : nat; e_sink : nat; e_type : nat; e_g : F }.

  Definition addat (f : nat -> F) (i : nat) (v : F) : nat -> F := upd f i (fadd (f i) v).
  Definition fneg (a : F) : F := fsub f0 a.
  Definition of_type (t : nat) (es : list edge) : list edge := filter (fun e => Nat.eqb (e_type e) t) es.
  Definition set_all (f : nat -> F) (inds : list nat) (vals : list F) : nat -> F :=
    fold_left (fun acc iv => upd acc (fst iv) (snd iv)) (combine inds vals) f.

  Definition assemble (mask : nat -> nat) (ncomp : nat) (es : list edge) (v vt ct : nat -> F) (dt : F)
             (group child_inds par_inds : list nat) : store :=
    let comps := seq 0 ncomp in
    let dg0 := fold_left (fun acc e => if e_type e <=? 2 then addat acc (mask (e_sink e)) (fmul dt (e_g e)) else acc)
                         es (fun _ => f1) in
    let dg1 := fold_left (fun acc i => addat acc (mask i) (fmul dt (vt i))) comps dg0 in
    let sv1 := fold_left (fun acc i => addat acc (mask i) (fadd (v i) (fmul dt (ct i)))) comps (fun _ => f0) in
    let c2c := of_type 0 es in
    let up1 := fold_left (fun acc e => if e_sink e <? e_source e then addat acc (mask (e_sink e)) (fmul (fneg dt) (e_g e)) else acc)
                         c2c (fun _ => f0) in
    let lw1 := fold_left (fun acc e => if e_source e <? e_sink e then addat acc (mask (e_sink e)) (fmul (fneg dt) (e_g e)) else acc)
                         c2c (fun _ => f0) in
    let weights := map e_g (of_type 3 es) ++ map e_g (of_type 4 es) in
    let bd1 := fold_left (fun acc jw => upd acc (fst jw) (fsub (acc (fst jw)) (snd jw))) (combine group weights) (fun _ => f0) in
    let z := fun _ : nat => f0 in
    mkstore dg1 lw1 up1 sv1 bd1 z
            (set_all z child_inds (map (fun e => fmul (fneg dt) (e_g e)) (of_type 2 es)))
            (set_all z par_inds (map (fun e => fmul (fneg dt) (e_g e)) (of_type 1 es)))
            (set_all z child_inds (map e_g (of_type 4 es)))
            (set_all z par_inds (map e_g (of_type 3 es))).

  Definition step_implicit (ly : layout) (levels : list level) (roots : list nat)
             (mask : nat -> nat) (ncomp : nat) (es : list edge) (v vt ct : nat -> F) (dt : F)
             (group child_inds par_inds : list nat) : list F :=
    let s := solve ly levels roots (assemble mask ncomp es v vt ct dt group child_inds par_inds) in
    map (fun i => sv s (mask i)) (seq 0 ncomp).
End HinesArr.

Arguments mkstore {F}.
Arguments dg {F}. Arguments lw {F}. Arguments up {F}. Arguments sv {F}. Arguments bd {F}. Arguments bs {F}.
Arguments cc {F}. Arguments cp {F}. Arguments wc {F}. Arguments wp {F}.
Arguments mkedge {F}.
